import Isotp.Proofs.Compose
import Isotp.Proofs.NetLog
/-
  Network-level safety (C01 / C10), part 4: the receiving role of a layer inside `process()`.

  * `RecvInv` (`receiver_stream`): as long as no error is reported, the data frames the layer has read from the bus
    (accepted by its address filter, not Flow Control) have been handed to `_process_rx` in order, with only
    reception-neutral steps in between (`Rx.Feeds` from the initial state) — on the state with the whole history
    in its log (`relog`).
  * `GotInv`: what `recv()` returned so far followed by the rx queue is what the log records as delivered.
-/
namespace Isotp.NetP
open Isotp Isotp.State

/-! ### Flow Control frames, by their PCI nibble -/

/-- N_PCI type 3 at the position after the address prefix of `k` bytes -/
def isFc (k : Nat) (m : CanMsg) : Bool := byteAt (m.data.drop k) 0 / 16 == 3

theorem decodeBody_type3 (d : Bytes) (h3 : byteAt d 0 / 16 = 3) :
    decodeBody d = none ∨ ∃ st bs stm, decodeBody d = some (.fc st bs stm) := by
  unfold decodeBody
  dsimp only
  rw [h3]
  simp only [show ((3 : Nat) = 0) = False by decide, show ((3 : Nat) = 1) = False by decide,
    show ((3 : Nat) = 2) = False by decide, if_false, if_true]
  repeat' split
  all_goals first | exact Or.inl rfl | exact Or.inr ⟨_, _, _, rfl⟩

/-- such a frame is decoded as a Flow Control or rejected -/
theorem isFc_decode (k : Nat) (m : CanMsg) (h : isFc k m = true) :
    decode m.data k = none ∨ ∃ st bs stm cdl rdl, decode m.data k = some ⟨.fc st bs stm, cdl, rdl⟩ := by
  have h3 : byteAt (m.data.drop k) 0 / 16 = 3 := by simpa [isFc] using h
  unfold decode
  split
  · exact Or.inl rfl
  · rcases decodeBody_type3 _ h3 with hb | ⟨st, bs, stm, hb⟩
    · rw [hb]; exact Or.inl rfl
    · rw [hb]; exact Or.inr ⟨_, _, _, _, _, rfl⟩

/-! ### `RxSame` and the older history -/

theorem rxTrace_relog (s : State) (L : List Ev) :
    Rx.rxTrace (relog s L) = L.reverse.filterMap Rx.rxEv ++ Rx.rxTrace s := by
  simp [Rx.rxTrace, relog, List.filterMap_append]

theorem rxSame_relog {s s' : State} (h : Rx.RxSame s s') (L : List Ev) : Rx.RxSame (relog s L) (relog s' L) := by
  have e : Rx.rxView s' = Rx.rxView s := h
  have e1 := congrArg Rx.RxView.rxState e
  have e2 := congrArg Rx.RxView.rxBuf e
  have e3 := congrArg Rx.RxView.rxFrameLen e
  have e4 := congrArg Rx.RxView.lastSeq e
  have e5 := congrArg Rx.RxView.rxBlockCnt e
  have e6 := congrArg Rx.RxView.actualRxdl e
  have e7 := congrArg Rx.RxView.cfg e
  have e8 := congrArg Rx.RxView.addr e
  have e9 : Rx.rxTrace s' = Rx.rxTrace s := congrArg Rx.RxView.trace e
  simp only [Rx.rxView] at e1 e2 e3 e4 e5 e6 e7 e8
  show Rx.rxView (relog s' L) = Rx.rxView (relog s L)
  simp only [Rx.rxView, rxTrace_relog, e9]
  simp only [relog, e1, e2, e3, e4, e5, e6, e7, e8]

theorem delivered_relog (s : State) (L : List Ev) :
    Rx.delivered (relog s L) = (L.reverse.filterMap Rx.rxEv).filterMap Rx.RxEv.payload ++ Rx.delivered s := by
  simp [Rx.delivered, rxTrace_relog, List.filterMap_append]

/-! ### the data frames a layer has been fed with -/

/-- data fields of the frames read from the bus that pass the address filter and are not Flow Control -/
def fed (a : Addr) (evs : List Ev) : List Bytes :=
  ((rxOf evs).filter (fun m => a.rx.isForMe m && !isFc a.rx.rxPrefixSize m)).map (·.data)

theorem fed_append (a : Addr) (x y : List Ev) : fed a (x ++ y) = fed a x ++ fed a y := by
  simp [fed, rxOf_append]

theorem fed_internal (a : Addr) (l : List Ev) (h : ∀ e ∈ l, Ev.internal e = true) : fed a l = [] := by
  simp [fed, rxOf_internal l h]

theorem IntExt.fed {l l' : List Ev} (h : IntExt l l') (a : Addr) (L : List Ev) :
    fed a (l' ++ L).reverse = fed a (l ++ L).reverse := by
  simp only [NetP.fed, h.rxOf L]

theorem fed_rx (a : Addr) (l L : List Ev) (t : Nat) (m : CanMsg) :
    fed a (Ev.rx t m :: l ++ L).reverse =
      fed a (l ++ L).reverse ++ (if a.rx.isForMe m && !isFc a.rx.rxPrefixSize m then [m.data] else []) := by
  simp only [List.cons_append, List.reverse_cons, fed_append]
  congr 1
  simp only [fed, rxOf, List.filterMap_cons, List.filterMap_nil, List.filter_cons, List.filter_nil]
  split <;> rfl

/-- **Receiver invariant.** `L`: events of the earlier operations (newest first); `s.log`: events of the current one. -/
def RecvInv (c : Cfg) (a : Addr) (s : State) (L : List Ev) : Prop :=
  noErr (s.log ++ L) = true → Rx.Feeds (State.init c a) (fed a (s.log ++ L).reverse) (relog s L)

theorem feeds_same {x y z : State} {fs : List Bytes} (h : Rx.Feeds x fs y) (hs : Rx.RxSame y z) : Rx.Feeds x fs z := by
  have := Compose.Feeds.append h (Rx.Feeds.done hs)
  rwa [List.append_nil] at this

theorem feeds_snoc {x y z : State} {fs : List Bytes} (h : Rx.Feeds x fs y) (hs : Rx.RxSame y z) (m : CanMsg) :
    Rx.Feeds x (fs ++ [m.data]) (z.processRx m).1 :=
  Compose.Feeds.append h (Rx.Feeds.frame hs rfl (Rx.Feeds.done (Rx.RxSame.refl _)))

/-- neutral step: `RxSame`, and no frame read -/
theorem RecvInv.neutral {c : Cfg} {a : Addr} {s s' : State} {L : List Ev} (h : RecvInv c a s L)
    (hs : Rx.RxSame s s') (hl : IntExt s.log s'.log) : RecvInv c a s' L := by
  intro hn
  have := h (hl.noErr L hn)
  rw [hl.fed a L]
  exact feeds_same this (rxSame_relog hs L)

theorem rxSame_arrive (s : State) (dt : Nat) (m : CanMsg) (rest : List (Nat × CanMsg)) :
    Rx.RxSame s (arrive s dt m rest) := by
  show Rx.rxView (arrive s dt m rest) = Rx.rxView s
  unfold arrive
  rw [Rx.rxView_emit_rx]
  exact Rx.rxView_congr _ _ rfl rfl rfl rfl rfl rfl rfl rfl rfl

theorem checkTimeoutsRx_noErr (s : State) (L : List Ev) (h : noErr (s.checkTimeoutsRx.log ++ L) = true) :
    s.checkTimeoutsRx = s := by
  cases ht : s.timerCf.timedOut s.now with
  | false => unfold checkTimeoutsRx; simp [ht]
  | true =>
    rw [Rx.checkTimeoutsRx_expired s ht] at h
    simp [noErr, Ev.isErr] at h

theorem rxOne_log2 (s : State) (dt : Nat) (m : CanMsg) (rest : List (Nat × CanMsg)) :
    IntExt (arrive s dt m rest).checkTimeoutsRx.log (rxOne s dt m rest).log := by
  unfold rxOne
  split
  · exact IntExt.of_rx (RxFrame.processRx _ m).log
  · exact IntExt.refl _

theorem RecvInv.frame {c : Cfg} {a : Addr} {s : State} {L : List Ev} (h : RecvInv c a s L)
    (dt : Nat) (m : CanMsg) (rest : List (Nat × CanMsg)) : RecvInv c a (rxOne s dt m rest) L := by
  intro hn
  -- no timeout was reported
  have hn2 : noErr ((arrive s dt m rest).checkTimeoutsRx.log ++ L) = true := (rxOne_log2 s dt m rest).noErr L hn
  have hct := checkTimeoutsRx_noErr _ L hn2
  have hn1 : noErr ((arrive s dt m rest).log ++ L) = true := by rw [hct] at hn2; exact hn2
  have hn0 : noErr (s.log ++ L) = true := by
    rw [arrive_log, List.cons_append, noErr_cons] at hn1
    exact (Bool.and_eq_true _ _ ▸ hn1).2
  have hF := h hn0
  have haddr : s.addr = a := (Compose.Feeds.cfg_addr hF).2
  have hs1 : Rx.RxSame (relog s L) (relog (arrive s dt m rest) L) := rxSame_relog (rxSame_arrive s dt m rest) L
  have hfed1 := fed_rx a s.log L (s.now + dt) m
  unfold rxOne at hn ⊢
  rw [hct] at hn ⊢
  have ha1 : (arrive s dt m rest).addr = a := haddr
  by_cases hfm : a.rx.isForMe m = true
  · rw [ha1, if_pos hfm] at hn ⊢
    by_cases hfc : isFc a.rx.rxPrefixSize m = true
    · -- a Flow Control frame (or garbage with PCI type 3)
      have hdec := isFc_decode _ m hfc
      rw [← ha1] at hdec
      rcases hdec with hd | ⟨st, bs, stm, cdl, rdl, hd⟩
      · rw [Rx.processRx_none_eq _ m hd] at hn
        simp [noErr, Ev.isErr] at hn
      · rw [Rx.processRx_fc_eq _ m st bs stm cdl rdl hd]
        show Rx.Feeds _ (fed a ((arrive s dt m rest).log ++ L).reverse) _
        rw [arrive_log, hfed1, hfm, hfc]
        simp only [Bool.not_true, Bool.and_false, Bool.false_eq_true, if_false, List.append_nil]
        refine feeds_same hF (Rx.RxSame.trans hs1 ?_)
        exact Rx.rxView_congr _ _ rfl rfl rfl rfl rfl rfl rfl rfl rfl
    · -- a data frame: handed to `_process_rx`
      have hfc' : isFc a.rx.rxPrefixSize m = false := by simpa using hfc
      have hlog := IntExt.of_rx (RxFrame.processRx (arrive s dt m rest) m).log
      rw [hlog.fed a L, arrive_log, hfed1, hfm, hfc']
      simp only [Bool.not_false, Bool.and_true, if_true]
      have := feeds_snoc hF hs1 m
      rwa [relog_processRx] at this
  · rw [ha1, if_neg hfm] at hn ⊢
    have hfm' : a.rx.isForMe m = false := by simpa using hfm
    rw [arrive_log, hfed1, hfm']
    simp only [Bool.false_and, Bool.false_eq_true, if_false, List.append_nil]
    exact feeds_same hF hs1

theorem RecvInv.step {c : Cfg} {a : Addr} {L : List Ev} (s s' : State) (h : RecvInv c a s L) (hm : Micro s s') :
    RecvInv c a s' L := by
  cases hm with
  | frame dt m rest hin => exact h.frame dt m rest
  | rxEnd hin =>
    intro hn
    have hct := checkTimeoutsRx_noErr _ L hn
    have hn' := hn
    unfold rxEnd at hn' ⊢
    rw [hct] at hn' ⊢
    have hl : IntExt s.log ((({ s with inbox := [] } : State).emit (.rxNone s.now))).log := IntExt.cons _ _ rfl
    refine RecvInv.neutral h ?_ hl hn'
    show Rx.rxView _ = Rx.rxView s
    rw [Rx.rxView_emit_rxNone]
    exact Rx.rxView_congr _ _ rfl rfl rfl rfl rfl rfl rfl rfl rfl
  | rl =>
    exact RecvInv.neutral h (Rx.rxView_congr _ _ rfl rfl rfl rfl rfl rfl rfl rfl rfl) (IntExt.refl _)
  | tx hx =>
    have h1 : RecvInv c a s.processTx.1 L := RecvInv.neutral h (Rx.rxSame_processTx s) (processTx_log s)
    unfold afterTxfn
    cases s.processTx.2.1 with
    | none => exact h1
    | some m =>
      intro hn
      have hn1 : noErr (s.processTx.1.log ++ L) = true := by
        have : (s.processTx.1.emit (.tx s.processTx.1.now m)).log = .tx s.processTx.1.now m :: s.processTx.1.log := rfl
        simp only [] at hn
        rw [this, List.cons_append, noErr_cons] at hn
        exact (Bool.and_eq_true _ _ ▸ hn).2
      have hF := h1 hn1
      have hfed : fed a ((s.processTx.1.emit (.tx s.processTx.1.now m)).log ++ L).reverse =
          fed a (s.processTx.1.log ++ L).reverse := by
        show fed a (Ev.tx _ m :: s.processTx.1.log ++ L).reverse = _
        simp [fed, rxOf, List.filterMap_append]
      simp only []
      rw [hfed]
      exact feeds_same hF (rxSame_relog (Rx.rxView_emit_txev _ _ _) L)
  | txExc hx => exact RecvInv.neutral h (Rx.rxSame_processTx s) (processTx_log s)

/-- `receiver_stream`, one `process()` call -/
theorem RecvInv.process {c : Cfg} {a : Addr} {L : List Ev} (s : State) (doRx doTx : Bool) (h : RecvInv c a s L) :
    RecvInv c a (s.process doRx doTx).1 L :=
  process_ind (fun x => RecvInv c a x L) (fun x y hx hm => RecvInv.step x y hx hm) doRx doTx s h

/-! ### the rx queue and the log -/

/-- payloads returned by `recv()` so far, then the queue = the deliveries the whole log records -/
def GotInv (s : State) (L : List Ev) (recvd : List Bytes) : Prop :=
  recvd ++ s.rxQueue = Rx.delivered (relog s L)

/-- the rx queue grows exactly by what is logged as delivered -/
def QSync (s s' : State) : Prop := ∃ l, s'.rxQueue = s.rxQueue ++ l ∧ Rx.delivered s' = Rx.delivered s ++ l

theorem QSync.refl (s : State) : QSync s s := ⟨[], by simp, by simp⟩
theorem QSync.trans {a b c : State} (h1 : QSync a b) (h2 : QSync b c) : QSync a c := by
  obtain ⟨l1, q1, d1⟩ := h1
  obtain ⟨l2, q2, d2⟩ := h2
  exact ⟨l1 ++ l2, by rw [q2, q1, List.append_assoc], by rw [d2, d1, List.append_assoc]⟩

theorem QSync.of_same {s s' : State} (hq : s'.rxQueue = s.rxQueue) (ht : Rx.rxTrace s' = Rx.rxTrace s) : QSync s s' :=
  ⟨[], by simp [hq], by simp [Rx.delivered, ht]⟩

theorem GotInv.sync {s s' : State} {L : List Ev} {recvd : List Bytes} (h : GotInv s L recvd) (hs : QSync s s') :
    GotInv s' L recvd := by
  obtain ⟨l, hq, hd⟩ := hs
  unfold GotInv at *
  rw [delivered_relog] at h ⊢
  rw [hq, hd, ← List.append_assoc, h, List.append_assoc]

theorem QSync.checkTimeoutsRx (s : State) : QSync s s.checkTimeoutsRx := by
  cases ht : s.timerCf.timedOut s.now with
  | false =>
    have : s.checkTimeoutsRx = s := by unfold State.checkTimeoutsRx; simp [ht]
    rw [this]; exact QSync.refl s
  | true =>
    rw [Rx.checkTimeoutsRx_expired s ht]
    refine ⟨[], by simp, ?_⟩
    rw [Rx.delivered_append s _ [.err s.now .ConsecutiveFrameTimeout] rfl]
    simp [Rx.rxEv, Rx.isRxErr, Rx.RxEv.payload]

theorem QSync.processTx (s : State) : QSync s s.processTx.1 :=
  QSync.of_same (TxFrame.processTx s).rxQueue (Rx.rxSame_processTx s).trace

theorem QSync.step (s s' : State) (hm : Micro s s') : QSync s s' := by
  cases hm with
  | frame dt m rest hin =>
    have h1 : QSync s (arrive s dt m rest) :=
      QSync.of_same rfl (rxSame_arrive s dt m rest).trace
    have h2 := h1.trans (QSync.checkTimeoutsRx _)
    unfold rxOne
    split
    · exact h2.trans (Rx.processRx_queue_sync _ m)
    · exact h2
  | rxEnd hin =>
    unfold rxEnd
    have h1 : QSync s (({ s with inbox := [] } : State).emit (.rxNone s.now)) :=
      QSync.of_same rfl (congrArg Rx.RxView.trace (Rx.rxView_emit_rxNone _ _))
    exact h1.trans (QSync.checkTimeoutsRx _)
  | rl => exact QSync.of_same rfl rfl
  | tx hx =>
    unfold afterTxfn
    cases s.processTx.2.1 with
    | none => exact QSync.processTx s
    | some m =>
      exact (QSync.processTx s).trans (QSync.of_same rfl (congrArg Rx.RxView.trace (Rx.rxView_emit_txev _ _ _)))
  | txExc hx => exact QSync.processTx s

theorem GotInv.process {L : List Ev} {recvd : List Bytes} (s : State) (doRx doTx : Bool) (h : GotInv s L recvd) :
    GotInv (s.process doRx doTx).1 L recvd :=
  process_ind (fun x => GotInv x L recvd) (fun x y hx hm => GotInv.sync hx (QSync.step x y hm)) doRx doTx s h

end Isotp.NetP
