"""
Scenario generators (structured, mostly valid, single PRNG).
A scenario is a list of op dicts understood by core.ImplRunner.
"""
import random

TXDLS = [8, 12, 16, 20, 24, 32, 48, 64]
MINLENS = [1, 2, 3, 4, 5, 6, 7, 8, 12, 16, 20, 24, 32, 48, 64]
VALID_STMIN = list(range(0, 0x80)) + list(range(0xF1, 0xFA))


def rand_id(rng, ext):
    """identifiers, boundary values weighted (0, 1, max, max-1, single-bit patterns)"""
    hi = (1 << 29) if ext else 0x800
    r = rng.random()
    if r < 0.12:
        return rng.choice([0, 1, hi - 1, hi - 2, hi >> 1, 0xFF % hi, 0x100 % hi])
    return rng.randrange(0, hi)


def rand_byte(rng):
    """address bytes, boundary values weighted"""
    if rng.random() < 0.25:
        return rng.choice([0, 0, 1, 0x7F, 0x80, 0xFE, 0xFF, 0xFF])
    return rng.randrange(256)


def rand_addr_pair(rng, mode=None, asym_prob=0.15):
    """returns (addrA, addrB) mirrored address-arg dicts"""
    if rng.random() < asym_prob:
        # asymmetric: A.tx half / A.rx half with independent modes; B mirrors
        h1 = rand_half(rng)
        h2 = rand_half(rng)
        a = {'asym': True, 'tx': h1['tx'], 'rx': h2['rx']}
        b = {'asym': True, 'tx': h2['tx_m'], 'rx': h1['rx_m']}
        return a, b
    h = rand_half(rng, mode)
    a = dict(h['tx'])
    a.update(h['rx'])
    b = dict(h['tx_m'])
    b.update(h['rx_m'])
    return a, b


def rand_half(rng, mode=None):
    """a random mode with tx args, rx args and their mirrors (tx_m = args with which the peer sends to my rx;
       rx_m = args with which the peer receives my tx)."""
    m = rng.randrange(7) if mode is None else mode
    ext = m in (1, 2, 4, 6)
    txid = rand_id(rng, ext)
    rxid = rand_id(rng, ext)
    while rxid == txid:
        rxid = rand_id(rng, ext)
    ta, sa, ae = rand_byte(rng), rand_byte(rng), rand_byte(rng)
    phys = func = None
    if m in (2, 6) and rng.random() < 0.3:
        # custom identifier bases (only bits 28-16 count), incl. the edges: 0, a value whose masked form is 0, all ones
        edge = [0, 0xFFFF, 0x1FFF0000, 0x10000, 0x1FFFFFFF]
        phys = rng.choice(edge) if rng.random() < 0.3 else rng.randrange(0, 1 << 29)
        func = rng.choice(edge) if rng.random() < 0.3 else rng.randrange(0, 1 << 29)
        # only one of the two customised: the other keeps the mandated base
        r = rng.random()
        if r < 0.2:
            func = None
        elif r < 0.4:
            phys = None
    d = {'mode': m}
    if m in (0, 1):
        tx = dict(d, txid=txid)
        rx = dict(d, rxid=rxid)
        tx_m = dict(d, txid=rxid)
        rx_m = dict(d, rxid=txid)
    elif m in (3, 4):
        tx = dict(d, txid=txid, target_address=ta)
        rx = dict(d, rxid=rxid, source_address=sa)
        tx_m = dict(d, txid=rxid, target_address=sa)
        rx_m = dict(d, rxid=txid, source_address=ta)
    elif m == 5:
        tx = dict(d, txid=txid, address_extension=ae)
        rx = dict(d, rxid=rxid, address_extension=ae)
        tx_m = dict(d, txid=rxid, address_extension=ae)
        rx_m = dict(d, rxid=txid, address_extension=ae)
    else:
        base = dict(d, target_address=ta, source_address=sa)
        mir = dict(d, target_address=sa, source_address=ta)
        if m == 6:
            base['address_extension'] = ae
            mir['address_extension'] = ae
        if phys is not None:
            base.update(physical_id=phys)
            mir.update(physical_id=phys)
        if func is not None:
            base.update(functional_id=func)
            mir.update(functional_id=func)
        tx = dict(base)
        rx = dict(base)
        tx_m = dict(mir)
        rx_m = dict(mir)
    return {'tx': tx, 'rx': rx, 'tx_m': tx_m, 'rx_m': rx_m}


def rx_match_frame(addr, data, rng=None, functional=False):
    """(id, ext, data-with-prefix) of a frame that the layer with address args `addr` accepts"""
    h = addr['rx'] if addr.get('asym') else addr
    m = h['mode']
    ext = m in (1, 2, 4, 6)
    pre = b''
    if m in (0, 1):
        i = h['rxid']
    elif m in (3, 4):
        i = h['rxid']
        pre = bytes([h['source_address']])
    elif m == 5:
        i = h['rxid']
        pre = bytes([h['address_extension']])
    else:
        if m == 2:
            p, f = 0x18DA0000, 0x18DB0000
        else:
            p, f = 0x18CE0000, 0x18CD0000
            pre = bytes([h['address_extension']])
        if h.get('physical_id') is not None:
            p = h['physical_id'] & 0x1FFF0000
        if h.get('functional_id') is not None:
            f = h['functional_id'] & 0x1FFF0000
        i = (f if functional else p) | (h['source_address'] << 8) | h['target_address']
    return i, ext, pre + bytes(data)


def prefix_len(addr, side='tx'):
    h = addr[side] if addr.get('asym') else addr
    return 1 if h['mode'] in (3, 4, 5, 6) else 0


def rand_params(rng, simple=False):
    p = {}
    if rng.random() < 0.6:
        p['tx_data_length'] = rng.choice(TXDLS)
    txdl = p.get('tx_data_length', 8)
    if rng.random() < 0.4:
        p['tx_data_min_length'] = rng.choice([m for m in MINLENS if m <= txdl])
    if rng.random() < 0.4:
        p['tx_padding'] = rng.choice([0, 0xAA, 0xCC, 0x55, 0xFF, rng.randrange(256)])
    if rng.random() < 0.7:
        p['blocksize'] = rng.choice([0, 1, 2, 3, 8, 15, 16, 17, 255, rng.randrange(256)])
    if rng.random() < 0.5:
        p['stmin'] = rng.choice([0, 0, 1, 2, 5, 0x7F, 0xF1, 0xF5, 0xF9, rng.choice(VALID_STMIN)])
    if rng.random() < 0.3:
        p['can_fd'] = True
        p['bitrate_switch'] = rng.random() < 0.5
    if simple:
        return p
    if rng.random() < 0.3:
        p['wftmax'] = rng.choice([0, 1, 2, 5])
    if rng.random() < 0.3:
        p['max_frame_size'] = rng.choice([0, 5, 7, 8, 20, 100, 4095, 4096, 100000])
    if rng.random() < 0.3:
        p['rx_flowcontrol_timeout'] = rng.choice([0, 1, 10, 100, 1001, 5000])
    if rng.random() < 0.3:
        p['rx_consecutive_frame_timeout'] = rng.choice([0, 1, 10, 100, 1001, 5000])
    if rng.random() < 0.2:
        p['override_receiver_stmin'] = rng.choice([0, 0.0, 0.001, 0.0005, 0.01, 0.2])
    if rng.random() < 0.25:
        p['rate_limit_enable'] = rng.random() < 0.8
        w = rng.choice([0.05, 0.1, 0.2, 0.5, 1, 0.013])
        minbr = int(txdl * 8 / w) + 1
        p['rate_limit_window_size'] = w
        p['rate_limit_max_bitrate'] = rng.choice([minbr, minbr * 2, minbr * 5, 10000, 100000, 1000000])
        if p['rate_limit_max_bitrate'] * w < txdl * 8:
            p['rate_limit_max_bitrate'] = minbr
    if rng.random() < 0.1:
        p['listen_mode'] = True
    if rng.random() < 0.1:
        p['default_target_address_type'] = rng.choice([0, 1])
    return p


def sf_capacity(txdl, pre):
    """max payload that goes into one SF for tx_data_length/prefix (ignoring min length quirks)"""
    if txdl == 8:
        return 7 - pre
    return txdl - 2 - pre


def boundary_lengths(txdl, pre):
    out = {1, 2, 6, 7, 8}
    cap = sf_capacity(txdl, pre)
    ff = txdl - 2 - pre
    cf = txdl - 1 - pre
    for k in (cap - 1, cap, cap + 1, 7 - pre, 8 - pre, ff, ff + 1, ff + cf - 1, ff + cf, ff + cf + 1, ff + 2 * cf, ff + 3 * cf + 1,
              ff + 15 * cf, ff + 16 * cf + 1, ff + 17 * cf):
        if k >= 1:
            out.add(k)
    return sorted(out)


def rand_len(rng, txdl, pre, big=0.05):
    r = rng.random()
    if r < 0.5:
        return rng.choice(boundary_lengths(txdl, pre))
    if r < 0.5 + big:
        return rng.choice([4094, 4095, 4096, 4097, 5000])
    if r < 0.8:
        return rng.randrange(1, 40)
    return rng.randrange(1, 400)


def rand_payload(rng, n):
    return bytes(rng.randrange(256) for _ in range(n))


def rand_raw_frame(rng):
    n = rng.choice([0, 1, 2, 3, 4, 5, 6, 7, 8, 8, 8, 12, 16, 20, 24, 32, 48, 64, rng.randrange(0, 70)])
    d = bytearray(rng.randrange(256) for _ in range(n))
    if n and rng.random() < 0.8:
        d[0] = (rng.choice([0, 1, 2, 3, 3, rng.randrange(16)]) << 4) | rng.choice([0, 0, 1, 2, 3, 7, 8, rng.randrange(16)])
    if n > 1 and rng.random() < 0.3:
        d[1] = rng.choice([0, 1, 5, 8, 20, 255])
    return bytes(d)


def chaos_single(rng, nops=30):
    """one layer, random valid config, random mix of everything"""
    a, _ = rand_addr_pair(rng)
    params = rand_params(rng)
    sc = [{'op': 'layer', 'i': 0, 'addr': a, 'params': params}]
    txdl = params.get('tx_data_length', 8)
    pre = prefix_len(a, 'tx')
    rid = 0
    tfc = params.get('rx_flowcontrol_timeout', 1000) * 1000000
    tcf = params.get('rx_consecutive_frame_timeout', 1000) * 1000000
    for _ in range(nops):
        r = rng.random()
        if r < 0.15:
            rid += 1
            n = rand_len(rng, txdl, pre) if rng.random() < 0.9 else 0
            if rng.random() < 0.25:
                actual = max(0, n + rng.choice([0, 0, 0, -1, -3, 2, 5]))
                sc.append({'op': 'send', 'i': 0, 'id': rid, 'gen': (n, rand_payload(rng, actual))})
            else:
                op = {'op': 'send', 'i': 0, 'id': rid, 'data': rand_payload(rng, n)}
                if rng.random() < 0.1:
                    op['tat'] = rng.choice([0, 1])
                sc.append(op)
        elif r < 0.45:
            # a frame addressed to the layer
            kind = rng.random()
            if kind < 0.35:
                st = rng.choice([0, 0, 0, 1, 2])
                body = bytes([0x30 | st, rng.choice([0, 1, 2, 3, 8, 255]), rng.choice([0, 0, 1, 2, 0x7F, 0xF1, 0xF9, 0x80, 0xFA])])
                if rng.random() < 0.3:
                    body += bytes(5)
            elif kind < 0.5:
                n = rng.randrange(1, 8)
                body = bytes([n]) + rand_payload(rng, rng.choice([n, n, n, 7, max(0, n - 1)]))
            elif kind < 0.65:
                ln = rng.choice([5, 8, 9, 14, 20, 21, 100, 4095, 5000])
                body = bytes([0x10 | (ln >> 8 & 0xF), ln & 0xFF]) + rand_payload(rng, rng.choice([6, 6, 6, 5, 10, 62]))
            elif kind < 0.85:
                body = bytes([0x20 | rng.choice([1, 1, 2, 2, 3, 0, rng.randrange(16)])]) + rand_payload(rng, rng.choice([7, 7, 7, 3, 0, 11, 63]))
            else:
                body = rand_raw_frame(rng)
            fid, ext, data = rx_match_frame(a, body, functional=rng.random() < 0.1)
            if rng.random() < 0.05:
                fid ^= 1 << rng.randrange(11)
            if rng.random() < 0.03:
                ext = not ext
            dt = 0
            if rng.random() < 0.15:
                dt = rng.choice([1000, 1000000, tcf - 1000, tcf + 1000, tfc + 1000])
            sc.append({'op': 'frame', 'i': 0, 'id': fid, 'ext': ext, 'data': data, 'dt': max(0, dt)})
        elif r < 0.75:
            op = {'op': 'process', 'i': 0}
            q = rng.random()
            if q < 0.1:
                op['rx'] = False
            elif q < 0.13:
                op['tx'] = False
            sc.append(op)
        elif r < 0.88:
            dt = rng.choice([0, 1000, 100000, 1000000, 5000000, 5000001, 20000000, 127000000, 127000001, tfc - 1000, tfc + 1000,
                             tcf - 1000, tcf + 1000, 3 * max(tfc, tcf) + 7])
            sc.append({'op': 'tick', 'dt': max(0, dt)})
        elif r < 0.93:
            sc.append({'op': 'recv', 'i': 0})
        elif r < 0.96:
            sc.append({'op': 'stop_sending', 'i': 0})
        elif r < 0.985:
            sc.append({'op': 'stop_receiving', 'i': 0})
        else:
            sc.append({'op': 'reset', 'i': 0})
    return sc


def net_pair(rng, nmsgs=None, simple_params=True, steps=400, max_len=None, faults=False):
    """two mirrored peers, messages in both directions, random schedule until quiescent"""
    a, b = rand_addr_pair(rng)
    pa = rand_params(rng, simple=simple_params)
    pb = rand_params(rng, simple=simple_params)
    for p in (pa, pb):
        p.pop('listen_mode', None)
    sc = [{'op': 'layer', 'i': 0, 'addr': a, 'params': pa}, {'op': 'layer', 'i': 1, 'addr': b, 'params': pb}]
    rid = 0
    n0 = rng.randrange(0, 4) if nmsgs is None else nmsgs[0]
    n1 = rng.randrange(0, 4) if nmsgs is None else nmsgs[1]
    sends = []
    for side, n, p, ad, peer in ((0, n0, pa, a, pb), (1, n1, pb, b, pa)):
        txdl = p.get('tx_data_length', 8)
        pre = prefix_len(ad, 'tx')
        for _ in range(n):
            rid += 1
            ln = rand_len(rng, txdl, pre)
            if max_len is not None:
                ln = min(ln, max_len)
            ln = max(1, min(ln, peer.get('max_frame_size', 4095)))
            sends.append({'op': 'send', 'i': side, 'id': rid, 'data': rand_payload(rng, ln)})
    rng.shuffle(sends)
    # schedule: interleave sends, process, deliver, tick
    pending = list(sends)
    for _ in range(steps):
        r = rng.random()
        if pending and r < 0.1:
            sc.append(pending.pop(0))
        elif r < 0.4:
            i = rng.randrange(2)
            op = {'op': 'process', 'i': i}
            if rng.random() < 0.15:
                op['rx'] = False
            sc.append(op)
        elif r < 0.7:
            i = rng.randrange(2)
            sc.append({'op': 'deliver', 'i': i, 'j': 1 - i, 'n': rng.choice([1, 1, 1, 2, 5, 100])})
        elif r < 0.8:
            sc.append({'op': 'tick', 'dt': rng.choice([0, 1000, 100000, 1000000, 10000000, 127000001])})
        elif r < 0.9:
            sc.append({'op': 'recv', 'i': rng.randrange(2)})
        else:
            # canonical round
            sc.append({'op': 'deliver', 'i': 0, 'j': 1, 'n': 1000})
            sc.append({'op': 'process', 'i': 1})
            sc.append({'op': 'deliver', 'i': 1, 'j': 0, 'n': 1000})
            sc.append({'op': 'process', 'i': 0})
    sc.extend(pending)
    return sc


def drain(sc, rounds=50, dt=127000001):
    """append canonical rounds so that every transfer finishes"""
    for _ in range(rounds):
        sc.append({'op': 'deliver', 'i': 0, 'j': 1, 'n': 100000})
        sc.append({'op': 'process', 'i': 1})
        sc.append({'op': 'deliver', 'i': 1, 'j': 0, 'n': 100000})
        sc.append({'op': 'process', 'i': 0})
        sc.append({'op': 'tick', 'dt': dt})
    for _ in range(8):
        sc.append({'op': 'recv', 'i': 0})
        sc.append({'op': 'recv', 'i': 1})
    return sc
