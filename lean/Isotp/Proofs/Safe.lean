import Isotp.Process
/-
  Helper lemmas for C05 (receiver safe on arbitrary traffic) and C16b (an accepted configuration is
  operable): padding / DLC lemmas (local, prefixed `Safe.`), the safety invariant `Safe`, a
  decomposition of `processTx` into three stages, the generic lifting of step invariants to
  `rxLoop` / `txLoop` / `processLoop` / `process`, the receiver invariant `RxJust`, the quiet-sender
  invariant `Quiet`.  Property theorems are in `Isotp/Props/C05.lean` and `Isotp/Props/C16b.lean`.
-/
set_option linter.unusedSimpArgs false
set_option linter.unusedVariables false

namespace Isotp
open State

/-! ## Padding and DLC (`_pad_message_data`, `_get_nearest_can_fd_size`, `_get_dlc`) -/

theorem Safe.txPrefix_le (h : Half) : h.txPrefix.length ≤ 1 := by
  unfold Half.txPrefix; cases h.mode <;> simp

theorem Safe.rxPrefix_le (h : Half) : h.rxPrefixSize ≤ 1 := by
  unfold Half.rxPrefixSize; split <;> omega

theorem Safe.validTxDl_iff (n : Nat) :
    validTxDl n = true ↔ (n = 8 ∨ n = 12 ∨ n = 16 ∨ n = 20 ∨ n = 24 ∨ n = 32 ∨ n = 48 ∨ n = 64) := by
  simp [validTxDl, or_assoc]

theorem Safe.nearestFd_spec (n d : Nat) (hd : validTxDl d = true) (hle : n ≤ d) :
    ∃ f, nearestFd n = some f ∧ n ≤ f ∧ f ≤ d ∧ (f ≤ 8 ∨ validTxDl f = true) ∧ (n ≤ 8 → f = n) := by
  rw [Safe.validTxDl_iff] at hd
  simp only [Safe.validTxDl_iff]
  unfold nearestFd
  repeat' split
  all_goals first | omega | (refine ⟨_, rfl, ?_⟩; omega)

theorem Safe.nearestFd_fix (t : Nat) (h : t ≤ 8 ∨ validTxDl t = true) : nearestFd t = some t := by
  rw [Safe.validTxDl_iff] at h
  unfold nearestFd
  repeat' split
  all_goals first | rfl | omega | (congr 1; omega)

theorem Safe.dlcOf_ok (c : Cfg) (t : Nat) (h : t ≤ 8 ∨ validTxDl t = true) (h2 : 2 ≤ t) (hle : t ≤ c.txDl) :
    (dlcOf c t).isSome = true := by
  unfold dlcOf
  rw [Safe.nearestFd_fix t h]
  rw [Safe.validTxDl_iff] at h
  simp only
  repeat' split
  all_goals first | rfl | (simp at *; omega)

theorem Safe.padLen_ok (c : Cfg) (hv : c.valid = true) (n : Nat) (h2 : 2 ≤ n) (hle : n ≤ c.txDl) :
    ∃ t, padLen c n = some t ∧ n ≤ t ∧ t ≤ c.txDl ∧ (t ≤ 8 ∨ validTxDl t = true) := by
  simp only [Cfg.valid, Bool.and_eq_true, decide_eq_true_eq] at hv
  obtain ⟨⟨⟨⟨⟨hdl, -⟩, -⟩, hpad⟩, hmin⟩, -⟩ := hv
  obtain ⟨f, hf, hnf, hfd, hfv, hf8⟩ := Safe.nearestFd_spec n c.txDl hdl hle
  have hdl' := (Safe.validTxDl_iff _).1 hdl
  unfold padLen
  rw [hf]
  cases hm : c.txMinLen with
  | none =>
    by_cases h8 : c.txDl = 8
    · simp only [h8, if_true]
      cases c.txPadding <;> exact ⟨_, rfl, by omega⟩
    · have : c.txDl > 8 := by omega
      simp only [h8, this, if_true, if_false]
      have : max n f = f := by omega
      rw [this]
      exact ⟨_, rfl, by omega, by omega, hfv⟩
  | some m =>
    simp only [hm, validMinLen, Bool.and_eq_true, Bool.or_eq_true, decide_eq_true_eq] at hmin
    obtain ⟨hmv, hmle⟩ := hmin
    have hmax : ∀ a b : Nat, (a ≤ 8 ∨ validTxDl a = true) → (b ≤ 8 ∨ validTxDl b = true) →
        (max a b ≤ 8 ∨ validTxDl (max a b) = true) := by
      intro a b ha hb
      rw [Nat.max_def]; split <;> assumption
    have hmv' : m ≤ 8 ∨ validTxDl m = true := by
      rcases hmv with h | h
      · exact .inl h.2
      · exact .inr h
    by_cases h8 : c.txDl = 8
    · simp only [h8, if_true]
      refine ⟨_, rfl, by omega, by omega, .inl (by omega)⟩
    · have : c.txDl > 8 := by omega
      simp only [h8, this, if_true, if_false]
      refine ⟨_, rfl, by omega, by omega, ?_⟩
      by_cases hn8 : n ≤ 8
      · have hfn := hf8 hn8
        rw [hfn]
        have : max n (max m n) = max n m := by omega
        rw [this]; exact hmax _ _ (.inl hn8) hmv'
      · have : max n (max m f) = max m f := by omega
        rw [this]; exact hmax _ _ hmv' hfv

theorem Safe.makeTxMsg_ok (c : Cfg) (a : Addr) (id : Nat) (d : Bytes) (hv : c.valid = true)
    (h2 : 2 ≤ d.length) (hle : d.length ≤ c.txDl) :
    ∃ m, makeTxMsg c a id d = some m ∧ 2 ≤ m.data.length ∧ m.data.length ≤ c.txDl ∧
      d.length ≤ m.data.length := by
  obtain ⟨t, ht, h1, h2', h3⟩ := Safe.padLen_ok c hv d.length h2 hle
  have hd := Safe.dlcOf_ok c t h3 (by omega) h2'
  obtain ⟨dl, hdl⟩ := Option.isSome_iff_exists.1 hd
  unfold makeTxMsg pad
  simp only [ht]
  have hlen : (d ++ List.replicate (t - d.length) (padByte c)).length = t := by
    simp; omega
  rw [hlen, hdl]
  exact ⟨_, rfl, by simp only [hlen]; omega⟩

/-! ## `FiniteByteGenerator.consume` -/

theorem Safe.consume_size (r : Req) (n : Nat) (e : Bool) : (r.consume n e).1.size = r.size := by
  unfold Req.consume; grind

theorem Safe.consume_mono (r : Req) (n : Nat) (e : Bool) : r.consumed ≤ (r.consume n e).1.consumed := by
  unfold Req.consume; grind

theorem Safe.consume_some (r : Req) (n : Nat) (e : Bool) (p : Bytes) (h : (r.consume n e).2 = some p) :
    (r.consume n e).1.consumed = r.consumed + p.length ∧ (r.consume n e).1.consumed ≤ r.size ∧
      p.length ≤ n ∧ (e = true → p.length = n) := by
  unfold Req.consume at *; grind

/-- a non-exact `consume` of at most the remaining size cannot raise `BadGeneratorError` -/
theorem Safe.consume_nonexact (r : Req) (n : Nat) (h : r.consumed ≤ r.size) (hn : n ≤ r.remaining) :
    (r.consume n false).2 ≠ none := by
  unfold Req.consume Req.remaining at *
  have := List.length_take_le n r.src
  simp only [Bool.false_eq_true, if_false]
  split
  · omega
  · split <;> simp

/-! ## The safety invariant -/

/-- Everything `_process_tx` relies on without checking it (each clause is what makes one Python
    exception site unreachable), plus the well-formedness facts that keep these clauses inductive. -/
structure Safe (s : State) : Prop where
  /-- the configuration passed `Params.validate` -/
  cfg_valid : s.cfg.valid = true
  /-- `pending_flowcontrol_status` exists whenever `pending_flow_control_tx` is set (AttributeError site) -/
  pend : s.pendingFc = true → s.pendingFcStatus.isSome = true
  /-- `assert self.active_send_request is not None` -/
  busy : s.txState ≠ .idle → s.active.isSome = true
  /-- `assert self.remote_blocksize is not None` -/
  bs : s.txState = .transmitCf → s.remoteBs.isSome = true
  /-- the sequence number is a nibble -/
  seq : s.txSeq < 16
  /-- a frame parked by the rate limiter is a legal CAN frame for this configuration -/
  standby_wf : ∀ m, s.standby = some m → 2 ≤ m.data.length ∧ m.data.length ≤ s.cfg.txDl
  /-- the generator of the request in transmission has not produced more than announced -/
  active_wf : ∀ r, s.active = some r → r.consumed ≤ r.size

theorem Safe.init (c : Cfg) (a : Addr) (hc : c.valid = true) : Safe (State.init c a) := by
  constructor <;> simp [State.init, hc]

/-- the part of the state `Safe` talks about -/
theorem Safe.congr {s s' : State} (h : Safe s) (h1 : s'.cfg = s.cfg) (h2 : s'.pendingFc = s.pendingFc)
    (h3 : s'.pendingFcStatus = s.pendingFcStatus) (h4 : s'.txState = s.txState) (h5 : s'.active = s.active)
    (h6 : s'.remoteBs = s.remoteBs) (h7 : s'.txSeq = s.txSeq) (h8 : s'.standby = s.standby) : Safe s' := by
  obtain ⟨a, b, c, d, e, f, g⟩ := h
  constructor <;> simp_all

theorem Safe.emit {s : State} (h : Safe s) (e : Ev) : Safe (s.emit e) := h.congr rfl rfl rfl rfl rfl rfl rfl rfl
theorem Safe.error {s : State} (h : Safe s) (e : Err) : Safe (s.error e) := h.congr rfl rfl rfl rfl rfl rfl rfl rfl
theorem Safe.raise {s : State} (h : Safe s) (e : PyExc) : Safe (s.raise e) := h.congr rfl rfl rfl rfl rfl rfl rfl rfl

theorem Safe.stopSending {s : State} (h : Safe s) (b : Bool) : Safe (s.stopSending b) := by
  obtain ⟨a, b, c, d, e, f, g⟩ := h
  constructor <;> grind [State.stopSending, State.emit]

theorem Safe.stopReceiving {s : State} (h : Safe s) : Safe s.stopReceiving := by
  obtain ⟨a, b, c, d, e, f, g⟩ := h
  constructor <;> grind [State.stopReceiving]

theorem Safe.requestFc {s : State} (h : Safe s) (st : Nat) : Safe (s.requestFc st) := by
  obtain ⟨a, b, c, d, e, f, g⟩ := h
  constructor <;> grind [State.requestFc]

theorem Safe.processRx {s : State} (h : Safe s) (m : CanMsg) : Safe (s.processRx m).1 := by
  obtain ⟨a, b, c, d, e, f, g⟩ := h
  unfold State.processRx State.startReception
  constructor <;>
    grind [deliver, State.stopReceiving, State.error, State.emit, State.requestFc, startRxCfTimer]

theorem Safe.checkTimeoutsRx {s : State} (h : Safe s) : Safe s.checkTimeoutsRx := by
  unfold State.checkTimeoutsRx
  split
  · exact (h.error _).stopReceiving
  · exact h

/-! ## `_process_tx` in three stages

`processTx` is a long function; the proofs go through three stages with the same text as the
model (`processTx_eq` is `rfl`). -/
namespace State

/-- stage 1: the pending Flow Control requested by the receive side.
    `some none` = an exception was raised, `some (some msg)` = the Flow Control is sent. -/
def pendStage (s : State) : State × Option (Option CanMsg) :=
  if s.pendingFc then
    let s := { s with pendingFc := false }
    match s.pendingFcStatus with
    | none => (s.raise .AttributeError, some none)
    | some st =>
      let s := if st = 0 then s.startRxCfTimer else s
      if !s.cfg.listen then
        match makeFlowControl s.cfg s.addr st with
        | none => (s.raise .ValueError, some none)
        | some msg => (s, some (some msg))
      else (s, none)
  else (s, none)

/-- stage 2: the received Flow Control in the mailbox. `true` = Overflow status, `_process_tx` returns. -/
def fcStage (s : State) : State × Bool :=
  let fc := s.lastFc
  let s := { s with lastFc := none }
  match fc with
  | some f => if f.status = 2 then (((s.stopSending false).error .Overflow), true) else (s.handleFc f, false)
  | none => (s, false)

/-- stage 3b: the transmit state machine proper. -/
def fsmDispatch (s : State) (allowed : Nat) : State × Option CanMsg × Bool :=
  match s.txState with
  | .idle =>
    let (s, out) := s.readTxQueue allowed s.txQueue
    (s, out, false)
  | .sfStandby | .ffStandby =>
    match s.standby with
    | some msg =>
      if msg.data.length ≤ allowed then
        let s := { s with standby := none }
        if s.txState = .ffStandby then
          (({ s.startRxFcTimer with txState := .waitFc }), some msg, false)
        else (s.stopSending true, some msg, false)
      else (s, none, false)
    | none => (s, none, false)
  | .waitFc => (s, none, false)
  | .transmitCf => s.transmitCf allowed

/-- stage 3: timeout, assertion, state machine, rate-limiter accounting. -/
def fsmStage (s : State) (allowed : Nat) : State × Option CanMsg × Bool :=
  let s := if s.timerFc.timedOut s.now then (s.error .FlowControlTimeout).stopSending false else s
  if s.txState ≠ .idle && s.active.isNone then (s.raise .AssertionError, none, false) else
  let s := if s.txState ≠ .idle && (match s.active with | some r => r.depleted | none => false) && s.standby.isNone
           then s.stopSending true else s
  let (s, out, imm) := s.fsmDispatch allowed
  if s.exc.isSome then (s, none, false) else
  match out with
  | some msg => ({ s with rl := s.rl.inform s.now msg.data.length }, some msg, imm)
  | none => (s, none, imm)

theorem processTx_eq (s : State) :
    s.processTx =
      match s.pendStage with
      | (s1, some none) => (s1, none, false)
      | (s1, some (some msg)) => (s1, some msg, true)
      | (s1, none) =>
        match s1.fcStage with
        | (s2, true) => (s2, none, false)
        | (s2, false) => s2.fsmStage (s.rl.allowedBytes s.cfg.rlBitMax) := rfl

end State

/-! ## `Safe` is preserved by `_process_tx`, and no exception site is reachable -/

theorem Safe.makeTxMsg_ne_none (c : Cfg) (a : Addr) (id : Nat) (d : Bytes) (hv : c.valid = true)
    (h2 : 2 ≤ d.length) (hle : d.length ≤ c.txDl) : makeTxMsg c a id d ≠ none := by
  obtain ⟨m, hm, -⟩ := Safe.makeTxMsg_ok c a id d hv h2 hle
  simp [hm]

theorem Safe.makeTxMsg_len (c : Cfg) (a : Addr) (id : Nat) (d : Bytes) (m : CanMsg) (hv : c.valid = true)
    (h2 : 2 ≤ d.length) (hle : d.length ≤ c.txDl) (h : makeTxMsg c a id d = some m) :
    2 ≤ m.data.length ∧ m.data.length ≤ c.txDl := by
  obtain ⟨m', hm, h⟩ := Safe.makeTxMsg_ok c a id d hv h2 hle
  simp_all

theorem Safe.txDl_ge {c : Cfg} (hv : c.valid = true) : 8 ≤ c.txDl ∧ c.txDl ≤ 64 := by
  simp only [Cfg.valid, Bool.and_eq_true, Safe.validTxDl_iff] at hv
  omega

theorem Safe.makeFlowControl_ne_none (c : Cfg) (a : Addr) (st : Nat) (hv : c.valid = true) :
    makeFlowControl c a st ≠ none := by
  unfold makeFlowControl
  have := Safe.txPrefix_le a.tx
  have := Safe.txDl_ge hv
  apply Safe.makeTxMsg_ne_none _ _ _ _ hv <;> simp [fcData] <;> omega

theorem Safe.pendStage {s : State} (h : Safe s) : Safe s.pendStage.1 ∧ s.pendStage.1.exc = s.exc := by
  have hfc := Safe.makeFlowControl_ne_none s.cfg s.addr
  obtain ⟨a, b, c, d, e, f, g⟩ := h
  unfold State.pendStage
  refine ⟨?_, ?_⟩
  · constructor <;> grind [State.raise, startRxCfTimer]
  · grind [State.raise, startRxCfTimer]

theorem Safe.handleFc {s : State} (h : Safe s) (fc : FcFrame) :
    Safe (s.handleFc fc) ∧ (s.handleFc fc).exc = s.exc := by
  obtain ⟨a, b, c, d, e, f, g⟩ := h
  unfold State.handleFc
  refine ⟨?_, ?_⟩
  · constructor <;> grind [State.stopSending, State.error, State.emit, startRxFcTimer, Timer.stop, Timer.startAt]
  · grind [State.stopSending, State.error, State.emit, startRxFcTimer]

theorem Safe.fcStage {s : State} (h : Safe s) : Safe s.fcStage.1 ∧ s.fcStage.1.exc = s.exc := by
  have h0 : Safe { s with lastFc := none } := h.congr rfl rfl rfl rfl rfl rfl rfl rfl
  unfold State.fcStage
  simp only
  split
  · split
    · exact ⟨(h0.stopSending _).error _, by simp [State.stopSending, State.error, State.emit]; split <;> rfl⟩
    · exact h0.handleFc _
  · exact ⟨h0, rfl⟩

/-- the generator-pull event of `consumeActive` (harness instrumentation; only the log changes) -/
def State.pullLog (s : State) (r r' : Req) : State :=
  if r.instr && r'.consumed - r.consumed > 0 then s.emit (.pull r.id (r'.consumed - r.consumed)) else s

/-! ## Field lemmas for the two primitives whose definition branches inside a structure update
(`stopSending`, `consumeActive`); `grind`/`simp` use these instead of unfolding. -/
namespace State

@[simp, grind =] theorem stopSending_cfg (s : State) (b : Bool) : (s.stopSending b).cfg = s.cfg := by
  unfold stopSending; cases h : s.active <;> simp [h, State.emit]
@[simp, grind =] theorem stopSending_addr (s : State) (b : Bool) : (s.stopSending b).addr = s.addr := by
  unfold stopSending; cases h : s.active <;> simp [h, State.emit]
@[simp, grind =] theorem stopSending_now (s : State) (b : Bool) : (s.stopSending b).now = s.now := by
  unfold stopSending; cases h : s.active <;> simp [h, State.emit]
@[simp, grind =] theorem stopSending_rxState (s : State) (b : Bool) : (s.stopSending b).rxState = s.rxState := by
  unfold stopSending; cases h : s.active <;> simp [h, State.emit]
@[simp, grind =] theorem stopSending_rxBuf (s : State) (b : Bool) : (s.stopSending b).rxBuf = s.rxBuf := by
  unfold stopSending; cases h : s.active <;> simp [h, State.emit]
@[simp, grind =] theorem stopSending_rxFrameLen (s : State) (b : Bool) : (s.stopSending b).rxFrameLen = s.rxFrameLen := by
  unfold stopSending; cases h : s.active <;> simp [h, State.emit]
@[simp, grind =] theorem stopSending_lastSeq (s : State) (b : Bool) : (s.stopSending b).lastSeq = s.lastSeq := by
  unfold stopSending; cases h : s.active <;> simp [h, State.emit]
@[simp, grind =] theorem stopSending_rxBlockCnt (s : State) (b : Bool) : (s.stopSending b).rxBlockCnt = s.rxBlockCnt := by
  unfold stopSending; cases h : s.active <;> simp [h, State.emit]
@[simp, grind =] theorem stopSending_actualRxdl (s : State) (b : Bool) : (s.stopSending b).actualRxdl = s.actualRxdl := by
  unfold stopSending; cases h : s.active <;> simp [h, State.emit]
@[simp, grind =] theorem stopSending_timerCf (s : State) (b : Bool) : (s.stopSending b).timerCf = s.timerCf := by
  unfold stopSending; cases h : s.active <;> simp [h, State.emit]
@[simp, grind =] theorem stopSending_pendingFc (s : State) (b : Bool) : (s.stopSending b).pendingFc = s.pendingFc := by
  unfold stopSending; cases h : s.active <;> simp [h, State.emit]
@[simp, grind =] theorem stopSending_pendingFcStatus (s : State) (b : Bool) : (s.stopSending b).pendingFcStatus = s.pendingFcStatus := by
  unfold stopSending; cases h : s.active <;> simp [h, State.emit]
@[simp, grind =] theorem stopSending_rxQueue (s : State) (b : Bool) : (s.stopSending b).rxQueue = s.rxQueue := by
  unfold stopSending; cases h : s.active <;> simp [h, State.emit]
@[simp, grind =] theorem stopSending_txState (s : State) (b : Bool) : (s.stopSending b).txState = .idle := by
  unfold stopSending; cases h : s.active <;> simp [h, State.emit]
@[simp, grind =] theorem stopSending_txQueue (s : State) (b : Bool) : (s.stopSending b).txQueue = s.txQueue := by
  unfold stopSending; cases h : s.active <;> simp [h, State.emit]
@[simp, grind =] theorem stopSending_active (s : State) (b : Bool) : (s.stopSending b).active = none := by
  unfold stopSending; cases h : s.active <;> simp [h, State.emit]
@[simp, grind =] theorem stopSending_standby (s : State) (b : Bool) : (s.stopSending b).standby = none := by
  unfold stopSending; cases h : s.active <;> simp [h, State.emit]
@[simp, grind =] theorem stopSending_txFrameLen (s : State) (b : Bool) : (s.stopSending b).txFrameLen = 0 := by
  unfold stopSending; cases h : s.active <;> simp [h, State.emit]
@[simp, grind =] theorem stopSending_txSeq (s : State) (b : Bool) : (s.stopSending b).txSeq = 0 := by
  unfold stopSending; cases h : s.active <;> simp [h, State.emit]
@[simp, grind =] theorem stopSending_txBlockCnt (s : State) (b : Bool) : (s.stopSending b).txBlockCnt = 0 := by
  unfold stopSending; cases h : s.active <;> simp [h, State.emit]
@[simp, grind =] theorem stopSending_remoteBs (s : State) (b : Bool) : (s.stopSending b).remoteBs = none := by
  unfold stopSending; cases h : s.active <;> simp [h, State.emit]
@[simp, grind =] theorem stopSending_wftCnt (s : State) (b : Bool) : (s.stopSending b).wftCnt = 0 := by
  unfold stopSending; cases h : s.active <;> simp [h, State.emit]
@[simp, grind =] theorem stopSending_timerFc (s : State) (b : Bool) : (s.stopSending b).timerFc = s.timerFc.stop := by
  unfold stopSending; cases h : s.active <;> simp [h, State.emit]
@[simp, grind =] theorem stopSending_timerStmin (s : State) (b : Bool) : (s.stopSending b).timerStmin = s.timerStmin.stop := by
  unfold stopSending; cases h : s.active <;> simp [h, State.emit]
@[simp, grind =] theorem stopSending_lastFc (s : State) (b : Bool) : (s.stopSending b).lastFc = s.lastFc := by
  unfold stopSending; cases h : s.active <;> simp [h, State.emit]
@[simp, grind =] theorem stopSending_rl (s : State) (b : Bool) : (s.stopSending b).rl = s.rl := by
  unfold stopSending; cases h : s.active <;> simp [h, State.emit]
@[simp, grind =] theorem stopSending_inbox (s : State) (b : Bool) : (s.stopSending b).inbox = s.inbox := by
  unfold stopSending; cases h : s.active <;> simp [h, State.emit]
@[simp, grind =] theorem stopSending_log (s : State) (b : Bool) : (s.stopSending b).log = (match s.active with | some r => Ev.done r.id b :: s.log | none => s.log) := by
  unfold stopSending; cases h : s.active <;> simp [h, State.emit]
@[simp, grind =] theorem stopSending_exc (s : State) (b : Bool) : (s.stopSending b).exc = s.exc := by
  unfold stopSending; cases h : s.active <;> simp [h, State.emit]

@[simp, grind =] theorem consumeActive_cfg (s : State) (r : Req) (n : Nat) (e : Bool) :
    (s.consumeActive r n e).1.cfg = s.cfg := by
  first | (simp only [consumeActive, pullLog]; split <;> rfl) | simp only [consumeActive, pullLog]
@[simp, grind =] theorem consumeActive_addr (s : State) (r : Req) (n : Nat) (e : Bool) :
    (s.consumeActive r n e).1.addr = s.addr := by
  first | (simp only [consumeActive, pullLog]; split <;> rfl) | simp only [consumeActive, pullLog]
@[simp, grind =] theorem consumeActive_now (s : State) (r : Req) (n : Nat) (e : Bool) :
    (s.consumeActive r n e).1.now = s.now := by
  first | (simp only [consumeActive, pullLog]; split <;> rfl) | simp only [consumeActive, pullLog]
@[simp, grind =] theorem consumeActive_rxState (s : State) (r : Req) (n : Nat) (e : Bool) :
    (s.consumeActive r n e).1.rxState = s.rxState := by
  first | (simp only [consumeActive, pullLog]; split <;> rfl) | simp only [consumeActive, pullLog]
@[simp, grind =] theorem consumeActive_rxBuf (s : State) (r : Req) (n : Nat) (e : Bool) :
    (s.consumeActive r n e).1.rxBuf = s.rxBuf := by
  first | (simp only [consumeActive, pullLog]; split <;> rfl) | simp only [consumeActive, pullLog]
@[simp, grind =] theorem consumeActive_rxFrameLen (s : State) (r : Req) (n : Nat) (e : Bool) :
    (s.consumeActive r n e).1.rxFrameLen = s.rxFrameLen := by
  first | (simp only [consumeActive, pullLog]; split <;> rfl) | simp only [consumeActive, pullLog]
@[simp, grind =] theorem consumeActive_lastSeq (s : State) (r : Req) (n : Nat) (e : Bool) :
    (s.consumeActive r n e).1.lastSeq = s.lastSeq := by
  first | (simp only [consumeActive, pullLog]; split <;> rfl) | simp only [consumeActive, pullLog]
@[simp, grind =] theorem consumeActive_rxBlockCnt (s : State) (r : Req) (n : Nat) (e : Bool) :
    (s.consumeActive r n e).1.rxBlockCnt = s.rxBlockCnt := by
  first | (simp only [consumeActive, pullLog]; split <;> rfl) | simp only [consumeActive, pullLog]
@[simp, grind =] theorem consumeActive_actualRxdl (s : State) (r : Req) (n : Nat) (e : Bool) :
    (s.consumeActive r n e).1.actualRxdl = s.actualRxdl := by
  first | (simp only [consumeActive, pullLog]; split <;> rfl) | simp only [consumeActive, pullLog]
@[simp, grind =] theorem consumeActive_timerCf (s : State) (r : Req) (n : Nat) (e : Bool) :
    (s.consumeActive r n e).1.timerCf = s.timerCf := by
  first | (simp only [consumeActive, pullLog]; split <;> rfl) | simp only [consumeActive, pullLog]
@[simp, grind =] theorem consumeActive_pendingFc (s : State) (r : Req) (n : Nat) (e : Bool) :
    (s.consumeActive r n e).1.pendingFc = s.pendingFc := by
  first | (simp only [consumeActive, pullLog]; split <;> rfl) | simp only [consumeActive, pullLog]
@[simp, grind =] theorem consumeActive_pendingFcStatus (s : State) (r : Req) (n : Nat) (e : Bool) :
    (s.consumeActive r n e).1.pendingFcStatus = s.pendingFcStatus := by
  first | (simp only [consumeActive, pullLog]; split <;> rfl) | simp only [consumeActive, pullLog]
@[simp, grind =] theorem consumeActive_rxQueue (s : State) (r : Req) (n : Nat) (e : Bool) :
    (s.consumeActive r n e).1.rxQueue = s.rxQueue := by
  first | (simp only [consumeActive, pullLog]; split <;> rfl) | simp only [consumeActive, pullLog]
@[simp, grind =] theorem consumeActive_txState (s : State) (r : Req) (n : Nat) (e : Bool) :
    (s.consumeActive r n e).1.txState = s.txState := by
  first | (simp only [consumeActive, pullLog]; split <;> rfl) | simp only [consumeActive, pullLog]
@[simp, grind =] theorem consumeActive_txQueue (s : State) (r : Req) (n : Nat) (e : Bool) :
    (s.consumeActive r n e).1.txQueue = s.txQueue := by
  first | (simp only [consumeActive, pullLog]; split <;> rfl) | simp only [consumeActive, pullLog]
@[simp, grind =] theorem consumeActive_active (s : State) (r : Req) (n : Nat) (e : Bool) :
    (s.consumeActive r n e).1.active = some (r.consume n e).1 := by
  first | (simp only [consumeActive, pullLog]; split <;> rfl) | simp only [consumeActive, pullLog]
@[simp, grind =] theorem consumeActive_standby (s : State) (r : Req) (n : Nat) (e : Bool) :
    (s.consumeActive r n e).1.standby = s.standby := by
  first | (simp only [consumeActive, pullLog]; split <;> rfl) | simp only [consumeActive, pullLog]
@[simp, grind =] theorem consumeActive_txFrameLen (s : State) (r : Req) (n : Nat) (e : Bool) :
    (s.consumeActive r n e).1.txFrameLen = s.txFrameLen := by
  first | (simp only [consumeActive, pullLog]; split <;> rfl) | simp only [consumeActive, pullLog]
@[simp, grind =] theorem consumeActive_txSeq (s : State) (r : Req) (n : Nat) (e : Bool) :
    (s.consumeActive r n e).1.txSeq = s.txSeq := by
  first | (simp only [consumeActive, pullLog]; split <;> rfl) | simp only [consumeActive, pullLog]
@[simp, grind =] theorem consumeActive_txBlockCnt (s : State) (r : Req) (n : Nat) (e : Bool) :
    (s.consumeActive r n e).1.txBlockCnt = s.txBlockCnt := by
  first | (simp only [consumeActive, pullLog]; split <;> rfl) | simp only [consumeActive, pullLog]
@[simp, grind =] theorem consumeActive_remoteBs (s : State) (r : Req) (n : Nat) (e : Bool) :
    (s.consumeActive r n e).1.remoteBs = s.remoteBs := by
  first | (simp only [consumeActive, pullLog]; split <;> rfl) | simp only [consumeActive, pullLog]
@[simp, grind =] theorem consumeActive_wftCnt (s : State) (r : Req) (n : Nat) (e : Bool) :
    (s.consumeActive r n e).1.wftCnt = s.wftCnt := by
  first | (simp only [consumeActive, pullLog]; split <;> rfl) | simp only [consumeActive, pullLog]
@[simp, grind =] theorem consumeActive_timerFc (s : State) (r : Req) (n : Nat) (e : Bool) :
    (s.consumeActive r n e).1.timerFc = s.timerFc := by
  first | (simp only [consumeActive, pullLog]; split <;> rfl) | simp only [consumeActive, pullLog]
@[simp, grind =] theorem consumeActive_timerStmin (s : State) (r : Req) (n : Nat) (e : Bool) :
    (s.consumeActive r n e).1.timerStmin = s.timerStmin := by
  first | (simp only [consumeActive, pullLog]; split <;> rfl) | simp only [consumeActive, pullLog]
@[simp, grind =] theorem consumeActive_lastFc (s : State) (r : Req) (n : Nat) (e : Bool) :
    (s.consumeActive r n e).1.lastFc = s.lastFc := by
  first | (simp only [consumeActive, pullLog]; split <;> rfl) | simp only [consumeActive, pullLog]
@[simp, grind =] theorem consumeActive_rl (s : State) (r : Req) (n : Nat) (e : Bool) :
    (s.consumeActive r n e).1.rl = s.rl := by
  first | (simp only [consumeActive, pullLog]; split <;> rfl) | simp only [consumeActive, pullLog]
@[simp, grind =] theorem consumeActive_inbox (s : State) (r : Req) (n : Nat) (e : Bool) :
    (s.consumeActive r n e).1.inbox = s.inbox := by
  first | (simp only [consumeActive, pullLog]; split <;> rfl) | simp only [consumeActive, pullLog]
@[simp, grind =] theorem consumeActive_log (s : State) (r : Req) (n : Nat) (e : Bool) :
    (s.consumeActive r n e).1.log = (s.pullLog r (r.consume n e).1).log := by
  first | (simp only [consumeActive, pullLog]; split <;> rfl) | simp only [consumeActive, pullLog]
@[simp, grind =] theorem consumeActive_exc (s : State) (r : Req) (n : Nat) (e : Bool) :
    (s.consumeActive r n e).1.exc = s.exc := by
  first | (simp only [consumeActive, pullLog]; split <;> rfl) | simp only [consumeActive, pullLog]
@[simp, grind =] theorem consumeActive_req (s : State) (r : Req) (n : Nat) (e : Bool) :
    (s.consumeActive r n e).2.1 = (r.consume n e).1 := rfl
@[simp, grind =] theorem consumeActive_res (s : State) (r : Req) (n : Nat) (e : Bool) :
    (s.consumeActive r n e).2.2 = (r.consume n e).2 := rfl

end State

/-! ## `startTx` in pieces -/
namespace State

/-- end of the Single Frame branch of `startTx`: build the message, park it or send it -/
def sfFinish (s : State) (tat : Tat) (allowed : Nat) (msgData : Bytes) : State × Option CanMsg :=
  match makeTxMsg s.cfg s.addr (s.addr.tx.txId tat) msgData with
  | none => (s.raise .ValueError, none)
  | some msg =>
    if msgData.length > allowed then ({ s with standby := some msg, txState := .sfStandby }, none)
    else (s.stopSending true, some msg)

/-- end of the First Frame branch of `startTx` -/
def ffFinish (s : State) (allowed : Nat) (msgData : Bytes) : State × Option CanMsg :=
  match makeTxMsg s.cfg s.addr (s.addr.tx.txId .physical) msgData with
  | none => (s.raise .ValueError, none)
  | some msg =>
    if msgData.length ≤ allowed then (({ s with txState := .waitFc }).startRxFcTimer, some msg)
    else ({ s with standby := some msg, txState := .ffStandby }, none)

def sizeOnFirst (s : State) (r : Req) : Bool :=
  (r.remaining + s.txPrefixLen ≤ 7) && !(match s.cfg.txMinLen with | some m => m > 8 | none => false)

def sfHdr (sof : Bool) (n : Nat) : Bytes := if sof then [u8 n] else [0, u8 n]

def ffHdr (total : Nat) : Bytes :=
  if total ≤ 0xFFF then [u8 (0x10 + total / 256 % 16), u8 (total % 256)]
  else [0x10, 0x00, u8 (total / 16777216 % 256), u8 (total / 65536 % 256), u8 (total / 256 % 256), u8 (total % 256)]

def ffDataLen (s : State) (r : Req) : Nat :=
  if r.size ≤ 0xFFF then s.cfg.txDl - 2 - s.txPrefixLen else s.cfg.txDl - 6 - s.txPrefixLen

theorem startTx_eq (s : State) (r : Req) (allowed : Nat) :
    s.startTx r allowed =
      if r.size + (if s.sizeOnFirst r then 1 else 2) + s.txPrefixLen ≤ s.cfg.txDl then
        match (r.consume r.size true).2 with
        | none => (((s.consumeActive r r.size true).1.error .BadGenerator).stopSending false, none)
        | some payload =>
          (s.consumeActive r r.size true).1.sfFinish r.tat allowed
            ((s.consumeActive r r.size true).1.addr.tx.txPrefix ++ sfHdr (s.sizeOnFirst r) payload.length ++ payload)
      else
        match (r.consume (s.ffDataLen r) true).2 with
        | none =>
          (((({ s with txFrameLen := r.size } : State).consumeActive r (s.ffDataLen r) true).1.error
            .BadGenerator).stopSending false, none)
        | some payload =>
          ({ (({ s with txFrameLen := r.size } : State).consumeActive r (s.ffDataLen r) true).1 with
              txSeq := 1 } : State).ffFinish allowed
            ((({ s with txFrameLen := r.size } : State).consumeActive r (s.ffDataLen r) true).1.addr.tx.txPrefix ++
              ffHdr r.size ++ payload) := by
  rfl
end State
end Isotp
namespace Isotp
open State

/-- `stopSending` re-establishes everything about the transmit side -/
theorem Safe.stopSending_of {s : State} (hv : s.cfg.valid = true)
    (hp : s.pendingFc = true → s.pendingFcStatus.isSome = true) (b : Bool) : Safe (s.stopSending b) := by
  constructor <;> simp [hv] <;> exact hp

theorem Safe.sfFinish {s : State} (h : Safe s) (ha : s.active.isSome = true) (tat : Tat) (allowed : Nat)
    (d : Bytes) (h2 : 2 ≤ d.length) (hle : d.length ≤ s.cfg.txDl) :
    Safe (s.sfFinish tat allowed d).1 ∧ (s.sfFinish tat allowed d).1.exc = s.exc := by
  obtain ⟨m, hm, hm2, hmle, -⟩ := Safe.makeTxMsg_ok s.cfg s.addr (s.addr.tx.txId tat) d h.cfg_valid h2 hle
  unfold State.sfFinish
  rw [hm]
  simp only
  split
  · refine ⟨?_, rfl⟩
    obtain ⟨a, b, c, d, e, f, g⟩ := h
    constructor <;> simp_all
  · exact ⟨h.stopSending _, by simp⟩

theorem Safe.ffFinish {s : State} (h : Safe s) (ha : s.active.isSome = true) (allowed : Nat)
    (d : Bytes) (h2 : 2 ≤ d.length) (hle : d.length ≤ s.cfg.txDl) :
    Safe (s.ffFinish allowed d).1 ∧ (s.ffFinish allowed d).1.exc = s.exc := by
  obtain ⟨m, hm, hm2, hmle, -⟩ := Safe.makeTxMsg_ok s.cfg s.addr (s.addr.tx.txId .physical) d h.cfg_valid h2 hle
  unfold State.ffFinish
  rw [hm]
  simp only
  obtain ⟨a, b, c, d, e, f, g⟩ := h
  split
  · refine ⟨?_, rfl⟩
    constructor <;> simp_all [startRxFcTimer]
  · refine ⟨?_, rfl⟩
    constructor <;> simp_all

/-- after a successful `consume` the state is safe again (whatever `active` was before) -/
theorem Safe.consumeActive {s : State} (hv : s.cfg.valid = true)
    (hp : s.pendingFc = true → s.pendingFcStatus.isSome = true)
    (hbs : s.txState = .transmitCf → s.remoteBs.isSome = true) (hseq : s.txSeq < 16)
    (hsb : ∀ m, s.standby = some m → 2 ≤ m.data.length ∧ m.data.length ≤ s.cfg.txDl)
    (r : Req) (n : Nat) (e : Bool) (p : Bytes) (hres : (r.consume n e).2 = some p) :
    Safe (s.consumeActive r n e).1 := by
  have := (Safe.consume_some r n e p hres).2.1
  have := Safe.consume_size r n e
  constructor <;> simp_all

theorem Safe.sfHdr_length (b : Bool) (n : Nat) : (sfHdr b n).length = if b then 1 else 2 := by
  unfold sfHdr; split <;> simp_all

theorem Safe.ffHdr_length (n : Nat) : (ffHdr n).length = if n ≤ 0xFFF then 2 else 6 := by
  unfold ffHdr; split <;> simp_all

theorem Safe.startTx {s : State} (h : Safe s) (r : Req) (allowed : Nat) (hr : r.depleted = false) :
    Safe (s.startTx r allowed).1 ∧ (s.startTx r allowed).1.exc = s.exc := by
  have hp := Safe.txPrefix_le s.addr.tx
  have hdl := Safe.txDl_ge h.cfg_valid
  simp only [Req.depleted, Bool.or_eq_false_iff, decide_eq_false_iff_not] at hr
  rw [startTx_eq]
  by_cases hcond : r.size + (if s.sizeOnFirst r then 1 else 2) + s.txPrefixLen ≤ s.cfg.txDl
  · rw [if_pos hcond]
    cases hres : (r.consume r.size true).2 with
    | none =>
      dsimp only
      refine ⟨Safe.stopSending_of ?_ ?_ _, ?_⟩
      · simp [State.error, State.emit, h.cfg_valid]
      · simpa [State.error, State.emit] using h.pend
      · simp [State.error, State.emit]
    | some p =>
      have hc := Safe.consume_some r _ _ p hres
      have hs1 := Safe.consumeActive h.cfg_valid h.pend h.bs h.seq h.standby_wf r _ _ p hres
      have := Safe.sfFinish hs1 (by simp) r.tat allowed
        ((s.consumeActive r r.size true).1.addr.tx.txPrefix ++ sfHdr (s.sizeOnFirst r) p.length ++ p)
        (by have := hc.2.2.2 rfl; simp [Safe.sfHdr_length]; split <;> omega)
        (by have := hc.2.2.2 rfl; simp [Safe.sfHdr_length, txPrefixLen] at hcond ⊢; omega)
      simpa using this
  · rw [if_neg hcond]
    cases hres : (r.consume (s.ffDataLen r) true).2 with
    | none =>
      dsimp only
      refine ⟨Safe.stopSending_of ?_ ?_ _, ?_⟩
      · simp [State.error, State.emit, h.cfg_valid]
      · simpa [State.error, State.emit] using h.pend
      · simp [State.error, State.emit]
    | some p =>
      have hc := Safe.consume_some r _ _ p hres
      have hs0 := Safe.consumeActive (s := { s with txFrameLen := r.size }) h.cfg_valid h.pend h.bs h.seq
        h.standby_wf r _ _ p hres
      have hs1 : Safe ({ (({ s with txFrameLen := r.size } : State).consumeActive r (s.ffDataLen r) true).1 with
              txSeq := 1 } : State) := by
        obtain ⟨a, b, c, d, e, f, g⟩ := hs0
        constructor <;> simp_all
      have := Safe.ffFinish hs1 (by simp) allowed
        ((({ s with txFrameLen := r.size } : State).consumeActive r (s.ffDataLen r) true).1.addr.tx.txPrefix ++
              ffHdr r.size ++ p)
        (by simp [Safe.ffHdr_length]; split <;> omega)
        (by
          have hlen := hc.2.2.2 rfl
          simp only [List.length_append, Safe.ffHdr_length, hlen, ffDataLen, txPrefixLen, consumeActive_addr]
          by_cases h4 : r.size ≤ 0xFFF <;> simp [h4] <;> omega)
      simpa using this

/-! ## `transmitCf` in pieces -/
namespace State

/-- build and "send" one Consecutive Frame (third component: `ValueError` raised) -/
def cfEmit (s : State) (payload : Bytes) : State × Option CanMsg × Bool :=
  if payload.length > 0 then
    match makeTxMsg s.cfg s.addr (s.addr.tx.txId .physical)
        (s.addr.tx.txPrefix ++ [u8 (0x20 + s.txSeq)] ++ payload) with
    | none => (s.raise .ValueError, none, true)
    | some msg =>
      ({ s with txSeq := (s.txSeq + 1) % 16, timerStmin := s.timerStmin.startAt s.now,
                txBlockCnt := s.txBlockCnt + 1 }, some msg, false)
  else (s, none, false)

/-- after the Consecutive Frame: end of the request, end of the block, or continue -/
def cfAfter (s : State) (r' : Req) (rbs : Nat) (out : Option CanMsg) : State × Option CanMsg × Bool :=
  if r'.depleted then
    if r'.remaining > 0 then ((s.error .BadGenerator).stopSending false, out, false)
    else (s.stopSending true, out, false)
  else if rbs ≠ 0 && s.txBlockCnt ≥ rbs then
    (({ s with txState := .waitFc }).startRxFcTimer, out, true)
  else (s, out, false)

def cfPayloadLen (s : State) (r : Req) : Nat := min (s.cfg.txDl - 1 - s.txPrefixLen) r.remaining

theorem transmitCf_eq (s : State) (allowed : Nat) :
    s.transmitCf allowed =
      match s.remoteBs, s.active with
      | none, _ => (s.raise .AssertionError, none, false)
      | _, none => (s.raise .AssertionError, none, false)
      | some rbs, some r =>
        if s.timerStmin.timedOut s.now then
          if s.cfPayloadLen r ≤ allowed then
            match (r.consume (s.cfPayloadLen r) false).2 with
            | none => ((s.consumeActive r (s.cfPayloadLen r) false).1.raise .AssertionError, none, false)
            | some payload =>
              if ((s.consumeActive r (s.cfPayloadLen r) false).1.cfEmit payload).2.2 then
                (((s.consumeActive r (s.cfPayloadLen r) false).1.cfEmit payload).1, none, false)
              else
                cfAfter ((s.consumeActive r (s.cfPayloadLen r) false).1.cfEmit payload).1
                  (r.consume (s.cfPayloadLen r) false).1 rbs
                  ((s.consumeActive r (s.cfPayloadLen r) false).1.cfEmit payload).2.1
          else (s, none, false)
        else (s, none, false) := by
  rfl
end State
end Isotp
namespace Isotp
open State

theorem Safe.cfEmit {s : State} (h : Safe s) (p : Bytes) (hle : p.length + 1 + s.txPrefixLen ≤ s.cfg.txDl) :
    Safe (s.cfEmit p).1 ∧ (s.cfEmit p).1.exc = s.exc ∧ (s.cfEmit p).2.2 = false ∧
      (s.cfEmit p).1.txState = s.txState ∧ (s.cfEmit p).1.active = s.active := by
  unfold State.cfEmit
  split
  · next hpos =>
    obtain ⟨m, hm, hm2, hmle, -⟩ := Safe.makeTxMsg_ok s.cfg s.addr (s.addr.tx.txId .physical)
      (s.addr.tx.txPrefix ++ [u8 (0x20 + s.txSeq)] ++ p) h.cfg_valid
      (by simp; omega) (by simp [txPrefixLen] at hle ⊢; omega)
    rw [hm]
    refine ⟨?_, rfl, rfl, rfl, rfl⟩
    obtain ⟨a, b, c, d, e, f, g⟩ := h
    constructor <;> simp_all <;> omega
  · exact ⟨h, rfl, rfl, rfl, rfl⟩

theorem Safe.cfAfter {s : State} (h : Safe s) (ha : s.active.isSome = true) (r' : Req) (rbs : Nat)
    (out : Option CanMsg) :
    Safe (s.cfAfter r' rbs out).1 ∧ (s.cfAfter r' rbs out).1.exc = s.exc := by
  unfold State.cfAfter
  split
  · split
    · exact ⟨(h.error _).stopSending _, by simp [State.error, State.emit]⟩
    · exact ⟨h.stopSending _, by simp⟩
  · split
    · refine ⟨?_, rfl⟩
      obtain ⟨a, b, c, d, e, f, g⟩ := h
      constructor <;> simp_all [startRxFcTimer]
    · exact ⟨h, rfl⟩

theorem Safe.transmitCf {s : State} (h : Safe s) (hst : s.txState = .transmitCf) (allowed : Nat) :
    Safe (s.transmitCf allowed).1 ∧ (s.transmitCf allowed).1.exc = s.exc := by
  have hp := Safe.txPrefix_le s.addr.tx
  have hdl := Safe.txDl_ge h.cfg_valid
  rw [transmitCf_eq]
  have hbs := h.bs hst
  have hac := h.busy (by simp [hst])
  obtain ⟨rbs, hrbs⟩ := Option.isSome_iff_exists.1 hbs
  obtain ⟨r, hr⟩ := Option.isSome_iff_exists.1 hac
  rw [hrbs, hr]
  dsimp only
  split
  · split
    · have hwf := h.active_wf r hr
      have hne := Safe.consume_nonexact r (s.cfPayloadLen r) hwf (by unfold cfPayloadLen; omega)
      cases hres : (r.consume (s.cfPayloadLen r) false).2 with
      | none => exact absurd hres hne
      | some p =>
        dsimp only
        have hc := Safe.consume_some r _ _ p hres
        have hs1 := Safe.consumeActive h.cfg_valid h.pend h.bs h.seq h.standby_wf r _ _ p hres
        obtain ⟨e1, e2, e3, e4, e5⟩ := Safe.cfEmit hs1 p
          (by have := hc.2.2.1; unfold cfPayloadLen at this; simp [txPrefixLen] at this ⊢; omega)
        rw [e3]
        simp only [Bool.false_eq_true, if_false]
        have := Safe.cfAfter e1 (by rw [e5]; simp) (r.consume (s.cfPayloadLen r) false).1 rbs
          ((s.consumeActive r (s.cfPayloadLen r) false).1.cfEmit p).2.1
        refine ⟨this.1, ?_⟩
        rw [this.2, e2]; simp
    · exact ⟨h, rfl⟩
  · exact ⟨h, rfl⟩

theorem Safe.readTxQueue (q : List Req) : ∀ {s : State}, Safe s → s.txState = .idle → ∀ (allowed : Nat),
    Safe (s.readTxQueue allowed q).1 ∧ (s.readTxQueue allowed q).1.exc = s.exc := by
  induction q with
  | nil =>
    intro s h hi allowed
    exact ⟨h.congr rfl rfl rfl rfl rfl rfl rfl rfl, rfl⟩
  | cons r rest ih =>
    intro s h hi allowed
    unfold State.readTxQueue
    dsimp only
    split
    · have : Safe ({ ({ s with txQueue := rest, active := some r } : State).emit (.done r.id true) with
          active := none } : State) := by
        obtain ⟨a, b, c, d, e, f, g⟩ := h
        constructor <;> simp_all [State.emit]
      exact ih this (by simp [State.emit, hi]) allowed
    · next hd =>
      have hd' : r.depleted = false := by simpa using hd
      have : Safe ({ s with txQueue := rest, active := some r } : State) := by
        simp only [Req.depleted, Bool.or_eq_false_iff, decide_eq_false_iff_not] at hd'
        obtain ⟨a, b, c, d, e, f, g⟩ := h
        constructor <;> simp_all <;> omega
      exact Safe.startTx this r allowed hd'

theorem Safe.fsmDispatch {s : State} (h : Safe s) (allowed : Nat) :
    Safe (s.fsmDispatch allowed).1 ∧ (s.fsmDispatch allowed).1.exc = s.exc := by
  unfold State.fsmDispatch
  split
  · next hst => exact Safe.readTxQueue s.txQueue h hst allowed
  · next hst =>
    split
    · split
      · dsimp only
        split
        all_goals first
          | (refine ⟨?_, rfl⟩
             obtain ⟨a, b, c, d, e, f, g⟩ := h
             constructor <;> simp_all [startRxFcTimer])
          | (refine ⟨?_, by simp⟩
             apply Safe.stopSending_of
             · exact h.cfg_valid
             · exact h.pend)
      · exact ⟨h, rfl⟩
    · exact ⟨h, rfl⟩
  · next hst =>
    split
    · split
      · dsimp only
        split
        all_goals first
          | (refine ⟨?_, rfl⟩
             obtain ⟨a, b, c, d, e, f, g⟩ := h
             constructor <;> simp_all [startRxFcTimer])
          | (refine ⟨?_, by simp⟩
             apply Safe.stopSending_of
             · exact h.cfg_valid
             · exact h.pend)
      · exact ⟨h, rfl⟩
    · exact ⟨h, rfl⟩
  · exact ⟨h, rfl⟩
  · next hst => exact Safe.transmitCf h hst allowed

theorem Safe.fsmStage {s : State} (h : Safe s) (allowed : Nat) :
    Safe (s.fsmStage allowed).1 ∧ (s.fsmStage allowed).1.exc = s.exc := by
  unfold State.fsmStage
  -- Flow Control timeout
  have h1 : Safe (if s.timerFc.timedOut s.now then (s.error .FlowControlTimeout).stopSending false else s) ∧
      (if s.timerFc.timedOut s.now then (s.error .FlowControlTimeout).stopSending false else s).exc = s.exc := by
    split
    · exact ⟨(h.error _).stopSending _, by simp [State.error, State.emit]⟩
    · exact ⟨h, rfl⟩
  generalize (if s.timerFc.timedOut s.now then (s.error .FlowControlTimeout).stopSending false else s) = s1 at h1
  obtain ⟨h1, e1⟩ := h1
  dsimp only
  split
  · next hc =>
    -- the assertion cannot fail
    exfalso
    simp only [Bool.and_eq_true, decide_eq_true_eq, Option.isNone_iff_eq_none] at hc
    have := h1.busy hc.1
    simp [hc.2] at this
  · have h2 : ∀ b : Bool, Safe (if b = true then s1.stopSending true else s1) ∧
        (if b = true then s1.stopSending true else s1).exc = s.exc := by
      intro b
      cases b
      · exact ⟨h1, e1⟩
      · exact ⟨h1.stopSending _, by simp [e1]⟩
    generalize (decide (s1.txState ≠ .idle) && (match s1.active with | some r => r.depleted | none => false)
          && s1.standby.isNone) = cnd
    have h2 := h2 cnd
    generalize (if cnd = true then s1.stopSending true else s1) = s2 at h2
    obtain ⟨h2, e2⟩ := h2
    obtain ⟨h3, e3⟩ := Safe.fsmDispatch h2 allowed
    split
    · exact ⟨h3, e3.trans e2⟩
    · split
      · exact ⟨h3.congr rfl rfl rfl rfl rfl rfl rfl rfl, e3.trans e2⟩
      · exact ⟨h3, e3.trans e2⟩

/-- **`_process_tx` keeps the safety invariant and reaches no exception site.** -/
theorem Safe.processTx {s : State} (h : Safe s) : Safe s.processTx.1 ∧ s.processTx.1.exc = s.exc := by
  rw [processTx_eq]
  obtain ⟨h1, e1⟩ := Safe.pendStage h
  split
  · next heq => rw [heq] at h1 e1; exact ⟨h1, e1⟩
  · next heq => rw [heq] at h1 e1; exact ⟨h1, e1⟩
  · next s1 heq =>
    rw [heq] at h1 e1
    obtain ⟨h2, e2⟩ := Safe.fcStage h1
    split
    · next heq2 => rw [heq2] at h2 e2; exact ⟨h2, e2.trans e1⟩
    · next s2 heq2 =>
      rw [heq2] at h2 e2
      obtain ⟨h3, e3⟩ := Safe.fsmStage h2 (s.rl.allowedBytes s.cfg.rlBitMax)
      exact ⟨h3, e3.trans (e2.trans e1)⟩
end Isotp
