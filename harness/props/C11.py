"""C11 - a single lost or duplicated frame is contained."""
import gen
import ref
import trace
from props.base import PropBase
from props.C01 import frames_needed

TMO_MS = 100


class C11(PropBase):
    id = 'C11'
    partial_passes = 0.25
    lean_modules = ['Isotp.Props.C11']
    theorems = []
    keep_ops = ('layer', 'send', 'fault')
    rule = ('multi-message exchanges (mix of single- and multi-frame, both directions) over two links; exactly one fault: frame index n of either '
            'link direction (data frames and Flow Control alike) dropped or duplicated; blocksize in {0,1,2,3,8}, stmin, prefix, link size; regular '
            'rounds with the virtual clock advanced past all timeouts after the fault; delivered payloads must be sent payloads in order with at most '
            'the hit message missing (duplicated SF may arrive twice), both sides idle at the end, loss of a multi-frame message reported; '
            'distinct = (mode, sizes, bs, fault kind, fault index)')
    assumptions = ['one fault per exchange', 'timeouts 100 ms, regular processing']
    quick_per_shard = 25
    thorough_per_shard = 700

    def scenario(self, rng, tier):
        a, b = gen.rand_addr_pair(rng)
        pa, pb = {}, {}
        for p in (pa, pb):
            if rng.random() < 0.5:
                p['tx_data_length'] = rng.choice(gen.TXDLS)
            if rng.random() < 0.3:
                p['tx_padding'] = rng.randrange(256)
            p['blocksize'] = rng.choice([0, 1, 2, 3, 8])
            p['stmin'] = rng.choice([0, 0, 1, 5, 0xF1, 0xF9])
            p['rx_flowcontrol_timeout'] = TMO_MS
            # (a receiver more patient than the sender: the sender gives up and starts its next message while the receiver still waits)
            p['rx_consecutive_frame_timeout'] = TMO_MS * rng.choice([1, 1, 1, 4])
        ops = [{'op': 'layer', 'i': 0, 'addr': a, 'params': pa}, {'op': 'layer', 'i': 1, 'addr': b, 'params': pb}]
        rid = 0
        total = {0: 0, 1: 0}
        nmsg = {0: rng.choice([1, 2, 3, 4]), 1: rng.choice([0, 0, 1, 2])}
        for side, p, ad in ((0, pa, a), (1, pb, b)):
            txdl = p.get('tx_data_length', 8)
            pre = gen.prefix_len(ad, 'tx')
            retry = rng.random() < 0.25     # the same request sent again and again (a retry, a periodic request): identical frames
            same = None
            for _ in range(nmsg[side]):
                rid += 1
                n = rng.choice([1, 3, 7 - pre, 8, 10, 20, 30, 60, 3 * txdl, 5 * txdl + 3])
                n = max(1, n)
                data = gen.rand_payload(rng, n)
                if retry:
                    same = same if same is not None else gen.rand_payload(rng, max(n, 10))
                    data = same
                ops.append({'op': 'send', 'i': side, 'id': rid, 'data': data})
                n = len(data)
                total[side] += frames_needed(n, txdl, pre)
        side = rng.choice([0, 0, 1])
        est = max(1, total[side] + total[1 - side] // 3)
        kind = rng.choice(['drop', 'dup'])
        n = rng.randrange(0, est)
        ops.append({'op': 'fault', 'i': side, 'kind': kind, 'n': n})
        dt = max(ref.stmin_ns(pa['stmin']), ref.stmin_ns(pb['stmin']), 1000000) + 1
        rounds = 2 * (total[0] + total[1]) + 8 + (nmsg[0] + nmsg[1]) * 4 + 60
        for k in range(rounds):
            ops.append({'op': 'deliver', 'i': 0, 'j': 1, 'n': 100000, 'keep': True})
            ops.append({'op': 'process', 'i': 1, 'keep': True})
            ops.append({'op': 'deliver', 'i': 1, 'j': 0, 'n': 100000, 'keep': True})
            ops.append({'op': 'process', 'i': 0, 'keep': True})
            ops.append({'op': 'tick', 'dt': 60000000 if k % 8 == 7 else dt, 'keep': True})
        for _ in range(4):
            ops.append({'op': 'tick', 'dt': 150000000 * 4, 'keep': True})
            ops.append({'op': 'process', 'i': 0, 'keep': True})
            ops.append({'op': 'process', 'i': 1, 'keep': True})
        return {'ops': ops, 'meta': {'side': side, 'kind': kind, 'n': n}}

    def enumerate(self, tier):
        """the same property on two STARTED layers (real threads, raw queues): one frame of a three-message exchange dropped or duplicated.
        Timeouts 600 ms (far above scheduling delays, short enough to wait for); judged on the callers' view only (`no_model`)."""
        a = {'mode': 0, 'txid': 0x123, 'rxid': 0x456}
        b = {'mode': 0, 'txid': 0x456, 'rxid': 0x123}
        k = 0
        faults = [(0, 'drop', 1), (0, 'drop', 2), (0, 'dup', 2), (1, 'drop', 0), (0, 'drop', 4), (0, 'dup', 1)]
        if tier != 'quick':
            faults = [(s, kd, n) for s in (0, 1) for kd in ('drop', 'dup') for n in range(0, 9)]
        for (side, kind, n) in faults:
            for bs in ((0, 2) if tier == 'quick' else (0, 1, 2)):
                k += 1
                senders = {0: [[(1, bytes([0, 0, 0]) + bytes([0x10 + k] * 31)), (2, bytes([0, 0, 1]) + bytes([0x20] * 17)), (3, bytes([0, 0, 2, 9, 9]))]], 1: []}
                yield {'ops': [], 'threaded': True, 'no_model': True, 'seed': 7000 + k, 'transport': 'queue_blocking' if k % 2 else 'queue_legacy',
                       'addrs': (a, b), 'params': ({'blocksize': bs, 'stmin': 0}, {'blocksize': bs, 'stmin': 0}), 'senders': senders, 'latency': 0,
                       'read_timeout': 0.05, 'noise': False, 'perturb': 0, 'cf_timeout_ms': 600, 'fc_timeout_ms': 600,
                       'fault': {'side': side, 'kind': kind, 'n': n}, 'meta': {'side': side, 'kind': kind, 'n': n}}

    def run_impl(self, sc):
        if sc.get('threaded'):
            from props.C13 import run_threaded
            return run_threaded(sc)
        return PropBase.run_impl(self, sc)

    def judge_threaded(self, sc):
        res = sc.get('_result')
        out = []
        f = sc['fault']
        S = [p for items in sc['senders'][0] for (_, p) in items]
        G = res['received'][1]
        happened = sc.get('_fault_frame') is not None
        ok = (G == S)
        if not ok and happened:
            ok = any(G == S[:k] + S[k + 1:] for k in range(len(S))) or any(G == S[:k + 1] + S[k:] and len(S[k]) <= 7 for k in range(len(S)))
        if not ok:
            out.append(('contained', 'started layers: sent lengths %s, received lengths %s (fault: %s frame %d of layer %d%s)' % (
                [len(x) for x in S], [len(x) for x in G], f['kind'], f['n'], f['side'], '' if happened else ', never reached')))
        if sc.get('_idle_end') is not None and not all(sc['_idle_end']):
            out.append(('idle', 'started layers not idle again within %s s of the fault: %s' % (sc.get('fault_wait_s', 8), sc['_idle_end'])))
        errs = res['errors'][0] + res['errors'][1]
        ff = bytes(sc.get('_fault_frame') or b'\x00')
        if happened and f['kind'] == 'drop' and (ff[0] >> 4) in (1, 2, 3) and not errs:
            # (normal addressing in these scenarios: the first byte is the PCI; a lost Single Frame is silent by nature)
            out.append(('reported', 'a frame of a multi-frame message (PCI %02x) was lost but no error was reported on either side' % ff[0]))
        if not happened and errs:
            out.append(('clean', 'no fault happened but errors were reported: %s' % errs[:3]))
        if res['send_exc'] or res['stuck_senders']:
            out.append(('contained', 'send() raised / blocked: %s %s' % (res['send_exc'][:2], res['stuck_senders'])))
        return out[:3]

    def project(self, op_line, out_line):
        return trace.project_events(out_line, keep=('tx', 'err', 'deliver', 'done'), status_keys=('rx', 'tr'), drop_times=True)

    def judge(self, sc, lines_in, impl_out):
        if sc.get('threaded'):
            return self.judge_threaded(sc)
        meta = sc['meta']
        out = []
        sent = {0: [], 1: []}
        got = {0: [], 1: []}
        errs = {0: [], 1: []}
        payload = {op['id']: bytes(op['data']) for op in sc['ops'] if op['op'] == 'send'}
        emitted = {0: [], 1: []}
        last = {}
        for r in trace.records(lines_in, impl_out):
            if r.op == 'send' and r.result == 'ok':
                sent[r.layer].append(payload[int(r.toks[2])])
            if r.layer is not None and r.status:
                last[r.layer] = r.status
            for e in r.events:
                if e['k'] == 'deliver':
                    got[r.layer].append(e['data'])
                elif e['k'] == 'err':
                    errs[r.layer].append(e['name'])
                elif e['k'] == 'tx':
                    emitted[r.layer].append(e['data'])
        fault_happened = meta['n'] < len(emitted[meta['side']])
        for s, d in ((0, 1), (1, 0)):
            S, G = sent[s], got[d]
            ok = (G == S)
            if not ok and fault_happened:
                # at most one message missing
                for k in range(len(S)):
                    if G == S[:k] + S[k + 1:]:
                        ok = True
                        break
                # or one single-frame payload delivered twice
                if not ok:
                    for k in range(len(S)):
                        if G == S[:k + 1] + S[k:]:
                            ok = len(S[k]) <= 62
                            break
            if not ok:
                out.append(('contained', 'layer %d sent lengths %s, layer %d received lengths %s (fault: %s frame %d of link %d)' % (
                    s, [len(x) for x in S], d, [len(x) for x in G], meta['kind'], meta['n'], meta['side'])))
        for i, st in last.items():
            if st.get('rx') != '0' or st.get('tr') != '0':
                out.append(('idle', 'layer %d not idle after all timeouts: %s' % (i, st)))
        if fault_happened and meta['kind'] == 'drop':
            # the dropped frame belongs to a multi-frame message (or is a Flow Control) => an error on at least one side
            fr = emitted[meta['side']][meta['n']]
            cfg = trace.layer_cfg(sc, meta['side'])
            pre = len(ref.tx_prefix(ref.half(cfg['addr'], 'tx')))
            c = ref.classify(fr[pre:])
            if c[0] in ('ff', 'cf', 'fc') and not (errs[0] or errs[1]):
                out.append(('reported', 'a %s frame of a multi-frame message was lost but no error was reported on either side' % c[0]))
        if not fault_happened and (errs[0] or errs[1]):
            out.append(('clean', 'no fault happened but errors were reported: %s' % (errs[0] + errs[1])[:3]))
        return out[:3]

    def nontrivial_key(self, sc, lines_in, impl_out):
        if sc.get('threaded'):
            return ('threaded', sc['transport'], sc['params'][0]['blocksize'], tuple(sorted(sc['fault'].items()))) if sc.get('_fault_frame') is not None else None
        meta = sc['meta']
        n_tx = sum(o.count('tx@') for l, o in zip(lines_in, impl_out) if l.startswith('process %d' % meta['side']))
        if meta['n'] >= n_tx:
            return None
        cfgs = [op for op in sc['ops'] if op['op'] == 'layer']
        lens = tuple(len(op['data']) for op in sc['ops'] if op['op'] == 'send')
        return (str(cfgs[0]['addr'].get('mode', 'a')), cfgs[0]['params']['blocksize'], cfgs[1]['params']['blocksize'], lens, meta['side'], meta['kind'], meta['n'])

    def tally(self, dist, sc, lines_in, impl_out):
        if sc.get('threaded'):
            dist['started_layers_runs'] = dist.get('started_layers_runs', 0) + 1
            return
        PropBase.tally(self, dist, sc, lines_in, impl_out)
        k = 'fault:' + sc['meta']['kind']
        dist[k] = dist.get(k, 0) + 1


PROP = C11()
