import Isotp.PyAgree.Exec2Bridge
import Isotp.PyAgree.EvalLemmas
import Isotp.Threaded

/-!
  The lifecycle methods of the threaded wrapper `TransportLayer` (isotp/protocol.py) and of `NotifierBasedCanStack`: the interpreted
  source (`Src.TransportLayer_start`, `_stop`, `_stop_sending`, `_stop_receiving`, `_p_relay_thread_fn`, `Src.NotifierBasedCanStack_start`,
  `_stop`) does what the model's `TL` functions (`Isotp/Threaded.lean`) say, FOR EVERY WRAPPER STATE `t : TL`.

  ## Presentation (section 1)
  * `self.started ↦ pbool t.started`; `self.main_thread` / `self.relay_thread ↦ None` or a `Thread` object (`handlePV`); whether a thread of
    the role is alive under `#alive.main` / `#alive.relay` (what `is_alive()` answers).  The liveness key outlives the handle: after
    `self.main_thread = None` a thread that was still running stays visible, which is what makes `H-join` matter for the final state.
    `Thr.finished` is shown as "a Thread object that is not alive" - also how a created, not yet started thread looks.
  * the seven `threading.Event`s under `#ev.<name>` (`Ev7`), `self.rx_relay_queue` under the history key `#relay_queue` (`encQ t.relayQ`),
    the function `_set_rxfn` installed last under `self.rxfn`, the frames the user's `rxfn` will still return under `#bus`.
  * the logic layer `t.core` through an ABSTRACT relation `R env s` (as `ResetCallees` in LayerQueues.lean), required not to look at the
    wrapper's keys and not to show `State.inbox` (`CoreRel`).  The model's `core.inbox` - frames the worker took out of `relayQ` that `process`
    has not read - has no attribute of its own in the real object (they are still in `rx_relay_queue`); `stop` dropping it is vacuous here.
  * float literals (`__float__ "1.0"`) and `max(self.default_read_timeout + 0.5, 1.0)` are opaque numbers (an integer stands for each); they
    are only ever timeouts of `wait` / `join`, which are OUTSIDE the model: they matter for the real-time bound only, which is measured,
    not proved (DESIGN C14).  Logging calls are dropped by the dumper.

  ## Assumptions (section 3, `Spec`): the sequential meaning of the primitives, plus the named CONTRACT assumptions
  `hJoin` / `hJoinRelay` (H-join: a thread asked to stop is dead when `join(timeout)` returns), `hWorkerExit` (the model abstracts the whole
  worker between the stop request and its death into `TL.workerExit`: its `finally: reset()` has run), `hReady` / `hReadyRelay` (a started
  thread has set its ready flag when `wait(0.5)` returns), `hServe` / `hServeRx` (a live worker serves a `reset_tx` / `reset_rx` request
  while the caller waits on a completion flag THAT IS NOT ALREADY SET), `waitSet` (`wait` on a set flag returns at once).
  Section 9 gives a concrete world in which all of them hold (`thrMeths_spec`, `thrMeths_relay`, `nbMeths_spec`, `worldEnv_shows`), so no
  theorem is vacuous, and runs the interpreter on it in the kernel.

  ## Theorems
  * `start_refuses` (any callees), `start_runs`, `start_agrees`, `start_raises_iff`            - `TL.start`
  * `stop_agrees`, `stop_final_env` (second semantics; fuel `≥ |relayQ| + 30`)                - `TL.stop`, from ANY state (D3 included)
  * `stop_sending_agrees`, `stop_receiving_agrees`                                            - `TL.stopSending`, `TL.stopReceiving`
  * `stop_sending_stale_before_fix`, `stop_receiving_stale_before_fix`                        - the defect found here (fixed: 6eb6a7e)
  * `relay_iteration`                                                                         - `TL.relayStep`
  * `nb_start_refuses`, `nb_start_refuses_env` (D16: no reader before the refusal), `nb_start_runs`, `nb_stop_agrees`
-/
namespace Isotp.PyAgree.Thr
open Isotp Isotp.Py

/-! ## 0. infrastructure -/

theorem set_get (env : Env) (k : String) (v : PV) (k' : String) :
    (env.set k v) k' = if k' = k then some v else env k' := rfl

theorem set_same (env : Env) (k : String) (v : PV) (h : env k = some v) : env.set k v = env := by
  funext k'; simp only [Env.set]; split
  · next hk => rw [hk, h]
  · rfl

/-- the names the interpreter treats as builtins; every other call goes to `Meths` -/
def builtinNames : List String :=
  ["len", "int", "bool", "min", "max", "bytes", "isinstance_int", "isinstance_bool", "isinstance_float", "isinstance_int_float"]

theorem evalBuiltin_none (fn : String) (args : List PV) (h : fn ∉ builtinNames) : evalBuiltin fn args = none := by
  simp only [builtinNames, List.mem_cons, List.not_mem_nil, or_false, not_or] at h
  unfold evalBuiltin; split <;> simp_all

/-- a call statement without arguments -/
theorem exec_proc0 (M : Meths) (env env' : Env) (fn : String) (hb : fn ∉ builtinNames) (hp : M.proc fn [] env = .ok env') :
    execStmt M env (.expr (.call fn .nil)) = .ok (.next env') := by
  simp [execStmt, evalArgs, evalBuiltin_none fn _ hb, hp]

/-- a call statement with one argument -/
theorem exec_proc1 (M : Meths) (env env' : Env) (fn : String) (a : PExpr) (v : PV) (hb : fn ∉ builtinNames)
    (ha : eval M env a = .ok v) (hp : M.proc fn [v] env = .ok env') :
    execStmt M env (.expr (.call fn (.cons a .nil))) = .ok (.next env') := by
  simp [execStmt, evalArgs, ha, evalBuiltin_none fn _ hb, hp]

/-- a call without arguments in expression position -/
theorem eval_fn0 (M : Meths) (env : Env) (fn : String) (hb : fn ∉ builtinNames) :
    eval M env (.call fn .nil) = M.fn fn [] env := by
  simp [eval, evalArgs, evalBuiltin_none fn _ hb]

theorem eval_fn1 (M : Meths) (env : Env) (fn : String) (a : PExpr) (v : PV) (hb : fn ∉ builtinNames)
    (ha : eval M env a = .ok v) : eval M env (.call fn (.cons a .nil)) = M.fn fn [v] env := by
  simp [eval, evalArgs, ha, evalBuiltin_none fn _ hb]

theorem eval_var (M : Meths) (env : Env) (k : String) (v : PV) (h : env k = some v) : eval M env (.var k) = .ok v := by
  simp [eval, h]

theorem eval_tt (M : Meths) (env : Env) : eval M env .tt = .ok (pbool true) := by simp [eval]
theorem eval_ff (M : Meths) (env : Env) : eval M env .ff = .ok (pbool false) := by simp [eval]
theorem eval_none (M : Meths) (env : Env) : eval M env .none = .ok pnone := by simp [eval]

theorem exec_assign (M : Meths) (env : Env) (k : String) (e : PExpr) (v : PV) (h : eval M env e = .ok v) :
    execStmt M env (.assign k e) = .ok (.next (env.set k v)) := by
  simp [execStmt, h]

/-- `if c: t else: e` once the test is evaluated -/
theorem exec_ite (M : Meths) (env : Env) (c : PExpr) (t e : PBlock) (b : Bool) (h : eval M env c = .ok (pbool b)) :
    execStmt M env (.ite c t e) = if b then execBlock M env t else execBlock M env e := by
  simp [execStmt, h]

/-- `if c: <logging only>` : whatever the test gives, nothing happens -/
theorem exec_ite_nil (M : Meths) (env : Env) (c : PExpr) (b : Bool) (h : eval M env c = .ok (pbool b)) :
    execStmt M env (.ite c .nil .nil) = .ok (.next env) := by
  cases b <;> simp [execStmt, execBlock, h]

theorem eval_not (M : Meths) (env : Env) (c : PExpr) (b : Bool) (h : eval M env c = .ok (pbool b)) :
    eval M env (.not_ c) = .ok (pbool (!b)) := by
  simp [eval, h]

/-! ### Hoare-style chaining, first semantics -/

/-- the block runs to its end (no `return`, no exception) in an environment satisfying `Q` -/
def Run (M : Meths) (env : Env) (b : PBlock) (Q : Env → Prop) : Prop := ∃ env', execBlock M env b = .ok (.next env') ∧ Q env'

theorem Run.nil {M : Meths} {env : Env} {Q : Env → Prop} (h : Q env) : Run M env .nil Q := ⟨env, rfl, h⟩

theorem Run.cons {M : Meths} {env env1 : Env} {s : PStmt} {rest : PBlock} {Q : Env → Prop}
    (h1 : execStmt M env s = .ok (.next env1)) (h2 : Run M env1 rest Q) : Run M env (.cons s rest) Q := by
  obtain ⟨env', h3, h4⟩ := h2
  exact ⟨env', by simp only [execBlock, h1, ok_bind, h3], h4⟩

theorem Run.toRunFn {M : Meths} {env : Env} {b : PBlock} {Q : Env → Prop} (h : Run M env b Q) :
    ∃ env', runFn M env b = .ok (pnone, env') ∧ Q env' := by
  obtain ⟨env', h1, h2⟩ := h
  exact ⟨env', by simp only [runFn, h1], h2⟩

/-! ### the same in the second (fuelled) semantics -/

def Run2 (n : Nat) (M : Meths) (env : Env) (b : PBlock) (Q : Env → Prop) : Prop :=
  ∃ env', exec2B n M env b = .ok (.next env') ∧ Q env'

theorem Run2.nil {n : Nat} {M : Meths} {env : Env} {Q : Env → Prop} (h : Q env) : Run2 (n + 1) M env .nil Q := ⟨env, rfl, h⟩

theorem Run2.cons {n : Nat} {M : Meths} {env env1 : Env} {s : PStmt} {rest : PBlock} {Q : Env → Prop}
    (h1 : exec2S n M env s = .ok (.next env1)) (h2 : Run2 n M env1 rest Q) : Run2 (n + 1) M env (.cons s rest) Q := by
  obtain ⟨env', h3, h4⟩ := h2
  exact ⟨env', by rw [exec2B_cons, h1]; exact h3, h4⟩

/-- a loop-free statement: its run in the first semantics is its run in the second (bridge) -/
theorem Run2.cons1 {n : Nat} {M : Meths} {env env1 : Env} {s : PStmt} {rest : PBlock} {Q : Env → Prop}
    (hl : loopFreeS s = true) (hs : dumperShapeS s = true) (hd : depthS s ≤ 6)
    (h1 : execStmt M env s = .ok (.next env1)) (h2 : Run2 (n + 6) M env1 rest Q) : Run2 (n + 7) M env (.cons s rest) Q :=
  Run2.cons (exec2S_of_execStmt_ok M s (n + 6) env _ hl hs (by omega) h1) h2


/-! ## 1. how the wrapper object is presented to the interpreter -/

/-- `self.main_thread` / `self.relay_thread`: `None`, or a `threading.Thread` object -/
def handlePV : Isotp.Thr → PV
  | .none => pnone
  | _ => .meth "Thread"

/-- is a thread of this role alive -/
def isRunning : Isotp.Thr → Bool
  | .running => true
  | _ => false

/-- the function installed by `_set_rxfn` -/
def rxfnPV (relay : Bool) : PV := .meth (if relay then "self._read_relay_queue" else "self.user_rxfn")

/-- one CAN message as scalars -/
def encMsg (m : CanMsg) : List Sc :=
  [.py (.int m.id), .py (.bool m.ext), .py (.int m.dlc), .py (.bool m.fd), .py (.bool m.brs), .py (.int m.data.length)] ++
    m.data.map (fun b => Sc.py (.int b.toNat))

/-- one item of `rx_relay_queue`: a message, or the wake-up token `None` -/
def encItem : Option CanMsg → List Sc
  | none => [.py .none]
  | some m => encMsg m

/-- the relay queue as ONE list of scalars (the history key `#relay_queue`) -/
def encQ (q : List (Option CanMsg)) : List Sc := q.flatMap encItem

theorem encQ_nil : encQ [] = [] := rfl
theorem encQ_cons (x : Option CanMsg) (q : List (Option CanMsg)) : encQ (x :: q) = encItem x ++ encQ q := by simp [encQ]
theorem encQ_append (p q : List (Option CanMsg)) : encQ (p ++ q) = encQ p ++ encQ q := by simp [encQ]

/-- the seven `threading.Event`s of `TransportLayer.Events` -/
inductive Ev7 where
  | mainReady | relayReady | stopRequested | resetTx | resetRx | resetTxComplete | resetRxComplete
  deriving DecidableEq, Repr

namespace Ev7
/-- the key that holds the flag -/
def key : Ev7 → String
  | .mainReady => "#ev.main_thread_ready" | .relayReady => "#ev.relay_thread_ready" | .stopRequested => "#ev.stop_requested"
  | .resetTx => "#ev.reset_tx" | .resetRx => "#ev.reset_rx" | .resetTxComplete => "#ev.reset_tx_complete"
  | .resetRxComplete => "#ev.reset_rx_complete"
def setName : Ev7 → String
  | .mainReady => "self.events.main_thread_ready.set" | .relayReady => "self.events.relay_thread_ready.set"
  | .stopRequested => "self.events.stop_requested.set" | .resetTx => "self.events.reset_tx.set" | .resetRx => "self.events.reset_rx.set"
  | .resetTxComplete => "self.events.reset_tx_complete.set" | .resetRxComplete => "self.events.reset_rx_complete.set"
def clearName : Ev7 → String
  | .mainReady => "self.events.main_thread_ready.clear" | .relayReady => "self.events.relay_thread_ready.clear"
  | .stopRequested => "self.events.stop_requested.clear" | .resetTx => "self.events.reset_tx.clear"
  | .resetRx => "self.events.reset_rx.clear" | .resetTxComplete => "self.events.reset_tx_complete.clear"
  | .resetRxComplete => "self.events.reset_rx_complete.clear"
def isSetName : Ev7 → String
  | .mainReady => "self.events.main_thread_ready.is_set" | .relayReady => "self.events.relay_thread_ready.is_set"
  | .stopRequested => "self.events.stop_requested.is_set" | .resetTx => "self.events.reset_tx.is_set"
  | .resetRx => "self.events.reset_rx.is_set" | .resetTxComplete => "self.events.reset_tx_complete.is_set"
  | .resetRxComplete => "self.events.reset_rx_complete.is_set"
def waitName : Ev7 → String
  | .mainReady => "self.events.main_thread_ready.wait" | .relayReady => "self.events.relay_thread_ready.wait"
  | .stopRequested => "self.events.stop_requested.wait" | .resetTx => "self.events.reset_tx.wait"
  | .resetRx => "self.events.reset_rx.wait" | .resetTxComplete => "self.events.reset_tx_complete.wait"
  | .resetRxComplete => "self.events.reset_rx_complete.wait"
end Ev7

/-- the model's flag -/
def evGet (e : Events) : Ev7 → Bool
  | .mainReady => e.mainReady | .relayReady => e.relayReady | .stopRequested => e.stopRequested | .resetTx => e.resetTx
  | .resetRx => e.resetRx | .resetTxComplete => e.resetTxComplete | .resetRxComplete => e.resetRxComplete

def evPut (e : Events) (k : Ev7) (b : Bool) : Events :=
  match k with
  | .mainReady => { e with mainReady := b } | .relayReady => { e with relayReady := b }
  | .stopRequested => { e with stopRequested := b } | .resetTx => { e with resetTx := b } | .resetRx => { e with resetRx := b }
  | .resetTxComplete => { e with resetTxComplete := b } | .resetRxComplete => { e with resetRxComplete := b }

/-- the keys that belong to the threaded wrapper (attributes of `TransportLayer` proper, the history keys of its threads, events and
    queue, the locals of its methods, the two attributes of `NotifierBasedCanStack`): the relation that shows the logic layer
    (`TransportLayerLogic`, the model's `State`) does not depend on them, and the operations of the logic layer do not change them. -/
def wrapperKeys : List String :=
  ["self.started", "self.main_thread", "self.relay_thread", "#alive.main", "#alive.relay",
   "#ev.main_thread_ready", "#ev.relay_thread_ready", "#ev.stop_requested", "#ev.reset_tx", "#ev.reset_rx",
   "#ev.reset_tx_complete", "#ev.reset_rx_complete", "#relay_queue", "self.rxfn", "self._read_relay_queue", "self.user_rxfn",
   "self._main_thread_fn", "self._relay_thread_fn", "self.default_read_timeout", "#bus", "self.blocking_rxfn",
   "wait_time", "rx_timeout", "t1", "data", "diff", "self.buffered_reader", "#listeners"]

/-- the wrapper keys no method of `TransportLayer` proper touches (they belong to `NotifierBasedCanStack`) -/
def passiveKeys : List String := ["self.buffered_reader", "#listeners"]

/-- what an environment must show of the wrapper part of `t` (everything but `t.core`):
    * `self.started`; the two thread attributes (`None` / a `Thread` object); for each role, whether a thread of that role is alive
      (`#alive.main`, `#alive.relay`: what `is_alive()` of the handle answers; the key outlives the handle, so that a thread whose handle
      was dropped while it was still running stays visible);
    * the seven event flags; the relay queue; the function `_set_rxfn` installed last (`self.rxfn`);
    * the bound methods the source mentions, the read timeout (some number), the frames the user `rxfn` will still return (`#bus`). -/
structure ShowsW (env : Env) (t : TL) : Prop where
  started : env "self.started" = some (pbool t.started)
  mainH : env "self.main_thread" = some (handlePV t.mainThread)
  relayH : env "self.relay_thread" = some (handlePV t.relayThread)
  mainA : env "#alive.main" = some (pbool (isRunning t.mainThread))
  relayA : env "#alive.relay" = some (pbool (isRunning t.relayThread))
  e1 : env "#ev.main_thread_ready" = some (pbool t.ev.mainReady)
  e2 : env "#ev.relay_thread_ready" = some (pbool t.ev.relayReady)
  e3 : env "#ev.stop_requested" = some (pbool t.ev.stopRequested)
  e4 : env "#ev.reset_tx" = some (pbool t.ev.resetTx)
  e5 : env "#ev.reset_rx" = some (pbool t.ev.resetRx)
  e6 : env "#ev.reset_tx_complete" = some (pbool t.ev.resetTxComplete)
  e7 : env "#ev.reset_rx_complete" = some (pbool t.ev.resetRxComplete)
  q : env "#relay_queue" = some (.list (encQ t.relayQ))
  rxfn : env "self.rxfn" = some (rxfnPV t.rxfnIsRelay)
  cRelayFn : env "self._read_relay_queue" = some (rxfnPV true)
  cUserFn : env "self.user_rxfn" = some (rxfnPV false)
  cMainT : env "self._main_thread_fn" = some (.meth "self._main_thread_fn")
  cRelayT : env "self._relay_thread_fn" = some (.meth "self._relay_thread_fn")
  cTimeout : ∃ d, env "self.default_read_timeout" = some (pint d)
  bus : env "#bus" = some (.list (encQ (t.bus.map some)))

theorem ShowsW.ev {env : Env} {t : TL} (h : ShowsW env t) (e : Ev7) : env e.key = some (pbool (evGet t.ev e)) := by
  cases e
  · exact h.e1
  · exact h.e2
  · exact h.e3
  · exact h.e4
  · exact h.e5
  · exact h.e6
  · exact h.e7

/-- conditions on the relation `R env s` ("`env` shows the logic-layer state `s`") the theorems are stated for: it does not look at the
    wrapper's keys, and it does not show `inbox` (the frames the model's worker has taken out of `relayQ` for `process` but `process` has
    not read yet: in the real object they are still in `rx_relay_queue`, there is no separate attribute for them). -/
structure CoreRel (R : Env → State → Prop) : Prop where
  frame : ∀ (env : Env) (k : String) (v : PV) (s : State), k ∈ wrapperKeys → R env s → R (env.set k v) s
  inbox : ∀ (env : Env) (s : State) (ib : List (Nat × CanMsg)), R env s → R env { s with inbox := ib }

/-- `env` shows `t` -/
def Shows (R : Env → State → Prop) (env : Env) (t : TL) : Prop := ShowsW env t ∧ R env t.core


/-! ## 2. the invariant of a run and its updates -/

/-- the state of a run started in `env0`: `env` shows `t`, and the passive keys still have the values they had in `env0` -/
structure St (R : Env → State → Prop) (env0 env : Env) (t : TL) : Prop where
  w : ShowsW env t
  c : R env t.core
  keep : ∀ k ∈ passiveKeys, env k = env0 k

theorem St.init {R : Env → State → Prop} {env : Env} {t : TL} (h : Shows R env t) : St R env env t := ⟨h.1, h.2, fun _ _ => rfl⟩

theorem St.shows {R : Env → State → Prop} {env0 env : Env} {t : TL} (h : St R env0 env t) : Shows R env t := ⟨h.w, h.c⟩

theorem keep_set {env0 env : Env} (hk : ∀ k ∈ passiveKeys, env k = env0 k) (k0 : String) (v : PV) (h0 : k0 ∉ passiveKeys) :
    ∀ k ∈ passiveKeys, (env.set k0 v) k = env0 k := by
  intro k hk'
  have : k ≠ k0 := fun e => h0 (e ▸ hk')
  simp only [Env.set, this, if_false]
  exact hk k hk'

section updates
variable {R : Env → State → Prop} {env0 env : Env} {t : TL}

theorem St.setStarted (hR : CoreRel R) (h : St R env0 env t) (b : Bool) :
    St R env0 (env.set "self.started" (pbool b)) { t with started := b } := by
  obtain ⟨⟨f1, f2, f3, f4, f5, f6, f7, f8, f9, f10, f11, f12, f13, f14, f15, f16, f17, f18, f19, f20⟩, hc, hk⟩ := h
  exact ⟨by constructor <;> simp [Env.set, *], hR.frame _ _ _ _ (by decide) hc, keep_set hk _ _ (by decide)⟩

theorem St.setEv (hR : CoreRel R) (h : St R env0 env t) (e : Ev7) (b : Bool) :
    St R env0 (env.set e.key (pbool b)) { t with ev := evPut t.ev e b } := by
  obtain ⟨⟨f1, f2, f3, f4, f5, f6, f7, f8, f9, f10, f11, f12, f13, f14, f15, f16, f17, f18, f19, f20⟩, hc, hk⟩ := h
  cases e <;>
    exact ⟨by constructor <;> simp [Env.set, Ev7.key, evPut, *], hR.frame _ _ _ _ (by decide) hc, keep_set hk _ _ (by decide)⟩

theorem St.setRxfn (hR : CoreRel R) (h : St R env0 env t) (b : Bool) :
    St R env0 (env.set "self.rxfn" (rxfnPV b)) { t with rxfnIsRelay := b } := by
  obtain ⟨⟨f1, f2, f3, f4, f5, f6, f7, f8, f9, f10, f11, f12, f13, f14, f15, f16, f17, f18, f19, f20⟩, hc, hk⟩ := h
  exact ⟨by constructor <;> simp [Env.set, *], hR.frame _ _ _ _ (by decide) hc, keep_set hk _ _ (by decide)⟩

theorem St.setQ (hR : CoreRel R) (h : St R env0 env t) (q' : List (Option CanMsg)) :
    St R env0 (env.set "#relay_queue" (.list (encQ q'))) { t with relayQ := q' } := by
  obtain ⟨⟨f1, f2, f3, f4, f5, f6, f7, f8, f9, f10, f11, f12, f13, f14, f15, f16, f17, f18, f19, f20⟩, hc, hk⟩ := h
  exact ⟨by constructor <;> simp [Env.set, *], hR.frame _ _ _ _ (by decide) hc, keep_set hk _ _ (by decide)⟩

theorem St.setBus (hR : CoreRel R) (h : St R env0 env t) (b' : List CanMsg) :
    St R env0 (env.set "#bus" (.list (encQ (b'.map some)))) { t with bus := b' } := by
  obtain ⟨⟨f1, f2, f3, f4, f5, f6, f7, f8, f9, f10, f11, f12, f13, f14, f15, f16, f17, f18, f19, f20⟩, hc, hk⟩ := h
  exact ⟨by constructor <;> simp [Env.set, *], hR.frame _ _ _ _ (by decide) hc, keep_set hk _ _ (by decide)⟩

/-- the locals of the methods -/
def localKeys : List String := ["wait_time", "rx_timeout", "t1", "data", "diff"]

theorem St.setLocal (hR : CoreRel R) (h : St R env0 env t) (k : String) (v : PV) (hl : k ∈ localKeys) :
    St R env0 (env.set k v) t := by
  obtain ⟨⟨f1, f2, f3, f4, f5, f6, f7, f8, f9, f10, f11, f12, f13, f14, f15, f16, f17, f18, f19, f20⟩, hc, hk⟩ := h
  simp only [localKeys, List.mem_cons, List.not_mem_nil, or_false] at hl
  rcases hl with rfl | rfl | rfl | rfl | rfl <;>
    exact ⟨by constructor <;> simp [Env.set, *], hR.frame _ _ _ _ (by decide) hc, keep_set hk _ _ (by decide)⟩

/-- `self.main_thread = threading.Thread(...)`: a new object (not started: not alive) -/
theorem St.newHandleMain (hR : CoreRel R) (h : St R env0 env t) :
    St R env0 (env.set "self.main_thread" (.meth "Thread"))
      { t with mainThread := if isRunning t.mainThread then .running else .finished } := by
  obtain ⟨⟨f1, f2, f3, f4, f5, f6, f7, f8, f9, f10, f11, f12, f13, f14, f15, f16, f17, f18, f19, f20⟩, hc, hk⟩ := h
  refine ⟨?_, hR.frame _ _ _ _ (by decide) hc, keep_set hk _ _ (by decide)⟩
  cases hm : t.mainThread <;> constructor <;> simp [Env.set, isRunning, handlePV, *]

theorem St.newHandleRelay (hR : CoreRel R) (h : St R env0 env t) :
    St R env0 (env.set "self.relay_thread" (.meth "Thread"))
      { t with relayThread := if isRunning t.relayThread then .running else .finished } := by
  obtain ⟨⟨f1, f2, f3, f4, f5, f6, f7, f8, f9, f10, f11, f12, f13, f14, f15, f16, f17, f18, f19, f20⟩, hc, hk⟩ := h
  refine ⟨?_, hR.frame _ _ _ _ (by decide) hc, keep_set hk _ _ (by decide)⟩
  cases hm : t.relayThread <;> constructor <;> simp [Env.set, isRunning, handlePV, *]

/-- `self.main_thread = None`, when no thread of the role is alive -/
theorem St.noneHandleMain (hR : CoreRel R) (h : St R env0 env t) (hnr : isRunning t.mainThread = false) :
    St R env0 (env.set "self.main_thread" pnone) { t with mainThread := .none } := by
  obtain ⟨⟨f1, f2, f3, f4, f5, f6, f7, f8, f9, f10, f11, f12, f13, f14, f15, f16, f17, f18, f19, f20⟩, hc, hk⟩ := h
  refine ⟨?_, hR.frame _ _ _ _ (by decide) hc, keep_set hk _ _ (by decide)⟩
  rw [hnr] at f4
  constructor <;> simp [Env.set, isRunning, handlePV, *]

theorem St.noneHandleRelay (hR : CoreRel R) (h : St R env0 env t) (hnr : isRunning t.relayThread = false) :
    St R env0 (env.set "self.relay_thread" pnone) { t with relayThread := .none } := by
  obtain ⟨⟨f1, f2, f3, f4, f5, f6, f7, f8, f9, f10, f11, f12, f13, f14, f15, f16, f17, f18, f19, f20⟩, hc, hk⟩ := h
  refine ⟨?_, hR.frame _ _ _ _ (by decide) hc, keep_set hk _ _ (by decide)⟩
  rw [hnr] at f5
  constructor <;> simp [Env.set, isRunning, handlePV, *]

/-- the liveness of the thread the handle refers to changes (`Thread.start()`, or the thread ends) -/
theorem St.setAliveMain (hR : CoreRel R) (h : St R env0 env t) (b : Bool) (hh : t.mainThread ≠ .none) :
    St R env0 (env.set "#alive.main" (pbool b)) { t with mainThread := if b then .running else .finished } := by
  obtain ⟨⟨f1, f2, f3, f4, f5, f6, f7, f8, f9, f10, f11, f12, f13, f14, f15, f16, f17, f18, f19, f20⟩, hc, hk⟩ := h
  refine ⟨?_, hR.frame _ _ _ _ (by decide) hc, keep_set hk _ _ (by decide)⟩
  have f2' : env "self.main_thread" = some (.meth "Thread") := by
    rw [f2]; cases hm : t.mainThread <;> simp_all [handlePV]
  cases b <;> constructor <;> simp [Env.set, isRunning, handlePV, *]

theorem St.setAliveRelay (hR : CoreRel R) (h : St R env0 env t) (b : Bool) (hh : t.relayThread ≠ .none) :
    St R env0 (env.set "#alive.relay" (pbool b)) { t with relayThread := if b then .running else .finished } := by
  obtain ⟨⟨f1, f2, f3, f4, f5, f6, f7, f8, f9, f10, f11, f12, f13, f14, f15, f16, f17, f18, f19, f20⟩, hc, hk⟩ := h
  refine ⟨?_, hR.frame _ _ _ _ (by decide) hc, keep_set hk _ _ (by decide)⟩
  have f3' : env "self.relay_thread" = some (.meth "Thread") := by
    rw [f3]; cases hm : t.relayThread <;> simp_all [handlePV]
  cases b <;> constructor <;> simp [Env.set, isRunning, handlePV, *]

/-- an operation of the logic layer: the wrapper keys keep their values, the new environment shows the new core -/
theorem St.congr (h : St R env0 env t) (env' : Env) (s' : State) (hfr : ∀ k ∈ wrapperKeys, env' k = env k) (hc' : R env' s') :
    St R env0 env' { t with core := s' } := by
  obtain ⟨⟨f1, f2, f3, f4, f5, f6, f7, f8, f9, f10, f11, f12, f13, f14, f15, f16, f17, f18, f19, f20⟩, hc, hk⟩ := h
  refine ⟨?_, hc', fun k hk' => ?_⟩
  · obtain ⟨d, f19⟩ := f19
    exact ⟨(hfr _ (by decide)).trans f1, (hfr _ (by decide)).trans f2, (hfr _ (by decide)).trans f3, (hfr _ (by decide)).trans f4,
      (hfr _ (by decide)).trans f5, (hfr _ (by decide)).trans f6, (hfr _ (by decide)).trans f7, (hfr _ (by decide)).trans f8,
      (hfr _ (by decide)).trans f9, (hfr _ (by decide)).trans f10, (hfr _ (by decide)).trans f11, (hfr _ (by decide)).trans f12,
      (hfr _ (by decide)).trans f13, (hfr _ (by decide)).trans f14, (hfr _ (by decide)).trans f15, (hfr _ (by decide)).trans f16,
      (hfr _ (by decide)).trans f17, (hfr _ (by decide)).trans f18, ⟨d, (hfr _ (by decide)).trans f19⟩, (hfr _ (by decide)).trans f20⟩
  · have hw : k ∈ wrapperKeys := by
      simp only [passiveKeys, List.mem_cons, List.not_mem_nil, or_false] at hk'
      rcases hk' with rfl | rfl <;> decide
    exact (hfr k hw).trans (hk k hk')

/-- the model state may be replaced by an equal one -/
theorem St.cast (h : St R env0 env t) {t' : TL} (e : t = t') : St R env0 env t' := e ▸ h

end updates


/-! ## 3. the primitives: `threading.Event`, `threading.Thread`, `queue.Queue`, the calls into the logic layer -/

/-- What the lifecycle methods assume of the objects they call.  Plain fields are the sequential meaning of a primitive on the keys of
    section 1; the fields named `h...` are CONTRACT ASSUMPTIONS about the other threads (what they have done by the time a blocking
    call returns): they are what the model `Isotp/Threaded.lean` abstracts, made explicit. -/
structure Spec (M : Meths) (R : Env → State → Prop) : Prop where
  /- `threading.Event` -/
  evSet : ∀ (e : Ev7) (env : Env), M.proc e.setName [] env = .ok (env.set e.key (pbool true))
  evClear : ∀ (e : Ev7) (env : Env), M.proc e.clearName [] env = .ok (env.set e.key (pbool false))
  evIsSet : ∀ (e : Ev7) (env : Env) (b : Bool), env e.key = some (pbool b) → M.fn e.isSetName [] env = .ok (pbool b)
  /-- `Event.wait(timeout)` on a flag that is already set returns at once; nothing has to have happened meanwhile -/
  waitSet : ∀ (e : Ev7) (env : Env) (v : PV), env e.key = some (pbool true) → M.proc e.waitName [v] env = .ok env
  /-- float literals (`__float__ "0.5"` in the dump) are opaque numbers; they are only ever passed as timeouts, which are outside the
      model (they matter for the real-time bound only, which is measured, not proved: DESIGN C14).  An integer stands for each. -/
  float : ∀ (s : String) (env : Env), ∃ i : Int, M.fn "__float__" [.str s] env = .ok (pint i)
  /- `queue.Queue` (`self.rx_relay_queue`) -/
  qPutNone : ∀ (env : Env) (q : List (Option CanMsg)), env "#relay_queue" = some (.list (encQ q)) →
    M.proc "self.rx_relay_queue.put" [pnone] env = .ok (env.set "#relay_queue" (.list (encQ (q ++ [none]))))
  qEmpty : ∀ (env : Env) (q : List (Option CanMsg)), env "#relay_queue" = some (.list (encQ q)) →
    M.fn "self.rx_relay_queue.empty" [] env = .ok (pbool q.isEmpty)
  qGet : ∀ (env : Env) (x : Option CanMsg) (q : List (Option CanMsg)), env "#relay_queue" = some (.list (encQ (x :: q))) →
    M.proc "self.rx_relay_queue.get" [] env = .ok (env.set "#relay_queue" (.list (encQ q)))
  /-- `_set_rxfn(f)` is `self.rxfn = f` (protocol.py l. 906; not dumped) -/
  setRxfn : ∀ (env : Env) (x : PV), M.proc "self._set_rxfn" [x] env = .ok (env.set "self.rxfn" x)
  /- `threading.Thread` -/
  thrNew : ∀ (env : Env) (tgt : PV), M.fn "threading.Thread#target#daemon" [tgt, pbool true] env = .ok (.meth "Thread")
  startMain : ∀ (env : Env), env "self.main_thread" = some (.meth "Thread") →
    M.proc "self.main_thread.start" [] env = .ok (env.set "#alive.main" (pbool true))
  startRelay : ∀ (env : Env), env "self.relay_thread" = some (.meth "Thread") →
    M.proc "self.relay_thread.start" [] env = .ok (env.set "#alive.relay" (pbool true))
  aliveMain : ∀ (env : Env) (b : Bool), env "#alive.main" = some (pbool b) → M.fn "self.main_thread.is_alive" [] env = .ok (pbool b)
  aliveRelay : ∀ (env : Env) (b : Bool), env "#alive.relay" = some (pbool b) → M.fn "self.relay_thread.is_alive" [] env = .ok (pbool b)
  /-- `join` of a thread that is not alive returns at once -/
  joinDeadMain : ∀ (env : Env) (v : PV), env "#alive.main" = some (pbool false) → M.proc "self.main_thread.join" [v] env = .ok env
  joinDeadRelay : ∀ (env : Env) (v : PV), env "#alive.relay" = some (pbool false) →
    M.proc "self.relay_thread.join#timeout" [v] env = .ok env
  /-- **H-join** (worker): once `stop_requested` is set and a wake-up token is queued behind whatever the relay queue holds, the worker
      is observed dead when `join(timeout)` returns; meanwhile the wrapper's other keys are left alone.  (Real time: the worker wakes
      from `rx_relay_queue.get(timeout)` on the token, leaves its loop and runs its `finally` within the 1.0 s of the join.) -/
  hJoin : ∀ (env : Env) (v : PV) (q : List (Option CanMsg)), env "#alive.main" = some (pbool true) →
    env "#ev.stop_requested" = some (pbool true) → env "#relay_queue" = some (.list (encQ (q ++ [none]))) →
    ∃ env', M.proc "self.main_thread.join" [v] env = .ok env' ∧ env' "#alive.main" = some (pbool false) ∧
      ∀ k ∈ wrapperKeys, k ≠ "#alive.main" → env' k = env k
  /-- **H-join** (relay thread): once `stop_requested` is set, the relay thread is dead when `join(timeout=wait_time)` returns, and it
      has touched nothing else.  (Real time: it is at most one `user_rxfn(default_read_timeout)` call away from testing the flag - which is
      why the source joins with `max(default_read_timeout + 0.5, 1.0)` - PROVIDED the user's `rxfn` honours its timeout, as the source's
      own warning says.  A frame the thread forwards to the relay queue in that last iteration is not modelled: the queue is drained
      right after.) -/
  hJoinRelay : ∀ (env : Env) (v : PV), env "#alive.relay" = some (pbool true) → env "#ev.stop_requested" = some (pbool true) →
    M.proc "self.relay_thread.join#timeout" [v] env = .ok (env.set "#alive.relay" (pbool false))
  /-- the model abstracts the whole worker thread between the stop request and its death into `TL.workerExit`: by the time `join` returns
      and the worker is dead, its `finally: super().reset()` has run, and that is all that happened to the logic layer -/
  hWorkerExit : ∀ (env env' : Env) (v : PV) (s : State), R env s → env "#alive.main" = some (pbool true) →
    M.proc "self.main_thread.join" [v] env = .ok env' → env' "#alive.main" = some (pbool false) → R env' s.reset
  /-- the threads signal ready: a started worker has executed the first statement of `_main_thread_fn`
      (`self.events.main_thread_ready.set()`) when `main_thread_ready.wait(0.5)` returns -/
  hReady : ∀ (env : Env) (v : PV), env "#alive.main" = some (pbool true) →
    M.proc "self.events.main_thread_ready.wait" [v] env = .ok (env.set "#ev.main_thread_ready" (pbool true))
  /-- the same for the relay thread (`assert self.user_rxfn is not None; self.events.relay_thread_ready.set()`) -/
  hReadyRelay : ∀ (env : Env) (v : PV), env "#alive.relay" = some (pbool true) →
    M.proc "self.events.relay_thread_ready.wait" [v] env = .ok (env.set "#ev.relay_thread_ready" (pbool true))
  /-- the worker serves a `reset_tx` request: with a live worker, no stop requested, `reset_tx` set and `reset_tx_complete` NOT yet set,
      `reset_tx_complete.wait(1.0)` returns after the worker has run `_stop_sending(success=False)`, cleared `reset_tx` and set
      `reset_tx_complete` (the tail of one iteration of `_main_thread_fn`); nothing else has changed -/
  hServe : ∀ (env : Env) (v : PV) (s : State), R env s → env "#alive.main" = some (pbool true) →
    env "#ev.stop_requested" = some (pbool false) → env "#ev.reset_tx" = some (pbool true) →
    env "#ev.reset_tx_complete" = some (pbool false) →
    ∃ env', M.proc "self.events.reset_tx_complete.wait" [v] env = .ok env' ∧ R env' (s.stopSending false) ∧
      env' "#ev.reset_tx" = some (pbool false) ∧ env' "#ev.reset_tx_complete" = some (pbool true) ∧
      ∀ k ∈ wrapperKeys, k ≠ "#ev.reset_tx" → k ≠ "#ev.reset_tx_complete" → env' k = env k
  /-- the same for `reset_rx` (the wake-up token put before the wait stays in the model's `relayQ`, as in `TL.stopReceiving`) -/
  hServeRx : ∀ (env : Env) (v : PV) (s : State), R env s → env "#alive.main" = some (pbool true) →
    env "#ev.stop_requested" = some (pbool false) → env "#ev.reset_rx" = some (pbool true) →
    env "#ev.reset_rx_complete" = some (pbool false) →
    ∃ env', M.proc "self.events.reset_rx_complete.wait" [v] env = .ok env' ∧ R env' s.stopReceiving ∧
      env' "#ev.reset_rx" = some (pbool false) ∧ env' "#ev.reset_rx_complete" = some (pbool true) ∧
      ∀ k ∈ wrapperKeys, k ≠ "#ev.reset_rx" → k ≠ "#ev.reset_rx_complete" → env' k = env k
  /- the calls into the logic layer (`TransportLayerLogic`): they act on the core only.  `super().reset()` is tied to its source by
     `reset_agrees` (LayerQueues.lean), `_stop_sending` / `_stop_receiving` by `p_stop_sending_run` / `stop_receiving_agrees`
     (LayerTxHelpers.lean) -/
  superReset : ∀ (env : Env) (s : State), R env s →
    ∃ env', M.proc "super().reset" [] env = .ok env' ∧ R env' s.reset ∧ ∀ k ∈ wrapperKeys, env' k = env k
  stopSendingCore : ∀ (env : Env) (s : State), R env s →
    ∃ env', M.proc "self._stop_sending#success" [pbool false] env = .ok env' ∧ R env' (s.stopSending false) ∧
      ∀ k ∈ wrapperKeys, env' k = env k
  stopReceivingCore : ∀ (env : Env) (s : State), R env s →
    ∃ env', M.proc "self._stop_receiving" [] env = .ok env' ∧ R env' s.stopReceiving ∧ ∀ k ∈ wrapperKeys, env' k = env k

/-- the thread functions do begin with the statements `hReady` / `hReadyRelay` refer to -/
theorem main_thread_fn_head : ∃ rest, Src.TransportLayer_p_main_thread_fn =
    .cons (.expr (.call "self.events.main_thread_ready.set" .nil)) rest := ⟨_, rfl⟩
theorem relay_thread_fn_head : ∃ rest, Src.TransportLayer_p_relay_thread_fn =
    .cons (.assert_ (.isNotNone (.var "self.user_rxfn"))) (.cons (.expr (.call "self.events.relay_thread_ready.set" .nil)) rest) :=
  ⟨_, rfl⟩

section prims
variable {M : Meths} {R : Env → State → Prop}

theorem eval_float (hM : Spec M R) (env : Env) (s : String) :
    ∃ i : Int, eval M env (.call "__float__" (.cons (.strLit s) .nil)) = .ok (pint i) := by
  obtain ⟨i, hi⟩ := hM.float s env
  exact ⟨i, by rw [eval_fn1 M env "__float__" _ (.str s) (by decide) (by simp [eval]), hi]⟩

theorem exec_evClear (hM : Spec M R) (env : Env) (e : Ev7) :
    execStmt M env (.expr (.call e.clearName .nil)) = .ok (.next (env.set e.key (pbool false))) :=
  exec_proc0 M env _ _ (by cases e <;> decide) (hM.evClear e env)

theorem exec_evSet (hM : Spec M R) (env : Env) (e : Ev7) :
    execStmt M env (.expr (.call e.setName .nil)) = .ok (.next (env.set e.key (pbool true))) :=
  exec_proc0 M env _ _ (by cases e <;> decide) (hM.evSet e env)

theorem eval_isSet (hM : Spec M R) (env : Env) (e : Ev7) (b : Bool) (h : env e.key = some (pbool b)) :
    eval M env (.call e.isSetName .nil) = .ok (pbool b) := by
  rw [eval_fn0 M env _ (by cases e <;> decide), hM.evIsSet e env b h]

theorem eval_not_isSet (hM : Spec M R) (env : Env) (e : Ev7) (b : Bool) (h : env e.key = some (pbool b)) :
    eval M env (.not_ (.call e.isSetName .nil)) = .ok (pbool (!b)) :=
  eval_not M env _ b (eval_isSet hM env e b h)

theorem eval_thrNew (hM : Spec M R) (env : Env) (k : String) (tgt : PV) (h : env k = some tgt) :
    eval M env (.call "threading.Thread#target#daemon" (.cons (.var k) (.cons .tt .nil))) = .ok (.meth "Thread") := by
  simp [eval, evalArgs, h, evalBuiltin_none "threading.Thread#target#daemon" _ (by decide), hM.thrNew env tgt]

/-- a call statement whose only argument is a float literal (a timeout), when the callee's result does not depend on it -/
theorem exec_proc1_float (hM : Spec M R) (env env' : Env) (fn : String) (s : String) (hb : fn ∉ builtinNames)
    (hp : ∀ v, M.proc fn [v] env = .ok env') :
    execStmt M env (.expr (.call fn (.cons (.call "__float__" (.cons (.strLit s) .nil)) .nil))) = .ok (.next env') := by
  obtain ⟨i, hi⟩ := eval_float hM env s
  exact exec_proc1 M env env' fn _ _ hb hi (hp _)

/-- `if c: ...` with a false test and no `else` -/
theorem exec_ite_skip (M : Meths) (env : Env) (c : PExpr) (t : PBlock) (h : eval M env c = .ok (pbool false)) :
    execStmt M env (.ite c t .nil) = .ok (.next env) := by
  simp [execStmt, execBlock, h]

end prims

/-! ## 4. `start` -/

/-- `if self.started: raise RuntimeError(...)` -/
theorem exec_guard (M : Meths) (env : Env) (b : Bool) (h : env "self.started" = some (pbool b)) :
    execStmt M env (.ite (.var "self.started") (.cons (.raise "RuntimeError") .nil) .nil) =
      if b then .error (.exc .RuntimeError) else .ok (.next env) := by
  cases b <;> simp [execStmt, execBlock, eval, h]

/-- **`start`, refusal**: whatever the callees do (`M` arbitrary), a started layer raises `RuntimeError` at the first statement -/
theorem start_refuses (M : Meths) (env : Env) (h : env "self.started" = some (pbool true)) :
    runFn M env Src.TransportLayer_start = .error (.exc .RuntimeError) := by
  unfold runFn Src.TransportLayer_start
  simp only [execBlock, exec_guard M env true h, if_true, error_bind]


/-- the model's `start` on a layer that is not started, as the sequence of updates the source performs -/
theorem start_model (t : TL) (hs : t.started = false) (ev' : Events)
    (hev : ev' = { Events.cleared with mainReady := true, relayReady := true }) :
    ({ t with rxfnIsRelay := true, mainThread := .running, relayThread := .running, ev := ev', started := true } : TL) =
      (TL.start t).1 := by
  subst hev
  simp only [TL.start, hs]
  rfl

/-- **`start`, accepted**: on a layer that is not started the call runs to its end, and the final environment shows the model's
    `(TL.start t).1`: `rxfn` switched to the relay queue, both threads created and started, the seven events cleared and then the two
    ready flags set (`hReady`, `hReadyRelay`: under them neither "if not ...ready.is_set(): self.stop(); raise" branch is taken),
    `started = True`; the logic layer and the passive keys are untouched. -/
theorem start_runs {M : Meths} {R : Env → State → Prop} (hM : Spec M R) (hR : CoreRel R) (env : Env) (t : TL)
    (h : Shows R env t) (hs : t.started = false) :
    ∃ env', runFn M env Src.TransportLayer_start = .ok (pnone, env') ∧ St R env env' (TL.start t).1 := by
  apply Run.toRunFn
  have h0 := St.init h
  unfold Src.TransportLayer_start
  -- if self.started: raise
  refine Run.cons (by rw [exec_guard M env false (hs ▸ h0.w.started)]; rfl) ?_
  -- self._set_rxfn(self._read_relay_queue)
  refine Run.cons (exec_proc1 M env _ _ _ _ (by decide) (eval_var M env _ _ h0.w.cRelayFn) (hM.setRxfn env _)) ?_
  have h1 := h0.setRxfn hR true
  -- the two Thread objects
  refine Run.cons (exec_assign M _ _ _ _ (eval_thrNew hM _ _ _ h1.w.cMainT)) ?_
  have h2 := h1.newHandleMain hR
  refine Run.cons (exec_assign M _ _ _ _ (eval_thrNew hM _ _ _ h2.w.cRelayT)) ?_
  have h3 := h2.newHandleRelay hR
  -- seven clears
  refine Run.cons (exec_evClear hM _ .mainReady) ?_
  have h4 := h3.setEv hR .mainReady false
  refine Run.cons (exec_evClear hM _ .relayReady) ?_
  have h5 := h4.setEv hR .relayReady false
  refine Run.cons (exec_evClear hM _ .stopRequested) ?_
  have h6 := h5.setEv hR .stopRequested false
  refine Run.cons (exec_evClear hM _ .resetTx) ?_
  have h7 := h6.setEv hR .resetTx false
  refine Run.cons (exec_evClear hM _ .resetRx) ?_
  have h8 := h7.setEv hR .resetRx false
  refine Run.cons (exec_evClear hM _ .resetTxComplete) ?_
  have h9 := h8.setEv hR .resetTxComplete false
  refine Run.cons (exec_evClear hM _ .resetRxComplete) ?_
  have h10 := h9.setEv hR .resetRxComplete false
  -- Thread.start() twice
  have hmh : ∀ x : Isotp.Thr, handlePV (if isRunning x then .running else .finished) = .meth "Thread" := by
    intro x; cases x <;> rfl
  refine Run.cons (exec_proc0 M _ _ _ (by decide) (hM.startMain _ (by rw [h10.w.mainH]; exact congrArg some (hmh _)))) ?_
  have h11 := h10.setAliveMain hR true (by show (if isRunning t.mainThread then Isotp.Thr.running else .finished) ≠ .none; split <;> simp)
  refine Run.cons (exec_proc0 M _ _ _ (by decide) (hM.startRelay _ (by rw [h11.w.relayH]; exact congrArg some (hmh _)))) ?_
  have h12 := h11.setAliveRelay hR true
    (by show (if isRunning t.relayThread then Isotp.Thr.running else .finished) ≠ .none; split <;> simp)
  -- main_thread_ready.wait(0.5); if not is_set: stop, raise
  refine Run.cons (exec_proc1_float hM _ _ _ _ (by decide) (fun v => hM.hReady _ v h12.w.mainA)) ?_
  have h13 := h12.setEv hR .mainReady true
  refine Run.cons (exec_ite_skip M _ _ _ (eval_not_isSet hM _ .mainReady true h13.w.e1)) ?_
  -- relay_thread_ready.wait(0.5); if not is_set: stop, raise
  refine Run.cons (exec_proc1_float hM _ _ _ _ (by decide) (fun v => hM.hReadyRelay _ v h13.w.relayA)) ?_
  have h14 := h13.setEv hR .relayReady true
  refine Run.cons (exec_ite_skip M _ _ _ (eval_not_isSet hM _ .relayReady true h14.w.e2)) ?_
  -- self.started = True
  refine Run.cons (exec_assign M _ _ _ _ (eval_tt M _)) ?_
  have h15 := h14.setStarted hR true
  exact Run.nil (h15.cast (start_model t hs _ rfl))


/-- **`start`** against the model: `RuntimeError` exactly when the model says so (the layer is started); otherwise the run ends normally
    in an environment that shows `(TL.start t).1`, the passive keys unchanged. -/
theorem start_agrees {M : Meths} {R : Env → State → Prop} (hM : Spec M R) (hR : CoreRel R) (env : Env) (t : TL) (h : Shows R env t) :
    match (TL.start t).2 with
    | some e => runFn M env Src.TransportLayer_start = .error (.exc e)
    | none => ∃ env', runFn M env Src.TransportLayer_start = .ok (pnone, env') ∧ Shows R env' (TL.start t).1 ∧
        ∀ k ∈ passiveKeys, env' k = env k := by
  cases hs : t.started with
  | true =>
    have : (TL.start t).2 = some .RuntimeError := by simp [TL.start, hs]
    rw [this]
    exact start_refuses M env (hs ▸ h.1.started)
  | false =>
    have : (TL.start t).2 = none := by simp [TL.start, hs]
    rw [this]
    obtain ⟨env', h1, h2⟩ := start_runs hM hR env t h hs
    exact ⟨env', h1, h2.shows, h2.keep⟩

/-- `start` raises `RuntimeError` if and only if the layer is already started; it fails in no other way -/
theorem start_raises_iff {M : Meths} {R : Env → State → Prop} (hM : Spec M R) (hR : CoreRel R) (env : Env) (t : TL) (h : Shows R env t) :
    (runFn M env Src.TransportLayer_start = .error (.exc .RuntimeError) ↔ t.started = true) ∧
    ((∃ e, runFn M env Src.TransportLayer_start = .error e) ↔ t.started = true) := by
  cases hs : t.started with
  | true =>
    have := start_refuses M env (hs ▸ h.1.started)
    exact ⟨⟨fun _ => rfl, fun _ => this⟩, ⟨fun _ => rfl, fun _ => ⟨_, this⟩⟩⟩
  | false =>
    obtain ⟨env', h1, -⟩ := start_runs hM hR env t h hs
    refine ⟨⟨fun h2 => ?_, fun h2 => by cases h2⟩, ⟨fun ⟨e, h2⟩ => ?_, fun h2 => by cases h2⟩⟩
    · rw [h1] at h2; cases h2
    · rw [h1] at h2; cases h2

/-! ## 5. `stop` -/

/-- statement-level triple -/
def RunS (M : Meths) (env : Env) (s : PStmt) (Q : Env → Prop) : Prop := ∃ env', execStmt M env s = .ok (.next env') ∧ Q env'

theorem eval_isNotNone (M : Meths) (env : Env) (k : String) (v : PV) (h : env k = some v) :
    eval M env (.isNotNone (.var k)) = .ok (pbool (v != pnone)) := by
  simp [eval, h]

theorem meth_ne_pnone (s : String) : ((PV.meth s) != pnone) = true := by simp [pnone]
theorem pnone_ne_pnone : (pnone != pnone) = false := by simp

/-- `if c: <block>` with a true test -/
theorem RunS.ite_true {M : Meths} {env : Env} {c : PExpr} {t e : PBlock} {Q : Env → Prop}
    (hc : eval M env c = .ok (pbool true)) (h : Run M env t Q) : RunS M env (.ite c t e) Q := by
  obtain ⟨env', h1, h2⟩ := h
  exact ⟨env', by rw [exec_ite M env c t e true hc]; exact h1, h2⟩

theorem RunS.ite_false {M : Meths} {env : Env} {c : PExpr} {t e : PBlock} {Q : Env → Prop}
    (hc : eval M env c = .ok (pbool false)) (h : Run M env e Q) : RunS M env (.ite c t e) Q := by
  obtain ⟨env', h1, h2⟩ := h
  exact ⟨env', by rw [exec_ite M env c t e false hc]; exact h1, h2⟩

/-- `if c: ...` with a false test and no `else` -/
theorem RunS.skip {M : Meths} {env : Env} {c : PExpr} {t : PBlock} {Q : Env → Prop}
    (hc : eval M env c = .ok (pbool false)) (h : Q env) : RunS M env (.ite c t .nil) Q :=
  RunS.ite_false hc (Run.nil h)

theorem Run.single {M : Meths} {env : Env} {s : PStmt} {Q : Env → Prop} (h : RunS M env s Q) : Run M env (.cons s .nil) Q := by
  obtain ⟨env', h1, h2⟩ := h
  exact Run.cons h1 (Run.nil h2)

theorem builtin_max (x y : Int) : evalBuiltin "max" [pint x, pint y] = some (.ok (pint (if y > x then y else x))) := by
  simp [evalBuiltin, asInt, Sc.isInt, Sc.intVal, PyVal.isInt, PyVal.intVal]
  split <;> rfl

section stop
variable {M : Meths} {R : Env → State → Prop} {env0 env : Env} {t : TL}

/-- the block `if self.main_thread is not None: join(1.0); if is_alive(): <log>; self.main_thread = None`, after the stop request and the
    wake-up token: whatever the worker's state, no worker is alive afterwards, the handle is `None`, and a worker that was running has
    run its `finally` (`TL.workerExit`) -/
theorem stop_joinMain (hM : Spec M R) (hR : CoreRel R) (h : St R env0 env t) (hsr : t.ev.stopRequested = true)
    (q : List (Option CanMsg)) (hq : t.relayQ = q ++ [none]) :
    RunS M env
      (.ite (.isNotNone (.var "self.main_thread"))
        (.cons (.expr (.call "self.main_thread.join" (.cons (.call "__float__" (.cons (.strLit "1.0") .nil)) .nil)))
        (.cons (.ite (.call "self.main_thread.is_alive" .nil) .nil .nil)
        (.cons (.assign "self.main_thread" .none) .nil))) .nil)
      (fun env' => St R env0 env'
        { t with core := if t.mainThread = .running then t.workerExit.core else t.core, mainThread := .none }) := by
  cases hm : t.mainThread with
  | none =>
    have hH : env "self.main_thread" = some pnone := by rw [h.w.mainH, hm]; rfl
    refine ⟨env, exec_ite_skip M env _ _ (by rw [eval_isNotNone M env _ _ hH]; rfl), h.cast ?_⟩
    cases t; simp_all
  | running =>
    have hH : env "self.main_thread" = some (.meth "Thread") := by rw [h.w.mainH, hm]; rfl
    have hA : env "#alive.main" = some (pbool true) := by rw [h.w.mainA, hm]; rfl
    obtain ⟨i, hi⟩ := eval_float hM env "1.0"
    obtain ⟨env1, hj, hd, hfr⟩ := hM.hJoin env (pint i) q hA (by rw [h.w.e3, hsr]) (by rw [h.w.q, hq])
    have hc1 := hM.hWorkerExit env env1 (pint i) t.core h.c hA hj hd
    have hfr' : ∀ k ∈ wrapperKeys, env1 k = (env.set "#alive.main" (pbool false)) k := by
      intro k hk
      by_cases hk' : k = "#alive.main"
      · subst hk'; rw [hd]; simp [Env.set]
      · rw [hfr k hk hk']; simp [Env.set, hk']
    have h1 := ((h.setAliveMain hR false (by rw [hm]; simp)).congr env1 t.core.reset hfr' hc1)
    have h2 := h1.noneHandleMain hR rfl
    refine RunS.ite_true (by rw [eval_isNotNone M env _ _ hH]; rfl) ?_
    refine Run.cons (exec_proc1 M env env1 _ _ _ (by decide) hi hj) ?_
    refine Run.cons (exec_ite_nil M env1 _ false (by rw [eval_fn0 M env1 _ (by decide), hM.aliveMain env1 false hd])) ?_
    refine Run.cons (exec_assign M env1 _ _ _ (eval_none M env1)) ?_
    exact Run.nil (h2.cast (by simp only [TL.workerExit]; rfl))
  | finished =>
    have hH : env "self.main_thread" = some (.meth "Thread") := by rw [h.w.mainH, hm]; rfl
    have hA : env "#alive.main" = some (pbool false) := by rw [h.w.mainA, hm]; rfl
    have h2 := h.noneHandleMain hR (by rw [hm]; rfl)
    refine RunS.ite_true (by rw [eval_isNotNone M env _ _ hH]; rfl) ?_
    refine Run.cons (exec_proc1_float hM env env _ _ (by decide) (fun v => hM.joinDeadMain env v hA)) ?_
    refine Run.cons (exec_ite_nil M env _ false (by rw [eval_fn0 M env _ (by decide), hM.aliveMain env false hA])) ?_
    refine Run.cons (exec_assign M env _ _ _ (eval_none M env)) ?_
    exact Run.nil (h2.cast (by simp))

/-- the block `if self.relay_thread is not None: wait_time = max(self.default_read_timeout + 0.5, 1.0); join(timeout=wait_time);
    if is_alive(): <log>; self.relay_thread = None`, after the stop request -/
theorem stop_joinRelay (hM : Spec M R) (hR : CoreRel R) (h : St R env0 env t) (hsr : t.ev.stopRequested = true) :
    RunS M env
      (.ite (.isNotNone (.var "self.relay_thread"))
        (.cons (.assign "wait_time" (.call "max" (.cons (.binop .add (.var "self.default_read_timeout")
          (.call "__float__" (.cons (.strLit "0.5") .nil))) (.cons (.call "__float__" (.cons (.strLit "1.0") .nil)) .nil))))
        (.cons (.expr (.call "self.relay_thread.join#timeout" (.cons (.var "wait_time") .nil)))
        (.cons (.ite (.call "self.relay_thread.is_alive" .nil) .nil .nil)
        (.cons (.assign "self.relay_thread" .none) .nil)))) .nil)
      (fun env' => St R env0 env' { t with relayThread := .none }) := by
  obtain ⟨d, hd⟩ := h.w.cTimeout
  obtain ⟨i1, hi1⟩ := eval_float hM env "0.5"
  obtain ⟨i2, hi2⟩ := eval_float hM env "1.0"
  -- the timeout: some number
  have hw : eval M env (.call "max" (.cons (.binop .add (.var "self.default_read_timeout")
      (.call "__float__" (.cons (.strLit "0.5") .nil))) (.cons (.call "__float__" (.cons (.strLit "1.0") .nil)) .nil))) =
      .ok (pint (if i2 > d + i1 then i2 else d + i1)) := by
    have hadd : eval M env (.binop .add (.var "self.default_read_timeout") (.call "__float__" (.cons (.strLit "0.5") .nil))) =
        .ok (pint (d + i1)) := by
      rw [eval, eval_var M env _ _ hd, hi1]; rfl
    rw [eval, evalArgs, hadd, evalArgs, hi2, evalArgs]
    simp only [ok_bind, builtin_max]
  have h1 := h.setLocal hR "wait_time" (pint (if i2 > d + i1 then i2 else d + i1)) (by decide)
  have hwv : (env.set "wait_time" (pint (if i2 > d + i1 then i2 else d + i1))) "wait_time" =
      some (pint (if i2 > d + i1 then i2 else d + i1)) := by simp [Env.set]
  cases hm : t.relayThread with
  | none =>
    have hH : env "self.relay_thread" = some pnone := by rw [h.w.relayH, hm]; rfl
    refine ⟨env, exec_ite_skip M env _ _ (by rw [eval_isNotNone M env _ _ hH]; rfl), h.cast ?_⟩
    cases t; simp_all
  | running =>
    have hH : env "self.relay_thread" = some (.meth "Thread") := by rw [h.w.relayH, hm]; rfl
    have hA : (env.set "wait_time" (pint (if i2 > d + i1 then i2 else d + i1))) "#alive.relay" = some (pbool true) := by
      rw [h1.w.relayA, hm]; rfl
    have h2 := h1.setAliveRelay hR false (by rw [hm]; simp)
    have h3 := h2.noneHandleRelay hR rfl
    refine RunS.ite_true (by rw [eval_isNotNone M env _ _ hH]; rfl) ?_
    refine Run.cons (exec_assign M env _ _ _ hw) ?_
    refine Run.cons (exec_proc1 M _ _ _ _ _ (by decide) (eval_var M _ _ _ hwv)
      (hM.hJoinRelay _ _ hA (by rw [h1.w.e3, hsr]))) ?_
    refine Run.cons (exec_ite_nil M _ _ false (by rw [eval_fn0 M _ _ (by decide), hM.aliveRelay _ false h2.w.relayA])) ?_
    refine Run.cons (exec_assign M _ _ _ _ (eval_none M _)) ?_
    exact Run.nil (h3.cast (by simp))
  | finished =>
    have hH : env "self.relay_thread" = some (.meth "Thread") := by rw [h.w.relayH, hm]; rfl
    have hA : (env.set "wait_time" (pint (if i2 > d + i1 then i2 else d + i1))) "#alive.relay" = some (pbool false) := by
      rw [h1.w.relayA, hm]; rfl
    have h3 := h1.noneHandleRelay hR (by rw [hm]; rfl)
    refine RunS.ite_true (by rw [eval_isNotNone M env _ _ hH]; rfl) ?_
    refine Run.cons (exec_assign M env _ _ _ hw) ?_
    refine Run.cons (exec_proc1 M _ _ _ _ _ (by decide) (eval_var M _ _ _ hwv) (hM.joinDeadRelay _ _ hA)) ?_
    refine Run.cons (exec_ite_nil M _ _ false (by rw [eval_fn0 M _ _ (by decide), hM.aliveRelay _ false hA])) ?_
    refine Run.cons (exec_assign M _ _ _ _ (eval_none M _)) ?_
    exact Run.nil (h3.cast (by simp))

/-- the model's `inbox` is not shown (`CoreRel.inbox`) -/
theorem St.inbox (hR : CoreRel R) (h : St R env0 env t) (ib : List (Nat × CanMsg)) :
    St R env0 env { t with core := { t.core with inbox := ib } } :=
  h.congr env _ (fun _ _ => rfl) (hR.inbox env t.core ib h.c)

/-! ### the drain loop `while not self.rx_relay_queue.empty(): self.rx_relay_queue.get()` -/

def drainCond : PExpr := .not_ (.call "self.rx_relay_queue.empty" .nil)
def drainBody : PBlock := .cons (.expr (.call "self.rx_relay_queue.get" .nil)) .nil

theorem eval_drainCond (hM : Spec M R) (env : Env) (q : List (Option CanMsg)) (h : env "#relay_queue" = some (.list (encQ q))) :
    eval M env drainCond = .ok (pbool (!q.isEmpty)) := by
  unfold drainCond
  exact eval_not M env _ _ (by rw [eval_fn0 M env _ (by decide), hM.qEmpty env q h])

theorem set_set (env : Env) (k : String) (v w : PV) : (env.set k v).set k w = env.set k w := by
  funext k'; simp only [Env.set]; split <;> rfl

/-- the loop, by induction on the queue: `|queue| + 2` units of fuel are enough -/
theorem drain_loop (hM : Spec M R) : ∀ (q : List (Option CanMsg)) (env : Env) (n : Nat),
    env "#relay_queue" = some (.list (encQ q)) → q.length + 2 ≤ n →
    exec2S n M env (.while_ drainCond drainBody) = .ok (.next (env.set "#relay_queue" (.list (encQ []))))
  | [], env, n, hq, hn => by
    obtain ⟨m, rfl⟩ : ∃ m, n = m + 1 := ⟨n - 1, by omega⟩
    rw [exec2S_while, eval_drainCond hM env _ hq]
    simp only [truthy_pbool, List.isEmpty_nil, Bool.not_true]
    rw [set_same env "#relay_queue" _ hq]
  | x :: q, env, n, hq, hn => by
    obtain ⟨m, rfl⟩ : ∃ m, n = m + 3 := ⟨n - 3, by simp only [List.length_cons] at hn; omega⟩
    have hbody : exec2B (m + 2) M env drainBody = .ok (.next (env.set "#relay_queue" (.list (encQ q)))) := by
      unfold drainBody
      rw [exec2B_single _ _ _ _ rfl]
      unfold simple2
      rw [exec_proc0 M env _ "self.rx_relay_queue.get" (by decide) (hM.qGet env x q hq)]
      rfl
    have ih := drain_loop hM q (env.set "#relay_queue" (.list (encQ q))) (m + 2) (by simp [set_get])
      (by simp only [List.length_cons] at hn; omega)
    rw [exec2S_while, eval_drainCond hM env _ hq]
    simp only [truthy_pbool, List.isEmpty_cons, Bool.not_false]
    rw [hbody]
    simp only
    rw [ih, set_set]

/-- **`stop`**, at a fixed amount of fuel -/
theorem stop_runs_at (hM : Spec M R) (hR : CoreRel R) (env : Env) (t : TL) (h : Shows R env t) :
    ∃ env', exec2B (t.relayQ.length + 30) M env Src.TransportLayer_stop = .ok (.next env') ∧ St R env env' (TL.stop t).1 := by
  have h0 := St.init h
  unfold Src.TransportLayer_stop
  show Run2 (t.relayQ.length + 30) M env _ _
  -- self.events.stop_requested.set(); self.rx_relay_queue.put(None)
  refine Run2.cons1 (by rfl) (by rfl) (by decide) (exec_evSet hM _ .stopRequested) ?_
  have h1 := h0.setEv hR .stopRequested true
  refine Run2.cons1 (by rfl) (by rfl) (by decide)
    (exec_proc1 M _ _ _ _ _ (by decide) (eval_none M _) (hM.qPutNone _ _ h1.w.q)) ?_
  have h2 := h1.setQ hR (t.relayQ ++ [none])
  -- the two join blocks
  obtain ⟨e3, x3, h3⟩ := stop_joinMain hM hR h2 rfl t.relayQ rfl
  refine Run2.cons1 (by rfl) (by rfl) (by decide) x3 ?_
  obtain ⟨e4, x4, h4⟩ := stop_joinRelay hM hR h3 rfl
  refine Run2.cons1 (by rfl) (by rfl) (by decide) x4 ?_
  -- seven clears
  refine Run2.cons1 (by rfl) (by rfl) (by decide) (exec_evClear hM _ .mainReady) ?_
  have h5 := h4.setEv hR .mainReady false
  refine Run2.cons1 (by rfl) (by rfl) (by decide) (exec_evClear hM _ .relayReady) ?_
  have h6 := h5.setEv hR .relayReady false
  refine Run2.cons1 (by rfl) (by rfl) (by decide) (exec_evClear hM _ .stopRequested) ?_
  have h7 := h6.setEv hR .stopRequested false
  refine Run2.cons1 (by rfl) (by rfl) (by decide) (exec_evClear hM _ .resetTx) ?_
  have h8 := h7.setEv hR .resetTx false
  refine Run2.cons1 (by rfl) (by rfl) (by decide) (exec_evClear hM _ .resetRx) ?_
  have h9 := h8.setEv hR .resetRx false
  refine Run2.cons1 (by rfl) (by rfl) (by decide) (exec_evClear hM _ .resetTxComplete) ?_
  have h10 := h9.setEv hR .resetTxComplete false
  refine Run2.cons1 (by rfl) (by rfl) (by decide) (exec_evClear hM _ .resetRxComplete) ?_
  have h11 := h10.setEv hR .resetRxComplete false
  -- super().reset()
  obtain ⟨e12, x12, r12, f12⟩ := hM.superReset _ _ h11.c
  refine Run2.cons1 (by rfl) (by rfl) (by decide) (exec_proc0 M _ _ _ (by decide) x12) ?_
  have h12 := h11.congr e12 _ f12 r12
  -- the drain loop
  refine Run2.cons (drain_loop hM (t.relayQ ++ [none]) e12 _ h12.w.q (by simp)) ?_
  have h13 := h12.setQ hR []
  -- self._set_rxfn(self.user_rxfn); self.started = False
  refine Run2.cons1 (by rfl) (by rfl) (by decide)
    (exec_proc1 M _ _ _ _ _ (by decide) (eval_var M _ _ _ h13.w.cUserFn) (hM.setRxfn _ _)) ?_
  have h14 := h13.setRxfn hR false
  refine Run2.cons1 (by rfl) (by rfl) (by decide) (exec_assign M _ _ _ _ (eval_ff M _)) ?_
  have h15 := h14.setStarted hR false
  have h16 := h15.inbox hR []
  refine Run2.nil (h16.cast ?_)
  cases t with
  | mk c s mt rt q ev rx b => cases mt <;> rfl

end stop


/-- what the model's `stop` leaves, field by field -/
theorem stop_model (t : TL) :
    (TL.stop t).2 = none ∧ (TL.stop t).1.started = false ∧ (TL.stop t).1.mainThread = .none ∧ (TL.stop t).1.relayThread = .none ∧
    (TL.stop t).1.ev = Events.cleared ∧ (TL.stop t).1.relayQ = [] ∧ (TL.stop t).1.rxfnIsRelay = false ∧ (TL.stop t).1.bus = t.bus ∧
    (TL.stop t).1.core = { (if t.mainThread = .running then t.core.reset.reset else t.core.reset) with inbox := [] } := by
  cases t with
  | mk c s mt rt q ev rx b => cases mt <;> exact ⟨rfl, rfl, rfl, rfl, rfl, rfl, rfl, rfl, rfl⟩

/-- **`stop`** (second semantics: the body has a `while`), from ANY wrapper state - never started (both handles `None`: no
    `AttributeError`, D3), started, mid-transfer, threads already finished - : with fuel `≥ |relayQ| + 30` the run ends normally (it
    raises nothing: `(TL.stop t).2 = none`) and the final environment shows `(TL.stop t).1`; the passive keys are unchanged. -/
theorem stop_agrees {M : Meths} {R : Env → State → Prop} (hM : Spec M R) (hR : CoreRel R) (env : Env) (t : TL) (h : Shows R env t) :
    ∃ env', (∀ n, t.relayQ.length + 30 ≤ n → run2 n M env Src.TransportLayer_stop = .ok (.ret pnone env')) ∧
      Shows R env' (TL.stop t).1 ∧ (TL.stop t).2 = none ∧ ∀ k ∈ passiveKeys, env' k = env k := by
  obtain ⟨env', h1, h2⟩ := stop_runs_at hM hR env t h
  refine ⟨env', fun n hn => ?_, h2.shows, (stop_model t).1, h2.keep⟩
  apply run2_mono_le hn
  unfold run2
  rw [h1]

/-- ... spelled out on the keys: both handles `None` and no thread alive, the seven events cleared, the relay queue empty, the user `rxfn`
    restored, `started = False`, the logic layer reset (twice when the worker was running: once by its `finally`, once by `stop`) -/
theorem stop_final_env {M : Meths} {R : Env → State → Prop} (hM : Spec M R) (hR : CoreRel R) (env : Env) (t : TL) (h : Shows R env t) :
    ∃ env', (∀ n, t.relayQ.length + 30 ≤ n → run2 n M env Src.TransportLayer_stop = .ok (.ret pnone env')) ∧
      env' "self.started" = some (pbool false) ∧ env' "self.main_thread" = some pnone ∧ env' "self.relay_thread" = some pnone ∧
      env' "#alive.main" = some (pbool false) ∧ env' "#alive.relay" = some (pbool false) ∧
      (∀ e : Ev7, env' e.key = some (pbool false)) ∧ env' "#relay_queue" = some (.list []) ∧
      env' "self.rxfn" = some (.meth "self.user_rxfn") ∧
      R env' (if t.mainThread = .running then t.core.reset.reset else t.core.reset) := by
  obtain ⟨env', h1, ⟨hw, hc⟩, -, -⟩ := stop_agrees hM hR env t h
  obtain ⟨-, m1, m2, m3, m4, m5, m6, -, m8⟩ := stop_model t
  refine ⟨env', h1, ?_, ?_, ?_, ?_, ?_, ?_, ?_, ?_, ?_⟩
  · rw [hw.started, m1]
  · rw [hw.mainH, m2]; rfl
  · rw [hw.relayH, m3]; rfl
  · rw [hw.mainA, m2]; rfl
  · rw [hw.relayA, m3]; rfl
  · intro e; rw [hw.ev e, m4]; cases e <;> rfl
  · rw [hw.q, m5]; rfl
  · rw [hw.rxfn, m6]; rfl
  · rw [m8] at hc
    have := hR.inbox env' _ (if t.mainThread = .running then t.core.reset.reset else t.core.reset).inbox hc
    exact this

/-! ## 6. `stop_sending` / `stop_receiving` -/

theorem eval_and (M : Meths) (env : Env) (a b : PExpr) (x y : Bool) (ha : eval M env a = .ok (pbool x))
    (hb : x = true → eval M env b = .ok (pbool y)) : eval M env (.and_ a b) = .ok (pbool (x && y)) := by
  cases x
  · simp [eval, ha]
  · simp [eval, ha, hb rfl]

section stopSending
variable {M : Meths} {R : Env → State → Prop}

/-- the test `self.main_thread is not None and self.main_thread.is_alive()` -/
theorem eval_workerAlive (hM : Spec M R) (env : Env) (t : TL) (h : ShowsW env t) :
    eval M env (.and_ (.isNotNone (.var "self.main_thread")) (.call "self.main_thread.is_alive" .nil)) =
      .ok (pbool (isRunning t.mainThread)) := by
  have h2 : eval M env (.call "self.main_thread.is_alive" .nil) = .ok (pbool (isRunning t.mainThread)) := by
    rw [eval_fn0 M env _ (by decide), hM.aliveMain env _ h.mainA]
  have h1 := eval_isNotNone M env _ _ h.mainH
  have := eval_and M env _ _ (handlePV t.mainThread != pnone) (isRunning t.mainThread) h1 (fun _ => h2)
  rw [this]
  cases t.mainThread <;> rfl

/-- the served-request step shared by the two methods: a `wait` that returns with the request flag cleared and the completion flag set,
    the logic layer in `s'`, the other wrapper keys untouched -/
theorem St.served (hR : CoreRel R) {env0 env : Env} {t : TL} (h : St R env0 env t) (eReq eDone : Ev7) (env' : Env) (s' : State)
    (hreq : env' eReq.key = some (pbool false)) (hdone : env' eDone.key = some (pbool true))
    (hfr : ∀ k ∈ wrapperKeys, k ≠ eReq.key → k ≠ eDone.key → env' k = env k) (hne : eReq.key ≠ eDone.key) (hc : R env' s') :
    St R env0 env' { t with core := s', ev := evPut (evPut t.ev eReq false) eDone true } := by
  have h1 := (h.setEv hR eReq false).setEv hR eDone true
  refine (h1.congr env' s' ?_ hc).cast rfl
  intro k hk
  by_cases h2 : k = eDone.key
  · subst h2; rw [hdone]; simp [Env.set]
  · by_cases h3 : k = eReq.key
    · subst h3; rw [hreq]; simp [Env.set, hne]
    · rw [hfr k hk h3 h2]; simp [Env.set, h2, h3]

/-- **`stop_sending`** against `TL.stopSending`, in its three cases:
    * not started: `_stop_sending(success=False)` directly;
    * started, a live worker, no stop requested: `reset_tx_complete.clear()`, `reset_tx.set()`, then `reset_tx_complete.wait(1.0)` returns
      once the worker has served the request (`hServe`);
    * started otherwise (stop requested, or no live worker): nothing.
    For EVERY wrapper state - a completion flag left set by an earlier request included: the `clear()` the source does first (fix 6eb6a7e)
    is what makes `hServe` applicable; without it the agreement fails, see `stop_sending_stale_before_fix`. -/
theorem stop_sending_agrees (hM : Spec M R) (hR : CoreRel R) (env : Env) (t : TL) (h : Shows R env t) :
    ∃ env', runFn M env Src.TransportLayer_stop_sending = .ok (pnone, env') ∧ Shows R env' (TL.stopSending t).1 ∧
      (TL.stopSending t).2 = none ∧ ∀ k ∈ passiveKeys, env' k = env k := by
  have h0 := St.init h
  suffices hs : ∃ env', runFn M env Src.TransportLayer_stop_sending = .ok (pnone, env') ∧ St R env env' (TL.stopSending t).1 by
    obtain ⟨env', h1, h2⟩ := hs
    exact ⟨env', h1, h2.shows, by unfold TL.stopSending; split <;> (try split) <;> rfl, h2.keep⟩
  apply Run.toRunFn
  unfold Src.TransportLayer_stop_sending
  refine Run.single ?_
  cases hst : t.started with
  | false =>
    -- else: self._stop_sending(success=False)
    obtain ⟨e1, x1, r1, f1⟩ := hM.stopSendingCore env t.core h0.c
    refine RunS.ite_false (eval_var M env _ _ (hst ▸ h0.w.started)) ?_
    refine Run.cons (exec_proc1 M env e1 _ _ _ (by decide) (eval_ff M env) x1) ?_
    exact Run.nil ((h0.congr e1 _ f1 r1).cast (by simp [TL.stopSending, hst]))
  | true =>
    refine RunS.ite_true (eval_var M env _ _ (hst ▸ h0.w.started)) (Run.single ?_)
    cases hsr : t.ev.stopRequested with
    | true =>
      exact RunS.skip (eval_not_isSet hM env .stopRequested true (hsr ▸ h0.w.e3)) (h0.cast (by simp [TL.stopSending, hst, hsr]))
    | false =>
      refine RunS.ite_true (eval_not_isSet hM env .stopRequested false (hsr ▸ h0.w.e3)) (Run.single ?_)
      cases hrun : isRunning t.mainThread with
      | false =>
        have hne : t.mainThread ≠ .running := by intro e; rw [e] at hrun; cases hrun
        exact RunS.skip (hrun ▸ eval_workerAlive hM env t h0.w) (h0.cast (by simp [TL.stopSending, hst, hsr, hne]))
      | true =>
        have hm : t.mainThread = .running := by cases hmm : t.mainThread <;> simp_all [isRunning]
        have h1 := (h0.setEv hR .resetTxComplete false).setEv hR .resetTx true
        obtain ⟨i, hi⟩ := eval_float hM ((env.set Ev7.resetTxComplete.key (pbool false)).set Ev7.resetTx.key (pbool true)) "1.0"
        obtain ⟨e2, x2, r2, q1, q2, f2⟩ := hM.hServe _ (pint i) t.core h1.c
          (by rw [h1.w.mainA, hm]; rfl) (by rw [h1.w.e3]; exact congrArg _ (congrArg _ hsr)) h1.w.e4 h1.w.e6
        have h2 := h1.served hR .resetTx .resetTxComplete e2 _ q1 q2 f2 (by decide) r2
        refine RunS.ite_true (hrun ▸ eval_workerAlive hM env t h0.w) ?_
        refine Run.cons (exec_evClear hM env .resetTxComplete) ?_
        refine Run.cons (exec_evSet hM _ .resetTx) ?_
        refine Run.cons (exec_proc1 M _ e2 _ _ _ (by decide) hi x2) ?_
        refine Run.cons (exec_ite_nil M e2 _ false (eval_not_isSet hM e2 .resetTxComplete true q2)) ?_
        exact Run.nil (h2.cast (by simp [TL.stopSending, hst, hsr, hm, evPut]))

/-- the body of `stop_sending` as it was BEFORE fix 6eb6a7e (kept literally as a regression witness; this is not the dumped source):
    no `reset_tx_complete.clear()` before the request -/
def stopSendingBeforeFix : PBlock :=
    (.cons (.ite (.var "self.started") (.cons (.ite (.not_ (.call "self.events.stop_requested.is_set" .nil)) (.cons (.ite (.and_ (.isNotNone (.var "self.main_thread")) (.call "self.main_thread.is_alive" .nil)) (.cons (.expr (.call "self.events.reset_tx.set" .nil))
    (.cons (.expr (.call "self.events.reset_tx_complete.wait" (.cons (.call "__float__" (.cons (.strLit "1.0") .nil)) .nil)))
    (.cons (.ite (.not_ (.call "self.events.reset_tx_complete.is_set" .nil)) .nil .nil)
    .nil))) .nil)
    .nil) .nil)
    .nil) (.cons (.expr (.call "self._stop_sending#success" (.cons .ff .nil)))
    .nil))
    .nil)

def stopReceivingBeforeFix : PBlock :=
    (.cons (.ite (.var "self.started") (.cons (.ite (.not_ (.call "self.events.stop_requested.is_set" .nil)) (.cons (.ite (.and_ (.isNotNone (.var "self.main_thread")) (.call "self.main_thread.is_alive" .nil)) (.cons (.expr (.call "self.events.reset_rx.set" .nil))
    (.cons (.expr (.call "self.rx_relay_queue.put" (.cons .none .nil)))
    (.cons (.expr (.call "self.events.reset_rx_complete.wait" (.cons (.call "__float__" (.cons (.strLit "1.0") .nil)) .nil)))
    (.cons (.ite (.not_ (.call "self.events.reset_rx_complete.is_set" .nil)) .nil .nil)
    .nil)))) .nil)
    .nil) .nil)
    .nil) (.cons (.expr (.call "self._stop_receiving" .nil))
    .nil))
    .nil)

/-- **Before fix 6eb6a7e `stop_sending` and the model DISAGREED when the completion flag was stale** (the defect this file found).
    State: started, worker alive, no stop requested, and `reset_tx_complete` still set - which is the state every served `stop_sending()`
    leaves behind (`TL.stopSending` itself sets `resetTxComplete := true`, and only `start` / `stop` cleared the flag).  A second
    `stop_sending()` then set `reset_tx`, `wait(1.0)` returned AT ONCE (`waitSet`: the flag it waits for is already set) and the method
    returned with the request still pending: the logic layer unchanged (the transmission NOT stopped) and `reset_tx` still set, whereas
    `TL.stopSending` says the request has been served.  Observed on the real code of that time: the second call returned after 45 µs with
    `transmitting()` still `True`. -/
theorem stop_sending_stale_before_fix (hM : Spec M R) (hR : CoreRel R) (env : Env) (t : TL) (h : Shows R env t)
    (hst : t.started = true) (hsr : t.ev.stopRequested = false) (hm : t.mainThread = .running) (hstale : t.ev.resetTxComplete = true) :
    ∃ env', runFn M env stopSendingBeforeFix = .ok (pnone, env') ∧
      Shows R env' { t with ev := { t.ev with resetTx := true } } ∧ ¬ Shows R env' (TL.stopSending t).1 := by
  have h0 := St.init h
  have h1 := h0.setEv hR .resetTx true
  have hrun : isRunning t.mainThread = true := by rw [hm]; rfl
  suffices hs : ∃ env', runFn M env stopSendingBeforeFix = .ok (pnone, env') ∧
      St R env env' { t with ev := { t.ev with resetTx := true } } by
    obtain ⟨env', x1, x2⟩ := hs
    refine ⟨env', x1, x2.shows, fun hbad => ?_⟩
    have a := x2.w.e4
    have b := hbad.1.e4
    simp [TL.stopSending, hst, hsr, hm] at b
    rw [a] at b
    cases b
  apply Run.toRunFn
  unfold stopSendingBeforeFix
  refine Run.single (RunS.ite_true (eval_var M env _ _ (hst ▸ h0.w.started)) (Run.single ?_))
  refine RunS.ite_true (eval_not_isSet hM env .stopRequested false (hsr ▸ h0.w.e3)) (Run.single ?_)
  refine RunS.ite_true (hrun ▸ eval_workerAlive hM env t h0.w) ?_
  refine Run.cons (exec_evSet hM env .resetTx) ?_
  have hset : (env.set Ev7.resetTx.key (pbool true)) Ev7.resetTxComplete.key = some (pbool true) := by
    rw [h1.w.ev .resetTxComplete]; exact congrArg _ (congrArg _ hstale)
  refine Run.cons (exec_proc1_float hM _ _ _ _ (by decide) (fun v => hM.waitSet .resetTxComplete _ v hset)) ?_
  refine Run.cons (exec_ite_nil M _ _ false (eval_not_isSet hM _ .resetTxComplete true hset)) ?_
  exact Run.nil (h1.cast rfl)

/-- **`stop_receiving`** against `TL.stopReceiving`, same three cases, every wrapper state; in the served case the source also queues a
    wake-up token (`rx_relay_queue.put(None)`) before it waits. -/
theorem stop_receiving_agrees (hM : Spec M R) (hR : CoreRel R) (env : Env) (t : TL) (h : Shows R env t) :
    ∃ env', runFn M env Src.TransportLayer_stop_receiving = .ok (pnone, env') ∧ Shows R env' (TL.stopReceiving t).1 ∧
      (TL.stopReceiving t).2 = none ∧ ∀ k ∈ passiveKeys, env' k = env k := by
  have h0 := St.init h
  suffices hs : ∃ env', runFn M env Src.TransportLayer_stop_receiving = .ok (pnone, env') ∧ St R env env' (TL.stopReceiving t).1 by
    obtain ⟨env', h1, h2⟩ := hs
    exact ⟨env', h1, h2.shows, by unfold TL.stopReceiving; split <;> (try split) <;> rfl, h2.keep⟩
  apply Run.toRunFn
  unfold Src.TransportLayer_stop_receiving
  refine Run.single ?_
  cases hst : t.started with
  | false =>
    obtain ⟨e1, x1, r1, f1⟩ := hM.stopReceivingCore env t.core h0.c
    refine RunS.ite_false (eval_var M env _ _ (hst ▸ h0.w.started)) ?_
    refine Run.cons (exec_proc0 M env e1 _ (by decide) x1) ?_
    exact Run.nil ((h0.congr e1 _ f1 r1).cast (by simp [TL.stopReceiving, hst]))
  | true =>
    refine RunS.ite_true (eval_var M env _ _ (hst ▸ h0.w.started)) (Run.single ?_)
    cases hsr : t.ev.stopRequested with
    | true =>
      exact RunS.skip (eval_not_isSet hM env .stopRequested true (hsr ▸ h0.w.e3)) (h0.cast (by simp [TL.stopReceiving, hst, hsr]))
    | false =>
      refine RunS.ite_true (eval_not_isSet hM env .stopRequested false (hsr ▸ h0.w.e3)) (Run.single ?_)
      cases hrun : isRunning t.mainThread with
      | false =>
        have hne : t.mainThread ≠ .running := by intro e; rw [e] at hrun; cases hrun
        exact RunS.skip (hrun ▸ eval_workerAlive hM env t h0.w) (h0.cast (by simp [TL.stopReceiving, hst, hsr, hne]))
      | true =>
        have hm : t.mainThread = .running := by cases hmm : t.mainThread <;> simp_all [isRunning]
        have h1 := (h0.setEv hR .resetRxComplete false).setEv hR .resetRx true
        have h1' := h1.setQ hR (t.relayQ ++ [none])
        obtain ⟨i, hi⟩ := eval_float hM
          (((env.set Ev7.resetRxComplete.key (pbool false)).set Ev7.resetRx.key (pbool true)).set "#relay_queue"
            (.list (encQ (t.relayQ ++ [none])))) "1.0"
        obtain ⟨e2, x2, r2, q1, q2, f2⟩ := hM.hServeRx _ (pint i) t.core h1'.c
          (by rw [h1'.w.mainA, hm]; rfl) (by rw [h1'.w.e3]; exact congrArg _ (congrArg _ hsr)) h1'.w.e5 h1'.w.e7
        have h2 := h1'.served hR .resetRx .resetRxComplete e2 _ q1 q2 f2 (by decide) r2
        refine RunS.ite_true (hrun ▸ eval_workerAlive hM env t h0.w) ?_
        refine Run.cons (exec_evClear hM env .resetRxComplete) ?_
        refine Run.cons (exec_evSet hM _ .resetRx) ?_
        refine Run.cons (exec_proc1 M _ _ _ _ _ (by decide) (eval_none M _) (hM.qPutNone _ _ h1.w.q)) ?_
        refine Run.cons (exec_proc1 M _ e2 _ _ _ (by decide) hi x2) ?_
        refine Run.cons (exec_ite_nil M e2 _ false (eval_not_isSet hM e2 .resetRxComplete true q2)) ?_
        exact Run.nil (h2.cast (by simp [TL.stopReceiving, hst, hsr, hm, evPut]))

/-- the same disagreement for the pre-fix `stop_receiving` with a stale `reset_rx_complete`: the token is queued, `reset_rx` stays set,
    the reception has NOT been stopped when the call returns -/
theorem stop_receiving_stale_before_fix (hM : Spec M R) (hR : CoreRel R) (env : Env) (t : TL) (h : Shows R env t)
    (hst : t.started = true) (hsr : t.ev.stopRequested = false) (hm : t.mainThread = .running) (hstale : t.ev.resetRxComplete = true) :
    ∃ env', runFn M env stopReceivingBeforeFix = .ok (pnone, env') ∧
      Shows R env' { t with ev := { t.ev with resetRx := true }, relayQ := t.relayQ ++ [none] } ∧
      ¬ Shows R env' (TL.stopReceiving t).1 := by
  have h0 := St.init h
  have h1 := h0.setEv hR .resetRx true
  have h1' := h1.setQ hR (t.relayQ ++ [none])
  have hrun : isRunning t.mainThread = true := by rw [hm]; rfl
  suffices hs : ∃ env', runFn M env stopReceivingBeforeFix = .ok (pnone, env') ∧
      St R env env' { t with ev := { t.ev with resetRx := true }, relayQ := t.relayQ ++ [none] } by
    obtain ⟨env', x1, x2⟩ := hs
    refine ⟨env', x1, x2.shows, fun hbad => ?_⟩
    have a := x2.w.e5
    have b := hbad.1.e5
    simp [TL.stopReceiving, hst, hsr, hm] at b
    rw [a] at b
    cases b
  apply Run.toRunFn
  unfold stopReceivingBeforeFix
  refine Run.single (RunS.ite_true (eval_var M env _ _ (hst ▸ h0.w.started)) (Run.single ?_))
  refine RunS.ite_true (eval_not_isSet hM env .stopRequested false (hsr ▸ h0.w.e3)) (Run.single ?_)
  refine RunS.ite_true (hrun ▸ eval_workerAlive hM env t h0.w) ?_
  refine Run.cons (exec_evSet hM env .resetRx) ?_
  refine Run.cons (exec_proc1 M _ _ _ _ _ (by decide) (eval_none M _) (hM.qPutNone _ _ h1.w.q)) ?_
  have hset : ((env.set Ev7.resetRx.key (pbool true)).set "#relay_queue" (.list (encQ (t.relayQ ++ [none]))))
      Ev7.resetRxComplete.key = some (pbool true) := by
    rw [h1'.w.ev .resetRxComplete]; exact congrArg _ (congrArg _ hstale)
  refine Run.cons (exec_proc1_float hM _ _ _ _ (by decide) (fun v => hM.waitSet .resetRxComplete _ v hset)) ?_
  refine Run.cons (exec_ite_nil M _ _ false (eval_not_isSet hM _ .resetRxComplete true hset)) ?_
  exact Run.nil (h1'.cast rfl)

end stopSending


/-! ## 7. `NotifierBasedCanStack.start` / `.stop` -/

/-- the two attributes `NotifierBasedCanStack` adds: its reader (`None` or a `can.BufferedReader`), and - a history key - how many readers
    this object has registered on the user's notifier and not removed -/
def NbShows (env : Env) (reader : Bool) (n : Int) : Prop :=
  env "self.buffered_reader" = some (if reader then .meth "BufferedReader" else pnone) ∧ env "#listeners" = some (pint n)

/-- the objects `NotifierBasedCanStack` calls.  `superStart` / `superStop` are what `start_agrees` / `stop_agrees` prove of
    `TransportLayer.start` / `.stop` (the instance `nbMeths` below IS built from the interpreted `TransportLayer.start` and its fixed-fuel
    `stop`). -/
structure NbSpec (M : Meths) (R : Env → State → Prop) : Prop where
  newReader : ∀ (env : Env), M.fn "can.BufferedReader" [] env = .ok (.meth "BufferedReader")
  addListener : ∀ (env : Env) (v : PV) (n : Int), env "#listeners" = some (pint n) →
    M.proc "self.notifier.add_listener" [v] env = .ok (env.set "#listeners" (pint (n + 1)))
  /-- `Notifier.remove_listener` removes the reader, or raises (python-can: `ValueError` when it is not registered) -/
  removeListener : ∀ (env : Env) (v : PV) (n : Int), env "#listeners" = some (pint n) →
    M.proc "self.notifier.remove_listener" [v] env = .ok (env.set "#listeners" (pint (n - 1))) ∨
    ∃ e, M.proc "self.notifier.remove_listener" [v] env = .error (.exc e)
  superStart : ∀ (env : Env) (t : TL), Shows R env t → t.started = false →
    ∃ env', M.proc "super().start" [] env = .ok env' ∧ Shows R env' (TL.start t).1 ∧ ∀ k ∈ passiveKeys, env' k = env k
  superStop : ∀ (env : Env) (t : TL), Shows R env t →
    ∃ env', M.proc "super().stop" [] env = .ok env' ∧ Shows R env' (TL.stop t).1 ∧ ∀ k ∈ passiveKeys, env' k = env k

/-- assigning a passive key does not change what is shown of the `TransportLayer` -/
theorem Shows.setPassive {R : Env → State → Prop} (hR : CoreRel R) {env : Env} {t : TL} (h : Shows R env t) (k : String) (v : PV)
    (hk : k ∈ passiveKeys) : Shows R (env.set k v) t := by
  obtain ⟨⟨f1, f2, f3, f4, f5, f6, f7, f8, f9, f10, f11, f12, f13, f14, f15, f16, f17, f18, f19, f20⟩, hc⟩ := h
  simp only [passiveKeys, List.mem_cons, List.not_mem_nil, or_false] at hk
  rcases hk with rfl | rfl <;>
    exact ⟨by constructor <;> simp [Env.set, *], hR.frame _ _ _ _ (by decide) hc⟩

/-- **`NotifierBasedCanStack.start`, refusal (D16)**: on a started layer the call raises `RuntimeError` at its FIRST statement, whatever
    the callees would do (`M` arbitrary - also one in which `can.BufferedReader()` or `notifier.add_listener` fail in a distinctive way):
    no reader is created and none is registered before the refusal. -/
theorem nb_start_refuses (M : Meths) (env : Env) (h : env "self.started" = some (pbool true)) :
    runFn M env Src.NotifierBasedCanStack_start = .error (.exc .RuntimeError) := by
  unfold runFn Src.NotifierBasedCanStack_start
  simp only [execBlock, exec_guard M env true h, if_true, error_bind]

/-- ... in the semantics that keeps the environment at the raise point: it is the environment of the call, untouched - in particular the
    record of registered readers (`#listeners`) and `self.buffered_reader` -/
theorem nb_start_refuses_env (M : Meths) (env : Env) (h : env "self.started" = some (pbool true)) (n : Nat) (hn : 4 ≤ n) :
    run2 n M env Src.NotifierBasedCanStack_start = .ok (.raised "RuntimeError" env) := by
  obtain ⟨k, rfl⟩ : ∃ k, n = k + 4 := ⟨n - 4, by omega⟩
  unfold run2 Src.NotifierBasedCanStack_start
  rw [exec2B_cons, exec2S_ite, eval_var M env _ _ h]
  simp only [truthy_pbool, if_true]
  rw [exec2B_single _ _ _ _ rfl]
  rfl

/-- **`NotifierBasedCanStack.start`, accepted**: a reader is created and registered (exactly one `add_listener`), then
    `TransportLayer.start` runs -/
theorem nb_start_runs {M : Meths} {R : Env → State → Prop} (hN : NbSpec M R) (hR : CoreRel R) (env : Env) (t : TL) (r : Bool) (n : Int)
    (h : Shows R env t) (hnb : NbShows env r n) (hs : t.started = false) :
    ∃ env', runFn M env Src.NotifierBasedCanStack_start = .ok (pnone, env') ∧ Shows R env' (TL.start t).1 ∧
      NbShows env' true (n + 1) := by
  have h1 := h.setPassive hR "self.buffered_reader" (.meth "BufferedReader") (by decide)
  have h2 := h1.setPassive hR "#listeners" (pint (n + 1)) (by decide)
  obtain ⟨e3, x3, s3, k3⟩ := hN.superStart _ _ h2 hs
  suffices hs' : Run M env Src.NotifierBasedCanStack_start (fun e => e = e3) by
    obtain ⟨env', x, rfl⟩ := hs'.toRunFn
    refine ⟨env', x, s3, ?_, ?_⟩
    · rw [k3 _ (by decide)]; simp [Env.set]
    · rw [k3 _ (by decide)]; simp [Env.set]
  unfold Src.NotifierBasedCanStack_start
  refine Run.cons (by rw [exec_guard M env false (hs ▸ h.1.started)]; rfl) ?_
  refine Run.cons (exec_assign M env _ _ _ (by rw [eval_fn0 M env _ (by decide), hN.newReader])) ?_
  refine Run.cons (exec_proc1 M _ _ _ _ _ (by decide)
    (eval_var M _ _ _ (show (env.set "self.buffered_reader" (.meth "BufferedReader")) "self.buffered_reader" =
      some (.meth "BufferedReader") by simp [Env.set]))
    (hN.addListener _ _ n (by simp [Env.set, hnb.2]))) ?_
  refine Run.cons (exec_proc0 M _ _ _ (by decide) x3) ?_
  exact Run.nil rfl


/-- the guarded removal `try: if self.buffered_reader is not None: self.notifier.remove_listener(self.buffered_reader)
    except Exception: pass`: it ends normally whether or not there is a reader and whether or not the notifier raises -/
theorem nb_stop_try {M : Meths} {R : Env → State → Prop} (hN : NbSpec M R) (hR : CoreRel R) (env : Env) (t : TL) (r : Bool) (n : Int)
    (h : Shows R env t) (hnb : NbShows env r n) (k : Nat) :
    ∃ envA n', exec2S (k + 6) M env
        (.tryCatch (.cons (.ite (.isNotNone (.var "self.buffered_reader"))
          (.cons (.expr (.call "self.notifier.remove_listener" (.cons (.var "self.buffered_reader") .nil))) .nil) .nil) .nil)
          "Exception" (.cons .pass .nil)) = .ok (.next envA) ∧
      Shows R envA t ∧ NbShows envA r n' ∧ (n' = n ∨ (r = true ∧ n' = n - 1)) := by
  cases r with
  | false =>
    refine ⟨env, n, ?_, h, hnb, .inl rfl⟩
    rw [exec2S_tryCatch, exec2B_cons, exec2S_ite, eval_isNotNone M env _ _ hnb.1]
    rfl
  | true =>
    have hcond : eval M env (.isNotNone (.var "self.buffered_reader")) = .ok (pbool true) := by
      rw [eval_isNotNone M env _ _ hnb.1]; rfl
    rcases hN.removeListener env (.meth "BufferedReader") n hnb.2 with hp | ⟨e, hp⟩
    · refine ⟨env.set "#listeners" (pint (n - 1)), n - 1, ?_, h.setPassive hR _ _ (by decide), ?_, .inr ⟨rfl, rfl⟩⟩
      · rw [exec2S_tryCatch, exec2B_cons, exec2S_ite, hcond]
        simp only [truthy_pbool, if_true]
        rw [exec2B_single _ _ _ _ rfl]
        unfold simple2
        rw [exec_proc1 M env _ _ _ _ (by decide) (eval_var M env _ _ hnb.1) hp]
        rfl
      · exact ⟨by simp [Env.set, hnb.1], by simp [Env.set]⟩
    · refine ⟨env, n, ?_, h, hnb, .inl rfl⟩
      have hx : execStmt M env (.expr (.call "self.notifier.remove_listener" (.cons (.var "self.buffered_reader") .nil))) =
          .error (.exc e) := by
        simp [execStmt, evalArgs, eval, hnb.1, evalBuiltin_none "self.notifier.remove_listener" _ (by decide), hp]
      rw [exec2S_tryCatch, exec2B_cons, exec2S_ite, hcond]
      simp only [truthy_pbool, if_true]
      rw [exec2B_single _ _ _ _ rfl]
      unfold simple2
      rw [hx]
      simp only [ofPErr, catches, beq_self_eq_true, Bool.true_or, if_true]
      rw [exec2B_single _ _ _ _ rfl]
      rfl

/-- **`NotifierBasedCanStack.stop`** (second semantics: a `try` with a compound body): from any state, with or without a reader, and
    whether or not `remove_listener` raises, the run ends normally; the reader attribute is `None`, at most one reader was removed, and
    the `TransportLayer` part is `(TL.stop t).1` -/
theorem nb_stop_agrees {M : Meths} {R : Env → State → Prop} (hN : NbSpec M R) (hR : CoreRel R) (env : Env) (t : TL) (r : Bool) (n : Int)
    (h : Shows R env t) (hnb : NbShows env r n) :
    ∃ env' n', (∀ f, 15 ≤ f → run2 f M env Src.NotifierBasedCanStack_stop = .ok (.ret pnone env')) ∧
      Shows R env' (TL.stop t).1 ∧ NbShows env' false n' ∧ (n' = n ∨ (r = true ∧ n' = n - 1)) := by
  obtain ⟨eA, n', xA, sA, nA, hn'⟩ := nb_stop_try hN hR env t r n h hnb 8
  have sB := sA.setPassive hR "self.buffered_reader" pnone (by decide)
  obtain ⟨eC, xC, sC, kC⟩ := hN.superStop _ _ sB
  have hrun : Run2 15 M env Src.NotifierBasedCanStack_stop (fun e => e = eC) := by
    unfold Src.NotifierBasedCanStack_stop
    refine Run2.cons xA ?_
    refine Run2.cons1 (n := 7) (by rfl) (by rfl) (by decide) (exec_assign M eA _ _ _ (eval_none M eA)) ?_
    refine Run2.cons1 (n := 6) (by rfl) (by rfl) (by decide) (exec_proc0 M _ _ _ (by decide) xC) ?_
    exact Run2.nil rfl
  obtain ⟨env', x, rfl⟩ := hrun
  refine ⟨env', n', fun f hf => ?_, sC, ⟨?_, ?_⟩, hn'⟩
  · apply run2_mono_le hf
    unfold run2
    rw [x]
  · rw [kC _ (by decide)]; simp [Env.set]
  · rw [kC _ (by decide)]; simp [Env.set, nA.2]


/-! ## 8. one iteration of `_relay_thread_fn` -/

def relayCond : PExpr := .not_ (.call "self.events.stop_requested.is_set" .nil)

/-- `if not self.blocking_rxfn or diff < rx_timeout * 0.5: time.sleep(max(0, min(self.sleep_time(), rx_timeout - diff)))` -/
def relaySleep : PStmt :=
  .ite (.or_ (.not_ (.var "self.blocking_rxfn")) (.cmp .lt (.var "diff") (.binop .mul (.var "rx_timeout")
      (.call "__float__" (.cons (.strLit "0.5") .nil)))))
    (.cons (.expr (.call "time.sleep" (.cons (.call "max" (.cons (.int (0)) (.cons (.call "min" (.cons (.call "self.sleep_time" .nil)
      (.cons (.binop .sub (.var "rx_timeout") (.var "diff")) .nil))) .nil))) .nil))) .nil) .nil

def relayBody : PBlock :=
  .cons (.assign "rx_timeout" (.ifexp (.call "self.is_tx_throttled" .nil) (.call "__float__" (.cons (.strLit "0.0") .nil))
    (.var "self.default_read_timeout")))
  (.cons (.assign "t1" (.call "time.perf_counter" .nil))
  (.cons (.assign "data" (.call "self.user_rxfn" (.cons (.var "rx_timeout") .nil)))
  (.cons (.assign "diff" (.binop .sub (.call "time.perf_counter" .nil) (.var "t1")))
  (.cons (.ite (.isNotNone (.var "data")) (.cons (.expr (.call "self.rx_relay_queue.put" (.cons (.var "data") .nil))) .nil)
    (.cons (.ite (.not_ (.call "self.events.stop_requested.is_set" .nil)) (.cons relaySleep .nil) .nil) .nil))
  .nil))))

/-- the dumped source: two statements, then the loop, then nothing (the function returns when the loop ends) -/
theorem relay_src : Src.TransportLayer_p_relay_thread_fn =
    .cons (.assert_ (.isNotNone (.var "self.user_rxfn"))) (.cons (.expr (.call "self.events.relay_thread_ready.set" .nil))
    (.cons (.while_ relayCond relayBody) .nil)) := rfl

/-- what the loop body calls besides the events and the queue.  All of it is timing, except the user's `rxfn`:
    in this semantics a call in expression position has a value but no effect, so `self.user_rxfn(timeout)` only says WHETHER a frame is
    there (`None` / a message object), and the frame leaves the bus (`#bus`) when the message object is `put` in the relay queue - the one
    thing the body does with `data`. -/
structure RelaySpec (M : Meths) : Prop where
  throttled : ∀ (env : Env), ∃ b : Bool, M.fn "self.is_tx_throttled" [] env = .ok (pbool b)
  clock : ∀ (env : Env), ∃ i : Int, M.fn "time.perf_counter" [] env = .ok (pint i)
  sleepTime : ∀ (env : Env), ∃ i : Int, M.fn "self.sleep_time" [] env = .ok (pint i)
  sleep : ∀ (env : Env) (v : PV), M.proc "time.sleep" [v] env = .ok env
  userRx : ∀ (env : Env) (v : PV) (b : List CanMsg), env "#bus" = some (.list (encQ (b.map some))) →
    M.fn "self.user_rxfn" [v] env = .ok (if b.isEmpty then pnone else .meth "CanMessage")
  putMsg : ∀ (env : Env) (m : CanMsg) (rest : List CanMsg) (q : List (Option CanMsg)),
    env "#bus" = some (.list (encQ ((m :: rest).map some))) → env "#relay_queue" = some (.list (encQ q)) →
    M.proc "self.rx_relay_queue.put" [.meth "CanMessage"] env =
      .ok ((env.set "#bus" (.list (encQ (rest.map some)))).set "#relay_queue" (.list (encQ (q ++ [some m]))))

theorem builtin_min (x y : Int) : evalBuiltin "min" [pint x, pint y] = some (.ok (pint (if y < x then y else x))) := by
  simp [evalBuiltin, asInt, Sc.isInt, Sc.intVal, PyVal.isInt, PyVal.intVal]
  split <;> rfl

theorem evalCmp_lt_pint (a b : Int) : evalCmp .lt (pint a) (pint b) = .ok (pbool (decide (a < b))) := by
  simp [evalCmp, isNumber, numLt, PyVal.isInt, PyVal.intVal, Except.map]
  rfl

section relay
variable {M : Meths} {R : Env → State → Prop}

/-- the sleep: timing only -/
theorem exec_relaySleep (hM : Spec M R) (hL : RelaySpec M) (env : Env) (bl : Bool) (df rt : Int)
    (h1 : env "self.blocking_rxfn" = some (pbool bl)) (h2 : env "diff" = some (pint df)) (h3 : env "rx_timeout" = some (pint rt)) :
    execStmt M env relaySleep = .ok (.next env) := by
  obtain ⟨i, hi⟩ := eval_float hM env "0.5"
  obtain ⟨st, hst⟩ := hL.sleepTime env
  have hcond : ∃ c : Bool, eval M env (.or_ (.not_ (.var "self.blocking_rxfn")) (.cmp .lt (.var "diff") (.binop .mul (.var "rx_timeout")
      (.call "__float__" (.cons (.strLit "0.5") .nil))))) = .ok (pbool c) := by
    cases bl
    · exact ⟨true, by simp [eval, h1]⟩
    · refine ⟨decide (df < rt * i), ?_⟩
      have hm : eval M env (.binop .mul (.var "rx_timeout") (.call "__float__" (.cons (.strLit "0.5") .nil))) = .ok (pint (rt * i)) := by
        rw [eval, eval_var M env _ _ h3, hi]; rfl
      have hc : eval M env (.cmp .lt (.var "diff") (.binop .mul (.var "rx_timeout") (.call "__float__" (.cons (.strLit "0.5") .nil)))) =
          .ok (pbool (decide (df < rt * i))) := by
        rw [eval, eval_var M env _ _ h2, hm]; exact evalCmp_lt_pint df (rt * i)
      rw [eval, eval_not M env _ true (eval_var M env _ _ h1)]
      simp only [ok_bind, Bool.not_true, truthy_pbool, Bool.false_eq_true, if_false]
      exact hc
  obtain ⟨c, hc⟩ := hcond
  have harg : ∃ w : Int, eval M env (.call "max" (.cons (.int (0)) (.cons (.call "min" (.cons (.call "self.sleep_time" .nil)
      (.cons (.binop .sub (.var "rx_timeout") (.var "diff")) .nil))) .nil))) = .ok (pint w) := by
    have hs : eval M env (.binop .sub (.var "rx_timeout") (.var "diff")) = .ok (pint (rt - df)) := by
      rw [eval, eval_var M env _ _ h3, eval_var M env _ _ h2]; rfl
    have hmin : eval M env (.call "min" (.cons (.call "self.sleep_time" .nil)
        (.cons (.binop .sub (.var "rx_timeout") (.var "diff")) .nil))) = .ok (pint (if rt - df < st then rt - df else st)) := by
      rw [eval, evalArgs, eval_fn0 M env _ (by decide), hst, evalArgs, hs, evalArgs]
      simp only [ok_bind, builtin_min]
    refine ⟨if (if rt - df < st then rt - df else st) > 0 then (if rt - df < st then rt - df else st) else 0, ?_⟩
    rw [eval, evalArgs, evalArgs, hmin, evalArgs]
    simp only [eval, ok_bind, builtin_max]
  obtain ⟨w, hw⟩ := harg
  unfold relaySleep
  rw [exec_ite M env _ _ _ c hc]
  cases c
  · rfl
  · simp only [if_true, execBlock, exec_proc1 M env env _ _ _ (by decide) hw (hL.sleep env _), ok_bind]

theorem eval_ifexp (M : Meths) (env : Env) (c a b : PExpr) (x : Bool) (v : PV) (hc : eval M env c = .ok (pbool x))
    (hv : eval M env (if x then a else b) = .ok v) : eval M env (.ifexp c a b) = .ok v := by
  cases x <;> simp_all [eval]

/-- the loop body, once: the user `rxfn` is read; a frame is forwarded to the relay queue, `None` leads to a sleep (timing only) -/
theorem relay_body (hM : Spec M R) (hL : RelaySpec M) (hR : CoreRel R) {env0 env : Env} {t : TL} (h : St R env0 env t) (bl : Bool)
    (hbl : env "self.blocking_rxfn" = some (pbool bl)) (hsr : t.ev.stopRequested = false) :
    ∃ env', execBlock M env relayBody = .ok (.next env') ∧ env' "self.blocking_rxfn" = some (pbool bl) ∧
      St R env0 env' (match t.bus with
        | [] => t
        | m :: rest => { t with bus := rest, relayQ := t.relayQ ++ [some m] }) := by
  -- rx_timeout
  obtain ⟨d, hd⟩ := h.w.cTimeout
  obtain ⟨b, hb⟩ := hL.throttled env
  obtain ⟨i0, hi0⟩ := eval_float hM env "0.0"
  have hrt : ∃ rt : Int, eval M env (.ifexp (.call "self.is_tx_throttled" .nil) (.call "__float__" (.cons (.strLit "0.0") .nil))
      (.var "self.default_read_timeout")) = .ok (pint rt) := by
    cases b
    · exact ⟨d, eval_ifexp M env _ _ _ false _ (by rw [eval_fn0 M env _ (by decide), hb]) (eval_var M env _ _ hd)⟩
    · exact ⟨i0, eval_ifexp M env _ _ _ true _ (by rw [eval_fn0 M env _ (by decide), hb]) hi0⟩
  obtain ⟨rt, hrt⟩ := hrt
  have h1 := h.setLocal hR "rx_timeout" (pint rt) (by decide)
  -- t1
  obtain ⟨c1, hc1⟩ := hL.clock (env.set "rx_timeout" (pint rt))
  have h2 := h1.setLocal hR "t1" (pint c1) (by decide)
  -- data
  have hdata := hL.userRx ((env.set "rx_timeout" (pint rt)).set "t1" (pint c1)) (pint rt) t.bus h2.w.bus
  have h3 := h2.setLocal hR "data" (if t.bus.isEmpty then pnone else .meth "CanMessage") (by decide)
  -- diff
  obtain ⟨c2, hc2⟩ := hL.clock (((env.set "rx_timeout" (pint rt)).set "t1" (pint c1)).set "data"
    (if t.bus.isEmpty then pnone else .meth "CanMessage"))
  have h4 := h3.setLocal hR "diff" (pint (c2 - c1)) (by decide)
  have hbl4 : ((((env.set "rx_timeout" (pint rt)).set "t1" (pint c1)).set "data"
      (if t.bus.isEmpty then pnone else .meth "CanMessage")).set "diff" (pint (c2 - c1))) "self.blocking_rxfn" = some (pbool bl) := by
    simp [Env.set, hbl]
  suffices hs : Run M env relayBody (fun env' => env' "self.blocking_rxfn" = some (pbool bl) ∧ St R env0 env' (match t.bus with
        | [] => t
        | m :: rest => { t with bus := rest, relayQ := t.relayQ ++ [some m] })) by
    obtain ⟨env', x1, x2, x3⟩ := hs
    exact ⟨env', x1, x2, x3⟩
  unfold relayBody
  refine Run.cons (exec_assign M env _ _ _ hrt) ?_
  refine Run.cons (exec_assign M _ _ _ _ (by rw [eval_fn0 M _ _ (by decide), hc1])) ?_
  refine Run.cons (exec_assign M _ _ _ _ (by
    rw [eval_fn1 M _ "self.user_rxfn" _ (pint rt) (by decide) (eval_var M _ _ _ (by simp [Env.set])), hdata])) ?_
  refine Run.cons (exec_assign M _ _ _ (pint (c2 - c1)) (by
    rw [eval, eval_fn0 M _ _ (by decide), hc2, eval_var M _ "t1" (pint c1) (by simp [Env.set])]; rfl)) ?_
  refine Run.single ?_
  cases hbus : t.bus with
  | nil =>
    have hdv : ((((env.set "rx_timeout" (pint rt)).set "t1" (pint c1)).set "data"
        (if ([] : List CanMsg).isEmpty then pnone else .meth "CanMessage")).set "diff" (pint (c2 - c1))) "data" = some pnone := by
      simp [Env.set]
    refine RunS.ite_false (by rw [eval_isNotNone M _ _ _ hdv]; rfl) (Run.single ?_)
    rw [hbus] at h4 hbl4
    refine RunS.ite_true (eval_not_isSet hM _ .stopRequested false (h4.w.e3.trans (by rw [hsr]))) (Run.single ?_)
    exact ⟨_, exec_relaySleep hM hL _ bl (c2 - c1) rt hbl4 (by simp [Env.set]) (by simp [Env.set]), hbl4, h4⟩
  | cons m rest =>
    have hdv : ((((env.set "rx_timeout" (pint rt)).set "t1" (pint c1)).set "data"
        (if (m :: rest).isEmpty then pnone else .meth "CanMessage")).set "diff" (pint (c2 - c1))) "data" =
        some (.meth "CanMessage") := by
      simp [Env.set]
    rw [hbus] at h4 hbl4
    have h5 := (h4.setBus hR rest).setQ hR (t.relayQ ++ [some m])
    refine RunS.ite_true (by rw [eval_isNotNone M _ _ _ hdv]; rfl) ?_
    refine Run.cons (exec_proc1 M _ _ _ _ _ (by decide) (eval_var M _ _ _ hdv)
      (hL.putMsg _ m rest t.relayQ (hbus ▸ h4.w.bus) h4.w.q)) ?_
    exact Run.nil ⟨by simp [Env.set, hbl], h5.cast rfl⟩

theorem relayBody_shape : loopFreeB relayBody = true ∧ dumperShapeB relayBody = true ∧ depthB relayBody ≤ 12 := by
  refine ⟨by rfl, by rfl, by decide⟩

/-- **one iteration of the loop of `_relay_thread_fn`** against `TL.relayStep`, for a relay thread that is running its loop:
    * stop requested: the test fails, the loop ends (fuel ≥ 2) and, the loop being the last statement (`relay_src`), the function returns;
      the model says `relayThread := .finished` - the death of a thread whose target has returned is the runtime's doing, not a
      statement of the source;
    * otherwise: the loop unfolds once, `exec2S (n+1) (while) env = exec2S n (while) env'`, where `env'` - reached by one pass through the
      body - shows `TL.relayStep t` (the head of the bus forwarded to the relay queue, or nothing when the bus is empty; the sleep is
      timing only). -/
theorem relay_iteration (hM : Spec M R) (hL : RelaySpec M) (hR : CoreRel R) (env : Env) (t : TL) (h : Shows R env t) (bl : Bool)
    (hbl : env "self.blocking_rxfn" = some (pbool bl)) (hrun : t.relayThread = .running) :
    (t.ev.stopRequested = true →
      (∀ n, 2 ≤ n → exec2S n M env (.while_ relayCond relayBody) = .ok (.next env)) ∧
      TL.relayStep t = { t with relayThread := .finished }) ∧
    (t.ev.stopRequested = false →
      ∃ env', Shows R env' (TL.relayStep t) ∧ env' "self.blocking_rxfn" = some (pbool bl) ∧
        (∀ k ∈ passiveKeys, env' k = env k) ∧
        ∀ n, 12 ≤ n → exec2S (n + 1) M env (.while_ relayCond relayBody) = exec2S n M env' (.while_ relayCond relayBody)) := by
  constructor
  · intro hsr
    refine ⟨fun n hn => ?_, by simp [TL.relayStep, hrun, hsr]⟩
    obtain ⟨m, rfl⟩ : ∃ m, n = m + 1 := ⟨n - 1, by omega⟩
    have hc : eval M env relayCond = .ok (pbool (!true)) := eval_not_isSet hM env .stopRequested true (hsr ▸ h.1.e3)
    rw [exec2S_while, hc]
    rfl
  · intro hsr
    obtain ⟨env', x1, x2, x3⟩ := relay_body hM hL hR (St.init h) bl hbl hsr
    refine ⟨env', ?_, x2, x3.keep, fun n hn => ?_⟩
    · have : TL.relayStep t = (match t.bus with
          | [] => t
          | m :: rest => { t with bus := rest, relayQ := t.relayQ ++ [some m] }) := by
        unfold TL.relayStep
        rw [if_neg (by simp [hrun]), if_neg (by simp [hsr])]
        cases t.bus <;> rfl
      rw [this]; exact x3.shows
    · have hc : eval M env relayCond = .ok (pbool (!false)) := eval_not_isSet hM env .stopRequested false (hsr ▸ h.1.e3)
      rw [exec2S_while, hc]
      simp only [truthy_pbool, Bool.not_false]
      rw [exec2B_of_execBlock_ok M relayBody n env _ relayBody_shape.1 relayBody_shape.2.1
        (Nat.le_trans relayBody_shape.2.2 hn) x1]
      rfl

end relay


/-! ## 9. the specifications are satisfiable: a concrete world

  `thrMeths` implements every primitive on the keys of section 1, with the other threads doing EXACTLY what the contract assumptions say
  (a worker that has been asked to stop dies at `join` after its `finally`, a live worker serves a reset request during the `wait`, a
  started thread sets its ready flag during the `wait`; in every other situation a blocking call just times out).  The logic layer is
  shown by its two FSM states (`self.tx_state`, `self.rx_state`). -/

def txPV : TxSt → PV
  | .idle => .sc (.enum "TxState" "IDLE") | .waitFc => .sc (.enum "TxState" "WAIT_FC") | .transmitCf => .sc (.enum "TxState" "TRANSMIT_CF")
  | .sfStandby => .sc (.enum "TxState" "TRANSMIT_SF_STANDBY") | .ffStandby => .sc (.enum "TxState" "TRANSMIT_FF_STANDBY")
def rxPV : RxSt → PV
  | .idle => .sc (.enum "RxState" "IDLE") | .waitCf => .sc (.enum "RxState" "WAIT_CF")

/-- the logic layer, as far as this instance shows it -/
def R0 (env : Env) (s : State) : Prop :=
  env "self.tx_state" = some (txPV s.txState) ∧ env "self.rx_state" = some (rxPV s.rxState)

theorem wrapper_ne_core {k : String} (hk : k ∈ wrapperKeys) : k ≠ "self.tx_state" ∧ k ≠ "self.rx_state" := by
  constructor <;> (intro e; subst e; revert hk; decide)

theorem R0_coreRel : CoreRel R0 where
  frame := by
    intro env k v s hk h
    obtain ⟨h1, h2⟩ := wrapper_ne_core hk
    exact ⟨by simp [Env.set, Ne.symm h1, h.1], by simp [Env.set, Ne.symm h2, h.2]⟩
  inbox := fun _ _ _ h => h

theorem reset_states (s : State) : s.reset.txState = .idle ∧ s.reset.rxState = .idle := by
  simp [State.reset, State.stopSending, State.stopReceiving]

theorem stopSending_states (s : State) : (s.stopSending false).txState = .idle ∧ (s.stopSending false).rxState = s.rxState := by
  cases h : s.active <;> simp [State.stopSending, h, State.emit]

theorem stopReceiving_states (s : State) : s.stopReceiving.txState = s.txState ∧ s.stopReceiving.rxState = .idle := by
  simp [State.stopReceiving]

/-- the first item of an encoded queue, and the rest -/
def takeItem : List Sc → Option (List Sc × List Sc)
  | .py .none :: rest => some ([.py .none], rest)
  | a :: b :: c :: d :: e :: .py (.int (.ofNat n)) :: rest =>
    if n ≤ rest.length then some (a :: b :: c :: d :: e :: .py (.int (.ofNat n)) :: rest.take n, rest.drop n) else none
  | _ => none

theorem takeItem_enc (x : Option CanMsg) (tail : List Sc) : takeItem (encItem x ++ tail) = some (encItem x, tail) := by
  cases x with
  | none => rfl
  | some m =>
    have hl : (m.data.map (fun b => Sc.py (.int b.toNat))).length = m.data.length := by simp
    simp only [encItem, encMsg, List.cons_append, List.nil_append, takeItem]
    have h1 : m.data.length ≤ (m.data.map (fun b => Sc.py (.int b.toNat)) ++ tail).length := by simp
    show (if m.data.length ≤ (m.data.map (fun b => Sc.py (.int b.toNat)) ++ tail).length then _ else _) = _
    rw [if_pos h1, List.take_left' hl, List.drop_left' hl]
    rfl

theorem encItem_ne_nil (x : Option CanMsg) : encItem x ≠ [] := by
  cases x <;> simp [encItem, encMsg]

theorem encQ_isEmpty (q : List (Option CanMsg)) : (encQ q).isEmpty = q.isEmpty := by
  cases q with
  | nil => rfl
  | cons x q =>
    rw [encQ_cons]
    have := encItem_ne_nil x
    cases hx : encItem x with
    | nil => exact absurd hx this
    | cons _ _ => rfl

def readB (env : Env) (k : String) : Bool :=
  match env k with
  | some (.sc (.py (.bool true))) => true
  | _ => false

theorem readB_of {env : Env} {k : String} {b : Bool} (h : env k = some (pbool b)) : readB env k = b := by
  unfold readB; rw [h]; cases b <;> rfl

def getBool (env : Env) (k : String) : Except PErr PV :=
  match env k with
  | some (.sc (.py (.bool b))) => .ok (pbool b)
  | _ => .error (.exc .AttributeError)

theorem getBool_of {env : Env} {k : String} {b : Bool} (h : env k = some (pbool b)) : getBool env k = .ok (pbool b) := by
  unfold getBool; rw [h]

/-- what the worker does when it serves a request / exits -/
def coreIdle (env : Env) (tx rx : Bool) : Env :=
  let e1 := if tx then env.set "self.tx_state" (txPV .idle) else env
  if rx then e1.set "self.rx_state" (rxPV .idle) else e1

def qEmptyF (env : Env) : Except PErr PV :=
  match env "#relay_queue" with
  | some (.list xs) => .ok (pbool xs.isEmpty)
  | _ => .error (.exc .AttributeError)

def busPeek (env : Env) : Except PErr PV :=
  match env "#bus" with
  | some (.list xs) => .ok (if xs.isEmpty then pnone else .meth "CanMessage")
  | _ => .error (.exc .AttributeError)

/-- `put(None)` appends the token; `put(<message object>)` moves the head of the bus to the end of the queue -/
def qPut (v : PV) (env : Env) : Except PErr Env :=
  match env "#relay_queue" with
  | some (.list xs) =>
    if v = pnone then .ok (env.set "#relay_queue" (.list (xs ++ [.py .none])))
    else (match env "#bus" with
      | some (.list bs) => (match takeItem bs with
        | some (item, rest) => .ok ((env.set "#bus" (.list rest)).set "#relay_queue" (.list (xs ++ item)))
        | none => .error (.unsupported "put: no message on the bus"))
      | _ => .error (.exc .AttributeError))
  | _ => .error (.exc .AttributeError)

def qGetP (env : Env) : Except PErr Env :=
  match env "#relay_queue" with
  | some (.list xs) => (match takeItem xs with
     | some (_, rest) => .ok (env.set "#relay_queue" (.list rest))
     | none => .error (.unsupported "Queue.get() on an empty queue: blocks forever"))
  | _ => .error (.exc .AttributeError)

/-- one more / one fewer reader registered on the notifier -/
def lsnAdd (d : Int) (env : Env) : Except PErr Env :=
  match env "#listeners" with
  | some (.sc (.py (.int n))) => .ok (env.set "#listeners" (pint (n + d)))
  | _ => .error (.exc .AttributeError)

def thrFn (name : String) (args : List PV) (env : Env) : Except PErr PV :=
  match name, args with
  | "self.events.main_thread_ready.is_set", [] => getBool env "#ev.main_thread_ready"
  | "self.events.relay_thread_ready.is_set", [] => getBool env "#ev.relay_thread_ready"
  | "self.events.stop_requested.is_set", [] => getBool env "#ev.stop_requested"
  | "self.events.reset_tx.is_set", [] => getBool env "#ev.reset_tx"
  | "self.events.reset_rx.is_set", [] => getBool env "#ev.reset_rx"
  | "self.events.reset_tx_complete.is_set", [] => getBool env "#ev.reset_tx_complete"
  | "self.events.reset_rx_complete.is_set", [] => getBool env "#ev.reset_rx_complete"
  | "__float__", [.str _] => .ok (pint 0)
  | "self.rx_relay_queue.empty", [] => qEmptyF env
  | "threading.Thread#target#daemon", [_, _] => .ok (.meth "Thread")
  | "self.main_thread.is_alive", [] => getBool env "#alive.main"
  | "self.relay_thread.is_alive", [] => getBool env "#alive.relay"
  | "can.BufferedReader", [] => .ok (.meth "BufferedReader")
  | "self.is_tx_throttled", [] => .ok (pbool false)
  | "time.perf_counter", [] => .ok (pint 0)
  | "self.sleep_time", [] => .ok (pint 0)
  | "self.user_rxfn", [_] => busPeek env
  | n, _ => .error (.unsupported ("call " ++ n))

def thrProc (name : String) (args : List PV) (env : Env) : Except PErr Env :=
  match name, args with
  | "self.events.main_thread_ready.set", [] => .ok (env.set "#ev.main_thread_ready" (pbool true))
  | "self.events.relay_thread_ready.set", [] => .ok (env.set "#ev.relay_thread_ready" (pbool true))
  | "self.events.stop_requested.set", [] => .ok (env.set "#ev.stop_requested" (pbool true))
  | "self.events.reset_tx.set", [] => .ok (env.set "#ev.reset_tx" (pbool true))
  | "self.events.reset_rx.set", [] => .ok (env.set "#ev.reset_rx" (pbool true))
  | "self.events.reset_tx_complete.set", [] => .ok (env.set "#ev.reset_tx_complete" (pbool true))
  | "self.events.reset_rx_complete.set", [] => .ok (env.set "#ev.reset_rx_complete" (pbool true))
  | "self.events.main_thread_ready.clear", [] => .ok (env.set "#ev.main_thread_ready" (pbool false))
  | "self.events.relay_thread_ready.clear", [] => .ok (env.set "#ev.relay_thread_ready" (pbool false))
  | "self.events.stop_requested.clear", [] => .ok (env.set "#ev.stop_requested" (pbool false))
  | "self.events.reset_tx.clear", [] => .ok (env.set "#ev.reset_tx" (pbool false))
  | "self.events.reset_rx.clear", [] => .ok (env.set "#ev.reset_rx" (pbool false))
  | "self.events.reset_tx_complete.clear", [] => .ok (env.set "#ev.reset_tx_complete" (pbool false))
  | "self.events.reset_rx_complete.clear", [] => .ok (env.set "#ev.reset_rx_complete" (pbool false))
  -- `wait`: a started thread signals ready; a live worker serves a pending request; otherwise the call returns unchanged (flag already
  -- set, or timeout)
  | "self.events.main_thread_ready.wait", [_] =>
    .ok (if readB env "#alive.main" then env.set "#ev.main_thread_ready" (pbool true) else env)
  | "self.events.relay_thread_ready.wait", [_] =>
    .ok (if readB env "#alive.relay" then env.set "#ev.relay_thread_ready" (pbool true) else env)
  | "self.events.stop_requested.wait", [_] => .ok env
  | "self.events.reset_tx.wait", [_] => .ok env
  | "self.events.reset_rx.wait", [_] => .ok env
  | "self.events.reset_tx_complete.wait", [_] =>
    .ok (if readB env "#ev.reset_tx_complete" then env
      else if readB env "#alive.main" && !readB env "#ev.stop_requested" && readB env "#ev.reset_tx" then
        ((coreIdle env true false).set "#ev.reset_tx" (pbool false)).set "#ev.reset_tx_complete" (pbool true)
      else env)
  | "self.events.reset_rx_complete.wait", [_] =>
    .ok (if readB env "#ev.reset_rx_complete" then env
      else if readB env "#alive.main" && !readB env "#ev.stop_requested" && readB env "#ev.reset_rx" then
        ((coreIdle env false true).set "#ev.reset_rx" (pbool false)).set "#ev.reset_rx_complete" (pbool true)
      else env)
  | "self.rx_relay_queue.put", [v] => qPut v env
  | "self.rx_relay_queue.get", [] => qGetP env
  | "self._set_rxfn", [x] => .ok (env.set "self.rxfn" x)
  | "self.main_thread.start", [] => .ok (env.set "#alive.main" (pbool true))
  | "self.relay_thread.start", [] => .ok (env.set "#alive.relay" (pbool true))
  -- `join`: a live thread that has been asked to stop exits (the worker through its `finally: reset()`); otherwise: timeout, or already dead
  | "self.main_thread.join", [_] =>
    .ok (if readB env "#alive.main" && readB env "#ev.stop_requested" then (coreIdle env true true).set "#alive.main" (pbool false) else env)
  | "self.relay_thread.join#timeout", [_] =>
    .ok (if readB env "#alive.relay" && readB env "#ev.stop_requested" then env.set "#alive.relay" (pbool false) else env)
  | "super().reset", [] => .ok (coreIdle env true true)
  | "self._stop_sending#success", [_] => .ok (coreIdle env true false)
  | "self._stop_receiving", [] => .ok (coreIdle env false true)
  | "time.sleep", [_] => .ok env
  | "self.notifier.add_listener", [_] => lsnAdd 1 env
  | "self.notifier.remove_listener", [_] => lsnAdd (-1) env
  | n, _ => .error (.unsupported ("call " ++ n))

def thrMeths : Meths := { fn := thrFn, proc := thrProc }



theorem coreIdle_wrapper (env : Env) (tx rx : Bool) {k : String} (hk : k ∈ wrapperKeys) : (coreIdle env tx rx) k = env k := by
  obtain ⟨h1, h2⟩ := wrapper_ne_core hk
  cases tx <;> cases rx <;> simp [coreIdle, Env.set, h1, h2]

theorem coreIdle_R0 (env : Env) (s s' : State) (tx rx : Bool) (h : R0 env s)
    (htx : s'.txState = if tx then .idle else s.txState) (hrx : s'.rxState = if rx then .idle else s.rxState) :
    R0 (coreIdle env tx rx) s' := by
  obtain ⟨h1, h2⟩ := h
  cases tx <;> cases rx <;> simp_all [R0, coreIdle, Env.set]

theorem thrMeths_spec : Spec thrMeths R0 where
  evSet := fun e env => by cases e <;> rfl
  evClear := fun e env => by cases e <;> rfl
  evIsSet := fun e env b h => by cases e <;> exact getBool_of h
  waitSet := by
    intro e env v h
    cases e
    · have h' : env "#ev.main_thread_ready" = some (pbool true) := h
      show (Except.ok (if readB env "#alive.main" then env.set "#ev.main_thread_ready" (pbool true) else env) : Except PErr Env) = _
      split
      · rw [set_same env _ _ h']
      · rfl
    · have h' : env "#ev.relay_thread_ready" = some (pbool true) := h
      show (Except.ok (if readB env "#alive.relay" then env.set "#ev.relay_thread_ready" (pbool true) else env) : Except PErr Env) = _
      split
      · rw [set_same env _ _ h']
      · rfl
    · rfl
    · rfl
    · rfl
    · have h' : env "#ev.reset_tx_complete" = some (pbool true) := h
      show (Except.ok (if readB env "#ev.reset_tx_complete" then env else _) : Except PErr Env) = _
      rw [readB_of h']; rfl
    · have h' : env "#ev.reset_rx_complete" = some (pbool true) := h
      show (Except.ok (if readB env "#ev.reset_rx_complete" then env else _) : Except PErr Env) = _
      rw [readB_of h']; rfl
  float := fun _ _ => ⟨0, rfl⟩
  qPutNone := by
    intro env q h
    show qPut pnone env = _
    unfold qPut
    rw [h]
    simp [encQ, encItem]
  qEmpty := by
    intro env q h
    show qEmptyF env = _
    unfold qEmptyF
    rw [h]
    simp [encQ_isEmpty]
  qGet := by
    intro env x q h
    show qGetP env = _
    unfold qGetP
    rw [h, encQ_cons]
    simp only [takeItem_enc]
  setRxfn := fun _ _ => rfl
  thrNew := fun _ _ => rfl
  startMain := fun _ _ => rfl
  startRelay := fun _ _ => rfl
  aliveMain := fun _ _ h => getBool_of h
  aliveRelay := fun _ _ h => getBool_of h
  joinDeadMain := by
    intro env v h
    show (Except.ok (if readB env "#alive.main" && readB env "#ev.stop_requested" then _ else env) : Except PErr Env) = _
    rw [readB_of h]; rfl
  joinDeadRelay := by
    intro env v h
    show (Except.ok (if readB env "#alive.relay" && readB env "#ev.stop_requested" then _ else env) : Except PErr Env) = _
    rw [readB_of h]; rfl
  hJoin := by
    intro env v q hA hS _
    refine ⟨(coreIdle env true true).set "#alive.main" (pbool false), ?_, by simp [Env.set], ?_⟩
    · show (Except.ok (if readB env "#alive.main" && readB env "#ev.stop_requested" then _ else env) : Except PErr Env) = _
      rw [readB_of hA, readB_of hS]; rfl
    · intro k hk hne
      simp [Env.set, hne, coreIdle_wrapper env true true hk]
  hJoinRelay := by
    intro env v hA hS
    show (Except.ok (if readB env "#alive.relay" && readB env "#ev.stop_requested" then _ else env) : Except PErr Env) = _
    rw [readB_of hA, readB_of hS]; rfl
  hWorkerExit := by
    intro env env' v s hR hA hj hd
    have hj' : (Except.ok (if readB env "#alive.main" && readB env "#ev.stop_requested"
        then (coreIdle env true true).set "#alive.main" (pbool false) else env) : Except PErr Env) = .ok env' := hj
    rw [readB_of hA] at hj'
    cases hs : readB env "#ev.stop_requested"
    · rw [hs] at hj'
      simp only [Bool.and_false, Bool.false_eq_true, if_false, Except.ok.injEq] at hj'
      subst hj'
      rw [hA] at hd; cases hd
    · rw [hs] at hj'
      simp only [Bool.and_self, if_true, Except.ok.injEq] at hj'
      subst hj'
      have := coreIdle_R0 env s s.reset true true hR (by simp [reset_states]) (by simp [reset_states])
      exact ⟨by simp [Env.set, this.1], by simp [Env.set, this.2]⟩
  hReady := by
    intro env v h
    show (Except.ok (if readB env "#alive.main" then env.set "#ev.main_thread_ready" (pbool true) else env) : Except PErr Env) = _
    rw [readB_of h]; rfl
  hReadyRelay := by
    intro env v h
    show (Except.ok (if readB env "#alive.relay" then env.set "#ev.relay_thread_ready" (pbool true) else env) : Except PErr Env) = _
    rw [readB_of h]; rfl
  hServe := by
    intro env v s hR hA hS hT hC
    refine ⟨((coreIdle env true false).set "#ev.reset_tx" (pbool false)).set "#ev.reset_tx_complete" (pbool true), ?_, ?_,
      by simp [Env.set], by simp [Env.set], ?_⟩
    · show (Except.ok (if readB env "#ev.reset_tx_complete" then env
        else if readB env "#alive.main" && !readB env "#ev.stop_requested" && readB env "#ev.reset_tx" then _ else env) :
          Except PErr Env) = _
      rw [readB_of hC, readB_of hA, readB_of hS, readB_of hT]; rfl
    · have := coreIdle_R0 env s (s.stopSending false) true false hR (by simp [stopSending_states]) (by simp [stopSending_states])
      exact ⟨by simp [Env.set, this.1], by simp [Env.set, this.2]⟩
    · intro k hk h1 h2
      simp [Env.set, h1, h2, coreIdle_wrapper env true false hk]
  hServeRx := by
    intro env v s hR hA hS hT hC
    refine ⟨((coreIdle env false true).set "#ev.reset_rx" (pbool false)).set "#ev.reset_rx_complete" (pbool true), ?_, ?_,
      by simp [Env.set], by simp [Env.set], ?_⟩
    · show (Except.ok (if readB env "#ev.reset_rx_complete" then env
        else if readB env "#alive.main" && !readB env "#ev.stop_requested" && readB env "#ev.reset_rx" then _ else env) :
          Except PErr Env) = _
      rw [readB_of hC, readB_of hA, readB_of hS, readB_of hT]; rfl
    · have := coreIdle_R0 env s s.stopReceiving false true hR (by simp [stopReceiving_states]) (by simp [stopReceiving_states])
      exact ⟨by simp [Env.set, this.1], by simp [Env.set, this.2]⟩
    · intro k hk h1 h2
      simp [Env.set, h1, h2, coreIdle_wrapper env false true hk]
  superReset := fun env s hR => ⟨coreIdle env true true, rfl,
    coreIdle_R0 env s s.reset true true hR (by simp [reset_states]) (by simp [reset_states]),
    fun _ hk => coreIdle_wrapper env true true hk⟩
  stopSendingCore := fun env s hR => ⟨coreIdle env true false, rfl,
    coreIdle_R0 env s _ true false hR (by simp [stopSending_states]) (by simp [stopSending_states]),
    fun _ hk => coreIdle_wrapper env true false hk⟩
  stopReceivingCore := fun env s hR => ⟨coreIdle env false true, rfl,
    coreIdle_R0 env s _ false true hR (by simp [stopReceiving_states]) (by simp [stopReceiving_states]),
    fun _ hk => coreIdle_wrapper env false true hk⟩


theorem thrMeths_relay : RelaySpec thrMeths where
  throttled := fun _ => ⟨false, rfl⟩
  clock := fun _ => ⟨0, rfl⟩
  sleepTime := fun _ => ⟨0, rfl⟩
  sleep := fun _ _ => rfl
  userRx := by
    intro env v b h
    show busPeek env = _
    unfold busPeek
    rw [h]
    simp only [encQ_isEmpty]
    cases b <;> rfl
  putMsg := by
    intro env m rest q hb hq
    show qPut (.meth "CanMessage") env = _
    unfold qPut
    rw [hq, hb]
    have : encQ ((m :: rest).map some) = encItem (some m) ++ encQ (rest.map some) := by simp [encQ_cons]
    rw [this]
    simp only [takeItem_enc]
    simp [pnone, encQ_append, encQ_cons, encQ_nil]

theorem encQ_length_ge (q : List (Option CanMsg)) : q.length ≤ (encQ q).length := by
  induction q with
  | nil => simp [encQ]
  | cons x q ih =>
    rw [encQ_cons, List.length_append, List.length_cons]
    have : 1 ≤ (encItem x).length := by
      have := encItem_ne_nil x
      cases hx : encItem x with
      | nil => exact absurd hx this
      | cons _ _ => simp
    omega

def keyLen (k : String) (env : Env) : Nat :=
  match env k with
  | some (.list xs) => xs.length
  | _ => 0

/-- `super().start()` / `super().stop()` ARE the interpreted sources of `TransportLayer.start` / `.stop` (run under `thrMeths`) -/
def superStartP (env : Env) : Except PErr Env := (runFn thrMeths env Src.TransportLayer_start).map (·.2)
def superStopP (env : Env) : Except PErr Env :=
  match run2 (keyLen "#relay_queue" env + 30) thrMeths env Src.TransportLayer_stop with
  | .ok (.ret _ e) => .ok e
  | _ => .error (.unsupported "super().stop() did not return")

def nbProc (name : String) (args : List PV) (env : Env) : Except PErr Env :=
  match name, args with
  | "super().start", [] => superStartP env
  | "super().stop", [] => superStopP env
  | n, a => thrProc n a env

def nbMeths : Meths := { fn := thrFn, proc := nbProc }

theorem nbMeths_spec : NbSpec nbMeths R0 where
  newReader := fun _ => rfl
  addListener := by
    intro env v n h
    show lsnAdd 1 env = _
    unfold lsnAdd
    rw [h]
  removeListener := by
    intro env v n h
    left
    show lsnAdd (-1) env = _
    unfold lsnAdd
    rw [h]
    rfl
  superStart := by
    intro env t h hs
    obtain ⟨env', h1, h2⟩ := start_runs thrMeths_spec R0_coreRel env t h hs
    refine ⟨env', ?_, h2.shows, h2.keep⟩
    show superStartP env = _
    unfold superStartP
    rw [h1]; rfl
  superStop := by
    intro env t h
    obtain ⟨env', h1, h2, -, h4⟩ := stop_agrees thrMeths_spec R0_coreRel env t h
    refine ⟨env', ?_, h2, h4⟩
    show superStopP env = _
    unfold superStopP
    have hk : keyLen "#relay_queue" env = (encQ t.relayQ).length := by unfold keyLen; rw [h.1.q]
    rw [h1 _ (by rw [hk]; have := encQ_length_ge t.relayQ; omega)]

/-- an environment that shows `t` (with the logic layer shown by `R0`), a reader / listener count, and the `blocking_rxfn` attribute -/
def worldEnv (t : TL) (reader : Bool) (n : Int) (bl : Bool) : Env := fun k =>
  match k with
  | "self.started" => some (pbool t.started)
  | "self.main_thread" => some (handlePV t.mainThread)
  | "self.relay_thread" => some (handlePV t.relayThread)
  | "#alive.main" => some (pbool (isRunning t.mainThread))
  | "#alive.relay" => some (pbool (isRunning t.relayThread))
  | "#ev.main_thread_ready" => some (pbool t.ev.mainReady)
  | "#ev.relay_thread_ready" => some (pbool t.ev.relayReady)
  | "#ev.stop_requested" => some (pbool t.ev.stopRequested)
  | "#ev.reset_tx" => some (pbool t.ev.resetTx)
  | "#ev.reset_rx" => some (pbool t.ev.resetRx)
  | "#ev.reset_tx_complete" => some (pbool t.ev.resetTxComplete)
  | "#ev.reset_rx_complete" => some (pbool t.ev.resetRxComplete)
  | "#relay_queue" => some (.list (encQ t.relayQ))
  | "self.rxfn" => some (rxfnPV t.rxfnIsRelay)
  | "self._read_relay_queue" => some (rxfnPV true)
  | "self.user_rxfn" => some (rxfnPV false)
  | "self._main_thread_fn" => some (.meth "self._main_thread_fn")
  | "self._relay_thread_fn" => some (.meth "self._relay_thread_fn")
  | "self.default_read_timeout" => some (pint 0)
  | "#bus" => some (.list (encQ (t.bus.map some)))
  | "self.blocking_rxfn" => some (pbool bl)
  | "self.buffered_reader" => some (if reader then .meth "BufferedReader" else pnone)
  | "#listeners" => some (pint n)
  | "self.tx_state" => some (txPV t.core.txState)
  | "self.rx_state" => some (rxPV t.core.rxState)
  | _ => none

theorem worldEnv_shows (t : TL) (reader : Bool) (n : Int) (bl : Bool) :
    Shows R0 (worldEnv t reader n bl) t ∧ NbShows (worldEnv t reader n bl) reader n ∧
    worldEnv t reader n bl "self.blocking_rxfn" = some (pbool bl) :=
  ⟨⟨⟨rfl, rfl, rfl, rfl, rfl, rfl, rfl, rfl, rfl, rfl, rfl, rfl, rfl, rfl, rfl, rfl, rfl, rfl, ⟨0, rfl⟩, rfl⟩, rfl, rfl⟩, ⟨rfl, rfl⟩, rfl⟩

/-! ### every theorem applies to every wrapper state in this world -/

example (t : TL) :
    match (TL.start t).2 with
    | some e => runFn thrMeths (worldEnv t false 0 true) Src.TransportLayer_start = .error (.exc e)
    | none => ∃ env', runFn thrMeths (worldEnv t false 0 true) Src.TransportLayer_start = .ok (pnone, env') ∧
        Shows R0 env' (TL.start t).1 ∧ ∀ k ∈ passiveKeys, env' k = worldEnv t false 0 true k :=
  start_agrees thrMeths_spec R0_coreRel _ t (worldEnv_shows t false 0 true).1

example (t : TL) : ∃ env', (∀ n, t.relayQ.length + 30 ≤ n →
      run2 n thrMeths (worldEnv t false 0 true) Src.TransportLayer_stop = .ok (.ret pnone env')) ∧ Shows R0 env' (TL.stop t).1 := by
  obtain ⟨env', h1, h2, -⟩ := stop_agrees thrMeths_spec R0_coreRel _ t (worldEnv_shows t false 0 true).1
  exact ⟨env', h1, h2⟩

example (t : TL) : ∃ env', runFn thrMeths (worldEnv t false 0 true) Src.TransportLayer_stop_sending = .ok (pnone, env') ∧
    Shows R0 env' (TL.stopSending t).1 := by
  obtain ⟨env', h1, h2, -⟩ := stop_sending_agrees thrMeths_spec R0_coreRel _ t (worldEnv_shows t false 0 true).1
  exact ⟨env', h1, h2⟩

example (t : TL) : ∃ env', runFn thrMeths (worldEnv t false 0 true) Src.TransportLayer_stop_receiving = .ok (pnone, env') ∧
    Shows R0 env' (TL.stopReceiving t).1 := by
  obtain ⟨env', h1, h2, -⟩ := stop_receiving_agrees thrMeths_spec R0_coreRel _ t (worldEnv_shows t false 0 true).1
  exact ⟨env', h1, h2⟩

example (t : TL) (hrun : t.relayThread = .running) (hsr : t.ev.stopRequested = false) :
    ∃ env', Shows R0 env' (TL.relayStep t) ∧ ∀ n, 12 ≤ n →
      exec2S (n + 1) thrMeths (worldEnv t false 0 true) (.while_ relayCond relayBody) =
        exec2S n thrMeths env' (.while_ relayCond relayBody) := by
  obtain ⟨env', h1, -, -, h4⟩ :=
    (relay_iteration thrMeths_spec thrMeths_relay R0_coreRel _ t (worldEnv_shows t false 0 true).1 true
      (worldEnv_shows t false 0 true).2.2 hrun).2 hsr
  exact ⟨env', h1, h4⟩

example (t : TL) (r : Bool) (n : Int) : ∃ env' n', (∀ f, 15 ≤ f →
    run2 f nbMeths (worldEnv t r n true) Src.NotifierBasedCanStack_stop = .ok (.ret pnone env')) ∧
    Shows R0 env' (TL.stop t).1 ∧ NbShows env' false n' := by
  obtain ⟨env', n', h1, h2, h3, -⟩ := nb_stop_agrees nbMeths_spec R0_coreRel _ t r n (worldEnv_shows t r n true).1
    (worldEnv_shows t r n true).2.1
  exact ⟨env', n', h1, h2, h3⟩

/-- the pre-fix disagreement is not vacuous either: a state with the stale flag -/
example : ∃ (t : TL) (env env' : Env), Shows R0 env t ∧ runFn thrMeths env stopSendingBeforeFix = .ok (pnone, env') ∧
    ¬ Shows R0 env' (TL.stopSending t).1 := by
  let t : TL := { core := default, started := true, mainThread := .running, relayThread := .running,
                  ev := { resetTxComplete := true }, rxfnIsRelay := true }
  obtain ⟨env', h1, -, h3⟩ := stop_sending_stale_before_fix thrMeths_spec R0_coreRel _ t (worldEnv_shows t false 0 true).1 rfl rfl rfl rfl
  exact ⟨t, _, env', (worldEnv_shows t false 0 true).1, h1, h3⟩


/-! ### ... and the world really runs: the kernel evaluates the interpreter on the dumped `stop`

  A started layer with a running worker and relay thread, a wake-up token and a frame in the relay queue: `stop()` returns and leaves
  `started = False`, no thread alive, both handles `None`, the queue empty, the user `rxfn` restored.  (The fuel bound of `stop_agrees`,
  `|relayQ| + 30`, is sufficient, not tight: this run needs 18.) -/

def demoMsg : CanMsg := { id := 1, ext := false, data := [1, 2] }
def demoTL : TL :=
  { core := default, started := true, mainThread := Isotp.Thr.running, relayThread := Isotp.Thr.running,
    relayQ := [none, some demoMsg], ev := { mainReady := true, relayReady := true }, rxfnIsRelay := true }

def demoStop (n : Nat) : Bool :=
  match run2 n thrMeths (worldEnv demoTL false 0 true) Src.TransportLayer_stop with
  | .ok (.ret _ e) =>
    e "self.started" == some (pbool false) && e "#alive.main" == some (pbool false) && e "#alive.relay" == some (pbool false) &&
    e "#relay_queue" == some (.list []) && e "self.main_thread" == some pnone && e "self.relay_thread" == some pnone &&
    e "self.rxfn" == some (.meth "self.user_rxfn") && e "#ev.stop_requested" == some (pbool false) &&
    e "self.tx_state" == some (txPV .idle)
  | _ => false

example : demoStop 32 = true ∧ demoStop 18 = true ∧ demoStop 17 = false := by decide

end Isotp.PyAgree.Thr

#print axioms Isotp.PyAgree.Thr.start_refuses
#print axioms Isotp.PyAgree.Thr.start_runs
#print axioms Isotp.PyAgree.Thr.start_agrees
#print axioms Isotp.PyAgree.Thr.start_raises_iff
#print axioms Isotp.PyAgree.Thr.stop_agrees
#print axioms Isotp.PyAgree.Thr.stop_final_env
#print axioms Isotp.PyAgree.Thr.stop_sending_agrees
#print axioms Isotp.PyAgree.Thr.stop_receiving_agrees
#print axioms Isotp.PyAgree.Thr.stop_sending_stale_before_fix
#print axioms Isotp.PyAgree.Thr.stop_receiving_stale_before_fix
#print axioms Isotp.PyAgree.Thr.nb_start_refuses
#print axioms Isotp.PyAgree.Thr.nb_start_refuses_env
#print axioms Isotp.PyAgree.Thr.nb_start_runs
#print axioms Isotp.PyAgree.Thr.nb_stop_agrees
#print axioms Isotp.PyAgree.Thr.relay_iteration
#print axioms Isotp.PyAgree.Thr.thrMeths_spec
#print axioms Isotp.PyAgree.Thr.thrMeths_relay
#print axioms Isotp.PyAgree.Thr.nbMeths_spec
#print axioms Isotp.PyAgree.Thr.R0_coreRel
#print axioms Isotp.PyAgree.Thr.worldEnv_shows
