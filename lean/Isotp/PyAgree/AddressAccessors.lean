import Isotp.PyAgree.AddressFns
import Isotp.PyAgree.AddressInit
/-!
  The accessors of `Address` and the twelve delegations of `AsymmetricAddress` (isotp/address.py), for EVERY validated address.

  1. `Address`: `is_tx_only`, `is_rx_only`, `get_rx_prefix_size`, `get_tx_payload_prefix`, `is_tx_29bits`, `is_rx_29bits`,
     `requires_tx_extension_byte`, `requires_rx_extension_byte`, `is_for_me` return the model's field of the `Half`, on every
     environment that holds what `Address.__init__` computes.  The presentation predicate is `Presents h env`: the part of the
     conclusion of `Address_init_constructs_raw` / `Address_init_constructs` (AddressInit.lean) that does not mention the five
     identifier arguments (`otherAttrs h` present, `unsetAttrs h` absent); `constructed_presents` cites those theorems, so every
     statement below composes with the constructor (`*_on_constructed`).
     An accessor of the missing direction of a partial address is REPLACED in the instance (`setattr(self, name,
     not_implemented_func_with_partial)`): the class-level body is then not what a call runs.  Each theorem therefore also states
     that the name is not shadowed (`env "self.<name>" = none`) under the guard the constructor uses, and `shadowed_when_partial`
     gives the replaced names.  The class-level `Address.is_for_me` raises `NotImplementedError` for everybody
     (`Address_is_for_me_class_raises`); what a receive-capable object answers is the variant the constructor installed
     (`installed_is_for_me`, `is_for_me_on_constructed`).
  2. `AsymmetricAddress`: each delegation calls the method of the RIGHT object with the argument unchanged, whatever the two
     objects answer (`asym_*_delegates`: callees `asymMeths tx rx`, `tx` / `rx` arbitrary functions of the method name and the
     argument list); with the two objects answering the model's values (`halfObj`), every accessor of the asymmetric object is the
     model's field of `a.tx` / `a.rx` (`asym_accessors_model`).
  3. `swap_detected`: an 11-bit transmit half and a 29-bit receive half on which every tx answer differs from the rx answer, and
     on which each of the eleven delegations REDIRECTED TO THE OTHER OBJECT misses the model's value.
-/
namespace Isotp.PyAgree.Acc
open Isotp Isotp.Py Isotp.PyAgree Isotp.PyAgree.AddrInit

/-! ## 0. Infrastructure -/

/-- value returned by a function body, the other methods being given by `M` (`retOf` is the case `noMeths`) -/
def retM (M : Meths) (env : Env) (body : PBlock) : Except PErr PV := (runFn M env body).map (·.1)

theorem retOf_eq_retM (env : Env) (body : PBlock) : retOf env body = retM noMeths env body := rfl

/-- the names the interpreter treats as builtins; every other call goes to `Meths` -/
def builtinNames : List String :=
  ["len", "int", "bool", "min", "max", "bytes", "isinstance_int", "isinstance_bool", "isinstance_float", "isinstance_int_float"]

theorem evalBuiltin_none (fn : String) (args : List PV) (h : fn ∉ builtinNames) : evalBuiltin fn args = none := by
  simp only [builtinNames, List.mem_cons, List.not_mem_nil, or_false, not_or] at h
  unfold evalBuiltin; split <;> simp_all

/-- `return <attribute>` -/
theorem ret_var (M : Meths) (env : Env) (k : String) (v : PV) (hk : env k = some v) :
    retM M env (.cons (.ret (.var k)) .nil) = .ok v := by
  simp [retM, runFn, execBlock, execStmt, eval, hk]

/-- `return <callee>()`: the value is whatever the callee answers (an exception of the callee propagates) -/
theorem ret_call0 (M : Meths) (env : Env) (name : String) (hn : name ∉ builtinNames) :
    retM M env (.cons (.ret (.call name .nil)) .nil) = M.fn name [] env := by
  cases hf : M.fn name [] env <;>
  simp [retM, runFn, execBlock, execStmt, eval, evalArgs, evalBuiltin_none _ _ hn, hf]

/-- `return <callee>(<name>)`: the callee receives the value bound to the name, unchanged -/
theorem ret_call1 (M : Meths) (env : Env) (name arg : String) (v : PV) (hn : name ∉ builtinNames) (hv : env arg = some v) :
    retM M env (.cons (.ret (.call name (.cons (.var arg) .nil))) .nil) = M.fn name [v] env := by
  cases hf : M.fn name [v] env <;>
  simp [retM, runFn, execBlock, execStmt, eval, evalArgs, evalBuiltin_none _ _ hn, hv, hf]

/-! ## 1. The presentation: what `Address.__init__` leaves in the object -/

/-- The presentation predicate of AddressInit.lean: every attribute of `otherAttrs h` (mode, `_is_29bits`, the two partial flags,
    `physical_id` / `functional_id`, the cached identifiers, `_rx_prefix_size`, `_tx_payload_prefix`, `is_for_me` and the replaced
    methods) has the model's value, the attributes of `unsetAttrs h` do not exist.  It is the common part of the conclusions of
    `Address_init_constructs_raw` and `Address_init_constructs`. -/
def Presents (h : Half) (env : Env) : Prop :=
  (∀ kv ∈ otherAttrs h, env kv.1 = some kv.2) ∧ (∀ k ∈ unsetAttrs h, env k = none)

theorem presents_of_raw {a : AddrArgs} {h : Half} {env : Env}
    (h1 : ∀ kv ∈ rawIdAttrs a ++ otherAttrs h, env kv.1 = some kv.2) (h2 : ∀ k ∈ unsetAttrs h, env k = none) : Presents h env :=
  ⟨fun kv hkv => h1 kv (List.mem_append_right _ hkv), h2⟩

theorem presents_of_expected {h : Half} {env : Env}
    (h1 : ∀ kv ∈ expectedAttrs h, env kv.1 = some kv.2) (h2 : ∀ k ∈ unsetAttrs h, env k = none) : Presents h env :=
  ⟨fun kv hkv => h1 kv (List.mem_append_right _ hkv), h2⟩

/-- the class constants (global names, not attributes of the object) are visible -/
structure Consts (env : Env) : Prop where
  c1 : env "AddressingMode.Normal_11bits" = some (modePV .n11)
  c2 : env "AddressingMode.Normal_29bits" = some (modePV .n29)
  c3 : env "AddressingMode.NormalFixed_29bits" = some (modePV .nf29)
  c4 : env "AddressingMode.Extended_11bits" = some (modePV .e11)
  c5 : env "AddressingMode.Extended_29bits" = some (modePV .e29)
  c6 : env "AddressingMode.Mixed_11bits" = some (modePV .m11)
  c7 : env "AddressingMode.Mixed_29bits" = some (modePV .m29)
  t1 : env "TargetAddressType.Physical" = some (tatPV .physical)
  t2 : env "TargetAddressType.Functional" = some (tatPV .functional)

theorem consts_halfEnv (h : Half) : Consts (halfEnv h) := by
  constructor <;> rfl

theorem inv_txNip {a : AddrArgs} {m : Mode} {env : Env} (hI : Inv a m env) : Inv a m (txNip env) :=
  (((((hI.set (by decide) _).set (by decide) _).set (by decide) _).set (by decide) _).set (by decide) _)

/-- the read-only invariant of the constructor still holds of the object it returns -/
theorem inv_finalEnv (a : AddrArgs) (m : Mode) (h : Half) : Inv a m (finalEnv a m h) := by
  have I13 : Inv a m (env13 a m) := ((inv_env11 a m).set (by decide) _).set (by decide) _
  have I17 : Inv a m ((isForMeStage a m (txStage a m h (rxStage a m h (env13 a m)))).set nipName nip) :=
    (((I13.rxStage h).txStage h).isForMeStage).set (by decide) _
  have I18 : Inv a m (if a.txOnly then rxNip ((isForMeStage a m (txStage a m h (rxStage a m h (env13 a m)))).set nipName nip)
      else (isForMeStage a m (txStage a m h (rxStage a m h (env13 a m)))).set nipName nip) := by
    split
    · exact I17.rxNip
    · exact I17
  show Inv a m (if a.rxOnly then txNip _ else _)
  split
  · exact inv_txNip I18
  · exact I18

theorem consts_finalEnv (a : AddrArgs) (m : Mode) (h : Half) : Consts (finalEnv a m h) := by
  have I := inv_finalEnv a m h
  exact ⟨I.c1, I.c2, I.c3, I.c4, I.c5, I.c6, I.c7, I.t1, I.t2⟩

/-- **the constructor establishes the presentation**, for ALL accepted arguments (`Address_init_run` + `finalEnv_attrs`, i.e.
    `Address_init_constructs_raw`) -/
theorem constructed_presents (a : AddrArgs) (m : Mode) (h : Half) (hm : a.mode = some m) (hk : mkAddress a = .ok h) :
    ∃ env', runFn (initMeths a) (initEnv a m) Src.Address_init = .ok (pnone, env') ∧ Presents h env' ∧ Consts env' :=
  ⟨finalEnv a m h, Address_init_run a m h hm hk,
    presents_of_raw (finalEnv_attrs a m h hm hk).1 (finalEnv_attrs a m h hm hk).2, consts_finalEnv a m h⟩

/-- `validate` rejects `rx_only and tx_only` -/
theorem mkAddress_not_both {a : AddrArgs} {h : Half} (hk : mkAddress a = .ok h) : ¬ (h.rxOnly = true ∧ h.txOnly = true) := by
  cases hm : a.mode with
  | none => simp [mkAddress, hm] at hk
  | some m =>
    obtain ⟨hv, hh⟩ := mkAddress_ok hm hk
    subst hh
    simp only [validateAddr, hm, Bool.and_eq_true] at hv
    have := hv.1.1.1.1.1.1
    rintro ⟨h1, h2⟩
    simp only [mkHalf] at h1 h2
    simp [h1, h2] at this

/-! ### the attributes the accessors read -/

section lookups
variable {h : Half} {env : Env} (hp : Presents h env)
include hp

theorem at_tx_only : env "self._tx_only" = some (pbool h.txOnly) := hp.1 ("self._tx_only", _) (by simp [otherAttrs])
theorem at_rx_only : env "self._rx_only" = some (pbool h.rxOnly) := hp.1 ("self._rx_only", _) (by simp [otherAttrs])
theorem at_is_29bits : env "self._is_29bits" = some (pbool h.mode.is29) := hp.1 ("self._is_29bits", _) (by simp [otherAttrs])
theorem at_mode : env "self._addressing_mode" = some (modePV h.mode) := hp.1 ("self._addressing_mode", _) (by simp [otherAttrs, modePV])

theorem at_rx_prefix_size (ht : h.txOnly = false) : env "self._rx_prefix_size" = some (pint h.rxPrefixSize) :=
  hp.1 ("self._rx_prefix_size", _) (by simp [otherAttrs, ht, nip])
theorem at_tx_payload_prefix (hr : h.rxOnly = false) : env "self._tx_payload_prefix" = some (.bytes h.txPrefix) :=
  hp.1 ("self._tx_payload_prefix", _) (by simp [otherAttrs, hr, nip])
theorem at_is_for_me (ht : h.txOnly = false) : env "self.is_for_me" = some (.meth (isForMeName h.mode)) :=
  hp.1 ("self.is_for_me", _) (by simp [otherAttrs, ht, nip])
theorem at_tx_id (hr : h.rxOnly = false) (t : Tat) :
    env (match t with | .physical => "self._tx_arbitration_id_physical" | .functional => "self._tx_arbitration_id_functional") =
      some (pint (h.txId t)) := by
  cases t
  · exact hp.1 ("self._tx_arbitration_id_physical", _) (by simp [otherAttrs, hr, nip])
  · exact hp.1 ("self._tx_arbitration_id_functional", _) (by simp [otherAttrs, hr, nip])
theorem at_rx_id (ht : h.txOnly = false) (t : Tat) :
    env (match t with | .physical => "self._rx_arbitration_id_physical" | .functional => "self._rx_arbitration_id_functional") =
      some (pint (h.rxId t)) := by
  cases t
  · exact hp.1 ("self._rx_arbitration_id_physical", _) (by simp [otherAttrs, ht, nip])
  · exact hp.1 ("self._rx_arbitration_id_functional", _) (by simp [otherAttrs, ht, nip])

/-- the receive-side accessors of an object that can receive are the class-level `def`s (no instance attribute shadows them) -/
theorem rx_side_not_shadowed (ht : h.txOnly = false) :
    env "self.get_rx_arbitration_id" = none ∧ env "self.requires_rx_extension_byte" = none ∧
    env "self.get_rx_extension_byte" = none ∧ env "self.is_rx_29bits" = none ∧ env "self.get_rx_prefix_size" = none :=
  ⟨hp.2 _ (by simp [unsetAttrs, ht]), hp.2 _ (by simp [unsetAttrs, ht]), hp.2 _ (by simp [unsetAttrs, ht]),
    hp.2 _ (by simp [unsetAttrs, ht]), hp.2 _ (by simp [unsetAttrs, ht])⟩

/-- the transmit-side accessors of an object that can transmit are the class-level `def`s -/
theorem tx_side_not_shadowed (hr : h.rxOnly = false) :
    env "self.get_tx_arbitration_id" = none ∧ env "self.requires_tx_extension_byte" = none ∧
    env "self.get_tx_extension_byte" = none ∧ env "self.is_tx_29bits" = none ∧ env "self.get_tx_payload_prefix" = none :=
  ⟨hp.2 _ (by simp [unsetAttrs, hr]), hp.2 _ (by simp [unsetAttrs, hr]), hp.2 _ (by simp [unsetAttrs, hr]),
    hp.2 _ (by simp [unsetAttrs, hr]), hp.2 _ (by simp [unsetAttrs, hr])⟩

/-- the accessors of the missing direction of a partial address are replaced by `not_implemented_func_with_partial`
    (source: `raise NotImplementedError("Not possible with partial address")`) -/
theorem shadowed_when_partial :
    (h.txOnly = true →
      env "self.get_rx_arbitration_id" = some nip ∧ env "self.requires_rx_extension_byte" = some nip ∧
      env "self.get_rx_extension_byte" = some nip ∧ env "self.is_rx_29bits" = some nip ∧ env "self.is_for_me" = some nip ∧
      env "self.get_rx_prefix_size" = some nip) ∧
    (h.rxOnly = true →
      env "self.get_tx_arbitration_id" = some nip ∧ env "self.requires_tx_extension_byte" = some nip ∧
      env "self.get_tx_extension_byte" = some nip ∧ env "self.is_tx_29bits" = some nip ∧
      env "self.get_tx_payload_prefix" = some nip) := by
  constructor
  · intro ht
    exact ⟨hp.1 ("self.get_rx_arbitration_id", _) (by simp [otherAttrs, ht, nip]),
      hp.1 ("self.requires_rx_extension_byte", _) (by simp [otherAttrs, ht, nip]),
      hp.1 ("self.get_rx_extension_byte", _) (by simp [otherAttrs, ht, nip]),
      hp.1 ("self.is_rx_29bits", _) (by simp [otherAttrs, ht, nip]),
      hp.1 ("self.is_for_me", _) (by simp [otherAttrs, ht, nip]),
      hp.1 ("self.get_rx_prefix_size", _) (by simp [otherAttrs, ht, nip])⟩
  · intro hr
    exact ⟨hp.1 ("self.get_tx_arbitration_id", _) (by simp [otherAttrs, hr, nip]),
      hp.1 ("self.requires_tx_extension_byte", _) (by simp [otherAttrs, hr, nip]),
      hp.1 ("self.get_tx_extension_byte", _) (by simp [otherAttrs, hr, nip]),
      hp.1 ("self.is_tx_29bits", _) (by simp [otherAttrs, hr, nip]),
      hp.1 ("self.get_tx_payload_prefix", _) (by simp [otherAttrs, hr, nip])⟩

end lookups

/-! ## 2. The accessors of `Address` -/

section accessors
variable (M : Meths) {h : Half} {env : Env} (hp : Presents h env)
include hp

/-- `is_tx_only` (never replaced) -/
theorem is_tx_only_agrees : retM M env Src.Address_is_tx_only = .ok (pbool h.txOnly) :=
  ret_var M env _ _ (at_tx_only hp)

/-- `is_rx_only` (never replaced) -/
theorem is_rx_only_agrees : retM M env Src.Address_is_rx_only = .ok (pbool h.rxOnly) :=
  ret_var M env _ _ (at_rx_only hp)

/-- `is_tx_29bits`: the width of the mode; the body does not depend on the direction, the guard is for the dispatch -/
theorem is_tx_29bits_agrees : retM M env Src.Address_is_tx_29bits = .ok (pbool h.mode.is29) :=
  ret_var M env _ _ (at_is_29bits hp)

theorem is_rx_29bits_agrees : retM M env Src.Address_is_rx_29bits = .ok (pbool h.mode.is29) :=
  ret_var M env _ _ (at_is_29bits hp)

/-- `get_rx_prefix_size` of an object that can receive: `Half.rxPrefixSize` -/
theorem get_rx_prefix_size_agrees (ht : h.txOnly = false) :
    retM M env Src.Address_get_rx_prefix_size = .ok (pint h.rxPrefixSize) :=
  ret_var M env _ _ (at_rx_prefix_size hp ht)

/-- `get_tx_payload_prefix` of an object that can transmit: `Half.txPrefix` -/
theorem get_tx_payload_prefix_agrees (hr : h.rxOnly = false) :
    retM M env Src.Address_get_tx_payload_prefix = .ok (.bytes h.txPrefix) :=
  ret_var M env _ _ (at_tx_payload_prefix hp hr)

omit hp in
/-- `requires_rx_extension_byte` / `requires_tx_extension_byte` return what `self._requires_extension_byte()` answers -/
theorem requires_rx_extension_byte_delegates (env : Env) :
    retM M env Src.Address_requires_rx_extension_byte = M.fn "self._requires_extension_byte" [] env :=
  ret_call0 M env _ (by decide)

omit hp in
theorem requires_tx_extension_byte_delegates (env : Env) :
    retM M env Src.Address_requires_tx_extension_byte = M.fn "self._requires_extension_byte" [] env :=
  ret_call0 M env _ (by decide)

end accessors

/-- `_requires_extension_byte` on ANY environment that presents `h` (same proof as `p_requires_extension_byte_agrees`, which is the
    instance `halfEnv h`) -/
theorem p_requires_extension_byte_presented {h : Half} {env : Env} (hp : Presents h env) (hc : Consts env) :
    retOf env Src.Address_p_requires_extension_byte = .ok (pbool h.mode.hasPrefix) := by
  have hm := at_mode hp
  cases hc
  cases hmm : h.mode <;>
  simp [retOf, runFn, Src.Address_p_requires_extension_byte, execBlock, execStmt, eval, evalArgs, *, modePV, modeName] <;> rfl

/-- a call to another method of the same object runs the callee's SOURCE on the same object (no parameter) -/
def selfMeths : Meths where
  fn := fun name args env =>
    match name, args with
    | "self._requires_extension_byte", [] => retOf env Src.Address_p_requires_extension_byte
    | n, _ => .error (.unsupported ("call " ++ n))
  proc := fun n _ _ => .error (.unsupported ("call " ++ n))

theorem selfMeths_requires (env : Env) :
    selfMeths.fn "self._requires_extension_byte" [] env = retOf env Src.Address_p_requires_extension_byte := rfl

/-- `requires_rx_extension_byte`, the callee interpreted too: `Mode.hasPrefix` -/
theorem requires_rx_extension_byte_agrees {h : Half} {env : Env} (hp : Presents h env) (hc : Consts env) :
    retM selfMeths env Src.Address_requires_rx_extension_byte = .ok (pbool h.mode.hasPrefix) := by
  rw [requires_rx_extension_byte_delegates, selfMeths_requires, p_requires_extension_byte_presented hp hc]

theorem requires_tx_extension_byte_agrees {h : Half} {env : Env} (hp : Presents h env) (hc : Consts env) :
    retM selfMeths env Src.Address_requires_tx_extension_byte = .ok (pbool h.mode.hasPrefix) := by
  rw [requires_tx_extension_byte_delegates, selfMeths_requires, p_requires_extension_byte_presented hp hc]

/-! ### `is_for_me` -/

/-- the class-level `Address.is_for_me` raises `NotImplementedError`, whatever the object and the message -/
theorem Address_is_for_me_class_raises (M : Meths) (env : Env) :
    runFn M env Src.Address_is_for_me = .error (.exc .NotImplementedError) := rfl

/-- the `def`s the constructor binds to `self.is_for_me`, by name -/
def boundBody : String → Option PBlock
  | "_is_for_me_normal" => some Src.Address_p_is_for_me_normal
  | "_is_for_me_extended" => some Src.Address_p_is_for_me_extended
  | "_is_for_me_normal_fixed" => some Src.Address_p_is_for_me_normal_fixed
  | "_is_for_me_mixed_11bits" => some Src.Address_p_is_for_me_mixed_11bits
  | "_is_for_me_mixed_29bits" => some Src.Address_p_is_for_me_mixed_29bits
  | _ => none

theorem boundBody_isForMeName (m : Mode) : boundBody (isForMeName m) = some (selectedPredicate m) := by
  cases m <;> rfl

/-- **`is_for_me` = the installed variant**: on an object that can receive, `self.is_for_me` is the bound method
    `_is_for_me_<mode>` chosen by the constructor (it shadows the raising class-level `def`), whose source answers
    `Half.isForMe` (`isForMe_agrees`, on the attribute view `halfEnv h`). -/
theorem installed_is_for_me {h : Half} {env : Env} (hp : Presents h env) (ht : h.txOnly = false) (m : CanMsg) :
    ∃ n body, env "self.is_for_me" = some (.meth n) ∧ boundBody n = some body ∧
      retOf (msgEnv m (halfEnv h)) body = .ok (pbool (h.isForMe m)) :=
  ⟨isForMeName h.mode, selectedPredicate h.mode, at_is_for_me hp ht, boundBody_isForMeName _, isForMe_agrees h m⟩

/-! ### the cached identifiers (`get_tx_arbitration_id` / `get_rx_arbitration_id`) on a presented object

  (`get_tx_arbitration_id_agrees` of AddressFns.lean is the instance `cachedEnv h (halfEnv h)`.) -/

theorem get_tx_arbitration_id_presented {h : Half} {env : Env} (M : Meths) (hp : Presents h env) (hc : Consts env)
    (hr : h.rxOnly = false) (t : Tat) (hat : env "address_type" = some (tatPV t)) :
    retM M env Src.Address_get_tx_arbitration_id = .ok (pint (h.txId t)) := by
  have h1 := at_tx_id hp hr .physical
  have h2 := at_tx_id hp hr .functional
  cases hc
  cases t <;>
  simp [retM, runFn, Src.Address_get_tx_arbitration_id, execBlock, execStmt, eval, *, tatPV] at *

theorem get_rx_arbitration_id_presented {h : Half} {env : Env} (M : Meths) (hp : Presents h env) (hc : Consts env)
    (ht : h.txOnly = false) (t : Tat) (hat : env "address_type" = some (tatPV t)) :
    retM M env Src.Address_get_rx_arbitration_id = .ok (pint (h.rxId t)) := by
  have h1 := at_rx_id hp ht .physical
  have h2 := at_rx_id hp ht .functional
  cases hc
  cases t <;>
  simp [retM, runFn, Src.Address_get_rx_arbitration_id, execBlock, execStmt, eval, *, tatPV] at *

/-! ## 3. The delegations of `AsymmetricAddress` -/

/-- The callees of the delegations: `self.tx_addr.<m>(args)` is the method `<m>` of the object stored in `self.tx_addr`,
    `self.rx_addr.<m>(args)` the method `<m>` of the object stored in `self.rx_addr`; the two objects are ARBITRARY functions of the
    method name and the argument list (`tx`, `rx`).  All 2 x 11 combinations are given a meaning, so that a delegation to the
    wrong object is a call that succeeds - with the other object's answer. -/
def asymMeths (tx rx : String → List PV → Except PErr PV) : Meths where
  fn := fun name args _ =>
    match name with
    | "self.tx_addr.get_tx_extension_byte" => tx "get_tx_extension_byte" args
    | "self.tx_addr.get_rx_extension_byte" => tx "get_rx_extension_byte" args
    | "self.tx_addr.is_for_me" => tx "is_for_me" args
    | "self.tx_addr.get_tx_arbitration_id" => tx "get_tx_arbitration_id" args
    | "self.tx_addr.get_rx_arbitration_id" => tx "get_rx_arbitration_id" args
    | "self.tx_addr.is_tx_29bits" => tx "is_tx_29bits" args
    | "self.tx_addr.is_rx_29bits" => tx "is_rx_29bits" args
    | "self.tx_addr.requires_tx_extension_byte" => tx "requires_tx_extension_byte" args
    | "self.tx_addr.requires_rx_extension_byte" => tx "requires_rx_extension_byte" args
    | "self.tx_addr.get_rx_prefix_size" => tx "get_rx_prefix_size" args
    | "self.tx_addr.get_tx_payload_prefix" => tx "get_tx_payload_prefix" args
    | "self.rx_addr.get_tx_extension_byte" => rx "get_tx_extension_byte" args
    | "self.rx_addr.get_rx_extension_byte" => rx "get_rx_extension_byte" args
    | "self.rx_addr.is_for_me" => rx "is_for_me" args
    | "self.rx_addr.get_tx_arbitration_id" => rx "get_tx_arbitration_id" args
    | "self.rx_addr.get_rx_arbitration_id" => rx "get_rx_arbitration_id" args
    | "self.rx_addr.is_tx_29bits" => rx "is_tx_29bits" args
    | "self.rx_addr.is_rx_29bits" => rx "is_rx_29bits" args
    | "self.rx_addr.requires_tx_extension_byte" => rx "requires_tx_extension_byte" args
    | "self.rx_addr.requires_rx_extension_byte" => rx "requires_rx_extension_byte" args
    | "self.rx_addr.get_rx_prefix_size" => rx "get_rx_prefix_size" args
    | "self.rx_addr.get_tx_payload_prefix" => rx "get_tx_payload_prefix" args
    | n => .error (.unsupported ("call " ++ n))
  proc := fun n _ _ => .error (.unsupported ("call " ++ n))

section delegations
variable (tx rx : String → List PV → Except PErr PV) (env : Env)

/-- the transmit side goes to `self.tx_addr` -/
theorem asym_get_tx_extension_byte_delegates :
    retM (asymMeths tx rx) env Src.AsymmetricAddress_get_tx_extension_byte = tx "get_tx_extension_byte" [] :=
  ret_call0 _ env "self.tx_addr.get_tx_extension_byte" (by decide)

theorem asym_get_tx_arbitration_id_delegates (v : PV) (hv : env "address_type" = some v) :
    retM (asymMeths tx rx) env Src.AsymmetricAddress_get_tx_arbitration_id = tx "get_tx_arbitration_id" [v] :=
  ret_call1 _ env "self.tx_addr.get_tx_arbitration_id" "address_type" v (by decide) hv

theorem asym_is_tx_29bits_delegates :
    retM (asymMeths tx rx) env Src.AsymmetricAddress_is_tx_29bits = tx "is_tx_29bits" [] :=
  ret_call0 _ env "self.tx_addr.is_tx_29bits" (by decide)

theorem asym_requires_tx_extension_byte_delegates :
    retM (asymMeths tx rx) env Src.AsymmetricAddress_requires_tx_extension_byte = tx "requires_tx_extension_byte" [] :=
  ret_call0 _ env "self.tx_addr.requires_tx_extension_byte" (by decide)

theorem asym_get_tx_payload_prefix_delegates :
    retM (asymMeths tx rx) env Src.AsymmetricAddress_get_tx_payload_prefix = tx "get_tx_payload_prefix" [] :=
  ret_call0 _ env "self.tx_addr.get_tx_payload_prefix" (by decide)

/-- the receive side goes to `self.rx_addr` -/
theorem asym_get_rx_extension_byte_delegates :
    retM (asymMeths tx rx) env Src.AsymmetricAddress_get_rx_extension_byte = rx "get_rx_extension_byte" [] :=
  ret_call0 _ env "self.rx_addr.get_rx_extension_byte" (by decide)

theorem asym_is_for_me_delegates (v : PV) (hv : env "msg" = some v) :
    retM (asymMeths tx rx) env Src.AsymmetricAddress_is_for_me = rx "is_for_me" [v] :=
  ret_call1 _ env "self.rx_addr.is_for_me" "msg" v (by decide) hv

theorem asym_get_rx_arbitration_id_delegates (v : PV) (hv : env "address_type" = some v) :
    retM (asymMeths tx rx) env Src.AsymmetricAddress_get_rx_arbitration_id = rx "get_rx_arbitration_id" [v] :=
  ret_call1 _ env "self.rx_addr.get_rx_arbitration_id" "address_type" v (by decide) hv

theorem asym_is_rx_29bits_delegates :
    retM (asymMeths tx rx) env Src.AsymmetricAddress_is_rx_29bits = rx "is_rx_29bits" [] :=
  ret_call0 _ env "self.rx_addr.is_rx_29bits" (by decide)

theorem asym_requires_rx_extension_byte_delegates :
    retM (asymMeths tx rx) env Src.AsymmetricAddress_requires_rx_extension_byte = rx "requires_rx_extension_byte" [] :=
  ret_call0 _ env "self.rx_addr.requires_rx_extension_byte" (by decide)

theorem asym_get_rx_prefix_size_delegates :
    retM (asymMeths tx rx) env Src.AsymmetricAddress_get_rx_prefix_size = rx "get_rx_prefix_size" [] :=
  ret_call0 _ env "self.rx_addr.get_rx_prefix_size" (by decide)

/-- `is_partial_address` is `False`, whatever the two halves -/
theorem asym_is_partial_address_false (M : Meths) :
    retM M env Src.AsymmetricAddress_is_partial_address = .ok (pbool false) := rfl

end delegations

/-! ### the two objects, from the model -/

/-- the handle bound to the parameter `msg` (objects are opaque values of the interpreter) -/
def msgHandle : PV := .meth "msg"

/-- what `not_implemented_func_with_partial` does -/
def notImplemented : Except PErr PV := .error (.exc .NotImplementedError)

/-- an argument that must be a `TargetAddressType` member -/
def withTat (v : PV) (f : Tat → PV) : Except PErr PV :=
  if v = tatPV .physical then .ok (f .physical)
  else if v = tatPV .functional then .ok (f .functional)
  else .error (.unsupported "address type")

theorem withTat_tatPV (t : Tat) (f : Tat → PV) : withTat (tatPV t) f = .ok (f t) := by
  cases t <;> simp [withTat, tatPV]

/-- What the `Address` object presented by `h` answers to each accessor call, FROM THE MODEL (`m`: the message `msgHandle` stands
    for).  Each clause is an agreement theorem: section 2 above for `is_tx_29bits`, `is_rx_29bits`, `get_rx_prefix_size`,
    `get_tx_payload_prefix`, `requires_*_extension_byte`, `get_*_arbitration_id` (`*_presented`), `installed_is_for_me` for
    `is_for_me`, `get_tx_extension_byte_agrees` / `get_rx_extension_byte_agrees` (AddressFns.lean) for the extension bytes; the
    `notImplemented` guards are `shadowed_when_partial` (and `*_not_shadowed` for the other branch).
    `strict = true` is the object as constructed; with `strict = false` the replacements of the constructor are ignored (every
    call runs the class-level `def`): used only to show that `swap_detected` does not rest on the guards. -/
def halfObj (strict : Bool) (h : Half) (m : CanMsg) (name : String) (args : List PV) : Except PErr PV :=
  match name with
  | "get_tx_extension_byte" =>
    (match args with | [] => if strict && h.rxOnly then notImplemented else .ok (optPV h.txExtByte) | _ => .error (.exc .TypeError))
  | "get_rx_extension_byte" =>
    (match args with | [] => if strict && h.txOnly then notImplemented else .ok (optPV h.rxExtByte) | _ => .error (.exc .TypeError))
  | "is_for_me" =>
    (match args with
     | [v] => if strict && h.txOnly then notImplemented else
        if v = msgHandle then .ok (pbool (h.isForMe m)) else .error (.unsupported "message")
     | _ => .error (.exc .TypeError))
  | "get_tx_arbitration_id" =>
    (match args with
     | [v] => if strict && h.rxOnly then notImplemented else withTat v (fun t => pint (h.txId t))
     | _ => .error (.exc .TypeError))
  | "get_rx_arbitration_id" =>
    (match args with
     | [v] => if strict && h.txOnly then notImplemented else withTat v (fun t => pint (h.rxId t))
     | _ => .error (.exc .TypeError))
  | "is_tx_29bits" =>
    (match args with | [] => if strict && h.rxOnly then notImplemented else .ok (pbool h.mode.is29) | _ => .error (.exc .TypeError))
  | "is_rx_29bits" =>
    (match args with | [] => if strict && h.txOnly then notImplemented else .ok (pbool h.mode.is29) | _ => .error (.exc .TypeError))
  | "requires_tx_extension_byte" =>
    (match args with | [] => if strict && h.rxOnly then notImplemented else .ok (pbool h.mode.hasPrefix) | _ => .error (.exc .TypeError))
  | "requires_rx_extension_byte" =>
    (match args with | [] => if strict && h.txOnly then notImplemented else .ok (pbool h.mode.hasPrefix) | _ => .error (.exc .TypeError))
  | "get_rx_prefix_size" =>
    (match args with | [] => if strict && h.txOnly then notImplemented else .ok (pint h.rxPrefixSize) | _ => .error (.exc .TypeError))
  | "get_tx_payload_prefix" =>
    (match args with | [] => if strict && h.rxOnly then notImplemented else .ok (.bytes h.txPrefix) | _ => .error (.exc .TypeError))
  | n => .error (.unsupported ("call " ++ n))

theorem halfObj_lookups (strict : Bool) (h : Half) (m : CanMsg) (v : PV) :
    halfObj strict h m "get_tx_extension_byte" [] = (if strict && h.rxOnly then notImplemented else .ok (optPV h.txExtByte)) ∧
    halfObj strict h m "get_rx_extension_byte" [] = (if strict && h.txOnly then notImplemented else .ok (optPV h.rxExtByte)) ∧
    halfObj strict h m "is_for_me" [v] = (if strict && h.txOnly then notImplemented else
        if v = msgHandle then .ok (pbool (h.isForMe m)) else .error (.unsupported "message")) ∧
    halfObj strict h m "get_tx_arbitration_id" [v] = (if strict && h.rxOnly then notImplemented else withTat v (fun t => pint (h.txId t))) ∧
    halfObj strict h m "get_rx_arbitration_id" [v] = (if strict && h.txOnly then notImplemented else withTat v (fun t => pint (h.rxId t))) ∧
    halfObj strict h m "is_tx_29bits" [] = (if strict && h.rxOnly then notImplemented else .ok (pbool h.mode.is29)) ∧
    halfObj strict h m "is_rx_29bits" [] = (if strict && h.txOnly then notImplemented else .ok (pbool h.mode.is29)) ∧
    halfObj strict h m "requires_tx_extension_byte" [] = (if strict && h.rxOnly then notImplemented else .ok (pbool h.mode.hasPrefix)) ∧
    halfObj strict h m "requires_rx_extension_byte" [] = (if strict && h.txOnly then notImplemented else .ok (pbool h.mode.hasPrefix)) ∧
    halfObj strict h m "get_rx_prefix_size" [] = (if strict && h.txOnly then notImplemented else .ok (pint h.rxPrefixSize)) ∧
    halfObj strict h m "get_tx_payload_prefix" [] = (if strict && h.rxOnly then notImplemented else .ok (.bytes h.txPrefix)) :=
  ⟨rfl, rfl, rfl, rfl, rfl, rfl, rfl, rfl, rfl, rfl, rfl⟩

/-- **The accessors of an asymmetric address are the model's fields of the right half.**
    `tx`, `rx`: two validated addresses (`mkAddress` accepted them) that `AsymmetricAddress.__init__` accepts (`mkAsym`; it is
    `AsymmetricAddress_init_agrees` that ties `mkAsym` to the constructor); `a` the model's `Addr`.  The environment is arbitrary
    but for the two parameters (`msg` bound to the handle of `m`, `address_type` to `t`). -/
theorem asym_accessors_model (strict : Bool) (atx arx : AddrArgs) (tx rx : Half) (a : Addr)
    (htx : mkAddress atx = .ok tx) (hrx : mkAddress arx = .ok rx) (hk : mkAsym tx rx = .ok a)
    (m : CanMsg) (t : Tat) (env : Env) (hmsg : env "msg" = some msgHandle) (hat : env "address_type" = some (tatPV t)) :
    let M := asymMeths (halfObj strict tx m) (halfObj strict rx m)
    retM M env Src.AsymmetricAddress_get_tx_extension_byte = .ok (optPV a.tx.txExtByte) ∧
    retM M env Src.AsymmetricAddress_get_rx_extension_byte = .ok (optPV a.rx.rxExtByte) ∧
    retM M env Src.AsymmetricAddress_is_for_me = .ok (pbool (a.rx.isForMe m)) ∧
    retM M env Src.AsymmetricAddress_get_tx_arbitration_id = .ok (pint (a.tx.txId t)) ∧
    retM M env Src.AsymmetricAddress_get_rx_arbitration_id = .ok (pint (a.rx.rxId t)) ∧
    retM M env Src.AsymmetricAddress_is_tx_29bits = .ok (pbool a.tx.mode.is29) ∧
    retM M env Src.AsymmetricAddress_is_rx_29bits = .ok (pbool a.rx.mode.is29) ∧
    retM M env Src.AsymmetricAddress_requires_tx_extension_byte = .ok (pbool a.tx.mode.hasPrefix) ∧
    retM M env Src.AsymmetricAddress_requires_rx_extension_byte = .ok (pbool a.rx.mode.hasPrefix) ∧
    retM M env Src.AsymmetricAddress_get_rx_prefix_size = .ok (pint a.rx.rxPrefixSize) ∧
    retM M env Src.AsymmetricAddress_get_tx_payload_prefix = .ok (.bytes a.tx.txPrefix) ∧
    retM M env Src.AsymmetricAddress_is_partial_address = .ok (pbool false) := by
  intro M
  -- what `mkAsym` and `validate` say of the two halves
  have hto : tx.txOnly = true := by
    unfold mkAsym at hk; cases h1 : tx.txOnly <;> simp [h1] at hk ⊢
  have hro : rx.rxOnly = true := by
    unfold mkAsym at hk; cases h1 : rx.rxOnly <;> simp [hto, h1] at hk ⊢
  have ha : a = { tx := tx, rx := rx } := by
    unfold mkAsym at hk; simp [hto, hro] at hk; exact hk.symm
  have htr : tx.rxOnly = false := by
    cases h1 : tx.rxOnly
    · rfl
    · exact absurd ⟨h1, hto⟩ (mkAddress_not_both htx)
  have hrt : rx.txOnly = false := by
    cases h1 : rx.txOnly
    · rfl
    · exact absurd ⟨hro, h1⟩ (mkAddress_not_both hrx)
  subst ha
  obtain ⟨l1, _, _, l4, _, l6, _, l8, _, _, l11⟩ := halfObj_lookups strict tx m (tatPV t)
  obtain ⟨_, r2, _, _, r5, _, r7, _, r9, r10, _⟩ := halfObj_lookups strict rx m (tatPV t)
  obtain ⟨_, _, r3, _⟩ := halfObj_lookups strict rx m msgHandle
  refine ⟨?_, ?_, ?_, ?_, ?_, ?_, ?_, ?_, ?_, ?_, ?_, ?_⟩
  · rw [asym_get_tx_extension_byte_delegates, l1]; simp [htr]
  · rw [asym_get_rx_extension_byte_delegates, r2]; simp [hrt]
  · rw [asym_is_for_me_delegates _ _ _ _ hmsg, r3]; simp [hrt]
  · rw [asym_get_tx_arbitration_id_delegates _ _ _ _ hat, l4]; simp [htr, withTat_tatPV]
  · rw [asym_get_rx_arbitration_id_delegates _ _ _ _ hat, r5]; simp [hrt, withTat_tatPV]
  · rw [asym_is_tx_29bits_delegates, l6]; simp [htr]
  · rw [asym_is_rx_29bits_delegates, r7]; simp [hrt]
  · rw [asym_requires_tx_extension_byte_delegates, l8]; simp [htr]
  · rw [asym_requires_rx_extension_byte_delegates, r9]; simp [hrt]
  · rw [asym_get_rx_prefix_size_delegates, r10]; simp [hrt]
  · rw [asym_get_tx_payload_prefix_delegates, l11]; simp [htr]
  · rfl

/-! ## 4. Non-vacuity of the tx / rx distinction -/

/-- transmit half: `Normal_11bits`, `tx_only` -/
def txW : AddrArgs := { mode := some .n11, txid := .int 0x123, txOnly := true }
/-- receive half: `Extended_29bits`, `rx_only` -/
def rxW : AddrArgs := { mode := some .e29, rxid := .int 0x18DA0001, ta := .int 0x66, sa := .int 0x55, rxOnly := true }
def txH : Half :=
  { mode := .n11, txid := some 0x123, rxid := none, ta := none, sa := none, ae := none, physId := 0, funcId := 0,
    rxOnly := false, txOnly := true }
def rxH : Half :=
  { mode := .e29, txid := none, rxid := some 0x18DA0001, ta := some 0x66, sa := some 0x55, ae := none, physId := 0, funcId := 0,
    rxOnly := true, txOnly := false }
/-- a frame for the receive half -/
def msgW : CanMsg := { id := 0x18DA0001, ext := true, data := [0x55] }

/-- the source: the twelve bodies with the model's answer -/
def delegations (a : Addr) (m : CanMsg) (t : Tat) : List (PBlock × Except PErr PV) :=
  [(Src.AsymmetricAddress_get_tx_extension_byte, .ok (optPV a.tx.txExtByte)),
   (Src.AsymmetricAddress_get_rx_extension_byte, .ok (optPV a.rx.rxExtByte)),
   (Src.AsymmetricAddress_is_for_me, .ok (pbool (a.rx.isForMe m))),
   (Src.AsymmetricAddress_get_tx_arbitration_id, .ok (pint (a.tx.txId t))),
   (Src.AsymmetricAddress_get_rx_arbitration_id, .ok (pint (a.rx.rxId t))),
   (Src.AsymmetricAddress_is_tx_29bits, .ok (pbool a.tx.mode.is29)),
   (Src.AsymmetricAddress_is_rx_29bits, .ok (pbool a.rx.mode.is29)),
   (Src.AsymmetricAddress_requires_tx_extension_byte, .ok (pbool a.tx.mode.hasPrefix)),
   (Src.AsymmetricAddress_requires_rx_extension_byte, .ok (pbool a.rx.mode.hasPrefix)),
   (Src.AsymmetricAddress_get_rx_prefix_size, .ok (pint a.rx.rxPrefixSize)),
   (Src.AsymmetricAddress_get_tx_payload_prefix, .ok (.bytes a.tx.txPrefix)),
   (Src.AsymmetricAddress_is_partial_address, .ok (pbool false))]

/-- mutants: the eleven delegations, each REDIRECTED TO THE OTHER OBJECT (`tx_addr` <-> `rx_addr`, same method, same argument),
    with the model's answer (the one the unmutated source gives) -/
def swapped (a : Addr) (m : CanMsg) (t : Tat) : List (PBlock × Except PErr PV) :=
  [(.cons (.ret (.call "self.rx_addr.get_tx_extension_byte" .nil)) .nil, .ok (optPV a.tx.txExtByte)),
   (.cons (.ret (.call "self.tx_addr.get_rx_extension_byte" .nil)) .nil, .ok (optPV a.rx.rxExtByte)),
   (.cons (.ret (.call "self.tx_addr.is_for_me" (.cons (.var "msg") .nil))) .nil, .ok (pbool (a.rx.isForMe m))),
   (.cons (.ret (.call "self.rx_addr.get_tx_arbitration_id" (.cons (.var "address_type") .nil))) .nil, .ok (pint (a.tx.txId t))),
   (.cons (.ret (.call "self.tx_addr.get_rx_arbitration_id" (.cons (.var "address_type") .nil))) .nil, .ok (pint (a.rx.rxId t))),
   (.cons (.ret (.call "self.rx_addr.is_tx_29bits" .nil)) .nil, .ok (pbool a.tx.mode.is29)),
   (.cons (.ret (.call "self.tx_addr.is_rx_29bits" .nil)) .nil, .ok (pbool a.rx.mode.is29)),
   (.cons (.ret (.call "self.rx_addr.requires_tx_extension_byte" .nil)) .nil, .ok (pbool a.tx.mode.hasPrefix)),
   (.cons (.ret (.call "self.tx_addr.requires_rx_extension_byte" .nil)) .nil, .ok (pbool a.rx.mode.hasPrefix)),
   (.cons (.ret (.call "self.tx_addr.get_rx_prefix_size" .nil)) .nil, .ok (pint a.rx.rxPrefixSize)),
   (.cons (.ret (.call "self.rx_addr.get_tx_payload_prefix" .nil)) .nil, .ok (.bytes a.tx.txPrefix))]

/-- `asym_accessors_model`, as a table -/
theorem delegations_model (strict : Bool) (atx arx : AddrArgs) (tx rx : Half) (a : Addr)
    (htx : mkAddress atx = .ok tx) (hrx : mkAddress arx = .ok rx) (hk : mkAsym tx rx = .ok a)
    (m : CanMsg) (t : Tat) (env : Env) (hmsg : env "msg" = some msgHandle) (hat : env "address_type" = some (tatPV t)) :
    ∀ p ∈ delegations a m t, retM (asymMeths (halfObj strict tx m) (halfObj strict rx m)) env p.1 = p.2 := by
  obtain ⟨h1, h2, h3, h4, h5, h6, h7, h8, h9, h10, h11, h12⟩ :=
    asym_accessors_model strict atx arx tx rx a htx hrx hk m t env hmsg hat
  simp only [delegations, List.mem_cons, List.not_mem_nil, or_false]
  rintro p (rfl | rfl | rfl | rfl | rfl | rfl | rfl | rfl | rfl | rfl | rfl | rfl) <;> assumption

/-- **Non-vacuity of the distinction.**  The asymmetric address with an 11-bit transmit half (`Normal_11bits`, txid 0x123) and a
    29-bit receive half (`Extended_29bits`, rxid 0x18DA0001, source address 0x55): the two halves differ in EVERY field an accessor
    returns; the source gives the model's answer for each accessor; and each of the eleven delegations redirected to the other
    object MISSES it - whether the other object raises `NotImplementedError` (as constructed, `strict = true`) or answers with
    its class-level body (`strict = false`).  A delegation to the wrong half would therefore falsify `asym_accessors_model`. -/
theorem swap_detected :
    mkAddress txW = .ok txH ∧ mkAddress rxW = .ok rxH ∧ mkAsym txH rxH = .ok { tx := txH, rx := rxH } ∧
    txH.mode.is29 = false ∧ rxH.mode.is29 = true ∧
    txH.mode.hasPrefix ≠ rxH.mode.hasPrefix ∧ txH.rxPrefixSize ≠ rxH.rxPrefixSize ∧ txH.txPrefix ≠ rxH.txPrefix ∧
    txH.txExtByte ≠ rxH.txExtByte ∧ txH.rxExtByte ≠ rxH.rxExtByte ∧
    (∀ t, txH.txId t ≠ rxH.txId t) ∧ (∀ t, txH.rxId t ≠ rxH.rxId t) ∧ txH.isForMe msgW ≠ rxH.isForMe msgW ∧
    ∀ (strict : Bool) (t : Tat) (env : Env), env "msg" = some msgHandle → env "address_type" = some (tatPV t) →
      (∀ p ∈ delegations { tx := txH, rx := rxH } msgW t,
        retM (asymMeths (halfObj strict txH msgW) (halfObj strict rxH msgW)) env p.1 = p.2) ∧
      (∀ p ∈ swapped { tx := txH, rx := rxH } msgW t,
        retM (asymMeths (halfObj strict txH msgW) (halfObj strict rxH msgW)) env p.1 ≠ p.2) := by
  have k1 : mkAddress txW = .ok txH := rfl
  have k2 : mkAddress rxW = .ok rxH := rfl
  have k3 : mkAsym txH rxH = .ok { tx := txH, rx := rxH } := rfl
  refine ⟨k1, k2, k3, by decide, by decide, by decide, by decide, by decide, by decide, by decide,
    by intro t; cases t <;> decide, by intro t; cases t <;> decide, by decide, ?_⟩
  intro strict t env hmsg hat
  refine ⟨delegations_model strict txW rxW txH rxH _ k1 k2 k3 msgW t env hmsg hat, ?_⟩
  obtain ⟨_, l2, _, _, l5, _, l7, _, l9, l10, _⟩ := halfObj_lookups strict txH msgW (tatPV t)
  obtain ⟨_, _, l3, _⟩ := halfObj_lookups strict txH msgW msgHandle
  obtain ⟨r1, _, _, r4, _, r6, _, r8, _, _, r11⟩ := halfObj_lookups strict rxH msgW (tatPV t)
  simp only [swapped, List.mem_cons, List.not_mem_nil, or_false]
  rintro p (rfl | rfl | rfl | rfl | rfl | rfl | rfl | rfl | rfl | rfl | rfl)
  · rw [ret_call0 _ env "self.rx_addr.get_tx_extension_byte" (by decide)]
    show halfObj strict rxH msgW "get_tx_extension_byte" [] ≠ _
    rw [r1]; cases strict <;> simp [notImplemented, rxH, txH, Half.txExtByte, optPV]
  · rw [ret_call0 _ env "self.tx_addr.get_rx_extension_byte" (by decide)]
    show halfObj strict txH msgW "get_rx_extension_byte" [] ≠ _
    rw [l2]; cases strict <;> simp [notImplemented, rxH, txH, Half.rxExtByte, optPV]
  · rw [ret_call1 _ env "self.tx_addr.is_for_me" "msg" _ (by decide) hmsg]
    show halfObj strict txH msgW "is_for_me" [msgHandle] ≠ _
    rw [l3]; cases strict <;> simp [notImplemented, rxH, txH, msgW, Half.isForMe, Mode.is29, byteAt]
  · rw [ret_call1 _ env "self.rx_addr.get_tx_arbitration_id" "address_type" _ (by decide) hat]
    show halfObj strict rxH msgW "get_tx_arbitration_id" [tatPV t] ≠ _
    rw [r4]; cases strict <;> cases t <;> simp [notImplemented, withTat_tatPV, rxH, txH, Half.txId]
  · rw [ret_call1 _ env "self.tx_addr.get_rx_arbitration_id" "address_type" _ (by decide) hat]
    show halfObj strict txH msgW "get_rx_arbitration_id" [tatPV t] ≠ _
    rw [l5]; cases strict <;> cases t <;> simp [notImplemented, withTat_tatPV, rxH, txH, Half.rxId]
  · rw [ret_call0 _ env "self.rx_addr.is_tx_29bits" (by decide)]
    show halfObj strict rxH msgW "is_tx_29bits" [] ≠ _
    rw [r6]; cases strict <;> simp [notImplemented, rxH, txH, Mode.is29]
  · rw [ret_call0 _ env "self.tx_addr.is_rx_29bits" (by decide)]
    show halfObj strict txH msgW "is_rx_29bits" [] ≠ _
    rw [l7]; cases strict <;> simp [notImplemented, rxH, txH, Mode.is29]
  · rw [ret_call0 _ env "self.rx_addr.requires_tx_extension_byte" (by decide)]
    show halfObj strict rxH msgW "requires_tx_extension_byte" [] ≠ _
    rw [r8]; cases strict <;> simp [notImplemented, rxH, txH, Mode.hasPrefix]
  · rw [ret_call0 _ env "self.tx_addr.requires_rx_extension_byte" (by decide)]
    show halfObj strict txH msgW "requires_rx_extension_byte" [] ≠ _
    rw [l9]; cases strict <;> simp [notImplemented, rxH, txH, Mode.hasPrefix]
  · rw [ret_call0 _ env "self.tx_addr.get_rx_prefix_size" (by decide)]
    show halfObj strict txH msgW "get_rx_prefix_size" [] ≠ _
    rw [l10]; cases strict <;> simp [notImplemented, rxH, txH, Half.rxPrefixSize, Mode.hasPrefix]
  · rw [ret_call0 _ env "self.rx_addr.get_tx_payload_prefix" (by decide)]
    show halfObj strict rxH msgW "get_tx_payload_prefix" [] ≠ _
    rw [r11]; cases strict <;> simp [notImplemented, rxH, txH, Half.txPrefix]

end Isotp.PyAgree.Acc
