"""
Reference functions written from ISO-15765-2 as cited by properties.jsonl and from doc/source/isotp/*.rst,
independently of isotp/protocol.py and isotp/address.py. Used by the judges only.
"""

LEGAL_FD = [12, 16, 20, 24, 32, 48, 64]
TXDLS = [8] + LEGAL_FD
ISO_ERRORS = {
    'FlowControlTimeoutError', 'ConsecutiveFrameTimeoutError', 'InvalidCanDataError', 'UnexpectedFlowControlError',
    'UnexpectedConsecutiveFrameError', 'ReceptionInterruptedWithSingleFrameError', 'ReceptionInterruptedWithFirstFrameError',
    'WrongSequenceNumberError', 'UnsupportedWaitFrameError', 'MaximumWaitFrameReachedError', 'FrameTooLongError',
    'ChangingInvalidRXDLError', 'MissingEscapeSequenceError', 'InvalidCanFdFirstFrameRXDL', 'OverflowError', 'BadGeneratorError'}
TIMEOUT_ERRORS = {'FlowControlTimeoutError', 'ConsecutiveFrameTimeoutError'}


def legal_len(n):
    return n <= 8 or n in LEGAL_FD


def next_legal(n):
    if n <= 8:
        return n
    for k in LEGAL_FD:
        if n <= k:
            return k
    raise ValueError(n)


# ---------------------------------------------------------------- addressing (addressing.rst)

MODE_29 = {1, 2, 4, 6}
MODE_PREFIX = {3, 4, 5, 6}


def half(addr, side):
    return addr[side] if addr.get('asym') else addr


def phys_func_base(h):
    m = h['mode']
    p, f = (0x18DA0000, 0x18DB0000) if m == 2 else (0x18CE0000, 0x18CD0000)
    if h.get('physical_id') is not None:
        p = h['physical_id'] & 0x1FFF0000
    if h.get('functional_id') is not None:
        f = h['functional_id'] & 0x1FFF0000
    return p, f


def reception_condition(h, mid, ext, data):
    """documented condition for the rx half `h` to accept a message"""
    m = h['mode']
    if ext != (m in MODE_29):
        return False
    if m in (0, 1):
        return mid == h['rxid']
    if m in (3, 4):
        return mid == h['rxid'] and len(data) > 0 and data[0] == h['source_address']
    if m == 5:
        return mid == h['rxid'] and len(data) > 0 and data[0] == h['address_extension']
    p, f = phys_func_base(h)
    ok = (mid & 0x1FFF0000) in (p, f) and ((mid >> 8) & 0xFF) == h['source_address'] and (mid & 0xFF) == h['target_address']
    if m == 6:
        ok = ok and len(data) > 0 and data[0] == h['address_extension']
    return ok


def emitted_id(h, functional=False):
    m = h['mode']
    if m in (2, 6):
        p, f = phys_func_base(h)
        return (f if functional else p) | (h['target_address'] << 8) | h['source_address']
    return h['txid']


def tx_prefix(h):
    m = h['mode']
    if m in (3, 4):
        return bytes([h['target_address']])
    if m in (5, 6):
        return bytes([h['address_extension']])
    return b''


def rx_prefix_len(h):
    return 1 if h['mode'] in MODE_PREFIX else 0


REQUIRED = {  # mode -> (full, tx_only, rx_only)
    0: (('rxid', 'txid'), ('txid',), ('rxid',)),
    1: (('rxid', 'txid'), ('txid',), ('rxid',)),
    2: (('source_address', 'target_address'),) * 3,
    3: (('txid', 'target_address', 'rxid', 'source_address'), ('txid', 'target_address'), ('rxid', 'source_address')),
    4: (('txid', 'target_address', 'rxid', 'source_address'), ('txid', 'target_address'), ('rxid', 'source_address')),
    5: (('rxid', 'txid', 'address_extension'), ('txid', 'address_extension'), ('rxid', 'address_extension')),
    6: (('source_address', 'target_address', 'address_extension'),) * 3,
}


def _is_int(v):
    return isinstance(v, int)


def doc_address_verdict(a):
    """'accept' / 'reject' / 'either' from the documentation (required-parameter table, value ranges)"""
    m = a.get('mode')
    if not (isinstance(m, int) and not isinstance(m, bool) and 0 <= m <= 6):
        return 'reject'
    rx_only, tx_only = bool(a.get('rx_only')), bool(a.get('tx_only'))
    if rx_only and tx_only:
        return 'reject'
    req = REQUIRED[m][1 if tx_only else 2 if rx_only else 0]
    verdict = 'accept'
    for k in ('txid', 'rxid', 'target_address', 'source_address', 'address_extension'):
        v = a.get(k)
        needed = k in req
        if v is None:
            if needed:
                return 'reject'
            continue
        good = _is_int(v) and v >= 0 and ((v <= 0xFF) if k not in ('txid', 'rxid') else (m in MODE_29 or v <= 0x7FF))
        if not good:
            if needed:
                return 'reject'
            verdict = 'either'      # an unused parameter with a bad value: documentation silent
    if m in (0, 1, 3, 4, 5) and a.get('txid') is not None and a.get('rxid') is not None:
        try:
            if a['txid'] == a['rxid']:
                verdict = 'either' if verdict != 'reject' else verdict   # code refuses equal ids; docs silent
        except Exception:
            pass
    return verdict


# ---------------------------------------------------------------- segmentation (C02 statement, padding rule of implementation.rst)

def pad_frame(d, txdl, minlen, padding):
    n = len(d)
    padbyte = 0xCC if padding is None else padding
    if txdl == 8:
        if minlen is None:
            target = 8 if padding is not None else n
        else:
            target = minlen
    else:
        target = next_legal(n)
        if minlen is not None:
            target = max(target, minlen)
    if n < target:
        d = d + bytes([padbyte]) * (target - n)
    return d


def segment(payload, txdl=8, minlen=None, padding=None, prefix=b''):
    """reference ISO-15765-2 segmentation -> list of CAN data fields"""
    n = len(payload)
    pre = len(prefix)
    assert n >= 1
    # single frame? short form only if the whole (padded) frame is at most 8 bytes, escape form otherwise
    if n <= 7 - pre:
        fr = pad_frame(prefix + bytes([n]) + payload, txdl, minlen, padding)
        if len(fr) <= 8:
            return [fr]
    if txdl > 8 and pre + 2 + n <= txdl:
        return [pad_frame(prefix + bytes([0, n]) + payload, txdl, minlen, padding)]
    frames = []
    if n <= 4095:
        k = txdl - 2 - pre
        frames.append(prefix + bytes([0x10 | (n >> 8), n & 0xFF]) + payload[:k])
    else:
        k = txdl - 6 - pre
        frames.append(prefix + bytes([0x10, 0, (n >> 24) & 0xFF, (n >> 16) & 0xFF, (n >> 8) & 0xFF, n & 0xFF]) + payload[:k])
    c = txdl - 1 - pre
    sn = 1
    pos = k
    while pos < n:
        chunk = payload[pos:pos + c]
        frames.append(pad_frame(prefix + bytes([0x20 | sn]) + chunk, txdl, minlen, padding))
        sn = (sn + 1) & 0xF
        pos += c
    return frames


def dlc_of(n):
    if n <= 8:
        return n
    return 9 + LEGAL_FD.index(n)


# ---------------------------------------------------------------- PCI reader for judges

def classify(body):
    """body = data after the address prefix. -> ('sf', len, data, esc) | ('ff', len, data) | ('cf', sn, data) | ('fc', fs, bs, st) | ('bad',)"""
    n = len(body)
    if n == 0:
        return ('bad',)
    t = body[0] >> 4
    if t == 0:
        l = body[0] & 0xF
        if l != 0:
            if l > n - 1:
                return ('bad',)
            return ('sf', l, bytes(body[1:1 + l]), False)
        if n < 2 or body[1] == 0 or body[1] > n - 2:
            return ('bad',)
        return ('sf', body[1], bytes(body[2:2 + body[1]]), True)
    if t == 1:
        if n < 2:
            return ('bad',)
        l = ((body[0] & 0xF) << 8) | body[1]
        if l != 0:
            return ('ff', l, bytes(body[2:2 + l]))
        if n < 6:
            return ('bad',)
        l = int.from_bytes(body[2:6], 'big')
        return ('ff', l, bytes(body[6:6 + l]))
    if t == 2:
        return ('cf', body[0] & 0xF, bytes(body[1:]))
    if t == 3:
        if n < 3 or (body[0] & 0xF) > 2:
            return ('bad',)
        st = body[2]
        if not (st <= 0x7F or 0xF1 <= st <= 0xF9):
            return ('bad',)
        return ('fc', body[0] & 0xF, body[1], st)
    return ('bad',)


def stmin_ns(b):
    if b <= 0x7F:
        return b * 1000000
    if 0xF1 <= b <= 0xF9:
        return (b - 0xF0) * 100000
    return None


# ---------------------------------------------------------------- foreign well-formed streams (C03)

def foreign_stream(payload, txdl, prefix=b'', last='min', pad_byte=0x55):
    """any conforming sender: TX_DL, last frame minimal / padded to 8 / next FD size / full"""
    n = len(payload)
    pre = len(prefix)

    def fin(fr):
        m = len(fr)
        if last == 'min':
            t = next_legal(m)
        elif last == 'pad8':
            t = max(8, next_legal(m))
        elif last == 'full':
            t = txdl
        else:
            t = next_legal(m)
        t = min(max(t, m), txdl)
        return fr + bytes([pad_byte]) * (t - m)
    if n <= 7 - pre:
        fr = prefix + bytes([n]) + payload
        if last in ('pad8', 'full'):
            fr = fr + bytes([pad_byte]) * (8 - len(fr))
        return [fr]
    if txdl > 8 and pre + 2 + n <= txdl:
        fr = prefix + bytes([0, n]) + payload
        t = txdl if last == 'full' else next_legal(len(fr))
        return [fr + bytes([pad_byte]) * (t - len(fr))]
    if n <= 4095:
        k = txdl - 2 - pre
        frames = [prefix + bytes([0x10 | (n >> 8), n & 0xFF]) + payload[:k]]
    else:
        k = txdl - 6 - pre
        frames = [prefix + bytes([0x10, 0]) + n.to_bytes(4, 'big') + payload[:k]]
    if n <= k:
        return None     # not segmentable with this TX_DL (would be a single frame)
    c = txdl - 1 - pre
    sn, pos = 1, k
    while pos < n:
        chunk = payload[pos:pos + c]
        fr = prefix + bytes([0x20 | sn]) + chunk
        pos += c
        if pos >= n:
            fr = fin(fr)
        frames.append(fr)
        sn = (sn + 1) & 0xF
    return frames
