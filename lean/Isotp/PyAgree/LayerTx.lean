import Isotp.PyAgree.EvalLemmas
import Isotp.PyAgree.MiscLemmas
import Isotp.Layer
/-!
  Source agreement for `TransportLayerLogic._process_tx` (isotp/protocol.py), FOR ALL STATES, region by region.
-/
set_option linter.unusedSimpArgs false

namespace Isotp.PyAgree.Tx
open Isotp Isotp.Py Isotp.PyAgree

/-! ## 0. Infrastructure -/

theorem set_get (env : Env) (k : String) (v : PV) (k' : String) :
    (env.set k v) k' = if k' = k then some v else env k' := rfl

@[simp] theorem except_pure {ε α : Type} (a : α) : (pure a : Except ε α) = .ok a := rfl

/-- the names the interpreter treats as builtins; every other call goes to `Meths` -/
def builtinNames : List String :=
  ["len", "int", "bool", "min", "max", "bytes", "isinstance_int", "isinstance_bool", "isinstance_float", "isinstance_int_float"]

theorem evalBuiltin_none (fn : String) (args : List PV) (h : fn ∉ builtinNames) : evalBuiltin fn args = none := by
  simp only [builtinNames, List.mem_cons, List.not_mem_nil, or_false, not_or] at h
  unfold evalBuiltin; split <;> simp_all

/-! ### values -/

def txStName : TxSt → String
  | .idle => "IDLE" | .waitFc => "WAIT_FC" | .transmitCf => "TRANSMIT_CF"
  | .sfStandby => "TRANSMIT_SF_STANDBY" | .ffStandby => "TRANSMIT_FF_STANDBY"

def txStPV (t : TxSt) : PV := .sc (.enum "TxState" (txStName t))

theorem pvEq_txSt (a b : TxSt) : pvEq (txStPV a) (txStPV b) = decide (a = b) := by
  cases a <;> cases b <;> rfl

/-- a `CanMessage` object as a value: an injective encoding by the list of its fields -/
def msgScs (m : CanMsg) : List Sc :=
  [.py (.int m.id), .py (.bool m.ext), .py (.int m.dlc), .py (.bool m.fd), .py (.bool m.brs)] ++
    m.data.map (fun b => Sc.py (.int b.toNat))
def msgPV (m : CanMsg) : PV := .list (msgScs m)
def optMsgPV : Option CanMsg → PV
  | none => pnone
  | some m => msgPV m

@[simp] theorem msgPV_bne (m : CanMsg) : (msgPV m != pnone) = true := by simp [msgPV, pnone]
@[simp] theorem msgPV_beq (m : CanMsg) : (msgPV m == pnone) = false := by simp [msgPV, pnone]

/-- a decoded Flow Control PDU (the mailbox `last_flow_control_frame`) as a value -/
def fcPV (f : FcFrame) : PV := .list [.py (.int f.status), .py (.int f.bs), .py (.int f.stmin)]
def optFcPV : Option FcFrame → PV
  | none => pnone
  | some f => fcPV f
@[simp] theorem fcPV_bne (f : FcFrame) : (fcPV f != pnone) = true := by simp [fcPV, pnone]

/-- `None` or an opaque object -/
def objPV (name : String) (present : Bool) : PV := if present then .meth name else pnone

/-- a float number of seconds, represented by the exact rational `ns / 10^9` where `ns` is the integer number of nanoseconds the
    harness hands to the model (DESIGN 3.1: the float conversion itself is outside the subset) -/
def nsPV : Option Nat → PV
  | none => pnone
  | some n => .sc (.py (.float n 1000000000))

/-- the rate limiter's state as a value (injective) -/
def rlPV (l : Limiter) : PV :=
  .list (.py (.bool l.enabled) :: .py (.int l.bitTotal) :: l.slots.flatMap (fun p => [Sc.py (.int p.1), Sc.py (.int p.2)]))

def errCode : Err → Nat
  | .BadGenerator => 0 | .FlowControlTimeout => 1 | .ConsecutiveFrameTimeout => 2 | .InvalidCanData => 3
  | .UnexpectedFlowControl => 4 | .UnexpectedConsecutiveFrame => 5 | .InterruptedWithSingleFrame => 6
  | .InterruptedWithFirstFrame => 7 | .WrongSequenceNumber => 8 | .UnsupportedWaitFrame => 9
  | .MaximumWaitFrameReached => 10 | .FrameTooLong => 11 | .ChangingInvalidRXDL => 12 | .MissingEscapeSequence => 13
  | .InvalidCanFdFirstFrameRXDL => 14 | .Overflow => 15

/-- one observable event, as scalars: `error_handler(err)` at time `t`, `SendRequest.complete(ok)`, a pull of `n` values from the
    generator of request `id` (the other events are never produced by `_process_tx`) -/
def encEv : Ev → List Sc
  | .err t e => [.py (.int 0), .py (.int t), .py (.int (errCode e))]
  | .done id ok => [.py (.int 1), .py (.int id), .py (.bool ok)]
  | .pull id n => [.py (.int 2), .py (.int id), .py (.int n)]
  | _ => []

/-- the history, oldest first (the model's log is newest first) -/
def histOf : List Ev → List Sc
  | [] => []
  | e :: l => histOf l ++ encEv e

/-- `ProcessTxReport(msg=m, immediate_rx_required=b)` as a value: `b` followed by the fields of the message, if any -/
def reportPV (out : Option CanMsg) (imm : Bool) : PV :=
  .list (.py (.bool imm) :: (match out with | none => [] | some m => msgScs m))

def reportP (m : PV) (b : Bool) : Except PErr PV :=
  match m with
  | .sc (.py .none) => .ok (.list [.py (.bool b)])
  | .list xs => .ok (.list (.py (.bool b) :: xs))
  | _ => .error (.unsupported "ProcessTxReport of a non-message")

theorem reportP_opt (out : Option CanMsg) (b : Bool) : reportP (optMsgPV out) b = .ok (reportPV out b) := by
  cases out <;> rfl

/-! ### the primitives -/

/-- `Timer.is_timed_out()` on a timer whose two attributes are given (`timer_is_timed_out_linked` in MiscTimer.lean ties this
    to the source of `Timer`) -/
def timedOutP (now : Nat) (st to : Option PV) : Except PErr PV :=
  match st, to with
  | some (.sc (.py .none)), some (.sc (.py (.int _))) => .ok (pbool false)
  | some (.sc (.py (.int a))), some (.sc (.py (.int t))) => .ok (pbool (decide (t < (now : Int) - a) || t == 0))
  | _, _ => .error (.exc .AttributeError)

theorem timedOutP_timer (t : Timer) (now : Nat) :
    timedOutP now (some (optPV t.start)) (some (pint t.timeout)) = .ok (pbool (t.timedOut now)) := by
  cases hs : t.start with
  | none => simp [timedOutP, optPV, Timer.timedOut, hs]
  | some a =>
    have e : ((t.timeout : Int) < (now : Int) - (a : Int)) ↔ t.timeout < now - a := by omega
    simp [timedOutP, optPV, Timer.timedOut, hs, e, cast_beq_zero]

def genRemaining (env : Env) : Except PErr PV :=
  match env "self.active_send_request.generator._size", env "self.active_send_request.generator._consumed" with
  | some (.sc (.py (.int a))), some (.sc (.py (.int c))) => .ok (pint (a - c))
  | _, _ => .error (.exc .AttributeError)

def genDepleted (env : Env) : Except PErr PV :=
  match env "self.active_send_request.generator._size", env "self.active_send_request.generator._consumed",
    env "self.active_send_request.generator._depleted" with
  | some (.sc (.py (.int a))), some (.sc (.py (.int c))), some (.sc (.py (.bool d))) => .ok (pbool (decide (a - c ≤ 0) || d))
  | _, _, _ => .error (.exc .AttributeError)

def genTotal (env : Env) : Except PErr PV :=
  match env "self.active_send_request.generator._size" with
  | some (.sc (.py (.int a))) => .ok (pint a)
  | _ => .error (.exc .AttributeError)

def txFn (c : Cfg) (a : Addr) (now : Nat) (rl : Limiter) (name : String) (args : List PV) (env : Env) : Except PErr PV :=
  match name, args with
  | "self.rate_limiter.allowed_bytes", [] => .ok (pint (rl.allowedBytes c.rlBitMax))
  | "self.timer_rx_fc.is_timed_out", [] => timedOutP now (env "self.timer_rx_fc.start_time") (env "self.timer_rx_fc.timeout")
  | "self.timer_tx_stmin.is_timed_out", [] =>
    timedOutP now (env "self.timer_tx_stmin.start_time") (env "self.timer_tx_stmin.timeout")
  | "self.active_send_request.generator.remaining_size", [] => genRemaining env
  | "self.active_send_request.generator.depleted", [] => genDepleted env
  | "self.active_send_request.generator.total_length", [] => genTotal env
  | "self.address.get_tx_payload_prefix", [] => .ok (.bytes a.tx.txPrefix)
  | "self.address.get_tx_arbitration_id", [] => .ok (pint (a.tx.txId .physical))
  | "self.address.get_tx_arbitration_id", [v] =>
    if v = tatPV .physical then .ok (pint (a.tx.txId .physical))
    else if v = tatPV .functional then .ok (pint (a.tx.txId .functional))
    else .error (.unsupported "address type")
  | "bytearray", [.list xs] => (bytesOfScs xs).map .bytes
  | "self._make_tx_msg", [.sc (.py (.int i)), .bytes d] =>
    (match makeTxMsg c a i.toNat d with
     | some m => .ok (msgPV m)
     | none => .error (.exc .ValueError))
  | "self._make_flow_control#flow_status", [.sc (.py (.int st))] =>
    (match makeFlowControl c a st.toNat with
     | some m => .ok (msgPV m)
     | none => .error (.exc .ValueError))
  | "isotp.errors.OverflowError", [_] => .ok (pint (errCode .Overflow))
  | "isotp.errors.UnexpectedFlowControlError", [_] => .ok (pint (errCode .UnexpectedFlowControl))
  | "isotp.errors.UnsupportedWaitFrameError", [_] => .ok (pint (errCode .UnsupportedWaitFrame))
  | "isotp.errors.MaximumWaitFrameReachedError", [_] => .ok (pint (errCode .MaximumWaitFrameReached))
  | "isotp.errors.FlowControlTimeoutError", [_] => .ok (pint (errCode .FlowControlTimeout))
  | "isotp.errors.BadGeneratorError", [_] => .ok (pint (errCode .BadGenerator))
  | "__format__", _ => .ok (.str "")
  | "self.ProcessTxReport#msg#immediate_rx_required", [m, .sc (.py (.bool b))] => reportP m b
  | n, _ => .error (.unsupported ("call " ++ n))

/-- what `_stop_sending` writes besides completing the request -/
def stopCore (env : Env) : Env :=
  (((((((((env.set "self.tx_state" (txStPV .idle)).set "self.tx_frame_length" (pint 0)).set
    "self.timer_rx_fc.start_time" pnone).set "self.timer_tx_stmin.start_time" pnone).set "self.remote_blocksize" pnone).set
    "self.tx_block_counter" (pint 0)).set "self.tx_seqnum" (pint 0)).set "self.wft_counter" (pint 0)).set
    "self.tx_standby_msg" pnone)

/-- `_stop_sending(success)` (HELPER: its own source is tied to `State.stopSending` in LayerTxHelpers.lean) -/
def stopP (ok : Bool) (env : Env) : Except PErr Env :=
  match env "self.active_send_request" with
  | some (.sc (.py .none)) => .ok (stopCore env)
  | some (.meth _) =>
    (match env "#req.id", env "#log" with
     | some (.sc (.py (.int id))), some (.list h) =>
       .ok (stopCore ((env.set "#log" (.list (h ++ [.py (.int 1), .py (.int id), .py (.bool ok)]))).set
         "self.active_send_request" pnone))
     | _, _ => .error (.exc .AttributeError))
  | _ => .error (.exc .AttributeError)

/-- `_trigger_error(err)`: the error handler sees `err` (at the time of the call) -/
def trigP (now : Nat) (code : Int) (env : Env) : Except PErr Env :=
  match env "#log" with
  | some (.list h) => .ok (env.set "#log" (.list (h ++ [.py (.int 0), .py (.int now), .py (.int code)])))
  | _ => .error (.exc .AttributeError)

/-- the request object and its generator, read back from the environment -/
def reqOf (env : Env) : Option Req :=
  match env "#req.id", env "self.active_send_request.generator._size", env "self.active_send_request.generator._consumed",
    env "self.active_send_request.generator._depleted", env "#gen.src", env "self.active_send_request.target_address_type",
    env "#req.instr" with
  | some (.sc (.py (.int id))), some (.sc (.py (.int sz))), some (.sc (.py (.int c))), some (.sc (.py (.bool d))),
      some (.bytes src), some tat, some (.sc (.py (.bool instr))) =>
    some { id := id.toNat, size := sz.toNat, src := src, consumed := c.toNat, depletedFlag := d,
           tat := if tat = tatPV .functional then .functional else .physical, instr := instr }
  | _, _, _, _, _, _, _ => none

/-- `payload = self.active_send_request.generator.consume(n, enforce_exact=exact)`: the model's `Req.consume` on the generator the
    environment holds; the pull is recorded in the history when the generator is instrumented (`State.consumeActive`).
    `BadGeneratorError` is not one of the interpreter's exceptions: it is the interpreter error `unsupported "raise BadGeneratorError"`.
    (`itertools.islice` with a negative count is a `ValueError`.) -/
def consumeP (n : Int) (exact : Bool) (env : Env) : Except PErr Env :=
  if n < 0 then .error (.exc .ValueError) else
  match reqOf env, env "#log" with
  | some r, some (.list h) =>
    (match (r.consume n.toNat exact).2 with
     | none => .error (.unsupported "raise BadGeneratorError")
     | some data =>
       let r' := (r.consume n.toNat exact).1
       let pulled := r'.consumed - r.consumed
       .ok (((((env.set "#log" (.list (h ++ (if r.instr && pulled > 0 then [.py (.int 2), .py (.int r.id), .py (.int pulled)] else [])))).set
         "self.active_send_request.generator._consumed" (pint r'.consumed)).set
         "self.active_send_request.generator._depleted" (pbool r'.depletedFlag)).set "#gen.src" (.bytes r'.src)).set
         "payload" (.bytes data)))
  | _, _ => .error (.exc .AttributeError)

def txProc (c : Cfg) (now : Nat) (rl : Limiter) (name : String) (args : List PV) (env : Env) : Except PErr Env :=
  match name, args with
  | "self.timer_rx_fc.stop", [] => .ok (env.set "self.timer_rx_fc.start_time" pnone)
  | "self.timer_tx_stmin.start", [] => .ok (env.set "self.timer_tx_stmin.start_time" (pint now))
  | "self.timer_tx_stmin.set_timeout", [.sc (.py (.float n d))] =>
    if 0 ≤ n ∧ d = 1000000000 then .ok (env.set "self.timer_tx_stmin.timeout" (pint n))
    else .error (.unsupported "set_timeout of a float that is not a nanosecond count")
  | "self._stop_sending#success", [.sc (.py (.bool ok))] => stopP ok env
  | "payload:=self.active_send_request.generator.consume#enforce_exact", [.sc (.py (.int n)), .sc (.py (.bool exact))] =>
    consumeP n exact env
  | "self._start_rx_fc_timer", [] =>
    .ok ((env.set "self.timer_rx_fc.start_time" (pint now)).set "self.timer_rx_fc.timeout" (pint c.tFc))
  | "self._start_rx_cf_timer", [] =>
    .ok ((env.set "self.timer_rx_cf.start_time" (pint now)).set "self.timer_rx_cf.timeout" (pint c.tCf))
  | "self._trigger_error", [.sc (.py (.int code))] => trigP now code env
  | "self.rate_limiter.inform_byte_sent", [.sc (.py (.int n))] => .ok (env.set "#rl" (rlPV (rl.inform now n.toNat)))
  | n, _ => .error (.unsupported ("call " ++ n))

def txMeths (c : Cfg) (a : Addr) (now : Nat) (rl : Limiter) : Meths where
  fn := txFn c a now rl
  proc := txProc c now rl

/-- the primitives in state `s` (only `cfg`, `addr`, `now`, `rl` are used: `_process_tx` changes none of them before its tail) -/
abbrev txM (s : State) : Meths := txMeths s.cfg s.addr s.now s.rl

/-! ### the object, as the interpreter sees it -/

def reqAttrs (r : Req) : List (String × PV) :=
  [("self.active_send_request.target_address_type", tatPV r.tat),
   ("self.active_send_request.generator._size", pint r.size),
   ("self.active_send_request.generator._consumed", pint r.consumed),
   ("self.active_send_request.generator._depleted", pbool r.depletedFlag),
   ("#gen.src", .bytes r.src),
   ("#req.id", pint r.id),
   ("#req.instr", pbool r.instr)]

def txAttrs (s : State) : List (String × PV) :=
  [("self.tx_state", txStPV s.txState),
   ("self.tx_frame_length", pint s.txFrameLen),
   ("self.tx_seqnum", pint s.txSeq),
   ("self.tx_block_counter", pint s.txBlockCnt),
   ("self.remote_blocksize", optPV s.remoteBs),
   ("self.wft_counter", pint s.wftCnt),
   ("self.pending_flow_control_tx", pbool s.pendingFc),
   ("self.params.listen_mode", pbool s.cfg.listen),
   ("self.params.wftmax", pint s.cfg.wftmax),
   ("self.params.override_receiver_stmin", nsPV s.cfg.overrideStminNs),
   ("self.params.tx_data_length", pint s.cfg.txDl),
   ("self.params.tx_data_min_length", optPV s.cfg.txMinLen),
   ("self.tx_standby_msg", optMsgPV s.standby),
   ("self.active_send_request", objPV "req" s.active.isSome),
   ("self.last_flow_control_frame", optFcPV s.lastFc),
   ("self.timer_rx_fc.start_time", optPV s.timerFc.start),
   ("self.timer_rx_fc.timeout", pint s.timerFc.timeout),
   ("self.timer_tx_stmin.start_time", optPV s.timerStmin.start),
   ("self.timer_tx_stmin.timeout", pint s.timerStmin.timeout),
   ("self.timer_rx_cf.start_time", optPV s.timerCf.start),
   ("self.timer_rx_cf.timeout", pint s.timerCf.timeout),
   ("#log", .list (histOf s.log)),
   ("#rl", rlPV s.rl)]
  ++ (match s.pendingFcStatus with | some st => [("self.pending_flowcontrol_status", pint st)] | none => [])
  ++ (match s.active with | some r => reqAttrs r | none => [])

/-- every key the representation of a state talks about (the class constants excepted: nobody writes them) -/
def allKeys : List String :=
  ["self.tx_state", "self.tx_frame_length", "self.tx_seqnum", "self.tx_block_counter", "self.remote_blocksize",
   "self.wft_counter", "self.pending_flow_control_tx", "self.params.listen_mode", "self.params.wftmax",
   "self.params.override_receiver_stmin", "self.params.tx_data_length", "self.params.tx_data_min_length",
   "self.tx_standby_msg", "self.active_send_request", "self.last_flow_control_frame",
   "self.timer_rx_fc.start_time", "self.timer_rx_fc.timeout", "self.timer_tx_stmin.start_time", "self.timer_tx_stmin.timeout",
   "self.timer_rx_cf.start_time", "self.timer_rx_cf.timeout", "#log", "#rl", "self.pending_flowcontrol_status",
   "self.active_send_request.target_address_type", "self.active_send_request.generator._size",
   "self.active_send_request.generator._consumed", "self.active_send_request.generator._depleted", "#gen.src", "#req.id",
   "#req.instr",
   "PDU.FlowStatus.ContinueToSend", "PDU.FlowStatus.Wait", "PDU.FlowStatus.Overflow", "self.TxState.IDLE",
   "self.TxState.WAIT_FC", "self.TxState.TRANSMIT_CF", "self.TxState.TRANSMIT_SF_STANDBY", "self.TxState.TRANSMIT_FF_STANDBY"]

/-- the active request and its generator -/
structure ReqRep (env : Env) (r : Req) : Prop where
  tat : env "self.active_send_request.target_address_type" = some (tatPV r.tat)
  size : env "self.active_send_request.generator._size" = some (pint r.size)
  consumed : env "self.active_send_request.generator._consumed" = some (pint r.consumed)
  depl : env "self.active_send_request.generator._depleted" = some (pbool r.depletedFlag)
  src : env "#gen.src" = some (.bytes r.src)
  id : env "#req.id" = some (pint r.id)
  instr : env "#req.instr" = some (pbool r.instr)

/-- the class constants the regions read (values as dumped in `Src.consts`) -/
structure ConstRep (env : Env) : Prop where
  cts : env "PDU.FlowStatus.ContinueToSend" = some (pint 0)
  wait : env "PDU.FlowStatus.Wait" = some (pint 1)
  ovf : env "PDU.FlowStatus.Overflow" = some (pint 2)
  idle : env "self.TxState.IDLE" = some (txStPV .idle)
  waitFc : env "self.TxState.WAIT_FC" = some (txStPV .waitFc)
  transmitCf : env "self.TxState.TRANSMIT_CF" = some (txStPV .transmitCf)
  sfStandby : env "self.TxState.TRANSMIT_SF_STANDBY" = some (txStPV .sfStandby)
  ffStandby : env "self.TxState.TRANSMIT_FF_STANDBY" = some (txStPV .ffStandby)

theorem constRep_constEnv : ConstRep constEnv := ⟨rfl, rfl, rfl, rfl, rfl, rfl, rfl, rfl⟩

/-- `env` represents the transmit side of `s` -/
structure Rep (env : Env) (s : State) : Prop where
  txState : env "self.tx_state" = some (txStPV s.txState)
  txFrameLen : env "self.tx_frame_length" = some (pint s.txFrameLen)
  txSeq : env "self.tx_seqnum" = some (pint s.txSeq)
  txBlockCnt : env "self.tx_block_counter" = some (pint s.txBlockCnt)
  remoteBs : env "self.remote_blocksize" = some (optPV s.remoteBs)
  wftCnt : env "self.wft_counter" = some (pint s.wftCnt)
  pendingFc : env "self.pending_flow_control_tx" = some (pbool s.pendingFc)
  listen : env "self.params.listen_mode" = some (pbool s.cfg.listen)
  wftmax : env "self.params.wftmax" = some (pint s.cfg.wftmax)
  ovr : env "self.params.override_receiver_stmin" = some (nsPV s.cfg.overrideStminNs)
  txDl : env "self.params.tx_data_length" = some (pint s.cfg.txDl)
  txMinLen : env "self.params.tx_data_min_length" = some (optPV s.cfg.txMinLen)
  standby : env "self.tx_standby_msg" = some (optMsgPV s.standby)
  active : env "self.active_send_request" = some (objPV "req" s.active.isSome)
  lastFc : env "self.last_flow_control_frame" = some (optFcPV s.lastFc)
  fcStart : env "self.timer_rx_fc.start_time" = some (optPV s.timerFc.start)
  fcTo : env "self.timer_rx_fc.timeout" = some (pint s.timerFc.timeout)
  stStart : env "self.timer_tx_stmin.start_time" = some (optPV s.timerStmin.start)
  stTo : env "self.timer_tx_stmin.timeout" = some (pint s.timerStmin.timeout)
  cfStart : env "self.timer_rx_cf.start_time" = some (optPV s.timerCf.start)
  cfTo : env "self.timer_rx_cf.timeout" = some (pint s.timerCf.timeout)
  log : env "#log" = some (.list (histOf s.log))
  rl : env "#rl" = some (rlPV s.rl)
  /-- the attribute does not exist before the first request (`AttributeError` when read) -/
  pfs : env "self.pending_flowcontrol_status" = s.pendingFcStatus.map (fun (st : Nat) => pint (st : Int))
  req : ∀ r, s.active = some r → ReqRep env r
  consts : ConstRep env

theorem ReqRep.attrs {env : Env} {r : Req} (h : ReqRep env r) : ∀ kv ∈ reqAttrs r, env kv.1 = some kv.2 := by
  cases h; simp [reqAttrs, *]

/-- the form asked for: every attribute of the model state has the model's value -/
theorem Rep.attrs {env : Env} {s : State} (h : Rep env s) : ∀ kv ∈ txAttrs s, env kv.1 = some kv.2 := by
  intro kv hkv
  simp only [txAttrs, List.mem_append] at hkv
  rcases hkv with (hkv | hkv) | hkv
  · cases h; simp at hkv; rcases hkv with h | h | h | h | h | h | h | h | h | h | h | h | h | h | h | h | h | h | h | h | h | h | h <;>
      (subst h; assumption)
  · cases hp : s.pendingFcStatus with
    | none => simp [hp] at hkv
    | some st =>
      have := h.pfs
      simp [hp] at hkv this; subst hkv; exact this
  · cases ha : s.active with
    | none => simp [ha] at hkv
    | some r => simp only [ha] at hkv; exact (h.req r ha).attrs kv hkv

/-- the names outside `allKeys` (the locals, the attributes of object-valued locals), those of `xs` excepted, are left alone -/
def Frame (xs : List String) (env env' : Env) : Prop := ∀ k, k ∉ allKeys → k ∉ xs → env' k = env k

theorem Frame.refl (xs : List String) (env : Env) : Frame xs env env := fun _ _ _ => rfl
theorem Frame.trans {xs : List String} {e1 e2 e3 : Env} (h1 : Frame xs e1 e2) (h2 : Frame xs e2 e3) : Frame xs e1 e3 :=
  fun k hk hx => (h2 k hk hx).trans (h1 k hk hx)
theorem Frame.mono {xs ys : List String} {e1 e2 : Env} (h : Frame xs e1 e2) (hs : ∀ k ∈ xs, k ∈ ys) : Frame ys e1 e2 :=
  fun k hk hx => h k hk (fun hm => hx (hs k hm))
theorem Frame.set {xs : List String} {e1 e2 : Env} (h : Frame xs e1 e2) {k : String} (hk : k ∈ allKeys ∨ k ∈ xs) (v : PV) :
    Frame xs e1 (e2.set k v) := by
  intro k' hk' hx'
  have : k' ≠ k := by
    rintro rfl
    rcases hk with hk | hk
    · exact hk' hk
    · exact hx' hk
  simp [set_get, this, h k' hk' hx']

theorem ReqRep.set {env : Env} {r : Req} (h : ReqRep env r) {k : String}
    (hk : k ∉ ["self.active_send_request.target_address_type", "self.active_send_request.generator._size",
      "self.active_send_request.generator._consumed", "self.active_send_request.generator._depleted", "#gen.src", "#req.id",
      "#req.instr"]) (v : PV) : ReqRep (env.set k v) r := by
  simp only [List.mem_cons, List.not_mem_nil, or_false, not_or] at hk
  obtain ⟨h1, h2, h3, h4, h5, h6, h7⟩ := hk
  cases h
  constructor <;> simp [set_get, *, Ne.symm]

theorem ConstRep.set {env : Env} (h : ConstRep env) {k : String}
    (hk : k ∉ ["PDU.FlowStatus.ContinueToSend", "PDU.FlowStatus.Wait", "PDU.FlowStatus.Overflow", "self.TxState.IDLE",
      "self.TxState.WAIT_FC", "self.TxState.TRANSMIT_CF", "self.TxState.TRANSMIT_SF_STANDBY", "self.TxState.TRANSMIT_FF_STANDBY"])
    (v : PV) : ConstRep (env.set k v) := by
  simp only [List.mem_cons, List.not_mem_nil, or_false, not_or] at hk
  obtain ⟨h1, h2, h3, h4, h5, h6, h7, h8⟩ := hk
  cases h
  constructor <;> simp [set_get, *, Ne.symm]

/-! ### updating the representation -/

/-- `Rep` of an environment obtained by `Env.set`s on keys other than the request's, for a state with the same `active` -/
macro "rep_upd" hR:ident : tactic => `(tactic| (
  have hq := Rep.req $hR
  have hc := Rep.consts $hR
  cases $hR:ident
  constructor
  case req =>
    intro r hr
    first
    | exact (hq r hr)
    | exact (hq r hr).set (by decide) _
    | exact ((hq r hr).set (by decide) _).set (by decide) _
    | exact (((hq r hr).set (by decide) _).set (by decide) _).set (by decide) _
  case consts =>
    first
    | exact hc
    | exact hc.set (by decide) _
    | exact (hc.set (by decide) _).set (by decide) _
    | exact ((hc.set (by decide) _).set (by decide) _).set (by decide) _
  all_goals simp [set_get, *]))

section upd
variable {env : Env} {s : State}

theorem Rep.setOther (hR : Rep env s) {k : String} (hk : k ∉ allKeys) (v : PV) : Rep (env.set k v) s := by
  simp only [allKeys, List.mem_cons, List.not_mem_nil, or_false, not_or] at hk
  have hq := hR.req
  have hc := hR.consts
  cases hR
  constructor
  case req => exact fun r hr => (hq r hr).set (by simp [hk]) _
  case consts => exact hc.set (by simp [hk]) _
  all_goals simp [set_get, *, Ne.symm]

theorem Rep.setTxState (hR : Rep env s) (t : TxSt) :
    Rep (env.set "self.tx_state" (txStPV t)) { s with txState := t } := by rep_upd hR
theorem Rep.setTxFrameLen (hR : Rep env s) (n : Nat) :
    Rep (env.set "self.tx_frame_length" (pint n)) { s with txFrameLen := n } := by rep_upd hR
theorem Rep.setTxSeq (hR : Rep env s) (n : Nat) :
    Rep (env.set "self.tx_seqnum" (pint n)) { s with txSeq := n } := by rep_upd hR
theorem Rep.setTxBlockCnt (hR : Rep env s) (n : Nat) :
    Rep (env.set "self.tx_block_counter" (pint n)) { s with txBlockCnt := n } := by rep_upd hR
theorem Rep.setRemoteBs (hR : Rep env s) (o : Option Nat) :
    Rep (env.set "self.remote_blocksize" (optPV o)) { s with remoteBs := o } := by rep_upd hR
theorem Rep.setWftCnt (hR : Rep env s) (n : Nat) :
    Rep (env.set "self.wft_counter" (pint n)) { s with wftCnt := n } := by rep_upd hR
theorem Rep.setPendingFc (hR : Rep env s) (b : Bool) :
    Rep (env.set "self.pending_flow_control_tx" (pbool b)) { s with pendingFc := b } := by rep_upd hR
theorem Rep.setStandby (hR : Rep env s) (o : Option CanMsg) :
    Rep (env.set "self.tx_standby_msg" (optMsgPV o)) { s with standby := o } := by rep_upd hR
theorem Rep.setLastFc (hR : Rep env s) (o : Option FcFrame) :
    Rep (env.set "self.last_flow_control_frame" (optFcPV o)) { s with lastFc := o } := by rep_upd hR
theorem Rep.setFcStart (hR : Rep env s) (o : Option Nat) :
    Rep (env.set "self.timer_rx_fc.start_time" (optPV o)) { s with timerFc := { s.timerFc with start := o } } := by rep_upd hR
theorem Rep.setStStart (hR : Rep env s) (o : Option Nat) :
    Rep (env.set "self.timer_tx_stmin.start_time" (optPV o)) { s with timerStmin := { s.timerStmin with start := o } } := by
  rep_upd hR
theorem Rep.setStTo (hR : Rep env s) (n : Nat) :
    Rep (env.set "self.timer_tx_stmin.timeout" (pint n)) { s with timerStmin := { s.timerStmin with timeout := n } } := by
  rep_upd hR
theorem Rep.setLog (hR : Rep env s) (l : List Ev) :
    Rep (env.set "#log" (.list (histOf l))) { s with log := l } := by rep_upd hR
theorem Rep.setRl (hR : Rep env s) (l : Limiter) :
    Rep (env.set "#rl" (rlPV l)) { s with rl := l } := by rep_upd hR

/-- `_start_rx_fc_timer()` -/
theorem Rep.startFc (hR : Rep env s) :
    Rep ((env.set "self.timer_rx_fc.start_time" (pint s.now)).set "self.timer_rx_fc.timeout" (pint s.cfg.tFc)) s.startRxFcTimer := by
  unfold State.startRxFcTimer
  rep_upd hR
  rfl

/-- `_start_rx_cf_timer()` -/
theorem Rep.startCf (hR : Rep env s) :
    Rep ((env.set "self.timer_rx_cf.start_time" (pint s.now)).set "self.timer_rx_cf.timeout" (pint s.cfg.tCf)) s.startRxCfTimer := by
  unfold State.startRxCfTimer
  rep_upd hR
  rfl

theorem trigP_rep (hR : Rep env s) (e : Err) :
    trigP s.now (errCode e) env =
      .ok (env.set "#log" (.list (histOf s.log ++ [.py (.int 0), .py (.int s.now), .py (.int (errCode e))]))) := by
  simp [trigP, hR.log]

/-- `_trigger_error(e)` -/
theorem Rep.error (hR : Rep env s) (e : Err) :
    Rep (env.set "#log" (.list (histOf s.log ++ [.py (.int 0), .py (.int s.now), .py (.int (errCode e))]))) (s.error e) :=
  hR.setLog (.err s.now e :: s.log)

end upd

/-! ### `_stop_sending` -/

section stop
variable {env : Env} {s : State}

theorem rep_stopCore (hR : Rep env s) :
    Rep (stopCore env) { s with txState := .idle, txFrameLen := 0, timerFc := s.timerFc.stop, timerStmin := s.timerStmin.stop,
                                remoteBs := none, txBlockCnt := 0, txSeq := 0, wftCnt := 0, standby := none } := by
  have hq := hR.req
  have hc := hR.consts
  cases hR
  unfold stopCore
  constructor
  case req =>
    intro r hr
    have := hq r hr
    repeat (first | exact this | refine ReqRep.set ?_ (by decide) _)
  case consts =>
    repeat (first | exact hc | refine ConstRep.set ?_ (by decide) _)
  all_goals simp [set_get, *, Timer.stop, optPV, optMsgPV]

/-- `self.active_send_request.complete(ok); self.active_send_request = None` -/
theorem rep_complete (hR : Rep env s) (r : Req) (ok : Bool) :
    Rep ((env.set "#log" (.list (histOf s.log ++ [.py (.int 1), .py (.int r.id), .py (.bool ok)]))).set
      "self.active_send_request" pnone) { s.emit (.done r.id ok) with active := none } := by
  have hc := hR.consts
  cases hR
  constructor
  case req => intro r hr; cases hr
  case consts => exact (hc.set (by decide) _).set (by decide) _
  all_goals simp [set_get, *, State.emit, histOf, encEv, objPV]

theorem frame_stopCore (xs : List String) (env : Env) : Frame xs env (stopCore env) := by
  unfold stopCore
  exact ((((((((((Frame.refl xs env).set (.inl (by decide)) _).set (.inl (by decide)) _).set (.inl (by decide)) _).set
    (.inl (by decide)) _).set (.inl (by decide)) _).set (.inl (by decide)) _).set (.inl (by decide)) _).set
    (.inl (by decide)) _).set (.inl (by decide)) _)

/-- the helper `_stop_sending(ok)` is the model's `stopSending ok` -/
theorem stopP_rep (hR : Rep env s) (ok : Bool) (xs : List String) :
    ∃ env', stopP ok env = .ok env' ∧ Rep env' (s.stopSending ok) ∧ Frame xs env env' := by
  cases ha : s.active with
  | none =>
    refine ⟨stopCore env, ?_, ?_, frame_stopCore xs env⟩
    · have h := hR.active
      simp only [ha, Option.isSome_none, objPV] at h
      simp [stopP, h]
    · have := rep_stopCore hR
      simpa [State.stopSending, ha] using this
  | some r =>
    refine ⟨stopCore ((env.set "#log" (.list (histOf s.log ++ [.py (.int 1), .py (.int r.id), .py (.bool ok)]))).set
      "self.active_send_request" pnone), ?_, ?_, ?_⟩
    · have h := hR.active
      simp only [ha, Option.isSome_some, objPV] at h
      simp [stopP, h, (hR.req r ha).id, hR.log]
    · have := rep_stopCore (rep_complete hR r ok)
      simpa [State.stopSending, ha] using this
    · exact (((Frame.refl xs env).set (.inl (by decide)) _).set (.inl (by decide)) _).trans (frame_stopCore xs _)

end stop

/-! ### the generator -/

section gen
variable {env : Env} {r : Req}

theorem genDepleted_rep (h : ReqRep env r) : genDepleted env = .ok (pbool r.depleted) := by
  have e : ((r.size : Int) - (r.consumed : Int) ≤ 0) ↔ r.size ≤ r.consumed := by omega
  simp [genDepleted, h.size, h.consumed, h.depl, Req.depleted, e]

theorem genRemaining_int (h : ReqRep env r) : genRemaining env = .ok (pint ((r.size : Int) - r.consumed)) := by
  simp [genRemaining, h.size, h.consumed]

theorem genRemaining_rep (h : ReqRep env r) (hle : r.consumed ≤ r.size) : genRemaining env = .ok (pint r.remaining) := by
  rw [genRemaining_int h, Req.remaining]; congr 2; omega

theorem genTotal_rep (h : ReqRep env r) : genTotal env = .ok (pint r.size) := by
  simp [genTotal, h.size]

theorem reqOf_rep (h : ReqRep env r) : reqOf env = some r := by
  obtain ⟨id, size, src, consumed, depletedFlag, tat, instr⟩ := r
  cases tat <;> simp [reqOf, h.size, h.consumed, h.depl, h.src, h.id, h.instr, h.tat, tatPV]

theorem consume_fields (r : Req) (n : Nat) (exact : Bool) :
    (r.consume n exact).1.id = r.id ∧ (r.consume n exact).1.size = r.size ∧ (r.consume n exact).1.tat = r.tat ∧
    (r.consume n exact).1.instr = r.instr := by
  unfold Req.consume
  simp only
  split
  · exact ⟨rfl, rfl, rfl, rfl⟩
  · split
    · split <;> exact ⟨rfl, rfl, rfl, rfl⟩
    · exact ⟨rfl, rfl, rfl, rfl⟩

end gen

/-! ### `consume` -/

section consume
variable {env : Env} {s : State} {r : Req}

theorem consumeP_none (hR : Rep env s) (ha : s.active = some r) (n : Nat) (exact : Bool)
    (hn : (r.consume n exact).2 = none) :
    consumeP n exact env = .error (.unsupported "raise BadGeneratorError") := by
  simp [consumeP, reqOf_rep (hR.req r ha), hR.log, hn]

theorem consumeP_some (hR : Rep env s) (ha : s.active = some r) (n : Nat) (exact : Bool) (data : Bytes)
    (hn : (r.consume n exact).2 = some data) :
    ∃ env', consumeP n exact env = .ok env' ∧ Rep env' (s.consumeActive r n exact).1 ∧
      env' "payload" = some (.bytes data) ∧ Frame ["payload"] env env' := by
  obtain ⟨f1, f2, f3, f4⟩ := consume_fields r n exact
  have hq := hR.req r ha
  refine ⟨?_, ?h1, ?h2, ?h3, ?h4⟩
  case h1 =>
    simp [consumeP, reqOf_rep hq, hR.log, hn]
    rfl
  case h3 => simp [set_get]
  case h4 =>
    exact (((((Frame.refl _ env).set (.inl (by decide)) _).set (.inl (by decide)) _).set (.inl (by decide)) _).set
      (.inl (by decide)) _).set (.inr (by decide)) _
  case h2 =>
    have hc := hR.consts
    unfold State.consumeActive
    simp only
    cases hq
    cases hR
    constructor
    case req =>
      intro r' hr'
      simp only [Option.some.injEq] at hr'
      subst hr'
      constructor <;> simp [set_get, *]
    case consts => exact ((((hc.set (by decide) _).set (by decide) _).set (by decide) _).set (by decide) _).set (by decide) _
    case log =>
      by_cases hp : (r.instr && decide ((r.consume n exact).1.consumed - r.consumed > 0)) = true
      · simp only [Bool.and_eq_true, decide_eq_true_eq] at hp
        simp [set_get, *, State.emit, histOf, encEv]
      · simp only [Bool.and_eq_true, decide_eq_true_eq] at hp
        simp [set_get, *]
    all_goals (split <;> simp [set_get, *, State.emit, objPV])
end consume

/-! ### the primitives, by name (proved once by `rfl`: the string `match` of `txFn` / `txProc` is never unfolded by `simp`) -/

theorem bi_none (fn : String) (args : List PV)
    (h : fn ∉ ["len", "int", "bool", "min", "max", "bytes", "isinstance_int", "isinstance_bool", "isinstance_float",
      "isinstance_int_float"]) : evalBuiltin fn args = none := evalBuiltin_none fn args h

section meths
variable (c : Cfg) (a : Addr) (now : Nat) (rl : Limiter) (env : Env)

theorem fn_allowed :
    (txMeths c a now rl).fn "self.rate_limiter.allowed_bytes" [] env = .ok (pint (rl.allowedBytes c.rlBitMax)) := rfl
theorem fn_fc_timed_out : (txMeths c a now rl).fn "self.timer_rx_fc.is_timed_out" [] env =
    timedOutP now (env "self.timer_rx_fc.start_time") (env "self.timer_rx_fc.timeout") := rfl
theorem fn_st_timed_out : (txMeths c a now rl).fn "self.timer_tx_stmin.is_timed_out" [] env =
    timedOutP now (env "self.timer_tx_stmin.start_time") (env "self.timer_tx_stmin.timeout") := rfl
theorem fn_remaining :
    (txMeths c a now rl).fn "self.active_send_request.generator.remaining_size" [] env = genRemaining env := rfl
theorem fn_depleted :
    (txMeths c a now rl).fn "self.active_send_request.generator.depleted" [] env = genDepleted env := rfl
theorem fn_total :
    (txMeths c a now rl).fn "self.active_send_request.generator.total_length" [] env = genTotal env := rfl
theorem fn_prefix :
    (txMeths c a now rl).fn "self.address.get_tx_payload_prefix" [] env = .ok (.bytes a.tx.txPrefix) := rfl
theorem fn_arb0 :
    (txMeths c a now rl).fn "self.address.get_tx_arbitration_id" [] env = .ok (pint (a.tx.txId .physical)) := rfl
theorem fn_arb1 (t : Tat) :
    (txMeths c a now rl).fn "self.address.get_tx_arbitration_id" [tatPV t] env = .ok (pint (a.tx.txId t)) := by
  cases t <;> rfl
theorem fn_bytearray (xs : List Sc) :
    (txMeths c a now rl).fn "bytearray" [.list xs] env = (bytesOfScs xs).map .bytes := rfl
theorem fn_make_tx_msg (i : Nat) (d : Bytes) :
    (txMeths c a now rl).fn "self._make_tx_msg" [pint i, .bytes d] env =
      (match makeTxMsg c a i d with
       | some m => .ok (msgPV m)
       | none => .error (.exc .ValueError)) := rfl
theorem fn_make_fc (st : Nat) :
    (txMeths c a now rl).fn "self._make_flow_control#flow_status" [pint st] env =
      (match makeFlowControl c a st with
       | some m => .ok (msgPV m)
       | none => .error (.exc .ValueError)) := rfl
theorem fn_err_overflow (v : PV) :
    (txMeths c a now rl).fn "isotp.errors.OverflowError" [v] env = .ok (pint (errCode .Overflow)) := rfl
theorem fn_err_unexpected (v : PV) :
    (txMeths c a now rl).fn "isotp.errors.UnexpectedFlowControlError" [v] env = .ok (pint (errCode .UnexpectedFlowControl)) := rfl
theorem fn_err_unsupported (v : PV) :
    (txMeths c a now rl).fn "isotp.errors.UnsupportedWaitFrameError" [v] env = .ok (pint (errCode .UnsupportedWaitFrame)) := rfl
theorem fn_err_maxwait (v : PV) :
    (txMeths c a now rl).fn "isotp.errors.MaximumWaitFrameReachedError" [v] env =
      .ok (pint (errCode .MaximumWaitFrameReached)) := rfl
theorem fn_err_fctimeout (v : PV) :
    (txMeths c a now rl).fn "isotp.errors.FlowControlTimeoutError" [v] env = .ok (pint (errCode .FlowControlTimeout)) := rfl
theorem fn_err_badgen (v : PV) :
    (txMeths c a now rl).fn "isotp.errors.BadGeneratorError" [v] env = .ok (pint (errCode .BadGenerator)) := rfl
theorem fn_format (vs : List PV) : (txMeths c a now rl).fn "__format__" vs env = .ok (.str "") := rfl
theorem fn_report (m : PV) (b : Bool) :
    (txMeths c a now rl).fn "self.ProcessTxReport#msg#immediate_rx_required" [m, pbool b] env = reportP m b := rfl

theorem proc_fc_stop :
    (txMeths c a now rl).proc "self.timer_rx_fc.stop" [] env = .ok (env.set "self.timer_rx_fc.start_time" pnone) := rfl
theorem proc_st_start :
    (txMeths c a now rl).proc "self.timer_tx_stmin.start" [] env = .ok (env.set "self.timer_tx_stmin.start_time" (pint now)) := rfl
theorem proc_st_set_timeout (n : Nat) :
    (txMeths c a now rl).proc "self.timer_tx_stmin.set_timeout" [nsPV (some n)] env =
      .ok (env.set "self.timer_tx_stmin.timeout" (pint n)) := by
  have e : (txMeths c a now rl).proc "self.timer_tx_stmin.set_timeout" [nsPV (some n)] env =
      (if (0 : Int) ≤ (n : Int) ∧ (1000000000 : Nat) = 1000000000 then .ok (env.set "self.timer_tx_stmin.timeout" (pint n))
       else .error (.unsupported "set_timeout of a float that is not a nanosecond count")) := rfl
  rw [e]; simp
theorem proc_stop (ok : Bool) : (txMeths c a now rl).proc "self._stop_sending#success" [pbool ok] env = stopP ok env := rfl
theorem proc_consume (n : Int) (exact : Bool) :
    (txMeths c a now rl).proc "payload:=self.active_send_request.generator.consume#enforce_exact" [pint n, pbool exact] env =
      consumeP n exact env := rfl
theorem proc_start_fc : (txMeths c a now rl).proc "self._start_rx_fc_timer" [] env =
    .ok ((env.set "self.timer_rx_fc.start_time" (pint now)).set "self.timer_rx_fc.timeout" (pint c.tFc)) := rfl
theorem proc_start_cf : (txMeths c a now rl).proc "self._start_rx_cf_timer" [] env =
    .ok ((env.set "self.timer_rx_cf.start_time" (pint now)).set "self.timer_rx_cf.timeout" (pint c.tCf)) := rfl
theorem proc_trigger (code : Int) :
    (txMeths c a now rl).proc "self._trigger_error" [pint code] env = trigP now code env := rfl
theorem proc_inform (n : Nat) : (txMeths c a now rl).proc "self.rate_limiter.inform_byte_sent" [pint n] env =
    .ok (env.set "#rl" (rlPV (rl.inform now n))) := rfl

end meths

/-! ## 1. Region `standby` (body of the TRANSMIT_SF_STANDBY / TRANSMIT_FF_STANDBY branch) -/

/-- the model's branch (`processTx`, `.sfStandby | .ffStandby`) -/
def standbyM (s : State) (allowed : Nat) : State × Option CanMsg :=
  match s.standby with
  | some msg =>
    if msg.data.length ≤ allowed then
      let s := { s with standby := none }
      if s.txState = .ffStandby then ({ s.startRxFcTimer with txState := .waitFc }, some msg)
      else (s.stopSending true, some msg)
    else (s, none)
  | none => (s, none)

theorem standby_agrees (s : State) (env : Env) (allowed : Nat) (hR : Rep env s)
    (ha : env "allowed_bytes" = some (pint allowed))
    (hd : ∀ m, s.standby = some m → env "self.tx_standby_msg.data" = some (.bytes m.data)) :
    ∃ env', execBlock (txM s) env Src.TransportLayerLogic_p_process_tx__standby = .ok (.next env') ∧
      Rep env' (standbyM s allowed).1 ∧
      (match (standbyM s allowed).2 with
       | some m => env' "output_msg" = some (msgPV m)
       | none => env' "output_msg" = env "output_msg") ∧
      Frame ["output_msg"] env env' := by
  cases hs : s.standby with
  | none =>
    refine ⟨env, ?_, ?_, ?_, Frame.refl _ _⟩
    · have h := hR.standby
      simp only [hs, optMsgPV] at h
      simp [Src.TransportLayerLogic_p_process_tx__standby, execBlock, execStmt, eval, h]
    · simpa [standbyM, hs] using hR
    · simp [standbyM, hs]
  | some m =>
    have h := hR.standby
    simp only [hs, optMsgPV] at h
    have hd' := hd m hs
    by_cases hle : m.data.length ≤ allowed
    · by_cases hff : s.txState = .ffStandby
      · refine ⟨?_, ?h1, ?h2, ?h3, ?h4⟩
        case h1 =>
          simp [Src.TransportLayerLogic_p_process_tx__standby, execBlock, execStmt, eval, evalArgs, h, hd', ha,
            builtin_len_bytes, evalCmp_le_pint, hle, set_get, hR.txState, hR.consts.ffStandby, hR.consts.waitFc, pvEq_txSt, hff,
            bi_none, proc_start_fc]
          rfl
        case h2 =>
          have := ((((hR.setOther (k := "output_msg") (by decide) (msgPV m)).setStandby none).startFc).setTxState .waitFc)
          simpa [standbyM, hs, hle, hff, optMsgPV] using this
        case h3 => simp [standbyM, hs, hle, hff, set_get]
        case h4 =>
          exact (((((Frame.refl _ env).set (.inr (by decide)) _).set (.inl (by decide)) _).set (.inl (by decide)) _).set
            (.inl (by decide)) _).set (.inl (by decide)) _
      · have R1 : Rep ((env.set "output_msg" (msgPV m)).set "self.tx_standby_msg" pnone) { s with standby := none } := by
          simpa [optMsgPV] using (hR.setOther (k := "output_msg") (by decide) (msgPV m)).setStandby none
        obtain ⟨env', he, hR', hF⟩ := stopP_rep R1 true []
        refine ⟨env', ?h1, ?h2, ?h3, ?h4⟩
        case h1 =>
          simp [Src.TransportLayerLogic_p_process_tx__standby, execBlock, execStmt, eval, evalArgs, h, hd', ha,
            builtin_len_bytes, evalCmp_le_pint, hle, set_get, hR.txState, hR.consts.ffStandby, pvEq_txSt, hff,
            bi_none, proc_stop, he]
        case h2 => simpa [standbyM, hs, hle, hff] using hR'
        case h3 =>
          simp only [standbyM, hs, hle, hff, if_true, if_false]
          rw [hF "output_msg" (by decide) (by simp)]
          simp [set_get]
        case h4 =>
          exact ((((Frame.refl _ env).set (.inr (by decide)) _).set (.inl (by decide)) _)).trans (hF.mono (by simp))
    · refine ⟨env, ?_, ?_, ?_, Frame.refl _ _⟩
      · simp [Src.TransportLayerLogic_p_process_tx__standby, execBlock, execStmt, eval, evalArgs, h, hd', ha,
          builtin_len_bytes, evalCmp_le_pint, hle]
      · simpa [standbyM, hs, hle] using hR
      · simp [standbyM, hs, hle]

/-! ## 2. Region `transmit_cf` -/

/-- how a region of the model ends -/
inductive Outcome where
  /-- a Python exception escapes from `_process_tx` (`s` = the model's state at that point) -/
  | raised (s : State) (e : PyExc)
  /-- `BadGeneratorError` is raised by `consume` -/
  | badGen (s : State)
  /-- the region falls through -/
  | done (s : State) (out : Option CanMsg) (imm : Bool)

/-- the Consecutive Frame, when the payload is not empty (`none` = `ValueError` from `_make_tx_msg`) -/
def tcfFrame (s : State) (payload : Bytes) : Option (State × Option CanMsg) :=
  if payload.length > 0 then
    match makeTxMsg s.cfg s.addr (s.addr.tx.txId .physical) (s.addr.tx.txPrefix ++ [u8 (0x20 + s.txSeq)] ++ payload) with
    | none => none
    | some msg =>
      some ({ s with txSeq := (s.txSeq + 1) % 16, timerStmin := s.timerStmin.startAt s.now,
                     txBlockCnt := s.txBlockCnt + 1 }, some msg)
  else some (s, none)

/-- end of transmission / end of block -/
def tcfTail (s : State) (r' : Req) (rbs : Nat) : State × Bool :=
  if r'.depleted then
    if r'.remaining > 0 then ((s.error .BadGenerator).stopSending false, false)
    else (s.stopSending true, false)
  else if rbs ≠ 0 && s.txBlockCnt ≥ rbs then (({ s with txState := .waitFc }).startRxFcTimer, true)
  else (s, false)

/-- `State.transmitCf`, with the way it ends made explicit -/
def transmitCfR (s : State) (allowed : Nat) : Outcome :=
  match s.remoteBs, s.active with
  | none, _ => .raised s .AssertionError
  | _, none => .raised s .AssertionError
  | some rbs, some r =>
    if s.timerStmin.timedOut s.now then
      let payloadLen := min (s.cfg.txDl - 1 - s.txPrefixLen) r.remaining
      if payloadLen ≤ allowed then
        match s.consumeActive r payloadLen false with
        | (s1, _, none) => .badGen s1
        | (s1, r', some payload) =>
          match tcfFrame s1 payload with
          | none => .raised s1 .ValueError
          | some (s2, out) => .done (tcfTail s2 r' rbs).1 out (tcfTail s2 r' rbs).2
      else .done s none false
    else .done s none false

/-- the model's function in terms of `transmitCfR` (the escaping `BadGeneratorError` is an `AssertionError` there: unreachable,
    see `transmitCfR_no_badGen`) -/
theorem transmitCf_eq (s : State) (allowed : Nat) :
    s.transmitCf allowed =
      match transmitCfR s allowed with
      | .raised s' e => (s'.raise e, none, false)
      | .badGen s' => (s'.raise .AssertionError, none, false)
      | .done s' out imm => (s', out, imm) := by
  unfold State.transmitCf transmitCfR
  cases hb : s.remoteBs <;> cases ha : s.active <;> simp only
  rename_i rbs r
  by_cases ht : s.timerStmin.timedOut s.now = true
  · simp only [ht, if_true]
    by_cases hp : min (s.cfg.txDl - 1 - s.txPrefixLen) r.remaining ≤ allowed
    · simp only [hp, if_true]
      rcases hc : s.consumeActive r (min (s.cfg.txDl - 1 - s.txPrefixLen) r.remaining) false with ⟨s1, r', res⟩
      cases res with
      | none => rfl
      | some payload =>
        simp only [tcfFrame, tcfTail]
        by_cases hl : payload.length > 0
        · simp only [hl, if_true]
          cases hm : makeTxMsg s1.cfg s1.addr (s1.addr.tx.txId .physical) (s1.addr.tx.txPrefix ++ [u8 (0x20 + s1.txSeq)] ++ payload) with
          | none => simp
          | some msg =>
            simp only [Bool.false_eq_true, if_false]
            by_cases h1 : r'.depleted = true <;> by_cases h2 : r'.remaining > 0 <;> simp [h1, h2] <;> split <;> rfl
        · simp only [hl, if_false, Bool.false_eq_true]
          by_cases h1 : r'.depleted = true <;> by_cases h2 : r'.remaining > 0 <;> simp [h1, h2] <;> split <;> rfl
    · simp only [hp, if_false]
  · simp only [ht, if_false, Bool.false_eq_true]
/-! ### navigation in a dumped block -/

def nth : PBlock → Nat → PStmt
  | .nil, _ => .pass
  | .cons s _, 0 => s
  | .cons _ r, n + 1 => nth r n
def thenOf : PStmt → PBlock
  | .ite _ t _ => t
  | _ => .nil
def elseOf : PStmt → PBlock
  | .ite _ _ e => e
  | _ => .nil

/-! ### value-level lemmas -/

theorem add_bytes (x y : Bytes) : evalBinop .add (.bytes x) (.bytes y) = .ok (.bytes (x ++ y)) := rfl

theorem or_eq_add (a b i : Nat) (ha : a % 2 ^ i = 0) (hb : b < 2 ^ i) : a ||| b = a + b := by
  have e : a = (a / 2 ^ i) <<< i := by
    rw [Nat.shiftLeft_eq]
    have := Nat.div_add_mod a (2 ^ i)
    rw [ha, Nat.mul_comm] at this
    omega
  rw [e, Nat.shiftLeft_add_eq_or_of_lt hb]

/-- `0x20 | seq` for a sequence number below 16 -/
theorem or32 (n : Nat) (h : n < 16) : 32 ||| n = 32 + n := or_eq_add 32 n 4 (by decide) (by simpa using h)

theorem bytesOfScs_one (n : Nat) (h : n ≤ 255) : bytesOfScs [.py (.int (n : Int))] = .ok [u8 n] := by
  have h' : (n : Int) ≤ 255 := by omega
  simp [bytesOfScs, Sc.isInt, Sc.intVal, PyVal.isInt, PyVal.intVal, h', u8]

theorem bytesOfScs_seq (n : Nat) (h : n < 16) : bytesOfScs [.py (.int (32 + (n : Int)))] = .ok [u8 (32 + n)] := by
  have := bytesOfScs_one (32 + n) (by omega)
  simpa using this

theorem band15_succ (n : Nat) : evalBinop .band (pint ((n : Int) + 1)) (pint 15) = .ok (pint (((n + 1) % 16 : Nat) : Int)) := by
  rw [evalBinop_band _ _ (by omega) (by decide)]
  have : ((n : Int) + 1).toNat = n + 1 := by omega
  simp [this, and_f]

/-- the `if len(payload) > 0:` statement of the TRANSMIT_CF branch -/
def tcfFrameStmt : PStmt :=
  nth (thenOf (nth (thenOf (nth Src.TransportLayerLogic_p_process_tx__transmit_cf 2)) 2)) 1
/-- the `if ...depleted(): ... elif ...` statement -/
def tcfTailStmt : PStmt :=
  nth (thenOf (nth (thenOf (nth Src.TransportLayerLogic_p_process_tx__transmit_cf 2)) 2)) 2

theorem tcf_frame_stmt (s : State) (env : Env) (payload : Bytes) (hR : Rep env s)
    (hp : env "payload" = some (.bytes payload)) (hseq : s.txSeq < 16) :
    match tcfFrame s payload with
    | none => execStmt (txM s) env tcfFrameStmt = .error (.exc .ValueError)
    | some (s', out) =>
      ∃ env', execStmt (txM s) env tcfFrameStmt = .ok (.next env') ∧ Rep env' s' ∧
        (match out with
         | some m => env' "output_msg" = some (msgPV m)
         | none => env' "output_msg" = env "output_msg") ∧
        Frame ["msg_data", "arbitration_id", "output_msg"] env env' := by
  unfold tcfFrame
  by_cases hl : payload.length > 0
  · simp only [hl, if_true]
    cases hm : makeTxMsg s.cfg s.addr (s.addr.tx.txId .physical) (s.addr.tx.txPrefix ++ [u8 (0x20 + s.txSeq)] ++ payload) with
    | none =>
      simp only
      simp only [List.append_assoc, List.cons_append, List.nil_append] at hm
      simp [tcfFrameStmt, nth, thenOf, Src.TransportLayerLogic_p_process_tx__transmit_cf, execStmt, execBlock, eval, evalArgs, hp,
        builtin_len_bytes, evalCmp_gt_pint, hl, bi_none, fn_prefix, fn_bytearray, fn_arb0, fn_make_tx_msg, hR.txSeq,
        Int.natCast_nonneg, or32 _ hseq, bytesOfScs_seq _ hseq, add_bytes, set_get, hm]
    | some msg =>
      simp only
      simp only [List.append_assoc, List.cons_append, List.nil_append] at hm
      refine ⟨?_, ?h1, ?h2, ?h3, ?h4⟩
      case h1 =>
        simp [tcfFrameStmt, nth, thenOf, Src.TransportLayerLogic_p_process_tx__transmit_cf, execStmt, execBlock, eval, evalArgs, hp,
          builtin_len_bytes, evalCmp_gt_pint, hl, bi_none, fn_prefix, fn_bytearray, fn_arb0, fn_make_tx_msg, hR.txSeq,
          Int.natCast_nonneg, or32 _ hseq, bytesOfScs_seq _ hseq, add_bytes, set_get, hm, band15_succ, proc_st_start,
          hR.txBlockCnt]
        rfl
      case h2 =>
        have := ((((((hR.setOther (k := "msg_data") (by decide) (.bytes (s.addr.tx.txPrefix ++ u8 (32 + s.txSeq) :: payload))).setOther
          (k := "arbitration_id") (by decide) (pint (s.addr.tx.txId .physical))).setOther (k := "output_msg") (by decide)
          (msgPV msg)).setTxSeq ((s.txSeq + 1) % 16)).setStStart (some s.now)).setTxBlockCnt (s.txBlockCnt + 1))
        simpa [optPV, Timer.startAt] using this
      case h3 => simp [set_get]
      case h4 =>
        exact ((((((Frame.refl _ env).set (.inr (by decide)) _).set (.inr (by decide)) _).set (.inr (by decide)) _).set
          (.inl (by decide)) _).set (.inl (by decide)) _).set (.inl (by decide)) _
  · simp only [hl, if_false]
    refine ⟨env, ?_, hR, rfl, Frame.refl _ _⟩
    simp [tcfFrameStmt, nth, thenOf, Src.TransportLayerLogic_p_process_tx__transmit_cf, execStmt, execBlock, eval, evalArgs, hp,
      builtin_len_bytes, evalCmp_gt_pint, hl]
theorem tcf_tail_stmt (s : State) (env : Env) (r' : Req) (rbs : Nat) (hR : Rep env s)
    (ha : s.active = some r') (hb : s.remoteBs = some rbs) :
    ∃ env', execStmt (txM s) env tcfTailStmt = .ok (.next env') ∧ Rep env' (tcfTail s r' rbs).1 ∧
      env' "immediate_rx_msg_required" = (if (tcfTail s r' rbs).2 then some (pbool true) else env "immediate_rx_msg_required") ∧
      Frame ["immediate_rx_msg_required"] env env' := by
  have hq := hR.req r' ha
  have hrb := hR.remoteBs
  simp only [hb, optPV] at hrb
  unfold tcfTail
  by_cases hd : r'.depleted = true
  · simp only [hd, if_true]
    by_cases hrem : r'.remaining > 0
    · simp only [hrem, if_true]
      have hrem' : r'.consumed < r'.size := by unfold Req.remaining at hrem; omega
      obtain ⟨env', he, hR', hF⟩ := stopP_rep (hR.error .BadGenerator) false []
      refine ⟨env', ?_, hR', ?_, ?_⟩
      · simp [tcfTailStmt, nth, thenOf, Src.TransportLayerLogic_p_process_tx__transmit_cf, execStmt, execBlock, eval, evalArgs,
          bi_none, fn_depleted, genDepleted_rep hq, hd, fn_remaining, genRemaining_int hq, evalCmp_gt_pint, hrem',
          fn_err_badgen, proc_trigger, trigP_rep hR, proc_stop, he]
      · rw [hF _ (by decide) (by simp)]; simp [set_get]
      · exact ((Frame.refl _ env).set (.inl (by decide)) _).trans (hF.mono (by simp))
    · simp only [hrem, if_false]
      have hrem' : ¬ r'.consumed < r'.size := by unfold Req.remaining at hrem; omega
      obtain ⟨env', he, hR', hF⟩ := stopP_rep hR true []
      refine ⟨env', ?_, hR', ?_, hF.mono (by simp)⟩
      · simp [tcfTailStmt, nth, thenOf, Src.TransportLayerLogic_p_process_tx__transmit_cf, execStmt, execBlock, eval, evalArgs,
          bi_none, fn_depleted, genDepleted_rep hq, hd, fn_remaining, genRemaining_int hq, evalCmp_gt_pint, hrem',
          proc_stop, he]
      · rw [hF _ (by decide) (by simp)]; simp
  · simp only [hd, if_false, Bool.false_eq_true]
    by_cases hc : (rbs ≠ 0 && decide (s.txBlockCnt ≥ rbs)) = true
    · simp only [hc, if_true]
      simp only [Bool.and_eq_true, decide_eq_true_eq] at hc
      refine ⟨?_, ?h1, ?h2, ?h3, ?h4⟩
      case h1 =>
        simp [tcfTailStmt, nth, thenOf, Src.TransportLayerLogic_p_process_tx__transmit_cf, execStmt, execBlock, eval, evalArgs,
          bi_none, fn_depleted, genDepleted_rep hq, hd, hrb, hR.txBlockCnt, evalCmp_ge_pint, hc.1, hc.2, hR.consts.waitFc,
          proc_start_fc, set_get]
        rfl
      case h2 =>
        exact ((hR.setTxState .waitFc).setOther (k := "immediate_rx_msg_required") (by decide) (pbool true)).startFc
      case h3 => simp [set_get]
      case h4 =>
        exact ((((Frame.refl _ env).set (.inl (by decide)) _).set (.inr (by decide)) _).set (.inl (by decide)) _).set
          (.inl (by decide)) _
    · simp only [hc, if_false, Bool.false_eq_true]
      simp only [Bool.and_eq_true, decide_eq_true_eq, not_and] at hc
      refine ⟨env, ?_, hR, by simp, Frame.refl _ _⟩
      by_cases h0 : rbs = 0
      · simp [tcfTailStmt, nth, thenOf, Src.TransportLayerLogic_p_process_tx__transmit_cf, execStmt, execBlock, eval, evalArgs,
          bi_none, fn_depleted, genDepleted_rep hq, hd, hrb, h0]
      · have := hc (by simpa using h0)
        simp [tcfTailStmt, nth, thenOf, Src.TransportLayerLogic_p_process_tx__transmit_cf, execStmt, execBlock, eval, evalArgs,
          bi_none, fn_depleted, genDepleted_rep hq, hd, hrb, h0, hR.txBlockCnt, evalCmp_ge_pint, this]
/-! ### stepping through a block -/

theorem cons_next {M : Meths} {env env' : Env} {s : PStmt} {rest : PBlock}
    (h : execStmt M env s = .ok (.next env')) : execBlock M env (.cons s rest) = execBlock M env' rest := by
  simp only [execBlock, h, ok_bind]
theorem cons_err {M : Meths} {env : Env} {s : PStmt} {rest : PBlock} {e : PErr}
    (h : execStmt M env s = .error e) : execBlock M env (.cons s rest) = .error e := by
  simp only [execBlock, h, error_bind]
theorem cons_ret {M : Meths} {env env' : Env} {s : PStmt} {rest : PBlock} {v : PV}
    (h : execStmt M env s = .ok (.returned v env')) : execBlock M env (.cons s rest) = .ok (.returned v env') := by
  simp only [execBlock, h, ok_bind]
theorem block_nil (M : Meths) (env : Env) : execBlock M env .nil = .ok (.next env) := by simp only [execBlock]
theorem block_single (M : Meths) (env : Env) (s : PStmt) : execBlock M env (.cons s .nil) = execStmt M env s := by
  simp only [execBlock]
  cases execStmt M env s with
  | error e => rfl
  | ok f => cases f <;> rfl
theorem ite_true {M : Meths} {env : Env} {c : PExpr} {t e : PBlock} {v : PV}
    (hc : eval M env c = .ok v) (ht : truthy v = .ok true) : execStmt M env (.ite c t e) = execBlock M env t := by
  simp only [execStmt, hc, ok_bind, ht, if_true]
theorem ite_false {M : Meths} {env : Env} {c : PExpr} {t e : PBlock} {v : PV}
    (hc : eval M env c = .ok v) (ht : truthy v = .ok false) : execStmt M env (.ite c t e) = execBlock M env e := by
  simp only [execStmt, hc, ok_bind, ht, Bool.false_eq_true, if_false]

def condOf : PStmt → PExpr
  | .ite c _ _ => c
  | _ => .none

theorem txM_eq {s s' : State} (h1 : s'.cfg = s.cfg) (h2 : s'.addr = s.addr) (h3 : s'.now = s.now) (h4 : s'.rl = s.rl) :
    txM s' = txM s := by
  unfold txM; rw [h1, h2, h3, h4]

theorem consumeActive_spec (s : State) (r : Req) (n : Nat) (e : Bool) :
    (s.consumeActive r n e).2.1 = (r.consume n e).1 ∧ (s.consumeActive r n e).2.2 = (r.consume n e).2 ∧
    (s.consumeActive r n e).1.active = some (r.consume n e).1 ∧
    (s.consumeActive r n e).1.cfg = s.cfg ∧ (s.consumeActive r n e).1.addr = s.addr ∧ (s.consumeActive r n e).1.now = s.now ∧
    (s.consumeActive r n e).1.rl = s.rl ∧ (s.consumeActive r n e).1.txSeq = s.txSeq ∧
    (s.consumeActive r n e).1.remoteBs = s.remoteBs ∧ (s.consumeActive r n e).1.txState = s.txState ∧
    (s.consumeActive r n e).1.txFrameLen = s.txFrameLen := by
  unfold State.consumeActive
  simp only
  split <;> simp [State.emit]

theorem min_builtin (x y : Nat) : evalBuiltin "min" [pint x, pint y] = some (.ok (pint (min x y : Nat))) := by
  have e : evalBuiltin "min" [pint x, pint y] = some (.ok (if (y : Int) < x then pint y else pint x)) := rfl
  rw [e]; congr 2
  by_cases h : (y : Int) < x
  · rw [if_pos h]; congr 3; omega
  · rw [if_neg h]; congr 3; omega

/-- a request that has not over-consumed never raises `BadGeneratorError` on an inexact read within the remaining size -/
theorem consume_inexact_some (r : Req) (n : Nat) (hn : n ≤ r.remaining) (hle : r.consumed ≤ r.size) :
    ∃ d, (r.consume n false).2 = some d := by
  unfold Req.consume Req.remaining at *
  simp only
  have : (List.take n r.src).length ≤ n := by simp [List.length_take]; omega
  split
  · omega
  · split <;> exact ⟨_, rfl⟩
theorem tcfFrame_spec {s s2 : State} {p : Bytes} {out : Option CanMsg} (h : tcfFrame s p = some (s2, out)) :
    s2.active = s.active ∧ s2.remoteBs = s.remoteBs ∧ s2.cfg = s.cfg ∧ s2.addr = s.addr ∧ s2.now = s.now ∧ s2.rl = s.rl := by
  unfold tcfFrame at h
  split at h
  · split at h
    · cases h
    · simp only [Option.some.injEq, Prod.mk.injEq] at h
      obtain ⟨rfl, -⟩ := h
      exact ⟨rfl, rfl, rfl, rfl, rfl, rfl⟩
  · simp only [Option.some.injEq, Prod.mk.injEq] at h
    obtain ⟨rfl, -⟩ := h
    exact ⟨rfl, rfl, rfl, rfl, rfl, rfl⟩

abbrev TCF : PBlock := Src.TransportLayerLogic_p_process_tx__transmit_cf
/-- body of `if self.timer_tx_stmin.is_timed_out():` -/
def tcfA : PBlock := thenOf (nth TCF 2)
/-- body of `if payload_length <= allowed_bytes:` -/
def tcfG : PBlock := thenOf (nth tcfA 2)

theorem tcf_shape : TCF = .cons (nth TCF 0) (.cons (nth TCF 1) (.cons (.ite (condOf (nth TCF 2)) tcfA .nil) .nil)) := rfl
theorem tcfA_shape : tcfA = .cons (nth tcfA 0) (.cons (nth tcfA 1)
    (.cons (.ite (condOf (nth tcfA 2)) tcfG (.cons .pass .nil)) .nil)) := rfl
theorem tcfG_shape : tcfG = .cons (nth tcfG 0) (.cons tcfFrameStmt (.cons tcfTailStmt .nil)) := rfl

/-- the locals the region writes -/
def tcfLocals : List String :=
  ["data_length", "payload_length", "payload", "msg_data", "arbitration_id", "output_msg", "immediate_rx_msg_required"]

theorem transmit_cf_agrees (s : State) (env : Env) (allowed : Nat) (hR : Rep env s)
    (hal : env "allowed_bytes" = some (pint allowed))
    (ho : env "output_msg" = some pnone) (hi : env "immediate_rx_msg_required" = some (pbool false))
    (hseq : s.txSeq < 16) (hdl : 1 + s.txPrefixLen ≤ s.cfg.txDl)
    (hinv : ∀ r, s.active = some r → r.consumed ≤ r.size) :
    match transmitCfR s allowed with
    | .raised _ e => execBlock (txM s) env TCF = .error (.exc e)
    | .badGen _ => False
    | .done s' out imm =>
      ∃ env', execBlock (txM s) env TCF = .ok (.next env') ∧ Rep env' s' ∧
        env' "output_msg" = some (optMsgPV out) ∧ env' "immediate_rx_msg_required" = some (pbool imm) ∧
        Frame tcfLocals env env' := by
  unfold transmitCfR
  rw [tcf_shape]
  cases hb : s.remoteBs with
  | none =>
    simp only
    have h0 : execStmt (txM s) env (nth TCF 0) = .error (.exc .AssertionError) := by
      simp [TCF, nth, Src.TransportLayerLogic_p_process_tx__transmit_cf, execStmt, eval, hR.remoteBs, hb, optPV]
    rw [cons_err h0]
  | some rbs =>
    have hrb := hR.remoteBs
    simp only [hb, optPV] at hrb
    have h0 : execStmt (txM s) env (nth TCF 0) = .ok (.next env) := by
      simp [TCF, nth, Src.TransportLayerLogic_p_process_tx__transmit_cf, execStmt, eval, hrb]
    rw [cons_next h0]
    cases ha : s.active with
    | none =>
      simp only
      have h1 : execStmt (txM s) env (nth TCF 1) = .error (.exc .AssertionError) := by
        simp [TCF, nth, Src.TransportLayerLogic_p_process_tx__transmit_cf, execStmt, eval, hR.active, ha, objPV]
      rw [cons_err h1]
    | some r =>
      simp only
      have hq := hR.req r ha
      have hle := hinv r ha
      have h1 : execStmt (txM s) env (nth TCF 1) = .ok (.next env) := by
        simp [TCF, nth, Src.TransportLayerLogic_p_process_tx__transmit_cf, execStmt, eval, hR.active, ha, objPV]
      rw [cons_next h1, block_single]
      have hc : eval (txM s) env (condOf (nth TCF 2)) = .ok (pbool (s.timerStmin.timedOut s.now)) := by
        simp [TCF, nth, condOf, Src.TransportLayerLogic_p_process_tx__transmit_cf, eval, evalArgs, bi_none, fn_st_timed_out,
          hR.stStart, hR.stTo, timedOutP_timer]
      by_cases ht : s.timerStmin.timedOut s.now = true
      · rw [ite_true hc (by simp [ht])]
        simp only [ht, if_true]
        rw [tcfA_shape]
        -- data_length, payload_length
        have hA0 : execStmt (txM s) env (nth tcfA 0) =
            .ok (.next (env.set "data_length" (pint ((s.cfg.txDl - 1 - s.txPrefixLen : Nat) : Int)))) := by
          have e : ((s.cfg.txDl : Int) - 1 - (s.addr.tx.txPrefix.length : Int)) = ((s.cfg.txDl - 1 - s.txPrefixLen : Nat) : Int) := by
            unfold State.txPrefixLen at *; omega
          simp [tcfA, TCF, nth, thenOf, Src.TransportLayerLogic_p_process_tx__transmit_cf, execStmt, eval, evalArgs, hR.txDl,
            bi_none, fn_prefix, builtin_len_bytes, e]
        rw [cons_next hA0]
        have R1 := hR.setOther (k := "data_length") (by decide) (pint ((s.cfg.txDl - 1 - s.txPrefixLen : Nat) : Int))
        have hA1 : execStmt (txM s) (env.set "data_length" (pint ((s.cfg.txDl - 1 - s.txPrefixLen : Nat) : Int))) (nth tcfA 1) =
            .ok (.next ((env.set "data_length" (pint ((s.cfg.txDl - 1 - s.txPrefixLen : Nat) : Int))).set "payload_length"
              (pint ((min (s.cfg.txDl - 1 - s.txPrefixLen) r.remaining : Nat) : Int)))) := by
          simp only [tcfA, TCF, nth, thenOf, Src.TransportLayerLogic_p_process_tx__transmit_cf, execStmt, eval, evalArgs, ok_bind,
            set_get, if_true, bi_none _ _ (by decide : "self.active_send_request.generator.remaining_size" ∉ _), fn_remaining,
            genRemaining_rep (R1.req r ha) hle, min_builtin]
        rw [cons_next hA1, block_single]
        have R2 := R1.setOther (k := "payload_length") (by decide)
          (pint ((min (s.cfg.txDl - 1 - s.txPrefixLen) r.remaining : Nat) : Int))
        generalize hn : min (s.cfg.txDl - 1 - s.txPrefixLen) r.remaining = n at *
        generalize he2 : (env.set "data_length" (pint ((s.cfg.txDl - 1 - s.txPrefixLen : Nat) : Int))).set "payload_length"
          (pint (n : Int)) = env2 at *
        have hF2 : Frame ["data_length", "payload_length"] env env2 := by
          rw [← he2]
          exact ((Frame.refl _ env).set (.inr (by decide)) _).set (.inr (by decide)) _
        have hpl : env2 "payload_length" = some (pint n) := by rw [← he2]; simp [set_get]
        have hal2 : env2 "allowed_bytes" = some (pint allowed) := by
          rw [hF2 _ (by decide) (by decide)]; exact hal
        have ho2 : env2 "output_msg" = some pnone := by rw [hF2 _ (by decide) (by decide)]; exact ho
        have hi2 : env2 "immediate_rx_msg_required" = some (pbool false) := by rw [hF2 _ (by decide) (by decide)]; exact hi
        have hc2 : eval (txM s) env2 (condOf (nth tcfA 2)) = .ok (pbool (decide (n ≤ allowed))) := by
          simp [tcfA, TCF, nth, condOf, thenOf, Src.TransportLayerLogic_p_process_tx__transmit_cf, eval, hpl, hal2, evalCmp_le_pint]
        by_cases hp : n ≤ allowed
        · rw [ite_true hc2 (by simp [hp])]
          simp only [hp, if_true]
          rw [tcfG_shape]
          obtain ⟨c1, c2, c3, c4, c5, c6, c7, c8, c9, -, -⟩ := consumeActive_spec s r n false
          have hnr : n ≤ r.remaining := by rw [← hn]; exact Nat.min_le_right _ _
          obtain ⟨data, hdata⟩ := consume_inexact_some r n hnr hle
          rcases hca : s.consumeActive r n false with ⟨s1, r', res⟩
          rw [hca] at c1 c2 c3 c4 c5 c6 c7 c8 c9
          simp only at c1 c2 c3 c4 c5 c6 c7 c8 c9
          rw [hdata] at c2
          subst c2
          simp only
          -- consume
          obtain ⟨env3, he3, R3, hp3, hF3⟩ := consumeP_some R2 ha n false data hdata
          rw [hca] at R3
          simp only at R3
          have hG0 : execStmt (txM s) env2 (nth tcfG 0) = .ok (.next env3) := by
            simp [tcfG, tcfA, TCF, nth, thenOf, Src.TransportLayerLogic_p_process_tx__transmit_cf, execStmt, eval, evalArgs, hpl,
              bi_none, proc_consume, he3]
          rw [cons_next hG0]
          have hM1 : txM s1 = txM s := txM_eq c4 c5 c6 c7
          have hfr := tcf_frame_stmt s1 env3 data R3 hp3 (by rw [c8]; exact hseq)
          rw [hM1] at hfr
          cases hfm : tcfFrame s1 data with
          | none =>
            rw [hfm] at hfr
            simp only at hfr ⊢
            rw [cons_err hfr]
          | some p =>
            obtain ⟨s2, out⟩ := p
            rw [hfm] at hfr
            simp only at hfr ⊢
            obtain ⟨env4, he4, R4, ho4, hF4⟩ := hfr
            rw [cons_next he4, block_single]
            obtain ⟨d1, d2, d3, d4, d5, d6⟩ := tcfFrame_spec hfm
            have hM2 : txM s2 = txM s := txM_eq (d3.trans c4) (d4.trans c5) (d5.trans c6) (d6.trans c7)
            obtain ⟨env5, he5, R5, hi5, hF5⟩ := tcf_tail_stmt s2 env4 r' rbs R4 (by rw [d1, c3, c1]) (by rw [d2, c9, hb])
            rw [hM2] at he5
            have ho3 : env3 "output_msg" = some pnone := by rw [hF3 _ (by decide) (by decide)]; exact ho2
            have hi3 : env3 "immediate_rx_msg_required" = some (pbool false) := by rw [hF3 _ (by decide) (by decide)]; exact hi2
            have hi4 : env4 "immediate_rx_msg_required" = some (pbool false) := by rw [hF4 _ (by decide) (by decide)]; exact hi3
            refine ⟨env5, he5, R5, ?_, ?_, ?_⟩
            · rw [hF5 _ (by decide) (by decide)]
              cases out with
              | none => simp only at ho4; rw [ho4, ho3]; rfl
              | some m => simp only at ho4; rw [ho4]; rfl
            · rw [hi5]
              split <;> simp_all
            · exact (((hF2.mono (by simp [tcfLocals])).trans (hF3.mono (by simp [tcfLocals]))).trans
                (hF4.mono (by simp [tcfLocals]))).trans (hF5.mono (by simp [tcfLocals]))
        · rw [ite_false hc2 (by simp [hp])]
          simp only [hp, if_false]
          refine ⟨env2, ?_, R2, ho2, hi2, hF2.mono (by simp [tcfLocals])⟩
          simp [execBlock, execStmt]
      · rw [ite_false hc (by simp [ht])]
        simp only [ht, if_false, Bool.false_eq_true]
        exact ⟨env, block_nil _ _, hR, ho, hi, Frame.refl _ _⟩

/-! ### header bytes -/

theorem shr_ev (x : Nat) (k : Int) (hk : 0 ≤ k) : evalBinop .shr (pint x) (pint k) = .ok (pint ((x >>> k.toNat : Nat))) := by
  rw [evalBinop_shr _ _ (Int.natCast_nonneg _) hk]; simp
theorem band_ev (x : Nat) (k : Int) (hk : 0 ≤ k) : evalBinop .band (pint x) (pint k) = .ok (pint ((x &&& k.toNat : Nat))) := by
  rw [evalBinop_band _ _ (Int.natCast_nonneg _) hk]; simp
theorem bor_lit (k : Int) (hk : 0 ≤ k) (y : Nat) : evalBinop .bor (pint k) (pint y) = .ok (pint ((k.toNat ||| y : Nat))) := by
  rw [evalBinop_bor _ _ hk (Int.natCast_nonneg _)]; simp

theorem shr8 (x : Nat) : x >>> 8 = x / 256 := by simp [Nat.shiftRight_eq_div_pow]
theorem shr16 (x : Nat) : x >>> 16 = x / 65536 := by simp [Nat.shiftRight_eq_div_pow]
theorem shr24 (x : Nat) : x >>> 24 = x / 16777216 := by simp [Nat.shiftRight_eq_div_pow]

/-- `0x10 | ((L >> 8) & 0xF)` is the model's `0x10 + L / 256 % 16` -/
theorem ff_hi (L : Nat) : 16 ||| ((L >>> 8) &&& 15) = 16 + L / 256 % 16 := by
  rw [and_f, shr8, or_eq_add 16 _ 4 (by decide) (by simpa using Nat.mod_lt _ (by decide))]

theorem mapM_sc (xs : List Sc) :
    (xs.map PV.sc).mapM (fun v => match v with | .sc s => Except.ok s | _ => Except.error (PErr.unsupported "non-scalar list element"))
      = (Except.ok xs : Except PErr (List Sc)) := by
  induction xs with
  | nil => rfl
  | cons x xs ih => simp [List.mapM_cons, ih]

/-- `[0x10 | ((self.tx_frame_length >> 8) & 0xF), self.tx_frame_length & 0xFF]` -/
theorem hdr12_eval (M : Meths) (env : Env) (L : Nat) (h : env "self.tx_frame_length" = some (pint L)) :
    eval M env (.lst (.cons (.binop .bor (.int (16)) (.binop .band (.binop .shr (.var "self.tx_frame_length") (.int (8))) (.int (15))))
      (.cons (.binop .band (.var "self.tx_frame_length") (.int (255))) .nil))) =
    .ok (.list [.py (.int ((16 + L / 256 % 16 : Nat) : Int)), .py (.int ((L % 256 : Nat) : Int))]) := by
  have e := mapM_sc [.py (.int ((16 + L / 256 % 16 : Nat) : Int)), .py (.int ((L % 256 : Nat) : Int))]
  simp only [List.map] at e
  simp only [eval, evalArgs, h, ok_bind, shr_ev _ 8 (by decide), band_ev _ 15 (by decide), band_ev _ 255 (by decide),
    bor_lit 16 (by decide), Int.reduceToNat, ff_hi, and_ff]
  exact congrArg (fun x => x >>= fun scs => Except.ok (PV.list scs)) e

theorem bytesOfScs_two (a b : Nat) (ha : a ≤ 255) (hb : b ≤ 255) :
    bytesOfScs [.py (.int (a : Int)), .py (.int (b : Int))] = .ok [u8 a, u8 b] := by
  have ha' : (a : Int) ≤ 255 := by omega
  have hb' : (b : Int) ≤ 255 := by omega
  simp [bytesOfScs, Sc.isInt, Sc.intVal, PyVal.isInt, PyVal.intVal, ha', hb', u8]

/-- `bytearray([...])` of small naturals -/
theorem bytesOfScs_nats (xs : List Nat) (h : ∀ x ∈ xs, x ≤ 255) :
    bytesOfScs (xs.map fun n : Nat => Sc.py (.int (n : Int))) = .ok (xs.map u8) := by
  induction xs with
  | nil => rfl
  | cons x xs ih =>
    have hx : (x : Int) ≤ 255 := by have := h x (by simp); omega
    have ih' := ih (fun y hy => h y (by simp [hy]))
    simp only [List.map] at ih' ⊢
    simp [bytesOfScs, Sc.isInt, Sc.intVal, PyVal.isInt, PyVal.intVal, hx, u8, ih']

/-- `[0x10, 0x00, (L >> 24) & 0xFF, (L >> 16) & 0xFF, (L >> 8) & 0xFF, (L >> 0) & 0xFF]` -/
theorem hdr32_eval (M : Meths) (env : Env) (L : Nat) (h : env "self.tx_frame_length" = some (pint L)) :
    eval M env (.lst (.cons (.int (16)) (.cons (.int (0))
      (.cons (.binop .band (.binop .shr (.var "self.tx_frame_length") (.int (24))) (.int (255)))
      (.cons (.binop .band (.binop .shr (.var "self.tx_frame_length") (.int (16))) (.int (255)))
      (.cons (.binop .band (.binop .shr (.var "self.tx_frame_length") (.int (8))) (.int (255)))
      (.cons (.binop .band (.binop .shr (.var "self.tx_frame_length") (.int (0))) (.int (255))) .nil))))))) =
    .ok (.list ([16, 0, L / 16777216 % 256, L / 65536 % 256, L / 256 % 256, L % 256].map fun n : Nat => Sc.py (.int (n : Int)))) := by
  have e := mapM_sc ([16, 0, L / 16777216 % 256, L / 65536 % 256, L / 256 % 256, L % 256].map fun n : Nat => Sc.py (.int (n : Int)))
  simp only [List.map] at e
  simp only [eval, evalArgs, h, ok_bind, shr_ev _ 24 (by decide), shr_ev _ 16 (by decide), shr_ev _ 8 (by decide),
    shr_ev _ 0 (by decide), band_ev _ 255 (by decide), Int.reduceToNat, and_ff, shr8, shr16, shr24, Nat.shiftRight_zero, List.map]
  exact congrArg (fun x => x >>= fun scs => Except.ok (PV.list scs)) e

/-- `[0x0 | len(payload)]` -/
theorem hdrSf1_eval (M : Meths) (env : Env) (p : Bytes) (h : env "payload" = some (.bytes p)) :
    eval M env (.lst (.cons (.binop .bor (.int (0)) (.call "len" (.cons (.var "payload") .nil))) .nil)) =
    .ok (.list ([p.length].map fun n : Nat => Sc.py (.int (n : Int)))) := by
  have e := mapM_sc ([p.length].map fun n : Nat => Sc.py (.int (n : Int)))
  simp only [List.map] at e
  simp only [eval, evalArgs, h, ok_bind, builtin_len_bytes, bor_lit 0 (by decide), Int.reduceToNat, Nat.zero_or, List.map]
  exact congrArg (fun x => x >>= fun scs => Except.ok (PV.list scs)) e

/-- `[0x0, len(payload)]` -/
theorem hdrSf2_eval (M : Meths) (env : Env) (p : Bytes) (h : env "payload" = some (.bytes p)) :
    eval M env (.lst (.cons (.int (0)) (.cons (.call "len" (.cons (.var "payload") .nil)) .nil))) =
    .ok (.list ([0, p.length].map fun n : Nat => Sc.py (.int (n : Int)))) := by
  have e := mapM_sc ([0, p.length].map fun n : Nat => Sc.py (.int (n : Int)))
  simp only [List.map] at e
  simp only [eval, evalArgs, h, ok_bind, builtin_len_bytes, List.map]
  exact congrArg (fun x => x >>= fun scs => Except.ok (PV.list scs)) e

/-- `msg_data = self.address.get_tx_payload_prefix() + bytearray([...]) + payload` -/
theorem assign_msg_data (c : Cfg) (a : Addr) (now : Nat) (rl : Limiter) (env : Env) (lst : PExpr) (xs : List Nat) (payload : Bytes)
    (hl : eval (txMeths c a now rl) env lst = .ok (.list (xs.map fun n : Nat => Sc.py (.int (n : Int)))))
    (hx : ∀ x ∈ xs, x ≤ 255) (hp : env "payload" = some (.bytes payload)) :
    execStmt (txMeths c a now rl) env (.assign "msg_data" (.binop .add (.binop .add (.call "self.address.get_tx_payload_prefix" .nil)
      (.call "bytearray" (.cons lst .nil))) (.var "payload"))) =
    .ok (.next (env.set "msg_data" (.bytes (a.tx.txPrefix ++ xs.map u8 ++ payload)))) := by
  simp only [execStmt, eval, evalArgs, hl, hp, ok_bind, bi_none _ _ (by decide : "self.address.get_tx_payload_prefix" ∉ _),
    bi_none _ _ (by decide : "bytearray" ∉ _), fn_prefix, fn_bytearray, bytesOfScs_nats xs hx, map_ok, add_bytes]

/-! ## 3. Regions `before_start` and `start_tx` -/

/-- `size_on_first_byte` as the three statements of `before_start` compute it -/
def sizeOnFirstM (s : State) (r : Req) : Bool :=
  decide (r.remaining + s.txPrefixLen ≤ 7) && !(match s.cfg.txMinLen with | some m => decide (m > 8) | none => false)

/-- `State.startTx`, with the way it ends made explicit -/
def startTxR (s : State) (r : Req) (allowed : Nat) : Outcome :=
  let pl := s.txPrefixLen
  let off := if sizeOnFirstM s r then 1 else 2
  let total := r.size
  if total + off + pl ≤ s.cfg.txDl then
    match s.consumeActive r total true with
    | (s1, _, none) => .badGen s1
    | (s1, _, some payload) =>
      let hdr : Bytes := if sizeOnFirstM s r then [u8 payload.length] else [0, u8 payload.length]
      let msgData := s1.addr.tx.txPrefix ++ hdr ++ payload
      match makeTxMsg s1.cfg s1.addr (s1.addr.tx.txId r.tat) msgData with
      | none => .raised s1 .ValueError
      | some msg =>
        if msgData.length > allowed then .done { s1 with standby := some msg, txState := .sfStandby } none false
        else .done (s1.stopSending true) (some msg) false
  else
    let s0 := { s with txFrameLen := total }
    let short := total ≤ 0xFFF
    let dataLen := if short then s0.cfg.txDl - 2 - pl else s0.cfg.txDl - 6 - pl
    match s0.consumeActive r dataLen true with
    | (s1, _, none) => .badGen s1
    | (s1, _, some payload) =>
      let hdr : Bytes :=
        if short then [u8 (0x10 + total / 256 % 16), u8 (total % 256)]
        else [0x10, 0x00, u8 (total / 16777216 % 256), u8 (total / 65536 % 256), u8 (total / 256 % 256), u8 (total % 256)]
      let msgData := s1.addr.tx.txPrefix ++ hdr ++ payload
      let s2 := { s1 with txSeq := 1 }
      match makeTxMsg s2.cfg s2.addr (s2.addr.tx.txId .physical) msgData with
      | none => .raised s2 .ValueError
      | some msg =>
        if msgData.length ≤ allowed then .done (({ s2 with txState := .waitFc }).startRxFcTimer) (some msg) false
        else .done { s2 with standby := some msg, txState := .ffStandby } none false

/-- what `startTx` returns for each way of ending: a `BadGeneratorError` is caught by the `try` around the region
    (`_trigger_error(e); _stop_sending(success=False)`), a `ValueError` escapes -/
def startFin : Outcome → State × Option CanMsg
  | .raised s' e => (s'.raise e, none)
  | .badGen s' => ((s'.error .BadGenerator).stopSending false, none)
  | .done s' out _ => (s', out)

/-- the model's function in terms of `startTxR` -/
theorem startTx_eq (s : State) (r : Req) (allowed : Nat) : s.startTx r allowed = startFin (startTxR s r allowed) := by
  unfold State.startTx startTxR sizeOnFirstM
  simp only
  cases hm : s.cfg.txMinLen <;> simp only <;>
  · rcases s.consumeActive r r.size true with ⟨s1, r', res⟩
    rcases ({ s with txFrameLen := r.size } : State).consumeActive r
      (if r.size ≤ 4095 then s.cfg.txDl - 2 - s.txPrefixLen else s.cfg.txDl - 6 - s.txPrefixLen) true with ⟨s1', r'', res'⟩
    cases res <;> cases res' <;> simp only <;> repeat' split
    all_goals first | rfl | (simp_all; done) | (simp_all [startFin]; done)
abbrev BS : PBlock := Src.TransportLayerLogic_p_process_tx__before_start

/-- `Rep` / `Frame` after assignments to locals only -/
macro "rep_locals" hR:ident : tactic =>
  `(tactic| repeat (first | exact $hR | refine Rep.setOther ?_ (by decide) _))
macro "frame_locals" : tactic =>
  `(tactic| repeat (first | exact Frame.refl _ _ | refine Frame.set ?_ (.inr (by decide)) _))

/-- **`before_start`**: the three statements compute the model's `sizeOnFirst` and `off` of `startTx` -/
theorem before_start_agrees (s : State) (env : Env) (r : Req) (hR : Rep env s) (ha : s.active = some r)
    (hle : r.consumed ≤ r.size) :
    ∃ env', execBlock (txM s) env BS = .ok (.next env') ∧ Rep env' s ∧
      env' "size_on_first_byte" = some (pbool (sizeOnFirstM s r)) ∧
      env' "size_offset" = some (pint (if sizeOnFirstM s r then 1 else 2)) ∧
      Frame ["size_on_first_byte", "size_offset"] env env' := by
  have hq := hR.req r ha
  have hrem := genRemaining_rep hq hle
  have hml := hR.txMinLen
  unfold sizeOnFirstM
  by_cases h7 : r.remaining + s.txPrefixLen ≤ 7
  · have h7' : (r.remaining : Int) + (s.addr.tx.txPrefix.length : Int) ≤ 7 := by unfold State.txPrefixLen at h7; omega
    cases hm : s.cfg.txMinLen with
    | none =>
      simp only [hm, optPV] at hml
      refine ⟨?_, ?h1, ?h2, ?h3, ?h4, ?h5⟩
      case h1 =>
        simp [BS, Src.TransportLayerLogic_p_process_tx__before_start, execBlock, execStmt, eval, evalArgs, bi_none, fn_remaining,
          hrem, fn_prefix, builtin_len_bytes, evalCmp_le_pint, h7', hml, set_get]
        rfl
      case h2 => rep_locals hR
      case h3 => simp [set_get, h7]
      case h4 => simp [set_get, h7]
      case h5 => frame_locals
    | some m =>
      simp only [hm, optPV] at hml
      by_cases h8 : m > 8
      · have h8' : (8 : Int) < (m : Int) := by omega
        refine ⟨?_, ?h1, ?h2, ?h3, ?h4, ?h5⟩
        case h1 =>
          simp [BS, Src.TransportLayerLogic_p_process_tx__before_start, execBlock, execStmt, eval, evalArgs, bi_none, fn_remaining,
            hrem, fn_prefix, builtin_len_bytes, evalCmp_le_pint, evalCmp_gt_pint, h7', hml, set_get, h8']
          rfl
        case h2 => rep_locals hR
        case h3 => simp [set_get, h7, h8]
        case h4 => simp [set_get, h7, h8]
        case h5 => frame_locals
      · have h8' : ¬ (8 : Int) < (m : Int) := by omega
        refine ⟨?_, ?h1, ?h2, ?h3, ?h4, ?h5⟩
        case h1 =>
          simp [BS, Src.TransportLayerLogic_p_process_tx__before_start, execBlock, execStmt, eval, evalArgs, bi_none, fn_remaining,
            hrem, fn_prefix, builtin_len_bytes, evalCmp_le_pint, evalCmp_gt_pint, h7', hml, set_get, h8']
          rfl
        case h2 => rep_locals hR
        case h3 => simp [set_get, h7, h8]
        case h4 => simp [set_get, h7, h8]
        case h5 => frame_locals
  · have h7' : ¬ (r.remaining : Int) + (s.addr.tx.txPrefix.length : Int) ≤ 7 := by unfold State.txPrefixLen at h7; omega
    cases hm : s.cfg.txMinLen with
    | none =>
      simp only [hm, optPV] at hml
      refine ⟨?_, ?h1, ?h2, ?h3, ?h4, ?h5⟩
      case h1 =>
        simp [BS, Src.TransportLayerLogic_p_process_tx__before_start, execBlock, execStmt, eval, evalArgs, bi_none, fn_remaining,
          hrem, fn_prefix, builtin_len_bytes, evalCmp_le_pint, h7', hml, set_get]
        rfl
      case h2 => rep_locals hR
      case h3 => simp [set_get, h7]
      case h4 => simp [set_get, h7]
      case h5 => frame_locals
    | some m =>
      simp only [hm, optPV] at hml
      by_cases h8 : m > 8
      · have h8' : (8 : Int) < (m : Int) := by omega
        refine ⟨?_, ?h1, ?h2, ?h3, ?h4, ?h5⟩
        case h1 =>
          simp [BS, Src.TransportLayerLogic_p_process_tx__before_start, execBlock, execStmt, eval, evalArgs, bi_none, fn_remaining,
            hrem, fn_prefix, builtin_len_bytes, evalCmp_le_pint, evalCmp_gt_pint, h7', hml, set_get, h8']
          rfl
        case h2 => rep_locals hR
        case h3 => simp [set_get, h7, h8]
        case h4 => simp [set_get, h7, h8]
        case h5 => frame_locals
      · have h8' : ¬ (8 : Int) < (m : Int) := by omega
        refine ⟨?_, ?h1, ?h2, ?h3, ?h4, ?h5⟩
        case h1 =>
          simp [BS, Src.TransportLayerLogic_p_process_tx__before_start, execBlock, execStmt, eval, evalArgs, bi_none, fn_remaining,
            hrem, fn_prefix, builtin_len_bytes, evalCmp_le_pint, evalCmp_gt_pint, h7', hml, set_get, h8']
          rfl
        case h2 => rep_locals hR
        case h3 => simp [set_get, h7, h8]
        case h4 => simp [set_get, h7, h8]
        case h5 => frame_locals

abbrev ST : PBlock := Src.TransportLayerLogic_p_process_tx__start_tx

def drop : PBlock → Nat → PBlock
  | b, 0 => b
  | .nil, _ + 1 => .nil
  | .cons _ r, n + 1 => drop r n

/-- Single Frame branch / First Frame branch of the `try` body -/
def stSF : PBlock := thenOf (nth ST 1)
def stFF : PBlock := elseOf (nth ST 1)

/-- end of the Single Frame branch: `_make_tx_msg`, then standby or emission -/
def sfFinM (s1 : State) (tat : Tat) (md : Bytes) (allowed : Nat) : Outcome :=
  match makeTxMsg s1.cfg s1.addr (s1.addr.tx.txId tat) md with
  | none => .raised s1 .ValueError
  | some msg =>
    if md.length > allowed then .done { s1 with standby := some msg, txState := .sfStandby } none false
    else .done (s1.stopSending true) (some msg) false

theorem sf_finish (s1 : State) (env : Env) (r1 : Req) (md : Bytes) (allowed : Nat) (hR : Rep env s1)
    (ha : s1.active = some r1) (hmd : env "msg_data" = some (.bytes md))
    (hal : env "allowed_bytes" = some (pint allowed)) (ho : env "output_msg" = some pnone) :
    match sfFinM s1 r1.tat md allowed with
    | .raised _ e => execBlock (txM s1) env (drop stSF 2) = .error (.exc e)
    | .badGen _ => False
    | .done s' out _ =>
      ∃ env', execBlock (txM s1) env (drop stSF 2) = .ok (.next env') ∧ Rep env' s' ∧
        env' "output_msg" = some (optMsgPV out) ∧ Frame ["arbitration_id", "msg_temp", "output_msg"] env env' := by
  have hq := hR.req r1 ha
  unfold sfFinM
  cases hm : makeTxMsg s1.cfg s1.addr (s1.addr.tx.txId r1.tat) md with
  | none =>
    simp only
    simp [stSF, ST, drop, nth, thenOf, Src.TransportLayerLogic_p_process_tx__start_tx, execBlock, execStmt, eval, evalArgs, bi_none,
      hq.tat, fn_arb1, set_get, hmd, fn_make_tx_msg, hm]
  | some msg =>
    simp only
    by_cases hgt : md.length > allowed
    · simp only [hgt, if_true]
      have hgt' : (allowed : Int) < (md.length : Int) := by omega
      refine ⟨?_, ?h1, ?h2, ?h3, ?h4⟩
      case h1 =>
        simp [stSF, ST, drop, nth, thenOf, Src.TransportLayerLogic_p_process_tx__start_tx, execBlock, execStmt, eval, evalArgs,
          bi_none, hq.tat, fn_arb1, set_get, hmd, fn_make_tx_msg, hm, builtin_len_bytes, hal, evalCmp_gt_pint, hgt',
          hR.consts.sfStandby]
        rfl
      case h2 =>
        have := (((hR.setOther (k := "arbitration_id") (by decide) (pint (s1.addr.tx.txId r1.tat))).setOther (k := "msg_temp")
          (by decide) (msgPV msg)).setStandby (some msg)).setTxState .sfStandby
        simpa [optMsgPV] using this
      case h3 => simp [set_get, ho, optMsgPV]
      case h4 =>
        exact ((((Frame.refl _ env).set (.inr (by decide)) _).set (.inr (by decide)) _).set (.inl (by decide)) _).set
          (.inl (by decide)) _
    · simp only [hgt, if_false]
      have hgt' : ¬ (allowed : Int) < (md.length : Int) := by omega
      have R1 : Rep (((env.set "arbitration_id" (pint (s1.addr.tx.txId r1.tat))).set "msg_temp" (msgPV msg)).set "output_msg"
          (msgPV msg)) s1 :=
        ((hR.setOther (by decide) _).setOther (by decide) _).setOther (by decide) _
      obtain ⟨env', he, hR', hF⟩ := stopP_rep R1 true []
      refine ⟨env', ?_, hR', ?_, ?_⟩
      · simp [stSF, ST, drop, nth, thenOf, Src.TransportLayerLogic_p_process_tx__start_tx, execBlock, execStmt, eval, evalArgs,
          bi_none, hq.tat, fn_arb1, set_get, hmd, fn_make_tx_msg, hm, builtin_len_bytes, hal, evalCmp_gt_pint, hgt',
          proc_stop, he]
      · rw [hF _ (by decide) (by simp)]; simp [set_get, optMsgPV]
      · exact ((((Frame.refl _ env).set (.inr (by decide)) _).set (.inr (by decide)) _).set (.inr (by decide)) _).trans
          (hF.mono (by simp))

/-- end of the First Frame branch: `tx_seqnum = 1`, `_make_tx_msg`, then emission (wait for Flow Control) or standby -/
def ffFinM (s1 : State) (md : Bytes) (allowed : Nat) : Outcome :=
  let s2 := { s1 with txSeq := 1 }
  match makeTxMsg s2.cfg s2.addr (s2.addr.tx.txId .physical) md with
  | none => .raised s2 .ValueError
  | some msg =>
    if md.length ≤ allowed then .done (({ s2 with txState := .waitFc }).startRxFcTimer) (some msg) false
    else .done { s2 with standby := some msg, txState := .ffStandby } none false

theorem ff_finish (s1 : State) (env : Env) (md : Bytes) (allowed : Nat) (hR : Rep env s1)
    (hmd : env "msg_data" = some (.bytes md))
    (hal : env "allowed_bytes" = some (pint allowed)) (ho : env "output_msg" = some pnone) :
    match ffFinM s1 md allowed with
    | .raised _ e => execBlock (txM s1) env (drop stFF 3) = .error (.exc e)
    | .badGen _ => False
    | .done s' out _ =>
      ∃ env', execBlock (txM s1) env (drop stFF 3) = .ok (.next env') ∧ Rep env' s' ∧
        env' "output_msg" = some (optMsgPV out) ∧ Frame ["arbitration_id", "msg_temp", "output_msg"] env env' := by
  unfold ffFinM
  simp only
  cases hm : makeTxMsg s1.cfg s1.addr (s1.addr.tx.txId .physical) md with
  | none =>
    simp only
    simp [stFF, ST, drop, nth, elseOf, Src.TransportLayerLogic_p_process_tx__start_tx, execBlock, execStmt, eval, evalArgs, bi_none,
      fn_arb0, set_get, hmd, fn_make_tx_msg, hm]
  | some msg =>
    simp only
    by_cases hle : md.length ≤ allowed
    · simp only [hle, if_true]
      have hle' : (md.length : Int) ≤ (allowed : Int) := by omega
      refine ⟨?_, ?h1, ?h2, ?h3, ?h4⟩
      case h1 =>
        simp [stFF, ST, drop, nth, elseOf, Src.TransportLayerLogic_p_process_tx__start_tx, execBlock, execStmt, eval, evalArgs,
          bi_none, fn_arb0, set_get, hmd, fn_make_tx_msg, hm, builtin_len_bytes, hal, evalCmp_le_pint, hle',
          hR.consts.waitFc, proc_start_fc]
        rfl
      case h2 =>
        have := ((((((hR.setOther (k := "arbitration_id") (by decide) (pint (s1.addr.tx.txId .physical))).setTxSeq 1).setOther
          (k := "msg_temp") (by decide) (msgPV msg)).setOther (k := "output_msg") (by decide) (msgPV msg)).setTxState .waitFc).startFc)
        simpa using this
      case h3 => simp [set_get, optMsgPV]
      case h4 =>
        exact (((((((Frame.refl _ env).set (.inr (by decide)) _).set (.inl (by decide)) _).set (.inr (by decide)) _).set
          (.inr (by decide)) _).set (.inl (by decide)) _).set (.inl (by decide)) _).set (.inl (by decide)) _
    · simp only [hle, if_false]
      have hle' : ¬ (md.length : Int) ≤ (allowed : Int) := by omega
      refine ⟨?_, ?h1, ?h2, ?h3, ?h4⟩
      case h1 =>
        simp [stFF, ST, drop, nth, elseOf, Src.TransportLayerLogic_p_process_tx__start_tx, execBlock, execStmt, eval, evalArgs,
          bi_none, fn_arb0, set_get, hmd, fn_make_tx_msg, hm, builtin_len_bytes, hal, evalCmp_le_pint, hle',
          hR.consts.ffStandby]
        rfl
      case h2 =>
        have := (((((hR.setOther (k := "arbitration_id") (by decide) (pint (s1.addr.tx.txId .physical))).setTxSeq 1).setOther
          (k := "msg_temp") (by decide) (msgPV msg)).setStandby (some msg)).setTxState .ffStandby)
        simpa [optMsgPV] using this
      case h3 => simp [set_get, ho, optMsgPV]
      case h4 =>
        exact (((((Frame.refl _ env).set (.inr (by decide)) _).set (.inl (by decide)) _).set (.inr (by decide)) _).set
          (.inl (by decide)) _).set (.inl (by decide)) _

theorem consume_len_le {r : Req} {n : Nat} {e : Bool} {d : Bytes} (h : (r.consume n e).2 = some d) : d.length ≤ n := by
  unfold Req.consume at h
  simp only at h
  split at h
  · cases h
  · split at h
    · split at h
      · cases h
      · cases h; simp [List.length_take]; omega
    · cases h; simp [List.length_take]; omega

theorem txPrefix_len_le (h : Half) : h.txPrefix.length ≤ 1 := by
  unfold Half.txPrefix; split <;> simp

theorem ST_shape : ST = .cons (nth ST 0) (.cons (.ite (condOf (nth ST 1)) stSF stFF) .nil) := rfl
theorem stSF_shape : stSF = .cons (nth stSF 0) (.cons (.ite (.var "size_on_first_byte")
    (.cons (nth (thenOf (nth stSF 1)) 0) .nil) (.cons (nth (elseOf (nth stSF 1)) 0) .nil)) (drop stSF 2)) := rfl
theorem stFF_shape : stFF = .cons (nth stFF 0) (.cons (nth stFF 1) (.cons (.ite (.var "encode_length_on_2_first_bytes")
    (thenOf (nth stFF 2)) (elseOf (nth stFF 2))) (drop stFF 3))) := rfl
theorem ffA_shape : thenOf (nth stFF 2) =
    .cons (nth (thenOf (nth stFF 2)) 0) (.cons (nth (thenOf (nth stFF 2)) 1) (.cons (nth (thenOf (nth stFF 2)) 2) .nil)) := rfl
theorem ffB_shape : elseOf (nth stFF 2) =
    .cons (nth (elseOf (nth stFF 2)) 0) (.cons (nth (elseOf (nth stFF 2)) 1) (.cons (nth (elseOf (nth stFF 2)) 2) .nil)) := rfl

/-- the locals the region writes -/
def stLocals : List String :=
  ["total_size", "payload", "msg_data", "arbitration_id", "msg_temp", "output_msg", "encode_length_on_2_first_bytes", "data_length"]

/-- the First Frame data: `data_length = ...; payload = consume(data_length, True); msg_data = prefix + header + payload` -/
theorem ff_data (s0 : State) (env : Env) (r : Req) (hR : Rep env s0) (ha : s0.active = some r)
    (hdl : 8 ≤ s0.cfg.txDl)
    (henc : env "encode_length_on_2_first_bytes" = some (pbool (decide (s0.txFrameLen ≤ 0xFFF)))) :
    let pl := s0.txPrefixLen
    let dataLen := if s0.txFrameLen ≤ 0xFFF then s0.cfg.txDl - 2 - pl else s0.cfg.txDl - 6 - pl
    let total := s0.txFrameLen
    let hdr : Bytes :=
      if total ≤ 0xFFF then [u8 (0x10 + total / 256 % 16), u8 (total % 256)]
      else [0x10, 0x00, u8 (total / 16777216 % 256), u8 (total / 65536 % 256), u8 (total / 256 % 256), u8 (total % 256)]
    match (r.consume dataLen true).2 with
    | none => execStmt (txM s0) env (.ite (.var "encode_length_on_2_first_bytes") (thenOf (nth stFF 2)) (elseOf (nth stFF 2))) =
        .error (.unsupported "raise BadGeneratorError")
    | some payload =>
      ∃ env', execStmt (txM s0) env (.ite (.var "encode_length_on_2_first_bytes") (thenOf (nth stFF 2)) (elseOf (nth stFF 2))) =
          .ok (.next env') ∧ Rep env' (s0.consumeActive r dataLen true).1 ∧
        env' "msg_data" = some (.bytes (s0.addr.tx.txPrefix ++ hdr ++ payload)) ∧
        Frame ["data_length", "payload", "msg_data"] env env' := by
  have hpl : s0.txPrefixLen ≤ 1 := txPrefix_len_le _
  simp only
  by_cases hs : s0.txFrameLen ≤ 0xFFF
  · simp only [hs, if_true, decide_true] at henc ⊢
    rw [ite_true (v := pbool true) (by simp [eval, henc]) rfl, ffA_shape]
    have e : ((s0.cfg.txDl : Int) - 2 - (s0.addr.tx.txPrefix.length : Int)) = ((s0.cfg.txDl - 2 - s0.txPrefixLen : Nat) : Int) := by
      unfold State.txPrefixLen at *; omega
    have h0 : execStmt (txM s0) env (nth (thenOf (nth stFF 2)) 0) =
        .ok (.next (env.set "data_length" (pint ((s0.cfg.txDl - 2 - s0.txPrefixLen : Nat) : Int)))) := by
      simp [stFF, ST, nth, thenOf, elseOf, Src.TransportLayerLogic_p_process_tx__start_tx, execStmt, eval, evalArgs, hR.txDl,
        bi_none, fn_prefix, builtin_len_bytes, e]
    rw [cons_next h0]
    have R1 := hR.setOther (k := "data_length") (by decide) (pint ((s0.cfg.txDl - 2 - s0.txPrefixLen : Nat) : Int))
    generalize s0.cfg.txDl - 2 - s0.txPrefixLen = n at *
    cases hc : (r.consume n true).2 with
    | none =>
      simp only
      have h1 : execStmt (txM s0) (env.set "data_length" (pint (n : Int))) (nth (thenOf (nth stFF 2)) 1) =
          .error (.unsupported "raise BadGeneratorError") := by
        simp [stFF, ST, nth, thenOf, elseOf, Src.TransportLayerLogic_p_process_tx__start_tx, execStmt, eval, evalArgs, set_get,
          bi_none, proc_consume, consumeP_none R1 ha n true hc]
      rw [cons_err h1]
    | some payload =>
      simp only
      obtain ⟨env2, he2, R2, hp2, hF2⟩ := consumeP_some R1 ha n true payload hc
      have h1 : execStmt (txM s0) (env.set "data_length" (pint (n : Int))) (nth (thenOf (nth stFF 2)) 1) = .ok (.next env2) := by
        simp [stFF, ST, nth, thenOf, elseOf, Src.TransportLayerLogic_p_process_tx__start_tx, execStmt, eval, evalArgs, set_get,
          bi_none, proc_consume, he2]
      rw [cons_next h1, block_single]
      have hfl : env2 "self.tx_frame_length" = some (pint (s0.txFrameLen : Int)) := by
        have := R2.txFrameLen
        rwa [(consumeActive_spec s0 r n true).2.2.2.2.2.2.2.2.2.2] at this
      have h2 := assign_msg_data s0.cfg s0.addr s0.now s0.rl env2 _ [16 + s0.txFrameLen / 256 % 16, s0.txFrameLen % 256] payload
        (hdr12_eval _ env2 s0.txFrameLen hfl) (by intro x hx; simp at hx; omega) hp2
      refine ⟨_, h2, R2.setOther (by decide) _, by simp [set_get], ?_⟩
      exact (((Frame.refl _ env).set (.inr (by decide)) _).trans (hF2.mono (by simp))).set (.inr (by decide)) _
  · simp only [hs, if_false, decide_false] at henc ⊢
    rw [ite_false (v := pbool false) (by simp [eval, henc]) rfl, ffB_shape]
    have e : ((s0.cfg.txDl : Int) - 6 - (s0.addr.tx.txPrefix.length : Int)) = ((s0.cfg.txDl - 6 - s0.txPrefixLen : Nat) : Int) := by
      unfold State.txPrefixLen at *; omega
    have h0 : execStmt (txM s0) env (nth (elseOf (nth stFF 2)) 0) =
        .ok (.next (env.set "data_length" (pint ((s0.cfg.txDl - 6 - s0.txPrefixLen : Nat) : Int)))) := by
      simp [stFF, ST, nth, thenOf, elseOf, Src.TransportLayerLogic_p_process_tx__start_tx, execStmt, eval, evalArgs, hR.txDl,
        bi_none, fn_prefix, builtin_len_bytes, e]
    rw [cons_next h0]
    have R1 := hR.setOther (k := "data_length") (by decide) (pint ((s0.cfg.txDl - 6 - s0.txPrefixLen : Nat) : Int))
    generalize s0.cfg.txDl - 6 - s0.txPrefixLen = n at *
    cases hc : (r.consume n true).2 with
    | none =>
      simp only
      have h1 : execStmt (txM s0) (env.set "data_length" (pint (n : Int))) (nth (elseOf (nth stFF 2)) 1) =
          .error (.unsupported "raise BadGeneratorError") := by
        simp [stFF, ST, nth, thenOf, elseOf, Src.TransportLayerLogic_p_process_tx__start_tx, execStmt, eval, evalArgs, set_get,
          bi_none, proc_consume, consumeP_none R1 ha n true hc]
      rw [cons_err h1]
    | some payload =>
      simp only
      obtain ⟨env2, he2, R2, hp2, hF2⟩ := consumeP_some R1 ha n true payload hc
      have h1 : execStmt (txM s0) (env.set "data_length" (pint (n : Int))) (nth (elseOf (nth stFF 2)) 1) = .ok (.next env2) := by
        simp [stFF, ST, nth, thenOf, elseOf, Src.TransportLayerLogic_p_process_tx__start_tx, execStmt, eval, evalArgs, set_get,
          bi_none, proc_consume, he2]
      rw [cons_next h1, block_single]
      have hfl : env2 "self.tx_frame_length" = some (pint (s0.txFrameLen : Int)) := by
        have := R2.txFrameLen
        rwa [(consumeActive_spec s0 r n true).2.2.2.2.2.2.2.2.2.2] at this
      have h2 := assign_msg_data s0.cfg s0.addr s0.now s0.rl env2 _
        [16, 0, s0.txFrameLen / 16777216 % 256, s0.txFrameLen / 65536 % 256, s0.txFrameLen / 256 % 256, s0.txFrameLen % 256] payload
        (hdr32_eval _ env2 s0.txFrameLen hfl) (by intro x hx; simp at hx; omega) hp2
      refine ⟨_, h2, R2.setOther (by decide) _, by simp [set_get, u8], ?_⟩
      exact (((Frame.refl _ env).set (.inr (by decide)) _).trans (hF2.mono (by simp))).set (.inr (by decide)) _

/-- **`start_tx`** (the body of the `try`): Single Frame or First Frame, as `State.startTx` (`startTx_eq`) -/
theorem start_tx_agrees (s : State) (env : Env) (r : Req) (allowed : Nat) (hR : Rep env s) (ha : s.active = some r)
    (hsof : env "size_on_first_byte" = some (pbool (sizeOnFirstM s r)))
    (hoff : env "size_offset" = some (pint (if sizeOnFirstM s r then 1 else 2)))
    (hal : env "allowed_bytes" = some (pint allowed)) (ho : env "output_msg" = some pnone)
    (hdl : 8 ≤ s.cfg.txDl ∧ s.cfg.txDl ≤ 64) :
    match startTxR s r allowed with
    | .raised _ e => execBlock (txM s) env ST = .error (.exc e)
    | .badGen _ => execBlock (txM s) env ST = .error (.unsupported "raise BadGeneratorError")
    | .done s' out _ =>
      ∃ env', execBlock (txM s) env ST = .ok (.next env') ∧ Rep env' s' ∧ env' "output_msg" = some (optMsgPV out) ∧
        Frame stLocals env env' := by
  have hq := hR.req r ha
  have hpl : s.txPrefixLen ≤ 1 := txPrefix_len_le _
  rw [ST_shape]
  have h0 : execStmt (txM s) env (nth ST 0) = .ok (.next (env.set "total_size" (pint (r.size : Int)))) := by
    simp [ST, nth, Src.TransportLayerLogic_p_process_tx__start_tx, execStmt, eval, evalArgs, bi_none, fn_total, genTotal_rep hq]
  rw [cons_next h0, block_single]
  have R1 := hR.setOther (k := "total_size") (by decide) (pint (r.size : Int))
  generalize he1 : env.set "total_size" (pint (r.size : Int)) = env1 at *
  have hF1 : Frame ["total_size"] env env1 := by rw [← he1]; exact (Frame.refl _ env).set (.inr (by decide)) _
  have hts : env1 "total_size" = some (pint (r.size : Int)) := by rw [← he1]; simp [set_get]
  have hsof1 : env1 "size_on_first_byte" = some (pbool (sizeOnFirstM s r)) := by rw [hF1 _ (by decide) (by decide)]; exact hsof
  have hoff1 : env1 "size_offset" = some (pint (if sizeOnFirstM s r then 1 else 2)) := by
    rw [hF1 _ (by decide) (by decide)]; exact hoff
  have hal1 : env1 "allowed_bytes" = some (pint allowed) := by rw [hF1 _ (by decide) (by decide)]; exact hal
  have ho1 : env1 "output_msg" = some pnone := by rw [hF1 _ (by decide) (by decide)]; exact ho
  have hc : eval (txM s) env1 (condOf (nth ST 1)) =
      .ok (pbool (decide (r.size + (if sizeOnFirstM s r then 1 else 2) + s.txPrefixLen ≤ s.cfg.txDl))) := by
    have e : ((r.size : Int) ≤ (s.cfg.txDl : Int) - (if sizeOnFirstM s r = true then 1 else 2) - (s.addr.tx.txPrefix.length : Int)) ↔
        r.size + (if sizeOnFirstM s r = true then 1 else 2) + s.txPrefixLen ≤ s.cfg.txDl := by
      unfold State.txPrefixLen; split <;> omega
    simp [ST, nth, condOf, Src.TransportLayerLogic_p_process_tx__start_tx, eval, evalArgs, hts, R1.txDl, hoff1, bi_none, fn_prefix,
      builtin_len_bytes, evalCmp_le_pint, e]
  unfold startTxR
  simp only
  by_cases hsf : r.size + (if sizeOnFirstM s r then 1 else 2) + s.txPrefixLen ≤ s.cfg.txDl
  · -- Single Frame
    rw [ite_true hc (by simp [hsf]), stSF_shape]
    simp only [hsf, if_true]
    obtain ⟨c1, c2, c3, c4, c5, c6, c7, -, -, -, -⟩ := consumeActive_spec s r r.size true
    obtain ⟨-, -, f3, -⟩ := consume_fields r r.size true
    rcases hca : s.consumeActive r r.size true with ⟨s1, r1, res⟩
    rw [hca] at c1 c2 c3 c4 c5 c6 c7
    simp only at c1 c2 c3 c4 c5 c6 c7
    cases res with
    | none =>
      simp only
      have hB0 : execStmt (txM s) env1 (nth stSF 0) = .error (.unsupported "raise BadGeneratorError") := by
        simp [stSF, ST, nth, thenOf, Src.TransportLayerLogic_p_process_tx__start_tx, execStmt, eval, evalArgs, hts,
          bi_none, proc_consume, consumeP_none R1 ha r.size true c2.symm]
      rw [cons_err hB0]
    | some payload =>
      simp only
      obtain ⟨env2, he2, R2, hp2, hF2⟩ := consumeP_some R1 ha r.size true payload c2.symm
      rw [hca] at R2
      simp only at R2
      have hB0 : execStmt (txM s) env1 (nth stSF 0) = .ok (.next env2) := by
        simp [stSF, ST, nth, thenOf, Src.TransportLayerLogic_p_process_tx__start_tx, execStmt, eval, evalArgs, hts,
          bi_none, proc_consume, he2]
      rw [cons_next hB0]
      have hlen : payload.length ≤ 255 := by
        have := consume_len_le c2.symm
        split at hsf <;> omega
      have hsof2 : env2 "size_on_first_byte" = some (pbool (sizeOnFirstM s r)) := by
        rw [hF2 _ (by decide) (by decide)]; exact hsof1
      -- msg_data
      have hB1 : execStmt (txM s) env2 (.ite (.var "size_on_first_byte") (.cons (nth (thenOf (nth stSF 1)) 0) .nil)
          (.cons (nth (elseOf (nth stSF 1)) 0) .nil)) =
          .ok (.next (env2.set "msg_data" (.bytes (s.addr.tx.txPrefix ++
            (if sizeOnFirstM s r then [u8 payload.length] else [0, u8 payload.length]) ++ payload)))) := by
        cases hb : sizeOnFirstM s r
        · rw [hb] at hsof2
          rw [ite_false (v := pbool false) (by simp [eval, hsof2]) rfl, block_single]
          have := assign_msg_data s.cfg s.addr s.now s.rl env2 _ [0, payload.length] payload (hdrSf2_eval _ env2 payload hp2)
            (by intro x hx; simp at hx; omega) hp2
          refine Eq.trans this ?_
          simp [u8]
        · rw [hb] at hsof2
          rw [ite_true (v := pbool true) (by simp [eval, hsof2]) rfl, block_single]
          have := assign_msg_data s.cfg s.addr s.now s.rl env2 _ [payload.length] payload (hdrSf1_eval _ env2 payload hp2)
            (by intro x hx; simp at hx; omega) hp2
          refine Eq.trans this ?_
          simp [u8]
      rw [cons_next hB1]
      have hM1 : txM s1 = txM s := txM_eq c4 c5 c6 c7
      rw [c5]
      generalize hmd : (s.addr.tx.txPrefix ++ (if sizeOnFirstM s r = true then [u8 payload.length] else [0, u8 payload.length]) ++
        payload) = md at *
      have hfin := sf_finish s1 (env2.set "msg_data" (.bytes md)) r1 md allowed
        (R2.setOther (k := "msg_data") (by decide) _) (by rw [c3, c1]) (by simp [set_get])
        (by simp only [set_get]; rw [hF2 _ (by decide) (by decide)]; simpa using hal1)
        (by simp only [set_get]; rw [hF2 _ (by decide) (by decide)]; simpa using ho1)
      rw [hM1, c1, f3] at hfin
      unfold sfFinM at hfin
      rw [c5] at hfin
      cases hm : makeTxMsg s1.cfg s.addr (s.addr.tx.txId r.tat) md with
      | none =>
        rw [hm] at hfin
        exact hfin
      | some msg =>
        rw [hm] at hfin
        simp only at hfin ⊢
        by_cases hgt : md.length > allowed
        · simp only [hgt, if_true] at hfin ⊢
          obtain ⟨env', he', R', ho', hF'⟩ := hfin
          refine ⟨env', he', R', ho', ?_⟩
          exact ((hF1.mono (by simp [stLocals])).trans (hF2.mono (by simp [stLocals]))).trans
            (((Frame.refl _ env2).set (.inr (by simp [stLocals])) _).trans (hF'.mono (by simp [stLocals])))
        · simp only [hgt, if_false] at hfin ⊢
          obtain ⟨env', he', R', ho', hF'⟩ := hfin
          refine ⟨env', he', R', ho', ?_⟩
          exact ((hF1.mono (by simp [stLocals])).trans (hF2.mono (by simp [stLocals]))).trans
            (((Frame.refl _ env2).set (.inr (by simp [stLocals])) _).trans (hF'.mono (by simp [stLocals])))
  · -- First Frame
    rw [ite_false hc (by simp [hsf]), stFF_shape]
    simp only [hsf, if_false]
    have hC0 : execStmt (txM s) env1 (nth stFF 0) = .ok (.next (env1.set "self.tx_frame_length" (pint (r.size : Int)))) := by
      simp [stFF, ST, nth, elseOf, Src.TransportLayerLogic_p_process_tx__start_tx, execStmt, eval, hts]
    rw [cons_next hC0]
    have R2 := R1.setTxFrameLen r.size
    have hC1 : execStmt (txM s) (env1.set "self.tx_frame_length" (pint (r.size : Int))) (nth stFF 1) =
        .ok (.next ((env1.set "self.tx_frame_length" (pint (r.size : Int))).set "encode_length_on_2_first_bytes"
          (pbool (decide (r.size ≤ 0xFFF))))) := by
      by_cases h12 : r.size ≤ 0xFFF
      · have h12' : (r.size : Int) ≤ 4095 := by omega
        simp [stFF, ST, nth, elseOf, Src.TransportLayerLogic_p_process_tx__start_tx, execStmt, eval, set_get, evalCmp_le_pint, h12, h12']
      · have h12' : ¬ (r.size : Int) ≤ 4095 := by omega
        simp [stFF, ST, nth, elseOf, Src.TransportLayerLogic_p_process_tx__start_tx, execStmt, eval, set_get, evalCmp_le_pint, h12, h12']
    rw [cons_next hC1]
    have R3 := R2.setOther (k := "encode_length_on_2_first_bytes") (by decide) (pbool (decide (r.size ≤ 0xFFF)))
    generalize he3 : (env1.set "self.tx_frame_length" (pint (r.size : Int))).set "encode_length_on_2_first_bytes"
      (pbool (decide (r.size ≤ 0xFFF))) = env3 at *
    have hF3 : Frame ["encode_length_on_2_first_bytes"] env1 env3 := by
      rw [← he3]; exact ((Frame.refl _ env1).set (.inl (by decide)) _).set (.inr (by decide)) _
    have henc : env3 "encode_length_on_2_first_bytes" = some (pbool (decide (r.size ≤ 0xFFF))) := by rw [← he3]; simp [set_get]
    have hdat := ff_data { s with txFrameLen := r.size } env3 r R3 ha hdl.1 henc
    simp only at hdat
    rcases hca : ({ s with txFrameLen := r.size } : State).consumeActive r
      (if r.size ≤ 4095 then s.cfg.txDl - 2 - s.txPrefixLen else s.cfg.txDl - 6 - s.txPrefixLen) true with ⟨s1, r1, res⟩
    obtain ⟨c1, c2, c3, c4, c5, c6, c7, -, -, -, -⟩ := consumeActive_spec ({ s with txFrameLen := r.size } : State) r
      (if r.size ≤ 4095 then s.cfg.txDl - 2 - s.txPrefixLen else s.cfg.txDl - 6 - s.txPrefixLen) true
    rw [hca] at c1 c2 c3 c4 c5 c6 c7
    simp only at c1 c2 c3 c4 c5 c6 c7
    have hM0 : txM ({ s with txFrameLen := r.size } : State) = txM s := rfl
    rw [hM0] at hdat
    change (match (r.consume (if r.size ≤ 4095 then s.cfg.txDl - 2 - s.txPrefixLen else s.cfg.txDl - 6 - s.txPrefixLen) true).2 with
      | none => _ | some payload => _) at hdat
    rw [← c2] at hdat
    cases res with
    | none =>
      simp only at hdat ⊢
      rw [cons_err hdat]
    | some payload =>
      simp only at hdat ⊢
      obtain ⟨env4, he4, R4', hmd4, hF4⟩ := hdat
      have R4 : Rep env4 (({ s with txFrameLen := r.size } : State).consumeActive r
        (if r.size ≤ 4095 then s.cfg.txDl - 2 - s.txPrefixLen else s.cfg.txDl - 6 - s.txPrefixLen) true).1 := R4'
      rw [hca] at R4
      simp only at R4
      rw [cons_next he4]
      have hM1 : txM s1 = txM s := txM_eq c4 c5 c6 c7
      rw [c5]
      generalize hmd : (s.addr.tx.txPrefix ++ (if r.size ≤ 4095 then [u8 (16 + r.size / 256 % 16), u8 (r.size % 256)]
        else [16, 0, u8 (r.size / 16777216 % 256), u8 (r.size / 65536 % 256), u8 (r.size / 256 % 256), u8 (r.size % 256)]) ++
        payload) = md at *
      have hfin := ff_finish s1 env4 md allowed R4 hmd4
        (by rw [hF4 _ (by decide) (by decide), hF3 _ (by decide) (by decide)]; exact hal1)
        (by rw [hF4 _ (by decide) (by decide), hF3 _ (by decide) (by decide)]; exact ho1)
      rw [hM1] at hfin
      unfold ffFinM at hfin
      simp only at hfin
      rw [c5] at hfin
      cases hm : makeTxMsg s1.cfg s.addr (s.addr.tx.txId .physical) md with
      | none =>
        rw [hm] at hfin
        exact hfin
      | some msg =>
        rw [hm] at hfin
        simp only at hfin ⊢
        by_cases hle : md.length ≤ allowed
        · simp only [hle, if_true] at hfin ⊢
          obtain ⟨env', he', R', ho', hF'⟩ := hfin
          refine ⟨env', he', R', ho', ?_⟩
          exact (((hF1.mono (by simp [stLocals])).trans (hF3.mono (by simp [stLocals]))).trans
            (hF4.mono (by simp [stLocals]))).trans (hF'.mono (by simp [stLocals]))
        · simp only [hle, if_false] at hfin ⊢
          obtain ⟨env', he', R', ho', hF'⟩ := hfin
          refine ⟨env', he', R', ho', ?_⟩
          exact (((hF1.mono (by simp [stLocals])).trans (hF3.mono (by simp [stLocals]))).trans
            (hF4.mono (by simp [stLocals]))).trans (hF'.mono (by simp [stLocals]))

/-! ## 4. Region `tail` (rate-limiter accounting and the final `return`) -/

abbrev TAIL : PBlock := Src.TransportLayerLogic_p_process_tx__tail

/-- the end of the model's `processTx` -/
def tailM (s : State) (out : Option CanMsg) (imm : Bool) : State × Option CanMsg × Bool :=
  match out with
  | some msg => ({ s with rl := s.rl.inform s.now msg.data.length }, some msg, imm)
  | none => (s, none, imm)

/-- **`tail`**: `inform_byte_sent(len(output_msg.data))` when there is an output message, and the report.
    `hd` is the meaning of the attribute access `output_msg.data` on the message object the local holds. -/
theorem tail_agrees (s : State) (env : Env) (out : Option CanMsg) (imm : Bool) (hR : Rep env s)
    (ho : env "output_msg" = some (optMsgPV out)) (hi : env "immediate_rx_msg_required" = some (pbool imm))
    (hd : ∀ m, out = some m → env "output_msg.data" = some (.bytes m.data)) :
    ∃ env', execBlock (txM s) env TAIL = .ok (.returned (reportPV out imm) env') ∧ Rep env' (tailM s out imm).1 ∧
      (tailM s out imm).2 = (out, imm) ∧ Frame [] env env' := by
  cases out with
  | none =>
    simp only [optMsgPV] at ho
    refine ⟨env, ?_, hR, rfl, Frame.refl _ _⟩
    simp [TAIL, Src.TransportLayerLogic_p_process_tx__tail, execBlock, execStmt, eval, evalArgs, ho, hi, bi_none, fn_report,
      reportP, reportPV]
  | some m =>
    simp only [optMsgPV] at ho
    have hd' := hd m rfl
    refine ⟨env.set "#rl" (rlPV (s.rl.inform s.now m.data.length)), ?_, hR.setRl _, rfl, (Frame.refl _ _).set (.inl (by decide)) _⟩
    simp [TAIL, Src.TransportLayerLogic_p_process_tx__tail, execBlock, execStmt, eval, evalArgs, ho, hi, hd', bi_none, fn_report,
      builtin_len_bytes, proc_inform, set_get, reportP, reportPV, msgPV]

/-! ## 5. Region `prefix` -/

abbrev PRE : PBlock := Src.TransportLayerLogic_p_process_tx__prefix

/-- the `if self.tx_state == self.TxState.IDLE: ... else: ...` statement that handles a received Flow Control (Wait / ContinueToSend) -/
def hfStmt : PStmt := nth (thenOf (nth PRE 5)) 1

/-- what the prefix knows about the local `flow_control_frame`: the attributes of the decoded PDU it holds
    (`stmin_sec` is the float `stminNs stmin / 10^9`) -/
structure FcLoc (env : Env) (f : FcFrame) : Prop where
  fs : env "flow_control_frame.flow_status" = some (pint f.status)
  bs : env "flow_control_frame.blocksize" = some (pint f.bs)
  ss : env "flow_control_frame.stmin_sec" = some (nsPV (some (stminNs f.stmin)))

theorem FcLoc.frame {env env' : Env} {f : FcFrame} {xs : List String} (h : FcLoc env f) (hF : Frame xs env env')
    (hx : "flow_control_frame.flow_status" ∉ xs ∧ "flow_control_frame.blocksize" ∉ xs ∧ "flow_control_frame.stmin_sec" ∉ xs) :
    FcLoc env' f :=
  ⟨by rw [hF _ (by decide) hx.1]; exact h.fs, by rw [hF _ (by decide) hx.2.1]; exact h.bs,
   by rw [hF _ (by decide) hx.2.2]; exact h.ss⟩

theorem handleFc_idle (s : State) (env : Env) (f : FcFrame) (hR : Rep env s) (hst : s.txState = .idle) :
    ∃ env', execStmt (txM s) env hfStmt = .ok (.next env') ∧ Rep env' (s.handleFc f) ∧ Frame [] env env' := by
  refine ⟨?_, ?h1, ?h2, ?h3⟩
  case h1 =>
    simp [hfStmt, PRE, nth, thenOf, Src.TransportLayerLogic_p_process_tx__prefix, execStmt, execBlock, eval, evalArgs, hR.txState, hst,
      hR.consts.idle, pvEq_txSt, bi_none, fn_err_unexpected, proc_trigger, trigP_rep hR]
    rfl
  case h2 => simpa [State.handleFc, hst] using hR.error .UnexpectedFlowControl
  case h3 => exact (Frame.refl _ env).set (.inl (by decide)) _

/-- evaluation of the Flow Control statement: everything that does not depend on the case -/
macro "hf_eval" "[" ts:Lean.Parser.Tactic.simpLemma,* "]" : tactic =>
  `(tactic| simp [hfStmt, PRE, nth, thenOf, Src.TransportLayerLogic_p_process_tx__prefix, execStmt, execBlock, eval, evalArgs,
      pvEq_txSt, bi_none, fn_fc_timed_out, timedOutP_timer, proc_trigger, proc_stop, proc_start_fc, proc_fc_stop,
      proc_st_start, fn_format, txStPV, txStName, set_get, evalCmp_ge_pint, $ts,*])

theorem handleFc_wait (s : State) (env : Env) (f : FcFrame) (hR : Rep env s) (hL : FcLoc env f)
    (hst : s.txState ≠ .idle) (h1 : f.status = 1) (hto : s.timerFc.timedOut s.now = false) :
    ∃ env', execStmt (txM s) env hfStmt = .ok (.next env') ∧ Rep env' (s.handleFc f) ∧ Frame [] env env' := by
  have hts := hR.txState
  have hfs := hL.fs
  rw [h1] at hfs
  by_cases hw0 : s.cfg.wftmax = 0
  · refine ⟨?_, ?h1, ?h2, ?h3⟩
    case h1 =>
      cases hs : s.txState <;> simp only [hs] at hst hts <;> first | exact absurd rfl hst | skip
      all_goals
        hf_eval [hts, hfs, hR.consts.idle, hR.consts.wait, hR.fcStart, hR.fcTo, hto, hR.wftmax, hw0, fn_err_unsupported,
          trigP_rep hR]
        try rfl
    case h2 => simpa [State.handleFc, hst, h1, hto, hw0] using hR.error .UnsupportedWaitFrame
    case h3 => exact (Frame.refl _ env).set (.inl (by decide)) _
  · have hw0' : ¬ (s.cfg.wftmax : Int) = 0 := by omega
    by_cases hmax : s.wftCnt ≥ s.cfg.wftmax
    · have hmax' : (s.cfg.wftmax : Int) ≤ (s.wftCnt : Int) := by omega
      obtain ⟨env', he, hR', hF⟩ := stopP_rep (hR.error .MaximumWaitFrameReached) false []
      refine ⟨env', ?h1, ?h2, ?h3⟩
      case h1 =>
        cases hs : s.txState <;> simp only [hs] at hst hts <;> first | exact absurd rfl hst | skip
        all_goals
          hf_eval [hts, hfs, hR.consts.idle, hR.consts.wait, hR.fcStart, hR.fcTo, hto, hR.wftmax, hw0, hw0', fn_err_maxwait,
            trigP_rep hR, hR.wftCnt, hmax', he]
      case h2 => simpa [State.handleFc, hst, h1, hto, hw0, hmax] using hR'
      case h3 => exact ((Frame.refl _ env).set (.inl (by decide)) _).trans hF
    · have hmax' : ¬ (s.cfg.wftmax : Int) ≤ (s.wftCnt : Int) := by omega
      by_cases hwc : s.txState = .waitFc ∨ s.txState = .transmitCf
      · refine ⟨?_, ?h1, ?h2, ?h3⟩
        case h1 =>
          rcases hwc with hs | hs <;> simp only [hs] at hst hts
          all_goals
            hf_eval [hts, hfs, hR.consts.idle, hR.consts.wait, hR.fcStart, hR.fcTo, hto, hR.wftmax, hw0, hw0',
              hR.wftCnt, hmax', hR.consts.waitFc, hR.consts.transmitCf]
            try rfl
        case h2 =>
          have := ((hR.setWftCnt (s.wftCnt + 1)).setTxState .waitFc).startFc
          rcases hwc with hs | hs <;> simpa [State.handleFc, hs, h1, hto, hw0, hmax, txStPV, txStName] using this
        case h3 =>
          exact ((((Frame.refl _ env).set (.inl (by decide)) _).set (.inl (by decide)) _).set (.inl (by decide)) _).set
            (.inl (by decide)) _
      · refine ⟨?_, ?h1, ?h2, ?h3⟩
        case h1 =>
          cases hs : s.txState <;> simp only [hs] at hst hts hwc <;> first | exact absurd rfl hst | simp at hwc | skip
          all_goals
            hf_eval [hts, hfs, hR.consts.idle, hR.consts.wait, hR.fcStart, hR.fcTo, hto, hR.wftmax, hw0, hw0',
              hR.wftCnt, hmax', hR.consts.waitFc, hR.consts.transmitCf]
            try rfl
        case h2 =>
          have := hR.setWftCnt (s.wftCnt + 1)
          simp only [not_or] at hwc
          simpa [State.handleFc, hst, hwc.1, hwc.2, h1, hto, hw0, hmax] using this
        case h3 => exact (Frame.refl _ env).set (.inl (by decide)) _
theorem nsPV_bne (n : Nat) : (nsPV (some n) != pnone) = true := by simp [nsPV, pnone]
theorem nsPV_ne (n : Nat) : ¬ nsPV (some n) = pnone := by simp [nsPV, pnone]

theorem handleFc_cts (s : State) (env : Env) (f : FcFrame) (hR : Rep env s) (hL : FcLoc env f)
    (h0 : f.status = 0) (hto : s.timerFc.timedOut s.now = false) (hwc : s.txState = .waitFc ∨ s.txState = .transmitCf) :
    ∃ env', execStmt (txM s) env hfStmt = .ok (.next env') ∧ Rep env' (s.handleFc f) ∧ Frame [] env env' := by
  have hts := hR.txState
  have hfs := hL.fs
  rw [h0] at hfs
  have hovr := hR.ovr
  rcases hwc with hs | hs
  · -- WAIT_FC: the block counter restarts, the STmin timer is started
    simp only [hs] at hts
    cases ho : s.cfg.overrideStminNs with
    | none =>
      simp only [ho, nsPV] at hovr
      refine ⟨?_, ?h1, ?h2, ?h3⟩
      case h1 =>
        hf_eval [hts, hfs, hR.consts.idle, hR.consts.wait, hR.consts.cts, hR.fcStart, hR.fcTo, hto, hR.consts.waitFc,
          hR.consts.transmitCf, hL.ss, hL.bs, nsPV_bne, nsPV_ne, hovr, proc_st_set_timeout]
        rfl
      case h2 =>
        have := (((((((hR.setWftCnt 0).setFcStart none).setStTo (stminNs f.stmin)).setRemoteBs (some f.bs)).setTxBlockCnt 0).setStStart
          (some s.now)).setTxState .transmitCf)
        simpa [State.handleFc, hs, h0, hto, ho, txStPV, txStName, optPV, Timer.stop, Timer.startAt] using this
      case h3 =>
        exact (((((((Frame.refl _ env).set (.inl (by decide)) _).set (.inl (by decide)) _).set (.inl (by decide)) _).set
          (.inl (by decide)) _).set (.inl (by decide)) _).set (.inl (by decide)) _).set (.inl (by decide)) _
    | some o =>
      simp only [ho] at hovr
      refine ⟨?_, ?h1, ?h2, ?h3⟩
      case h1 =>
        hf_eval [hts, hfs, hR.consts.idle, hR.consts.wait, hR.consts.cts, hR.fcStart, hR.fcTo, hto, hR.consts.waitFc,
          hR.consts.transmitCf, hL.ss, hL.bs, nsPV_bne, nsPV_ne, hovr, proc_st_set_timeout]
        rfl
      case h2 =>
        have := (((((((hR.setWftCnt 0).setFcStart none).setStTo o).setRemoteBs (some f.bs)).setTxBlockCnt 0).setStStart
          (some s.now)).setTxState .transmitCf)
        simpa [State.handleFc, hs, h0, hto, ho, txStPV, txStName, optPV, Timer.stop, Timer.startAt] using this
      case h3 =>
        exact (((((((Frame.refl _ env).set (.inl (by decide)) _).set (.inl (by decide)) _).set (.inl (by decide)) _).set
          (.inl (by decide)) _).set (.inl (by decide)) _).set (.inl (by decide)) _).set (.inl (by decide)) _
  · -- TRANSMIT_CF: only the parameters of the Flow Control are taken
    simp only [hs] at hts
    cases ho : s.cfg.overrideStminNs with
    | none =>
      simp only [ho, nsPV] at hovr
      refine ⟨?_, ?h1, ?h2, ?h3⟩
      case h1 =>
        hf_eval [hts, hfs, hR.consts.idle, hR.consts.wait, hR.consts.cts, hR.fcStart, hR.fcTo, hto, hR.consts.waitFc,
          hR.consts.transmitCf, hL.ss, hL.bs, nsPV_bne, nsPV_ne, hovr, proc_st_set_timeout]
        rfl
      case h2 =>
        have := (((((hR.setWftCnt 0).setFcStart none).setStTo (stminNs f.stmin)).setRemoteBs (some f.bs)).setTxState .transmitCf)
        simpa [State.handleFc, hs, h0, hto, ho, txStPV, txStName, optPV, Timer.stop, Timer.startAt] using this
      case h3 =>
        exact (((((Frame.refl _ env).set (.inl (by decide)) _).set (.inl (by decide)) _).set (.inl (by decide)) _).set
          (.inl (by decide)) _).set (.inl (by decide)) _
    | some o =>
      simp only [ho] at hovr
      refine ⟨?_, ?h1, ?h2, ?h3⟩
      case h1 =>
        hf_eval [hts, hfs, hR.consts.idle, hR.consts.wait, hR.consts.cts, hR.fcStart, hR.fcTo, hto, hR.consts.waitFc,
          hR.consts.transmitCf, hL.ss, hL.bs, nsPV_bne, nsPV_ne, hovr, proc_st_set_timeout]
        rfl
      case h2 =>
        have := (((((hR.setWftCnt 0).setFcStart none).setStTo o).setRemoteBs (some f.bs)).setTxState .transmitCf)
        simpa [State.handleFc, hs, h0, hto, ho, txStPV, txStName, optPV, Timer.stop, Timer.startAt] using this
      case h3 =>
        exact (((((Frame.refl _ env).set (.inl (by decide)) _).set (.inl (by decide)) _).set (.inl (by decide)) _).set
          (.inl (by decide)) _).set (.inl (by decide)) _
theorem handleFc_other (s : State) (env : Env) (f : FcFrame) (hR : Rep env s) (hL : FcLoc env f)
    (hst : s.txState ≠ .idle) (hnw : ¬ (f.status = 1 ∧ s.timerFc.timedOut s.now = false))
    (hnc : ¬ (f.status = 0 ∧ s.timerFc.timedOut s.now = false ∧ (s.txState = .waitFc ∨ s.txState = .transmitCf))) :
    execStmt (txM s) env hfStmt = .ok (.next env) ∧ s.handleFc f = s := by
  have hts := hR.txState
  have hfs := hL.fs
  constructor
  · by_cases h1 : f.status = 1
    · have hto : s.timerFc.timedOut s.now = true := by
        cases h : s.timerFc.timedOut s.now
        · exact absurd ⟨h1, h⟩ hnw
        · rfl
      rw [h1] at hfs
      cases hs : s.txState <;> simp only [hs] at hst hts <;> first | exact absurd rfl hst | skip
      all_goals
        hf_eval [hts, hfs, hR.consts.idle, hR.consts.wait, hR.consts.cts, hR.fcStart, hR.fcTo, hto]
    · by_cases h0 : f.status = 0
      · rw [h0] at hfs
        cases hto : s.timerFc.timedOut s.now
        · have hwc : ¬ (s.txState = .waitFc ∨ s.txState = .transmitCf) := fun h => hnc ⟨h0, hto, h⟩
          cases hs : s.txState <;> simp only [hs] at hst hts hwc <;> first | exact absurd rfl hst | simp at hwc | skip
          all_goals
            hf_eval [hts, hfs, hR.consts.idle, hR.consts.wait, hR.consts.cts, hR.fcStart, hR.fcTo, hto, hR.consts.waitFc,
              hR.consts.transmitCf]
        · cases hs : s.txState <;> simp only [hs] at hst hts <;> first | exact absurd rfl hst | skip
          all_goals
            hf_eval [hts, hfs, hR.consts.idle, hR.consts.wait, hR.consts.cts, hR.fcStart, hR.fcTo, hto]
      · have h1' : ¬ (f.status : Int) = 1 := by omega
        have h0' : ¬ (f.status : Int) = 0 := by omega
        cases hs : s.txState <;> simp only [hs] at hst hts <;> first | exact absurd rfl hst | skip
        all_goals
          hf_eval [hts, hfs, hR.consts.idle, hR.consts.wait, hR.consts.cts, h1', h0', h1, h0]
  · unfold State.handleFc
    rw [if_neg hst]
    have e1 : ¬ ((f.status = 1 && !(s.timerFc.timedOut s.now)) = true) := by
      intro h; simp at h; exact hnw h
    have e2 : ¬ ((f.status = 0 && !(s.timerFc.timedOut s.now) && (s.txState = .waitFc || s.txState = .transmitCf)) = true) := by
      intro h; simp at h; exact hnc ⟨h.1.1, h.1.2, h.2⟩
    rw [if_neg e1, if_neg e2]

/-- **Flow Control handling**: the statement is the model's `handleFc` -/
theorem handleFc_stmt (s : State) (env : Env) (f : FcFrame) (hR : Rep env s) (hL : FcLoc env f) :
    ∃ env', execStmt (txM s) env hfStmt = .ok (.next env') ∧ Rep env' (s.handleFc f) ∧ Frame [] env env' := by
  by_cases hst : s.txState = .idle
  · exact handleFc_idle s env f hR hst
  · by_cases hw : f.status = 1 ∧ s.timerFc.timedOut s.now = false
    · exact handleFc_wait s env f hR hL hst hw.1 hw.2
    · by_cases hc : f.status = 0 ∧ s.timerFc.timedOut s.now = false ∧ (s.txState = .waitFc ∨ s.txState = .transmitCf)
      · exact handleFc_cts s env f hR hL hc.1 hc.2.1 hc.2.2
      · obtain ⟨h1, h2⟩ := handleFc_other s env f hR hL hst hw hc
        exact ⟨env, h1, by rw [h2]; exact hR, Frame.refl _ _⟩

/-! ### what `_process_tx` never changes before its tail -/

/-- same configuration, address, clock reading and rate limiter: the primitives `txM` are the same -/
def SameK (s s' : State) : Prop := s'.cfg = s.cfg ∧ s'.addr = s.addr ∧ s'.now = s.now ∧ s'.rl = s.rl

theorem SameK.refl (s : State) : SameK s s := ⟨rfl, rfl, rfl, rfl⟩
theorem SameK.trans {a b c : State} (h1 : SameK a b) (h2 : SameK b c) : SameK a c :=
  ⟨h2.1.trans h1.1, h2.2.1.trans h1.2.1, h2.2.2.1.trans h1.2.2.1, h2.2.2.2.trans h1.2.2.2⟩
theorem SameK.txM {s s' : State} (h : SameK s s') : txM s' = txM s := txM_eq h.1 h.2.1 h.2.2.1 h.2.2.2

theorem sameK_error (s : State) (e : Err) : SameK s (s.error e) := ⟨rfl, rfl, rfl, rfl⟩
theorem sameK_stopSending (s : State) (ok : Bool) : SameK s (s.stopSending ok) := by
  unfold State.stopSending; cases s.active <;> exact ⟨rfl, rfl, rfl, rfl⟩
theorem sameK_handleFc (s : State) (f : FcFrame) : SameK s (s.handleFc f) := by
  unfold State.handleFc
  repeat' (first | split | dsimp only)
  all_goals first
    | exact ⟨rfl, rfl, rfl, rfl⟩
    | exact sameK_error _ _
    | exact (sameK_error _ _).trans (sameK_stopSending _ _)

/-! ### the model, region `prefix` -/

/-- how the prefix of the model's `processTx` ends -/
inductive PrefixOut where
  /-- a Python exception escapes -/
  | raised (s : State) (e : PyExc)
  /-- early `return ProcessTxReport(msg=out, immediate_rx_required=imm)` -/
  | ret (s : State) (out : Option CanMsg) (imm : Bool)
  /-- falls through -/
  | next (s : State)

/-- the pending Flow Control part -/
def pendM (s : State) : PrefixOut :=
  if s.pendingFc then
    let s := { s with pendingFc := false }
    match s.pendingFcStatus with
    | none => .raised s .AttributeError
    | some st =>
      let s := if st = 0 then s.startRxCfTimer else s
      if !s.cfg.listen then
        match makeFlowControl s.cfg s.addr st with
        | none => .raised s .ValueError
        | some msg => .ret s (some msg) true
      else .next s
  else .next s

/-- the mailbox read (already done: `fc` is the frame read, `s.lastFc = none`) and Flow Control handling -/
def fcM (s : State) (fc : Option FcFrame) : PrefixOut :=
  match fc with
  | some f => if f.status = 2 then .ret ((s.stopSending false).error .Overflow) none false else .next (s.handleFc f)
  | none => .next s

/-- the N_Bs timeout -/
def timeoutM (s : State) : State :=
  if s.timerFc.timedOut s.now then (s.error .FlowControlTimeout).stopSending false else s

/-- the "no transmission in progress" check -/
def deplM (s : State) : PrefixOut :=
  if s.txState ≠ .idle && s.active.isNone then .raised s .AssertionError
  else .next (if s.txState ≠ .idle && (match s.active with | some r => r.depleted | none => false) && s.standby.isNone
    then s.stopSending true else s)

/-- everything before the dispatch on `tx_state` -/
def prefixR (s : State) : PrefixOut :=
  match pendM s with
  | .next s1 =>
    (match fcM { s1 with lastFc := none } s1.lastFc with
     | .next s2 => deplM (timeoutM s2)
     | o => o)
  | o => o

theorem reportP_msg (m : CanMsg) (b : Bool) : reportP (msgPV m) b = .ok (reportPV (some m) b) := rfl

theorem fn_make_fc_int (c : Cfg) (a : Addr) (now : Nat) (rl : Limiter) (env : Env) (i : Int) :
    (txMeths c a now rl).fn "self._make_flow_control#flow_status" [pint i] env =
      (match makeFlowControl c a i.toNat with
       | some m => .ok (msgPV m)
       | none => .error (.exc .ValueError)) := rfl

/-- **pending Flow Control** (statement 2 of the prefix) -/
theorem pend_stmt (s : State) (env : Env) (hR : Rep env s) :
    match pendM s with
    | .raised _ e => execStmt (txM s) env (nth PRE 2) = .error (.exc e)
    | .ret s' out imm =>
      ∃ env', execStmt (txM s) env (nth PRE 2) = .ok (.returned (reportPV out imm) env') ∧ Rep env' s' ∧ SameK s s'
    | .next s' => ∃ env', execStmt (txM s) env (nth PRE 2) = .ok (.next env') ∧ Rep env' s' ∧ Frame [] env env' ∧ SameK s s' := by
  unfold pendM
  have hpf := hR.pendingFc
  by_cases hp : s.pendingFc = true
  · rw [hp] at hpf
    simp only [hp, if_true]
    have hpfs := hR.pfs
    obtain ⟨o, hst⟩ : ∃ o, s.pendingFcStatus = o := ⟨_, rfl⟩
    cases o with
    | none =>
      simp only [hst, Option.map] at hpfs
      simp only [hst]
      simp [PRE, nth, Src.TransportLayerLogic_p_process_tx__prefix, execStmt, execBlock, eval, hpf, set_get, hpfs]
    | some st =>
      simp only [hst, Option.map] at hpfs
      simp only [hst]
      have hl := hR.listen
      by_cases h0 : st = 0
      · subst h0
        simp only [if_true]
        by_cases hli : s.cfg.listen = true
        · rw [hli] at hl
          simp only [State.startRxCfTimer, hli, Bool.not_true, Bool.false_eq_true, if_false]
          refine ⟨?_, ?h1, ?h2, ?h3, ⟨rfl, rfl, rfl, rfl⟩⟩
          case h1 =>
            simp [PRE, nth, Src.TransportLayerLogic_p_process_tx__prefix, execStmt, execBlock, eval, evalArgs, hpf, set_get, hpfs,
              hR.consts.cts, bi_none, proc_start_cf, hl]
            rfl
          case h2 => simpa [hst, State.startRxCfTimer] using (hR.setPendingFc false).startCf
          case h3 =>
            exact (((Frame.refl _ env).set (.inl (by decide)) _).set (.inl (by decide)) _).set (.inl (by decide)) _
        · simp only [Bool.not_eq_true] at hli
          rw [hli] at hl
          simp only [State.startRxCfTimer, hli, Bool.not_false, if_true]
          obtain ⟨om, hm⟩ : ∃ om, makeFlowControl s.cfg s.addr 0 = om := ⟨_, rfl⟩
          cases om with
          | none =>
            simp only [hm]
            simp [PRE, nth, Src.TransportLayerLogic_p_process_tx__prefix, execStmt, execBlock, eval, evalArgs, hpf, set_get, hpfs,
              hR.consts.cts, bi_none, proc_start_cf, hl, fn_make_fc_int, hm]
          | some msg =>
            simp only [hm]
            refine ⟨?_, ?h1, ?h2, ⟨rfl, rfl, rfl, rfl⟩⟩
            case h1 =>
              simp [PRE, nth, Src.TransportLayerLogic_p_process_tx__prefix, execStmt, execBlock, eval, evalArgs, hpf, set_get, hpfs,
                hR.consts.cts, bi_none, proc_start_cf, hl, fn_make_fc_int, hm, fn_report, reportP_msg]
              rfl
            case h2 =>
              simpa [hst, State.startRxCfTimer] using
                ((hR.setPendingFc false).startCf).setOther (k := "flow_control_msg") (by decide) (msgPV msg)
      · have h0' : ¬ (st : Int) = 0 := by omega
        simp only [h0, if_false]
        by_cases hli : s.cfg.listen = true
        · rw [hli] at hl
          simp only [hli, Bool.not_true, Bool.false_eq_true, if_false]
          refine ⟨?_, ?h1, ?h2, ?h3, ⟨rfl, rfl, rfl, rfl⟩⟩
          case h1 =>
            simp [PRE, nth, Src.TransportLayerLogic_p_process_tx__prefix, execStmt, execBlock, eval, evalArgs, hpf, set_get, hpfs,
              hR.consts.cts, bi_none, hl, h0, h0']
            rfl
          case h2 => simpa [hst] using hR.setPendingFc false
          case h3 => exact (Frame.refl _ env).set (.inl (by decide)) _
        · simp only [Bool.not_eq_true] at hli
          rw [hli] at hl
          simp only [hli, Bool.not_false, if_true]
          obtain ⟨om, hm⟩ : ∃ om, makeFlowControl s.cfg s.addr st = om := ⟨_, rfl⟩
          cases om with
          | none =>
            simp only [hm]
            simp [PRE, nth, Src.TransportLayerLogic_p_process_tx__prefix, execStmt, execBlock, eval, evalArgs, hpf, set_get, hpfs,
              hR.consts.cts, bi_none, hl, fn_make_fc_int, hm, h0, h0']
          | some msg =>
            simp only [hm]
            refine ⟨?_, ?h1, ?h2, ⟨rfl, rfl, rfl, rfl⟩⟩
            case h1 =>
              simp [PRE, nth, Src.TransportLayerLogic_p_process_tx__prefix, execStmt, execBlock, eval, evalArgs, hpf, set_get, hpfs,
                hR.consts.cts, bi_none, hl, fn_make_fc_int, hm, fn_report, reportP_msg, h0, h0']
              rfl
            case h2 =>
              simpa [hst] using (hR.setPendingFc false).setOther (k := "flow_control_msg") (by decide) (msgPV msg)
  · simp only [Bool.not_eq_true] at hp
    rw [hp] at hpf
    simp only [hp, Bool.false_eq_true, if_false]
    refine ⟨env, ?_, hR, Frame.refl _ _, SameK.refl _⟩
    simp [PRE, nth, Src.TransportLayerLogic_p_process_tx__prefix, execStmt, execBlock, eval, hpf]

/-- **Flow Control reception** (statement 5 of the prefix): Overflow stops the transmission and returns; otherwise `handleFc` -/
theorem fc_stmt (s : State) (env : Env) (fc : Option FcFrame) (hR : Rep env s)
    (hfcf : env "flow_control_frame" = some (optFcPV fc)) (hL : ∀ f, fc = some f → FcLoc env f) :
    match fcM s fc with
    | .raised _ e => execStmt (txM s) env (nth PRE 5) = .error (.exc e)
    | .ret s' out imm =>
      ∃ env', execStmt (txM s) env (nth PRE 5) = .ok (.returned (reportPV out imm) env') ∧ Rep env' s' ∧ SameK s s'
    | .next s' => ∃ env', execStmt (txM s) env (nth PRE 5) = .ok (.next env') ∧ Rep env' s' ∧ Frame [] env env' ∧ SameK s s' := by
  unfold fcM
  cases fc with
  | none =>
    simp only [optFcPV] at hfcf
    simp only
    refine ⟨env, ?_, hR, Frame.refl _ _, SameK.refl _⟩
    simp [PRE, nth, Src.TransportLayerLogic_p_process_tx__prefix, execStmt, execBlock, eval, hfcf]
  | some f =>
    simp only [optFcPV] at hfcf
    have hL' := hL f rfl
    simp only
    have hshape : nth PRE 5 = .ite (.isNotNone (.var "flow_control_frame")) (.cons (nth (thenOf (nth PRE 5)) 0) (.cons hfStmt .nil)) .nil := rfl
    rw [hshape, ite_true (v := pbool true) (by simp [eval, hfcf]) rfl]
    by_cases h2 : f.status = 2
    · simp only [h2, if_true]
      obtain ⟨env1, he1, R1, hF1⟩ := stopP_rep hR false []
      have hK := sameK_stopSending s false
      have htr := trigP_rep R1 .Overflow
      rw [hK.2.2.1] at htr
      have hfs := hL'.fs
      rw [h2] at hfs
      have h0 : execStmt (txM s) env (nth (thenOf (nth PRE 5)) 0) = .ok (.returned (reportPV none false)
          (env1.set "#log" (.list (histOf (s.stopSending false).log ++ [.py (.int 0), .py (.int s.now), .py (.int (errCode .Overflow))])))) := by
        simp [PRE, nth, thenOf, Src.TransportLayerLogic_p_process_tx__prefix, execStmt, execBlock, eval, evalArgs, hfs, hR.consts.ovf,
          bi_none, proc_stop, he1, fn_err_overflow, proc_trigger, htr, fn_report, reportP, reportPV]
      rw [cons_ret h0]
      refine ⟨_, rfl, ?_, hK.trans (sameK_error _ _)⟩
      have := R1.error .Overflow
      rwa [hK.2.2.1] at this
    · simp only [h2, if_false]
      have h2' : ¬ (f.status : Int) = 2 := by omega
      have hfs := hL'.fs
      have h0 : execStmt (txM s) env (nth (thenOf (nth PRE 5)) 0) = .ok (.next env) := by
        simp [PRE, nth, thenOf, Src.TransportLayerLogic_p_process_tx__prefix, execStmt, execBlock, eval, hfs, hR.consts.ovf, h2, h2']
      rw [cons_next h0, block_single]
      obtain ⟨env', he, hR', hF⟩ := handleFc_stmt s env f hR hL'
      exact ⟨env', he, hR', hF, sameK_handleFc s f⟩

/-- **N_Bs timeout** (statement 6 of the prefix) -/
theorem timeout_stmt (s : State) (env : Env) (hR : Rep env s) :
    ∃ env', execStmt (txM s) env (nth PRE 6) = .ok (.next env') ∧ Rep env' (timeoutM s) ∧ Frame [] env env' ∧
      SameK s (timeoutM s) := by
  unfold timeoutM
  by_cases hto : s.timerFc.timedOut s.now = true
  · simp only [hto, if_true]
    obtain ⟨env', he, hR', hF⟩ := stopP_rep (hR.error .FlowControlTimeout) false []
    refine ⟨env', ?_, hR', ((Frame.refl _ env).set (.inl (by decide)) _).trans hF, (sameK_error _ _).trans (sameK_stopSending _ _)⟩
    simp [PRE, nth, Src.TransportLayerLogic_p_process_tx__prefix, execStmt, execBlock, eval, evalArgs, bi_none, fn_fc_timed_out,
      hR.fcStart, hR.fcTo, timedOutP_timer, hto, fn_err_fctimeout, proc_trigger, trigP_rep hR, proc_stop, he]
  · simp only [hto, if_false, Bool.false_eq_true]
    refine ⟨env, ?_, hR, Frame.refl _ _, SameK.refl _⟩
    simp [PRE, nth, Src.TransportLayerLogic_p_process_tx__prefix, execStmt, execBlock, eval, evalArgs, bi_none, fn_fc_timed_out,
      hR.fcStart, hR.fcTo, timedOutP_timer, hto]

/-- **"no transmission in progress"** (statement 7 of the prefix) -/
theorem depl_stmt (s : State) (env : Env) (hR : Rep env s) :
    match deplM s with
    | .raised _ e => execStmt (txM s) env (nth PRE 7) = .error (.exc e)
    | .ret _ _ _ => False
    | .next s' => ∃ env', execStmt (txM s) env (nth PRE 7) = .ok (.next env') ∧ Rep env' s' ∧ Frame [] env env' ∧ SameK s s' := by
  unfold deplM
  have hts := hR.txState
  by_cases hi : s.txState = .idle
  · simp only [hi, ne_eq, not_true_eq_false, decide_false, Bool.false_and, Bool.false_eq_true, if_false]
    rw [hi] at hts
    refine ⟨env, ?_, hR, Frame.refl _ _, SameK.refl _⟩
    simp [PRE, nth, Src.TransportLayerLogic_p_process_tx__prefix, execStmt, execBlock, eval, hts, hR.consts.idle, pvEq_txSt]
  · have hact := hR.active
    have hsb := hR.standby
    cases ha : s.active with
    | none =>
      simp only [ha, Option.isSome_none, objPV] at hact
      simp [hi]
      simp [PRE, nth, Src.TransportLayerLogic_p_process_tx__prefix, execStmt, execBlock, eval, hts, hR.consts.idle, pvEq_txSt, hi, hact]
    | some r =>
      simp only [ha, Option.isSome_some, objPV] at hact
      have hq := hR.req r ha
      simp only [Option.isNone_some, Bool.and_false, Bool.false_eq_true, if_false]
      by_cases hd : (r.depleted && s.standby.isNone) = true
      · simp only [Bool.and_eq_true] at hd
        have hsn : s.standby = none := by cases h : s.standby <;> simp_all
        rw [hsn] at hsb
        obtain ⟨env', he, hR', hF⟩ := stopP_rep hR true []
        have e : (decide (s.txState ≠ TxSt.idle) && r.depleted && s.standby.isNone) = true := by simp [hi, hd.1, hsn]
        simp only [e, if_true]
        refine ⟨env', ?_, hR', hF, sameK_stopSending _ _⟩
        simp [PRE, nth, Src.TransportLayerLogic_p_process_tx__prefix, execStmt, execBlock, eval, evalArgs, hts, hR.consts.idle,
          pvEq_txSt, hi, hact, bi_none, fn_depleted, genDepleted_rep hq, hd.1, hsb, optMsgPV, proc_stop, he]
      · have e : ¬ (decide (s.txState ≠ TxSt.idle) && r.depleted && s.standby.isNone) = true := by
          intro h; apply hd; simp only [Bool.and_eq_true] at h ⊢; exact ⟨h.1.2, h.2⟩
        simp only [e, if_false]
        refine ⟨env, ?_, hR, Frame.refl _ _, SameK.refl _⟩
        by_cases hdp : r.depleted = true
        · have hsn : ∃ m, s.standby = some m := by
            cases h : s.standby with
            | none => exact absurd (by simp [hdp, h]) hd
            | some m => exact ⟨m, rfl⟩
          obtain ⟨m, hm⟩ := hsn
          rw [hm] at hsb
          simp [PRE, nth, Src.TransportLayerLogic_p_process_tx__prefix, execStmt, execBlock, eval, evalArgs, hts, hR.consts.idle,
            pvEq_txSt, hi, hact, bi_none, fn_depleted, genDepleted_rep hq, hdp, hsb, optMsgPV]
        · simp [PRE, nth, Src.TransportLayerLogic_p_process_tx__prefix, execStmt, execBlock, eval, evalArgs, hts, hR.consts.idle,
            pvEq_txSt, hi, hact, bi_none, fn_depleted, genDepleted_rep hq, hdp]

theorem pendM_next_lastFc {s s1 : State} (h : pendM s = .next s1) : s1.lastFc = s.lastFc := by
  unfold pendM at h
  by_cases hp : s.pendingFc = true
  · simp only [hp, if_true] at h
    cases hst : s.pendingFcStatus with
    | none => simp [hst] at h
    | some st =>
      simp only [hst] at h
      by_cases hl : s.cfg.listen = true
      · by_cases h0 : st = 0 <;> simp [h0, hl, State.startRxCfTimer] at h <;> rw [← h]
      · simp only [Bool.not_eq_true] at hl
        by_cases h0 : st = 0 <;> simp [h0, hl, State.startRxCfTimer] at h <;> split at h <;> cases h
  · simp only [hp, Bool.false_eq_true, if_false] at h
    cases h; rfl

theorem PRE_shape : PRE = .cons (nth PRE 0) (.cons (nth PRE 1) (.cons (nth PRE 2) (.cons (nth PRE 3) (.cons (nth PRE 4)
    (.cons (nth PRE 5) (.cons (nth PRE 6) (.cons (nth PRE 7) (.cons (nth PRE 8) .nil)))))))) := rfl

/-- **`prefix`**: everything before the dispatch on `tx_state`.  Early returns exactly when the model returns early (pending Flow
    Control emitted, Overflow), with the model's state and report; exceptions exactly when the model raises (`AttributeError`:
    status attribute never set, `ValueError`: `_make_flow_control`, `AssertionError`: no active request outside IDLE); otherwise
    the environment of the model state, with `output_msg = None`, `allowed_bytes`, `immediate_rx_msg_required = False`. -/
theorem prefix_agrees (s : State) (env : Env) (hR : Rep env s) (hL : ∀ f, s.lastFc = some f → FcLoc env f) :
    match prefixR s with
    | .raised _ e => execBlock (txM s) env PRE = .error (.exc e)
    | .ret s' out imm => ∃ env', execBlock (txM s) env PRE = .ok (.returned (reportPV out imm) env') ∧ Rep env' s' ∧ SameK s s'
    | .next s' =>
      ∃ env', execBlock (txM s) env PRE = .ok (.next env') ∧ Rep env' s' ∧ env' "output_msg" = some pnone ∧
        env' "allowed_bytes" = some (pint (s.rl.allowedBytes s.cfg.rlBitMax)) ∧
        env' "immediate_rx_msg_required" = some (pbool false) ∧ SameK s s' ∧
        Frame ["output_msg", "allowed_bytes", "flow_control_frame", "immediate_rx_msg_required"] env env' := by
  rw [PRE_shape]
  have h0 : execStmt (txM s) env (nth PRE 0) = .ok (.next (env.set "output_msg" pnone)) := by
    simp [PRE, nth, Src.TransportLayerLogic_p_process_tx__prefix, execStmt, eval]
  rw [cons_next h0]
  have h1 : execStmt (txM s) (env.set "output_msg" pnone) (nth PRE 1) =
      .ok (.next ((env.set "output_msg" pnone).set "allowed_bytes" (pint (s.rl.allowedBytes s.cfg.rlBitMax)))) := by
    simp [PRE, nth, Src.TransportLayerLogic_p_process_tx__prefix, execStmt, eval, evalArgs, bi_none, fn_allowed]
  rw [cons_next h1]
  have R1 := (hR.setOther (k := "output_msg") (by decide) pnone).setOther (k := "allowed_bytes") (by decide)
    (pint (s.rl.allowedBytes s.cfg.rlBitMax))
  generalize he1 : (env.set "output_msg" pnone).set "allowed_bytes" (pint (s.rl.allowedBytes s.cfg.rlBitMax)) = env1 at *
  have hF1 : Frame ["output_msg", "allowed_bytes"] env env1 := by
    rw [← he1]; exact ((Frame.refl _ env).set (.inr (by decide)) _).set (.inr (by decide)) _
  have ho1 : env1 "output_msg" = some pnone := by rw [← he1]; simp [set_get]
  have ha1 : env1 "allowed_bytes" = some (pint (s.rl.allowedBytes s.cfg.rlBitMax)) := by rw [← he1]; simp [set_get]
  unfold prefixR
  have hp := pend_stmt s env1 R1
  cases hpm : pendM s with
  | raised s' e => rw [hpm] at hp; simp only at hp ⊢; rw [cons_err hp]
  | ret s' out imm =>
    rw [hpm] at hp; simp only at hp ⊢
    obtain ⟨env', he, hR', hK⟩ := hp
    rw [cons_ret he]
    exact ⟨env', rfl, hR', hK⟩
  | next s1 =>
    rw [hpm] at hp; simp only at hp ⊢
    obtain ⟨env2, he2, R2, hF2, hK1⟩ := hp
    rw [cons_next he2]
    have hlf := pendM_next_lastFc hpm
    have h3 : execStmt (txM s) env2 (nth PRE 3) = .ok (.next (env2.set "flow_control_frame" (optFcPV s1.lastFc))) := by
      simp [PRE, nth, Src.TransportLayerLogic_p_process_tx__prefix, execStmt, eval, R2.lastFc]
    rw [cons_next h3]
    have h4 : execStmt (txM s) (env2.set "flow_control_frame" (optFcPV s1.lastFc)) (nth PRE 4) =
        .ok (.next ((env2.set "flow_control_frame" (optFcPV s1.lastFc)).set "self.last_flow_control_frame" pnone)) := by
      simp [PRE, nth, Src.TransportLayerLogic_p_process_tx__prefix, execStmt, eval]
    rw [cons_next h4]
    have R4 : Rep ((env2.set "flow_control_frame" (optFcPV s1.lastFc)).set "self.last_flow_control_frame" pnone)
        { s1 with lastFc := none } := by
      simpa [optFcPV] using (R2.setOther (k := "flow_control_frame") (by decide) (optFcPV s1.lastFc)).setLastFc none
    generalize he4 : (env2.set "flow_control_frame" (optFcPV s1.lastFc)).set "self.last_flow_control_frame" pnone = env4 at *
    have hF4 : Frame ["output_msg", "allowed_bytes", "flow_control_frame"] env env4 := by
      rw [← he4]
      exact (((hF1.mono (by simp)).trans (hF2.mono (by simp))).set (.inr (by decide)) _).set (.inl (by decide)) _
    have hfcf : env4 "flow_control_frame" = some (optFcPV s1.lastFc) := by rw [← he4]; simp [set_get]
    have hL4 : ∀ f, s1.lastFc = some f → FcLoc env4 f := fun f hf =>
      (hL f (by rw [← hlf]; exact hf)).frame hF4 (by decide)
    have hfc := fc_stmt { s1 with lastFc := none } env4 s1.lastFc R4 hfcf hL4
    have hM1 : txM ({ s1 with lastFc := none } : State) = txM s := hK1.txM
    rw [hM1] at hfc
    cases hfm : fcM { s1 with lastFc := none } s1.lastFc with
    | raised s' e => rw [hfm] at hfc; simp only at hfc ⊢; rw [cons_err hfc]
    | ret s' out imm =>
      rw [hfm] at hfc; simp only at hfc ⊢
      obtain ⟨env', he, hR', hK⟩ := hfc
      rw [cons_ret he]
      exact ⟨env', rfl, hR', hK1.trans hK⟩
    | next s2 =>
      rw [hfm] at hfc; simp only at hfc ⊢
      obtain ⟨env5, he5, R5, hF5, hK2'⟩ := hfc
      have hK2 : SameK s s2 := hK1.trans hK2'
      rw [cons_next he5]
      obtain ⟨env6, he6, R6, hF6, hK3'⟩ := timeout_stmt s2 env5 R5
      rw [hK2.txM] at he6
      have hK3 : SameK s (timeoutM s2) := hK2.trans hK3'
      rw [cons_next he6]
      have hd := depl_stmt (timeoutM s2) env6 R6
      rw [hK3.txM] at hd
      cases hdm : deplM (timeoutM s2) with
      | raised s' e => rw [hdm] at hd; simp only at hd ⊢; rw [cons_err hd]
      | ret s' out imm => rw [hdm] at hd; exact hd.elim
      | next s3 =>
        rw [hdm] at hd; simp only at hd ⊢
        obtain ⟨env7, he7, R7, hF7, hK4'⟩ := hd
        rw [cons_next he7, block_single]
        have h8 : execStmt (txM s) env7 (nth PRE 8) = .ok (.next (env7.set "immediate_rx_msg_required" (pbool false))) := by
          simp [PRE, nth, Src.TransportLayerLogic_p_process_tx__prefix, execStmt, eval]
        have hF7' : Frame ["output_msg", "allowed_bytes", "flow_control_frame"] env env7 :=
          ((hF4.trans (hF5.mono (by simp))).trans (hF6.mono (by simp))).trans (hF7.mono (by simp))
        have hF17 : Frame ["flow_control_frame"] env1 env7 := by
          have a : Frame ["flow_control_frame"] env1 env4 := by
            rw [← he4]
            exact ((hF2.mono (by simp)).set (.inr (by decide)) _).set (.inl (by decide)) _
          exact ((a.trans (hF5.mono (by simp))).trans (hF6.mono (by simp))).trans (hF7.mono (by simp))
        refine ⟨_, h8, R7.setOther (by decide) _, ?_, ?_, by simp [set_get], hK3.trans hK4', ?_⟩
        · simp only [set_get]; rw [hF17 _ (by decide) (by decide)]; simpa using ho1
        · simp only [set_get]; rw [hF17 _ (by decide) (by decide)]; simpa using ha1
        · exact (hF7'.mono (by simp)).set (.inr (by decide)) _

end Isotp.PyAgree.Tx

#print axioms Isotp.PyAgree.Tx.standby_agrees
#print axioms Isotp.PyAgree.Tx.transmit_cf_agrees
#print axioms Isotp.PyAgree.Tx.before_start_agrees
#print axioms Isotp.PyAgree.Tx.start_tx_agrees
#print axioms Isotp.PyAgree.Tx.tail_agrees
#print axioms Isotp.PyAgree.Tx.prefix_agrees
