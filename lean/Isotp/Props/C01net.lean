import Isotp.Proofs.NetSafety
/-
  C01 / C10, network level (safety half) — "When two transport layers with mirrored addresses are joined by a
  reliable in-order CAN link and process() is called regularly on both … every non-empty payload accepted by send()
  on one side is returned by recv() on the other side exactly once, byte-for-byte identical and in the order it was
  sent, and neither side reports an error" (C01); "… both directions at the same time … Flow Control frames and data
  frames of the two directions share the two links" (C10).

  The theorems are about `Isotp.Net` — the multi-layer network the compiled driver executes (`Net.onLayer`,
  `Net.deliver`, `Net.tick`): two layers, one FIFO link per direction, a global clock — and about EVERY schedule:
  any interleaving of `send` / `process()` / `process(do_rx=False)` / `recv` on either layer, delivery of any number
  of frames of either link at any moment, arbitrary timing (`NetP.NOp`, `NetP.Net.step`, `NetP.Net.run`).

  `safety`: for every schedule in which neither layer reports an error (the events returned by `Net.onLayer`
  contain no `Ev.err`), what layer 1 has handed to its user — the payloads returned by `recv()`, in order, followed
  by what is still in its rx queue — is a PREFIX of the payloads accepted by `send()` on layer 0, in the order of the
  calls; and symmetrically. So every delivered payload is byte-identical to a sent one, in sending order, each at
  most once, and nothing else is ever delivered — while both directions (data frames and Flow Control frames of the
  opposite direction) share the links.

  Proof (Isotp/Proofs/Net*.lean), composed from the endpoint libraries:
  * `NetMicro`: `process()` is a sequence of micro-steps (`process_ind`);
  * `conservation` (`NetLog`, `NetSafety`): the frames emitted by layer i = the frames read by the rx loop of the
    peer ++ the peer's inbox ++ the link of i (FIFO, no loss, no duplication, no reordering);
  * `sender_stream` (`NetSend`; C02 `processTx_pass`, C12 `accounted`, C16b `Safe`): the data frames emitted by a
    layer are a prefix of the concatenated reference segmentations of the accepted payloads, and all its frames carry
    its identifier / address prefix;
  * `receiver_stream` (`NetRecv`; C03/C06 `Rx.Feeds`, `rxSame_processTx`): the data frames read by a layer were handed to
    `_process_rx` in order with only reception-neutral steps in between (Flow Control frames, transmit passes,
    `send`, `recv`, un-expired timeout checks), and recv() results ++ rx queue = the logged deliveries;
  * C09 `mirror_accepts` (address filter), C01 `messages_prefix` (reassembly of a prefix of a stream).

  `safety_timeouts`: the same conclusion assuming only that no ConsecutiveFrameTimeout / FlowControlTimeout error was
  reported (and that the configured STmin values are valid STmin bytes): Proofs/NetRecv2, NetSend2, NetTxLog2, NetNoBG.

  `only_unexpected_fc`: under the same hypotheses the only error either layer can report is
  `UnexpectedFlowControlError` (no reception error, no `BadGenerator`, no Overflow / Wait Flow Control).

  Not proved here: that `UnexpectedFlowControlError` is not reported either (`no_protocol_error`; `safety_timeouts`
  does not need it), and liveness. See the end of the file.
-/
namespace Isotp.C01net
open Isotp Isotp.State Isotp.NetP

/-! ## Setting -/

/-- the two-layer network at power-on: layer 0 = (`ca`, `aa`), layer 1 = (`cb`, `ab`), empty links, no link faults -/
def n0 (ca cb : Cfg) (aa ab : Addr) : Net :=
  (({} : Net).setLayer 0 (State.init ca aa)).setLayer 1 (State.init cb ab)

/-- both configurations validated, both addresses able to transmit, each layer's receive half the mirror of the
    peer's transmit half (`Compose.Link` of C01, in both directions) -/
structure Mirrored (ca cb : Cfg) (aa ab : Addr) : Prop where
  link01 : Compose.Link ca aa (State.init cb ab)
  link10 : Compose.Link cb ab (State.init ca aa)

/-- admissible operation: `send` is called with a bytes payload (`size = len(data)`), non-empty, below 2^32 bytes and
    not longer than the peer's `max_frame_size` (decidable) -/
def opOk (ca cb : Cfg) : NOp → Bool
  | .send i a => decide (a.size = a.src.length) && decide (1 ≤ a.src.length) && decide (a.src.length < 4294967296) &&
      (i != 0 || decide (a.src.length ≤ cb.maxFrameSize)) && (i != 1 || decide (a.src.length ≤ ca.maxFrameSize))
  | _ => true

/-- a schedule: any list of operations, the `send`s admissible -/
def Sched (ca cb : Cfg) (ops : List NOp) : Prop := ∀ op ∈ ops, opOk ca cb op = true

instance (ca cb : Cfg) (ops : List NOp) : Decidable (Sched ca cb ops) := by unfold Sched; infer_instance

/-! ## Observations on a run `r = Net.run n0 ops` -/

/-- payloads accepted (queued) by the `send` calls on layer `i`, in the order of the calls -/
def sent (i : Nat) (r : Net × List NEv) : List Bytes := sentOf i r.2

/-- payloads returned by the `recv` calls on layer `i`, in order, then what is still in its rx queue -/
def got (i : Nat) (r : Net × List NEv) : List Bytes :=
  recvdOf i r.2 ++ ((r.1.layers[i]?).map (·.rxQueue)).getD []

/-- all the events of layer `i` during the run (as returned by `Net.onLayer`), oldest first -/
def events (i : Nat) (r : Net × List NEv) : List Ev := logOf i r.2

/-- neither layer handed an error to its error handler -/
def noError (r : Net × List NEv) : Bool := noErr (events 0 r) && noErr (events 1 r)

/-- the frames layer `i` handed to `txfn` -/
def emitted (i : Nat) (r : Net × List NEv) : List CanMsg := Net.txOf (events i r)

/-- the frames the rx loop of layer `i` has read -/
def processed (i : Nat) (r : Net × List NEv) : List CanMsg := rxOf (events i r)

def mkSetting (ca cb : Cfg) (aa ab : Addr) (h : Mirrored ca cb aa ab) : Setting where
  c := fun b => if b then cb else ca
  a := fun b => if b then ab else aa
  valid := by intro b; cases b; exact h.link01.cfgA; exact h.link10.cfgA
  wf := by intro b; cases b; exact h.link01.addrA; exact h.link10.addrA
  mirror := by intro b; cases b; exact h.link01.mirror; exact h.link10.mirror

theorem net0_eq (ca cb : Cfg) (aa ab : Addr) (h : Mirrored ca cb aa ab) : net0 (mkSetting ca cb aa ab h) = n0 ca cb aa ab := rfl

theorem sched_ok (ca cb : Cfg) (aa ab : Addr) (h : Mirrored ca cb aa ab) (ops : List NOp) (hs : Sched ca cb ops) :
    SchedOk (mkSetting ca cb aa ab h) ops := by
  intro op hop
  have := hs op hop
  cases op with
  | send i a =>
    simp only [opOk, Bool.and_eq_true, decide_eq_true_eq, Bool.or_eq_true, bne_iff_ne, ne_eq] at this
    obtain ⟨⟨⟨⟨h1, h2⟩, h3⟩, h4⟩, h5⟩ := this
    refine ⟨h1, h2, h3, ?_⟩
    intro b hb
    cases b
    · rcases h4 with h4 | h4
      · exact absurd hb h4
      · exact h4
    · rcases h5 with h5 | h5
      · exact absurd hb h5
      · exact h5
  | _ => trivial

/-- the network invariant after every schedule -/
theorem invariant (ca cb : Cfg) (aa ab : Addr) (h : Mirrored ca cb aa ab) (ops : List NOp) (hs : Sched ca cb ops) :
    NetInv (mkSetting ca cb aa ab h) (Net.run (n0 ca cb aa ab) ops).1 (Net.run (n0 ca cb aa ab) ops).2 := by
  rw [← net0_eq ca cb aa ab h]
  exact netInv_run _ ops (sched_ok ca cb aa ab h ops hs)

/-- the payloads counted as sent on layer `i` are sendable for a receiver with configuration `c` if the schedule says so -/
theorem sendable_of_sched (ca cb : Cfg) (aa ab : Addr) (ops : List NOp) (hs : Sched ca cb ops) :
    Compose.Sendable (State.init cb ab) (sent 0 (Net.run (n0 ca cb aa ab) ops)) ∧
    Compose.Sendable (State.init ca aa) (sent 1 (Net.run (n0 ca cb aa ab) ops)) := by
  constructor
  · intro p hp
    obtain ⟨a, hop, rfl⟩ := sentOf_run _ ops 0 p hp
    have := hs _ hop
    simp only [opOk, Bool.and_eq_true, decide_eq_true_eq, Bool.or_eq_true, bne_iff_ne, ne_eq] at this
    obtain ⟨⟨⟨⟨-, h2⟩, h3⟩, h4⟩, -⟩ := this
    exact ⟨h2, h4.resolve_left (by simp), h3⟩
  · intro p hp
    obtain ⟨a, hop, rfl⟩ := sentOf_run _ ops 1 p hp
    have := hs _ hop
    simp only [opOk, Bool.and_eq_true, decide_eq_true_eq, Bool.or_eq_true, bne_iff_ne, ne_eq] at this
    obtain ⟨⟨⟨⟨-, h2⟩, h3⟩, -⟩, h5⟩ := this
    exact ⟨h2, h5.resolve_left (by simp), h3⟩

/-! ## The theorems -/

/-- **C01 + C10, network-level safety, every schedule.** Two layers with validated configurations and mirrored
    addresses, joined by the two FIFO links of `Isotp.Net`; any schedule of `send` (admissible bytes payloads),
    `process()`, `process(do_rx=False)`, `recv`, frame deliveries and clock ticks. If neither layer reported an error
    during the run, then the payloads layer 1 has delivered (returned by `recv()`, then still in its rx queue) are a
    prefix of the payloads accepted by `send()` on layer 0, in order — and the same from layer 1 to layer 0. -/
theorem safety (ca cb : Cfg) (aa ab : Addr) (h : Mirrored ca cb aa ab) (ops : List NOp) (hs : Sched ca cb ops)
    (hne : noError (Net.run (n0 ca cb aa ab) ops) = true) :
    got 1 (Net.run (n0 ca cb aa ab) ops) <+: sent 0 (Net.run (n0 ca cb aa ab) ops) ∧
    got 0 (Net.run (n0 ca cb aa ab) ops) <+: sent 1 (Net.run (n0 ca cb aa ab) ops) := by
  have hinv := invariant ca cb aa ab h ops hs
  obtain ⟨hs0, hs1⟩ := sendable_of_sched ca cb aa ab ops hs
  simp only [noError, Bool.and_eq_true] at hne
  constructor
  · obtain ⟨lb, hl, hp⟩ := safety_core _ _ _ hinv true hne.2 hne.1 hs0
    simp only [got, sent]
    have hl' : (Net.run (n0 ca cb aa ab) ops).1.layers[1]? = some lb := hl
    rw [hl']
    exact hp
  · obtain ⟨lb, hl, hp⟩ := safety_core _ _ _ hinv false hne.1 hne.2 hs1
    simp only [got, sent]
    have hl' : (Net.run (n0 ca cb aa ab) ops).1.layers[0]? = some lb := hl
    rw [hl']
    exact hp

/-- every delivered payload is byte-identical to a sent one; at most as many are delivered as were sent -/
theorem delivered_were_sent (ca cb : Cfg) (aa ab : Addr) (h : Mirrored ca cb aa ab) (ops : List NOp)
    (hs : Sched ca cb ops) (hne : noError (Net.run (n0 ca cb aa ab) ops) = true) :
    (∀ p ∈ got 1 (Net.run (n0 ca cb aa ab) ops), p ∈ sent 0 (Net.run (n0 ca cb aa ab) ops)) ∧
    (got 1 (Net.run (n0 ca cb aa ab) ops)).length ≤ (sent 0 (Net.run (n0 ca cb aa ab) ops)).length ∧
    (∀ p ∈ got 0 (Net.run (n0 ca cb aa ab) ops), p ∈ sent 1 (Net.run (n0 ca cb aa ab) ops)) ∧
    (got 0 (Net.run (n0 ca cb aa ab) ops)).length ≤ (sent 1 (Net.run (n0 ca cb aa ab) ops)).length := by
  obtain ⟨h1, h0⟩ := safety ca cb aa ab h ops hs hne
  exact ⟨fun p hp => h1.subset hp, h1.length_le, fun p hp => h0.subset hp, h0.length_le⟩

/-! ## The intermediate results (each holds for every schedule) -/

/-- **Conservation (FIFO links).** The frames layer `i` has handed to `txfn` are exactly: the frames the peer's rx
    loop has read, then the peer's inbox, then what is still on the link of `i` — no loss, no duplication, no
    reordering, whether or not errors were reported. (`i = 0`, peer 1; and `i = 1`, peer 0.) -/
theorem conservation (ca cb : Cfg) (aa ab : Addr) (h : Mirrored ca cb aa ab) (ops : List NOp) (hs : Sched ca cb ops) :
    ∃ l0 l1 o0 o1, (Net.run (n0 ca cb aa ab) ops).1.layers = #[l0, l1] ∧
      (Net.run (n0 ca cb aa ab) ops).1.outbox = #[o0, o1] ∧
      emitted 0 (Net.run (n0 ca cb aa ab) ops) =
        processed 1 (Net.run (n0 ca cb aa ab) ops) ++ l1.inbox.map (·.2) ++ o0 ∧
      emitted 1 (Net.run (n0 ca cb aa ab) ops) =
        processed 0 (Net.run (n0 ca cb aa ab) ops) ++ l0.inbox.map (·.2) ++ o1 := by
  obtain ⟨ly, ob, hrep, hall, -⟩ := invariant ca cb aa ab h ops hs
  refine ⟨ly false, ly true, ob false, ob true, hrep.layers, hrep.outbox, ?_, ?_⟩
  · obtain ⟨-, -, hc⟩ := hall false
    obtain ⟨hl, -, -⟩ := hall true
    simp only [seen, Bool.not_false, hl, List.nil_append, List.reverse_reverse] at hc
    exact hc
  · obtain ⟨-, -, hc⟩ := hall true
    obtain ⟨hl, -, -⟩ := hall false
    simp only [seen, Bool.not_true, hl, List.nil_append, List.reverse_reverse] at hc
    exact hc

/-- **Sender stream (C02 at network level).** If layer 0 reported no error, the data frames it emitted (everything
    but Flow Control frames) are, in order, a prefix of the concatenated reference segmentations of the payloads
    accepted by its `send()`; and every frame it emitted (Flow Control included) carries its identifier, identifier
    width and address prefix. Same for layer 1. -/
theorem sender_stream (ca cb : Cfg) (aa ab : Addr) (h : Mirrored ca cb aa ab) (ops : List NOp) (hs : Sched ca cb ops) :
    (noErr (events 0 (Net.run (n0 ca cb aa ab) ops)) = true →
      dataOut aa.tx.txPrefix.length (events 0 (Net.run (n0 ca cb aa ab) ops)) <+:
        Compose.stream (Spec.segment (Spec.TxCfg.of ca aa)) (sent 0 (Net.run (n0 ca cb aa ab) ops)) ∧
      ∀ m ∈ emitted 0 (Net.run (n0 ca cb aa ab) ops), FrameOk aa m) ∧
    (noErr (events 1 (Net.run (n0 ca cb aa ab) ops)) = true →
      dataOut ab.tx.txPrefix.length (events 1 (Net.run (n0 ca cb aa ab) ops)) <+:
        Compose.stream (Spec.segment (Spec.TxCfg.of cb ab)) (sent 1 (Net.run (n0 ca cb aa ab) ops)) ∧
      ∀ m ∈ emitted 1 (Net.run (n0 ca cb aa ab) ops), FrameOk ab m) := by
  obtain ⟨ly, ob, hrep, hall, -⟩ := invariant ca cb aa ab h ops hs
  constructor
  · intro hn
    obtain ⟨hl, hL, -⟩ := hall false
    have hS := hL.send (by rw [hl, List.nil_append, noErr_reverse]; exact hn)
    have h1 := hS.prog.prefix
    have h2 := hS.frames
    rw [hl, List.nil_append, List.reverse_reverse] at h1 h2
    exact ⟨h1, h2⟩
  · intro hn
    obtain ⟨hl, hL, -⟩ := hall true
    have hS := hL.send (by rw [hl, List.nil_append, noErr_reverse]; exact hn)
    have h1 := hS.prog.prefix
    have h2 := hS.frames
    rw [hl, List.nil_append, List.reverse_reverse] at h1 h2
    exact ⟨h1, h2⟩

/-- **Receiver stream (C03/C06 at network level).** If layer 1 reported no error, the data frames it has read
    (accepted by its address filter, not Flow Control) were handed to `_process_rx` in order, from its initial
    state, with only reception-neutral steps in between (`Rx.Feeds`) — the final state being layer 1 with its
    whole history as log —, and what it delivered (`got 1`) is exactly what that log records as delivered. Same for
    layer 0. -/
theorem receiver_stream (ca cb : Cfg) (aa ab : Addr) (h : Mirrored ca cb aa ab) (ops : List NOp) (hs : Sched ca cb ops) :
    ∃ l0 l1, (Net.run (n0 ca cb aa ab) ops).1.layers = #[l0, l1] ∧
      (noErr (events 1 (Net.run (n0 ca cb aa ab) ops)) = true →
        Rx.Feeds (State.init cb ab) (fed ab (events 1 (Net.run (n0 ca cb aa ab) ops)))
          { l1 with log := (events 1 (Net.run (n0 ca cb aa ab) ops)).reverse }) ∧
      got 1 (Net.run (n0 ca cb aa ab) ops) =
        Rx.delivered { l1 with log := (events 1 (Net.run (n0 ca cb aa ab) ops)).reverse } ∧
      (noErr (events 0 (Net.run (n0 ca cb aa ab) ops)) = true →
        Rx.Feeds (State.init ca aa) (fed aa (events 0 (Net.run (n0 ca cb aa ab) ops)))
          { l0 with log := (events 0 (Net.run (n0 ca cb aa ab) ops)).reverse }) ∧
      got 0 (Net.run (n0 ca cb aa ab) ops) =
        Rx.delivered { l0 with log := (events 0 (Net.run (n0 ca cb aa ab) ops)).reverse } := by
  obtain ⟨ly, ob, hrep, hall, -⟩ := invariant ca cb aa ab h ops hs
  obtain ⟨hl0, hL0, -⟩ := hall false
  obtain ⟨hl1, hL1, -⟩ := hall true
  have e0 : relog (ly false) (logOf (idx false) (Net.run (n0 ca cb aa ab) ops).2).reverse =
      { ly false with log := (events 0 (Net.run (n0 ca cb aa ab) ops)).reverse } := by
    simp only [relog, hl0, List.nil_append]; rfl
  have e1 : relog (ly true) (logOf (idx true) (Net.run (n0 ca cb aa ab) ops).2).reverse =
      { ly true with log := (events 1 (Net.run (n0 ca cb aa ab) ops)).reverse } := by
    simp only [relog, hl1, List.nil_append]; rfl
  refine ⟨ly false, ly true, hrep.layers, ?_, ?_, ?_, ?_⟩
  · intro hn
    have := hL1.recv (by rw [hl1, List.nil_append, noErr_reverse]; exact hn)
    rw [hl1, List.nil_append, List.reverse_reverse, e1] at this
    exact this
  · have := hL1.got
    unfold GotInv at this
    rw [e1] at this
    simp only [got, hrep.layers]
    exact this
  · intro hn
    have := hL0.recv (by rw [hl0, List.nil_append, noErr_reverse]; exact hn)
    rw [hl0, List.nil_append, List.reverse_reverse, e0] at this
    exact this
  · have := hL0.got
    unfold GotInv at this
    rw [e0] at this
    simp only [got, hrep.layers]
    exact this

/-- `process()` never raises in the network (C16b carried through every schedule): the exception flag of both layers
    is clear and the `Safe` invariant holds. -/
theorem no_exception (ca cb : Cfg) (aa ab : Addr) (h : Mirrored ca cb aa ab) (ops : List NOp) (hs : Sched ca cb ops) :
    ∃ l0 l1, (Net.run (n0 ca cb aa ab) ops).1.layers = #[l0, l1] ∧ SafeOk l0 ∧ SafeOk l1 := by
  obtain ⟨ly, ob, hrep, hall, -⟩ := invariant ca cb aa ab h ops hs
  exact ⟨ly false, ly true, hrep.layers, (hall false).2.1.safe, (hall true).2.1.safe⟩

/-! ## Full strength: only the two timeout errors are excluded

  `safety` assumes that no error at all was reported. The property text only grants that the exchange is not starved
  ("process() is called regularly"): the errors that depend on the schedule are the two timeouts,
  `ConsecutiveFrameTimeoutError` (N_Cr at the receiver) and `FlowControlTimeoutError` (N_Bs at the sender).
  `safety_timeouts` proves the same conclusion assuming only that neither of these two was reported. The proof shows
  that then nothing can go wrong that matters for delivery: `BadGeneratorError` cannot happen (bytes payloads), the
  peer never sends an Overflow or Wait Flow Control (it never sees a First Frame longer than its `max_frame_size`), the
  Flow Control frames are always decodable — so no request is ever aborted and no frame is ever dropped by a decoder.
  Extra hypothesis: the configured `stmin` of both layers is a valid STmin byte (0..0x7F or 0xF1..0xF9).
  `Params.validate` accepts any `stmin` in 0..255, but a layer configured with a reserved value (e.g. 0x80) emits Flow
  Control frames that the peer's `PDU` constructor rejects (`InvalidCanDataError`, then a Flow Control timeout). -/

/-- no `ConsecutiveFrameTimeoutError` / `FlowControlTimeoutError` among the events -/
def noTimeout (evs : List Ev) : Bool := noT evs

/-- **C01 + C10, network-level safety, every schedule, timeouts only.** As `safety`, assuming only that neither layer
    reported a timeout error. -/
theorem safety_timeouts (ca cb : Cfg) (aa ab : Addr) (h : Mirrored ca cb aa ab)
    (hsa : validStmin ca.stmin = true) (hsb : validStmin cb.stmin = true) (ops : List NOp) (hs : Sched ca cb ops)
    (h0 : noTimeout (events 0 (Net.run (n0 ca cb aa ab) ops)) = true)
    (h1 : noTimeout (events 1 (Net.run (n0 ca cb aa ab) ops)) = true) :
    got 1 (Net.run (n0 ca cb aa ab) ops) <+: sent 0 (Net.run (n0 ca cb aa ab) ops) ∧
    got 0 (Net.run (n0 ca cb aa ab) ops) <+: sent 1 (Net.run (n0 ca cb aa ab) ops) := by
  have hinv := invariant ca cb aa ab h ops hs
  obtain ⟨hs0, hs1⟩ := sendable_of_sched ca cb aa ab ops hs
  have hst : StminOk (mkSetting ca cb aa ab h) := by intro b; cases b; exact hsa; exact hsb
  have hnT : ∀ b, noT (logOf (idx b) (Net.run (n0 ca cb aa ab) ops).2) = true := by
    intro b; cases b; exact h0; exact h1
  constructor
  · obtain ⟨lb, hl, hp⟩ := safety_core2 _ hst _ _ hinv true hnT hs0
    simp only [got, sent]
    have hl' : (Net.run (n0 ca cb aa ab) ops).1.layers[1]? = some lb := hl
    rw [hl']
    exact hp
  · obtain ⟨lb, hl, hp⟩ := safety_core2 _ hst _ _ hinv false hnT hs1
    simp only [got, sent]
    have hl' : (Net.run (n0 ca cb aa ab) ops).1.layers[0]? = some lb := hl
    rw [hl']
    exact hp

/-- under the same hypotheses: every frame either layer has emitted is its Flow Control frame with status
    ContinueToSend or a frame of the reference segmentation of an admissible payload (`OutGood`); in particular no
    Overflow / Wait Flow Control is ever on the bus -/
theorem frames_good (ca cb : Cfg) (aa ab : Addr) (h : Mirrored ca cb aa ab)
    (hsa : validStmin ca.stmin = true) (hsb : validStmin cb.stmin = true) (ops : List NOp) (hs : Sched ca cb ops)
    (h0 : noTimeout (events 0 (Net.run (n0 ca cb aa ab) ops)) = true)
    (h1 : noTimeout (events 1 (Net.run (n0 ca cb aa ab) ops)) = true) :
    (∀ m ∈ emitted 0 (Net.run (n0 ca cb aa ab) ops), OutGood ca aa cb.maxFrameSize m) ∧
    (∀ m ∈ emitted 1 (Net.run (n0 ca cb aa ab) ops), OutGood cb ab ca.maxFrameSize m) := by
  obtain ⟨ly, ob, hrep, hall, hcond⟩ := invariant ca cb aa ab h ops hs
  have hst : StminOk (mkSetting ca cb aa ab h) := by intro b; cases b; exact hsa; exact hsb
  have hnT : ∀ b, noT (logOf (idx b) (Net.run (n0 ca cb aa ab) ops).2) = true := by
    intro b; cases b; exact h0; exact h1
  have h2 := hcond hst hnT
  constructor
  · have := (h2 false).send2.frames
    rw [(hall false).1, List.nil_append, List.reverse_reverse] at this
    exact this
  · have := (h2 true).send2.frames
    rw [(hall true).1, List.nil_append, List.reverse_reverse] at this
    exact this

/-- **Which errors can be reported at all.** Under the hypotheses of `safety_timeouts`, every error reported by
    either layer is an `UnexpectedFlowControlError`: there is no reception error (`InvalidCanData`,
    `UnexpectedConsecutiveFrame`, `WrongSequenceNumber`, `InterruptedWith…`, `FrameTooLong`, `ChangingInvalidRXDL`,
    `MissingEscapeSequence`, `InvalidCanFdFirstFrameRXDL`), no `BadGeneratorError`, no `OverflowError`, no
    `UnsupportedWaitFrame` / `MaximumWaitFrameReached`. -/
theorem only_unexpected_fc (ca cb : Cfg) (aa ab : Addr) (h : Mirrored ca cb aa ab)
    (hsa : validStmin ca.stmin = true) (hsb : validStmin cb.stmin = true) (ops : List NOp) (hs : Sched ca cb ops)
    (h0 : noTimeout (events 0 (Net.run (n0 ca cb aa ab) ops)) = true)
    (h1 : noTimeout (events 1 (Net.run (n0 ca cb aa ab) ops)) = true) :
    (∀ t x, Ev.err t x ∈ events 0 (Net.run (n0 ca cb aa ab) ops) → x = .UnexpectedFlowControl) ∧
    (∀ t x, Ev.err t x ∈ events 1 (Net.run (n0 ca cb aa ab) ops) → x = .UnexpectedFlowControl) := by
  have hinv := invariant ca cb aa ab h ops hs
  obtain ⟨hs0, hs1⟩ := sendable_of_sched ca cb aa ab ops hs
  have hst : StminOk (mkSetting ca cb aa ab h) := by intro b; cases b; exact hsa; exact hsb
  have hnT : ∀ b, noT (logOf (idx b) (Net.run (n0 ca cb aa ab) ops).2) = true := by
    intro b; cases b; exact h0; exact h1
  exact ⟨errors_core2 _ hst _ _ hinv false hnT hs1, errors_core2 _ hst _ _ hinv true hnT hs0⟩

/-! ## What is not proved: `UnexpectedFlowControlError` in a clean exchange

  The property text also says "neither side reports an error". `safety_timeouts` does not need it, and
  `only_unexpected_fc` reduces it to one error class: what is left open is that no `UnexpectedFlowControlError` is
  reported (a Flow Control frame reaching a sender whose transmit FSM is idle). That error does not disturb the
  transfer (the frame is dropped), which is why the delivery theorem does not depend on it. Excluding it needs a
  two-layer invariant that is not in the endpoint libraries: a Flow Control frame is requested / in flight / in the
  mailbox only while the peer's transmit FSM is in WAIT_FC for exactly that frame — relating the sender's `txState`,
  block counter and `remote_blocksize` to the receiver's `rxBlockCnt`, its pending Flow Control and the frames in
  flight in both directions. `no_protocol_error_partial` states the reduction. -/

/-- no `UnexpectedFlowControlError` among the events -/
def noUnexpectedFc (evs : List Ev) : Prop := ∀ t, Ev.err t .UnexpectedFlowControl ∉ evs

/-- OPEN: in every schedule in which no timeout is reported, no error at all is reported. -/
def C01net_no_protocol_error_statement : Prop :=
  ∀ (ca cb : Cfg) (aa ab : Addr), Mirrored ca cb aa ab → validStmin ca.stmin = true → validStmin cb.stmin = true →
    ∀ ops : List NOp, Sched ca cb ops →
    noTimeout (events 0 (Net.run (n0 ca cb aa ab) ops)) = true →
    noTimeout (events 1 (Net.run (n0 ca cb aa ab) ops)) = true →
    noError (Net.run (n0 ca cb aa ab) ops) = true

/-- the open statement, with the missing link as an explicit hypothesis: if moreover no `UnexpectedFlowControlError`
    is reported, then no error at all is reported -/
theorem no_protocol_error_partial (ca cb : Cfg) (aa ab : Addr) (h : Mirrored ca cb aa ab)
    (hsa : validStmin ca.stmin = true) (hsb : validStmin cb.stmin = true) (ops : List NOp) (hs : Sched ca cb ops)
    (h0 : noTimeout (events 0 (Net.run (n0 ca cb aa ab) ops)) = true)
    (h1 : noTimeout (events 1 (Net.run (n0 ca cb aa ab) ops)) = true)
    (hu0 : noUnexpectedFc (events 0 (Net.run (n0 ca cb aa ab) ops)))
    (hu1 : noUnexpectedFc (events 1 (Net.run (n0 ca cb aa ab) ops))) :
    noError (Net.run (n0 ca cb aa ab) ops) = true := by
  obtain ⟨e0, e1⟩ := only_unexpected_fc ca cb aa ab h hsa hsb ops hs h0 h1
  have key : ∀ evs : List Ev, (∀ t x, Ev.err t x ∈ evs → x = .UnexpectedFlowControl) → noUnexpectedFc evs →
      noErr evs = true := by
    intro evs he hu
    simp only [noErr, List.all_eq_true]
    intro e hmem
    cases e with
    | err t x =>
      have := he t x hmem
      subst this
      exact absurd hmem (hu t)
    | _ => rfl
  simp only [noError, Bool.and_eq_true]
  exact ⟨key _ e0 hu0, key _ e1 hu1⟩

/-! ## Non-vacuity: a concrete duplex exchange -/

/-- classic CAN, normal 11-bit addressing, default configuration on both sides (TX_DL 8, blocksize 8) -/
def exTx : Half :=
  { mode := .n11, txid := some 0x123, rxid := some 0x456, ta := none, sa := none, ae := none,
    physId := 0, funcId := 0, rxOnly := false, txOnly := false }
def exA : Addr := { tx := exTx, rx := exTx }
def exB : Addr := { tx := Spec.mirror exTx, rx := Spec.mirror exTx }
/-- layer 0 sends 20 bytes (First Frame + 2 Consecutive Frames) and 3 bytes (Single Frame); layer 1 sends 10 bytes
    (First Frame + 1 Consecutive Frame) at the same time -/
def exP1 : Bytes := (List.range 20).map UInt8.ofNat
def exP2 : Bytes := [0xAA, 0xBB, 0xCC]
def exQ1 : Bytes := (List.range 10).map (fun i => UInt8.ofNat (100 + i))
def sendArgs (id : Nat) (p : Bytes) : SendArgs := { id := id, size := p.length, src := p }

/-- interleaved sends, process calls, partial deliveries, clock ticks, recv calls -/
def exSched : List NOp :=
  [ .send 0 (sendArgs 1 exP1), .send 1 (sendArgs 2 exQ1), .send 0 (sendArgs 3 exP2),
    .proc 0, .proc 1, .tick 1000000, .deliver 0 1, .deliver 1 5, .proc 1, .proc 0, .tick 500000,
    .deliver 1 3, .deliver 0 4, .proc 0, .proc 1, .recv 1, .tick 1000000, .deliver 0 10, .deliver 1 10,
    .procTx 0, .proc 1, .proc 0, .deliver 0 10, .deliver 1 10, .proc 1, .proc 0, .deliver 0 10, .deliver 1 10,
    .proc 1, .proc 0, .recv 0, .recv 0, .recv 1 ]

example : Mirrored {} {} exA exB := ⟨⟨by decide, by decide, rfl⟩, ⟨by decide, by decide, rfl⟩⟩
example : Sched {} {} exSched := by decide +kernel
/-- no error; everything sent in both directions has been delivered, in order: `got = sent` -/
example : noError (Net.run (n0 {} {} exA exB) exSched) = true ∧
    sent 0 (Net.run (n0 {} {} exA exB) exSched) = [exP1, exP2] ∧
    got 1 (Net.run (n0 {} {} exA exB) exSched) = [exP1, exP2] ∧
    sent 1 (Net.run (n0 {} {} exA exB) exSched) = [exQ1] ∧
    got 0 (Net.run (n0 {} {} exA exB) exSched) = [exQ1] := by decide +kernel
example : validStmin ({} : Cfg).stmin = true ∧
    noTimeout (events 0 (Net.run (n0 {} {} exA exB) exSched)) = true ∧
    noTimeout (events 1 (Net.run (n0 {} {} exA exB) exSched)) = true := by decide +kernel
/-- in the middle of the exchange (first 16 operations) the prefix is strict: nothing delivered yet at layer 1 -/
example : noError (Net.run (n0 {} {} exA exB) (exSched.take 16)) = true ∧
    sent 0 (Net.run (n0 {} {} exA exB) (exSched.take 16)) = [exP1, exP2] ∧
    got 1 (Net.run (n0 {} {} exA exB) (exSched.take 16)) = [] := by decide +kernel
/-- the conservation law on the concrete run after 13 operations: 4 frames emitted by layer 0 (First Frame, Flow
    Control for the peer's First Frame, two Consecutive Frames) … -/
example : (emitted 0 (Net.run (n0 {} {} exA exB) (exSched.take 13))).length =
    (processed 1 (Net.run (n0 {} {} exA exB) (exSched.take 13))).length +
    (((Net.run (n0 {} {} exA exB) (exSched.take 13)).1.layers[1]?.map (·.inbox.length)).getD 0) +
    (((Net.run (n0 {} {} exA exB) (exSched.take 13)).1.outbox[0]?.map (·.length)).getD 0) := by decide +kernel
/-- a schedule with a starved receiver does report an error (the hypothesis of `safety` is not vacuous-ly true) -/
example : noError (Net.run (n0 {} {} exA exB)
    [.send 0 (sendArgs 1 exP1), .proc 0, .deliver 0 1, .proc 1, .tick 2000000000, .proc 1]) = false := by
  decide +kernel

/-- WITNESS (why `validStmin` is assumed): layer 1 configured with the reserved STmin value 0x80 — accepted by
    `Params.validate` (`Cfg.valid`) — answers the First Frame with a Flow Control frame that layer 0's decoder rejects:
    layer 0 reports `InvalidCanDataError` although no timeout occurred. So "no error other than timeouts" is false
    without the hypothesis on `stmin`. -/
example : ({ stmin := 0x80 } : Cfg).valid = true ∧
    (let r := Net.run (n0 {} { stmin := 0x80 } exA exB)
      [.send 0 (sendArgs 1 exP1), .proc 0, .deliver 0 1, .proc 1, .deliver 1 1, .proc 0]
     noTimeout (events 0 r) = true ∧ noTimeout (events 1 r) = true ∧
     (events 0 r).filter Ev.isErr = [Ev.err 0 .InvalidCanData]) := by decide +kernel

end Isotp.C01net

#print axioms Isotp.C01net.safety
#print axioms Isotp.C01net.delivered_were_sent
#print axioms Isotp.C01net.invariant
#print axioms Isotp.C01net.conservation
#print axioms Isotp.C01net.sender_stream
#print axioms Isotp.C01net.receiver_stream
#print axioms Isotp.C01net.no_exception
#print axioms Isotp.C01net.safety_timeouts
#print axioms Isotp.C01net.frames_good
#print axioms Isotp.C01net.only_unexpected_fc
#print axioms Isotp.C01net.no_protocol_error_partial
