import Isotp.Proofs.NetFcBase
/-
  Network-level C01, "neither side reports an error" — part 2: the RECEIVER LAW along the micro-steps of `process()`.
  (Flow Control frames emitted) + (Flow Control requested) ≤ (FC points among the data frames processed).
-/
namespace Isotp.NetP
open Isotp Isotp.State

/-! ### FC points of one message -/

/-- the First Frame of a segmented message (`n + 2` frames) is an FC point -/
theorem fcPt_first (bs n : Nat) : fcPt bs (n + 2) 0 = true := by simp [fcPt]

/-- a Consecutive Frame that completes a block and is not the last one is an FC point -/
theorem fcPt_block (bs n j : Nat) (hj : j < n) (hb : 0 < bs) (hm : (j + 1) % bs = 0) :
    fcPt bs (n + 2) (j + 1) = true := by
  simp [fcPt, hb, hm]; omega

/-! ### the frame that makes the receiver request a Flow Control is an FC point -/

/-- frame `k` of a well-formed message whose first `k` frames were fed to an idle receiver: if it sets `pendingFc`,
    then `pendingFc` was already set or `k` is an FC point of the message -/
theorem RcvFc.msg_step (pre p : Bytes) (fr : List Bytes) (c0 : Cfg) (a0 : Addr) (hw : Spec.WellFormed pre p fr)
    (hpre : pre.length = a0.rx.rxPrefixSize) (hmax : p.length ≤ c0.maxFrameSize) (k : Nat)
    {T : List Rx.RxEv} {s s1 : State} {m : CanMsg} (h : Compose.IdleAt c0 a0 T s) (hf : Rx.Feeds s (fr.take k) s1)
    (hk : fr[k]? = some m.data) (hp : (s1.processRx m).1.pendingFc = true) :
    s1.pendingFc = true ∨ fcPt c0.blocksize fr.length k = true := by
  rcases Compose.wellFormed_cases pre p fr c0 a0 hw hpre hmax with ⟨d, esc, cdl, rdl, rfl, hd, h8⟩ | ⟨g, n, pad, _, hg, rfl⟩
  · -- Single Frame
    have hk0 : k = 0 := by
      cases k with
      | zero => rfl
      | succ j => simp at hk
    subst hk0
    have hmd : m.data = d := by simpa using hk.symm
    have h1 := h.of_same (Compose.Feeds.done_iff_trace hf)
    have hd1 : decode m.data s1.addr.rx.rxPrefixSize = some ⟨.sf p.length p esc, cdl, rdl⟩ := by
      rw [hmd, h1.addr, ← hpre]; exact hd
    rw [Rx.processRx_sf_idle_eq s1 m _ _ _ _ _ hd1 h8 h1.idle] at hp
    exact Or.inl hp
  · rw [Compose.length_segFrames]
    match k, hk, hf with
    | 0, _, _ => exact Or.inr (fcPt_first _ _)
    | j + 1, hk, hf =>
      rw [Compose.segFrames, List.getElem?_cons_succ] at hk
      rw [Compose.segFrames, List.take_succ_cons] at hf
      obtain ⟨hj, hjm⟩ := List.getElem?_eq_some_iff.mp hk
      rw [Compose.getElem_cfList] at hjm
      rw [Compose.length_cfList] at hj
      obtain ⟨s2, h2, hf2⟩ := Compose.feeds_ff_idle hg h hf
      have hin := Compose.run_mid hg pad j (by omega) s2 s1 h2 hf2
      have hpre1 : g.pre.length = s1.addr.rx.rxPrefixSize := by rw [hin.addr]; exact hg.hpre
      by_cases hjn : j < n
      · -- a full Consecutive Frame
        have h8 := Rx.validTxDl_ge _ hg.txDl
        have hp1 := hg.pre_le
        have hm' : m.data = Spec.cfOf g.pre j
            ((p.drop (Spec.ffRoom g p.length + j * Spec.cfRoom g)).take (Spec.cfRoom g)) := by
          rw [← hjm]; unfold Compose.cfFrame Compose.cfBody; rw [if_pos hjn]
        rw [Rx.cf_step_eq g s1 m p j hin.sess hpre1 (by omega) h8.1 (hg.more_of_lt j hjn) hm'] at hp
        by_cases hb : 0 < s1.cfg.blocksize ∧ (j + 1) % s1.cfg.blocksize = 0
        · rw [hin.cfg] at hb
          exact Or.inr (fcPt_block _ _ _ hjn hb.1 hb.2)
        · rw [if_neg hb] at hp
          exact Or.inl hp
      · -- the last Consecutive Frame
        have hjn' : j = n := by omega
        subst hjn'
        have hm' : m.data = Spec.cfOf g.pre j (p.drop (Spec.ffRoom g p.length + j * Spec.cfRoom g) ++ pad) := by
          rw [← hjm]; unfold Compose.cfFrame Compose.cfBody; rw [if_neg (Nat.lt_irrefl _)]
        rw [Rx.last_cf_step_eq g s1 m p pad j hin.sess hpre1 hm'] at hp
        simp at hp

theorem markAt_cons_lt (bs l : Nat) (ls : List Nat) (f : Nat) (h : f < l) : markAt bs (l :: ls) f = fcPt bs l f := by
  simp only [markAt, posIn, lenAt, if_pos h]

theorem markAt_cons_ge (bs l : Nat) (ls : List Nat) (f : Nat) (h : l ≤ f) :
    markAt bs (l :: ls) f = markAt bs ls (f - l) := by
  simp only [markAt, posIn, lenAt, if_neg (Nat.not_lt.mpr h)]

/-- frame `f` of a stream of well-formed messages whose first `f` frames were fed to an idle receiver: if it sets
    `pendingFc`, then `pendingFc` was already set or `f` is an FC point of the stream -/
theorem RcvFc.stream_step (pre : Bytes) (enc : Bytes → List Bytes) :
    ∀ (ps : List Bytes) (f : Nat) (s s1 : State) (m : CanMsg),
    Compose.Admissible s pre enc ps → s.rxState = .idle → Rx.Feeds s ((Compose.stream enc ps).take f) s1 →
    (Compose.stream enc ps)[f]? = some m.data → (s1.processRx m).1.pendingFc = true →
    s1.pendingFc = true ∨ markAt s.cfg.blocksize (ps.map (fun p => (enc p).length)) f = true := by
  intro ps
  induction ps with
  | nil => intro f s s1 m _ _ _ hk _; simp at hk
  | cons p ps ih =>
    intro f s s1 m ha hi hf hk hp
    rw [Compose.stream_cons] at hf hk
    rw [List.map_cons]
    by_cases hle : (enc p).length ≤ f
    · rw [List.take_append, List.take_of_length_le hle] at hf
      obtain ⟨s2, h1, h2⟩ := hf.split
      obtain ⟨-, hi1, -⟩ := Rx.wellFormed_delivers s s2 pre p _ (ha.hwf p List.mem_cons_self) ha.hpre
        (ha.hmax p List.mem_cons_self) h1
      obtain ⟨hc1, ha1⟩ := Compose.Feeds.cfg_addr h1
      rw [List.getElem?_append_right hle] at hk
      have := ih (f - (enc p).length) s2 s1 m (ha.tail.of_eq hc1 ha1) hi1 h2 hk hp
      rw [hc1] at this
      rw [markAt_cons_ge _ _ _ _ hle]
      exact this
    · have hlt : f < (enc p).length := by omega
      rw [List.take_append_of_le_length (by omega)] at hf
      rw [List.getElem?_append_left hlt] at hk
      rw [markAt_cons_lt _ _ _ _ hlt]
      exact RcvFc.msg_step pre p (enc p) s.cfg s.addr (ha.hwf p List.mem_cons_self) ha.hpre
        (ha.hmax p List.mem_cons_self) f (Compose.admissible_idleAt hi) hf hk hp

/-! ### the micro-steps -/

theorem fed_tx_cons (a : Addr) (l L : List Ev) (t : Nat) (m : CanMsg) :
    fed a (Ev.tx t m :: l ++ L).reverse = fed a (l ++ L).reverse := by
  simp [fed, rxOf, List.filterMap_append]

/-- **Receiver law, one micro-step.** `enc`: the peer's segmentation, `psPeer`: the payloads the peer has accepted;
    the data frames read so far and still in the inbox are a prefix of the peer's stream (`hstream`, FIFO link), the
    layer has been fed with the frames read so far (`hfeeds`), a pass that has no Flow Control to send (and reports no
    timeout) returns no Flow Control frame (`hnotFc`), no timeout is reported (`hn`). -/
theorem RcvFc.micro {c : Cfg} {a : Addr} {pre : Bytes} {enc : Bytes → List Bytes} {psPeer : List Bytes}
    {s s' : State} {L : List Ev}
    (hm : Micro s s') (hsafe : SafeOk s) (hcfg : s.cfg = c) (haddr : s.addr = a)
    (hadm : Compose.Admissible (State.init c a) pre enc psPeer)
    (hfeeds : Rx.Feeds (State.init c a) (fed a (s.log ++ L).reverse) (relog s L))
    (hstream : fedsOf a (seen s L) <+: Compose.stream enc psPeer)
    (hnotFc : noT (s.processTx.1.log ++ L) = true → s.pendingFc = false →
      ∀ m, s.processTx.2.1 = some m → isFc a.tx.txPrefix.length m = false)
    (hn : noT (s'.log ++ L) = true)
    (h : RcvFc a c.blocksize (psPeer.map (fun p => (enc p).length)) s L) :
    RcvFc a c.blocksize (psPeer.map (fun p => (enc p).length)) s' L := by
  -- (`hcfg` is not needed: the block size is read off the state reached by `hfeeds`, whose `cfg` is `c`)
  have _ := hcfg
  unfold RcvFc at h ⊢
  cases hm with
  | rl => exact h
  | rxEnd hin =>
    have hct := checkTimeoutsRx_noT _ L hn
    have hpf : (rxEnd s).pendingFc = s.pendingFc := by unfold rxEnd; rw [hct]; rfl
    rw [(rxEnd_log s).txOf L, (rxEnd_log s).fed a L, hpf]
    exact h
  | txExc hx =>
    have := (SafeOk.stepInv.tx s hsafe).2
    rw [this] at hx
    cases hx
  | tx hx =>
    have hpf : (afterTxfn s.processTx).pendingFc = false := by
      unfold afterTxfn
      cases s.processTx.2.1 <;> exact Isotp.processTx_clears s
    rw [hpf]
    unfold afterTxfn at hn ⊢
    cases ho : s.processTx.2.1 with
    | none =>
      rw [ho] at hn
      simp only [] at hn ⊢
      rw [(processTx_log s).txOf L, (processTx_log s).fed a L]
      simp only [Bool.false_eq_true, if_false, Nat.add_zero]
      omega
    | some m0 =>
      rw [ho] at hn
      simp only [] at hn ⊢
      have hlogE : (s.processTx.1.emit (.tx s.processTx.1.now m0)).log = .tx s.processTx.1.now m0 :: s.processTx.1.log :=
        rfl
      rw [hlogE] at hn ⊢
      have hn1 : noT (s.processTx.1.log ++ L) = true := by
        rw [List.cons_append, noT_cons] at hn
        exact (Bool.and_eq_true _ _ ▸ hn).2
      rw [txOf_tx_cons, fed_tx_cons, (processTx_log s).txOf L, (processTx_log s).fed a L, fcCount_append,
        fcCount_singleton]
      simp only [Bool.false_eq_true, if_false, Nat.add_zero]
      cases hpend : s.pendingFc with
      | true =>
        rw [hpend] at h
        simp only [if_true] at h
        split <;> omega
      | false =>
        rw [hnotFc hn1 hpend m0 ho]
        simp only [Bool.false_eq_true, if_false, Nat.add_zero]
        omega
  | frame dt m rest hin =>
    have hn2 : noT ((arrive s dt m rest).checkTimeoutsRx.log ++ L) = true := (rxOne_log2 s dt m rest).noT L hn
    have hct := checkTimeoutsRx_noT _ L hn2
    have hT : Net.txOf ((rxOne s dt m rest).log ++ L).reverse = Net.txOf (s.log ++ L).reverse := by
      rw [(rxOne_log s dt m rest).txOf L]
      simp [Net.txOf, List.filterMap_append]
    rw [hT, (rxOne_log s dt m rest).fed a L, fed_rx a s.log L (s.now + dt) m]
    have ha1 : (arrive s dt m rest).addr = a := haddr
    unfold rxOne
    rw [hct, ha1]
    by_cases hfm : a.rx.isForMe m = true
    · rw [if_pos hfm, hfm]
      by_cases hfc : isFc a.rx.rxPrefixSize m = true
      · -- a Flow Control frame (or garbage with PCI type 3): no data frame, `pendingFc` not set
        rw [hfc]
        simp only [Bool.not_true, Bool.and_false, Bool.false_eq_true, if_false, List.append_nil]
        have hdec := isFc_decode _ m hfc
        rw [← ha1] at hdec
        rcases hdec with hd | ⟨st, bs, stm, cdl, rdl, hd⟩
        · rw [Rx.processRx_none_eq _ m hd]
          simp only [Bool.false_eq_true, if_false, Nat.add_zero]
          omega
        · rw [Rx.processRx_fc_eq _ m st bs stm cdl rdl hd]
          exact h
      · -- a data frame: the next frame of the peer's stream
        have hfc' : isFc a.rx.rxPrefixSize m = false := by simpa using hfc
        rw [hfc']
        simp only [Bool.not_false, Bool.and_true, if_true, List.length_append, List.length_singleton]
        rw [need_succ]
        have hs1 : Rx.RxSame (relog s L) (relog (arrive s dt m rest) L) :=
          rxSame_relog (rxSame_arrive s dt m rest) L
        have hF1 := feeds_same hfeeds hs1
        have hseen := fedsOf_seen a s L
        rw [hin] at hseen
        have hhead : fedsOf a (((dt, m) :: rest).map (·.2)) = m.data :: fedsOf a (rest.map (·.2)) := by
          simp [fedsOf, hfm, hfc']
        rw [hhead] at hseen
        rw [hseen] at hstream
        obtain ⟨t, ht⟩ := hstream
        rw [List.append_assoc] at ht
        have htake : (Compose.stream enc psPeer).take (fed a (s.log ++ L).reverse).length =
            fed a (s.log ++ L).reverse := by
          rw [← ht]; exact List.take_left' rfl
        have hget : (Compose.stream enc psPeer)[(fed a (s.log ++ L).reverse).length]? = some m.data := by
          rw [← ht]; simp
        rw [← htake] at hF1
        have key := RcvFc.stream_step pre enc psPeer _ _ _ m hadm rfl hF1 hget
        rw [relog_processRx] at key
        have key' : ((arrive s dt m rest).processRx m).1.pendingFc = true →
            s.pendingFc = true ∨ markAt c.blocksize (psPeer.map (fun p => (enc p).length))
              (fed a (s.log ++ L).reverse).length = true := key
        cases hp : ((arrive s dt m rest).processRx m).1.pendingFc with
        | false =>
          simp only [Bool.false_eq_true, if_false, Nat.add_zero]
          omega
        | true =>
          rcases key' hp with h1 | h1
          · rw [h1] at h
            simp only [if_true] at h ⊢
            omega
          · rw [h1]
            simp only [if_true]
            omega
    · -- not for this layer
      rw [if_neg hfm]
      have hfm' : a.rx.isForMe m = false := by simpa using hfm
      rw [hfm']
      simp only [Bool.false_and, Bool.false_eq_true, if_false, List.append_nil]
      exact h

/-- the form with an unconditional `hnotFc` -/
theorem RcvFc.micro' {c : Cfg} {a : Addr} {pre : Bytes} {enc : Bytes → List Bytes} {psPeer : List Bytes}
    {s s' : State} {L : List Ev}
    (hm : Micro s s') (hsafe : SafeOk s) (hcfg : s.cfg = c) (haddr : s.addr = a)
    (hadm : Compose.Admissible (State.init c a) pre enc psPeer)
    (hfeeds : Rx.Feeds (State.init c a) (fed a (s.log ++ L).reverse) (relog s L))
    (hstream : fedsOf a (seen s L) <+: Compose.stream enc psPeer)
    (hnotFc : s.pendingFc = false → ∀ m, s.processTx.2.1 = some m → isFc a.tx.txPrefix.length m = false)
    (hn : noT (s'.log ++ L) = true)
    (h : RcvFc a c.blocksize (psPeer.map (fun p => (enc p).length)) s L) :
    RcvFc a c.blocksize (psPeer.map (fun p => (enc p).length)) s' L :=
  RcvFc.micro hm hsafe hcfg haddr hadm hfeeds hstream (fun _ => hnotFc) hn h

end Isotp.NetP
