import Isotp.Process
/-
  C17 — property theorems (see DESIGN.md §6). Helper lemmas live in Isotp/Proofs.
-/
namespace Isotp.C17
open Isotp State

end Isotp.C17
