import Isotp.Proofs.Sock
/-
  C20 — Socket bind maps every address to the kernel addressing the Python layer uses.

  Reference definitions: `Isotp/Spec/Sock.lean` (`Spec.canId`, `Spec.bindOpts`, `Spec.afterBind`,
  `Spec.kernelEmits`, `Spec.kernelAccepts`, `Spec.kernelAcceptsLinux`, `Spec.txWf`, `Spec.rxWf`).
  The "pure-Python layer with the same address" is the address model of `Isotp/Address.lean`
  (`Half.txId`, `Half.txPrefix`, `Half.isForMe`).

  `bind s a asym`: `a : Addr` holds the transmit and the receive half (the same object for a
  symmetric `Address`), `asym` tells whether the Python object is an `AsymmetricAddress`.
-/
namespace Isotp.C20
open Isotp Isotp.Sock

/-! ## 1. the (rx id, tx id) tuple -/

/-- whatever the state and the address: a successful `bind` records
    `bind(interface, rxid, txid)` with `(id & CAN_EFF_MASK) | CAN_EFF_FLAG` for 29-bit halves and
    `id & CAN_SFF_MASK` otherwise, of the *physical* identifiers; the kernel is bound to the same pair -/
theorem bind_tuple (s s' : Sock) (a : Addr) (asym : Bool) (h : bind s a asym = .ok s') :
    (∃ rest, s'.calls =
        .bind (Spec.canId a.rx.mode.is29 (a.rx.rxId .physical))
              (Spec.canId a.tx.mode.is29 (a.tx.txId .physical)) :: rest) ∧
    s'.k.bound = some (Spec.canId a.rx.mode.is29 (a.rx.rxId .physical),
                       Spec.canId a.tx.mode.is29 (a.tx.txId .physical)) :=
  let ⟨h1, h2, _⟩ := bind_call s s' a asym h
  ⟨h1, h2⟩

/-- `Spec.canId` in arithmetic form (this is what the model computes) -/
theorem canId_arith (b : Bool) (id : Nat) :
    Spec.canId b id = if b then id % 2^29 + 0x80000000 else id % 2^11 := canId_eq b id

/-- for identifiers that fit their field the masks are identities: the EFF flag is added exactly
    for 29-bit identifiers -/
theorem canId_inrange (id : Nat) :
    (id < 2^29 → Spec.canId true id = id + 0x80000000) ∧ (id < 2^11 → Spec.canId false id = id) := by
  constructor <;> intro h <;> rw [canId_eq] <;> simp [effFlag] <;> omega

/-- well-formed halves: the tuple is `(rxid [+EFF], txid [+EFF])` with the unmasked identifiers -/
theorem bind_tuple_wf (s s' : Sock) (a : Addr) (asym : Bool) (htx : Spec.txWf a.tx = true)
    (hrx : Spec.rxWf a.rx = true) (h : bind s a asym = .ok s') :
    s'.k.bound = some (a.rx.rxId .physical + (if a.rx.mode.is29 then 0x80000000 else 0),
                       a.tx.txId .physical + (if a.tx.mode.is29 then 0x80000000 else 0)) := by
  rw [(bind_tuple s s' a asym h).2]
  have h1 := rxId_lt _ hrx
  have h2 := txId_lt _ htx
  congr 2
  · cases hb : a.rx.mode.is29 <;> simp only [hb] at h1 ⊢
    · simpa using (canId_inrange _).2 h1
    · simpa using (canId_inrange _).1 h1
  · cases hb : a.tx.mode.is29 <;> simp only [hb] at h2 ⊢
    · simpa using (canId_inrange _).2 h2
    · simpa using (canId_inrange _).1 h2

/-! ## 2. the options written by bind -/

/-- complete description of `bind` on an in-range kernel state: the two refusals, else
    exactly `Spec.afterBind` -/
theorem bind_total (s : Sock) (a : Addr) (asym : Bool) (hk : s.k.wf) :
    bind s a asym =
      if asym && (a.rx.mode.hasPrefix != a.tx.mode.hasPrefix) then .error .ValueError
      else if (a.tx.mode.hasPrefix || a.rx.mode.hasPrefix) && s.bound then .error .RuntimeError
      else if !Spec.extBytesOk a then .error .ValueError
      else .ok (Spec.afterBind s a) := Sock.bind_total s a asym hk.1

/-- after a successful bind on an in-range state: options are `Spec.bindOpts`, nothing else in the
    store moves, and the calls are `[setsockopt OPTS]` (only if some half uses a prefix byte)
    followed by `bind` -/
theorem bind_ext (s s' : Sock) (a : Addr) (asym : Bool) (hk : s.k.wf) (h : bind s a asym = .ok s') :
    s'.k.opts = Spec.bindOpts s.k.opts a ∧
    s'.k.fc = s.k.fc ∧ s'.k.ll = s.k.ll ∧ s'.k.txStmin = s.k.txStmin ∧ s'.k.opts.wf ∧
    s'.calls =
      (if a.tx.mode.hasPrefix || a.rx.mode.hasPrefix then
        [Call.bind (Spec.bindIds a).1 (Spec.bindIds a).2,
         Call.setopt 106 optOPTS (layoutOpts (Spec.bindOpts s.k.opts a))]
       else [Call.bind (Spec.bindIds a).1 (Spec.bindIds a).2]) ++ s.calls := by
  rw [bind_total s a asym hk] at h
  split at h
  · cases h
  split at h
  · cases h
  split at h
  · cases h
  rename_i he
  have he : Spec.extBytesOk a = true := by cases hx : Spec.extBytesOk a <;> simp_all
  injection h with h
  subst h
  refine ⟨by rw [afterBind_k], by rw [afterBind_k], by rw [afterBind_k], by rw [afterBind_k], ?_, ?_⟩
  · rw [afterBind_k]; exact bindOpts_wf _ _ hk.1 he
  · unfold Spec.afterBind
    split <;> simp [layoutOpts_eq, Spec.SOL_CAN_ISOTP, optOPTS, Spec.CAN_ISOTP_OPTS]

/-- what `Spec.bindOpts` does, bit by bit and field by field -/
theorem bindOpts_spec (k : KOpts) (a : Addr) :
    -- flag word: old flags, plus EXTEND_ADDR iff tx prefix, plus RX_EXT_ADDR iff rx prefix
    (Spec.bindOpts k a).flags =
        k.flags ||| (if a.tx.mode.hasPrefix then 0x002 else 0) ||| (if a.rx.mode.hasPrefix then 0x200 else 0) ∧
    -- every bit other than 0x002 (bit 1) and 0x200 (bit 9) is preserved
    (∀ j, j ≠ 1 → j ≠ 9 → (Spec.bindOpts k a).flags.testBit j = k.flags.testBit j) ∧
    -- EXTEND_ADDR: set if the tx half has a prefix byte, otherwise as before
    Spec.flagSet (Spec.bindOpts k a).flags Spec.EXTEND_ADDR
        = (a.tx.mode.hasPrefix || Spec.flagSet k.flags Spec.EXTEND_ADDR) ∧
    Spec.flagSet (Spec.bindOpts k a).flags Spec.RX_EXT_ADDR
        = (a.rx.mode.hasPrefix || Spec.flagSet k.flags Spec.RX_EXT_ADDR) ∧
    -- the extension bytes
    (∀ b, a.tx.txExtByte = some b → (Spec.bindOpts k a).extAddress = b) ∧
    (∀ b, a.rx.rxExtByte = some b → (Spec.bindOpts k a).rxExtAddress = b) ∧
    (a.tx.mode.hasPrefix = false → (Spec.bindOpts k a).extAddress = k.extAddress) ∧
    (a.rx.mode.hasPrefix = false → (Spec.bindOpts k a).rxExtAddress = k.rxExtAddress) ∧
    -- everything else
    (Spec.bindOpts k a).frameTxtime = k.frameTxtime ∧ (Spec.bindOpts k a).txpad = k.txpad ∧
    (Spec.bindOpts k a).rxpad = k.rxpad := by
  refine ⟨rfl, ?_, bindOpts_EXTEND k a, bindOpts_RXEXT k a, ?_, ?_, ?_, ?_, rfl, rfl, rfl⟩
  · intro j h1 h9
    rw [bindOpts_testBit]
    have e1 : (j == 1) = false := beq_false_of_ne h1
    have e9 : (j == 9) = false := beq_false_of_ne h9
    simp [e1, e9]
  · intro b hb; simp [Spec.bindOpts, hb]
  · intro b hb; simp [Spec.bindOpts, hb]
  · intro hp; simp [Spec.bindOpts, txExtByte_noPrefix _ hp]
  · intro hp; simp [Spec.bindOpts, rxExtByte_noPrefix _ hp]

/-- the "iff" reading: on a socket whose EXTEND_ADDR / RX_EXT_ADDR flags were not set by hand,
    each flag is set after bind exactly when the corresponding half uses a prefix byte -/
theorem bind_ext_iff (s s' : Sock) (a : Addr) (asym : Bool) (hk : s.k.wf)
    (hc1 : Spec.flagSet s.k.opts.flags Spec.EXTEND_ADDR = false)
    (hc2 : Spec.flagSet s.k.opts.flags Spec.RX_EXT_ADDR = false)
    (h : bind s a asym = .ok s') :
    Spec.flagSet s'.k.opts.flags Spec.EXTEND_ADDR = a.tx.mode.hasPrefix ∧
    Spec.flagSet s'.k.opts.flags Spec.RX_EXT_ADDR = a.rx.mode.hasPrefix := by
  rw [(bind_ext s s' a asym hk h).1, bindOpts_EXTEND, bindOpts_RXEXT, hc1, hc2]
  simp

/-- no prefix byte on either side: no `setsockopt` at all, options untouched -/
theorem bind_no_prefix (s s' : Sock) (a : Addr) (asym : Bool) (hk : s.k.wf)
    (hT : a.tx.mode.hasPrefix = false) (hR : a.rx.mode.hasPrefix = false)
    (h : bind s a asym = .ok s') :
    s'.calls = .bind (Spec.bindIds a).1 (Spec.bindIds a).2 :: s.calls ∧ s'.k.opts = s.k.opts := by
  obtain ⟨h1, _, _, _, _, h6⟩ := bind_ext s s' a asym hk h
  rw [h6, h1, bindOpts_noPrefix _ _ hT hR]
  simp [hT, hR]

/-! ## 3. asymmetric addresses the kernel cannot express -/

theorem bind_asym_refused (s : Sock) (a : Addr)
    (hd : a.rx.mode.hasPrefix ≠ a.tx.mode.hasPrefix) :
    bind s a true = .error .ValueError ∧ ∀ s', bind s a true ≠ .ok s' := by
  have h : bind s a true = .error .ValueError := by
    unfold Sock.bind
    have : (a.rx.mode.hasPrefix != a.tx.mode.hasPrefix) = true := by
      cases h1 : a.rx.mode.hasPrefix <;> cases h2 : a.tx.mode.hasPrefix <;> simp_all
    simp [this]
  exact ⟨h, fun s' hs => by rw [h] at hs; cases hs⟩

/-! ## 4. guards -/

theorem guards (s : Sock) :
    -- bind sets bound; afterwards the three setters raise RuntimeError, whatever the arguments
    (∀ a asym s', bind s a asym = .ok s' →
        s'.bound = true ∧ Sock.ioGuard s' = none ∧
        (∀ args, setOpts s' args = .error .RuntimeError) ∧
        (∀ x y z, setFcOpts s' x y z = .error .RuntimeError) ∧
        (∀ x y z, setLlOpts s' x y z = .error .RuntimeError)) ∧
    -- send / recv are refused exactly when the socket is not bound
    (Sock.ioGuard s = some .RuntimeError ↔ s.bound = false) ∧
    (Sock.ioGuard s = none ↔ s.bound = true) ∧
    -- after close they are refused again
    Sock.ioGuard (Sock.close s) = some .RuntimeError ∧ (Sock.close s).closed = true ∧
    -- a fresh socket is not bound
    Sock.ioGuard ({} : Sock) = some .RuntimeError := by
  refine ⟨?_, ?_, ?_, rfl, rfl, rfl⟩
  · intro a asym s' h
    obtain ⟨_, _, hb⟩ := bind_call s s' a asym h
    refine ⟨hb, by simp [Sock.ioGuard, hb], ?_, ?_, ?_⟩
    · intro args; simp [setOpts, hb]
    · intro x y z; simp [setFcOpts, hb]
    · intro x y z; simp [setLlOpts, hb]
  · cases h : s.bound <;> simp [Sock.ioGuard, h]
  · cases h : s.bound <;> simp [Sock.ioGuard, h]

/-! ## 5. kernel semantics of the bound socket vs. the Python layer -/

/-- The statement as given (no assumption on flags set before `bind`). It is **false**: `bind`
    preserves EXTEND_ADDR / RX_EXT_ADDR flags that the user set earlier with `set_opts`, so a
    Normal-addressing bind on such a socket yields a kernel socket that still emits / expects a
    prefix byte, while a Python layer with the same Normal address does not. -/
def C20_kernel_equiv_statement : Prop :=
  ∀ (s s' : Sock) (a : Addr) (asym : Bool), s.k.wf → Spec.txWf a.tx = true → Spec.rxWf a.rx = true →
    Sock.bind s a asym = .ok s' →
    Spec.kernelEmits s'.k = some (a.tx.txId .physical, a.tx.mode.is29, a.tx.txPrefix) ∧
    ∀ m, Spec.kernelAccepts s'.k m = (a.rx.isForMe m && m.id == a.rx.rxId .physical)

/-- witness: `Address(Normal_11bits, txid=0x456, rxid=0x123)` -/
def hN11 : Half :=
  { mode := .n11, txid := some 0x456, rxid := some 0x123, ta := none, sa := none, ae := none,
    physId := 0, funcId := 0, rxOnly := false, txOnly := false }

/-- witness state: the socket after `set_opts(ext_address=0x99)` -/
def sExt : Sock := { k := { opts := { flags := 0x002, extAddress := 0x99 } } }

theorem kernel_equiv_statement_false : ¬ C20_kernel_equiv_statement := by
  intro h
  have := (h sExt (Spec.afterBind sExt ⟨hN11, hN11⟩) ⟨hN11, hN11⟩ false (by decide) (by decide) (by decide)
    (by rw [Sock.bind_total _ _ _ (by decide)]; rfl)).1
  revert this
  decide

/-- the extra hypothesis: EXTEND_ADDR (resp. RX_EXT_ADDR) was not set by hand on a socket that is
    then bound to an address whose tx (resp. rx) half uses no prefix byte.
    A fresh socket satisfies it; so does any socket configured without `ext_address`,
    `rx_ext_address` and without those two bits in `optflag`. -/
def extFlagsClean (k : KOpts) (a : Addr) : Prop :=
  (a.tx.mode.hasPrefix = false → Spec.flagSet k.flags Spec.EXTEND_ADDR = false) ∧
  (a.rx.mode.hasPrefix = false → Spec.flagSet k.flags Spec.RX_EXT_ADDR = false)

/-- **kernel_equiv (partial: extra hypothesis `extFlagsClean`).**
    For a well-formed address, after `bind` the kernel socket
    * emits exactly the identifier, identifier type and prefix byte that the Python layer emits for
      physical target addressing, and
    * accepts a frame iff the Python layer's `is_for_me` accepts it **and** its identifier is the
      physical rx identifier.
    The second conjunct of the acceptance is needed only for NormalFixed / Mixed_29bits, where
    `is_for_me` also accepts the functional identifier (see `kernel_accepts_nonfixed`,
    `kernel_accepts_fixed`). -/
theorem kernel_equiv_partial (s s' : Sock) (a : Addr) (asym : Bool) (hk : s.k.wf)
    (htx : Spec.txWf a.tx = true) (hrx : Spec.rxWf a.rx = true) (hc : extFlagsClean s.k.opts a)
    (h : bind s a asym = .ok s') :
    Spec.kernelEmits s'.k = some (a.tx.txId .physical, a.tx.mode.is29, a.tx.txPrefix) ∧
    ∀ m, Spec.kernelAccepts s'.k m = (a.rx.isForMe m && m.id == a.rx.rxId .physical) := by
  rw [bind_total s a asym hk] at h
  split at h
  · cases h
  split at h
  · cases h
  split at h
  · cases h
  injection h with h
  subst h
  exact ⟨kernelEmits_afterBind s a htx hc.1, fun m => kernelAccepts_afterBind s a m hrx hc.2⟩

/-- modes other than NormalFixed_29bits / Mixed_29bits: the kernel accepts exactly the frames
    `is_for_me` accepts -/
theorem kernel_accepts_nonfixed (s s' : Sock) (a : Addr) (asym : Bool) (hk : s.k.wf)
    (htx : Spec.txWf a.tx = true) (hrx : Spec.rxWf a.rx = true) (hc : extFlagsClean s.k.opts a)
    (hm : a.rx.mode ≠ .nf29 ∧ a.rx.mode ≠ .m29) (h : bind s a asym = .ok s') (m : CanMsg) :
    Spec.kernelAccepts s'.k m = a.rx.isForMe m := by
  rw [(kernel_equiv_partial s s' a asym hk htx hrx hc h).2]
  cases hf : a.rx.isForMe m
  · rfl
  · simp [isForMe_id a.rx m hm hf]

/-- NormalFixed_29bits / Mixed_29bits: among real CAN identifiers (`< 2^29`) the kernel accepts
    exactly the frames `is_for_me` accepts whose bits 28..16 are the *physical* id
    (`arbitration_id & 0x1FFF0000 == physical_id`), i.e. not the functionally addressed ones -/
theorem kernel_accepts_fixed (s s' : Sock) (a : Addr) (asym : Bool) (hk : s.k.wf)
    (htx : Spec.txWf a.tx = true) (hrx : Spec.rxWf a.rx = true) (hc : extFlagsClean s.k.opts a)
    (hm : a.rx.mode = .nf29 ∨ a.rx.mode = .m29) (h : bind s a asym = .ok s') (m : CanMsg)
    (hid : m.id < 2^29) :
    Spec.kernelAccepts s'.k m = (a.rx.isForMe m && mask2816 m.id == a.rx.physId) := by
  rw [(kernel_equiv_partial s s' a asym hk htx hrx hc h).2]
  cases hf : a.rx.isForMe m
  · rfl
  · simp only [Bool.true_and]
    by_cases hp : mask2816 m.id = a.rx.physId
    · have e := isForMe_fixed_id a.rx m hrx hm hid hf hp
      rw [beq_iff_eq.mpr e, beq_iff_eq.mpr hp]
    · have : m.id ≠ a.rx.rxId .physical := by
        intro he; rw [he] at hp; exact hp (rxId_fixed_mask a.rx hrx hm)
      rw [beq_false_of_ne this, beq_false_of_ne hp]

/-- the same acceptance result for the filter closer to `isotp_rcv` (prefix expected iff
    EXTEND_ADDR; compared with `rx_ext_address` iff RX_EXT_ADDR, else with `ext_address`),
    for addresses whose halves agree on using a prefix byte — which `bind` enforces for
    asymmetric addresses and which holds trivially for symmetric ones -/
theorem kernel_equiv_linux (s s' : Sock) (a : Addr) (asym : Bool) (hk : s.k.wf)
    (htx : Spec.txWf a.tx = true) (hrx : Spec.rxWf a.rx = true) (hc : extFlagsClean s.k.opts a)
    (hpp : a.tx.mode.hasPrefix = a.rx.mode.hasPrefix) (h : bind s a asym = .ok s') (m : CanMsg) :
    Spec.kernelAcceptsLinux s'.k m = (a.rx.isForMe m && m.id == a.rx.rxId .physical) := by
  rw [← (kernel_equiv_partial s s' a asym hk htx hrx hc h).2 m]
  apply kernelAcceptsLinux_eq
  rw [(bind_ext s s' a asym hk h).1, bindOpts_EXTEND, bindOpts_RXEXT]
  cases hT : a.tx.mode.hasPrefix
  · rw [hT] at hpp
    simp [hc.1 hT, hc.2 hpp.symm, ← hpp]
  · rw [hT] at hpp
    simp [← hpp]

/-- a successful bind of an asymmetric address implies the halves agree on the prefix byte -/
theorem bind_asym_agree (s s' : Sock) (a : Addr) (h : bind s a true = .ok s') :
    a.tx.mode.hasPrefix = a.rx.mode.hasPrefix := by
  cases hT : a.tx.mode.hasPrefix <;> cases hR : a.rx.mode.hasPrefix <;> try rfl
  all_goals
    exact absurd h ((bind_asym_refused s a (by simp [hT, hR])).2 s')

/-! ## non-vacuity -/

/-- `Address(Extended_29bits, txid=0x18DA00F1, rxid=0x18DAF100, target_address=0x55, source_address=0xAA)` -/
def hE29 : Half :=
  { mode := .e29, txid := some 0x18DA00F1, rxid := some 0x18DAF100, ta := some 0x55, sa := some 0xAA,
    ae := none, physId := 0, funcId := 0, rxOnly := false, txOnly := false }

/-- `Address(NormalFixed_29bits, target_address=0x55, source_address=0xAA)` -/
def hNF : Half :=
  { mode := .nf29, txid := none, rxid := none, ta := some 0x55, sa := some 0xAA, ae := none,
    physId := 0x18DA0000, funcId := 0x18DB0000, rxOnly := false, txOnly := false }

-- the witnesses are what the constructor model builds
example : (mkAddress { mode := some .n11, txid := .int 0x456, rxid := .int 0x123 }).toOption = some hN11 := by
  decide
example : (mkAddress { mode := some .e29, txid := .int 0x18DA00F1, rxid := .int 0x18DAF100,
                       ta := .int 0x55, sa := .int 0xAA }).toOption = some hE29 := by decide
example : (mkAddress { mode := some .nf29, ta := .int 0x55, sa := .int 0xAA }).toOption = some hNF := by decide
example : Spec.txWf hE29 = true ∧ Spec.rxWf hE29 = true ∧ Spec.txWf hNF = true ∧ Spec.rxWf hNF = true ∧
    Spec.txWf hN11 = true ∧ Spec.rxWf hN11 = true := by decide
example : extFlagsClean ({} : Sock).k.opts ⟨hE29, hE29⟩ := ⟨fun _ => by decide, fun _ => by decide⟩

-- Normal 11 bits on a fresh socket: only the bind call, 11-bit ids without EFF
example : (bind {} ⟨hN11, hN11⟩ false).toOption.map (·.calls) = some [.bind 0x123 0x456] := by decide

-- Extended 29 bits: OPTS written with EXTEND_ADDR|RX_EXT_ADDR = 0x202, ext=0x55, rx_ext=0xAA,
-- pads kept (0xCC); ids carry the EFF flag
example : (bind {} ⟨hE29, hE29⟩ false).toOption.map (·.calls) =
    some [.bind 0x98DAF100 0x98DA00F1,
          .setopt 106 1 [0x02, 0x02, 0, 0, 0, 0, 0, 0, 0x55, 0xCC, 0xCC, 0xAA]] := by decide

-- what the kernel then emits / accepts
example : Spec.kernelEmits (Spec.afterBind {} ⟨hE29, hE29⟩).k = some (0x18DA00F1, true, [0x55]) := by decide
example : Spec.kernelAccepts (Spec.afterBind {} ⟨hE29, hE29⟩).k
    { id := 0x18DAF100, ext := true, data := [0xAA, 0x02, 0x3E, 0x00] } = true := by decide
example : Spec.kernelAccepts (Spec.afterBind {} ⟨hE29, hE29⟩).k
    { id := 0x18DAF100, ext := true, data := [0xAB, 0x02, 0x3E, 0x00] } = false := by decide

-- NormalFixed: the functional frame is for the Python layer but not for the kernel socket
example : hNF.isForMe { id := 0x18DBAA55, ext := true, data := [0x02, 0x3E, 0x00] } = true ∧
    Spec.kernelAccepts (Spec.afterBind {} ⟨hNF, hNF⟩).k
      { id := 0x18DBAA55, ext := true, data := [0x02, 0x3E, 0x00] } = false ∧
    Spec.kernelAccepts (Spec.afterBind {} ⟨hNF, hNF⟩).k
      { id := 0x18DAAA55, ext := true, data := [0x02, 0x3E, 0x00] } = true := by decide

-- asymmetric address mixing Normal (tx) and Extended (rx): refused
example : bind {} ⟨{ hN11 with txOnly := true }, { hE29 with rxOnly := true }⟩ true = .error .ValueError :=
  (bind_asym_refused _ _ (by decide)).1

-- options cannot be changed after bind; send/recv refused before bind and after close
example : (bind {} ⟨hN11, hN11⟩ false).toOption.map (fun s => (setOpts s { rxpad := .int 1 }).toOption.isNone)
    = some true := by decide
example : Sock.ioGuard {} = some .RuntimeError := rfl

/-- boundary finding (address validation, outside this property's scope but relevant to the
    `_wf` hypothesis): `Address(Normal_29bits, txid=0x20000001, …)` is accepted by the constructor
    (no upper bound is checked for 29-bit ids), the Python layer would emit id 0x20000001, while
    `bind` hands the kernel `0x20000001 & CAN_EFF_MASK = 1`. -/
example : (mkAddress { mode := some .n29, txid := .int 0x20000001, rxid := .int 0x123 }).toOption.map
      (fun h => (h.txId .physical, Spec.canId true (h.txId .physical)))
    = some (0x20000001, 0x80000001) := by decide

end Isotp.C20

#print axioms Isotp.C20.bind_tuple
#print axioms Isotp.C20.canId_arith
#print axioms Isotp.C20.canId_inrange
#print axioms Isotp.C20.bind_tuple_wf
#print axioms Isotp.C20.bind_total
#print axioms Isotp.C20.bind_ext
#print axioms Isotp.C20.bindOpts_spec
#print axioms Isotp.C20.bind_ext_iff
#print axioms Isotp.C20.bind_no_prefix
#print axioms Isotp.C20.bind_asym_refused
#print axioms Isotp.C20.bind_asym_agree
#print axioms Isotp.C20.guards
#print axioms Isotp.C20.kernel_equiv_statement_false
#print axioms Isotp.C20.kernel_equiv_partial
#print axioms Isotp.C20.kernel_accepts_nonfixed
#print axioms Isotp.C20.kernel_accepts_fixed
#print axioms Isotp.C20.kernel_equiv_linux
