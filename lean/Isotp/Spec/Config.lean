import Isotp.Params
/-
  Reference definitions for C16 ("configuration is validated up front"), written from the
  documentation:

  * /repo/doc/source/isotp/addressing.rst — the csv-table "Address required parameters"
    (one row per addressing mode, one column per kind: full / tx_only / rx_only) and the
    docstring of `isotp.Address` (parameter types `int | None`);
  * /repo/doc/source/isotp/implementation.rst, section "Parameters" (type annotation and
    the listed valid values of each key of the params dictionary).

  Nothing here mentions the model's `validateAddr`, `presenceOk`, `byteOk`, `idOk`,
  `PyVal.isInt`, `PyVal.intVal`, `PyVal.isNone`, `PyVal.pyEq`, `validateParams`, `intIn`, …:
  the predicates below look at the `PyVal` constructors directly.
-/
namespace Isotp.Spec
open Isotp

/-! ## Python values as the documentation types them -/

/-- "the parameter is given": anything but `None`. -/
def given : PyVal → Bool
  | .none => false
  | _ => true

/-- The documented type `int`. In Python `bool` is a subclass of `int`
    (`True == 1`, `False == 0`), so a bool is an int wherever the documentation says `int`. -/
def asInt : PyVal → Option Int
  | .int i => some i
  | .bool true => some 1
  | .bool false => some 0
  | _ => none

/-- an `int` within `lo..hi` -/
def intBetween (lo hi : Int) (v : PyVal) : Bool :=
  match asInt v with
  | some i => lo ≤ i && i ≤ hi
  | none => false

/-- an `int` that is at least `lo` -/
def intAtLeast (lo : Int) (v : PyVal) : Bool :=
  match asInt v with
  | some i => lo ≤ i
  | none => false

/-- an `int` that is one of the listed values -/
def intOneOf (l : List Int) (v : PyVal) : Bool :=
  match asInt v with
  | some i => l.contains i
  | none => false

/-- `None` or something satisfying `ok` ("`int or None`") -/
def noneOr (ok : PyVal → Bool) (v : PyVal) : Bool := !given v || ok v

/-- the documented type `bool` (an int such as `1` is *not* a bool) -/
def isBoolean : PyVal → Bool
  | .bool _ => true
  | _ => false

/-! ## Address (addressing.rst) -/

/-- Full address, or one half of an `AsymmetricAddress`. -/
inductive Kind where
  | full | txOnly | rxOnly
  deriving DecidableEq, Repr

/-- `rx_only` and `tx_only` cannot both be set. -/
def kindOf (rxOnly txOnly : Bool) : Option Kind :=
  match rxOnly, txOnly with
  | false, false => some .full
  | false, true  => some .txOnly
  | true,  false => some .rxOnly
  | true,  true  => none

/-- the five value parameters of `Address(...)` -/
inductive AParam where
  | txid | rxid | ta | sa | ae
  deriving DecidableEq, Repr

def argOf (a : AddrArgs) : AParam → PyVal
  | .txid => a.txid | .rxid => a.rxid | .ta => a.ta | .sa => a.sa | .ae => a.ae

/-- The csv-table "Address required parameters" of addressing.rst, row by row,
    columns Full address / Partial Tx / Partial Rx. -/
def required : Mode → Kind → List AParam
  | .n11,  .full => [.rxid, .txid]             | .n11,  .txOnly => [.txid]           | .n11,  .rxOnly => [.rxid]
  | .n29,  .full => [.rxid, .txid]             | .n29,  .txOnly => [.txid]           | .n29,  .rxOnly => [.rxid]
  | .nf29, .full => [.sa, .ta]                 | .nf29, .txOnly => [.sa, .ta]        | .nf29, .rxOnly => [.sa, .ta]
  | .e11,  .full => [.txid, .ta, .rxid, .sa]   | .e11,  .txOnly => [.txid, .ta]      | .e11,  .rxOnly => [.rxid, .sa]
  | .e29,  .full => [.txid, .ta, .rxid, .sa]   | .e29,  .txOnly => [.txid, .ta]      | .e29,  .rxOnly => [.rxid, .sa]
  | .m11,  .full => [.rxid, .txid, .ae]        | .m11,  .txOnly => [.txid, .ae]      | .m11,  .rxOnly => [.rxid, .ae]
  | .m29,  .full => [.sa, .ta, .ae]            | .m29,  .txOnly => [.sa, .ta, .ae]   | .m29,  .rxOnly => [.sa, .ta, .ae]

/-- Modes whose CAN identifiers are `txid` / `rxid` (docstring of `Address`: "Used for these
    addressing mode: Normal_11bits, Normal_29bits, Extended_11bits, Extended_29bits,
    Mixed_11bits"); the other two derive the identifier from the address bytes. -/
def usesIds : Mode → Bool
  | .n11 | .n29 | .e11 | .e29 | .m11 => true
  | .nf29 | .m29 => false

/-- Modes with 11-bit identifiers. -/
def is11bit : Mode → Bool
  | .n11 | .e11 | .m11 => true
  | _ => false

/-- target_address / source_address / address_extension: one byte. -/
def isAddrByte (v : PyVal) : Bool := intBetween 0 0xFF v

/-- txid / rxid: a non-negative int, at most 0x7FF with 11-bit identifiers.
    (For the 29-bit modes the code checks no upper bound: `Address(Normal_29bits,
    txid=2**40, rxid=1)` is accepted. The documentation gives no bound either.) -/
def isCanId (m : Mode) (v : PyVal) : Bool :=
  if is11bit m then intBetween 0 0x7FF v else intAtLeast 0 v

/-- "txid and rxid must be different" (when both are given). -/
def idsDiffer (tx rx : PyVal) : Bool :=
  match asInt tx, asInt rx with
  | some i, some j => i != j
  | _, _ => true

/-- `Address(...)` is accepted exactly when: the mode is an `AddressingMode`; not both
    `rx_only` and `tx_only`; every parameter the table requires for (mode, kind) is given;
    every address byte that is given (needed or not) is an int in 0..0xFF; every identifier
    that is given (needed or not) is an int in the identifier range of the mode; and, in the
    modes that use `txid`/`rxid`, the two differ when both are given. -/
def docValidAddress (a : AddrArgs) : Bool :=
  match a.mode, kindOf a.rxOnly a.txOnly with
  | some m, some k =>
      (required m k).all (fun p => given (argOf a p)) &&
      [AParam.ta, .sa, .ae].all (fun p => noneOr isAddrByte (argOf a p)) &&
      [AParam.txid, .rxid].all (fun p => noneOr (isCanId m) (argOf a p)) &&
      (!usesIds m || idsDiffer a.txid a.rxid)
  | _, _ => false

/-- 29-bit identifier base of the two "fixed" modes (addressing.rst: 0x18DA / 0x18DB for
    NormalFixed, 0x18CE / 0x18CD for Mixed_29bits; "Only bits 28-16 are used" of a
    user-supplied physical_id / functional_id). Other modes do not use them (0). -/
def docPhysId (m : Mode) (physId : Option Nat) : Nat :=
  match m, physId with
  | .nf29, none => 0x18DA0000 | .m29, none => 0x18CE0000
  | .nf29, some x => x / 65536 % 8192 * 65536 | .m29, some x => x / 65536 % 8192 * 65536
  | _, _ => 0

def docFuncId (m : Mode) (funcId : Option Nat) : Nat :=
  match m, funcId with
  | .nf29, none => 0x18DB0000 | .m29, none => 0x18CD0000
  | .nf29, some x => x / 65536 % 8192 * 65536 | .m29, some x => x / 65536 % 8192 * 65536
  | _, _ => 0

/-- stored value of an (already validated) optional (`int | None`) parameter -/
def storedNat (v : PyVal) : Option Nat := (asInt v).map Int.toNat

/-! ## Params (implementation.rst, "Parameters") -/

/-- the eight CAN / CAN FD link-layer sizes ("Valid values are : 8, 12, 16, 20, 24, 32, 48, 64") -/
def linkSizes : List Int := [8, 12, 16, 20, 24, 32, 48, 64]

/-- "Valid values are : 1, 2, 3, 4, 5, 6, 7, 8, 12, 16, 20, 24, 32, 48, 64" -/
def minLengths : List Int := [1, 2, 3, 4, 5, 6, 7, 8, 12, 16, 20, 24, 32, 48, 64]

/-- A finite, non-negative number of seconds: an `int` or a finite `float`, but not a bool
    (`override_receiver_stmin`, annotation "float or None"; the code refuses bools). -/
def nonNegFiniteNumber : PyVal → Bool
  | .int i => 0 ≤ i
  | .float n _ => 0 ≤ n
  | _ => false

/-- A finite, strictly positive number (`rate_limit_window_size`, annotation "float").
    The documentation is silent about ints; an `int` (hence, Python being Python, a bool)
    is a number and the code accepts it. -/
def positiveFiniteNumber : PyVal → Bool
  | .float n _ => 0 < n
  | v => match asInt v with
    | some i => 0 < i
    | none => false

/-- `v` is a finite number and `v ≥ k` (floats are exact rationals `n/d`, `d > 0`). -/
def finiteAtLeast (k : Int) : PyVal → Bool
  | .float n d => k * d ≤ n
  | v => match asInt v with
    | some i => k ≤ i
    | none => false

/-- One row per key of the params dictionary: (name, value, documented type/range).
    `logger_name` and `wait_func` are outside the model (DESIGN §3.1). Where the
    documentation only gives a type, the range is the obvious one for the quantity and is
    noted:
    * timeouts (milliseconds, "int"): non-negative;
    * `wftmax` ("int", "single-byte"): the code only requires it non-negative — followed here;
    * `max_frame_size` ("int", a length): non-negative;
    * `rate_limit_max_bitrate` ("int", bits/s): strictly positive;
    * `default_target_address_type` ("int": Physical (0) or Functional (1)). -/
def paramTable (p : ParamArgs) : List (String × PyVal × (PyVal → Bool)) :=
  [ ("stmin",                        p.stmin,         intBetween 0 0xFF),
    ("blocksize",                    p.blocksize,     intBetween 0 0xFF),
    ("override_receiver_stmin",      p.overrideStmin, noneOr nonNegFiniteNumber),
    ("rx_flowcontrol_timeout",       p.tFc,           intAtLeast 0),
    ("rx_consecutive_frame_timeout", p.tCf,           intAtLeast 0),
    ("tx_padding",                   p.txPadding,     noneOr (intBetween 0 0xFF)),
    ("wftmax",                       p.wftmax,        intAtLeast 0),
    ("tx_data_length",               p.txDl,          intOneOf linkSizes),
    ("tx_data_min_length",           p.txMinLen,      noneOr (intOneOf minLengths)),
    ("max_frame_size",               p.maxFrameSize,  intAtLeast 0),
    ("can_fd",                       p.canFd,         isBoolean),
    ("bitrate_switch",               p.brs,           isBoolean),
    ("default_target_address_type",  p.defaultTat,    intOneOf [0, 1]),
    ("rate_limit_max_bitrate",       p.rlBitrate,     intAtLeast 1),
    ("rate_limit_window_size",       p.rlWindow,      positiveFiniteNumber),
    ("rate_limit_enable",            p.rlEnable,      isBoolean),
    ("listen_mode",                  p.listen,        isBoolean),
    ("blocking_send",                p.blocking,      isBoolean) ]

/-- `tx_data_min_length`, when given, is not above `tx_data_length`. -/
def minLenFits (minLen dl : PyVal) : Bool :=
  match asInt minLen, asInt dl with
  | some m, some d => m ≤ d
  | none, _ => true
  | _, none => false

/-- The rate limiter can carry one full frame per window: the number of bits of a window,
    `N = rate_limit_max_bitrate * rate_limit_window_size` (implementation.rst; `p.prod` is
    that Python float, evaluated by Python), is finite and at least `tx_data_length * 8`. -/
def windowCarriesOneFrame (prod dl : PyVal) : Bool :=
  match asInt dl with
  | some d => finiteAtLeast (d * 8) prod
  | none => false

/-- `params` is accepted exactly when every key has its documented type and range, the
    minimum length fits in the link-layer size, the rate-limit window carries a frame, and
    a given `override_receiver_stmin` is representable in nanoseconds
    (`p.ovrScaledFinite`: `override_receiver_stmin * 1e9` is finite; not documented, this
    is the unit the implementation keeps it in — the flag is only read when the override is
    given). -/
def docValidParams (p : ParamArgs) : Bool :=
  (paramTable p).all (fun row => row.2.2 row.2.1) &&
  minLenFits p.txMinLen p.txDl &&
  windowCarriesOneFrame p.prod p.txDl &&
  (!given p.overrideStmin || p.ovrScaledFinite)

end Isotp.Spec
