import Isotp.Process
/-
  Helper definitions and lemmas for C04 (flow control obeyed, sender terminates) and
  C08 (STmin honoured): a phase decomposition of `processTx` (`_process_tx`), facts about
  `handleFc`, `transmitCf`, the timers, and the transmit-side invariants.
-/
namespace Isotp
namespace State

/-! ### Phase decomposition of `processTx` (case: no Flow Control to send) -/

/-- Phase 1: the mailbox `last_flow_control_frame` is consumed.
    Second component `true` = the Overflow branch (the function returns at once). -/
def afterFc (s : State) : State × Bool :=
  let s0 := { s with lastFc := none }
  match s.lastFc with
  | some f => if f.status = 2 then (((s0.stopSending false).error .Overflow), true) else (s0.handleFc f, false)
  | none => (s0, false)

/-- Phase 2: the N_Bs (`rx_flowcontrol_timeout`) check. -/
def afterTimeout (s : State) : State :=
  if s.timerFc.timedOut s.now then (s.error .FlowControlTimeout).stopSending false else s

/-- Phase 3: "generator depleted and nothing in standby" ends the request with success. -/
def afterDepleted (s : State) : State :=
  if s.txState ≠ .idle && (match s.active with | some r => r.depleted | none => false) && s.standby.isNone
  then s.stopSending true else s

/-- Phase 4: the state machine proper. -/
def fsm (s : State) (allowed : Nat) : State × Option CanMsg × Bool :=
  match s.txState with
  | .idle =>
    let (s, out) := s.readTxQueue allowed s.txQueue
    (s, out, false)
  | .sfStandby | .ffStandby =>
    match s.standby with
    | some msg =>
      if msg.data.length ≤ allowed then
        let s := { s with standby := none }
        if s.txState = .ffStandby then
          (({ s.startRxFcTimer with txState := .waitFc }), some msg, false)
        else (s.stopSending true, some msg, false)
      else (s, none, false)
    | none => (s, none, false)
  | .waitFc => (s, none, false)
  | .transmitCf => s.transmitCf allowed

/-- Phase 5: exception check and rate-limiter accounting. -/
def finish (r : State × Option CanMsg × Bool) : State × Option CanMsg × Bool :=
  if r.1.exc.isSome then (r.1, none, false) else
  match r.2.1 with
  | some msg => ({ r.1 with rl := r.1.rl.inform r.1.now msg.data.length }, some msg, r.2.2)
  | none => (r.1, none, r.2.2)

/-- the byte budget handed to the state machine by `processTx` -/
def allowedNow (s : State) : Nat := s.rl.allowedBytes s.cfg.rlBitMax

/-- Phase 0: a Flow Control frame requested by the receive side is sent first.
    `some none` = exception, `some (some m)` = `m` is sent and the call returns,
    `none` = nothing to send (or listen mode): the call goes on. -/
def fcSendPhase (s : State) : State × Option (Option CanMsg) :=
  if s.pendingFc then
    let s := { s with pendingFc := false }
    match s.pendingFcStatus with
    | none => (s.raise .AttributeError, some none)
    | some st =>
      let s := if st = 0 then s.startRxCfTimer else s
      if !s.cfg.listen then
        match makeFlowControl s.cfg s.addr st with
        | none => (s.raise .ValueError, some none)
        | some msg => (s, some (some msg))
      else (s, none)
  else (s, none)

/-- Phases 1–5 on the state left by phase 0. -/
def txPhases (s : State) (allowed : Nat) : State × Option CanMsg × Bool :=
  if (afterFc s).2 then ((afterFc s).1, none, false) else
  let s2 := afterTimeout (afterFc s).1
  if s2.txState ≠ .idle && s2.active.isNone then (s2.raise .AssertionError, none, false) else
  finish (fsm (afterDepleted s2) allowed)

theorem processTx_eq (s : State) :
    s.processTx =
      match fcSendPhase s with
      | (s1, some none) => (s1, none, false)
      | (s1, some (some msg)) => (s1, some msg, true)
      | (s1, none) => txPhases s1 s.allowedNow := by
  set_option linter.unusedSimpArgs false in
  cases hfc : s.lastFc with
  | none =>
    cases hp : s.pendingFc with
    | false =>
      simp only [processTx, fcSendPhase, txPhases, afterFc, allowedNow, hp, hfc, Bool.false_eq_true, if_false, if_true]
      try rfl
    | true =>
      cases hst : s.pendingFcStatus with
      | none => simp only [processTx, fcSendPhase, hp, hst, if_true]
      | some st =>
        cases hl : s.cfg.listen with
        | true =>
          by_cases h0 : st = 0
          · subst h0
            simp only [processTx, fcSendPhase, txPhases, afterFc, allowedNow, hp, hfc, hst, hl, if_true, startRxCfTimer, Bool.not_true, Bool.false_eq_true, if_false]
            try rfl
          · simp only [processTx, fcSendPhase, txPhases, afterFc, allowedNow, hp, hfc, hst, hl, h0, if_true, Bool.not_true, Bool.false_eq_true, if_false]
            try rfl
        | false =>
          by_cases h0 : st = 0
          · subst h0
            cases hm : makeFlowControl s.cfg s.addr 0 <;>
              simp only [processTx, fcSendPhase, allowedNow, hp, hst, hl, hm, if_true, startRxCfTimer, Bool.not_false]
          · cases hm : makeFlowControl s.cfg s.addr st <;>
              simp only [processTx, fcSendPhase, allowedNow, hp, hst, hl, h0, hm, if_true, Bool.not_false, if_false]
  | some f =>
    by_cases h2 : f.status = 2
    ·
      cases hp : s.pendingFc with
      | false =>
        simp only [processTx, fcSendPhase, txPhases, afterFc, allowedNow, hp, hfc, h2, Bool.false_eq_true, if_false, if_true]
        try rfl
      | true =>
        cases hst : s.pendingFcStatus with
        | none => simp only [processTx, fcSendPhase, hp, hst, if_true]
        | some st =>
          cases hl : s.cfg.listen with
          | true =>
            by_cases h0 : st = 0
            · subst h0
              simp only [processTx, fcSendPhase, txPhases, afterFc, allowedNow, hp, hfc, h2, hst, hl, if_true, startRxCfTimer, Bool.not_true, Bool.false_eq_true, if_false]
              try rfl
            · simp only [processTx, fcSendPhase, txPhases, afterFc, allowedNow, hp, hfc, h2, hst, hl, h0, if_true, Bool.not_true, Bool.false_eq_true, if_false]
              try rfl
          | false =>
            by_cases h0 : st = 0
            · subst h0
              cases hm : makeFlowControl s.cfg s.addr 0 <;>
                simp only [processTx, fcSendPhase, allowedNow, hp, hst, hl, hm, if_true, startRxCfTimer, Bool.not_false]
            · cases hm : makeFlowControl s.cfg s.addr st <;>
                simp only [processTx, fcSendPhase, allowedNow, hp, hst, hl, h0, hm, if_true, Bool.not_false, if_false]
    ·
      cases hp : s.pendingFc with
      | false =>
        simp only [processTx, fcSendPhase, txPhases, afterFc, allowedNow, hp, hfc, h2, Bool.false_eq_true, if_false, if_true]
        try rfl
      | true =>
        cases hst : s.pendingFcStatus with
        | none => simp only [processTx, fcSendPhase, hp, hst, if_true]
        | some st =>
          cases hl : s.cfg.listen with
          | true =>
            by_cases h0 : st = 0
            · subst h0
              simp only [processTx, fcSendPhase, txPhases, afterFc, allowedNow, hp, hfc, h2, hst, hl, if_true, startRxCfTimer, Bool.not_true, Bool.false_eq_true, if_false]
              try rfl
            · simp only [processTx, fcSendPhase, txPhases, afterFc, allowedNow, hp, hfc, h2, hst, hl, h0, if_true, Bool.not_true, Bool.false_eq_true, if_false]
              try rfl
          | false =>
            by_cases h0 : st = 0
            · subst h0
              cases hm : makeFlowControl s.cfg s.addr 0 <;>
                simp only [processTx, fcSendPhase, allowedNow, hp, hst, hl, hm, if_true, startRxCfTimer, Bool.not_false]
            · cases hm : makeFlowControl s.cfg s.addr st <;>
                simp only [processTx, fcSendPhase, allowedNow, hp, hst, hl, h0, hm, if_true, Bool.not_false, if_false]

theorem fcSendPhase_not_pending {s : State} (h : s.pendingFc = false) : fcSendPhase s = (s, none) := by
  simp [fcSendPhase, h]

theorem processTx_eq_of_not_pending (s : State) (h : s.pendingFc = false) :
    s.processTx = txPhases s s.allowedNow := by
  rw [processTx_eq, fcSendPhase_not_pending h]

/-- The state on which the state machine of `_process_tx` runs in this call; `none` when the call
    returns before reaching it (Flow Control sent, Overflow received, "no transmission in
    progress" assertion). -/
def preFsm (s : State) : Option State :=
  match fcSendPhase s with
  | (s1, none) =>
    if (afterFc s1).2 then none
    else
      let s2 := afterTimeout (afterFc s1).1
      if s2.txState ≠ .idle && s2.active.isNone then none else some (afterDepleted s2)
  | _ => none

/-- This call of `processTx` runs the TRANSMIT_CF branch (the only place that builds a
    Consecutive Frame). -/
def cfBranch (s : State) : Bool :=
  match preFsm s with
  | some s3 => s3.txState = .transmitCf
  | none => false

/-- `processTx s` hands the Consecutive Frame `msg` to the CAN layer. -/
def EmitsCf (s : State) (msg : CanMsg) : Prop :=
  cfBranch s = true ∧ s.processTx.2.1 = some msg

theorem processTx_of_preFsm {s s3 : State} (h : preFsm s = some s3) :
    s.processTx = finish (fsm s3 s.allowedNow) := by
  rw [processTx_eq]
  unfold preFsm at h
  unfold txPhases
  grind

theorem preFsm_of_not_pending {s : State} (h : s.pendingFc = false) :
    preFsm s =
      if (afterFc s).2 then none
      else if (afterTimeout (afterFc s).1).txState ≠ .idle && (afterTimeout (afterFc s).1).active.isNone then none
      else some (afterDepleted (afterTimeout (afterFc s).1)) := by
  simp [preFsm, fcSendPhase_not_pending h]

/-! ### Flow Control decoding (STmin byte) -/
end State

theorem validStmin_iff (b : Nat) : validStmin b = true ↔ b ≤ 0x7F ∨ (0xF1 ≤ b ∧ b ≤ 0xF9) := by
  simp [validStmin]

theorem stminNs_ms (b : Nat) (h : b ≤ 0x7F) : stminNs b = b * 1000000 := by simp [stminNs, h]

theorem stminNs_us (b : Nat) (h1 : 0xF1 ≤ b) (h2 : b ≤ 0xF9) : stminNs b = (b - 0xF0) * 100000 := by
  have : ¬ b ≤ 0x7F := by omega
  simp [stminNs, this]

theorem decodeBody_fc {d : Bytes} {st bs stm : Nat} (h : decodeBody d = some (.fc st bs stm)) :
    validStmin stm = true ∧ st < 3 ∧ d.length ≥ 3 ∧ byteAt d 0 / 16 = 3 ∧
      st = byteAt d 0 % 16 ∧ bs = byteAt d 1 ∧ stm = byteAt d 2 := by
  simp only [decodeBody] at h
  repeat' split at h
  all_goals first | (cases h; done) | skip
  injection h with h
  injection h with h1 h2 h3
  subst h1 h2 h3
  refine ⟨by assumption, ?_, ?_, by assumption, rfl, rfl, rfl⟩ <;> omega

/-- a Flow Control whose STmin byte is reserved (0x80–0xF0, 0xFA–0xFF) is not decoded at all -/
theorem decodeBody_reserved_stmin (d : Bytes) (h0 : byteAt d 0 / 16 = 3)
    (h : validStmin (byteAt d 2) = false) : decodeBody d = none := by
  cases hd : decodeBody d with
  | none => rfl
  | some p =>
    exfalso
    simp only [decodeBody] at hd
    repeat' split at hd
    all_goals first | (cases hd; done) | omega | skip
    simp_all

theorem decode_fc {data : Bytes} {n : Nat} {d : Decoded} {st bs stm : Nat}
    (h : decode data n = some d) (hp : d.pdu = .fc st bs stm) : validStmin stm = true ∧ st < 3 := by
  unfold decode at h
  split at h
  · cases h
  · split at h
    · cases h
    · rename_i p hp'
      injection h with h
      subst h
      simp at hp
      subst hp
      exact ⟨(decodeBody_fc hp').1, (decodeBody_fc hp').2.1⟩

namespace State

/-! ### `_process_rx` and the transmit side -/

/-- the transmit-side view of a state: everything the transmit path reads or writes except the
    mailbox, the pending-FC flags and the log -/
def txView (s : State) :=
  (s.txState, s.active, s.standby, s.timerFc, s.timerStmin, s.remoteBs, s.txBlockCnt, s.now, s.cfg,
   s.txQueue, s.wftCnt, s.addr, s.rl, s.txSeq, s.txFrameLen)

theorem processRx_txView (s : State) (m : CanMsg) : (s.processRx m).1.txView = s.txView := by
  unfold processRx startReception txView
  grind (splits := 40) [deliver, stopReceiving, State.error, emit, requestFc, startRxCfTimer]

/-- phase 0 (sending a Flow Control) leaves the transmit side and the mailbox alone -/
theorem fcSendPhase_txView (s : State) :
    (fcSendPhase s).1.txView = s.txView ∧ (fcSendPhase s).1.lastFc = s.lastFc ∧
    (fcSendPhase s).1.pendingFc = false := by
  unfold fcSendPhase txView
  grind [State.raise, startRxCfTimer]

/-- the mailbox after `_process_rx` holds the old frame, nothing, or a *valid* Flow Control -/
theorem processRx_lastFc (s : State) (m : CanMsg) (fc : FcFrame)
    (h : (s.processRx m).1.lastFc = some fc) :
    s.lastFc = some fc ∨ (validStmin fc.stmin = true ∧ fc.status < 3) := by
  unfold processRx startReception at h
  split at h
  · simp [stopReceiving] at h
  · rename_i d hd
    split at h
    · rename_i st bs stm hp
      simp at h
      subst h
      right
      exact decode_fc hd hp
    all_goals (left; grind [deliver, stopReceiving, State.error, emit, requestFc, startRxCfTimer])

/-! ### `handleFc` case by case -/

/-- separation time put in force by a ContinueToSend (`override_receiver_stmin` wins) -/
def sepOf (c : Cfg) (fc : FcFrame) : Nat :=
  match c.overrideStminNs with | some o => o | none => stminNs fc.stmin

/-- the guard under which `handleFc` honours a ContinueToSend -/
def ctsHonoured (s : State) (fc : FcFrame) : Bool :=
  fc.status = 0 && !(s.timerFc.timedOut s.now) && (s.txState = .waitFc || s.txState = .transmitCf)

theorem handleFc_cts (s : State) (fc : FcFrame) (h : ctsHonoured s fc = true) :
    s.handleFc fc =
      { s with wftCnt := 0, timerFc := s.timerFc.stop, remoteBs := some fc.bs, txState := .transmitCf,
               txBlockCnt := if s.txState = .waitFc then 0 else s.txBlockCnt,
               timerStmin := if s.txState = .waitFc then { start := some s.now, timeout := sepOf s.cfg fc }
                             else { s.timerStmin with timeout := sepOf s.cfg fc } } := by
  simp only [ctsHonoured, Bool.and_eq_true, Bool.or_eq_true, decide_eq_true_eq, Bool.not_eq_true'] at h
  obtain ⟨⟨h0, h1⟩, h2⟩ := h
  rcases h2 with h2 | h2 <;> cases ho : s.cfg.overrideStminNs <;>
    simp [handleFc, h0, h1, h2, sepOf, Timer.startAt, Timer.stop, ho]

theorem handleFc_idle (s : State) (fc : FcFrame) (h : s.txState = .idle) :
    s.handleFc fc = s.error .UnexpectedFlowControl := by
  simp [handleFc, h]

theorem handleFc_wait_unsupported (s : State) (fc : FcFrame) (hs : s.txState ≠ .idle) (h1 : fc.status = 1)
    (ht : s.timerFc.timedOut s.now = false) (hw : s.cfg.wftmax = 0) :
    s.handleFc fc = s.error .UnsupportedWaitFrame := by
  simp [handleFc, hs, h1, ht, hw]

theorem handleFc_wait_max (s : State) (fc : FcFrame) (hs : s.txState ≠ .idle) (h1 : fc.status = 1)
    (ht : s.timerFc.timedOut s.now = false) (hw : s.cfg.wftmax ≠ 0) (hc : s.wftCnt ≥ s.cfg.wftmax) :
    s.handleFc fc = (s.error .MaximumWaitFrameReached).stopSending false := by
  simp [handleFc, hs, h1, ht, hw, hc]

theorem handleFc_wait_ok (s : State) (fc : FcFrame) (hs : s.txState = .waitFc ∨ s.txState = .transmitCf)
    (h1 : fc.status = 1) (ht : s.timerFc.timedOut s.now = false) (hc : s.wftCnt < s.cfg.wftmax) :
    s.handleFc fc =
      { s with wftCnt := s.wftCnt + 1, txState := .waitFc,
               timerFc := { start := some s.now, timeout := s.cfg.tFc } } := by
  have hw : s.cfg.wftmax ≠ 0 := by omega
  have hc' : ¬ s.wftCnt ≥ s.cfg.wftmax := by omega
  rcases hs with hs | hs <;> simp [handleFc, hs, h1, ht, hw, hc', startRxFcTimer]

/-- a Flow Control read after the N_Bs deadline is not honoured, whatever its status -/
theorem handleFc_late (s : State) (fc : FcFrame) (hs : s.txState ≠ .idle)
    (ht : s.timerFc.timedOut s.now = true) : s.handleFc fc = s := by
  simp [handleFc, hs, ht]

/-- D5: in the standby states (First/Single Frame not yet sent) a ContinueToSend changes nothing -/
theorem handleFc_cts_standby (s : State) (fc : FcFrame) (h0 : fc.status = 0)
    (hs : s.txState = .sfStandby ∨ s.txState = .ffStandby) : s.handleFc fc = s := by
  rcases hs with hs | hs <;> simp [handleFc, hs, h0]

/-- a ContinueToSend that is not honoured leaves the state as it is (outside idle) -/
theorem handleFc_cts_ignored (s : State) (fc : FcFrame) (h0 : fc.status = 0) (hs : s.txState ≠ .idle)
    (h : ctsHonoured s fc = false) : s.handleFc fc = s := by
  unfold ctsHonoured at h
  unfold handleFc
  grind

/-- the STmin timeout after `handleFc` -/
theorem handleFc_stmin_timeout (s : State) (fc : FcFrame) :
    (s.handleFc fc).timerStmin.timeout =
      if ctsHonoured s fc then sepOf s.cfg fc else s.timerStmin.timeout := by
  by_cases h : ctsHonoured s fc = true
  · rw [handleFc_cts s fc h]; simp only [h, if_true]; split <;> rfl
  · simp only [h]
    unfold ctsHonoured at h
    unfold handleFc
    grind [stopSending, State.error, emit, startRxFcTimer, Timer.stop]

/-! ### `transmitCf` in pieces -/

theorem consumeActive_fst (s : State) (r : Req) (n : Nat) (e : Bool) :
    (s.consumeActive r n e).1 =
      { s with active := some (r.consume n e).1, log := (s.consumeActive r n e).1.log } := by
  unfold consumeActive
  simp only [emit]
  split <;> rfl

theorem consumeActive_snd (s : State) (r : Req) (n : Nat) (e : Bool) :
    (s.consumeActive r n e).2 = r.consume n e := by
  simp [consumeActive]

/-- builds and "sends" one Consecutive Frame carrying `payload` (third component: ValueError) -/
def cfSend (s : State) (payload : Bytes) : State × Option CanMsg × Bool :=
  if payload.length > 0 then
    let msgData := s.addr.tx.txPrefix ++ [u8 (0x20 + s.txSeq)] ++ payload
    match makeTxMsg s.cfg s.addr (s.addr.tx.txId .physical) msgData with
    | none => (s.raise .ValueError, none, true)
    | some msg =>
      ({ s with txSeq := (s.txSeq + 1) % 16, timerStmin := s.timerStmin.startAt s.now,
                txBlockCnt := s.txBlockCnt + 1 }, some msg, false)
  else (s, none, false)

/-- what follows the frame: end of message, end of block, or stay in TRANSMIT_CF -/
def cfTail (rbs : Nat) (r' : Req) (x : State × Option CanMsg × Bool) : State × Option CanMsg × Bool :=
  if x.2.2 then (x.1, none, false) else
  if r'.depleted then
    if r'.remaining > 0 then ((x.1.error .BadGenerator).stopSending false, x.2.1, false)
    else (x.1.stopSending true, x.2.1, false)
  else if rbs ≠ 0 && x.1.txBlockCnt ≥ rbs then
    (({ x.1 with txState := .waitFc }).startRxFcTimer, x.2.1, true)
  else (x.1, x.2.1, false)

/-- payload size of the next Consecutive Frame -/
def cfPayloadLen (s : State) (r : Req) : Nat := min (s.cfg.txDl - 1 - s.txPrefixLen) r.remaining

theorem transmitCf_eq (s : State) (allowed rbs : Nat) (r : Req)
    (hb : s.remoteBs = some rbs) (ha : s.active = some r) :
    s.transmitCf allowed =
      if s.timerStmin.timedOut s.now = true ∧ cfPayloadLen s r ≤ allowed then
        match (r.consume (cfPayloadLen s r) false).2 with
        | none => ((s.consumeActive r (cfPayloadLen s r) false).1.raise .AssertionError, none, false)
        | some payload =>
          cfTail rbs (r.consume (cfPayloadLen s r) false).1
            (cfSend (s.consumeActive r (cfPayloadLen s r) false).1 payload)
      else (s, none, false) := by
  have hc : ∀ n, s.consumeActive r n false =
      ((s.consumeActive r n false).1, (r.consume n false).1, (r.consume n false).2) := by
    intro n
    rw [← consumeActive_snd]
  unfold transmitCf
  simp only [hb, ha]
  by_cases ht : s.timerStmin.timedOut s.now = true
  · by_cases hp : cfPayloadLen s r ≤ allowed
    · have hp' := hp
      unfold cfPayloadLen at hp'
      simp only [ht, hp, hp', and_self, if_true]
      rw [hc]
      unfold cfPayloadLen
      cases (r.consume (min (s.cfg.txDl - 1 - s.txPrefixLen) r.remaining) false).2 with
      | none => rfl
      | some payload => rfl
    · have hp' := hp
      unfold cfPayloadLen at hp'
      simp [ht, hp, hp']
  · simp [ht]

theorem transmitCf_not_ready (s : State) (allowed : Nat)
    (h : s.remoteBs = none ∨ s.active = none) :
    s.transmitCf allowed = (s.raise .AssertionError, none, false) := by
  unfold transmitCf
  rcases h with h | h
  · simp [h]
  · cases hb : s.remoteBs <;> simp [h]

/-- what is known when `transmitCf` hands a frame out -/
theorem transmitCf_some {s s' : State} {allowed : Nat} {msg : CanMsg} {imm : Bool}
    (h : s.transmitCf allowed = (s', some msg, imm)) :
    s.timerStmin.timedOut s.now = true ∧ s.remoteBs.isSome ∧ s.active.isSome ∧
    s'.timerStmin.timeout = s.timerStmin.timeout ∧ s'.now = s.now ∧
    (s'.txState = .idle ∨
      (s'.timerStmin.start = some s.now ∧ s'.txBlockCnt = s.txBlockCnt + 1 ∧ s'.remoteBs = s.remoteBs)) := by
  unfold transmitCf at h
  grind (splits := 30) [consumeActive_fst, stopSending, State.error, emit, State.raise, startRxFcTimer,
    Timer.startAt, Timer.stop]

/-! ### Transmit-side well-formedness (`TxWf`) and liveness of timers (`TxLive`) -/

/-- transmit-side well-formedness: every non-idle state has its timer / frame / request;
    the N_Bs timer runs exactly in WAIT_FC; the wait-frame counter never exceeds `wftmax`. -/
def TxWf (s : State) : Prop :=
  (s.txState = .waitFc → s.timerFc.start.isSome ∧ s.timerFc.timeout = s.cfg.tFc) ∧
  (s.txState ≠ .waitFc → s.timerFc.start = none) ∧
  (s.txState = .transmitCf → s.timerStmin.start.isSome ∧ s.remoteBs.isSome) ∧
  (s.txState = .sfStandby ∨ s.txState = .ffStandby → s.standby.isSome) ∧
  (s.txState ≠ .idle → s.active.isSome) ∧
  s.wftCnt ≤ s.cfg.wftmax

/-- "no wedged state": a message in progress always has a running timer or a frame in standby -/
def TxLive (s : State) : Prop :=
  s.txState ≠ .idle → s.timerFc.start.isSome ∨ s.timerStmin.start.isSome ∨ s.standby.isSome

theorem TxLive_of_TxWf {s : State} (h : TxWf s) : TxLive s := by
  unfold TxWf at h
  unfold TxLive
  cases hs : s.txState <;> simp_all

theorem TxWf_init (c : Cfg) (a : Addr) : TxWf (State.init c a) := by
  simp [TxWf, State.init]

theorem TxWf_stopSending (s : State) (b : Bool) : TxWf (s.stopSending b) := by
  unfold stopSending TxWf
  cases s.active <;> simp [Timer.stop, emit]

theorem TxWf_of_txView {s s' : State} (hv : s'.txView = s.txView) (h : TxWf s) : TxWf s' := by
  simp only [txView, Prod.mk.injEq] at hv
  unfold TxWf at *
  grind

theorem TxWf_error (s : State) (e : Err) (h : TxWf s) : TxWf (s.error e) := h
theorem TxWf_emit (s : State) (e : Ev) (h : TxWf s) : TxWf (s.emit e) := h
theorem TxWf_raise (s : State) (e : PyExc) (h : TxWf s) : TxWf (s.raise e) := h

theorem TxWf_handleFc (s : State) (fc : FcFrame) (h : TxWf s) : TxWf (s.handleFc fc) := by
  unfold handleFc
  split
  · exact h
  · split
    · split
      · exact h
      · split
        · exact TxWf_stopSending _ _
        · unfold TxWf at *
          grind [startRxFcTimer]
    · split
      · unfold TxWf at *
        grind [Timer.stop, Timer.startAt]
      · exact h

theorem TxWf_startTx (s : State) (r : Req) (allowed : Nat) (h : TxWf s) (hi : s.txState = .idle) :
    TxWf (s.startTx r allowed).1 := by
  unfold startTx TxWf
  unfold TxWf at h
  grind (splits := 30) [consumeActive_fst, stopSending, State.error, emit, State.raise, startRxFcTimer, Timer.stop]

theorem TxWf_readTxQueue (s : State) (allowed : Nat) (q : List Req) (h : TxWf s) (hi : s.txState = .idle) :
    TxWf (s.readTxQueue allowed q).1 := by
  induction q generalizing s with
  | nil => exact h
  | cons r rest ih =>
    unfold readTxQueue
    simp only []
    split
    · apply ih
      · unfold TxWf at *; simp_all [emit]
      · simpa [emit] using hi
    · apply TxWf_startTx
      · unfold TxWf at *; simp_all
      · simpa using hi

theorem TxWf_transmitCf (s : State) (allowed : Nat) (h : TxWf s) (hs : s.txState = .transmitCf) :
    TxWf (s.transmitCf allowed).1 := by
  unfold transmitCf TxWf
  unfold TxWf at h
  grind (splits := 30) [consumeActive_fst, stopSending, State.error, emit, State.raise, startRxFcTimer,
    Timer.startAt, Timer.stop]

theorem TxWf_afterFc (s : State) (h : TxWf s) : TxWf (afterFc s).1 := by
  unfold afterFc
  simp only []
  split
  · split
    · exact TxWf_error _ _ (TxWf_stopSending _ _)
    · exact TxWf_handleFc _ _ h
  · exact h

theorem TxWf_afterTimeout (s : State) (h : TxWf s) : TxWf (afterTimeout s) := by
  unfold afterTimeout
  split
  · exact TxWf_stopSending _ _
  · exact h

theorem TxWf_ite {c : Prop} [Decidable c] {a b : State} (ha : TxWf a) (hb : TxWf b) :
    TxWf (if c then a else b) := by
  split <;> assumption

theorem TxWf_afterDepleted (s : State) (h : TxWf s) : TxWf (afterDepleted s) :=
  TxWf_ite (TxWf_stopSending _ _) h

theorem TxWf_fsm (s : State) (allowed : Nat) (h : TxWf s) : TxWf (fsm s allowed).1 := by
  unfold fsm
  split
  · exact TxWf_readTxQueue _ _ _ h (by assumption)
  · split
    · split
      · simp only []
        split <;> first | exact TxWf_stopSending _ _ | (unfold TxWf at *; grind [startRxFcTimer])
      · exact h
    · exact h
  · split
    · split
      · simp only []
        split <;> first | exact TxWf_stopSending _ _ | (unfold TxWf at *; grind [startRxFcTimer])
      · exact h
    · exact h
  · exact h
  · exact TxWf_transmitCf _ _ h (by assumption)

theorem TxWf_finish (r : State × Option CanMsg × Bool) (h : TxWf r.1) : TxWf (finish r).1 := by
  unfold finish
  split
  · exact h
  · split <;> exact h

theorem TxWf_txPhases (s : State) (a : Nat) (h : TxWf s) : TxWf (txPhases s a).1 := by
  unfold txPhases
  split
  · exact TxWf_afterFc s h
  · simp only []
    split
    · exact TxWf_raise _ _ (TxWf_afterTimeout _ (TxWf_afterFc s h))
    · exact TxWf_finish _ (TxWf_fsm _ _ (TxWf_afterDepleted _ (TxWf_afterTimeout _ (TxWf_afterFc s h))))

/-- `_process_tx` keeps the transmit side well-formed -/
theorem TxWf_processTx (s : State) (h : TxWf s) : TxWf s.processTx.1 := by
  rw [processTx_eq]
  have hv := TxWf_of_txView (fcSendPhase_txView s).1 h
  generalize fcSendPhase s = x at hv ⊢
  obtain ⟨s1, o⟩ := x
  rcases o with _ | _ | _
  · exact TxWf_txPhases _ _ hv
  · exact hv
  · exact hv

theorem TxWf_processRx (s : State) (m : CanMsg) (h : TxWf s) : TxWf (s.processRx m).1 :=
  TxWf_of_txView (processRx_txView s m) h

theorem TxWf_stopReceiving (s : State) (h : TxWf s) : TxWf s.stopReceiving := h

theorem TxWf_checkTimeoutsRx (s : State) (h : TxWf s) : TxWf s.checkTimeoutsRx := by
  unfold checkTimeoutsRx
  split
  · exact h
  · exact h

theorem TxWf_advance (s : State) (dt : Nat) (h : TxWf s) : TxWf (s.advance dt) := h

theorem TxWf_send (s : State) (a : SendArgs) (h : TxWf s) : TxWf (s.send a).1 := by
  unfold send
  simp only []
  repeat' split
  all_goals exact h

theorem TxWf_reset (s : State) : TxWf s.reset := by
  unfold reset
  exact TxWf_stopSending _ _

end State
end Isotp
