import Isotp.Props.C13net
import Isotp.Proofs.TNetFc
/-
  C13, network level — "… and no error is reported. This holds regardless of thread scheduling, callback latency,
  read_timeout, and unrelated, error or remote frames on the bus": the point left open by Props/C13net.lean
  (`C13net_clean_noise_statement`).

  Setting as in Props/C13net.lean: the threaded pair `TNet` (two started `TL`, wired back to back through two buses),
  mirrored addresses, EVERY thread schedule `sched : List TStep` — user threads calling `send` / `recv`, relay and worker
  iterations of both peers in any interleaving, clock ticks, and `noise b m`: anybody may put, at any time, any number
  of FOREIGN frames on either bus (frames the address filter of the reading peer rejects — `TNet.Sched`; they may
  look like Flow Control or Consecutive Frames); both configured STmin values valid; neither logic layer reports a
  ConsecutiveFrameTimeout / FlowControlTimeout.

  * `no_unexpected_flow_control_noise`: neither logic layer reports an `UnexpectedFlowControlError`.
  * `clean_noise : C13net_clean_noise_statement`: NO error at all is reported by either logic layer (with
    `delivery_noise` / `errors_noise_core` of Props/C13net.lean, which leave only that error class).
  * `delivery_clean_noise`: delivery (prefix, exactly once, in order, unmodified) AND no error, for every schedule.
  * `fc_sync_noise`: the two-layer invariant behind it (Proofs/TNetFc*.lean): for each logic layer the SENDER LAW with
    the count FILTERED by the address filter (`SndFcN`: FC points among the data frames emitted + Flow Control in the
    mailbox ≤ ACCEPTED Flow Control frames read + [WAIT_FC]; block discipline) and the RECEIVER LAW (`RcvFc`,
    unchanged). A foreign frame is read by the rx loop (an `Ev.rx` event), advances nothing but the history, and the
    rx loop may hand over to the tx loop right after it (transmit FSM time-driven): both laws are inequalities kept
    by every micro-step of `process()`, so where the loops alternate does not matter.
  * `cts_only_while_waiting_noise`: the diagnosed invariant with foreign frames — the ContinueToSend frames of peer j
    that pass the filter of peer i and are requested / on the bus / in the relay queue / in the unread input / in the
    mailbox of i are at most one, and there is one only while the transmit FSM of i is in WAIT_FC.
-/
namespace Isotp.C13net
open Isotp Isotp.State Isotp.NetP Isotp.TNetP

/-! ## The invariant -/

/-- `NInvFc` (= `NInv`, admissible payloads, and `FcSyncT` when no timeout is reported) after every thread schedule,
    foreign frames included -/
theorem fc_invariant_noise (ca cb : Cfg) (aa ab : Addr) (h : C01net.Mirrored ca cb aa ab) (sched : List TStep)
    (hs : TNet.Sched ca cb aa ab sched) :
    NInvFc (C01net.mkSetting ca cb aa ab h) (trun ca cb aa ab sched).1 (trun ca cb aa ab sched).2 :=
  ninvfc_run (C01net.mkSetting ca cb aa ab h) sched
    (fun s hm => ⟨stepOkS_of ca cb aa ab h s (hs s hm), noiseOkS_of ca cb aa ab h s (hs s hm)⟩)

theorem noT_of_noTimeout (ca cb : Cfg) (aa ab : Addr) (sched : List TStep)
    (h0 : TNet.noTimeout false (trun ca cb aa ab sched) = true)
    (h1 : TNet.noTimeout true (trun ca cb aa ab sched) = true) :
    ∀ b, noT (TNet.logOf b (trun ca cb aa ab sched).2) = true := by
  intro b
  cases b
  · have := h0; unfold TNet.noTimeout at this; rw [noTimeout_eq] at this; exact this
  · have := h1; unfold TNet.noTimeout at this; rw [noTimeout_eq] at this; exact this

/-- **The two-layer Flow Control invariant, every thread schedule, foreign frames included.** Under the hypotheses of
    `delivery_noise`, both logic layers satisfy the filtered sender law, the block discipline and the receiver law. -/
theorem fc_sync_noise (ca cb : Cfg) (aa ab : Addr) (h : C01net.Mirrored ca cb aa ab)
    (hsa : validStmin ca.stmin = true) (hsb : validStmin cb.stmin = true) (sched : List TStep)
    (hs : TNet.Sched ca cb aa ab sched)
    (h0 : TNet.noTimeout false (trun ca cb aa ab sched) = true)
    (h1 : TNet.noTimeout true (trun ca cb aa ab sched) = true) :
    FcSyncT (C01net.mkSetting ca cb aa ab h) (trun ca cb aa ab sched).1 (trun ca cb aa ab sched).2 :=
  (fc_invariant_noise ca cb aa ab h sched hs).2.2 (C01net.stminOk_of ca cb aa ab h hsa hsb)
    (noT_of_noTimeout ca cb aa ab sched h0 h1)

/-! ## The theorems -/

/-- **No `UnexpectedFlowControlError`, every thread schedule, foreign frames included.** Two started threaded layers,
    validated configurations, valid STmin values, mirrored addresses; ANY thread schedule — `send` (admissible
    payloads) and `recv` from any number of user threads, relay and worker iterations in any interleaving, clock ticks,
    and any number of foreign frames (rejected by the address filter of the peer that reads them; N_PCI byte 0x3X
    allowed) put on either bus at any time. If neither logic layer reported a timeout error, then neither reported an
    `UnexpectedFlowControlError`: every Flow Control frame that reached `_process_rx` was consumed while the transmit
    FSM was waiting for it. -/
theorem no_unexpected_flow_control_noise (ca cb : Cfg) (aa ab : Addr) (h : C01net.Mirrored ca cb aa ab)
    (hsa : validStmin ca.stmin = true) (hsb : validStmin cb.stmin = true) (sched : List TStep)
    (hs : TNet.Sched ca cb aa ab sched)
    (h0 : TNet.noTimeout false (trun ca cb aa ab sched) = true)
    (h1 : TNet.noTimeout true (trun ca cb aa ab sched) = true) :
    ∀ b, Err.UnexpectedFlowControl ∉ TNet.errors b (trun ca cb aa ab sched) := by
  intro b hx
  have hnu := noUfc_noise_core (C01net.mkSetting ca cb aa ab h) (C01net.stminOk_of ca cb aa ab h hsa hsb)
    (fc_invariant_noise ca cb aa ab h sched hs) (noT_of_noTimeout ca cb aa ab sched h0 h1) b
  simp only [TNet.errors, List.mem_filterMap] at hx
  obtain ⟨e, he, hex⟩ := hx
  cases e with
  | err t y =>
    simp only [Option.some.injEq] at hex
    subst hex
    exact hnu t he
  | _ => cases hex

/-- **C13, "and no error is reported … regardless of … unrelated frames on the bus", every thread schedule.** In every
    thread schedule, foreign frames included, in which no timeout is reported (valid STmin values, admissible payloads),
    NO error at all is reported by either logic layer. This closes `C13net_clean_noise_statement` of
    Props/C13net.lean. -/
theorem clean_noise : C13net_clean_noise_statement := by
  intro ca cb aa ab h hsa hsb sched hs h0 h1
  exact clean_noise_partial ca cb aa ab h hsa hsb sched hs h0 h1
    (Or.inr (no_unexpected_flow_control_noise ca cb aa ab h hsa hsb sched hs h0 h1))

/-- **C13, delivery and no error, with unrelated frames on the bus.** Under the hypotheses of `delivery_noise` (every
    thread schedule, foreign frames included, no timeout reported): what each peer has handed to its user is a prefix of
    the payloads accepted by `send()` on the other peer in linearisation order — each at most once, byte-identical,
    nothing else — AND no error at all was reported by either logic layer. -/
theorem delivery_clean_noise (ca cb : Cfg) (aa ab : Addr) (h : C01net.Mirrored ca cb aa ab)
    (hsa : validStmin ca.stmin = true) (hsb : validStmin cb.stmin = true) (sched : List TStep)
    (hs : TNet.Sched ca cb aa ab sched)
    (h0 : TNet.noTimeout false (trun ca cb aa ab sched) = true)
    (h1 : TNet.noTimeout true (trun ca cb aa ab sched) = true) :
    TNet.got true (trun ca cb aa ab sched) <+: TNet.sent false (trun ca cb aa ab sched) ∧
    TNet.got false (trun ca cb aa ab sched) <+: TNet.sent true (trun ca cb aa ab sched) ∧
    TNet.errors false (trun ca cb aa ab sched) = [] ∧ TNet.errors true (trun ca cb aa ab sched) = [] := by
  obtain ⟨d1, d0, -⟩ := delivery_noise ca cb aa ab h hsa hsb sched hs h0 h1
  obtain ⟨e0, e1⟩ := clean_noise ca cb aa ab h hsa hsb sched hs h0 h1
  exact ⟨d1, d0, e0, e1⟩

/-- number of frames of a list that pass the address filter of `a` and have N_PCI type 3 (Flow Control) -/
def acceptedFc (a : Addr) (ms : List CanMsg) : Nat := fcCountA a ms

/-- **A ContinueToSend exists only while the peer waits for it, foreign frames included.** Under the hypotheses of
    `delivery_noise`, in the final state: the Flow Control frames accepted by the address filter of peer 0 in the unread
    input of its logic layer, in its relay queue and on its bus, plus the Flow Control peer 1 has been asked to send
    (`pendingFc`), plus the one in the mailbox of peer 0 (`lastFc`), are at most one — and zero unless the transmit FSM
    of peer 0 is in WAIT_FC; whatever foreign frames (N_PCI byte 0x3X included) sit in those queues. Symmetrically for
    peer 1. -/
theorem cts_only_while_waiting_noise (ca cb : Cfg) (aa ab : Addr) (h : C01net.Mirrored ca cb aa ab)
    (hsa : validStmin ca.stmin = true) (hsb : validStmin cb.stmin = true) (sched : List TStep)
    (hs : TNet.Sched ca cb aa ab sched)
    (h0 : TNet.noTimeout false (trun ca cb aa ab sched) = true)
    (h1 : TNet.noTimeout true (trun ca cb aa ab sched) = true) :
    acceptedFc aa ((trun ca cb aa ab sched).1.p0.core.inbox.map (·.2)) +
        acceptedFc aa ((trun ca cb aa ab sched).1.inFlight false) +
        (if (trun ca cb aa ab sched).1.p1.core.pendingFc then 1 else 0) +
        (if (trun ca cb aa ab sched).1.p0.core.lastFc.isSome then 1 else 0) ≤
      (if (trun ca cb aa ab sched).1.p0.core.txState = .waitFc then 1 else 0) ∧
    acceptedFc ab ((trun ca cb aa ab sched).1.p1.core.inbox.map (·.2)) +
        acceptedFc ab ((trun ca cb aa ab sched).1.inFlight true) +
        (if (trun ca cb aa ab sched).1.p0.core.pendingFc then 1 else 0) +
        (if (trun ca cb aa ab sched).1.p1.core.lastFc.isSome then 1 else 0) ≤
      (if (trun ca cb aa ab sched).1.p1.core.txState = .waitFc then 1 else 0) := by
  have hst := C01net.stminOk_of ca cb aa ab h hsa hsb
  have hinv := fc_invariant_noise ca cb aa ab h sched hs
  have hnT := noT_of_noTimeout ca cb aa ab sched h0 h1
  exact ⟨fcSyncT_credit _ hst hinv hnT false, fcSyncT_credit _ hst hinv hnT true⟩

/-! ## Non-vacuity -/

open C01net in
/-- the noisy schedule `exNoisy` of Props/C13net.lean (default configuration; foreign frames with a foreign identifier
    and N_PCI byte 0x30, and with peer 0's identifier but 29 bits and N_PCI byte 0x21, put on both buses also in the
    middle of the segmented transfers) satisfies every hypothesis of `clean_noise` … -/
example : C01net.Mirrored {} {} exA exB ∧ validStmin ({} : Cfg).stmin = true ∧
    TNet.Sched {} {} exA exB exNoisy ∧ ¬ TNet.NoNoise exNoisy ∧
    TNet.noTimeout false (trun {} {} exA exB exNoisy) = true ∧ TNet.noTimeout true (trun {} {} exA exB exNoisy) = true :=
  ⟨⟨⟨by decide, by decide, rfl⟩, ⟨by decide, by decide, rfl⟩⟩, by decide +kernel, by decide +kernel, by decide +kernel,
    by decide +kernel, by decide +kernel⟩
open C01net in
/-- … and indeed reports no error (and everything is delivered) -/
example : TNet.errors false (trun {} {} exA exB exNoisy) = [] ∧ TNet.errors true (trun {} {} exA exB exNoisy) = [] ∧
    TNet.got true (trun {} {} exA exB exNoisy) = [exP1, exP2, exP4] ∧
    TNet.got false (trun {} {} exA exB exNoisy) = [exQ1] := by decide +kernel

/-- foreign frames that look like a ContinueToSend: peer 0's receive identifier 0x456 but as a 29-bit identifier; a
    foreign 11-bit identifier; and one that looks like the Consecutive Frame with sequence number 2: peer 1's receive
    identifier 0x123 as a 29-bit identifier -/
def fcLike0 : CanMsg := { id := 0x456, ext := true, data := [0x30, 0, 0] }
def fcLike1 : CanMsg := { id := 0x7FF, ext := false, data := [0x30, 0, 0] }
def cfLike1 : CanMsg := { id := 0x123, ext := true, data := [0x22, 9, 9] }

/-- one round: a Flow-Control look-alike appears on the bus of peer 0, its relay thread forwards what is there, its
    worker runs; a Consecutive-Frame look-alike and a Flow-Control look-alike appear on the bus of peer 1 BETWEEN the
    frames peer 0 has just emitted, relay, worker; 6 ms pass (STmin is 5 ms) -/
def bsRoundN : List TStep :=
  [ .noise false fcLike0, .relay false, .relay false, .relay false, .worker false,
    .noise true cfLike1, .relay true, .noise true fcLike1, .relay true, .relay true, .relay true, .worker true,
    .tick 6000000 ]

open C01net in
/-- both peers announce blocks of 2 Consecutive Frames and STmin = 5 ms (`C01net.cfgBs2`): the transmit FSM is
    time-driven between two Consecutive Frames, so the rx loop hands over to the tx loop right after a foreign frame.
    Full duplex: peer 0 sends 25 bytes (First Frame, 2 Consecutive Frames, Flow Control, last Consecutive Frame) then a
    Single Frame, peer 1 sends 30 bytes (First Frame, 2 + 2 Consecutive Frames); ten rounds; three `recv`. -/
def bsNoisy : List TStep :=
  [ .userSend false (sendArgs 1 bsP1), .userSend true (sendArgs 2 bsQ1), .userSend false (sendArgs 3 exP2)] ++
  (List.replicate 10 bsRoundN).flatten ++ [.userRecv false, .userRecv true, .userRecv true]

open C01net in
example : C01net.Mirrored cfgBs2 cfgBs2 exA exB := ⟨⟨by decide, by decide, rfl⟩, ⟨by decide, by decide, rfl⟩⟩
open C01net in
/-- an admissible schedule with 30 foreign frames in it -/
example : TNet.Sched cfgBs2 cfgBs2 exA exB bsNoisy ∧ (bsNoisy.filter TStep.isNoise).length = 30 := by decide +kernel
open C01net in
/-- the hypotheses of `clean_noise` hold … -/
example : validStmin cfgBs2.stmin = true ∧
    TNet.noTimeout false (trun cfgBs2 cfgBs2 exA exB bsNoisy) = true ∧
    TNet.noTimeout true (trun cfgBs2 cfgBs2 exA exB bsNoisy) = true := by decide +kernel
open C01net in
/-- … no error is reported, everything sent in both directions is delivered in order; the frames read by the rx loop
    of peer 1, as (identifier, 29-bit?, first data byte): the First Frame (0x10), then foreign frames, the Flow Control
    of peer 0 (0x30 with identifier 0x123, 11 bits), and — INSIDE the first block of two Consecutive Frames — between
    the Consecutive Frame 0x21 and the Consecutive Frame 0x22 of peer 0 the foreign Consecutive-Frame look-alike with
    sequence number 2 and a foreign Flow-Control look-alike -/
example : TNet.errors false (trun cfgBs2 cfgBs2 exA exB bsNoisy) = [] ∧
    TNet.errors true (trun cfgBs2 cfgBs2 exA exB bsNoisy) = [] ∧
    TNet.got true (trun cfgBs2 cfgBs2 exA exB bsNoisy) = [bsP1, exP2] ∧
    TNet.got false (trun cfgBs2 cfgBs2 exA exB bsNoisy) = [bsQ1] ∧
    (((TNet.events true (trun cfgBs2 cfgBs2 exA exB bsNoisy)).filterMap fun
        | .rx _ m => some (m.id, m.ext, byteAt m.data 0) | _ => none).take 12) =
      [(0x123, false, 0x10), (0x123, true, 0x22), (0x7FF, false, 0x30), (0x123, true, 0x22), (0x7FF, false, 0x30),
       (0x123, false, 0x30), (0x123, true, 0x22), (0x7FF, false, 0x30),
       (0x123, false, 0x21), (0x123, true, 0x22), (0x7FF, false, 0x30), (0x123, false, 0x22)] := by decide +kernel
open C01net in
/-- in the middle of the exchange (after 41 steps) both transmit FSMs are in TRANSMIT_CF (time-driven) and both rx
    loops have stopped early, right after a foreign frame: the unread input of peer 0 holds the foreign Flow-Control
    look-alike, that of peer 1 the foreign Consecutive-Frame look-alike and a foreign Flow-Control look-alike. In each
    there is ONE frame with N_PCI type 3 (the unfiltered count of Proofs/NetFc.lean — its credit bound
    `fcSync_credit` would be violated: neither FSM is in WAIT_FC) of which the address filter accepts NONE (the count of
    `cts_only_while_waiting_noise`, bound 0) -/
example :
    let d := (trun cfgBs2 cfgBs2 exA exB (bsNoisy.take 41)).1
    d.p0.core.txState = .transmitCf ∧ d.p1.core.txState = .transmitCf ∧
    d.p0.core.inbox.map (·.2) = [fcLike0] ∧
    fcCount exA.rx.rxPrefixSize (d.p0.core.inbox.map (·.2)) = 1 ∧ acceptedFc exA (d.p0.core.inbox.map (·.2)) = 0 ∧
    d.p1.core.inbox.map (·.2) = [cfLike1, fcLike1] ∧
    fcCount exB.rx.rxPrefixSize (d.p1.core.inbox.map (·.2)) = 1 ∧ acceptedFc exB (d.p1.core.inbox.map (·.2)) = 0 := by
  decide +kernel
open C01net in
/-- later (after 73 steps) a genuine Consecutive Frame of peer 1 waits in the unread input of peer 0 in front of a
    foreign Flow-Control look-alike, and the credit is in use: peer 1 is in WAIT_FC -/
example :
    let d := (trun cfgBs2 cfgBs2 exA exB (bsNoisy.take 73)).1
    d.p0.core.inbox.map (fun x => (x.2.id, x.2.ext, byteAt x.2.data 0)) = [(0x456, false, 0x22), (0x456, true, 0x30)] ∧
    d.p0.core.txState = .transmitCf ∧ d.p1.core.txState = .waitFc := by decide +kernel
open C01net in
/-- a starved schedule with foreign frames DOES report a timeout and then `UnexpectedFlowControlError`: the hypothesis
    "no timeout" is not redundant -/
example :
    let r := trun {} {} exA exB
      [.userSend false (sendArgs 1 exP1), .worker false, .noise true other, .relay true, .relay true, .worker true,
       .tick 2000000000, .worker false, .relay false, .worker false]
    TNet.noTimeout false r = false ∧ TNet.errors false r = [.FlowControlTimeout, .UnexpectedFlowControl] := by
  decide +kernel

end Isotp.C13net

#print axioms Isotp.C13net.fc_invariant_noise
#print axioms Isotp.C13net.fc_sync_noise
#print axioms Isotp.C13net.no_unexpected_flow_control_noise
#print axioms Isotp.C13net.clean_noise
#print axioms Isotp.C13net.delivery_clean_noise
#print axioms Isotp.C13net.cts_only_while_waiting_noise
