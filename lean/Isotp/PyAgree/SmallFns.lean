import Isotp.PyAgree.LayerTxHelpers
import Isotp.PyAgree.PyCan
import Isotp.PyAgree.ThreadedWorker
/-!
  Source agreement for the small accessors / timing helpers of `isotp/protocol.py` and `isotp/tools.py` that the other leaves use as
  `Meths` assumptions.  FOR ALL STATES; hypotheses are the bindings the function reads (nothing is assumed of the other names).

  | source (`Src.`)                               | reference                                              | theorem |
  |-----------------------------------------------|--------------------------------------------------------|---------|
  | `TransportLayerLogic_is_rx_active`            | `State.isRxActive`                                     | `is_rx_active_agrees` |
  | `TransportLayerLogic_is_tx_transmitting_cf`   | `txState = .transmitCf`                                | `is_tx_transmitting_cf_agrees` |
  | `Timer_remaining`                             | `Timer.remaining now` ns, as seconds                   | `timer_remaining_calls`, `timer_remaining_agrees`, `timer_remaining_linked` |
  | `Timer_elapsed`                               | `(now - start)` ns, as seconds; `0` when stopped       | `timer_elapsed_int`, `timer_elapsed_agrees` |
  | `TransportLayerLogic_next_cf_delay`           | `nextCfDelay` (`Timer.timedOut`, `Timer.remaining`)    | `next_cf_delay_run`, `next_cf_delay_agrees`, `next_cf_delay_linked`, `workerPrims_of_src` |
  | `TransportLayerLogic_sleep_time`              | (dict lookup: OUTSIDE the subset, see section 4)       | `sleep_time_src`, `sleep_time_key`, `sleep_time_interp`, `sleep_time_dict_outside_subset`, `sleep_skeleton_agrees` |
  | `RateLimiter_can_be_enabled`                  | `canReason`                                            | `can_be_enabled_agrees`, `canReason_none_iff`, `can_be_enabled_nan` |
  | `RateLimiter_set_bitrate`                     | the attribute                                          | `set_bitrate_agrees` |
  | `TransportLayer_p_read_relay_queue`           | head of the relay queue / `None` on `queue.Empty`      | `read_relay_queue_run`, `read_relay_queue_agrees`, `read_relay_queue_other_exc` |
  | `NotifierBasedCanStack_p_rx_canbus`           | `None` without reader, else `_read_isotp_message`      | `nb_rx_canbus_agrees`, `nb_rx_canbus_shows`, `nb_rx_canbus_linked` |

  ## How floats are shown (what is ASSUMED of `Meths`)
  Times are integer nanoseconds (MiscTimer.lean).  The float computations of `Timer.remaining` / `Timer.elapsed` are calls the dumper
  leaves to `Meths` (`float`, `__float__ "1000000000.0"`, `__truediv__`): `SecArith M` says they compute EXACTLY
  (`float(i)` is numerically `i`, the literal is `10^9`, `i / 10^9` is the rational `PyVal.float i 10^9` = `secs i`).  The real code
  computes in IEEE doubles: `float(i)` is exact for `|i| < 2^53` ns (104 days), the division is correctly rounded (relative error
  `≤ 2^-53`).  That rounding is NOT modelled.
-/
namespace Isotp.PyAgree.Small
open Isotp Isotp.Py Isotp.PyAgree Isotp.PyAgree.TxH

/-! ## 1. `is_rx_active`, `is_tx_transmitting_cf` -/

theorem pvEq_pubRxStPV (a b : RxSt) : pvEq (pubRxStPV a) (pubRxStPV b) = decide (a = b) := by
  cases a <;> cases b <;> rfl

/-- **`is_rx_active()` = `State.isRxActive`** (`rx_state != RxState.IDLE`), any `Meths`, every environment that binds the two names -/
theorem is_rx_active_agrees (s : State) (M : Meths) (env : Env)
    (hS : env "self.rx_state" = some (pubRxStPV s.rxState)) (hI : env "self.RxState.IDLE" = some (pubRxStPV .idle)) :
    runFn M env Src.TransportLayerLogic_is_rx_active = .ok (pbool s.isRxActive, env) := by
  simp [runFn, Src.TransportLayerLogic_is_rx_active, execBlock, execStmt, eval, hS, hI, pvEq_pubRxStPV, State.isRxActive]
  cases s.rxState <;> rfl

/-- **`is_tx_transmitting_cf()`** = `tx_state == TxState.TRANSMIT_CF` -/
theorem is_tx_transmitting_cf_agrees (s : State) (M : Meths) (env : Env)
    (hS : env "self.tx_state" = some (txStPV s.txState)) (hC : env "self.TxState.TRANSMIT_CF" = some (txStPV .transmitCf)) :
    runFn M env Src.TransportLayerLogic_is_tx_transmitting_cf = .ok (pbool (decide (s.txState = .transmitCf)), env) := by
  simp [runFn, Src.TransportLayerLogic_is_tx_transmitting_cf, execBlock, execStmt, eval, hS, hC, pvEq_txStPV]

/-- the same in the presentation of LayerTxHelpers.lean -/
theorem is_rx_active_agrees_has (s : State) (M : Meths) (env : Env) (hE : Has env (pubRxAttrs s)) (hC : Has env pubRxConsts) :
    runFn M env Src.TransportLayerLogic_is_rx_active = .ok (pbool s.isRxActive, env) :=
  is_rx_active_agrees s M env (hE ("self.rx_state", pubRxStPV s.rxState) (by simp [pubRxAttrs]))
    (hC ("self.RxState.IDLE", pubRxStPV .idle) (by simp [pubRxConsts]))

theorem is_tx_transmitting_cf_agrees_has (s : State) (M : Meths) (env : Env) (hE : Has env (txAttrs s)) (hC : Has env txConsts) :
    runFn M env Src.TransportLayerLogic_is_tx_transmitting_cf = .ok (pbool (decide (s.txState = .transmitCf)), env) :=
  is_tx_transmitting_cf_agrees s M env (has_txAttrs hE).1 (has_txConsts hC).2.2.1

/-! ## 2. `Timer.remaining`, `Timer.elapsed` (isotp/tools.py) -/

/-- `n` nanoseconds as a number of seconds: the exact rational `n / 10^9` -/
def secs (n : Int) : PV := .sc (.py (.float n 1000000000))

/-- the float primitives of `Timer.remaining` / `Timer.elapsed`, computing exactly (see the header) -/
structure SecArith (M : Meths) : Prop where
  float : ∀ (i : Int) (env : Env), M.fn "float" [pint i] env = .ok (pint i)
  lit : ∀ (env : Env), M.fn "__float__" [.str "1000000000.0"] env = .ok (pint 1000000000)
  div : ∀ (i : Int) (env : Env), M.fn "__truediv__" [pint i, pint 1000000000] env = .ok (secs i)

/-- `Timer.remaining`, with NO assumption: `__truediv__(float(self.remaining_ns()), 1e9)`, the four calls in that order, the
    environment untouched -/
theorem timer_remaining_calls (M : Meths) (env : Env) :
    runFn M env Src.Timer_remaining =
      (do let r ← M.fn "self.remaining_ns" [] env
          let f ← M.fn "float" [r] env
          let l ← M.fn "__float__" [.str "1000000000.0"] env
          let d ← M.fn "__truediv__" [f, l] env
          .ok (d, env)) := by
  simp only [runFn, Src.Timer_remaining, execBlock, execStmt, eval, evalArgs, ok_bind,
    evalBuiltin_none "self.remaining_ns" _ (by decide), evalBuiltin_none "float" _ (by decide),
    evalBuiltin_none "__float__" _ (by decide), evalBuiltin_none "__truediv__" _ (by decide)]
  cases M.fn "self.remaining_ns" [] env with
  | error e => rfl
  | ok r =>
    simp only [ok_bind]
    cases M.fn "float" [r] env with
    | error e => rfl
    | ok f =>
      simp only [ok_bind]
      cases M.fn "__float__" [.str "1000000000.0"] env with
      | error e => rfl
      | ok l =>
        simp only [ok_bind]
        cases M.fn "__truediv__" [f, l] env <;> rfl

/-- **`Timer.remaining()` = `Timer.remaining now` nanoseconds, in seconds** (`remaining_ns()` answering the model's value:
    `timer_remaining_ns_agrees` / `_linked`, MiscTimer.lean) -/
theorem timer_remaining_agrees (M : Meths) (t : Timer) (now : Nat) (env : Env) (hA : SecArith M)
    (hR : M.fn "self.remaining_ns" [] env = .ok (pint (t.remaining now))) :
    runFn M env Src.Timer_remaining = .ok (secs (t.remaining now), env) := by
  rw [timer_remaining_calls, hR]
  simp only [ok_bind, hA.float, hA.lit, hA.div]

/-- the primitives with exact arithmetic, the clock, and `self.remaining_ns()` resolved by INTERPRETING its source (which in turn
    interprets `is_stopped` / `elapsed_ns`: `timerMethsSrc`) on the same object -/
def secMeths (now : Nat) : Meths where
  fn name args env :=
    match name, args with
    | "time.perf_counter_ns", [] => .ok (pint now)
    | "float", [.sc (.py (.int i))] => .ok (pint i)
    | "__float__", [.str s] => if s = "1000000000.0" then .ok (pint 1000000000) else .error (.unsupported ("float literal " ++ s))
    | "__truediv__", [.sc (.py (.int i)), .sc (.py (.int d))] =>
      if d = 1000000000 then .ok (secs i) else .error (.unsupported "division")
    | "self.remaining_ns", [] => retM (timerMethsSrc now) env Src.Timer_remaining_ns
    | _, _ => .error (.unsupported ("call " ++ name))
  proc name _ _ := .error (.unsupported ("call " ++ name))

theorem secMeths_arith (now : Nat) : SecArith (secMeths now) := ⟨fun _ _ => rfl, fun _ => rfl, fun _ _ => rfl⟩
theorem secMeths_clock (now : Nat) : ClockIs (secMeths now) now := fun _ => rfl

/-- **`Timer.remaining()` on the source alone** (monotonic clock, as for `remaining_ns`) -/
theorem timer_remaining_linked (t : Timer) (now : Nat) (hmono : Mono t now) :
    runFn (secMeths now) (timerEnv t) Src.Timer_remaining = .ok (secs (t.remaining now), timerEnv t) :=
  timer_remaining_agrees _ t now _ (secMeths_arith now) (timer_remaining_ns_linked t now hmono)

/-- `Timer.elapsed()`, exactly (Python `int` subtraction; no hypothesis on the clock): `(now - start) / 10^9` when started, the
    `int` `0` (not `0.0`) when stopped -/
theorem timer_elapsed_int (M : Meths) (t : Timer) (now : Nat) (env : Env) (hA : SecArith M) (hC : ClockIs M now)
    (hS : env "self.start_time" = some (optPV t.start)) :
    runFn M env Src.Timer_elapsed = .ok (if t.start.isSome then secs (elapsedInt t now) else pint 0, env) := by
  cases hs : t.start <;>
    simp [runFn, Src.Timer_elapsed, execBlock, execStmt, eval, evalArgs, hS, hs, optPV, builtin_clock, hC _, elapsedInt,
      evalBuiltin_none "float" _ (by decide), evalBuiltin_none "__float__" _ (by decide),
      evalBuiltin_none "__truediv__" _ (by decide), hA.float, hA.lit, hA.div]

/-- **`Timer.elapsed()` = the model's `now - start`** (truncated) when the clock is monotonic -/
theorem timer_elapsed_agrees (M : Meths) (t : Timer) (now : Nat) (env : Env) (hA : SecArith M) (hC : ClockIs M now)
    (hS : env "self.start_time" = some (optPV t.start)) (hmono : Mono t now) :
    runFn M env Src.Timer_elapsed = .ok (if t.start.isSome then secs (elapsedOf t now) else pint 0, env) := by
  rw [timer_elapsed_int M t now env hA hC hS, elapsedInt_eq t now hmono]

/-! ## 3. `next_cf_delay` -/

/-- `next_cf_delay()` whatever the callees are: `None` unless Consecutive Frames are being transmitted (`cf`); `0` (the `int`) when the
    STmin timer has timed out (`to`); otherwise what `self.timer_tx_stmin.remaining()` returns.  The callees are only asked when the
    source asks them. -/
theorem next_cf_delay_run (M : Meths) (env : Env) (cf to : Bool) (r : PV)
    (hCf : M.fn "self.is_tx_transmitting_cf" [] env = .ok (pbool cf))
    (hTo : cf = true → M.fn "self.timer_tx_stmin.is_timed_out" [] env = .ok (pbool to))
    (hRem : cf = true → to = false → M.fn "self.timer_tx_stmin.remaining" [] env = .ok r) :
    runFn M env Src.TransportLayerLogic_next_cf_delay = .ok (if cf then (if to then pint 0 else r) else pnone, env) := by
  cases cf with
  | false =>
    simp [runFn, Src.TransportLayerLogic_next_cf_delay, execBlock, execStmt, eval, evalArgs,
      evalBuiltin_none "self.is_tx_transmitting_cf" _ (by decide), hCf]
  | true =>
    have hTo' := hTo rfl
    cases to with
    | true =>
      simp [runFn, Src.TransportLayerLogic_next_cf_delay, execBlock, execStmt, eval, evalArgs,
        evalBuiltin_none "self.is_tx_transmitting_cf" _ (by decide), hCf,
        evalBuiltin_none "self.timer_tx_stmin.is_timed_out" _ (by decide), hTo']
    | false =>
      have hRem' := hRem rfl rfl
      simp [runFn, Src.TransportLayerLogic_next_cf_delay, execBlock, execStmt, eval, evalArgs,
        evalBuiltin_none "self.is_tx_transmitting_cf" _ (by decide), hCf,
        evalBuiltin_none "self.timer_tx_stmin.is_timed_out" _ (by decide), hTo',
        evalBuiltin_none "self.timer_tx_stmin.remaining" _ (by decide), hRem']

/-- the reference: the wait before the next Consecutive Frame, on the model (`r` = how the remaining time is shown) -/
def cfDelayOf (s : State) (now : Nat) (r : PV) : PV :=
  if s.txState = .transmitCf then (if s.timerStmin.timedOut now then pint 0 else r) else pnone

/-- ... with the remaining time in seconds (exact rational) -/
def nextCfDelay (s : State) (now : Nat) : PV := cfDelayOf s now (secs (s.timerStmin.remaining now))

/-- **`next_cf_delay()` = `cfDelayOf`**: `None` when not transmitting CFs, `0` when the STmin timer (model: `Timer.timedOut`) has timed
    out, otherwise the callee's value - the callees answering what their own agreement theorems prove
    (`is_tx_transmitting_cf_agrees`, `timer_is_timed_out_agrees` / `_linked`, `timer_remaining_agrees`) -/
theorem next_cf_delay_agrees (s : State) (now : Nat) (M : Meths) (env : Env) (r : PV)
    (hCf : M.fn "self.is_tx_transmitting_cf" [] env = .ok (pbool (decide (s.txState = .transmitCf))))
    (hTo : s.txState = .transmitCf → M.fn "self.timer_tx_stmin.is_timed_out" [] env = .ok (pbool (s.timerStmin.timedOut now)))
    (hRem : s.txState = .transmitCf → s.timerStmin.timedOut now = false → M.fn "self.timer_tx_stmin.remaining" [] env = .ok r) :
    runFn M env Src.TransportLayerLogic_next_cf_delay = .ok (cfDelayOf s now r, env) := by
  rw [next_cf_delay_run M env (decide (s.txState = .transmitCf)) (s.timerStmin.timedOut now) r hCf
    (fun h => hTo (by simpa using h)) (fun h h' => hRem (by simpa using h) h')]
  by_cases h : s.txState = .transmitCf <;> simp [cfDelayOf, h]

/-- while Consecutive Frames are being transmitted the value is never `None` (the `assert delay is not None` of `_main_thread_fn`) -/
theorem cfDelayOf_ne_none (s : State) (now : Nat) (r : PV) (h : s.txState = .transmitCf) (hr : r ≠ pnone) : cfDelayOf s now r ≠ pnone := by
  unfold cfDelayOf
  rw [if_pos h]
  split
  · simp [pint, pnone]
  · exact hr

/-- the `self.start_time` / `self.timeout` of the sub-object `self.timer_tx_stmin`, as the caller's environment holds them -/
def stminView (env : Env) : Env := fun k =>
  if k = "self.start_time" then env "self.timer_tx_stmin.start_time"
  else if k = "self.timeout" then env "self.timer_tx_stmin.timeout"
  else constEnv k

theorem timerEnv_apply (t : Timer) (k : String) :
    timerEnv t k = if k = "self.start_time" then some (optPV t.start) else if k = "self.timeout" then some (pint t.timeout) else constEnv k := by
  unfold timerEnv
  split <;> simp_all

/-- in an environment that shows the transmit side of `s`, the view is MiscTimer's presentation of `s.timerStmin` -/
theorem stminView_eq (s : State) (env : Env) (hE : Has env (txAttrs s)) : stminView env = timerEnv s.timerStmin := by
  obtain ⟨-, -, -, -, -, -, -, -, -, -, h11, h12, -⟩ := has_txAttrs hE
  funext k
  rw [timerEnv_apply]
  simp only [stminView, h11, h12]

/-- the three callees of `next_cf_delay`, each resolved by INTERPRETING its source: `is_tx_transmitting_cf` on the same object, the two
    `Timer` methods on the sub-object `self.timer_tx_stmin` (their own callees interpreted in turn: `timerMethsSrc`, `secMeths`) -/
def cfMeths (now : Nat) : Meths where
  fn name args env :=
    match name, args with
    | "self.is_tx_transmitting_cf", [] => retM noMeths env Src.TransportLayerLogic_is_tx_transmitting_cf
    | "self.timer_tx_stmin.is_timed_out", [] => retM (timerMethsSrc now) (stminView env) Src.Timer_is_timed_out
    | "self.timer_tx_stmin.remaining", [] => retM (secMeths now) (stminView env) Src.Timer_remaining
    | _, _ => .error (.unsupported ("call " ++ name))
  proc name _ _ := .error (.unsupported ("call " ++ name))

/-- **`next_cf_delay()` = `nextCfDelay`, on the sources alone** (five functions composed: `next_cf_delay`, `is_tx_transmitting_cf`,
    `Timer.is_timed_out`, `Timer.remaining`, `Timer.remaining_ns` + `is_stopped`, `elapsed_ns`), for every state, in every environment
    that shows its transmit side; the clock monotonic since the STmin timer was started (needed for `remaining_ns` only:
    `remaining_ns_needs_mono`).  The value is `None` / the `int` `0` / the remaining nanoseconds of the model's timer as seconds. -/
theorem next_cf_delay_linked (s : State) (now : Nat) (env : Env) (hE : Has env (txAttrs s)) (hC : Has env txConsts)
    (hmono : Mono s.timerStmin now) :
    runFn (cfMeths now) env Src.TransportLayerLogic_next_cf_delay = .ok (nextCfDelay s now, env) := by
  have hv := stminView_eq s env hE
  refine next_cf_delay_agrees s now (cfMeths now) env _ ?_ (fun _ => ?_) (fun _ _ => ?_)
  · show retM noMeths env Src.TransportLayerLogic_is_tx_transmitting_cf = _
    rw [retM, is_tx_transmitting_cf_agrees_has s noMeths env hE hC]; rfl
  · show retM (timerMethsSrc now) (stminView env) Src.Timer_is_timed_out = _
    rw [hv, timer_is_timed_out_linked]
  · show retM (secMeths now) (stminView env) Src.Timer_remaining = _
    rw [hv, retM, timer_remaining_linked _ now hmono]; rfl

/-- **The assumptions `rxActive`, `txCf`, `cfDelay` of `Thr.WorkerPrims` (ThreadedWorker.lean) discharged from the sources.**
    For any `Meths` whose entries `self.is_rx_active` / `self.is_tx_transmitting_cf` / `self.next_cf_delay` ARE the interpreted sources
    (callees resolved by the same `Meths`; only asked in environments `R` relates to a state), and any core relation `R` that shows
    `rx_state`, `tx_state` and the two enum constants:
    * `rxActive`, `txCf` hold (no further assumption);
    * `cfDelay` (`∃ d : Int, next_cf_delay() = pint d` while CFs are transmitted) holds PROVIDED the two `Timer` methods answer a `bool`
      and an `int`.  `pint d` is ThreadedWorker's convention "an integer stands for each float" (`Spec.float`); under the exact
      presentation of this file the value is `0` or `secs n` (`next_cf_delay_linked`), which is not of the form `pint d` when the timer
      has not timed out: `cfDelay` as stated can then not be instantiated, its statement would have to read `∃ v, v ≠ None`
      (`cfDelayOf_ne_none`) with `delay > 0` on a rational (`delay_gt_zero_secs`).
    `waitFunc` and `throttled` are passed through. -/
theorem workerPrims_of_src {M : Meths} {R : Env → State → Prop}
    (hR : ∀ env s, R env s → env "self.rx_state" = some (pubRxStPV s.rxState) ∧ env "self.RxState.IDLE" = some (pubRxStPV .idle) ∧
      env "self.tx_state" = some (txStPV s.txState) ∧ env "self.TxState.TRANSMIT_CF" = some (txStPV .transmitCf))
    (h1 : ∀ env s, R env s → M.fn "self.is_rx_active" [] env = retM M env Src.TransportLayerLogic_is_rx_active)
    (h2 : ∀ env s, R env s → M.fn "self.is_tx_transmitting_cf" [] env = retM M env Src.TransportLayerLogic_is_tx_transmitting_cf)
    (h3 : ∀ env s, R env s → M.fn "self.next_cf_delay" [] env = retM M env Src.TransportLayerLogic_next_cf_delay)
    (hTo : ∀ env, ∃ b : Bool, M.fn "self.timer_tx_stmin.is_timed_out" [] env = .ok (pbool b))
    (hRem : ∀ env, ∃ d : Int, M.fn "self.timer_tx_stmin.remaining" [] env = .ok (pint d))
    (hW : ∀ (env : Env) (v : PV), M.proc "self.params.wait_func" [v] env = .ok env)
    (hT : ∀ (env : Env), ∃ b : Bool, M.fn "self.is_tx_throttled" [] env = .ok (pbool b)) : Thr.WorkerPrims M R where
  rxActive := fun env s h => by
    obtain ⟨a, b, -, -⟩ := hR env s h
    rw [h1 env s h, retM, is_rx_active_agrees s M env a b]; rfl
  txCf := fun env s h => by
    obtain ⟨-, -, c, d⟩ := hR env s h
    rw [h2 env s h, retM, is_tx_transmitting_cf_agrees s M env c d]; rfl
  cfDelay := fun env s h hcf => by
    obtain ⟨-, -, c, d⟩ := hR env s h
    obtain ⟨b, hb⟩ := hTo env
    obtain ⟨r, hr⟩ := hRem env
    have hc : M.fn "self.is_tx_transmitting_cf" [] env = .ok (pbool true) := by
      rw [h2 env s h, retM, is_tx_transmitting_cf_agrees s M env c d, hcf]; rfl
    refine ⟨if b then 0 else r, ?_⟩
    rw [h3 env s h, retM, next_cf_delay_run M env true b (pint r) hc (fun _ => hb) (fun _ _ => hr)]
    cases b <;> rfl
  waitFunc := hW
  throttled := hT

/-- `delay > 0` (the test of `_main_thread_fn`) on a delay shown as exact seconds: the remaining nanoseconds are positive -/
theorem delay_gt_zero_secs (n : Int) : evalCmp .gt (secs n) (pint 0) = .ok (pbool (decide (0 < n))) := by
  simp [secs, evalCmp, isNumber, numLt, PyVal.isInt, PyVal.intVal, Except.map]

/-! ## 4. `sleep_time`

  Source: `key = (self.rx_state, self.tx_state); if key in self.timings: return self.timings[key] else: return 0.001`, where
  `self.timings` is a `dict` keyed by PAIRS (`__init__`: `{(IDLE, IDLE): 0.02, (IDLE, WAIT_FC): 0.005}`; `set_sleep_timing`).

  The interpreter (frozen) has no value for such an object and no hook for the two operations on it: `.cmp .isIn` / `.index` are evaluated
  by `evalCmp` / `eval` directly (never through `Meths`), `evalCmp .isIn` accepts only a `.list` of SCALARS on the right and compares
  them with `pvEq`, which is `false` between the tuple `key` (a `.list`) and any scalar; `.index` wants an integer index.  Hence:
  * `sleep_time_interp`: for EVERY value bound to `self.timings` the interpretation is either an interpreter error (`unsupported`, not
    a Python exception) or the default branch - it never reaches `self.timings[key]`;
  * `sleep_time_dict_outside_subset`: so no presentation of the dict makes the interpreted source return the entry of `(IDLE, IDLE)`.
  The lookup part of `sleep_time` therefore stays OUTSIDE the source-agreement theorems.  What IS proved about the source text:
  its shape (`sleep_time_src`), the key it builds (`sleep_time_key`), and that the shape computes the association-list lookup with
  default `0.001` (`sleepTimeOf`) for ANY two expressions that implement "`key in d`" / "`d[key]`" (`sleep_skeleton_agrees`). -/

/-- `key = (self.rx_state, self.tx_state)` -/
def keyStmt : PStmt := .assign "key" (.lst (.cons (.var "self.rx_state") (.cons (.var "self.tx_state") .nil)))
/-- `0.001` -/
def dfltExpr : PExpr := .call "__float__" (.cons (.strLit "0.001") .nil)

/-- `key = ...; if <c>: return <i> else: return 0.001` -/
def sleepSkeleton (c i : PExpr) : PBlock :=
  .cons keyStmt (.cons (.ite c (.cons (.ret i) .nil) (.cons (.ret dfltExpr) .nil)) .nil)

/-- the dumped source IS the skeleton with `key in self.timings` and `self.timings[key]` -/
theorem sleep_time_src : Src.TransportLayerLogic_sleep_time =
    sleepSkeleton (.cmp .isIn (.var "key") (.var "self.timings")) (.index (.var "self.timings") (.var "key")) := rfl

/-- the key is the pair (rx state, tx state) -/
theorem sleep_time_key (M : Meths) (env : Env) (a b : Sc) (hrx : env "self.rx_state" = some (.sc a)) (htx : env "self.tx_state" = some (.sc b)) :
    execStmt M env keyStmt = .ok (.next (env.set "key" (.list [a, b]))) := by
  simp [keyStmt, execStmt, eval, evalArgs, hrx, htx, List.mapM_cons, List.mapM_nil]

/-- what the interpreter makes of `sleep_time()` for EVERY value `v` of `self.timings`: a list of scalars never contains the pair, so the
    default is returned; anything else is an interpreter error -/
theorem sleep_time_interp (M : Meths) (env : Env) (a b : Sc) (v : PV) (hrx : env "self.rx_state" = some (.sc a))
    (htx : env "self.tx_state" = some (.sc b)) (hv : env "self.timings" = some v) :
    runFn M env Src.TransportLayerLogic_sleep_time =
      match v with
      | .list _ => (M.fn "__float__" [.str "0.001"] (env.set "key" (.list [a, b]))).map (fun d => (d, env.set "key" (.list [a, b])))
      | _ => .error (.unsupported "in: right operand is not a list literal") := by
  have hk := sleep_time_key M env a b hrx htx
  have hv' : (env.set "key" (.list [a, b])) "self.timings" = some v := by simp [set_get, hv]
  have hkk : (env.set "key" (.list [a, b])) "key" = some (.list [a, b]) := by simp [set_get]
  rw [sleep_time_src]
  unfold sleepSkeleton runFn
  rw [cons_next hk]
  cases v with
  | list xs =>
    have hany : (xs.any fun x => pvEq (.list [a, b]) (.sc x)) = false := by
      rw [List.any_eq_false]; intro x _; simp [pvEq]
    simp only [execBlock, execStmt, eval, hv', hkk, ok_bind, evalCmp_isIn, hany, truthy_pbool, Bool.false_eq_true, if_false, dfltExpr,
      evalArgs, evalBuiltin_none "__float__" _ (by decide)]
    cases M.fn "__float__" [.str "0.001"] (env.set "key" (.list [a, b])) <;> rfl
  | sc x => simp [execBlock, execStmt, eval, hv', hkk, evalCmp]
  | bytes x => simp [execBlock, execStmt, eval, hv', hkk, evalCmp]
  | str x => simp [execBlock, execStmt, eval, hv', hkk, evalCmp]
  | meth x => simp [execBlock, execStmt, eval, hv', hkk, evalCmp]

/-- **the dict lookup is outside the subset**: whatever is bound to `self.timings`, whatever the callees, the interpreted `sleep_time()`
    either fails or returns what the DEFAULT branch returns (`__float__ "0.001"`) - in particular in the state `(IDLE, IDLE)`, where the
    real dict has an entry (`0.02`; checked on the real code) -/
theorem sleep_time_dict_outside_subset (M : Meths) (env : Env) (a b : Sc) (v : PV) (hrx : env "self.rx_state" = some (.sc a))
    (htx : env "self.tx_state" = some (.sc b)) (hv : env "self.timings" = some v) :
    (∃ e, runFn M env Src.TransportLayerLogic_sleep_time = .error e) ∨
    (∃ d env', runFn M env Src.TransportLayerLogic_sleep_time = .ok (d, env') ∧ M.fn "__float__" [.str "0.001"] env' = .ok d) := by
  rw [sleep_time_interp M env a b v hrx htx hv]
  cases v with
  | list xs =>
    cases h : M.fn "__float__" [.str "0.001"] (env.set "key" (.list [a, b])) with
    | error e => exact .inl ⟨e, rfl⟩
    | ok d => exact .inr ⟨d, _, rfl, h⟩
  | sc x => exact .inl ⟨_, rfl⟩
  | bytes x => exact .inl ⟨_, rfl⟩
  | str x => exact .inl ⟨_, rfl⟩
  | meth x => exact .inl ⟨_, rfl⟩

/-- the reference: lookup of the pair in an association list, default `dflt` -/
def sleepTimeOf (d : List ((RxSt × TxSt) × PV)) (dflt : PV) (rx : RxSt) (tx : TxSt) : PV :=
  match d.lookup (rx, tx) with
  | some v => v
  | none => dflt

/-- the dict `__init__` builds (`t1`, `t2`: how `0.02`, `0.005` are shown) -/
def initTimings (t1 t2 : PV) : List ((RxSt × TxSt) × PV) := [((.idle, .idle), t1), ((.idle, .waitFc), t2)]

theorem sleepTimeOf_init (t1 t2 dflt : PV) (rx : RxSt) (tx : TxSt) :
    sleepTimeOf (initTimings t1 t2) dflt rx tx =
      if rx = .idle ∧ tx = .idle then t1 else if rx = .idle ∧ tx = .waitFc then t2 else dflt := by
  cases rx <;> cases tx <;> rfl

/-- **the shape of `sleep_time` computes the lookup**, for any two expressions `c`, `i` that implement `key in d` and `d[key]` on the pair
    bound to `key` (the two operations the interpreter lacks): the result is `sleepTimeOf d 0.001 rx tx`; only the local `key` is
    written. -/
theorem sleep_skeleton_agrees (M : Meths) (env : Env) (s : State) (d : List ((RxSt × TxSt) × PV)) (dflt : PV) (c i : PExpr)
    (hrx : env "self.rx_state" = some (pubRxStPV s.rxState)) (htx : env "self.tx_state" = some (txStPV s.txState))
    (hc : ∀ env' : Env, env' "key" = some (.list [.enum "RxState" (match s.rxState with | .idle => "IDLE" | .waitCf => "WAIT_CF"),
        .enum "TxState" (txStName s.txState)]) → eval M env' c = .ok (pbool (d.lookup (s.rxState, s.txState)).isSome))
    (hi : ∀ env' : Env, env' "key" = some (.list [.enum "RxState" (match s.rxState with | .idle => "IDLE" | .waitCf => "WAIT_CF"),
        .enum "TxState" (txStName s.txState)]) → ∀ v : PV, d.lookup (s.rxState, s.txState) = some v → eval M env' i = .ok v)
    (hd : ∀ env' : Env, M.fn "__float__" [.str "0.001"] env' = .ok dflt) :
    ∃ env', runFn M env (sleepSkeleton c i) = .ok (sleepTimeOf d dflt s.rxState s.txState, env') ∧
      ∀ k, k ≠ "key" → env' k = env k := by
  have hrx' : env "self.rx_state" = some (.sc (.enum "RxState" (match s.rxState with | .idle => "IDLE" | .waitCf => "WAIT_CF"))) := by
    rw [hrx]; cases s.rxState <;> rfl
  have hk := sleep_time_key M env _ _ hrx' htx
  obtain ⟨kv, hkv⟩ : ∃ kv : PV, kv = .list [.enum "RxState" (match s.rxState with | .idle => "IDLE" | .waitCf => "WAIT_CF"),
    .enum "TxState" (txStName s.txState)] := ⟨_, rfl⟩
  rw [← hkv] at hk hc hi
  refine ⟨env.set "key" kv, ?_, fun k hk' => by simp [set_get, hk']⟩
  unfold sleepSkeleton runFn
  rw [cons_next hk]
  have hc' := hc (env.set "key" kv) (by simp [set_get])
  cases hl : d.lookup (s.rxState, s.txState) with
  | none =>
    rw [hl] at hc'
    simp [execBlock, execStmt, hc', dfltExpr, eval, evalArgs, evalBuiltin_none "__float__" _ (by decide), hd, sleepTimeOf, hl]
  | some v =>
    rw [hl] at hc'
    simp [execBlock, execStmt, hc', hi (env.set "key" kv) (by simp [set_get]) v hl, sleepTimeOf, hl]

/-! ## 5. `RateLimiter.can_be_enabled`, `RateLimiter.set_bitrate`

  `can_be_enabled` converts each of `mean_bitrate`, `window_size_sec` with `float(...)` under a bare `except:` (dumped as `tryExcept`:
  one expression statement, so the first semantics applies), then tests `float(...) <= 0`.  `float` is a callee: as a statement
  (`Meths.proc`, inside the `try`) and as an expression (`Meths.fn`, in the test); `FloatConv M conv` says both are the same conversion
  `conv`, without effect, and `NumConv conv` that it yields a number or raises a Python exception (`TypeError` / `ValueError` /
  `OverflowError`: what `float()` raises). -/

structure FloatConv (M : Meths) (conv : PV → Except PErr PV) : Prop where
  fn : ∀ (v : PV) (env : Env), M.fn "float" [v] env = conv v
  proc : ∀ (v : PV) (env : Env), M.proc "float" [v] env = (conv v).map (fun _ => env)

/-- the conversion returns a number or raises an exception -/
def NumConv (conv : PV → Except PErr PV) : Prop :=
  ∀ v, (∃ x, conv v = .ok (.sc (.py x)) ∧ isNumber x = true) ∨ (∃ e, conv v = .error (.exc e))

/-- Python's `x <= 0` on a number: NOT the negation of `x > 0` (`nan`) -/
def leZero : PyVal → Bool
  | .bool b => !b
  | .int i => decide (i ≤ 0)
  | .float n _ => decide (n ≤ 0)
  | .negInf => true
  | _ => false

theorem evalCmp_le_zero (x : PyVal) (h : isNumber x = true) : evalCmp .le (.sc (.py x)) (pint 0) = .ok (pbool (leZero x)) := by
  cases x with
  | none => simp [isNumber] at h
  | str t => simp [isNumber] at h
  | other t => simp [isNumber] at h
  | nan => rfl
  | posInf => rfl
  | negInf => rfl
  | bool b => cases b <;> rfl
  | int i =>
    rw [show (PV.sc (.py (.int i))) = pint i from rfl, evalCmp_le_pint]; rfl
  | float n d =>
    simp only [evalCmp, isNumber, numLt, PyVal.pyEq, PyVal.isInt, PyVal.intVal, bind, Except.bind, leZero]
    by_cases h1 : n < 0 <;> by_cases h2 : n = 0 <;> by_cases h3 : n ≤ 0 <;> simp [h1, h2, h3] <;> omega

/-- the number `float(v)` is, `none` when the conversion raises -/
def numOf (conv : PV → Except PErr PV) (v : PV) : Option PyVal :=
  match conv v with
  | .ok (.sc (.py x)) => some x
  | _ => none

/-- the reference: why the limiter cannot be enabled (`none`: it can) -/
def canReason (conv : PV → Except PErr PV) (mb ws : PV) : Option String :=
  match numOf conv mb with
  | none => some "mean_bitrate is not numerical"
  | some x =>
    if leZero x then some "mean_bitrate must be greater than 0" else
    match numOf conv ws with
    | none => some "window_size_sec is not numerical"
    | some y => if leZero y then some "window_size_sec must be greater than 0" else none

/-- `try: float(self.<attr>)  except: self.error_reason = <msg>; return False` -/
theorem try_float_stmt (M : Meths) (conv : PV → Except PErr PV) (hF : FloatConv M conv) (hN : NumConv conv) (env : Env) (attr msg : String)
    (v : PV) (hv : env attr = some v) :
    execStmt M env (.tryExcept (.cons (.expr (.call "float" (.cons (.var attr) .nil))) .nil)
        (.cons (.assign "self.error_reason" (.strLit msg)) (.cons (.ret .ff) .nil))) =
      match numOf conv v with
      | some _ => .ok (.next env)
      | none => .ok (.returned (pbool false) (env.set "self.error_reason" (.str msg))) := by
  rcases hN v with ⟨x, hx, -⟩ | ⟨e, he⟩
  · simp [execStmt, execBlock, eval, evalArgs, hv, evalBuiltin_none "float" _ (by decide), hF.proc, hx, numOf]
  · simp [execStmt, execBlock, eval, evalArgs, hv, evalBuiltin_none "float" _ (by decide), hF.proc, he, numOf]

/-- `if float(self.<attr>) <= 0: self.error_reason = <msg>; return False` (after the `try` succeeded) -/
theorem le_guard_stmt (M : Meths) (conv : PV → Except PErr PV) (hF : FloatConv M conv) (env : Env) (attr msg : String)
    (v : PV) (x : PyVal) (hv : env attr = some v) (hx : conv v = .ok (.sc (.py x))) (hn : isNumber x = true) :
    execStmt M env (.ite (.cmp .le (.call "float" (.cons (.var attr) .nil)) (.int (0)))
        (.cons (.assign "self.error_reason" (.strLit msg)) (.cons (.ret .ff) .nil)) .nil) =
      if leZero x then .ok (.returned (pbool false) (env.set "self.error_reason" (.str msg))) else .ok (.next env) := by
  have hc : eval M env (.cmp .le (.call "float" (.cons (.var attr) .nil)) (.int (0))) = .ok (pbool (leZero x)) := by
    simp only [eval, evalArgs, hv, ok_bind, evalBuiltin_none "float" _ (by decide), hF.fn, hx]
    exact evalCmp_le_zero x hn
  simp only [execStmt, hc, ok_bind, truthy_pbool]
  cases leZero x <;> simp [execBlock, execStmt, eval]

/-- **`can_be_enabled()` = `canReason`**: `True` (object untouched; in particular a stale `error_reason` stays) when `canReason` is
    `none`, otherwise `False` with `error_reason` set to the reason; nothing else is written. -/
theorem can_be_enabled_agrees (M : Meths) (conv : PV → Except PErr PV) (hF : FloatConv M conv) (hN : NumConv conv) (env : Env) (mb ws : PV)
    (h1 : env "self.mean_bitrate" = some mb) (h2 : env "self.window_size_sec" = some ws) :
    runFn M env Src.RateLimiter_can_be_enabled =
      .ok (match canReason conv mb ws with
           | none => (pbool true, env)
           | some r => (pbool false, env.set "self.error_reason" (.str r))) := by
  unfold Src.RateLimiter_can_be_enabled
  have t1 := try_float_stmt M conv hF hN env "self.mean_bitrate" "mean_bitrate is not numerical" mb h1
  have t2 := try_float_stmt M conv hF hN env "self.window_size_sec" "window_size_sec is not numerical" ws h2
  rcases hN mb with ⟨x, hx, hnx⟩ | ⟨e, he⟩
  · have n1 : numOf conv mb = some x := by simp [numOf, hx]
    rw [n1] at t1
    have g1 := le_guard_stmt M conv hF env "self.mean_bitrate" "mean_bitrate must be greater than 0" mb x h1 hx hnx
    cases hl1 : leZero x
    · rw [hl1] at g1
      simp only [Bool.false_eq_true, if_false] at g1
      rcases hN ws with ⟨y, hy, hny⟩ | ⟨e, he⟩
      · have n2 : numOf conv ws = some y := by simp [numOf, hy]
        rw [n2] at t2
        have g2 := le_guard_stmt M conv hF env "self.window_size_sec" "window_size_sec must be greater than 0" ws y h2 hy hny
        cases hl2 : leZero y
        · rw [hl2] at g2
          simp only [Bool.false_eq_true, if_false] at g2
          apply runFn_ret
          rw [cons_next t1, cons_next g1, cons_next t2, cons_next g2]
          simp [execBlock, execStmt, eval, canReason, n1, n2, hl1, hl2]
        · rw [hl2] at g2
          simp only [if_true] at g2
          apply runFn_ret
          rw [cons_next t1, cons_next g1, cons_next t2, cons_ret g2]
          simp [canReason, n1, n2, hl1, hl2]
      · have n2 : numOf conv ws = none := by simp [numOf, he]
        rw [n2] at t2
        apply runFn_ret
        rw [cons_next t1, cons_next g1, cons_ret t2]
        simp [canReason, n1, n2, hl1]
    · rw [hl1] at g1
      simp only [if_true] at g1
      apply runFn_ret
      rw [cons_next t1, cons_ret g1]
      simp [canReason, n1, hl1]
  · have n1 : numOf conv mb = none := by simp [numOf, he]
    rw [n1] at t1
    apply runFn_ret
    rw [cons_ret t1]
    simp [canReason, n1]

/-- `can_be_enabled()` is `True` iff both attributes convert to a number that is NOT `<= 0`.  For finite numbers and the infinities that
    is "`> 0`"; for `nan` it is not: `nan <= 0` is `False`, so a `nan` passes (`can_be_enabled_nan`). -/
theorem canReason_none_iff (conv : PV → Except PErr PV) (mb ws : PV) :
    canReason conv mb ws = none ↔
      ∃ x y, numOf conv mb = some x ∧ numOf conv ws = some y ∧ leZero x = false ∧ leZero y = false := by
  unfold canReason
  cases h1 : numOf conv mb with
  | none => simp
  | some x =>
    cases hl1 : leZero x with
    | true => simp [hl1]
    | false =>
      cases h2 : numOf conv ws with
      | none => simp [hl1]
      | some y => cases hl2 : leZero y <;> simp [hl1, hl2]

/-- `leZero` is `≤ 0` on the finite numbers -/
theorem leZero_int (i : Int) : leZero (.int i) = decide (i ≤ 0) := rfl
theorem leZero_float (n : Int) (d : Nat) : leZero (.float n d) = decide (n ≤ 0) := rfl
theorem leZero_nan : leZero .nan = false := rfl

/-- Python's `float()` on the scalars of the embedding: numbers are kept (numerically), everything else raises `TypeError` (a string
    that spells a number would convert in Python; the model's `PyVal.str` carries no text, so strings are taken as non-numeric here) -/
def pyFloat : PV → Except PErr PV
  | .sc (.py v) => if isNumber v then .ok (.sc (.py v)) else .error (.exc .TypeError)
  | _ => .error (.exc .TypeError)

theorem pyFloat_num : NumConv pyFloat := by
  intro v
  cases v with
  | sc s =>
    cases s with
    | py x =>
      cases hx : isNumber x
      · exact .inr ⟨.TypeError, by simp [pyFloat, hx]⟩
      · exact .inl ⟨x, by simp [pyFloat, hx], hx⟩
    | enum c m => exact .inr ⟨.TypeError, rfl⟩
  | list xs => exact .inr ⟨.TypeError, rfl⟩
  | bytes b => exact .inr ⟨.TypeError, rfl⟩
  | str s => exact .inr ⟨.TypeError, rfl⟩
  | meth n => exact .inr ⟨.TypeError, rfl⟩

/-- `float` as a callee, both ways -/
def floatMeths (conv : PV → Except PErr PV) : Meths where
  fn name args _ :=
    match name, args with
    | "float", [v] => conv v
    | _, _ => .error (.unsupported ("call " ++ name))
  proc name args env :=
    match name, args with
    | "float", [v] => (conv v).map (fun _ => env)
    | _, _ => .error (.unsupported ("call " ++ name))

theorem floatMeths_conv (conv : PV → Except PErr PV) : FloatConv (floatMeths conv) conv := ⟨fun _ _ => rfl, fun _ _ => rfl⟩

/-- SUSPICIOUS (real code agrees, see the report): a `nan` bitrate (or window) passes `can_be_enabled`, although it is not "greater
    than 0": `float('nan') <= 0` is `False`.  (`RateLimiter(mean_bitrate=nan)` then enables itself with `window_bit_max = nan` and
    `allowed_bytes()` raises `ValueError` from `math.floor`.  Unreachable through `TransportLayerLogic`: `Params.validate` requires an
    `int` bitrate and a finite window since the repair of D10.) -/
theorem can_be_enabled_nan (env : Env) (h1 : env "self.mean_bitrate" = some (.sc (.py .nan)))
    (h2 : env "self.window_size_sec" = some (.sc (.py (.float 1 10)))) :
    runFn (floatMeths pyFloat) env Src.RateLimiter_can_be_enabled = .ok (pbool true, env) := by
  rw [can_be_enabled_agrees _ pyFloat (floatMeths_conv _) pyFloat_num env _ _ h1 h2]
  rfl

/-- **`set_bitrate(mean_bitrate)`**: the attribute is overwritten with the argument, unchecked and unconverted; nothing else - in
    particular `window_bit_max` (only recomputed by `reset()`) and `enabled` keep their values.  (The model's `Limiter` has no
    bitrate field: its budget `cfg.rlBitMax` is read from `window_bit_max` after construction; nothing in the package calls
    `set_bitrate`.) -/
theorem set_bitrate_agrees (M : Meths) (env : Env) (v : PV) (h : env "mean_bitrate" = some v) :
    runFn M env Src.RateLimiter_set_bitrate = .ok (pnone, env.set "self.mean_bitrate" v) := by
  simp [runFn, Src.RateLimiter_set_bitrate, execBlock, execStmt, eval, h]

theorem set_bitrate_frame (env : Env) (v : PV) (k : String) (hk : k ≠ "self.mean_bitrate") :
    (env.set "self.mean_bitrate" v) k = env k := by simp [set_get, hk]

/-! ## 6. `TransportLayer._read_relay_queue` (second semantics), `NotifierBasedCanStack._rx_canbus`

  `_read_relay_queue(timeout)`: `try: return self.rx_relay_queue.get(block=True, timeout=timeout)  except queue.Empty: return None`.
  The `try` body is a `return`, the handler names a class: `tryCatch`, meaning given by `run2` only.  `queue.Empty` is the named exception
  `"Empty"` (`namedExc "raise Empty"`).  The call is in EXPRESSION position: in this embedding it has a value and no effect on the
  environment (as `process_hands_over`, ThreadedWorker.lean): THAT the item leaves the queue is the primitive's effect, stated where the
  queue is a history key (`Spec.qGet`, `WorkerSpec.processFull`); here: which value comes back. -/

/-- **`_read_relay_queue`, every callee**: with fuel `≥ 4`, the value of `get(True, timeout)` is returned unchanged; `queue.Empty` (and
    only it) is turned into `return None`; any other exception propagates; the environment is untouched. -/
theorem read_relay_queue_run (M : Meths) (env : Env) (t : PV) (n : Nat) (ht : env "timeout" = some t) (hn : 4 ≤ n) :
    run2 n M env Src.TransportLayer_p_read_relay_queue =
      match M.fn "self.rx_relay_queue.get#block#timeout" [pbool true, t] env with
      | .ok v => .ok (.ret v env)
      | .error e =>
        match ofPErr env e with
        | .ok (.raised x env1) => if catches "Empty" x then .ok (.ret pnone env1) else .ok (.raised x env1)
        | r => r := by
  obtain ⟨j, rfl⟩ : ∃ j, n = j + 4 := ⟨n - 4, by omega⟩
  have hs : execStmt M env (.ret (.call "self.rx_relay_queue.get#block#timeout" (.cons .tt (.cons (.var "timeout") .nil)))) =
      match M.fn "self.rx_relay_queue.get#block#timeout" [pbool true, t] env with
      | .ok v => .ok (.returned v env)
      | .error e => .error e := by
    simp only [execStmt, eval, evalArgs, ht, ok_bind, evalBuiltin_none "self.rx_relay_queue.get#block#timeout" _ (by decide)]
    cases M.fn "self.rx_relay_queue.get#block#timeout" [pbool true, t] env <;> rfl
  have hh : ∀ env1, exec2B (j + 2) M env1 (.cons (.ret .none) .nil) = .ok (.ret pnone env1) := by
    intro env1
    rw [exec2B_cons, exec2S_simple _ _ _ _ rfl]
    rfl
  unfold run2 Src.TransportLayer_p_read_relay_queue
  rw [exec2B_cons, exec2S_tryCatch, exec2B_cons, exec2S_simple _ _ _ _ rfl]
  unfold simple2
  rw [hs]
  cases M.fn "self.rx_relay_queue.get#block#timeout" [pbool true, t] env with
  | ok v => rfl
  | error e =>
    simp only
    rcases ofPErr_cases env e with ⟨cls, h⟩ | ⟨er, h⟩
    · rw [h]
      simp only
      cases hc : catches "Empty" cls
      · simp
      · simp only [if_true, hh]
    · rw [h]

/-- what `get(block=True, timeout=...)` answers on a relay queue `q` (items shown through `obj`; `None` is the wake-up token): its head,
    or `queue.Empty` after the timeout when there is none -/
def relayGet (obj : CanMsg → PV) : List (Option CanMsg) → Except PErr PV
  | [] => .error (.unsupported "raise Empty")
  | x :: _ => .ok (optObj obj x)

def relayMeths (obj : CanMsg → PV) (q : List (Option CanMsg)) : Meths where
  fn name args _ :=
    match name, args with
    | "self.rx_relay_queue.get#block#timeout", [_, _] => relayGet obj q
    | _, _ => .error (.unsupported ("call " ++ name))
  proc name _ _ := .error (.unsupported ("call " ++ name))

/-- what one call of `_read_relay_queue` gives the logic layer -/
def relayRead (q : List (Option CanMsg)) : Option CanMsg :=
  match q with
  | some m :: _ => some m
  | _ => none

/-- **`_read_relay_queue(timeout)` on a relay queue `q`**: the head of the queue when it is a message; `None` when the head is the wake-up
    token AND when the queue is empty (`queue.Empty` caught) - the two are indistinguishable to the caller, which is what the model's
    `TL.takeUntilNone` relies on (`relayRead_none_iff`). -/
theorem read_relay_queue_agrees (obj : CanMsg → PV) (q : List (Option CanMsg)) (env : Env) (t : PV) (n : Nat)
    (ht : env "timeout" = some t) (hn : 4 ≤ n) :
    run2 n (relayMeths obj q) env Src.TransportLayer_p_read_relay_queue = .ok (.ret (optObj obj (relayRead q)) env) := by
  rw [read_relay_queue_run _ env t n ht hn]
  have hG : (relayMeths obj q).fn "self.rx_relay_queue.get#block#timeout" [pbool true, t] env = relayGet obj q := rfl
  rw [hG]
  match q with
  | [] => rfl
  | none :: _ => rfl
  | some m :: _ => rfl

/-- the first read returns `None` exactly when the model's worker takes no frame out of the queue -/
theorem relayRead_none_iff (q : List (Option CanMsg)) : relayRead q = none ↔ (TL.takeUntilNone q).1 = [] := by
  match q with
  | [] => simp [relayRead, TL.takeUntilNone]
  | none :: _ => simp [relayRead, TL.takeUntilNone]
  | some m :: r => simp [relayRead, TL.takeUntilNone]

/-- an exception other than `queue.Empty` is NOT caught -/
theorem read_relay_queue_other_exc (M : Meths) (env : Env) (t : PV) (n : Nat) (e : PyExc) (ht : env "timeout" = some t) (hn : 4 ≤ n)
    (h : M.fn "self.rx_relay_queue.get#block#timeout" [pbool true, t] env = .error (.exc e)) :
    run2 n M env Src.TransportLayer_p_read_relay_queue = .ok (.raised e.name env) := by
  rw [read_relay_queue_run M env t n ht hn, h]
  cases e <;> rfl

/-- the first semantics gives `tryCatch` no meaning (why `run2` is used) -/
theorem read_relay_queue_first_semantics (M : Meths) (env : Env) :
    runFn M env Src.TransportLayer_p_read_relay_queue = .error (.unsupported "try") := rfl

/-- **`NotifierBasedCanStack._rx_canbus(timeout)`**: the exact guard is `self.buffered_reader is None` (-> `None`, nothing is read);
    otherwise ONE call `_read_isotp_message(self.buffered_reader.get_message, timeout)` whose result is returned unchanged.  `R`: any
    callee (`rxCanbusMeths`, PyCan.lean). -/
theorem nb_rx_canbus_agrees (R : List PV → Env → Except PErr PV) (env : Env) (br gm t : PV)
    (hb : env "self.buffered_reader" = some br) (hg : br ≠ pnone → env "self.buffered_reader.get_message" = some gm)
    (ht : env "timeout" = some t) :
    runFn (rxCanbusMeths R) env Src.NotifierBasedCanStack_p_rx_canbus =
      if br = pnone then .ok (pnone, env) else (R [gm, t] env).map (fun v => (v, env)) := by
  by_cases h : br = pnone
  · subst h
    simp [runFn, Src.NotifierBasedCanStack_p_rx_canbus, execBlock, execStmt, eval, hb]
  · have hg' := hg h
    have hbq : (br == pnone) = false := by simpa using h
    simp [runFn, Src.NotifierBasedCanStack_p_rx_canbus, execBlock, execStmt, eval, evalArgs, hb, hg', ht, hbq, h,
      evalBuiltin_none "_read_isotp_message" _ (by decide), rxCanbusMeths_read]
    cases R [gm, t] env <;> rfl

/-- ... in the presentation of Threaded.lean (`Thr.NbShows env reader n`): the reader exists exactly between `start()` and `stop()`
    (`NotifierBasedCanStack.start` / `.stop`, Threaded.lean section 7), so messages are read iff the stack is started -/
theorem nb_rx_canbus_shows (R : List PV → Env → Except PErr PV) (env : Env) (reader : Bool) (n : Int) (gm t : PV)
    (hS : Thr.NbShows env reader n) (hg : env "self.buffered_reader.get_message" = some gm) (ht : env "timeout" = some t) :
    runFn (rxCanbusMeths R) env Src.NotifierBasedCanStack_p_rx_canbus =
      if reader then (R [gm, t] env).map (fun v => (v, env)) else .ok (pnone, env) := by
  rw [nb_rx_canbus_agrees R env _ gm t hS.1 (fun _ => hg) ht]
  cases reader <;> simp

/-- **linked to the interpreted `_read_isotp_message`** (PyCan.lean, item 3; `get_message` reading the pending results `pre ++ rest`):
    with a reader, the value is the reference `firstUsable` - the FIRST data frame converted (`pyCanToIsotp`), error / remote frames
    before it skipped, `None` on a timed-out read; without a reader `None`, whatever is pending. -/
theorem nb_rx_canbus_linked (clock : Nat → Int) (K : List PV → Except PErr PV) (obj : CanMsg → PV)
    (hK : ∀ c, K (canMessageArgs c) = .ok (obj c)) (hobj : ∀ c, obj c ≠ pnone)
    (pre rest : List (Option PyCanMsg)) (env : Env) (reader : Bool) (l : Int) (gm : PV) (τ : Int) (fuel : Nat)
    (hS : Thr.NbShows env reader l) (hg : env "self.buffered_reader.get_message" = some gm)
    (ht : env "timeout" = some (pint τ)) (hp : env "#bus_pos" = some (pint pre.length)) (hf : (firstUsable rest).2 + 9 ≤ fuel) :
    runFn (rxCanbusMeths (readFnOfSrc (pre ++ rest) clock K fuel)) env Src.NotifierBasedCanStack_p_rx_canbus =
      .ok (if reader then optObj obj (firstUsable rest).1 else pnone, env) := by
  rw [nb_rx_canbus_shows _ env reader l gm (pint τ) hS hg ht]
  cases reader
  · rfl
  · obtain ⟨env', h, -⟩ := read_isotp_message_agrees clock K obj hK hobj pre rest (readCalleeEnv gm (pint τ) env) τ fuel hp rfl hf
    simp only [if_true, readFnOfSrc, h, map_ok]

/-! ## 7. Non-vacuity: every hypothesis-carrying theorem applied in a concrete world -/

/-- the four bindings the accessors read, for every state -/
def accEnv (s : State) : Env :=
  envOf [("self.rx_state", pubRxStPV s.rxState), ("self.RxState.IDLE", pubRxStPV .idle),
    ("self.tx_state", txStPV s.txState), ("self.TxState.TRANSMIT_CF", txStPV .transmitCf)]

/-- the enum constants used are the dumped ones -/
example : ("self.RxState.IDLE", pubRxStPV .idle) ∈ Src.consts ∧ ("self.TxState.TRANSMIT_CF", txStPV .transmitCf) ∈ Src.consts := by decide

example (s : State) : runFn noMeths (accEnv s) Src.TransportLayerLogic_is_rx_active = .ok (pbool s.isRxActive, accEnv s) :=
  is_rx_active_agrees s noMeths (accEnv s) rfl rfl
example (s : State) :
    runFn noMeths (accEnv s) Src.TransportLayerLogic_is_tx_transmitting_cf = .ok (pbool (decide (s.txState = .transmitCf)), accEnv s) :=
  is_tx_transmitting_cf_agrees s noMeths (accEnv s) rfl rfl
example (s : State) : ∃ env : Env, Has env (pubRxAttrs s) ∧ Has env pubRxConsts ∧ Has env (txAttrs s) ∧ Has env txConsts := by
  have h := has_envOf_keys (pubRxAttrs s ++ pubRxConsts ++ (txAttrs s ++ txConsts))
    (pubRxKeys ++ pubRxConsts.map (·.1) ++ (txKeys ++ txConsts.map (·.1))) rfl (by decide)
  exact ⟨_, h.append_left.append_left, h.append_left.append_right, h.append_right.append_left, h.append_right.append_right⟩

/-- a timer started at 5 with a timeout of 10 ns, read at 7 -/
def exTimer : Timer := { start := some 5, timeout := 10 }
theorem exTimer_mono : Mono exTimer 7 := by intro s h; cases h; decide

example : runFn (secMeths 7) (timerEnv exTimer) Src.Timer_remaining = .ok (secs 8, timerEnv exTimer) :=
  timer_remaining_linked exTimer 7 exTimer_mono
example : runFn (secMeths 7) (timerEnv exTimer) Src.Timer_elapsed = .ok (secs 2, timerEnv exTimer) :=
  timer_elapsed_agrees (secMeths 7) exTimer 7 _ (secMeths_arith 7) (secMeths_clock 7) rfl exTimer_mono
example : runFn (secMeths 7) (timerEnv {}) Src.Timer_elapsed = .ok (pint 0, timerEnv {}) :=
  timer_elapsed_int (secMeths 7) {} 7 _ (secMeths_arith 7) (secMeths_clock 7) rfl
example : timer_remaining_calls (secMeths 7) (timerEnv exTimer) = timer_remaining_calls (secMeths 7) (timerEnv exTimer) := rfl

/-- Consecutive Frames being sent, the STmin timer as above -/
def exState : State := { cfg := default, addr := default, txState := .transmitCf, timerStmin := exTimer }

example : ∃ env : Env, Has env (txAttrs exState) ∧ Has env txConsts ∧ Mono exState.timerStmin 7 ∧
    runFn (cfMeths 7) env Src.TransportLayerLogic_next_cf_delay = .ok (secs 8, env) ∧
    runFn (cfMeths 16) env Src.TransportLayerLogic_next_cf_delay = .ok (pint 0, env) := by
  have h := has_envOf_keys (txAttrs exState ++ txConsts) (txKeys ++ txConsts.map (·.1)) rfl (by decide)
  have hm : Mono exState.timerStmin 16 := by intro s h; cases h; decide
  exact ⟨_, h.append_left, h.append_right, exTimer_mono,
    next_cf_delay_linked exState 7 _ h.append_left h.append_right exTimer_mono,
    next_cf_delay_linked exState 16 _ h.append_left h.append_right hm⟩

/-- not transmitting: `None` -/
example : ∃ env : Env, runFn (cfMeths 7) env Src.TransportLayerLogic_next_cf_delay = .ok (pnone, env) := by
  have h := has_envOf_keys (txAttrs { exState with txState := .waitFc } ++ txConsts) (txKeys ++ txConsts.map (·.1)) rfl (by decide)
  exact ⟨_, next_cf_delay_linked { exState with txState := .waitFc } 7 _ h.append_left h.append_right exTimer_mono⟩

example : nextCfDelay exState 7 ≠ pnone := cfDelayOf_ne_none exState 7 _ rfl (by simp [secs, pnone])

/-- a world for `workerPrims_of_src`: the three entries are the interpreted sources; the two `Timer` methods answer constants in
    ThreadedWorker's integer convention -/
def wBase : Meths where
  fn name args env :=
    match name, args with
    | "self.is_tx_transmitting_cf", [] => retM noMeths env Src.TransportLayerLogic_is_tx_transmitting_cf
    | "self.timer_tx_stmin.is_timed_out", [] => .ok (pbool false)
    | "self.timer_tx_stmin.remaining", [] => .ok (pint 3)
    | _, _ => .error (.unsupported ("call " ++ name))
  proc name _ _ := .error (.unsupported ("call " ++ name))

def wM : Meths where
  fn name args env :=
    match name, args with
    | "self.is_rx_active", [] => retM noMeths env Src.TransportLayerLogic_is_rx_active
    | "self.next_cf_delay", [] => retM wBase env Src.TransportLayerLogic_next_cf_delay
    | "self.is_tx_throttled", [] => .ok (pbool false)
    | n, a => wBase.fn n a env
  proc name args env :=
    match name, args with
    | "self.params.wait_func", [_] => .ok env
    | _, _ => .error (.unsupported ("call " ++ name))

def wR (env : Env) (s : State) : Prop :=
  env "self.rx_state" = some (pubRxStPV s.rxState) ∧ env "self.RxState.IDLE" = some (pubRxStPV .idle) ∧
  env "self.tx_state" = some (txStPV s.txState) ∧ env "self.TxState.TRANSMIT_CF" = some (txStPV .transmitCf)

example (s : State) : wR (accEnv s) s := ⟨rfl, rfl, rfl, rfl⟩

theorem wM_prims : Thr.WorkerPrims wM wR := by
  have hcf : ∀ env s, wR env s → ∀ M : Meths,
      retM M env Src.TransportLayerLogic_is_tx_transmitting_cf = .ok (pbool (decide (s.txState = .transmitCf))) := by
    intro env s h M
    rw [retM, is_tx_transmitting_cf_agrees s M env h.2.2.1 h.2.2.2]; rfl
  have hdelay : ∀ env s, wR env s → ∀ M : Meths,
      M.fn "self.is_tx_transmitting_cf" [] env = retM noMeths env Src.TransportLayerLogic_is_tx_transmitting_cf →
      (∀ env, M.fn "self.timer_tx_stmin.is_timed_out" [] env = .ok (pbool false)) →
      (∀ env, M.fn "self.timer_tx_stmin.remaining" [] env = .ok (pint 3)) →
      retM M env Src.TransportLayerLogic_next_cf_delay = .ok (if decide (s.txState = .transmitCf) then pint 3 else pnone) := by
    intro env s h M a b c
    rw [retM, next_cf_delay_run M env (decide (s.txState = .transmitCf)) false (pint 3) (by rw [a, hcf env s h]) (fun _ => b env)
      (fun _ _ => c env)]
    rfl
  refine workerPrims_of_src (fun _ _ h => h) ?_ ?_ ?_ (fun _ => ⟨false, rfl⟩) (fun _ => ⟨3, rfl⟩) (fun _ _ => rfl) (fun _ => ⟨false, rfl⟩)
  · intro env s h
    show retM noMeths env Src.TransportLayerLogic_is_rx_active = _
    rw [retM, retM, is_rx_active_agrees s noMeths env h.1 h.2.1, is_rx_active_agrees s wM env h.1 h.2.1]
  · intro env s h
    show retM noMeths env Src.TransportLayerLogic_is_tx_transmitting_cf = _
    rw [hcf env s h, hcf env s h]
  · intro env s h
    show retM wBase env Src.TransportLayerLogic_next_cf_delay = _
    rw [hdelay env s h wBase rfl (fun _ => rfl) (fun _ => rfl), hdelay env s h wM rfl (fun _ => rfl) (fun _ => rfl)]

/-- `sleep_time` on an object whose `timings` is shown as an opaque object: interpreter error (not a Python exception) -/
def dictEnv : Env := envOf [("self.rx_state", pubRxStPV .idle), ("self.tx_state", txStPV .idle), ("self.timings", .meth "dict")]
example : runFn noMeths dictEnv Src.TransportLayerLogic_sleep_time = .error (.unsupported "in: right operand is not a list literal") :=
  sleep_time_interp noMeths dictEnv (.enum "RxState" "IDLE") (.enum "TxState" "IDLE") (.meth "dict") rfl rfl rfl
example : (∃ e, runFn noMeths dictEnv Src.TransportLayerLogic_sleep_time = .error e) ∨
    (∃ d env', runFn noMeths dictEnv Src.TransportLayerLogic_sleep_time = .ok (d, env') ∧ noMeths.fn "__float__" [.str "0.001"] env' = .ok d) :=
  sleep_time_dict_outside_subset noMeths dictEnv (.enum "RxState" "IDLE") (.enum "TxState" "IDLE") (.meth "dict") rfl rfl rfl

/-- the two dict operations as callees on the key, for the dict of `__init__` in the state `(IDLE, IDLE)`
    (`20`, `5`, `1` stand for `0.02`, `0.005`, `0.001` in milliseconds) -/
def dictMeths : Meths where
  fn name args _ :=
    match name, args with
    | "timings.__contains__", [_] => .ok (pbool true)
    | "timings.__getitem__", [_] => .ok (pint 20)
    | "__float__", [_] => .ok (pint 1)
    | _, _ => .error (.unsupported ("call " ++ name))
  proc name _ _ := .error (.unsupported ("call " ++ name))

def exIdle : State := { cfg := default, addr := default }

example : ∃ env', runFn dictMeths (accEnv exIdle)
      (sleepSkeleton (.call "timings.__contains__" (.cons (.var "key") .nil)) (.call "timings.__getitem__" (.cons (.var "key") .nil))) =
        .ok (pint 20, env') ∧ ∀ k, k ≠ "key" → env' k = accEnv exIdle k :=
  sleep_skeleton_agrees dictMeths (accEnv exIdle) exIdle (initTimings (pint 20) (pint 5)) (pint 1) _ _ rfl rfl
    (fun env' h => by
      simp only [eval, evalArgs, h, ok_bind, evalBuiltin_none "timings.__contains__" _ (by decide)]
      rfl)
    (fun env' h v hv => by
      have : v = pint 20 := by
        have : (initTimings (pint 20) (pint 5)).lookup (exIdle.rxState, exIdle.txState) = some (pint 20) := rfl
        rw [this] at hv
        exact (Option.some.inj hv).symm
      subst this
      simp only [eval, evalArgs, h, ok_bind, evalBuiltin_none "timings.__getitem__" _ (by decide)]
      rfl)
    (fun _ => rfl)

def rlEnv (mb ws : PV) : Env := envOf [("self.mean_bitrate", mb), ("self.window_size_sec", ws)]

example : runFn (floatMeths pyFloat) (rlEnv (pint 10) (.sc (.py (.float 1 10)))) Src.RateLimiter_can_be_enabled =
    .ok (pbool true, rlEnv (pint 10) (.sc (.py (.float 1 10)))) :=
  can_be_enabled_agrees _ pyFloat (floatMeths_conv _) pyFloat_num (rlEnv (pint 10) (.sc (.py (.float 1 10)))) (pint 10)
    (.sc (.py (.float 1 10))) rfl rfl
example : runFn (floatMeths pyFloat) (rlEnv pnone (pint 1)) Src.RateLimiter_can_be_enabled =
    .ok (pbool false, (rlEnv pnone (pint 1)).set "self.error_reason" (.str "mean_bitrate is not numerical")) :=
  can_be_enabled_agrees _ pyFloat (floatMeths_conv _) pyFloat_num (rlEnv pnone (pint 1)) pnone (pint 1) rfl rfl
example : runFn (floatMeths pyFloat) (rlEnv (pint 10) (pint 0)) Src.RateLimiter_can_be_enabled =
    .ok (pbool false, (rlEnv (pint 10) (pint 0)).set "self.error_reason" (.str "window_size_sec must be greater than 0")) :=
  can_be_enabled_agrees _ pyFloat (floatMeths_conv _) pyFloat_num (rlEnv (pint 10) (pint 0)) (pint 10) (pint 0) rfl rfl
example : runFn (floatMeths pyFloat) (rlEnv (.sc (.py .nan)) (.sc (.py (.float 1 10)))) Src.RateLimiter_can_be_enabled =
    .ok (pbool true, rlEnv (.sc (.py .nan)) (.sc (.py (.float 1 10)))) :=
  can_be_enabled_nan (rlEnv (.sc (.py .nan)) (.sc (.py (.float 1 10)))) rfl rfl
example : canReason pyFloat (pint 10) (pint 1) = none ∧ canReason pyFloat (.sc (.py .nan)) (pint 1) = none ∧
    canReason pyFloat (pint 0) (pint 1) = some "mean_bitrate must be greater than 0" := ⟨rfl, rfl, rfl⟩

example : runFn noMeths (envOf [("mean_bitrate", pint 5)]) Src.RateLimiter_set_bitrate =
    .ok (pnone, (envOf [("mean_bitrate", pint 5)]).set "self.mean_bitrate" (pint 5)) :=
  set_bitrate_agrees noMeths _ _ rfl

example (m : CanMsg) : run2 4 (relayMeths pyCanObj [some m, none]) (envOf [("timeout", pint 1)]) Src.TransportLayer_p_read_relay_queue =
    .ok (.ret (pyCanObj m) (envOf [("timeout", pint 1)])) :=
  read_relay_queue_agrees pyCanObj _ _ (pint 1) 4 rfl (by decide)
example : run2 4 (relayMeths pyCanObj []) (envOf [("timeout", pint 1)]) Src.TransportLayer_p_read_relay_queue =
    .ok (.ret pnone (envOf [("timeout", pint 1)])) :=
  read_relay_queue_agrees pyCanObj _ _ (pint 1) 4 rfl (by decide)
/-- the fuel bound is tight -/
example : run2 3 (relayMeths pyCanObj []) (envOf [("timeout", pint 1)]) Src.TransportLayer_p_read_relay_queue = .error .outOfFuel := rfl

/-- a `get` that raises something else -/
def badGet : Meths where
  fn _ _ _ := .error (.exc .ValueError)
  proc _ _ _ := .error (.exc .ValueError)
example : run2 4 badGet (envOf [("timeout", pint 1)]) Src.TransportLayer_p_read_relay_queue =
    .ok (.raised "ValueError" (envOf [("timeout", pint 1)])) :=
  read_relay_queue_other_exc badGet _ (pint 1) 4 .ValueError rfl (by decide) rfl

/-- a started `NotifierBasedCanStack` (reader registered), nothing consumed yet -/
def nbEnv (reader : Bool) : Env :=
  envOf [("self.buffered_reader", if reader then .meth "BufferedReader" else pnone), ("#listeners", pint 1),
    ("self.buffered_reader.get_message", .meth "get_message"), ("timeout", pint 1), ("#bus_pos", pint 0)]

example (reader : Bool) : Thr.NbShows (nbEnv reader) reader 1 := by cases reader <;> exact ⟨rfl, rfl⟩

example (R : List PV → Env → Except PErr PV) (reader : Bool) :
    runFn (rxCanbusMeths R) (nbEnv reader) Src.NotifierBasedCanStack_p_rx_canbus =
      if reader then (R [.meth "get_message", pint 1] (nbEnv reader)).map (fun v => (v, nbEnv reader)) else .ok (pnone, nbEnv reader) :=
  nb_rx_canbus_shows R _ reader 1 _ _ (by cases reader <;> exact ⟨rfl, rfl⟩) (by cases reader <;> rfl) (by cases reader <;> rfl)

example (clock : Nat → Int) (rest : List (Option PyCanMsg)) (reader : Bool) :
    runFn (rxCanbusMeths (readFnOfSrc ([] ++ rest) clock pyCanCtor ((firstUsable rest).2 + 9))) (nbEnv reader)
        Src.NotifierBasedCanStack_p_rx_canbus =
      .ok (if reader then optObj pyCanObj (firstUsable rest).1 else pnone, nbEnv reader) :=
  nb_rx_canbus_linked clock pyCanCtor pyCanObj pyCanCtor_args pyCanObj_ne_none [] rest _ reader 1 (.meth "get_message") 1 _
    (by cases reader <;> exact ⟨rfl, rfl⟩) (by cases reader <;> rfl) (by cases reader <;> rfl) (by cases reader <;> rfl) (Nat.le_refl _)

end Isotp.PyAgree.Small

#print axioms Isotp.PyAgree.Small.is_rx_active_agrees
#print axioms Isotp.PyAgree.Small.is_tx_transmitting_cf_agrees
#print axioms Isotp.PyAgree.Small.is_rx_active_agrees_has
#print axioms Isotp.PyAgree.Small.is_tx_transmitting_cf_agrees_has
#print axioms Isotp.PyAgree.Small.timer_remaining_calls
#print axioms Isotp.PyAgree.Small.timer_remaining_agrees
#print axioms Isotp.PyAgree.Small.timer_remaining_linked
#print axioms Isotp.PyAgree.Small.timer_elapsed_int
#print axioms Isotp.PyAgree.Small.timer_elapsed_agrees
#print axioms Isotp.PyAgree.Small.next_cf_delay_run
#print axioms Isotp.PyAgree.Small.next_cf_delay_agrees
#print axioms Isotp.PyAgree.Small.cfDelayOf_ne_none
#print axioms Isotp.PyAgree.Small.next_cf_delay_linked
#print axioms Isotp.PyAgree.Small.workerPrims_of_src
#print axioms Isotp.PyAgree.Small.delay_gt_zero_secs
#print axioms Isotp.PyAgree.Small.sleep_time_src
#print axioms Isotp.PyAgree.Small.sleep_time_key
#print axioms Isotp.PyAgree.Small.sleep_time_interp
#print axioms Isotp.PyAgree.Small.sleep_time_dict_outside_subset
#print axioms Isotp.PyAgree.Small.sleepTimeOf_init
#print axioms Isotp.PyAgree.Small.sleep_skeleton_agrees
#print axioms Isotp.PyAgree.Small.evalCmp_le_zero
#print axioms Isotp.PyAgree.Small.can_be_enabled_agrees
#print axioms Isotp.PyAgree.Small.canReason_none_iff
#print axioms Isotp.PyAgree.Small.can_be_enabled_nan
#print axioms Isotp.PyAgree.Small.set_bitrate_agrees
#print axioms Isotp.PyAgree.Small.read_relay_queue_run
#print axioms Isotp.PyAgree.Small.read_relay_queue_agrees
#print axioms Isotp.PyAgree.Small.relayRead_none_iff
#print axioms Isotp.PyAgree.Small.read_relay_queue_other_exc
#print axioms Isotp.PyAgree.Small.read_relay_queue_first_semantics
#print axioms Isotp.PyAgree.Small.nb_rx_canbus_agrees
#print axioms Isotp.PyAgree.Small.nb_rx_canbus_shows
#print axioms Isotp.PyAgree.Small.nb_rx_canbus_linked
#print axioms Isotp.PyAgree.Small.wM_prims
