import Isotp.Proofs.Pad
import Isotp.Process
/-
  Helper lemmas for C02 / C17: shape of the reference segmentation, the request as a byte stream,
  equational descriptions of `startTx` / `transmitCf`, the transmit progress invariant and its
  preservation by `processTx` and by the other public operations.
-/
namespace Isotp.Proofs
open Isotp Isotp.Spec

/-! ### shape of `Spec.chunks`, `Spec.cfFrames`, `Spec.segment` -/

theorem chunksAux_getElem? (k : Nat) (hk : 1 ≤ k) (f : Nat) : ∀ (l : Bytes) (i : Nat), l.length ≤ f →
    (chunksAux k f l)[i]? = if i * k < l.length then some ((l.drop (i * k)).take k) else none := by
  induction f with
  | zero =>
    intro l i hl
    have : l.length = 0 := by omega
    simp [chunksAux, this]
  | succ f ih =>
    intro l i hl
    unfold chunksAux
    by_cases he : l.isEmpty = true
    · have : l.length = 0 := by simpa using he
      simp [he, this]
    · have hpos : 0 < l.length := by
        cases l with
        | nil => simp at he
        | cons => simp
      simp only [he, Bool.false_eq_true, if_false]
      cases i with
      | zero => simp [hpos]
      | succ j =>
        rw [List.getElem?_cons_succ, ih (l.drop k) j (by simp; omega)]
        rw [Nat.succ_mul, List.length_drop, List.drop_drop]
        have e : k + j * k = j * k + k := by omega
        rw [e]
        by_cases h : j * k + k < l.length
        · rw [if_pos h, if_pos (by omega)]
        · rw [if_neg h, if_neg (by omega)]

theorem chunks_getElem? (k : Nat) (hk : 1 ≤ k) (l : Bytes) (i : Nat) :
    (chunks k l)[i]? = if i * k < l.length then some ((l.drop (i * k)).take k) else none :=
  chunksAux_getElem? k hk l.length l i (Nat.le_refl _)

theorem cfFrames_getElem? (c : TxCfg) (ds : List Bytes) : ∀ (sn i : Nat),
    (cfFrames c sn ds)[i]? =
      ds[i]?.map (fun d => padFrame c (c.pre ++ [UInt8.ofNat (0x20 + (sn + i) % 16)] ++ d)) := by
  induction ds with
  | nil => intro sn i; simp [cfFrames]
  | cons d ds ih =>
    intro sn i
    cases i with
    | zero => simp [cfFrames]
    | succ j =>
      simp only [cfFrames, List.getElem?_cons_succ, ih]
      have : sn + 1 + j = sn + (j + 1) := by omega
      rw [this]


/-- a payload of `n` bytes needs a First Frame -/
def NeedsFF (tc : TxCfg) (n : Nat) : Prop := ¬ sfShort tc n ∧ ¬ sfEscape tc n

instance (tc : TxCfg) (n : Nat) : Decidable (NeedsFF tc n) := inferInstanceAs (Decidable (_ ∧ _))

/-- number of values `startTx` pulls for frame 0: the whole payload for a Single Frame, else the First Frame part -/
def firstPull (tc : TxCfg) (n : Nat) : Nat := if NeedsFF tc n then ffRoom tc n else n

theorem sfShort_iff (tc : TxCfg) (n : Nat) :
    sfShort tc n ↔ tc.pre.length + 1 + n ≤ 8 ∧ floorLen tc ≤ 8 := by
  unfold sfShort padTarget
  have := leastLegal_spec (max (tc.pre.length + 1 + n) (floorLen tc))
  omega

theorem ffRoom_lt (tc : TxCfg) (n : Nat) (h : NeedsFF tc n) (hv : ValidTx tc) : ffRoom tc n < n := by
  obtain ⟨h1, h2⟩ := h
  have := txDl_fix tc hv
  have := hv.pre
  have h2' : ¬ (tc.pre.length + 2 + n ≤ tc.txDl) := fun hh => h2 ⟨h1, hh⟩
  unfold ffRoom
  split <;> omega

theorem cfRoom_pos (tc : TxCfg) (hv : ValidTx tc) : 1 ≤ cfRoom tc := by
  have := txDl_fix tc hv
  have := hv.pre
  unfold cfRoom; omega

theorem segment_sfShort (tc : TxCfg) (p : Bytes) (h : sfShort tc p.length) :
    segment tc p = [padFrame tc (tc.pre ++ [UInt8.ofNat p.length] ++ p)] := by
  simp [segment, h]

theorem segment_sfEscape (tc : TxCfg) (p : Bytes) (h : sfEscape tc p.length) :
    segment tc p = [padFrame tc (tc.pre ++ [0x00, UInt8.ofNat p.length] ++ p)] := by
  have h1 := h.1
  simp [segment, h, h1]

theorem segment_ff (tc : TxCfg) (p : Bytes) (h : NeedsFF tc p.length) :
    segment tc p = padFrame tc (tc.pre ++ ffHeader p.length ++ p.take (ffRoom tc p.length))
      :: cfFrames tc 1 (chunks (cfRoom tc) (p.drop (ffRoom tc p.length))) := by
  simp [segment, h.1, h.2]

theorem segment_ff_zero (tc : TxCfg) (p : Bytes) (h : NeedsFF tc p.length) :
    (segment tc p)[0]? = some (padFrame tc (tc.pre ++ ffHeader p.length ++ p.take (ffRoom tc p.length))) := by
  rw [segment_ff tc p h]; rfl

theorem carried_succ (tc : TxCfg) (n j : Nat) : carried tc n (j + 1) = min n (ffRoom tc n + j * cfRoom tc) := by
  simp [carried]

/-- the `k`-th frame (k ≥ 1) of a segmented payload is the Consecutive Frame numbered `k mod 16`
    carrying the next `cfRoom` bytes after the `carried k` already sent, if any are left -/
theorem segment_ff_succ (tc : TxCfg) (hv : ValidTx tc) (p : Bytes) (h : NeedsFF tc p.length) (k : Nat) (hk : 1 ≤ k) :
    (segment tc p)[k]? =
      if carried tc p.length k < p.length then
        some (padFrame tc (tc.pre ++ [UInt8.ofNat (0x20 + k % 16)] ++ (p.drop (carried tc p.length k)).take (cfRoom tc)))
      else none := by
  obtain ⟨j, rfl⟩ : ∃ j, k = j + 1 := ⟨k - 1, by omega⟩
  have hlt := ffRoom_lt tc p.length h hv
  rw [segment_ff tc p h, List.getElem?_cons_succ, cfFrames_getElem?, chunks_getElem? _ (cfRoom_pos tc hv),
    carried_succ, List.length_drop, List.drop_drop]
  have e : 1 + j = j + 1 := by omega
  by_cases hc : j * cfRoom tc < p.length - ffRoom tc p.length
  · rw [if_pos hc, if_pos (by omega), Nat.min_eq_right (by omega), e]; rfl
  · rw [if_neg hc, if_neg (by omega)]; rfl

theorem carried_step (tc : TxCfg) (n k : Nat) (hk : 1 ≤ k) (hlt : carried tc n k < n) :
    carried tc n (k + 1) = min n (carried tc n k + cfRoom tc) := by
  obtain ⟨j, rfl⟩ : ∃ j, k = j + 1 := ⟨k - 1, by omega⟩
  rw [carried_succ] at hlt ⊢
  rw [carried_succ, Nat.succ_mul]
  omega

/-! ### the request as a byte stream -/

/-- request `r` is streaming payload `p`: declared size `|p|`, `r.consumed` values already pulled, and what the
    generator still yields agrees with the rest of `p` — as far as it goes: a generator that ends early is allowed
    (`p` is then any completion of what it yields to the declared size) -/
structure Feeds (r : Req) (p : Bytes) : Prop where
  size : r.size = p.length
  le : r.consumed ≤ r.size
  src : r.src.take (r.size - r.consumed) <+: p.drop r.consumed
  flag : r.depletedFlag = false

theorem consume_ok (r : Req) (n : Nat) (e : Bool) (hle : r.consumed ≤ r.size) (hn : n ≤ r.remaining)
    (hs : n ≤ r.src.length) :
    r.consume n e = ({ r with src := r.src.drop n, consumed := r.consumed + n }, some (r.src.take n)) := by
  simp only [Req.remaining] at hn
  unfold Req.consume
  have hl : (r.src.take n).length = n := by rw [List.length_take]; omega
  simp only [hl]
  rw [if_neg (by omega), if_neg (by omega)]

theorem prefix_take {α : Type} {a b : List α} (h : a <+: b) (n : Nat) (hn : n ≤ a.length) : a.take n = b.take n := by
  obtain ⟨t, rfl⟩ := h
  rw [List.take_append_of_le_length hn]

theorem prefix_drop {α : Type} {a b : List α} (h : a <+: b) (n : Nat) (hn : n ≤ a.length) : a.drop n <+: b.drop n := by
  obtain ⟨t, rfl⟩ := h
  rw [List.drop_append_of_le_length hn]
  exact List.prefix_append _ _

theorem Feeds.consume {r : Req} {p : Bytes} (h : Feeds r p) (n : Nat) (e : Bool) (hn : n ≤ r.remaining)
    (hs : n ≤ r.src.length) :
    r.consume n e = ({ r with src := r.src.drop n, consumed := r.consumed + n },
                      some ((p.drop r.consumed).take n)) ∧
    Feeds { r with src := r.src.drop n, consumed := r.consumed + n } p := by
  have hle := h.le
  have hn' : n ≤ r.size - r.consumed := by simpa only [Req.remaining] using hn
  have hlen : n ≤ (r.src.take (r.size - r.consumed)).length := by rw [List.length_take]; omega
  constructor
  · rw [consume_ok r n e h.le hn hs, ← prefix_take h.src n hlen, List.take_take, Nat.min_eq_left hn']
  · refine ⟨h.size, by simp only; omega, ?_, h.flag⟩
    simp only
    have := prefix_drop h.src n hlen
    rw [List.drop_take, List.drop_drop] at this
    have e1 : r.size - (r.consumed + n) = r.size - r.consumed - n := by omega
    rw [e1]
    exact this

open Isotp.State

/-- the pull event logged for an instrumented generator -/
def pullLog (r : Req) (n : Nat) : List Ev := if r.instr && n > 0 then [Ev.pull r.id n] else []

/-- `r` advanced by `n` pulled values -/
def Req.adv (r : Req) (n : Nat) : Req := { r with src := r.src.drop n, consumed := r.consumed + n }

theorem consumeActive_ok (s : State) (r : Req) (n : Nat) (e : Bool) (p : Bytes) (h : Feeds r p)
    (hn : n ≤ r.remaining) (hs : n ≤ r.src.length) :
    s.consumeActive r n e =
      ({ s with active := some (Req.adv r n), log := pullLog r n ++ s.log }, Req.adv r n,
        some ((p.drop r.consumed).take n)) := by
  unfold consumeActive
  rw [(h.consume n e hn hs).1]
  simp only [Req.adv, pullLog, Nat.add_sub_cancel_left]
  split <;> simp [emit]

/-- `tx_data_min_length > 8` (the `bigMin` flag of `startTx`) -/
def bigMin (c : Cfg) : Bool := match c.txMinLen with | some m => m > 8 | none => false

/-- restates the anonymous `match` inside `startTx` as `bigMin` (the two `match`es compile to different
    auxiliary matchers, so `simp` needs this bridge) -/
theorem startTx_match_bigMin (c : Cfg) :
    State.startTx.match_1 (fun _ => Bool) c.txMinLen (fun m => decide (m > 8)) (fun _ => false) = bigMin c := by
  unfold bigMin; cases c.txMinLen <;> rfl

theorem sizeOnFirst_eq (c : Cfg) (a : Addr) (n : Nat) :
    (decide (n + a.tx.txPrefix.length ≤ 7) && !(bigMin c)) = decide (sfShort (TxCfg.of c a) n) := by
  rw [Bool.eq_iff_iff]
  simp only [bigMin, Bool.and_eq_true, decide_eq_true_eq, Bool.not_eq_true', sfShort_iff, floorLen, TxCfg.of]
  cases c.txMinLen with
  | none =>
    have h8 : ∀ (P : Prop) [Decidable P], (if P then 8 else 0) ≤ 8 := by intro P _; split <;> omega
    simp only [h8, and_true]; omega
  | some m => simp only [decide_eq_false_iff_not]; omega

theorem ite_or {α : Type} (c : Prop) [Decidable c] (a b a' b' : α) (ha : a = a') (hb : b = b') :
    (if c then a else b) = b' ∨ (if c then a else b) = a' := by
  subst ha hb; by_cases h : c <;> simp [h]

theorem ite_or' {α : Type} (c : Prop) [Decidable c] (a b a' b' : α) (ha : a = a') (hb : b = b') :
    (if c then a else b) = a' ∨ (if c then a else b) = b' := by
  subst ha hb; by_cases h : c <;> simp [h]

theorem u8_eq (n : Nat) : u8 n = UInt8.ofNat n := rfl

theorem startTx_sf (s : State) (r : Req) (allowed : Nat) (p : Bytes) (hv : s.cfg.valid = true)
    (hf : Feeds r p) (h0 : r.consumed = 0) (h1 : 1 ≤ p.length) (hen : p.length ≤ r.src.length)
    (hsf : sfShort (TxCfg.of s.cfg s.addr) p.length ∨ sfEscape (TxCfg.of s.cfg s.addr) p.length) :
    ∃ d0, segment (TxCfg.of s.cfg s.addr) p = [d0] ∧
      (s.startTx r allowed =
          (({ s with active := some (Req.adv r p.length), log := pullLog r p.length ++ s.log } : State).stopSending true,
            some (frameMsg s.cfg s.addr (s.addr.tx.txId r.tat) d0)) ∨
       s.startTx r allowed =
          ({ s with active := some (Req.adv r p.length), log := pullLog r p.length ++ s.log,
                    standby := some (frameMsg s.cfg s.addr (s.addr.tx.txId r.tat) d0), txState := .sfStandby }, none)) := by
  have hvt := valid_of s.cfg s.addr hv
  have hdl := txDl_fix _ hvt
  have hpre := hvt.pre
  have hsz := hf.size
  have hrem : r.size ≤ r.remaining := by simp [Req.remaining, h0]
  have hca := consumeActive_ok s r r.size true p hf hrem (by rw [hf.size]; exact hen)
  rw [h0, List.drop_zero, hsz, List.take_length] at hca
  unfold startTx
  simp only [txPrefixLen, Req.remaining, h0, Nat.sub_zero, startTx_match_bigMin, sizeOnFirst_eq, hsz]
  rcases hsf with hs | hs
  · have hs' := (sfShort_iff _ _).mp hs
    simp only [TxCfg.of] at hs' hdl hpre
    simp only [hs, decide_true, if_true]
    rw [if_pos (by omega), hca]
    simp only []
    rw [makeTxMsg_eq _ _ hv _ _ (by simp; omega) (by simp; omega)]
    refine ⟨_, segment_sfShort _ p hs, ?_⟩
    simp only [u8_eq, TxCfg.of]
    apply ite_or <;> rfl
  · have hs1 := hs.1
    have hs2 := hs.2
    simp only [TxCfg.of] at hs2 hdl hpre
    simp only [hs1, decide_false, Bool.false_eq_true, if_false]
    rw [if_pos (by omega), hca]
    simp only []
    rw [makeTxMsg_eq _ _ hv _ _ (by simp; omega) (by simp; omega)]
    refine ⟨_, segment_sfEscape _ p hs, ?_⟩
    simp only [u8_eq, TxCfg.of]
    apply ite_or <;> rfl


theorem ffHeader_eq (n : Nat) (hn : n < 4294967296) :
    (if n ≤ 4095 then [u8 (0x10 + n / 256 % 16), u8 (n % 256)]
      else [0x10, 0x00, u8 (n / 16777216 % 256), u8 (n / 65536 % 256), u8 (n / 256 % 256), u8 (n % 256)])
      = ffHeader n := by
  unfold ffHeader be32
  split
  · have : n / 256 % 16 = n / 256 := by omega
    rw [this]; rfl
  · rfl

theorem startTx_ff (s : State) (r : Req) (allowed : Nat) (p : Bytes) (hv : s.cfg.valid = true)
    (hf : Feeds r p) (h0 : r.consumed = 0) (hn : p.length < 4294967296)
    (hff : NeedsFF (TxCfg.of s.cfg s.addr) p.length) (hen : ffRoom (TxCfg.of s.cfg s.addr) p.length ≤ r.src.length) :
    ∃ d0, (segment (TxCfg.of s.cfg s.addr) p)[0]? = some d0 ∧
      (s.startTx r allowed =
          ({ s with active := some (Req.adv r (ffRoom (TxCfg.of s.cfg s.addr) p.length)),
                    log := pullLog r (ffRoom (TxCfg.of s.cfg s.addr) p.length) ++ s.log,
                    txFrameLen := p.length, txSeq := 1, txState := .waitFc,
                    timerFc := { start := some s.now, timeout := s.cfg.tFc } },
            some (frameMsg s.cfg s.addr (s.addr.tx.txId .physical) d0)) ∨
       s.startTx r allowed =
          ({ s with active := some (Req.adv r (ffRoom (TxCfg.of s.cfg s.addr) p.length)),
                    log := pullLog r (ffRoom (TxCfg.of s.cfg s.addr) p.length) ++ s.log,
                    txFrameLen := p.length, txSeq := 1, txState := .ffStandby,
                    standby := some (frameMsg s.cfg s.addr (s.addr.tx.txId .physical) d0) }, none)) := by
  have hvt := valid_of s.cfg s.addr hv
  have hdl := txDl_fix _ hvt
  have hpre := hvt.pre
  have hsz := hf.size
  have hlt := ffRoom_lt _ _ hff hvt
  have hrem : ffRoom (TxCfg.of s.cfg s.addr) p.length ≤ r.remaining := by simp [Req.remaining, h0, hsz]; omega
  have hca := consumeActive_ok { s with txFrameLen := p.length } r _ true p hf hrem hen
  rw [h0, List.drop_zero] at hca
  obtain ⟨hs1, hs2⟩ := hff
  have hs2' : ¬ (s.addr.tx.txPrefix.length + 2 + p.length ≤ s.cfg.txDl) := fun hh => hs2 ⟨hs1, hh⟩
  unfold startTx
  simp only [txPrefixLen, Req.remaining, h0, Nat.sub_zero, startTx_match_bigMin, sizeOnFirst_eq, hsz]
  simp only [hs1, decide_false, Bool.false_eq_true, if_false]
  rw [if_neg (by omega)]
  have hroom : (if p.length ≤ 4095 then s.cfg.txDl - 2 - s.addr.tx.txPrefix.length
      else s.cfg.txDl - 6 - s.addr.tx.txPrefix.length) = ffRoom (TxCfg.of s.cfg s.addr) p.length := rfl
  simp only [hroom, ffHeader_eq _ hn]
  rw [hca]
  simp only []
  have hffl : (ffHeader p.length).length + ffRoom (TxCfg.of s.cfg s.addr) p.length + s.addr.tx.txPrefix.length
      = s.cfg.txDl := by
    simp only [TxCfg.of] at hdl hpre
    unfold ffHeader ffRoom be32
    simp only [TxCfg.of]
    split <;> simp <;> omega
  have hlen : (s.addr.tx.txPrefix ++ ffHeader p.length ++ p.take (ffRoom (TxCfg.of s.cfg s.addr) p.length)).length
      = s.cfg.txDl := by
    simp only [List.length_append, List.length_take]
    omega
  have hdl8 := hdl.2.1
  simp only [TxCfg.of] at hdl8
  rw [makeTxMsg_eq _ _ hv _ _ (by rw [hlen]; omega) (by rw [hlen]; exact Nat.le_refl _)]
  refine ⟨_, segment_ff_zero _ p ⟨hs1, hs2⟩, ?_⟩
  simp only [startRxFcTimer]
  apply ite_or' <;> rfl


/-- state after a Consecutive Frame carrying `m` fresh bytes of request `r` has been built -/
def cfSent (s : State) (r : Req) (m : Nat) : State :=
  { s with active := some (Req.adv r m), log := pullLog r m ++ s.log, txSeq := (s.txSeq + 1) % 16,
           timerStmin := s.timerStmin.startAt s.now, txBlockCnt := s.txBlockCnt + 1 }

theorem transmitCf_eq (s : State) (allowed : Nat) (p : Bytes) (k : Nat) (r : Req) (rbs : Nat)
    (hv : s.cfg.valid = true) (hact : s.active = some r) (hbs : s.remoteBs = some rbs) (hf : Feeds r p)
    (hk : 1 ≤ k) (hff : NeedsFF (TxCfg.of s.cfg s.addr) p.length)
    (hc : r.consumed = carried (TxCfg.of s.cfg s.addr) p.length k) (hlt : r.consumed < p.length)
    (hseq : s.txSeq = k % 16)
    (hen : min (cfRoom (TxCfg.of s.cfg s.addr)) (p.length - r.consumed) ≤ r.src.length) :
    ∃ d, (segment (TxCfg.of s.cfg s.addr) p)[k]? = some d ∧
      (s.transmitCf allowed = (s, none, false) ∨
       (carried (TxCfg.of s.cfg s.addr) p.length (k + 1) = p.length ∧
         s.transmitCf allowed =
          ((cfSent s r (min (cfRoom (TxCfg.of s.cfg s.addr)) (p.length - r.consumed))).stopSending true,
           some (frameMsg s.cfg s.addr (s.addr.tx.txId .physical) d), false)) ∨
       (carried (TxCfg.of s.cfg s.addr) p.length (k + 1) < p.length ∧
         s.transmitCf allowed =
          ({ cfSent s r (min (cfRoom (TxCfg.of s.cfg s.addr)) (p.length - r.consumed)) with
              txState := .waitFc, timerFc := { start := some s.now, timeout := s.cfg.tFc } },
           some (frameMsg s.cfg s.addr (s.addr.tx.txId .physical) d), true)) ∨
       (carried (TxCfg.of s.cfg s.addr) p.length (k + 1) < p.length ∧
         s.transmitCf allowed =
          (cfSent s r (min (cfRoom (TxCfg.of s.cfg s.addr)) (p.length - r.consumed)),
           some (frameMsg s.cfg s.addr (s.addr.tx.txId .physical) d), false))) := by
  have hvt := valid_of s.cfg s.addr hv
  have hdl := txDl_fix _ hvt
  have hpre := hvt.pre
  have hsz := hf.size
  have hroom := cfRoom_pos _ hvt
  have hstep := carried_step (TxCfg.of s.cfg s.addr) p.length k hk (by omega)
  rw [segment_ff_succ _ hvt p hff k hk, if_pos (by omega)]
  refine ⟨_, rfl, ?_⟩
  unfold transmitCf
  rw [hbs, hact]
  simp only []
  by_cases hto : s.timerStmin.timedOut s.now = true
  · rw [if_pos hto]
    have hrm : r.remaining = p.length - r.consumed := by simp [Req.remaining, hsz]
    have hroom' : s.cfg.txDl - 1 - s.txPrefixLen = cfRoom (TxCfg.of s.cfg s.addr) := rfl
    simp only [hroom', hrm]
    by_cases hal : min (cfRoom (TxCfg.of s.cfg s.addr)) (p.length - r.consumed) ≤ allowed
    · rw [if_pos hal]
      have hca := consumeActive_ok s r (min (cfRoom (TxCfg.of s.cfg s.addr)) (p.length - r.consumed)) false p hf
        (by rw [hrm]; omega) hen
      rw [hca]
      simp only []
      generalize hm : min (cfRoom (TxCfg.of s.cfg s.addr)) (p.length - r.consumed) = m at *
      have hpl : ((p.drop r.consumed).take m).length = m := by simp; omega
      have htake : (p.drop r.consumed).take m = (p.drop r.consumed).take (cfRoom (TxCfg.of s.cfg s.addr)) := by
        rw [List.take_eq_take_iff, List.length_drop]; omega
      have hm0 : m > 0 := by omega
      simp only [hpl, if_pos hm0]
      simp only [TxCfg.of] at hdl hpre
      have hcr : cfRoom (TxCfg.of s.cfg s.addr) = s.cfg.txDl - 1 - s.addr.tx.txPrefix.length := rfl
      rw [makeTxMsg_eq _ _ hv _ _ (by simp [hpl]; omega) (by simp [hpl]; omega)]
      simp only [Bool.false_eq_true, if_false]
      have hdata : s.addr.tx.txPrefix ++ [u8 (32 + s.txSeq)] ++ List.take m (List.drop r.consumed p) =
          (TxCfg.of s.cfg s.addr).pre ++ [UInt8.ofNat (32 + k % 16)] ++
            List.take (cfRoom (TxCfg.of s.cfg s.addr)) (List.drop (carried (TxCfg.of s.cfg s.addr) p.length k) p) := by
        rw [hseq, htake, hc]; rfl
      rw [hdata]
      have hflag := hf.flag
      have hdep : (Req.adv r m).depleted = decide (p.length ≤ r.consumed + m) := by
        simp [Req.depleted, Req.adv, hflag, hsz]
      have hrem' : (Req.adv r m).remaining = p.length - (r.consumed + m) := by
        simp [Req.remaining, Req.adv, hsz]
      rw [hdep, hrem']
      by_cases hfin : p.length ≤ r.consumed + m
      · right; left
        refine ⟨by omega, ?_⟩
        simp only [hfin, decide_true, if_true]
        rw [if_neg (by omega)]
        rfl
      · right; right
        simp only [hfin, decide_false, Bool.false_eq_true, if_false]
        by_cases hb : (decide (rbs ≠ 0) && decide (s.txBlockCnt + 1 ≥ rbs)) = true
        · left
          refine ⟨by omega, ?_⟩
          rw [if_pos hb]; rfl
        · right
          refine ⟨by omega, ?_⟩
          rw [if_neg hb]; rfl
    · rw [if_neg hal]; left; rfl
  · rw [if_neg hto]; left; rfl

@[simp] theorem stopSending_cfg (s : State) (b : Bool) : (s.stopSending b).cfg = s.cfg := by
  unfold stopSending; cases s.active <;> rfl
@[simp] theorem stopSending_addr (s : State) (b : Bool) : (s.stopSending b).addr = s.addr := by
  unfold stopSending; cases s.active <;> rfl
@[simp] theorem stopSending_exc (s : State) (b : Bool) : (s.stopSending b).exc = s.exc := by
  unfold stopSending; cases s.active <;> rfl
@[simp] theorem stopSending_txState (s : State) (b : Bool) : (s.stopSending b).txState = .idle := by
  unfold stopSending; cases s.active <;> rfl
@[simp] theorem stopSending_active (s : State) (b : Bool) : (s.stopSending b).active = none := by
  unfold stopSending; cases h : s.active <;> simp [h]
@[simp] theorem stopSending_standby (s : State) (b : Bool) : (s.stopSending b).standby = none := by
  unfold stopSending; cases s.active <;> rfl
@[simp] theorem stopSending_txQueue (s : State) (b : Bool) : (s.stopSending b).txQueue = s.txQueue := by
  unfold stopSending; cases s.active <;> rfl
theorem stopSending_log (s : State) (b : Bool) (r : Req) (h : s.active = some r) :
    (s.stopSending b).log = Ev.done r.id b :: s.log := by
  unfold stopSending; rw [h]; rfl

@[simp] theorem stopSending_now (s : State) (b : Bool) : (s.stopSending b).now = s.now := by
  unfold stopSending; cases s.active <;> rfl


/-! ### generators that end early -/

/-- `r` after a pull that hit the end of the generator -/
def Req.drained (r : Req) : Req :=
  { r with src := [], consumed := r.consumed + r.src.length, depletedFlag := true }

theorem consume_short (r : Req) (n : Nat) (e : Bool) (hle : r.consumed ≤ r.size) (hn : n ≤ r.remaining)
    (hs : r.src.length < n) :
    r.consume n e = (Req.drained r, if e then none else some r.src) := by
  simp only [Req.remaining] at hn
  unfold Req.consume
  have ht : r.src.take n = r.src := List.take_of_length_le (by omega)
  have hd : r.src.drop n = [] := List.drop_eq_nil_of_le (by omega)
  simp only [ht, hd]
  rw [if_neg (by omega), if_pos hs]
  cases e <;> rfl

theorem consumeActive_short (s : State) (r : Req) (n : Nat) (e : Bool) (hle : r.consumed ≤ r.size)
    (hn : n ≤ r.remaining) (hs : r.src.length < n) :
    s.consumeActive r n e =
      ({ s with active := some (Req.drained r), log := pullLog r r.src.length ++ s.log }, Req.drained r,
        if e then none else some r.src) := by
  unfold consumeActive
  rw [consume_short r n e hle hn hs]
  simp only [Req.drained, pullLog, Nat.add_sub_cancel_left]
  split <;> simp [emit]

/-- the transfer of `r` was aborted because its generator ended early: what was left has been pulled, then
    `BadGeneratorError` is reported, the request completed with failure and the FSM idle -/
structure BadGen (s s' : State) (r : Req) : Prop where
  cfg : s'.cfg = s.cfg
  addr : s'.addr = s.addr
  exc : s'.exc = s.exc
  txState : s'.txState = .idle
  active : s'.active = none
  standby : s'.standby = none
  txQueue : s'.txQueue = s.txQueue
  log : s'.log = Ev.done r.id false :: Ev.err s.now .BadGenerator :: (pullLog r r.src.length ++ s.log)

theorem BadGen.mk' (s1 : State) (s : State) (r : Req) (h1 : s1.cfg = s.cfg) (h2 : s1.addr = s.addr) (h3 : s1.exc = s.exc)
    (h4 : s1.txQueue = s.txQueue) (h5 : s1.now = s.now) (h6 : s1.active = some (Req.drained r))
    (h7 : s1.log = pullLog r r.src.length ++ s.log) :
    BadGen s ((s1.error .BadGenerator).stopSending false) r := by
  refine ⟨by simp [State.error, emit, h1], by simp [State.error, emit, h2], by simp [State.error, emit, h3], by simp,
    by simp, by simp, by simp [State.error, emit, h4], ?_⟩
  rw [stopSending_log _ _ (Req.drained r) (by simp [State.error, emit, h6])]
  simp [State.error, emit, h5, h7, Req.drained]

theorem startTx_short (s : State) (r : Req) (allowed : Nat) (p : Bytes) (hv : s.cfg.valid = true)
    (hf : Feeds r p) (h0 : r.consumed = 0)
    (hs : r.src.length < firstPull (TxCfg.of s.cfg s.addr) p.length) :
    (s.startTx r allowed).2 = none ∧ BadGen s (s.startTx r allowed).1 r := by
  have hvt := valid_of s.cfg s.addr hv
  have hdl := txDl_fix _ hvt
  have hpre := hvt.pre
  have hsz := hf.size
  have hle := hf.le
  unfold startTx
  simp only [txPrefixLen, Req.remaining, h0, Nat.sub_zero, startTx_match_bigMin, sizeOnFirst_eq, hsz]
  by_cases hff : NeedsFF (TxCfg.of s.cfg s.addr) p.length
  · obtain ⟨hs1, hs2⟩ := hff
    have hs2' : ¬ (s.addr.tx.txPrefix.length + 2 + p.length ≤ s.cfg.txDl) := fun hh => hs2 ⟨hs1, hh⟩
    have hlt := ffRoom_lt _ _ ⟨hs1, hs2⟩ hvt
    simp only [hs1, decide_false, Bool.false_eq_true, if_false]
    rw [if_neg (by omega)]
    have hroom : (if p.length ≤ 4095 then s.cfg.txDl - 2 - s.addr.tx.txPrefix.length
        else s.cfg.txDl - 6 - s.addr.tx.txPrefix.length) = ffRoom (TxCfg.of s.cfg s.addr) p.length := rfl
    simp only [hroom]
    have hfp : firstPull (TxCfg.of s.cfg s.addr) p.length = ffRoom (TxCfg.of s.cfg s.addr) p.length := by
      simp [firstPull, NeedsFF, hs1, hs2]
    rw [hfp] at hs
    rw [consumeActive_short { s with txFrameLen := p.length } r _ true hle
      (by simp [Req.remaining, h0, hsz]; omega) hs]
    simp only [if_true]
    exact ⟨trivial, BadGen.mk' _ s r rfl rfl rfl rfl rfl rfl rfl⟩
  · have hfp : firstPull (TxCfg.of s.cfg s.addr) p.length = p.length := by simp [firstPull, hff]
    rw [hfp] at hs
    have hsf : sfShort (TxCfg.of s.cfg s.addr) p.length ∨ sfEscape (TxCfg.of s.cfg s.addr) p.length := by
      by_cases hs' : sfShort (TxCfg.of s.cfg s.addr) p.length
      · exact Or.inl hs'
      · by_cases he : sfEscape (TxCfg.of s.cfg s.addr) p.length
        · exact Or.inr he
        · exact absurd ⟨hs', he⟩ hff
    have hcond : p.length + (if decide (sfShort (TxCfg.of s.cfg s.addr) p.length) = true then 1 else 2) +
        s.addr.tx.txPrefix.length ≤ s.cfg.txDl := by
      simp only [TxCfg.of] at hdl hpre
      rcases hsf with h | h
      · have h' := (sfShort_iff _ _).mp h
        simp only [TxCfg.of] at h'
        simp only [h, decide_true, if_true]; omega
      · have h1' := h.1
        have h2' := h.2
        simp only [TxCfg.of] at h2'
        simp only [h1', decide_false, Bool.false_eq_true, if_false]; omega
    rw [if_pos hcond]
    rw [consumeActive_short s r _ true hle (by simp [Req.remaining, h0, hsz]) hs]
    simp only [if_true]
    exact ⟨trivial, BadGen.mk' _ s r rfl rfl rfl rfl rfl rfl rfl⟩


/-- `transmitCf` when the generator cannot fill the next Consecutive Frame: nothing happens (pacing / rate limiter),
    or what is left is pulled, sent in a (short) Consecutive Frame if there is anything, and the transfer is aborted
    with `BadGeneratorError` -/
theorem transmitCf_short (s : State) (allowed : Nat) (p : Bytes) (r : Req) (rbs : Nat)
    (hv : s.cfg.valid = true) (hact : s.active = some r) (hbs : s.remoteBs = some rbs) (hf : Feeds r p)
    (hlt : r.consumed < p.length)
    (hs : r.src.length < min (cfRoom (TxCfg.of s.cfg s.addr)) (p.length - r.consumed)) :
    s.transmitCf allowed = (s, none, false) ∨
    ((s.transmitCf allowed).2.1 =
        (if r.src.length = 0 then none else
          some (frameMsg s.cfg s.addr (s.addr.tx.txId .physical)
            (padFrame (TxCfg.of s.cfg s.addr) (s.addr.tx.txPrefix ++ [u8 (0x20 + s.txSeq)] ++ r.src)))) ∧
     BadGen s (s.transmitCf allowed).1 r) := by
  have hvt := valid_of s.cfg s.addr hv
  have hdl := txDl_fix _ hvt
  have hpre := hvt.pre
  have hsz := hf.size
  have hle := hf.le
  unfold transmitCf
  rw [hbs, hact]
  simp only []
  by_cases hto : s.timerStmin.timedOut s.now = true
  · rw [if_pos hto]
    have hrm : r.remaining = p.length - r.consumed := by simp [Req.remaining, hsz]
    have hroom' : s.cfg.txDl - 1 - s.txPrefixLen = cfRoom (TxCfg.of s.cfg s.addr) := rfl
    simp only [hroom', hrm]
    by_cases hal : min (cfRoom (TxCfg.of s.cfg s.addr)) (p.length - r.consumed) ≤ allowed
    · rw [if_pos hal]
      rw [consumeActive_short s r _ false hle (by rw [hrm]; omega) hs]
      simp only [Bool.false_eq_true, if_false]
      have hdep : (Req.drained r).depleted = true := by simp [Req.depleted, Req.drained]
      have hrem' : (Req.drained r).remaining > 0 := by
        simp only [Req.remaining, Req.drained, hsz]; omega
      right
      by_cases hL : r.src.length = 0
      · have hL' : ¬ (r.src.length > 0) := by omega
        simp only [hL', if_false, hdep, if_true, hrem', Bool.false_eq_true]
        rw [if_pos hL]
        exact ⟨rfl, BadGen.mk' _ s r rfl rfl rfl rfl rfl rfl rfl⟩
      · have hL' : r.src.length > 0 := by omega
        simp only [hL', if_true]
        simp only [TxCfg.of] at hdl hpre
        have hcr : cfRoom (TxCfg.of s.cfg s.addr) = s.cfg.txDl - 1 - s.addr.tx.txPrefix.length := rfl
        rw [makeTxMsg_eq _ _ hv _ _ (by simp; omega) (by simp; omega)]
        simp only [Bool.false_eq_true, if_false, hdep, if_true, hrem']
        rw [if_neg hL]
        exact ⟨rfl, BadGen.mk' _ s r rfl rfl rfl rfl rfl rfl rfl⟩
    · rw [if_neg hal]; left; rfl
  · rw [if_neg hto]; left; rfl


/-! ### decomposition of `processTx` and the transmit progress invariant -/

/-- the FSM `match` of `_process_tx` -/
def txFsm (s : State) (allowed : Nat) : State × Option CanMsg × Bool :=
  match s.txState with
  | .idle =>
    let (s, out) := s.readTxQueue allowed s.txQueue
    (s, out, false)
  | .sfStandby | .ffStandby =>
    match s.standby with
    | some msg =>
      if msg.data.length ≤ allowed then
        let s := { s with standby := none }
        if s.txState = .ffStandby then
          (({ s.startRxFcTimer with txState := .waitFc }), some msg, false)
        else (s.stopSending true, some msg, false)
      else (s, none, false)
    | none => (s, none, false)
  | .waitFc => (s, none, false)
  | .transmitCf => s.transmitCf allowed

/-- `_process_tx` after the Flow Control mailbox and the N_Bs timeout have been handled -/
def txRest (s : State) (allowed : Nat) : State × Option CanMsg × Bool :=
  if s.txState ≠ .idle && s.active.isNone then (s.raise .AssertionError, none, false) else
  let s := if s.txState ≠ .idle && (match s.active with | some r => r.depleted | none => false) && s.standby.isNone
           then s.stopSending true else s
  let (s, out, imm) := txFsm s allowed
  if s.exc.isSome then (s, none, false) else
  match out with
  | some msg => ({ s with rl := s.rl.inform s.now msg.data.length }, some msg, imm)
  | none => (s, none, imm)

/-- `_process_tx` after the Flow Control mailbox has been handled -/
def txTail (s : State) (allowed : Nat) : State × Option CanMsg × Bool :=
  txRest (if s.timerFc.timedOut s.now then (s.error .FlowControlTimeout).stopSending false else s) allowed

theorem processTx_eq (s : State) (hp : s.pendingFc = false) :
    s.processTx =
      match s.lastFc with
      | some f =>
        if f.status = 2 then (((({ s with lastFc := none } : State).stopSending false).error .Overflow), none, false)
        else txTail (({ s with lastFc := none } : State).handleFc f) (s.rl.allowedBytes s.cfg.rlBitMax)
      | none => txTail { s with lastFc := none } (s.rl.allowedBytes s.cfg.rlBitMax) := by
  unfold processTx
  simp only [hp, Bool.false_eq_true, if_false]
  cases hfc : s.lastFc with
  | none => rfl
  | some f =>
    simp only []
    by_cases h2 : f.status = 2
    · simp only [h2, if_true]
    · simp only [h2, if_false]; rfl

/-- `_process_tx` when no Flow Control has to be sent first -/
def txMain (s : State) : State × Option CanMsg × Bool :=
  match s.lastFc with
  | some f =>
    if f.status = 2 then (((({ s with lastFc := none } : State).stopSending false).error .Overflow), none, false)
    else txTail (({ s with lastFc := none } : State).handleFc f) (s.rl.allowedBytes s.cfg.rlBitMax)
  | none => txTail { s with lastFc := none } (s.rl.allowedBytes s.cfg.rlBitMax)

theorem processTx_eq_main (s : State) (hp : s.pendingFc = false) : s.processTx = txMain s := processTx_eq s hp

theorem processTx_listen (s : State) (st : Nat) (hp : s.pendingFc = true) (hl : s.cfg.listen = true)
    (hst : s.pendingFcStatus = some st) :
    s.processTx = txMain (if st = 0 then ({ s with pendingFc := false } : State).startRxCfTimer
                          else { s with pendingFc := false }) := by
  by_cases h0 : st = 0
  · subst h0
    simp only [if_true]
    rw [← processTx_eq_main _ rfl]
    unfold processTx
    simp only [hp, hst, hl, if_true, startRxCfTimer, Bool.not_true, Bool.false_eq_true, if_false]
  · simp only [h0, if_false]
    rw [← processTx_eq_main _ rfl]
    unfold processTx
    simp only [hp, hst, hl, h0, if_true, Bool.not_true, Bool.false_eq_true, if_false]

/-- `r0` is the request for payload `p` as it sits in the queue: nothing pulled yet -/
def Fresh (r0 : Req) (p : Bytes) : Prop := Feeds r0 p ∧ r0.consumed = 0

/-- the transmit FSM has handed out the first `k ≥ 1` frames of the segmentation of `p` (request `r0`),
    more remain, and it is waiting for a Flow Control or pacing Consecutive Frames -/
def TxProg (s : State) (r0 : Req) (p : Bytes) (k : Nat) : Prop :=
  1 ≤ k ∧ NeedsFF (TxCfg.of s.cfg s.addr) p.length ∧
  carried (TxCfg.of s.cfg s.addr) p.length k < p.length ∧
  s.active = some (Req.adv r0 (carried (TxCfg.of s.cfg s.addr) p.length k)) ∧
  s.txFrameLen = p.length ∧ s.txSeq = k % 16 ∧
  (s.txState = .waitFc ∨ (s.txState = .transmitCf ∧ s.remoteBs.isSome = true))

/-- arbitration id used for the frames of request `r0`: its own target address type for a Single Frame,
    always physical for a segmented message -/
def arbId (s : State) (r0 : Req) (p : Bytes) : Nat :=
  s.addr.tx.txId (if NeedsFF (TxCfg.of s.cfg s.addr) p.length then .physical else r0.tat)

/-- the CAN message for frame data `d` of request `r0` -/
def msgFor (s : State) (r0 : Req) (p : Bytes) (d : Bytes) : CanMsg := frameMsg s.cfg s.addr (arbId s r0 p) d

/-- the first frame of `p` has been built but is parked by the rate limiter -/
def TxParked (s : State) (r0 : Req) (p : Bytes) : Prop :=
  ∃ d0, (segment (TxCfg.of s.cfg s.addr) p)[0]? = some d0 ∧ s.standby = some (msgFor s r0 p d0) ∧
    ((s.txState = .sfStandby ∧ segment (TxCfg.of s.cfg s.addr) p = [d0] ∧
        ¬ NeedsFF (TxCfg.of s.cfg s.addr) p.length ∧ s.active = some (Req.adv r0 p.length) ∧
        p.length ≤ r0.src.length) ∨
     (s.txState = .ffStandby ∧ NeedsFF (TxCfg.of s.cfg s.addr) p.length ∧
        s.active = some (Req.adv r0 (carried (TxCfg.of s.cfg s.addr) p.length 1)) ∧
        s.txFrameLen = p.length ∧ s.txSeq = 1))

/-- `k` frames of the segmentation of `p` have been handed to the CAN layer and the transfer is going on -/
def TxInv (s : State) (r0 : Req) (p : Bytes) (k : Nat) : Prop :=
  (k = 0 ∧ TxParked s r0 p) ∨ TxProg s r0 p k

/-- the fields the transmit invariant reads are the same in `s'` -/
structure TxSame (s s' : State) : Prop where
  cfg : s'.cfg = s.cfg
  addr : s'.addr = s.addr
  active : s'.active = s.active
  standby : s'.standby = s.standby
  txFrameLen : s'.txFrameLen = s.txFrameLen
  txSeq : s'.txSeq = s.txSeq
  txState : s'.txState = s.txState
  remoteBs : s'.remoteBs = s.remoteBs

theorem TxSame.inv {s s' : State} (h : TxSame s s') (r0 : Req) (p : Bytes) (k : Nat) (hi : TxInv s r0 p k) :
    TxInv s' r0 p k := by
  obtain ⟨h1, h2, h3, h4, h5, h6, h7, h8⟩ := h
  simpa only [TxInv, TxParked, TxProg, msgFor, arbId, h1, h2, h3, h4, h5, h6, h7, h8] using hi

def NoDone (evs : List Ev) : Prop := ∀ e ∈ evs, ∀ i b, e ≠ Ev.done i b

/-- cfg, address and exception status unchanged; log extended by non-completion events -/
structure Quiet (s s' : State) : Prop where
  cfg : s'.cfg = s.cfg
  addr : s'.addr = s.addr
  exc : s'.exc = s.exc
  log : ∃ evs, s'.log = evs ++ s.log ∧ NoDone evs

/-- the transfer of request `r0` has been aborted: FSM idle, `complete(False)` logged -/
structure Aborted (s s' : State) (r0 : Req) : Prop where
  cfg : s'.cfg = s.cfg
  addr : s'.addr = s.addr
  txState : s'.txState = .idle
  active : s'.active = none
  standby : s'.standby = none
  log : ∃ evs, s'.log = evs ++ s.log ∧ Ev.done r0.id false ∈ evs

theorem TxInv.active {s : State} {r0 : Req} {p : Bytes} {k : Nat} (hi : TxInv s r0 p k) :
    ∃ c, s.active = some (Req.adv r0 c) := by
  rcases hi with ⟨-, d0, -, -, h | h⟩ | h
  · exact ⟨_, h.2.2.2.1⟩
  · exact ⟨_, h.2.2.1⟩
  · exact ⟨_, h.2.2.2.1⟩

theorem TxInv.not_idle {s : State} {r0 : Req} {p : Bytes} {k : Nat} (hi : TxInv s r0 p k) :
    s.txState ≠ .idle := by
  rcases hi with ⟨-, d0, -, -, h | h⟩ | h
  · rw [h.1]; decide
  · rw [h.1]; decide
  · rcases h.2.2.2.2.2.2 with h | h
    · rw [h]; decide
    · rw [h.1]; decide

theorem NoDone_nil : NoDone [] := by intro e he; cases he

theorem NoDone_err (t : Nat) (e : Err) : NoDone [Ev.err t e] := by
  intro x hx i b; simp at hx; subst hx; simp

theorem Quiet.refl (s : State) : Quiet s s := ⟨rfl, rfl, rfl, [], rfl, NoDone_nil⟩

theorem Quiet.trans {a b c : State} (h1 : Quiet a b) (h2 : Quiet b c) : Quiet a c := by
  obtain ⟨c1, a1, e1, evs1, l1, n1⟩ := h1
  obtain ⟨c2, a2, e2, evs2, l2, n2⟩ := h2
  refine ⟨c2.trans c1, a2.trans a1, e2.trans e1, evs2 ++ evs1, by rw [l2, l1, List.append_assoc], ?_⟩
  intro e he
  rcases List.mem_append.mp he with h | h
  · exact n2 e h
  · exact n1 e h

theorem Quiet.error (s : State) (e : Err) : Quiet s (s.error e) :=
  ⟨rfl, rfl, rfl, [Ev.err s.now e], rfl, NoDone_err _ _⟩

theorem TxSame.error (s : State) (e : Err) : TxSame s (s.error e) := ⟨rfl, rfl, rfl, rfl, rfl, rfl, rfl, rfl⟩

theorem Aborted.stop (s : State) (e : Err) (r0 : Req) (c : Nat) (h : s.active = some (Req.adv r0 c)) :
    Aborted s ((s.error e).stopSending false) r0 := by
  refine ⟨?_, ?_, ?_, ?_, ?_, ?_⟩ <;> simp only [stopSending, State.error, emit, h]
  exact ⟨[Ev.done r0.id false, Ev.err s.now e], rfl, by simp⟩

theorem handleFc_inv (s : State) (f : FcFrame) (r0 : Req) (p : Bytes) (k : Nat) (hi : TxInv s r0 p k) :
    (TxInv (s.handleFc f) r0 p k ∧ Quiet s (s.handleFc f)) ∨ Aborted s (s.handleFc f) r0 := by
  have hne := hi.not_idle
  obtain ⟨c, hact⟩ := hi.active
  unfold handleFc
  rw [if_neg hne]
  split
  · split
    · exact Or.inl ⟨(TxSame.error s _).inv _ _ _ hi, Quiet.error s _⟩
    · split
      · exact Or.inr (Aborted.stop s _ r0 c hact)
      · left
        dsimp only
        split
        · refine ⟨?_, ⟨rfl, rfl, rfl, [], rfl, NoDone_nil⟩⟩
          simp only [TxInv, TxParked, TxProg, msgFor, arbId, startRxFcTimer] at hi ⊢
          grind
        · exact ⟨TxSame.inv ⟨rfl, rfl, rfl, rfl, rfl, rfl, rfl, rfl⟩ _ _ _ hi, ⟨rfl, rfl, rfl, [], rfl, NoDone_nil⟩⟩
  · split
    · left
      dsimp only
      by_cases hw : s.txState = .waitFc
      · simp only [hw, if_true]
        refine ⟨?_, ⟨rfl, rfl, rfl, [], rfl, NoDone_nil⟩⟩
        simp only [TxInv, TxParked, TxProg, msgFor, arbId] at hi ⊢
        grind
      · simp only [hw, if_false]
        refine ⟨?_, ⟨rfl, rfl, rfl, [], rfl, NoDone_nil⟩⟩
        simp only [TxInv, TxParked, TxProg, msgFor, arbId] at hi ⊢
        grind
    · exact Or.inl ⟨hi, Quiet.refl s⟩

theorem Req.adv_adv (r : Req) (a b : Nat) : Req.adv (Req.adv r a) b = Req.adv r (a + b) := by
  simp [Req.adv, List.drop_drop, Nat.add_assoc]

theorem Fresh.feeds_adv {r0 : Req} {p : Bytes} (h : Fresh r0 p) (c : Nat) (hc : c ≤ p.length) :
    Feeds (Req.adv r0 c) p := by
  by_cases hs : c ≤ r0.src.length
  · exact (h.1.consume c true (by simp [Req.remaining, h.2, h.1.size]; exact hc) hs).2
  · refine ⟨h.1.size, by simp [Req.adv, h.2, h.1.size]; exact hc, ?_, h.1.flag⟩
    have : r0.src.drop c = [] := List.drop_eq_nil_of_le (by omega)
    simp [Req.adv, this]

theorem Fresh.adv_consumed {r0 : Req} {p : Bytes} (h : Fresh r0 p) (c : Nat) : (Req.adv r0 c).consumed = c := by
  simp [Req.adv, h.2]

/-- the frames of `p` as the layer in state `s` must emit them -/
def segOf (s : State) (p : Bytes) : List Bytes := segment (TxCfg.of s.cfg s.addr) p

/-- the request completed successfully: FSM idle, `complete(True)` logged -/
structure Finished (s s' : State) (r0 : Req) : Prop where
  cfg : s'.cfg = s.cfg
  addr : s'.addr = s.addr
  exc : s'.exc = s.exc
  txState : s'.txState = .idle
  active : s'.active = none
  standby : s'.standby = none
  log : ∃ evs, s'.log = Ev.done r0.id true :: evs ++ s.log ∧ NoDone evs

/-- one transmit pass while request `r0` is in flight with `k` frames out: nothing emitted; or frame `k` emitted and
    more to come; or frame `k` was the last one and the request completed -/
def Advance (s s' : State) (out : Option CanMsg) (r0 : Req) (p : Bytes) (k : Nat) : Prop :=
  (out = none ∧ TxInv s' r0 p k ∧ Quiet s s') ∨
  (∃ d, (segOf s p)[k]? = some d ∧ out = some (msgFor s r0 p d) ∧ TxInv s' r0 p (k + 1) ∧ Quiet s s') ∨
  (∃ d, (segOf s p)[k]? = some d ∧ (segOf s p).length = k + 1 ∧ out = some (msgFor s r0 p d) ∧ Finished s s' r0 ∧
      p.length ≤ r0.src.length)

/-- the transfer of `r0` failed: `complete(False)` newly logged -/
structure Failed (s s' : State) (r0 : Req) : Prop where
  cfg : s'.cfg = s.cfg
  addr : s'.addr = s.addr
  log : ∃ evs, s'.log = evs ++ s.log ∧ Ev.done r0.id false ∈ evs

/-- outcome of one transmit pass for the request in flight: it advances, or the transfer has failed -/
def Outcome (s s' : State) (out : Option CanMsg) (r0 : Req) (p : Bytes) (k : Nat) : Prop :=
  Advance s s' out r0 p k ∨ Failed s s' r0

theorem BadGen.failed {s s' : State} {r r0 : Req} (h : BadGen s s' r) (hid : r.id = r0.id) : Failed s s' r0 :=
  ⟨h.cfg, h.addr, [Ev.done r.id false, Ev.err s.now .BadGenerator] ++ pullLog r r.src.length,
    by rw [h.log]; simp, by simp [hid]⟩

theorem NoDone_pullLog (r : Req) (n : Nat) : NoDone (pullLog r n) := by
  unfold pullLog; split
  · intro x hx i b; simp at hx; subst hx; simp
  · exact NoDone_nil

theorem length_of_getElem? {α : Type} (l : List α) (k : Nat) (d : α) (h1 : l[k]? = some d) (h2 : l[k+1]? = none) :
    l.length = k + 1 := by
  have := List.getElem?_eq_none_iff.mp h2
  have : k < l.length := by
    rcases Nat.lt_or_ge k l.length with h | h
    · exact h
    · rw [List.getElem?_eq_none_iff.mpr h] at h1; cases h1
  omega

theorem txFsm_prog_cf_enough (s : State) (allowed : Nat) (r0 : Req) (p : Bytes) (k : Nat)
    (hv : s.cfg.valid = true) (hfr : Fresh r0 p) (hi : TxProg s r0 p k) (hst : s.txState = .transmitCf)
    (hen : carried (TxCfg.of s.cfg s.addr) p.length (k + 1) ≤ r0.src.length) :
    Advance s (s.transmitCf allowed).1 (s.transmitCf allowed).2.1 r0 p k := by
  obtain ⟨hk, hff, hlt, hact, hlen, hseq, hstate⟩ := hi
  have hrb : s.remoteBs.isSome = true := by
    rcases hstate with h | h
    · rw [hst] at h; cases h
    · exact h.2
  obtain ⟨rbs, hbs⟩ := Option.isSome_iff_exists.mp hrb
  have hvt := valid_of s.cfg s.addr hv
  generalize hc : carried (TxCfg.of s.cfg s.addr) p.length k = c at *
  have hcons := hfr.adv_consumed c
  have hstep := carried_step (TxCfg.of s.cfg s.addr) p.length k hk (by omega)
  have hsrc : (Req.adv r0 c).src.length = r0.src.length - c := by simp [Req.adv]
  obtain ⟨d, hd, hcases⟩ := transmitCf_eq s allowed p k (Req.adv r0 c) rbs hv hact hbs
    (hfr.feeds_adv c (by omega)) hk hff (by rw [hcons, hc]) (by rw [hcons]; exact hlt) hseq
    (by rw [hcons, hsrc]; omega)
  have hmsg : frameMsg s.cfg s.addr (s.addr.tx.txId .physical) d = msgFor s r0 p d := by
    simp [msgFor, arbId, hff]
  rw [hmsg, hcons] at hcases
  generalize hm : min (cfRoom (TxCfg.of s.cfg s.addr)) (p.length - c) = m at *
  rcases hcases with h | ⟨h1, h⟩ | ⟨h1, h⟩ | ⟨h1, h⟩
  · rw [h]; dsimp only
    exact Or.inl ⟨rfl, Or.inr ⟨hk, hff, by omega, by rw [hc]; exact hact, hlen, hseq, hstate⟩, Quiet.refl s⟩
  · rw [h]; dsimp only
    refine Or.inr (Or.inr ⟨d, hd, ?_, rfl, ?_, h1 ▸ hen⟩)
    · apply length_of_getElem? _ _ _ hd
      show (segment (TxCfg.of s.cfg s.addr) p)[k+1]? = none
      rw [segment_ff_succ _ hvt p hff (k+1) (by omega), if_neg (by omega)]
    · refine ⟨rfl, rfl, rfl, rfl, ?_, rfl, ?_⟩
      · simp [stopSending, cfSent]
      · exact ⟨pullLog (Req.adv r0 c) m, by simp [stopSending, cfSent, emit, Req.adv], NoDone_pullLog _ _⟩
  · rw [h]; dsimp only
    refine Or.inr (Or.inl ⟨d, hd, rfl, Or.inr ⟨by omega, hff, h1, ?_, hlen, ?_, Or.inl rfl⟩, ?_⟩)
    · simp only [cfSent, Req.adv_adv]; congr 2; omega
    · simp only [cfSent, hseq]; omega
    · exact ⟨rfl, rfl, rfl, pullLog (Req.adv r0 c) m, rfl, NoDone_pullLog _ _⟩
  · rw [h]; dsimp only
    refine Or.inr (Or.inl ⟨d, hd, rfl, Or.inr ⟨by omega, hff, h1, ?_, hlen, ?_, Or.inr ⟨hst, hrb⟩⟩, ?_⟩)
    · simp only [cfSent, Req.adv_adv]; congr 2; omega
    · simp only [cfSent, hseq]; omega
    · exact ⟨rfl, rfl, rfl, pullLog (Req.adv r0 c) m, rfl, NoDone_pullLog _ _⟩


/-- `transmitCf` with `k ≥ 1` frames out, any generator: it advances (frame `k` of the reference segmentation), or the
    generator ended early and the transfer failed -/
theorem txFsm_prog_cf (s : State) (allowed : Nat) (r0 : Req) (p : Bytes) (k : Nat)
    (hv : s.cfg.valid = true) (hfr : Fresh r0 p) (hi : TxProg s r0 p k) (hst : s.txState = .transmitCf) :
    Outcome s (s.transmitCf allowed).1 (s.transmitCf allowed).2.1 r0 p k := by
  by_cases hen : carried (TxCfg.of s.cfg s.addr) p.length (k + 1) ≤ r0.src.length
  · exact Or.inl (txFsm_prog_cf_enough s allowed r0 p k hv hfr hi hst hen)
  · have hi' := hi
    obtain ⟨hk, hff, hlt, hact, hlen, hseq, hstate⟩ := hi
    have hrb : s.remoteBs.isSome = true := by
      rcases hstate with h | h
      · rw [hst] at h; cases h
      · exact h.2
    obtain ⟨rbs, hbs⟩ := Option.isSome_iff_exists.mp hrb
    have hvt := valid_of s.cfg s.addr hv
    have hroom := cfRoom_pos _ hvt
    have hstep := carried_step (TxCfg.of s.cfg s.addr) p.length k hk hlt
    generalize hc : carried (TxCfg.of s.cfg s.addr) p.length k = c at *
    have hcons := hfr.adv_consumed c
    have hsrc : (Req.adv r0 c).src.length = r0.src.length - c := by simp [Req.adv]
    rcases transmitCf_short s allowed p (Req.adv r0 c) rbs hv hact hbs (hfr.feeds_adv c (by omega))
      (by rw [hcons]; exact hlt) (by rw [hcons, hsrc]; omega) with h | ⟨-, h⟩
    · rw [h]
      exact Or.inl (Or.inl ⟨rfl, Or.inr (by rw [← hc] at hact hlt; exact ⟨hk, hff, hlt, hact, hlen, hseq, hstate⟩),
        Quiet.refl s⟩)
    · exact Or.inr (h.failed rfl)

theorem carried_one_lt (tc : TxCfg) (n : Nat) (hv : ValidTx tc) (hff : NeedsFF tc n) : carried tc n 1 < n := by
  have := ffRoom_lt tc n hff hv
  simp [carried]; omega

theorem txFsm_inv (s : State) (allowed : Nat) (r0 : Req) (p : Bytes) (k : Nat)
    (hv : s.cfg.valid = true) (hfr : Fresh r0 p) (hi : TxInv s r0 p k) :
    Outcome s (txFsm s allowed).1 (txFsm s allowed).2.1 r0 p k := by
  have hvt := valid_of s.cfg s.addr hv
  rcases hi with ⟨hk, d0, hd0, hsb, ⟨hst, hseg, hnff, hact, hfullp⟩ | ⟨hst, hff, hact, hlen, hseq⟩⟩ | hprog
  · -- Single Frame parked
    refine Or.inl ?_
    subst hk
    unfold txFsm
    rw [hst]; dsimp only; rw [hsb]; dsimp only
    by_cases hal : (msgFor s r0 p d0).data.length ≤ allowed
    · rw [if_pos hal]
      simp only [reduceCtorEq, if_false]
      refine Or.inr (Or.inr ⟨d0, hd0, by simp [segOf, hseg], rfl, ?_, hfullp⟩)
      refine ⟨by simp, by simp, by simp, by simp, by simp, by simp, ?_⟩
      exact ⟨[], stopSending_log _ _ (Req.adv r0 p.length) hact, NoDone_nil⟩
    · rw [if_neg hal]
      exact Or.inl ⟨rfl, Or.inl ⟨rfl, d0, hd0, hsb, Or.inl ⟨hst, hseg, hnff, hact, hfullp⟩⟩, Quiet.refl s⟩
  · -- First Frame parked
    refine Or.inl ?_
    subst hk
    unfold txFsm
    rw [hst]; dsimp only; rw [hsb]; dsimp only
    by_cases hal : (msgFor s r0 p d0).data.length ≤ allowed
    · rw [if_pos hal]
      simp only [if_true]
      refine Or.inr (Or.inl ⟨d0, hd0, rfl, Or.inr ⟨Nat.le_refl 1, hff, carried_one_lt _ _ hvt hff, hact, hlen, hseq,
        Or.inl rfl⟩, ⟨rfl, rfl, rfl, [], rfl, NoDone_nil⟩⟩)
    · rw [if_neg hal]
      exact Or.inl ⟨rfl, Or.inl ⟨rfl, d0, hd0, hsb, Or.inr ⟨hst, hff, hact, hlen, hseq⟩⟩, Quiet.refl s⟩
  · rcases hprog.2.2.2.2.2.2 with hst | ⟨hst, -⟩
    · unfold txFsm
      rw [hst]
      exact Or.inl (Or.inl ⟨rfl, Or.inr hprog, Quiet.refl s⟩)
    · have : txFsm s allowed = s.transmitCf allowed := by unfold txFsm; rw [hst]
      rw [this]
      exact txFsm_prog_cf s allowed r0 p k hv hfr hprog hst

/-- configuration and address unchanged, log only extended -/
structure Ext (s s' : State) : Prop where
  cfg : s'.cfg = s.cfg
  addr : s'.addr = s.addr
  log : ∃ evs, s'.log = evs ++ s.log

theorem Ext.refl (s : State) : Ext s s := ⟨rfl, rfl, [], rfl⟩

theorem Ext.trans {a b c : State} (h1 : Ext a b) (h2 : Ext b c) : Ext a c := by
  obtain ⟨c1, a1, e1, l1⟩ := h1
  obtain ⟨c2, a2, e2, l2⟩ := h2
  exact ⟨c2.trans c1, a2.trans a1, e2 ++ e1, by rw [l2, l1, List.append_assoc]⟩

macro "log_ext" : tactic => `(tactic|
  (first | exact ⟨[], rfl⟩ | exact ⟨[_], rfl⟩ | exact ⟨[_, _], rfl⟩ | exact ⟨[_, _, _], rfl⟩ | exact ⟨[_, _, _, _], rfl⟩))

theorem startTx_ext (s : State) (r : Req) (a : Nat) : Ext s (s.startTx r a).1 := by
  refine ⟨?_, ?_, ?_⟩
  · unfold startTx consumeActive
    grind [stopSending, State.error, emit, raise, startRxFcTimer]
  · unfold startTx consumeActive
    grind [stopSending, State.error, emit, raise, startRxFcTimer]
  · unfold startTx consumeActive
    dsimp only
    repeat' split
    all_goals (simp only [stopSending, State.error, emit, raise, startRxFcTimer])
    all_goals log_ext

theorem readTxQueue_ext (a : Nat) (q : List Req) : ∀ s : State, Ext s (s.readTxQueue a q).1 := by
  induction q with
  | nil => intro s; exact ⟨rfl, rfl, [], rfl⟩
  | cons r rest ih =>
    intro s
    unfold readTxQueue
    dsimp only
    split
    · refine Ext.trans ?_ (ih _)
      exact ⟨rfl, rfl, [_], rfl⟩
    · refine Ext.trans ?_ (startTx_ext _ r a)
      exact ⟨rfl, rfl, [], rfl⟩


theorem txRest_idle_ext (s : State) (a : Nat) (hst : s.txState = .idle) : Ext s (txRest s a).1 := by
  unfold txRest
  simp only [hst, ne_eq, not_true_eq_false, decide_false, Bool.false_and, Bool.false_eq_true, if_false]
  unfold txFsm
  simp only [hst]
  have h := readTxQueue_ext a s.txQueue s
  generalize s.readTxQueue a s.txQueue = X at h ⊢
  obtain ⟨s1, out⟩ := X
  dsimp only at h ⊢
  split
  · exact h
  · split
    · exact Ext.trans h ⟨rfl, rfl, [], rfl⟩
    · exact h

theorem txTail_idle_ext (s : State) (a : Nat) (hst : s.txState = .idle) : Ext s (txTail s a).1 := by
  unfold txTail
  split
  · refine Ext.trans ?_ (txRest_idle_ext _ a (by simp))
    refine ⟨by simp [State.error, emit], by simp [State.error, emit], ?_⟩
    simp only [stopSending, State.error, emit]
    split <;> log_ext
  · exact txRest_idle_ext s a hst

theorem Aborted.failed_of_ext {s s1 s' : State} {r0 : Req} (h : Aborted s s1 r0) (he : Ext s1 s') :
    Failed s s' r0 := by
  obtain ⟨evs, hl, hm⟩ := h.log
  obtain ⟨evs2, hl2⟩ := he.log
  exact ⟨he.cfg.trans h.cfg, he.addr.trans h.addr, evs2 ++ evs, by rw [hl2, hl, List.append_assoc],
    List.mem_append_right _ hm⟩

theorem TxInv.not_depleted {s : State} {r0 : Req} {p : Bytes} {k : Nat} (hfr : Fresh r0 p) (hi : TxInv s r0 p k) :
    ((match s.active with | some r => r.depleted | none => false) && s.standby.isNone) = false := by
  rcases hi with ⟨-, d0, -, hsb, -⟩ | ⟨-, -, hlt, hact, -⟩
  · rw [hsb]; simp
  · rw [hact]
    have h1 := hfr.1.flag
    have h2 := hfr.1.size
    have h3 := hfr.2
    simp [Req.depleted, Req.adv, h1, h2, h3]
    omega

/-- the part of a transmit pass after the FSM step: rate-limiter bookkeeping -/
theorem Advance.wrap {s s1 : State} {out : Option CanMsg} {r0 : Req} {p : Bytes} {k : Nat} (imm : Bool)
    (hexc : s.exc = none) (h : Advance s s1 out r0 p k) :
    Advance s
      (if s1.exc.isSome then (s1, none, false) else
        match out with
        | some msg => ({ s1 with rl := s1.rl.inform s1.now msg.data.length }, some msg, imm)
        | none => (s1, none, imm)).1
      (if s1.exc.isSome then (s1, none, false) else
        match out with
        | some msg => ({ s1 with rl := s1.rl.inform s1.now msg.data.length }, some msg, imm)
        | none => (s1, none, imm)).2.1 r0 p k := by
  have he : s1.exc = none := by
    rcases h with ⟨-, -, hq⟩ | ⟨d, -, -, -, hq⟩ | ⟨d, -, -, -, hf⟩
    · rw [hq.exc, hexc]
    · rw [hq.exc, hexc]
    · rw [hf.1.exc, hexc]
  have hif : ¬ (s1.exc.isSome = true) := by rw [he]; simp
  rw [if_neg hif]
  rcases h with ⟨ho, hi, hq⟩ | ⟨d, hd, ho, hi, hq⟩ | ⟨d, hd, hl, ho, hf⟩
  · subst ho; exact Or.inl ⟨rfl, hi, hq⟩
  · subst ho
    exact Or.inr (Or.inl ⟨d, hd, rfl, TxSame.inv ⟨rfl, rfl, rfl, rfl, rfl, rfl, rfl, rfl⟩ _ _ _ hi,
      ⟨hq.cfg, hq.addr, hq.exc, hq.log⟩⟩)
  · subst ho
    exact Or.inr (Or.inr ⟨d, hd, hl, rfl, ⟨hf.1.cfg, hf.1.addr, hf.1.exc, hf.1.txState, hf.1.active, hf.1.standby, hf.1.log⟩,
      hf.2⟩)

theorem Failed.wrap {s s1 : State} {r0 : Req} (out : Option CanMsg) (imm : Bool) (h : Failed s s1 r0) :
    Failed s
      (if s1.exc.isSome then (s1, none, false) else
        match out with
        | some msg => ({ s1 with rl := s1.rl.inform s1.now msg.data.length }, some msg, imm)
        | none => (s1, none, imm)).1 r0 := by
  split
  · exact h
  · split
    · exact ⟨h.cfg, h.addr, h.log⟩
    · exact h

theorem txRest_inv (s : State) (a : Nat) (r0 : Req) (p : Bytes) (k : Nat)
    (hv : s.cfg.valid = true) (hfr : Fresh r0 p) (hexc : s.exc = none) (hi : TxInv s r0 p k) :
    Outcome s (txRest s a).1 (txRest s a).2.1 r0 p k := by
  obtain ⟨c, hact⟩ := hi.active
  unfold txRest
  rw [hact]
  simp only [Option.isNone_some, Bool.and_false, Bool.false_eq_true, if_false]
  have hnd := hi.not_depleted hfr
  rw [hact] at hnd
  simp only [] at hnd
  simp only [Bool.and_assoc, hnd, Bool.and_false, Bool.false_eq_true, if_false]
  have h := txFsm_inv s a r0 p k hv hfr hi
  generalize txFsm s a = X at h ⊢
  obtain ⟨s1, out, imm⟩ := X
  rcases h with h | h
  · exact Or.inl (Advance.wrap imm hexc h)
  · exact Or.inr (Failed.wrap out imm h)


theorem NoDone_append {a b : List Ev} (ha : NoDone a) (hb : NoDone b) : NoDone (a ++ b) := by
  intro e he
  rcases List.mem_append.mp he with h | h
  · exact ha e h
  · exact hb e h

theorem Advance.of_quiet {s s1 s' : State} {out : Option CanMsg} {r0 : Req} {p : Bytes} {k : Nat}
    (hq : Quiet s s1) (h : Advance s1 s' out r0 p k) : Advance s s' out r0 p k := by
  have hseg : segOf s1 p = segOf s p := by simp only [segOf, hq.cfg, hq.addr]
  have hmsg : ∀ d, msgFor s1 r0 p d = msgFor s r0 p d := by intro d; simp only [msgFor, arbId, hq.cfg, hq.addr]
  rcases h with ⟨ho, hi, hq2⟩ | ⟨d, hd, ho, hi, hq2⟩ | ⟨d, hd, hl, ho, hf⟩
  · exact Or.inl ⟨ho, hi, hq.trans hq2⟩
  · exact Or.inr (Or.inl ⟨d, by rw [← hseg]; exact hd, by rw [← hmsg]; exact ho, hi, hq.trans hq2⟩)
  · obtain ⟨hf, hfu⟩ := hf
    refine Or.inr (Or.inr ⟨d, by rw [← hseg]; exact hd, by rw [← hseg]; exact hl, by rw [← hmsg]; exact ho, ?_, hfu⟩)
    obtain ⟨evs1, hl1, hn1⟩ := hq.log
    obtain ⟨evs2, hl2, hn2⟩ := hf.log
    exact ⟨hf.cfg.trans hq.cfg, hf.addr.trans hq.addr, hf.exc.trans hq.exc, hf.txState, hf.active, hf.standby,
      evs2 ++ evs1, by rw [hl2, hl1]; simp, NoDone_append hn2 hn1⟩

theorem Failed.of_quiet {s s1 s' : State} {r0 : Req} (hq : Quiet s s1) (h : Failed s1 s' r0) : Failed s s' r0 := by
  obtain ⟨evs1, hl1, -⟩ := hq.log
  obtain ⟨evs2, hl2, hm⟩ := h.log
  exact ⟨h.cfg.trans hq.cfg, h.addr.trans hq.addr, evs2 ++ evs1, by rw [hl2, hl1]; simp, List.mem_append_left _ hm⟩

theorem Outcome.of_quiet {s s1 s' : State} {out : Option CanMsg} {r0 : Req} {p : Bytes} {k : Nat}
    (hq : Quiet s s1) (h : Outcome s1 s' out r0 p k) : Outcome s s' out r0 p k := by
  rcases h with h | h
  · exact Or.inl (Advance.of_quiet hq h)
  · exact Or.inr (Failed.of_quiet hq h)

theorem txTail_inv (s : State) (a : Nat) (r0 : Req) (p : Bytes) (k : Nat)
    (hv : s.cfg.valid = true) (hfr : Fresh r0 p) (hexc : s.exc = none) (hi : TxInv s r0 p k) :
    Outcome s (txTail s a).1 (txTail s a).2.1 r0 p k := by
  obtain ⟨c, hact⟩ := hi.active
  unfold txTail
  split
  · exact Or.inr ((Aborted.stop s _ r0 c hact).failed_of_ext (txRest_idle_ext _ a (by simp)))
  · exact txRest_inv s a r0 p k hv hfr hexc hi

theorem txMain_inv (s : State) (r0 : Req) (p : Bytes) (k : Nat)
    (hv : s.cfg.valid = true) (hfr : Fresh r0 p) (hexc : s.exc = none)
    (hi : TxInv s r0 p k) :
    Outcome s (txMain s).1 (txMain s).2.1 r0 p k := by
  obtain ⟨c, hact⟩ := hi.active
  unfold txMain
  have hi1 : TxInv { s with lastFc := none } r0 p k := TxSame.inv ⟨rfl, rfl, rfl, rfl, rfl, rfl, rfl, rfl⟩ _ _ _ hi
  have hq0 : Quiet s { s with lastFc := none } := ⟨rfl, rfl, rfl, [], rfl, NoDone_nil⟩
  have lift : ∀ s' out, Outcome { s with lastFc := none } s' out r0 p k → Outcome s s' out r0 p k := by
    intro s' out h
    rcases h with h | h
    · exact Or.inl (Advance.of_quiet hq0 h)
    · exact Or.inr (Failed.of_quiet hq0 h)
  apply lift
  cases hfc : s.lastFc with
  | none => dsimp only; exact txTail_inv { s with lastFc := none } _ r0 p k hv hfr hexc hi1
  | some f =>
    dsimp only
    split
    · right
      refine ⟨by simp [State.error, emit], by simp [State.error, emit], ?_⟩
      refine ⟨[Ev.err s.now .Overflow, Ev.done r0.id false], ?_, by simp⟩
      simp only [State.error, emit]
      rw [stopSending_log ({ s with lastFc := none } : State) false (Req.adv r0 c) hact]
      simp [Req.adv]
    · rcases handleFc_inv { s with lastFc := none } f r0 p k hi1 with ⟨hi2, hq⟩ | hab
      · have hv2 : (({ s with lastFc := none } : State).handleFc f).cfg.valid = true := by rw [hq.cfg]; exact hv
        have hexc2 : (({ s with lastFc := none } : State).handleFc f).exc = none := by rw [hq.exc]; exact hexc
        rcases txTail_inv _ (s.rl.allowedBytes s.cfg.rlBitMax) r0 p k hv2 hfr hexc2 hi2 with h | h
        · exact Or.inl (Advance.of_quiet hq h)
        · exact Or.inr (Failed.of_quiet hq h)
      · exact Or.inr (hab.failed_of_ext (txTail_idle_ext _ _ hab.txState))


theorem carried_one (tc : TxCfg) (n : Nat) (hv : ValidTx tc) (hff : NeedsFF tc n) : carried tc n 1 = ffRoom tc n := by
  have := ffRoom_lt tc n hff hv
  simp [carried]; omega

/-- (C1) `startTx` on a fresh request builds frame 0 of the reference segmentation -/
theorem startTx_adv (s : State) (r0 : Req) (a : Nat) (p : Bytes) (hv : s.cfg.valid = true) (hfr : Fresh r0 p)
    (h1 : 1 ≤ p.length) (hn : p.length < 4294967296)
    (hen : firstPull (TxCfg.of s.cfg s.addr) p.length ≤ r0.src.length) :
    Advance s (s.startTx r0 a).1 (s.startTx r0 a).2 r0 p 0 := by
  have hvt := valid_of s.cfg s.addr hv
  by_cases hff : NeedsFF (TxCfg.of s.cfg s.addr) p.length
  · obtain ⟨d0, hd0, h | h⟩ := startTx_ff s r0 a p hv hfr.1 hfr.2 hn hff (by simpa [firstPull, hff] using hen)
    · rw [h]; dsimp only
      have hmsg : frameMsg s.cfg s.addr (s.addr.tx.txId .physical) d0 = msgFor s r0 p d0 := by simp [msgFor, arbId, hff]
      refine Or.inr (Or.inl ⟨d0, hd0, by rw [hmsg], Or.inr ⟨Nat.le_refl 1, hff, carried_one_lt _ _ hvt hff, ?_, rfl, rfl,
        Or.inl rfl⟩, ⟨rfl, rfl, rfl, _, rfl, NoDone_pullLog _ _⟩⟩)
      dsimp only; rw [carried_one _ _ hvt hff]
    · rw [h]; dsimp only
      have hmsg : frameMsg s.cfg s.addr (s.addr.tx.txId .physical) d0 = msgFor s r0 p d0 := by simp [msgFor, arbId, hff]
      refine Or.inl ⟨rfl, Or.inl ⟨rfl, d0, hd0, by dsimp only; rw [hmsg]; rfl, Or.inr ⟨rfl, hff, ?_, rfl, rfl⟩⟩,
        ⟨rfl, rfl, rfl, _, rfl, NoDone_pullLog _ _⟩⟩
      dsimp only; rw [carried_one _ _ hvt hff]
  · have hsf : sfShort (TxCfg.of s.cfg s.addr) p.length ∨ sfEscape (TxCfg.of s.cfg s.addr) p.length := by
      by_cases hs : sfShort (TxCfg.of s.cfg s.addr) p.length
      · exact Or.inl hs
      · by_cases he : sfEscape (TxCfg.of s.cfg s.addr) p.length
        · exact Or.inr he
        · exact absurd ⟨hs, he⟩ hff
    obtain ⟨d0, hseg, h | h⟩ := startTx_sf s r0 a p hv hfr.1 hfr.2 h1 (by simpa [firstPull, hff] using hen) hsf
    · rw [h]; dsimp only
      have hmsg : frameMsg s.cfg s.addr (s.addr.tx.txId r0.tat) d0 = msgFor s r0 p d0 := by simp [msgFor, arbId, hff]
      refine Or.inr (Or.inr ⟨d0, by simp [segOf, hseg], by simp [segOf, hseg], by rw [hmsg],
        ⟨by simp, by simp, by simp, by simp, by simp, by simp, pullLog r0 p.length, ?_, NoDone_pullLog _ _⟩,
        by simpa [firstPull, hff] using hen⟩)
      rw [stopSending_log _ _ (Req.adv r0 p.length) rfl]; rfl
    · rw [h]; dsimp only
      have hmsg : frameMsg s.cfg s.addr (s.addr.tx.txId r0.tat) d0 = msgFor s r0 p d0 := by simp [msgFor, arbId, hff]
      exact Or.inl ⟨rfl, Or.inl ⟨rfl, d0, by dsimp only; simp [hseg], by dsimp only; rw [hmsg]; rfl,
        Or.inl ⟨rfl, hseg, hff, rfl, by simpa [firstPull, hff] using hen⟩⟩, ⟨rfl, rfl, rfl, _, rfl, NoDone_pullLog _ _⟩⟩


theorem Fresh.not_depleted {r0 : Req} {p : Bytes} (hfr : Fresh r0 p) (h1 : 1 ≤ p.length) : r0.depleted = false := by
  have h1' := hfr.1.flag
  have h2 := hfr.1.size
  have h3 := hfr.2
  unfold Req.depleted
  rw [h1', h2, h3]
  simp
  intro h; rw [h] at h1; simp at h1

/-- (C1, any generator) `startTx` on a fresh request builds frame 0 of the reference segmentation, or the generator
    ended before frame 0 could be filled and the transfer failed (no frame) -/
theorem startTx_out (s : State) (r0 : Req) (a : Nat) (p : Bytes) (hv : s.cfg.valid = true) (hfr : Fresh r0 p)
    (h1 : 1 ≤ p.length) (hn : p.length < 4294967296) :
    Outcome s (s.startTx r0 a).1 (s.startTx r0 a).2 r0 p 0 := by
  by_cases hen : firstPull (TxCfg.of s.cfg s.addr) p.length ≤ r0.src.length
  · exact Or.inl (startTx_adv s r0 a p hv hfr h1 hn hen)
  · exact Or.inr ((startTx_short s r0 a p hv hfr.1 hfr.2 (by omega)).2.failed rfl)

theorem txRest_start (s : State) (a : Nat) (r0 : Req) (rest : List Req) (p : Bytes)
    (hv : s.cfg.valid = true) (hfr : Fresh r0 p) (h1 : 1 ≤ p.length) (hn : p.length < 4294967296)
    (hexc : s.exc = none) (hst : s.txState = .idle) (hq : s.txQueue = r0 :: rest) :
    Outcome s (txRest s a).1 (txRest s a).2.1 r0 p 0 := by
  unfold txRest
  simp only [hst, ne_eq, not_true_eq_false, decide_false, Bool.false_and, Bool.false_eq_true, if_false]
  unfold txFsm
  simp only [hst]
  rw [hq]
  unfold readTxQueue
  simp only [hfr.not_depleted h1, Bool.false_eq_true, if_false]
  have h := startTx_out { s with txQueue := rest, active := some r0 } r0 a p hv hfr h1 hn
  generalize State.startTx { s with txQueue := rest, active := some r0 } r0 a = X at h ⊢
  obtain ⟨s1, out⟩ := X
  have hq0 : Quiet s { s with txQueue := rest, active := some r0 } := ⟨rfl, rfl, rfl, [], rfl, NoDone_nil⟩
  rcases h with h | h
  · exact Or.inl (Advance.wrap false hexc (Advance.of_quiet hq0 h))
  · exact Or.inr (Failed.wrap out false (Failed.of_quiet hq0 h))

/-- nothing happened to the (idle) transmit side except error reports -/
structure StillIdle (s s' : State) : Prop where
  txState : s'.txState = .idle
  active : s'.active = none
  txQueue : s'.txQueue = s.txQueue
  quiet : Quiet s s'

theorem StillIdle.stop_error (s : State) (e : Err) (_hst : s.txState = .idle) (hact : s.active = none) :
    StillIdle s ((s.error e).stopSending false) := by
  refine ⟨by simp, by simp, by simp [State.error, emit], by simp [State.error, emit], by simp [State.error, emit],
    by simp [State.error, emit], [Ev.err s.now e], ?_, NoDone_err _ _⟩
  simp [stopSending, State.error, emit, hact]

theorem txTail_start (s : State) (a : Nat) (r0 : Req) (rest : List Req) (p : Bytes)
    (hv : s.cfg.valid = true) (hfr : Fresh r0 p) (h1 : 1 ≤ p.length) (hn : p.length < 4294967296)
    (hexc : s.exc = none) (hst : s.txState = .idle) (hact : s.active = none) (hq : s.txQueue = r0 :: rest) :
    Outcome s (txTail s a).1 (txTail s a).2.1 r0 p 0 := by
  unfold txTail
  split
  · have hi := StillIdle.stop_error s .FlowControlTimeout hst hact
    exact Outcome.of_quiet hi.quiet (txRest_start _ a r0 rest p (by rw [hi.quiet.cfg]; exact hv) hfr h1 hn
      (by rw [hi.quiet.exc]; exact hexc) hi.txState (by rw [hi.txQueue]; exact hq))
  · exact txRest_start s a r0 rest p hv hfr h1 hn hexc hst hq

/-- a transmit pass of an idle layer whose queue starts with the fresh request `r0` for payload `p`: it builds
    frame 0 of the reference segmentation (emitted, or parked by the rate limiter), unless an Overflow Flow
    Control was pending in the mailbox, in which case this pass only reports it. -/
theorem txMain_start (s : State) (r0 : Req) (rest : List Req) (p : Bytes)
    (hv : s.cfg.valid = true) (hfr : Fresh r0 p) (h1 : 1 ≤ p.length) (hn : p.length < 4294967296)
    (hexc : s.exc = none)
    (hst : s.txState = .idle) (hact : s.active = none) (hq : s.txQueue = r0 :: rest) :
    Outcome s (txMain s).1 (txMain s).2.1 r0 p 0 ∨ ((txMain s).2.1 = none ∧ StillIdle s (txMain s).1) := by
  unfold txMain
  have hq0 : Quiet s { s with lastFc := none } := ⟨rfl, rfl, rfl, [], rfl, NoDone_nil⟩
  cases hfc : s.lastFc with
  | none =>
    dsimp only
    exact Or.inl (Outcome.of_quiet hq0 (txTail_start { s with lastFc := none } _ r0 rest p hv hfr h1 hn hexc hst hact hq))
  | some f =>
    dsimp only
    split
    · right
      refine ⟨rfl, by simp [State.error, emit], by simp [State.error, emit], by simp [State.error, emit],
        by simp [State.error, emit], by simp [State.error, emit], by simp [State.error, emit],
        [Ev.err s.now .Overflow], ?_, NoDone_err _ _⟩
      simp [stopSending, State.error, emit, hact]
    · left
      have hh : ({ s with lastFc := none } : State).handleFc f = ({ s with lastFc := none } : State).error .UnexpectedFlowControl := by
        unfold handleFc; rw [if_pos hst]
      rw [hh]
      have hq1 : Quiet s (({ s with lastFc := none } : State).error .UnexpectedFlowControl) :=
        ⟨rfl, rfl, rfl, [Ev.err s.now .UnexpectedFlowControl], rfl, NoDone_err _ _⟩
      exact Outcome.of_quiet hq1 (txTail_start _ _ r0 rest p hv hfr h1 hn hexc hst hact hq)

/-! ### frame conditions (C4): the other operations leave the transmit progress alone -/

theorem processRx_same (s : State) (m : CanMsg) : TxSame s (s.processRx m).1 := by
  refine ⟨?_, ?_, ?_, ?_, ?_, ?_, ?_, ?_⟩ <;>
  · unfold processRx startReception
    grind [deliver, stopReceiving, State.error, emit, requestFc, startRxCfTimer]

theorem checkTimeoutsRx_same (s : State) : TxSame s s.checkTimeoutsRx := by
  unfold checkTimeoutsRx
  split
  · exact ⟨rfl, rfl, rfl, rfl, rfl, rfl, rfl, rfl⟩
  · exact ⟨rfl, rfl, rfl, rfl, rfl, rfl, rfl, rfl⟩

theorem send_same (s : State) (a : SendArgs) : TxSame s (s.send a).1 := by
  unfold send
  dsimp only
  repeat' split
  all_goals exact ⟨rfl, rfl, rfl, rfl, rfl, rfl, rfl, rfl⟩

theorem recv_same (s : State) : TxSame s s.recv.1 := by
  unfold recv
  split <;> exact ⟨rfl, rfl, rfl, rfl, rfl, rfl, rfl, rfl⟩

theorem advance_same (s : State) (dt : Nat) : TxSame s (s.advance dt) := ⟨rfl, rfl, rfl, rfl, rfl, rfl, rfl, rfl⟩

theorem pushFrame_same (s : State) (dt : Nat) (m : CanMsg) : TxSame s (s.pushFrame dt m) :=
  ⟨rfl, rfl, rfl, rfl, rfl, rfl, rfl, rfl⟩


/-- the Flow Control frame the receive side asked for -/
def fcMsg (s : State) (st : Nat) : CanMsg :=
  frameMsg s.cfg s.addr (s.addr.tx.txId .physical)
    (padFrame (TxCfg.of s.cfg s.addr) (s.addr.tx.txPrefix ++ fcData st s.cfg.blocksize s.cfg.stmin))

theorem makeFlowControl_eq (s : State) (st : Nat) (hv : s.cfg.valid = true) :
    makeFlowControl s.cfg s.addr st = some (fcMsg s st) := by
  have hvt := valid_of s.cfg s.addr hv
  have hdl := txDl_fix _ hvt
  have hpre := hvt.pre
  simp only [TxCfg.of] at hdl hpre
  unfold makeFlowControl
  rw [makeTxMsg_eq _ _ hv _ _ (by simp [fcData]) (by simp [fcData]; omega)]
  rfl

/-- a pass that sends the Flow Control requested by the receive side (not in listen mode) does not touch
    the transmit progress -/
theorem processTx_pending_same (s : State) (hp : s.pendingFc = true) (hl : s.cfg.listen = false) :
    TxSame s s.processTx.1 := by
  refine ⟨?_, ?_, ?_, ?_, ?_, ?_, ?_, ?_⟩ <;>
  · unfold processTx
    simp only [hp, if_true]
    grind [startRxCfTimer, raise]

theorem processTx_pending_out (s : State) (st : Nat) (hv : s.cfg.valid = true) (hp : s.pendingFc = true)
    (hl : s.cfg.listen = false) (hst : s.pendingFcStatus = some st) :
    s.processTx.2.1 = some (fcMsg s st) := by
  unfold processTx
  simp only [hp, if_true, hst]
  by_cases h0 : st = 0
  · subst h0
    simp only [if_true, startRxCfTimer, hl, Bool.not_false]
    rw [makeFlowControl_eq s 0 hv]
  · simp only [h0, if_false, hl, Bool.not_false, if_true]
    rw [makeFlowControl_eq s st hv]

/-- the state after a pass that sends the requested Flow Control: only the request flag (and the N_Cr timer) change -/
theorem processTx_pending_eq (s : State) (st : Nat) (hv : s.cfg.valid = true) (hp : s.pendingFc = true)
    (hl : s.cfg.listen = false) (hst : s.pendingFcStatus = some st) :
    s.processTx = ((if st = 0 then ({ s with pendingFc := false } : State).startRxCfTimer
                    else { s with pendingFc := false }), some (fcMsg s st), true) := by
  unfold processTx
  simp only [hp, if_true, hst]
  by_cases h0 : st = 0
  · subst h0
    simp only [if_true, startRxCfTimer, hl, Bool.not_false]
    rw [makeFlowControl_eq s 0 hv]
  · simp only [h0, if_false, hl, Bool.not_false, if_true]
    rw [makeFlowControl_eq s st hv]

/-! ### the pending-Flow-Control request survives transmit passes consistently -/

/-- the "FC requested" flag and its status are untouched -/
def FcSame (s s' : State) : Prop := s'.pendingFc = s.pendingFc ∧ s'.pendingFcStatus = s.pendingFcStatus

theorem FcSame.refl (s : State) : FcSame s s := ⟨rfl, rfl⟩
theorem FcSame.trans {a b c : State} (h1 : FcSame a b) (h2 : FcSame b c) : FcSame a c :=
  ⟨h2.1.trans h1.1, h2.2.trans h1.2⟩

theorem stopSending_fcSame (s : State) (b : Bool) : FcSame s (s.stopSending b) := by
  unfold stopSending FcSame; cases s.active <;> exact ⟨rfl, rfl⟩

theorem startTx_fcSame (s : State) (r : Req) (a : Nat) : FcSame s (s.startTx r a).1 := by
  constructor
  · unfold startTx consumeActive
    grind [stopSending, State.error, emit, raise, startRxFcTimer]
  · unfold startTx consumeActive
    grind [stopSending, State.error, emit, raise, startRxFcTimer]

theorem transmitCf_fcSame (s : State) (a : Nat) : FcSame s (s.transmitCf a).1 := by
  constructor
  · unfold transmitCf consumeActive
    grind [stopSending, State.error, emit, raise, startRxFcTimer]
  · unfold transmitCf consumeActive
    grind [stopSending, State.error, emit, raise, startRxFcTimer]

theorem readTxQueue_fcSame (a : Nat) (q : List Req) : ∀ s : State, FcSame s (s.readTxQueue a q).1 := by
  induction q with
  | nil => intro s; exact ⟨rfl, rfl⟩
  | cons r rest ih =>
    intro s
    unfold readTxQueue
    dsimp only
    split
    · refine FcSame.trans ?_ (ih _)
      exact ⟨rfl, rfl⟩
    · refine FcSame.trans ?_ (startTx_fcSame _ r a)
      exact ⟨rfl, rfl⟩

theorem handleFc_fcSame (s : State) (f : FcFrame) : FcSame s (s.handleFc f) := by
  constructor
  · unfold handleFc
    grind [stopSending, State.error, emit, startRxFcTimer]
  · unfold handleFc
    grind [stopSending, State.error, emit, startRxFcTimer]

theorem standby_fcSame (s : State) (a : Nat) :
    FcSame s (match s.standby with
      | some msg =>
        if msg.data.length ≤ a then
          let s := { s with standby := none }
          if s.txState = .ffStandby then
            (({ s.startRxFcTimer with txState := .waitFc }), some msg, false)
          else (s.stopSending true, some msg, false)
        else (s, none, false)
      | none => (s, none, false) : State × Option CanMsg × Bool).1 := by
  cases s.standby with
  | none => exact ⟨rfl, rfl⟩
  | some msg =>
    dsimp only
    split
    · split
      · exact ⟨rfl, rfl⟩
      · exact FcSame.trans ⟨rfl, rfl⟩ (stopSending_fcSame _ _)
    · exact ⟨rfl, rfl⟩

theorem txFsm_fcSame (s : State) (a : Nat) : FcSame s (txFsm s a).1 := by
  unfold txFsm
  split
  · exact readTxQueue_fcSame a s.txQueue s
  · exact standby_fcSame s a
  · exact standby_fcSame s a
  · exact ⟨rfl, rfl⟩
  · exact transmitCf_fcSame s a

theorem txRest_core_fcSame (s : State) (a : Nat) (c : Bool) :
    FcSame s (let s := if c then s.stopSending true else s
      let (s, out, imm) := txFsm s a
      if s.exc.isSome then (s, none, false) else
      match out with
      | some msg => ({ s with rl := s.rl.inform s.now msg.data.length }, some msg, imm)
      | none => (s, none, imm) : State × Option CanMsg × Bool).1 := by
  dsimp only
  have h1 : FcSame s (if c = true then s.stopSending true else s) := by
    cases c
    · exact FcSame.refl s
    · exact stopSending_fcSame _ _
  refine FcSame.trans h1 ?_
  generalize (if c = true then s.stopSending true else s) = s1
  have h2 := txFsm_fcSame s1 a
  generalize txFsm s1 a = X at h2 ⊢
  obtain ⟨s2, out, imm⟩ := X
  dsimp only at h2 ⊢
  split
  · exact h2
  · split
    · exact FcSame.trans h2 ⟨rfl, rfl⟩
    · exact h2

theorem txRest_fcSame (s : State) (a : Nat) : FcSame s (txRest s a).1 := by
  unfold txRest
  split
  · exact ⟨rfl, rfl⟩
  · exact txRest_core_fcSame s a _

theorem txTail_fcSame (s : State) (a : Nat) : FcSame s (txTail s a).1 := by
  unfold txTail
  split
  · exact FcSame.trans (FcSame.trans (⟨rfl, rfl⟩ : FcSame s (s.error .FlowControlTimeout)) (stopSending_fcSame _ _))
      (txRest_fcSame _ a)
  · exact txRest_fcSame s a


/-! ### shape of the reference segmentation (part B) -/

theorem chunksAux_flatten (k : Nat) (hk : 1 ≤ k) (f : Nat) : ∀ (l : Bytes), l.length ≤ f →
    (chunksAux k f l).flatten = l := by
  induction f with
  | zero =>
    intro l hl
    have : l = [] := List.eq_nil_of_length_eq_zero (by omega)
    subst this; rfl
  | succ f ih =>
    intro l hl
    unfold chunksAux
    by_cases he : l.isEmpty = true
    · have : l = [] := by simpa using he
      subst this; rfl
    · simp only [he, Bool.false_eq_true, if_false, List.flatten_cons]
      have hpos : 0 < l.length := by
        cases l with
        | nil => simp at he
        | cons => simp
      rw [ih (l.drop k) (by simp; omega), List.take_append_drop]

/-- the pieces put back together give the payload -/
theorem chunks_flatten (k : Nat) (hk : 1 ≤ k) (l : Bytes) : (chunks k l).flatten = l :=
  chunksAux_flatten k hk l.length l (Nat.le_refl _)

/-- every piece has 1..k bytes; every piece but the last has exactly k bytes -/
theorem chunks_piece (k : Nat) (hk : 1 ≤ k) (l : Bytes) (i : Nat) (c : Bytes) (h : (chunks k l)[i]? = some c) :
    1 ≤ c.length ∧ c.length ≤ k ∧ ((chunks k l)[i + 1]? ≠ none → c.length = k) := by
  rw [chunks_getElem? k hk] at h
  rw [chunks_getElem? k hk]
  split at h
  · rename_i hlt
    cases h
    simp only [List.length_take, List.length_drop]
    refine ⟨by omega, by omega, ?_⟩
    intro h2
    split at h2
    · rename_i h3; rw [Nat.succ_mul] at h3; omega
    · exact absurd rfl h2
  · cases h

theorem frame_len_ok (tc : TxCfg) (hv : ValidTx tc) (x : Bytes) (hx : x.length ≤ tc.txDl) :
    legal (padFrame tc x).length ∧ (padFrame tc x).length ≤ tc.txDl ∧ x <+: padFrame tc x := by
  rw [length_padFrame]
  exact ⟨padTarget_legal tc hv _ hx, padTarget_le tc hv _ hx, by unfold padFrame; exact List.prefix_append _ _⟩

/-- (B1) every frame of the reference segmentation has a legal CAN (FD) length not above `tx_data_length`
    and starts with the address prefix -/
theorem segment_frames_legal (tc : TxCfg) (hv : ValidTx tc) (p : Bytes) (d : Bytes) (hd : d ∈ segment tc p) :
    legal d.length ∧ d.length ≤ tc.txDl ∧ tc.pre <+: d := by
  have hdl := txDl_fix tc hv
  have hpre := hv.pre
  have key : ∀ x : Bytes, x.length ≤ tc.txDl → tc.pre <+: x → d = padFrame tc x →
      legal d.length ∧ d.length ≤ tc.txDl ∧ tc.pre <+: d := by
    intro x hx hp he
    subst he
    obtain ⟨h1, h2, h3⟩ := frame_len_ok tc hv x hx
    exact ⟨h1, h2, List.IsPrefix.trans hp h3⟩
  by_cases hs : sfShort tc p.length
  · rw [segment_sfShort tc p hs] at hd
    have hs' := (sfShort_iff tc p.length).mp hs
    exact key (tc.pre ++ [UInt8.ofNat p.length] ++ p) (by simp; omega) (by simp [List.append_assoc])
      (by simpa using hd)
  · by_cases he : sfEscape tc p.length
    · rw [segment_sfEscape tc p he] at hd
      have he' := he.2
      exact key (tc.pre ++ [0x00, UInt8.ofNat p.length] ++ p) (by simp; omega) (by simp [List.append_assoc])
        (by simpa using hd)
    · have hff : NeedsFF tc p.length := ⟨hs, he⟩
      obtain ⟨i, hi⟩ := List.mem_iff_getElem?.mp hd
      cases i with
      | zero =>
        rw [segment_ff_zero tc p hff] at hi
        have hlt := ffRoom_lt tc p.length hff hv
        refine key _ ?_ (by simp [List.append_assoc]) (Option.some.inj hi).symm
        simp only [List.length_append, List.length_take]
        unfold ffHeader ffRoom be32
        split <;> simp <;> omega
      | succ j =>
        rw [segment_ff_succ tc hv p hff (j + 1) (by omega)] at hi
        split at hi
        · refine key _ ?_ (by simp [List.append_assoc]) (Option.some.inj hi).symm
          simp only [List.length_append, List.length_take, List.length_cons, List.length_nil]
          unfold cfRoom; omega
        · cases hi

/-- (B2) one frame exactly when the payload fits a Single Frame -/
theorem segment_single_iff (tc : TxCfg) (hv : ValidTx tc) (p : Bytes) :
    (segment tc p).length = 1 ↔ (sfShort tc p.length ∨ sfEscape tc p.length) := by
  constructor
  · intro h
    by_cases hs : sfShort tc p.length
    · exact Or.inl hs
    · by_cases he : sfEscape tc p.length
      · exact Or.inr he
      · exfalso
        have hff : NeedsFF tc p.length := ⟨hs, he⟩
        have h1 := segment_ff_succ tc hv p hff 1 (Nat.le_refl 1)
        rw [if_pos (carried_one_lt tc _ hv hff)] at h1
        have : (segment tc p)[1]? = none := List.getElem?_eq_none_iff.mpr (by omega)
        rw [this] at h1; cases h1
  · rintro (h | h)
    · rw [segment_sfShort tc p h]; rfl
    · rw [segment_sfEscape tc p h]; rfl

/-- (B3) the First Frame carries the first `ffRoom` bytes and the Consecutive Frame pieces are the rest, in order -/
theorem segment_payload (tc : TxCfg) (hv : ValidTx tc) (p : Bytes) :
    p.take (ffRoom tc p.length) ++ (chunks (cfRoom tc) (p.drop (ffRoom tc p.length))).flatten = p := by
  rw [chunks_flatten _ (cfRoom_pos tc hv), List.take_append_drop]

/-! ### `processTx` for every state of the pending-Flow-Control flag -/

/-- a requested Flow Control always has a status (`pending_flow_control_status` exists) -/
def FcOk (s : State) : Prop := s.pendingFc = true → s.pendingFcStatus.isSome = true

/-- `true` when the next transmit pass only sends the Flow Control requested by the receive side -/
def fcPass (s : State) : Bool := s.pendingFc && !s.cfg.listen

/-- the pending-FC bookkeeping done at the top of `_process_tx` -/
def afterFcReq (s : State) (st : Nat) : State :=
  if st = 0 then ({ s with pendingFc := false } : State).startRxCfTimer else { s with pendingFc := false }

theorem afterFcReq_same (s : State) (st : Nat) : TxSame s (afterFcReq s st) := by
  unfold afterFcReq; split <;> exact ⟨rfl, rfl, rfl, rfl, rfl, rfl, rfl, rfl⟩

theorem afterFcReq_quiet (s : State) (st : Nat) : Quiet s (afterFcReq s st) := by
  unfold afterFcReq; split <;> exact ⟨rfl, rfl, rfl, [], rfl, NoDone_nil⟩

theorem afterFcReq_pending (s : State) (st : Nat) : (afterFcReq s st).pendingFc = false := by
  unfold afterFcReq; split <;> rfl

theorem afterFcReq_queue (s : State) (st : Nat) :
    (afterFcReq s st).txQueue = s.txQueue ∧ (afterFcReq s st).lastFc = s.lastFc ∧ (afterFcReq s st).rl = s.rl := by
  unfold afterFcReq; split <;> exact ⟨rfl, rfl, rfl⟩

/-- the pass runs the data part of `_process_tx` on state `s1` (`s` itself, or `s` after the listen-mode
    bookkeeping of a requested Flow Control) -/
theorem processTx_data (s : State) (hfc : FcOk s) (hd : fcPass s = false) :
    ∃ s1, s.processTx = txMain s1 ∧ TxSame s s1 ∧ Quiet s s1 ∧ s1.txQueue = s.txQueue ∧ s1.pendingFc = false := by
  by_cases hp : s.pendingFc = true
  · have hl : s.cfg.listen = true := by simpa [fcPass, hp] using hd
    obtain ⟨st, hst⟩ := Option.isSome_iff_exists.mp (hfc hp)
    exact ⟨afterFcReq s st, processTx_listen s st hp hl hst, afterFcReq_same s st, afterFcReq_quiet s st,
      (afterFcReq_queue s st).1, afterFcReq_pending s st⟩
  · have hp' : s.pendingFc = false := by simpa using hp
    exact ⟨s, processTx_eq_main s hp', ⟨rfl, rfl, rfl, rfl, rfl, rfl, rfl, rfl⟩, Quiet.refl s, rfl, hp'⟩

/-- (C3) a data pass of `_process_tx` while `k` frames of `p` are out -/
theorem processTx_inv (s : State) (r0 : Req) (p : Bytes) (k : Nat)
    (hv : s.cfg.valid = true) (hfr : Fresh r0 p) (hexc : s.exc = none) (hfc : FcOk s) (hd : fcPass s = false)
    (hi : TxInv s r0 p k) :
    Outcome s s.processTx.1 s.processTx.2.1 r0 p k := by
  obtain ⟨s1, he, hsame, hq, -, -⟩ := processTx_data s hfc hd
  rw [he]
  exact Outcome.of_quiet hq (txMain_inv s1 r0 p k (by rw [hq.cfg]; exact hv) hfr (by rw [hq.exc]; exact hexc)
    (hsame.inv _ _ _ hi))

theorem StillIdle.of_quiet {s s1 s' : State} (hq : Quiet s s1) (hqq : s1.txQueue = s.txQueue) (h : StillIdle s1 s') :
    StillIdle s s' :=
  ⟨h.txState, h.active, h.txQueue.trans hqq, hq.trans h.quiet⟩

/-- (C3, start) a data pass of an idle layer whose queue starts with the fresh request `r0` -/
theorem processTx_start (s : State) (r0 : Req) (rest : List Req) (p : Bytes)
    (hv : s.cfg.valid = true) (hfr : Fresh r0 p) (h1 : 1 ≤ p.length) (hn : p.length < 4294967296)
    (hexc : s.exc = none) (hfc : FcOk s) (hd : fcPass s = false)
    (hst : s.txState = .idle) (hact : s.active = none) (hq : s.txQueue = r0 :: rest) :
    Outcome s s.processTx.1 s.processTx.2.1 r0 p 0 ∨ (s.processTx.2.1 = none ∧ StillIdle s s.processTx.1) := by
  obtain ⟨s1, he, hsame, hqu, hqq, -⟩ := processTx_data s hfc hd
  rw [he]
  rcases txMain_start s1 r0 rest p (by rw [hqu.cfg]; exact hv) hfr h1 hn (by rw [hqu.exc]; exact hexc)
    (by rw [hsame.txState]; exact hst) (by rw [hsame.active]; exact hact) (by rw [hqq]; exact hq) with h | ⟨h, h'⟩
  · exact Or.inl (Outcome.of_quiet hqu h)
  · exact Or.inr ⟨h, StillIdle.of_quiet hqu hqq h'⟩

/-- (C3, FC pass) a pass that sends the requested Flow Control leaves the transfer where it was -/
theorem processTx_fc (s : State) (hv : s.cfg.valid = true) (hfc : FcOk s) (hd : fcPass s = true) :
    ∃ st, s.pendingFcStatus = some st ∧ s.processTx = (afterFcReq s st, some (fcMsg s st), true) := by
  have hp : s.pendingFc = true := by
    cases h : s.pendingFc
    · simp [fcPass, h] at hd
    · rfl
  have hl : s.cfg.listen = false := by simpa [fcPass, hp] using hd
  obtain ⟨st, hst⟩ := Option.isSome_iff_exists.mp (hfc hp)
  exact ⟨st, hst, processTx_pending_eq s st hv hp hl hst⟩

theorem txMain_fcSame (s : State) : FcSame s (txMain s).1 := by
  unfold txMain
  have h0 : FcSame s { s with lastFc := none } := ⟨rfl, rfl⟩
  cases s.lastFc with
  | none => exact FcSame.trans h0 (txTail_fcSame _ _)
  | some f =>
    dsimp only
    split
    · have h1 := stopSending_fcSame { s with lastFc := none } false
      have h2 : FcSame (({ s with lastFc := none } : State).stopSending false)
        ((({ s with lastFc := none } : State).stopSending false).error .Overflow) := ⟨rfl, rfl⟩
      exact FcSame.trans h0 (FcSame.trans h1 h2)
    · exact FcSame.trans h0 (FcSame.trans (handleFc_fcSame _ f) (txTail_fcSame _ _))

theorem processTx_fcOk (s : State) (hv : s.cfg.valid = true) (h : FcOk s) : FcOk s.processTx.1 := by
  by_cases hd : fcPass s = true
  · obtain ⟨st, -, he⟩ := processTx_fc s hv h hd
    rw [he]
    intro h2; rw [afterFcReq_pending] at h2; cases h2
  · obtain ⟨s1, he, -, -, -, hp1⟩ := processTx_data s h (by simpa using hd)
    rw [he]
    intro h2; rw [(txMain_fcSame s1).1, hp1] at h2; cases h2


/-! ### runs of the single-threaded API -/

/-- operations of the public API other than a transmit pass -/
inductive Op where
  | rx (m : CanMsg)              -- `_process_rx(m)`
  | timeouts                     -- `_check_timeouts_rx()`
  | send (a : SendArgs)
  | recv
  | advance (dt : Nat)           -- time passes
  | push (dt : Nat) (m : CanMsg) -- a frame arrives on the bus side

def Op.apply (s : State) : Op → State
  | .rx m => (s.processRx m).1
  | .timeouts => s.checkTimeoutsRx
  | .send a => (s.send a).1
  | .recv => s.recv.1
  | .advance dt => s.advance dt
  | .push dt m => s.pushFrame dt m

theorem Op.same (s : State) (o : Op) : TxSame s (o.apply s) := by
  cases o
  · exact processRx_same s _
  · exact checkTimeoutsRx_same s
  · exact send_same s _
  · exact recv_same s
  · exact advance_same s _
  · exact pushFrame_same s _ _

theorem Op.exc (s : State) (o : Op) : (o.apply s).exc = s.exc := by
  cases o
  · show (s.processRx _).1.exc = s.exc
    unfold processRx startReception
    grind [deliver, stopReceiving, State.error, emit, requestFc, startRxCfTimer]
  · show s.checkTimeoutsRx.exc = s.exc
    unfold checkTimeoutsRx; split <;> rfl
  · show (s.send _).1.exc = s.exc
    unfold State.send; dsimp only; repeat' split
    all_goals rfl
  · show s.recv.1.exc = s.exc
    unfold State.recv; split <;> rfl
  · rfl
  · rfl

theorem Op.fcOk (s : State) (o : Op) (h : FcOk s) : FcOk (o.apply s) := by
  cases o
  · show FcOk (s.processRx _).1
    unfold FcOk at *
    unfold processRx startReception
    grind [deliver, stopReceiving, State.error, emit, requestFc, startRxCfTimer]
  · show FcOk s.checkTimeoutsRx
    unfold FcOk at *
    unfold checkTimeoutsRx; split
    · intro h2; cases h2
    · exact h
  · show FcOk (s.send _).1
    unfold State.send; dsimp only; repeat' split
    all_goals exact h
  · show FcOk s.recv.1
    unfold State.recv; split <;> exact h
  · exact h
  · exact h


/-- request `r0` is at the head of the transmit queue of an idle layer -/
def TxQueued (s : State) (r0 : Req) : Prop := s.txState = .idle ∧ s.active = none ∧ ∃ rest, s.txQueue = r0 :: rest

/-- `k` frames of `p` are out: the request is still queued (k = 0), or in flight -/
def TxInv0 (s : State) (r0 : Req) (p : Bytes) (k : Nat) : Prop := (k = 0 ∧ TxQueued s r0) ∨ TxInv s r0 p k

/-- outcome of one data pass of `_process_tx` for request `r0` (payload `p`, `k` frames out): nothing emitted; or
    frame `k` emitted and more to come; or frame `k` was the last one and the request completed; or the transfer failed -/
def Pass (s s' : State) (out : Option CanMsg) (r0 : Req) (p : Bytes) (k : Nat) : Prop :=
  (out = none ∧ TxInv0 s' r0 p k ∧ Quiet s s') ∨
  (∃ d, (segOf s p)[k]? = some d ∧ out = some (msgFor s r0 p d) ∧ TxInv0 s' r0 p (k + 1) ∧ Quiet s s') ∨
  (∃ d, (segOf s p)[k]? = some d ∧ (segOf s p).length = k + 1 ∧ out = some (msgFor s r0 p d) ∧ Finished s s' r0 ∧
      p.length ≤ r0.src.length) ∨
  Failed s s' r0

theorem Advance.pass {s s' : State} {out : Option CanMsg} {r0 : Req} {p : Bytes} {k : Nat}
    (h : Advance s s' out r0 p k) : Pass s s' out r0 p k := by
  rcases h with ⟨h1, h2, h3⟩ | ⟨d, h1, h2, h3, h4⟩ | h
  · exact Or.inl ⟨h1, Or.inr h2, h3⟩
  · exact Or.inr (Or.inl ⟨d, h1, h2, Or.inr h3, h4⟩)
  · exact Or.inr (Or.inr (Or.inl h))

theorem firstPull_le (tc : TxCfg) (hv : ValidTx tc) (n : Nat) : firstPull tc n ≤ n := by
  unfold firstPull
  split
  · rename_i h; exact Nat.le_of_lt (ffRoom_lt tc n h hv)
  · exact Nat.le_refl n

theorem carried_le (tc : TxCfg) (n k : Nat) : carried tc n k ≤ n := by
  unfold carried; split <;> omega

/-- the generator yields at least the declared number of values (always the case for a bytes payload) -/
def Full (r0 : Req) (p : Bytes) : Prop := p.length ≤ r0.src.length

theorem Outcome.pass {s s' : State} {out : Option CanMsg} {r0 : Req} {p : Bytes} {k : Nat}
    (h : Outcome s s' out r0 p k) : Pass s s' out r0 p k := by
  rcases h with h | h
  · exact h.pass
  · exact Or.inr (Or.inr (Or.inr h))

/-- (C3) every data pass of `_process_tx`, from the moment the request is at the head of the queue, for any generator -/
theorem processTx_pass (s : State) (r0 : Req) (p : Bytes) (k : Nat)
    (hv : s.cfg.valid = true) (hfr : Fresh r0 p) (h1 : 1 ≤ p.length) (hn : p.length < 4294967296)
    (hexc : s.exc = none) (hfc : FcOk s) (hd : fcPass s = false) (hi : TxInv0 s r0 p k) :
    Pass s s.processTx.1 s.processTx.2.1 r0 p k := by
  rcases hi with ⟨hk, hst, hact, rest, hq⟩ | hi
  · subst hk
    rcases processTx_start s r0 rest p hv hfr h1 hn hexc hfc hd hst hact hq with h | ⟨h, h'⟩
    · exact h.pass
    · exact Or.inl ⟨h, Or.inl ⟨rfl, h'.txState, h'.active, rest, by rw [h'.txQueue]; exact hq⟩, h'.quiet⟩
  · exact (processTx_inv s r0 p k hv hfr hexc hfc hd hi).pass

theorem Op.queue (s : State) (o : Op) : ∃ more, (o.apply s).txQueue = s.txQueue ++ more := by
  cases o
  · refine ⟨[], ?_⟩
    show (s.processRx _).1.txQueue = s.txQueue ++ []
    rw [List.append_nil]
    unfold processRx startReception
    grind [deliver, stopReceiving, State.error, emit, requestFc, startRxCfTimer]
  · refine ⟨[], ?_⟩
    show s.checkTimeoutsRx.txQueue = s.txQueue ++ []
    unfold checkTimeoutsRx; split <;> simp [stopReceiving, State.error, emit]
  · show ∃ more, (s.send _).1.txQueue = s.txQueue ++ more
    unfold State.send; dsimp only; repeat' split
    all_goals first | exact ⟨[], (List.append_nil _).symm⟩ | exact ⟨[_], rfl⟩
  · refine ⟨[], ?_⟩
    show s.recv.1.txQueue = s.txQueue ++ []
    unfold State.recv; split <;> simp
  · exact ⟨[], (List.append_nil _).symm⟩
  · exact ⟨[], (List.append_nil _).symm⟩

theorem Op.inv0 (s : State) (o : Op) (r0 : Req) (p : Bytes) (k : Nat) (hi : TxInv0 s r0 p k) :
    TxInv0 (o.apply s) r0 p k := by
  rcases hi with ⟨hk, hst, hact, rest, hq⟩ | hi
  · obtain ⟨more, hm⟩ := Op.queue s o
    exact Or.inl ⟨hk, (Op.same s o).txState.trans hst, (Op.same s o).active.trans hact, rest ++ more,
      by rw [hm, hq]; rfl⟩
  · exact Or.inr ((Op.same s o).inv _ _ _ hi)

theorem afterFcReq_inv0 (s : State) (st : Nat) (r0 : Req) (p : Bytes) (k : Nat) (hi : TxInv0 s r0 p k) :
    TxInv0 (afterFcReq s st) r0 p k := by
  rcases hi with ⟨hk, hst, hact, rest, hq⟩ | hi
  · exact Or.inl ⟨hk, (afterFcReq_same s st).txState.trans hst, (afterFcReq_same s st).active.trans hact, rest,
      by rw [(afterFcReq_queue s st).1]; exact hq⟩
  · exact Or.inr ((afterFcReq_same s st).inv _ _ _ hi)

inductive Step where
  | tx            -- one `_process_tx` pass (its message, if any, goes to the CAN layer)
  | op (o : Op)

/-- run a sequence of API steps; collects the *data* frames handed to the CAN layer (the output of a pass that
    only sends the Flow Control requested by the receive side is not collected) -/
def run : List Step → State → State × List CanMsg
  | [], s => (s, [])
  | .tx :: rest, s =>
    let o := if fcPass s then none else s.processTx.2.1
    let r := run rest s.processTx.1
    (r.1, o.toList ++ r.2)
  | .op o :: rest, s => run rest (o.apply s)

/-- log extended by non-completion events only (no `SendRequest.complete` call) -/
def QLog (s s' : State) : Prop := ∃ evs, s'.log = evs ++ s.log ∧ NoDone evs

theorem QLog.refl (s : State) : QLog s s := ⟨[], rfl, NoDone_nil⟩

theorem QLog.trans {a b c : State} (h1 : QLog a b) (h2 : QLog b c) : QLog a c := by
  obtain ⟨e1, l1, n1⟩ := h1
  obtain ⟨e2, l2, n2⟩ := h2
  exact ⟨e2 ++ e1, by rw [l2, l1, List.append_assoc], NoDone_append n2 n1⟩

macro "qlog" : tactic => `(tactic|
  (first | exact ⟨[], rfl, by simp [NoDone]⟩ | exact ⟨[_], rfl, by simp [NoDone]⟩ | exact ⟨[_, _], rfl, by simp [NoDone]⟩
         | exact ⟨[_, _, _], rfl, by simp [NoDone]⟩))

theorem processRx_qlog (s : State) (m : CanMsg) : QLog s (s.processRx m).1 := by
  unfold QLog processRx startReception
  dsimp only
  repeat' split
  all_goals (simp only [deliver, stopReceiving, State.error, emit, requestFc, startRxCfTimer])
  all_goals qlog

theorem Op.qlog (s : State) (o : Op) : QLog s (o.apply s) := by
  cases o
  · exact processRx_qlog s _
  · show QLog s s.checkTimeoutsRx
    unfold QLog checkTimeoutsRx
    split
    · simp only [stopReceiving, State.error, emit]; qlog
    · qlog
  · show QLog s (s.send _).1
    unfold State.send; dsimp only; repeat' split
    all_goals exact QLog.refl s
  · show QLog s s.recv.1
    unfold State.recv; split <;> exact QLog.refl s
  · exact QLog.refl s
  · exact QLog.refl s

/-- the layer still has the configuration of `s0`, has not raised, its FC request flag is consistent, and no request
    completion has been logged since `s0` -/
structure Live (s0 s : State) : Prop where
  cfg : s.cfg = s0.cfg
  addr : s.addr = s0.addr
  exc : s.exc = none
  fcOk : FcOk s
  log : QLog s0 s

/-- `outs` are exactly the frames number `k, k+1, …` of the reference segmentation of `p`, as CAN messages -/
def Sent (s0 : State) (r0 : Req) (p : Bytes) (k : Nat) (outs : List CanMsg) : Prop :=
  outs = (((segOf s0 p).drop k).take outs.length).map (msgFor s0 r0 p)

/-- what a run can have done to the transfer of `p` that had `k` frames out: still in flight with exactly the next
    frames emitted; or it ended at some transmit pass, before which it was in flight, and that pass either emitted
    the last frame (so that all frames from `k` on have been emitted, in order) and completed the request, or the
    transfer failed. -/
def RunRes (s0 : State) (r0 : Req) (p : Bytes) (k : Nat) (steps : List Step) (s : State) : Prop :=
  (TxInv0 (run steps s).1 r0 p (k + (run steps s).2.length) ∧ Live s0 (run steps s).1 ∧ Sent s0 r0 p k (run steps s).2) ∨
  (∃ pre post, steps = pre ++ Step.tx :: post ∧
     TxInv0 (run pre s).1 r0 p (k + (run pre s).2.length) ∧ Live s0 (run pre s).1 ∧ Sent s0 r0 p k (run pre s).2 ∧
     fcPass (run pre s).1 = false ∧
     ((∃ d, (run pre s).1.processTx.2.1 = some (msgFor s0 r0 p d) ∧
          (run pre s).2 ++ [msgFor s0 r0 p d] = ((segOf s0 p).drop k).map (msgFor s0 r0 p) ∧
          Finished (run pre s).1 (run pre s).1.processTx.1 r0 ∧ p.length ≤ r0.src.length)
      ∨ Failed (run pre s).1 (run pre s).1.processTx.1 r0))

theorem drop_of_getElem? {α : Type} (l : List α) (k : Nat) (d : α) (h : l[k]? = some d) :
    l.drop k = d :: l.drop (k + 1) := by
  obtain ⟨hk, hd⟩ := List.getElem?_eq_some_iff.mp h
  rw [List.drop_eq_getElem_cons hk, hd]

/-- lifting through a step that emits nothing and keeps the transfer where it is -/
theorem RunRes.skip {s0 : State} {r0 : Req} {p : Bytes} {k : Nat} {st : Step} {rest : List Step} {s s1 : State}
    (hrun : ∀ l, run (st :: l) s = run l s1) (h : RunRes s0 r0 p k rest s1) : RunRes s0 r0 p k (st :: rest) s := by
  rcases h with h | ⟨pre, post, he, h⟩
  · left; rw [hrun]; exact h
  · right
    refine ⟨st :: pre, post, by rw [he]; rfl, ?_⟩
    rw [hrun]; exact h

/-- lifting through a transmit pass that emits frame `k` -/
theorem RunRes.emit {s0 : State} {r0 : Req} {p : Bytes} {k : Nat} {rest : List Step} {s s1 : State} {d : Bytes}
    (hd : (segOf s0 p)[k]? = some d)
    (hrun : ∀ l, run (Step.tx :: l) s = ((run l s1).1, msgFor s0 r0 p d :: (run l s1).2))
    (h : RunRes s0 r0 p (k + 1) rest s1) : RunRes s0 r0 p k (Step.tx :: rest) s := by
  have hdrop := drop_of_getElem? _ _ _ hd
  rcases h with ⟨h1, h2, h3⟩ | ⟨pre, post, he, h1, h2, h3, h4, h5⟩
  · left
    rw [hrun]
    refine ⟨by simpa [Nat.add_assoc, Nat.add_comm 1] using h1, h2, ?_⟩
    unfold Sent at h3 ⊢
    simp only [List.length_cons, hdrop, List.take_succ_cons, List.map_cons]
    rw [← h3]
  · right
    refine ⟨Step.tx :: pre, post, by rw [he]; rfl, ?_⟩
    rw [hrun]
    refine ⟨by simpa [Nat.add_assoc, Nat.add_comm 1] using h1, h2, ?_, h4, ?_⟩
    · unfold Sent at h3 ⊢
      simp only [List.length_cons, hdrop, List.take_succ_cons, List.map_cons]
      rw [← h3]
    · rcases h5 with ⟨d', hd1, hd2, hd3⟩ | h5
      · left
        refine ⟨d', hd1, ?_, hd3⟩
        simp only [hdrop, List.map_cons, List.cons_append]
        rw [hd2]
      · exact Or.inr h5


theorem Live.segOf {s0 s : State} (h : Live s0 s) (p : Bytes) : segOf s p = segOf s0 p := by
  simp only [Proofs.segOf, h.cfg, h.addr]

theorem Live.msgFor {s0 s : State} (h : Live s0 s) (r0 : Req) (p d : Bytes) : msgFor s r0 p d = msgFor s0 r0 p d := by
  simp only [Proofs.msgFor, arbId, h.cfg, h.addr]

theorem Live.of_quiet {s0 s s' : State} (h : Live s0 s) (hq : Quiet s s') (hf : FcOk s') : Live s0 s' :=
  ⟨hq.cfg.trans h.cfg, hq.addr.trans h.addr, hq.exc.trans h.exc, hf, QLog.trans h.log hq.log⟩

/-- (C3, runs) from the moment the request for `p` is at the head of the queue, whatever the API does, the data frames
    handed to the CAN layer are exactly the next frames of the reference segmentation, in order, until the transfer
    completes (then all of them have been emitted) or fails. -/
theorem run_segment (s0 : State) (r0 : Req) (p : Bytes) (hv : s0.cfg.valid = true) (hfr : Fresh r0 p)
    (h1 : 1 ≤ p.length) (hn : p.length < 4294967296) :
    ∀ (steps : List Step) (s : State) (k : Nat), Live s0 s → TxInv0 s r0 p k → RunRes s0 r0 p k steps s := by
  intro steps
  induction steps with
  | nil =>
    intro s k hl hi
    exact Or.inl ⟨hi, hl, by simp [Sent, run]⟩
  | cons st rest ih =>
    intro s k hl hi
    have hvs : s.cfg.valid = true := by rw [hl.cfg]; exact hv
    cases st with
    | op o =>
      refine RunRes.skip (s1 := o.apply s) (fun l => rfl) (ih _ k ?_ (Op.inv0 s o r0 p k hi))
      exact ⟨(Op.same s o).cfg.trans hl.cfg, (Op.same s o).addr.trans hl.addr, (Op.exc s o).trans hl.exc,
        Op.fcOk s o hl.fcOk, QLog.trans hl.log (Op.qlog s o)⟩
    | tx =>
      have hfc' := processTx_fcOk s hvs hl.fcOk
      by_cases hd : fcPass s = true
      · obtain ⟨stt, -, he⟩ := processTx_fc s hvs hl.fcOk hd
        have hs1 : s.processTx.1 = afterFcReq s stt := by rw [he]
        refine RunRes.skip (s1 := afterFcReq s stt) ?_ (ih _ k ?_ (afterFcReq_inv0 s stt r0 p k hi))
        · intro l
          simp only [run, hd, if_true, Option.toList_none, List.nil_append, hs1]
        · exact hl.of_quiet (afterFcReq_quiet s stt) (by rw [← hs1]; exact hfc')
      · have hd' : fcPass s = false := by simpa using hd
        rcases processTx_pass s r0 p k hvs hfr h1 hn hl.exc hl.fcOk hd' hi with
          ⟨ho, hi1, hq⟩ | ⟨d, hdk, ho, hi1, hq⟩ | ⟨d, hdk, hlen, ho, hfin⟩ | hfail
        · refine RunRes.skip (s1 := s.processTx.1) ?_ (ih _ k (hl.of_quiet hq hfc') hi1)
          intro l
          simp only [run, hd', Bool.false_eq_true, if_false, ho, Option.toList_none, List.nil_append]
        · rw [hl.segOf] at hdk
          rw [hl.msgFor] at ho
          refine RunRes.emit (s1 := s.processTx.1) hdk ?_ (ih _ (k + 1) (hl.of_quiet hq hfc') hi1)
          intro l
          simp only [run, hd', Bool.false_eq_true, if_false, ho, Option.toList_some, List.singleton_append]
        · rw [hl.segOf] at hdk hlen
          rw [hl.msgFor] at ho
          right
          refine ⟨[], rest, rfl, by simpa [run] using hi, hl, by simp [Sent, run], hd', Or.inl ⟨d, ho, ?_, hfin⟩⟩
          have hdrop := drop_of_getElem? _ _ _ hdk
          rw [hdrop, List.drop_eq_nil_of_le (by omega)]
          simp [run]
        · right
          exact ⟨[], rest, rfl, by simpa [run] using hi, hl, by simp [Sent, run], hd', Or.inr hfail⟩

/-! ### `send` (part D) -/

theorem send_too_big (s : State) (a : SendArgs) (h : a.size > 0xFFFFFFFF) : s.send a = (s, some .ValueError) := by
  unfold State.send
  dsimp only
  have h1 : ¬ a.size < 0 := by omega
  rw [if_neg h1, if_pos h]

theorem send_negative (s : State) (a : SendArgs) (h : a.size < 0) : s.send a = (s, some .ValueError) := by
  unfold State.send
  dsimp only
  rw [if_pos h]

/-- the request object `send` builds -/
def reqOf (s : State) (a : SendArgs) : Req :=
  { id := a.id, size := a.size.toNat, src := a.src, tat := a.tat.getD s.cfg.defaultTat, instr := a.instr }

theorem send_accepts (s : State) (a : SendArgs) (h0 : 0 ≤ a.size) (h1 : a.size ≤ 0xFFFFFFFF)
    (hf : ¬ (a.tat.getD s.cfg.defaultTat = .functional ∧
            a.size.toNat + (if s.cfg.txDl = 8 then 1 else 2) + s.txPrefixLen > s.cfg.txDl)) :
    (s.send a).1 = { s with txQueue := s.txQueue ++ [reqOf s a] } ∧
    (s.send a).2 = (if s.cfg.blocking then some .BlockingSendTimeout else none) := by
  unfold State.send
  dsimp only
  rw [if_neg (by omega), if_neg (by omega)]
  have : ¬ ((decide (a.tat.getD s.cfg.defaultTat = .functional) &&
      decide (a.size.toNat + (if s.cfg.txDl = 8 then 1 else 2) + s.txPrefixLen > s.cfg.txDl)) = true) := by
    simpa using hf
  rw [if_neg this]
  split <;> exact ⟨rfl, rfl⟩

/-- a bytes payload (or a generator that yields at least `size` values) gives a fresh request for its first `size`
    values -/
theorem reqOf_fresh (s : State) (a : SendArgs) (p : Bytes) (hs : a.size = p.length) (hp : a.src.take p.length = p) :
    Fresh (reqOf s a) p ∧ Full (reqOf s a) p := by
  refine ⟨⟨⟨by simp [reqOf, hs], by simp [reqOf], ?_, rfl⟩, rfl⟩, ?_⟩
  · simp [reqOf, hs, hp]
  · have := congrArg List.length hp
    simp only [List.length_take] at this
    show p.length ≤ a.src.length
    omega

/-- a generator that ends early: the request streams any completion `p` of what it yields -/
theorem reqOf_fresh_short (s : State) (a : SendArgs) (p : Bytes) (hs : a.size = p.length) (hp : a.src <+: p) :
    Fresh (reqOf s a) p := by
  refine ⟨⟨by simp [reqOf, hs], by simp [reqOf], ?_, rfl⟩, rfl⟩
  simp only [reqOf, hs, Int.toNat_natCast, Nat.sub_zero, List.drop_zero]
  exact List.IsPrefix.trans (List.take_prefix _ _) hp

/-! ### C17 helpers: `consume`, laziness, completion of what a generator yields -/

theorem consume_spec (r : Req) (n : Nat) (e : Bool) :
    (r.consume n e).1.src = r.src.drop n ∧
    (r.consume n e).1.consumed = r.consumed + min n r.src.length ∧
    (r.consume n e).1.size = r.size ∧ (r.consume n e).1.id = r.id ∧
    (∀ d, (r.consume n e).2 = some d → d = r.src.take n ∧ d.length = min n r.src.length) := by
  unfold Req.consume
  dsimp only
  split
  · simp [List.length_take]
  · split
    · cases e <;> simp [List.length_take]
    · simp [List.length_take]

theorem consume_within (r : Req) (n : Nat) (e : Bool) (hle : r.consumed ≤ r.size) (hn : n ≤ r.remaining) :
    (r.consume n e).1.consumed ≤ r.size := by
  rw [(consume_spec r n e).2.1]
  simp only [Req.remaining] at hn
  omega

/-- a generator that ends early makes `consume` report it: `BadGeneratorError` (`none`) with `enforce_exact`, else the
    values that were left together with the `depleted` flag -/
theorem consume_early (r : Req) (n : Nat) (e : Bool) (hle : r.consumed ≤ r.size) (hn : n ≤ r.remaining)
    (hs : r.src.length < n) :
    (r.consume n e).2 = (if e then none else some r.src) ∧ (r.consume n e).1.depletedFlag = true := by
  rw [consume_short r n e hle hn hs]; exact ⟨rfl, rfl⟩

/-- what the generator yields, cut / completed with zeros to the declared size -/
def completion (src : Bytes) (size : Nat) : Bytes := (src ++ List.replicate size 0).take size

theorem completion_length (src : Bytes) (size : Nat) : (completion src size).length = size := by
  simp [completion]

theorem completion_full (src : Bytes) (size : Nat) (h : size ≤ src.length) : completion src size = src.take size := by
  simp [completion, List.take_append_of_le_length h]

/-- every request `send` can build (any generator, any declared size) streams the completion of what it yields -/
theorem reqOf_fresh_any (s : State) (a : SendArgs) :
    Fresh (reqOf s a) (completion a.src a.size.toNat) := by
  refine ⟨⟨by simp [reqOf, completion_length], by simp [reqOf], ?_, rfl⟩, rfl⟩
  simp only [reqOf, Nat.sub_zero, List.drop_zero, completion]
  rw [List.take_append]
  exact List.prefix_append _ _

theorem carried_payload (tc : TxCfg) (p : Bytes) (k : Nat) (hk : 1 ≤ k) (hlt : carried tc p.length k < p.length) :
    carried tc p.length (k + 1) = carried tc p.length k + ((p.drop (carried tc p.length k)).take (cfRoom tc)).length := by
  rw [carried_step tc p.length k hk hlt, List.length_take, List.length_drop]
  omega

/-- (laziness) the number of values pulled from the generator so far is exactly what the frames built so far carry:
    nothing while the request is queued, the `k` emitted frames while the transfer is in flight, plus the single
    frame parked by the rate limiter -/
theorem TxInv0.consumed {s : State} {r0 : Req} {p : Bytes} {k : Nat} (hv : s.cfg.valid = true) (hfr : Fresh r0 p)
    (hi : TxInv0 s r0 p k) :
    (TxQueued s r0 ∧ r0.consumed = 0) ∨
    (∃ r, s.active = some r ∧ r.size = p.length ∧ r.id = r0.id ∧
      ((s.standby = none ∨ 1 ≤ k) ∧ r.consumed = carried (TxCfg.of s.cfg s.addr) p.length k ∨
       (k = 0 ∧ s.standby ≠ none ∧ r.consumed = firstPull (TxCfg.of s.cfg s.addr) p.length))) := by
  have hvt := valid_of s.cfg s.addr hv
  rcases hi with ⟨hk, hq⟩ | ⟨hk, d0, hd0, hsb, ⟨hst, hseg, hnff, hact, hfl⟩ | ⟨hst, hff, hact, hlen, hseq⟩⟩ |
    ⟨hk, hff, hlt, hact, hlen, hseq, hstate⟩
  · exact Or.inl ⟨hq, hfr.2⟩
  · refine Or.inr ⟨_, hact, hfr.1.size, rfl, Or.inr ⟨hk, by rw [hsb]; simp, ?_⟩⟩
    rw [hfr.adv_consumed]; simp [firstPull, hnff]
  · refine Or.inr ⟨_, hact, hfr.1.size, rfl, Or.inr ⟨hk, by rw [hsb]; simp, ?_⟩⟩
    rw [hfr.adv_consumed, carried_one _ _ hvt hff]; simp [firstPull, hff]
  · exact Or.inr ⟨_, hact, hfr.1.size, rfl, Or.inl ⟨Or.inr hk, hfr.adv_consumed _⟩⟩

/-- the active request never has more values pulled than its declared size -/
theorem TxInv0.within_size {s : State} {r0 : Req} {p : Bytes} {k : Nat} (hv : s.cfg.valid = true) (hfr : Fresh r0 p)
    (hi : TxInv0 s r0 p k) : ∀ r, s.active = some r → r.consumed ≤ r.size := by
  have hvt := valid_of s.cfg s.addr hv
  intro r hr
  rcases TxInv0.consumed hv hfr hi with ⟨⟨-, ha, -⟩, -⟩ | ⟨r', hr', hsz, -, ⟨-, hc⟩ | ⟨-, -, hc⟩⟩
  · rw [ha] at hr; cases hr
  · rw [hr'] at hr; cases hr
    rw [hc, hsz]; exact carried_le _ _ _
  · rw [hr'] at hr; cases hr
    rw [hc, hsz]; exact firstPull_le _ hvt _


/-- number of values pulled so far from the generator of the request in flight -/
def pulled (s : State) : Nat := match s.active with | some r => r.consumed | none => 0

theorem TxInv0.pulled_cases {s : State} {r0 : Req} {p : Bytes} {k : Nat} (hv : s.cfg.valid = true) (hfr : Fresh r0 p)
    (hi : TxInv0 s r0 p k) :
    (k = 0 ∧ pulled s = 0) ∨ (k = 0 ∧ pulled s = firstPull (TxCfg.of s.cfg s.addr) p.length) ∨
    (1 ≤ k ∧ carried (TxCfg.of s.cfg s.addr) p.length k < p.length ∧
      pulled s = carried (TxCfg.of s.cfg s.addr) p.length k) := by
  have hvt := valid_of s.cfg s.addr hv
  rcases hi with ⟨hk, -, ha, -⟩ | ⟨hk, d0, hd0, hsb, ⟨hst, hseg, hnff, hact, hfl⟩ | ⟨hst, hff, hact, hlen, hseq⟩⟩ |
    ⟨hk, hff, hlt, hact, hlen, hseq, hstate⟩
  · exact Or.inl ⟨hk, by simp [pulled, ha]⟩
  · refine Or.inr (Or.inl ⟨hk, ?_⟩)
    simp only [pulled, hact]; rw [hfr.adv_consumed]; simp [firstPull, hnff]
  · refine Or.inr (Or.inl ⟨hk, ?_⟩)
    simp only [pulled, hact]; rw [hfr.adv_consumed, carried_one _ _ hvt hff]; simp [firstPull, hff]
  · refine Or.inr (Or.inr ⟨hk, hlt, ?_⟩)
    simp only [pulled, hact]; rw [hfr.adv_consumed]

theorem firstPull_le_txDl (tc : TxCfg) (hv : ValidTx tc) (n : Nat) : firstPull tc n ≤ tc.txDl := by
  unfold firstPull
  split
  · unfold ffRoom; split <;> omega
  · rename_i h
    have : sfShort tc n ∨ sfEscape tc n := by
      by_cases hs : sfShort tc n
      · exact Or.inl hs
      · by_cases he : sfEscape tc n
        · exact Or.inr he
        · exact absurd ⟨hs, he⟩ h
    have hdl := txDl_fix tc hv
    rcases this with h | h
    · have := (sfShort_iff tc n).mp h; omega
    · have := h.2; omega

/-- (laziness, per pass) between two states of the same transfer that are zero or one frame apart, at most one
    frame's worth of values (`≤ tx_data_length`) has been pulled -/
theorem pulled_step {s s' : State} {r0 : Req} {p : Bytes} {k k' : Nat} (hv : s.cfg.valid = true) (hfr : Fresh r0 p)
    (hcfg : s'.cfg = s.cfg) (haddr : s'.addr = s.addr) (hi : TxInv0 s r0 p k) (hi' : TxInv0 s' r0 p k')
    (hk : k' = k ∨ k' = k + 1) : pulled s' ≤ pulled s + s.cfg.txDl := by
  have hvt := valid_of s.cfg s.addr hv
  have h1 := TxInv0.pulled_cases hv hfr hi
  have h2 := TxInv0.pulled_cases (by rw [hcfg]; exact hv) hfr hi'
  rw [hcfg, haddr] at h2
  have hfp := firstPull_le_txDl _ hvt p.length
  have hc1 : carried (TxCfg.of s.cfg s.addr) p.length 1 ≤ s.cfg.txDl := by
    simp only [carried]; simp only [Nat.zero_mul, Nat.add_zero, Nat.sub_self]
    have : ffRoom (TxCfg.of s.cfg s.addr) p.length ≤ s.cfg.txDl := by
      unfold ffRoom; simp only [TxCfg.of]; split <;> omega
    simp; omega
  have hcr : cfRoom (TxCfg.of s.cfg s.addr) ≤ s.cfg.txDl := by unfold cfRoom; simp only [TxCfg.of]; omega
  simp only [TxCfg.of] at hfp
  rcases h1 with ⟨hk0, hp⟩ | ⟨hk0, hp⟩ | ⟨hk1, hlt, hp⟩
  · rcases h2 with ⟨-, hp'⟩ | ⟨-, hp'⟩ | ⟨hk1', -, hp'⟩
    · omega
    · rw [hp']; simp only [TxCfg.of]; omega
    · have : k' = 1 := by omega
      subst this; rw [hp']; omega
  · rcases h2 with ⟨-, hp'⟩ | ⟨-, hp'⟩ | ⟨hk1', -, hp'⟩
    · omega
    · rw [hp', hp]; omega
    · have : k' = 1 := by omega
      subst this; rw [hp']; omega
  · rcases h2 with ⟨hk0', -⟩ | ⟨hk0', -⟩ | ⟨hk1', -, hp'⟩
    · omega
    · omega
    · rcases hk with hk | hk
      · subst hk; rw [hp', hp]; omega
      · subst hk
        have := carried_step (TxCfg.of s.cfg s.addr) p.length k hk1 hlt
        rw [hp', hp, this]; omega

end Isotp.Proofs
