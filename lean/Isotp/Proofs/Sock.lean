import Isotp.Spec.Sock
/-
  Helper lemmas for C19 / C20.
-/
namespace Isotp.Sock
open Isotp

/-! ### bit facts -/

theorem hasFlag_two_pow (a k : Nat) : hasFlag a (2^k) = a.testBit k := by
  simp [hasFlag, Nat.testBit_eq_decide_div_mod_eq]

theorem testBit_add_two_pow_gt (a k j : Nat) (h : a / 2^k % 2 = 0) (hj : k < j) :
    (a + 2^k).testBit j = a.testBit j := by
  obtain ⟨d, rfl⟩ : ∃ d, j = k + 1 + d := ⟨j - k - 1, by omega⟩
  simp only [Nat.testBit_eq_decide_div_mod_eq]
  have e : ∀ x, x / 2^(k+1+d) = x / 2^k / 2 / 2^d := by
    intro x; rw [Nat.div_div_eq_div_mul, Nat.div_div_eq_div_mul, Nat.pow_add, Nat.pow_succ, Nat.mul_assoc]
  rw [e, e, Nat.add_div_right _ (Nat.two_pow_pos k)]
  have : (a / 2^k + 1) / 2 = a / 2^k / 2 := by omega
  rw [this]

/-- the model's `orFlag` is bitwise or, for every single-bit flag and every `a` -/
theorem orFlag_two_pow (a k : Nat) : orFlag a (2^k) = a ||| 2^k := by
  unfold orFlag
  apply Nat.eq_of_testBit_eq
  intro j
  rw [Nat.testBit_or, Nat.testBit_two_pow]
  split
  · rename_i h
    by_cases hjk : k = j
    · subst hjk; simp [Nat.testBit_eq_decide_div_mod_eq, h]
    · simp [hjk]
  · rename_i h
    have h0 : a / 2^k % 2 = 0 := by omega
    rcases Nat.lt_trichotomy j k with hlt | heq | hgt
    · rw [Nat.add_comm, Nat.testBit_two_pow_add_gt hlt]
      have : k ≠ j := by omega
      simp [this]
    · subst heq
      rw [Nat.add_comm, Nat.testBit_two_pow_add_eq]
      simp [Nat.testBit_eq_decide_div_mod_eq, h0]
    · rw [testBit_add_two_pow_gt a k j h0 hgt]
      have : k ≠ j := by omega
      simp [this]

theorem flagSet_two_pow (a k : Nat) : Spec.flagSet a (2^k) = a.testBit k := by
  unfold Spec.flagSet
  cases h : a.testBit k
  · have : a &&& 2^k = 0 := by
      apply Nat.eq_of_testBit_eq
      intro j
      rw [Nat.testBit_and, Nat.testBit_two_pow, Nat.zero_testBit]
      by_cases hjk : k = j
      · subst hjk; simp [h]
      · simp [hjk]
    simp [this]
  · have : (a &&& 2^k).testBit k = true := by
      rw [Nat.testBit_and, Nat.testBit_two_pow]; simp [h]
    have hne : a &&& 2^k ≠ 0 := by
      intro h0; rw [h0, Nat.zero_testBit] at this; cases this
    simp [hne]

theorem flagSet_eq_hasFlag (a k : Nat) : Spec.flagSet a (2^k) = hasFlag a (2^k) := by
  rw [flagSet_two_pow, hasFlag_two_pow]

/-! ### byte images -/

theorem u8_toNat (n : Nat) (h : n < 256) : (u8 n).toNat = n := by
  simp [u8, UInt8.toNat_ofNat']; omega

theorem ofNat_mod256 (x : Nat) : UInt8.ofNat (x % 256) = UInt8.ofNat x :=
  UInt8.ofNat_mod_size (x := x)

theorem le32_eq (n : Nat) : le32 n = Spec.leBytes 4 n := by
  have h1 : n / 256 / 256 = n / 65536 := by omega
  have h2 : n / 65536 / 256 = n / 16777216 := by omega
  simp only [le32, Spec.leBytes, u8, h1, h2]

theorem leValue_leBytes (w n : Nat) (h : n < 256^w) : Spec.leValue (Spec.leBytes w n) = n := by
  induction w generalizing n with
  | zero => simp [Spec.leBytes, Spec.leValue]; omega
  | succ w ih =>
    have : n / 256 < 256^w := by
      rw [Nat.pow_succ] at h
      exact Nat.div_lt_of_lt_mul (by rw [Nat.mul_comm]; exact h)
    simp only [Spec.leBytes, Spec.leValue, ih _ this, UInt8.toNat_ofNat']
    omega

theorem length_leBytes (w n : Nat) : (Spec.leBytes w n).length = w := by
  induction w generalizing n with
  | zero => rfl
  | succ w ih => simp [Spec.leBytes, ih]

theorem layoutOpts_eq (o : KOpts) : layoutOpts o = Spec.optionsImage o := by
  simp only [layoutOpts, Spec.optionsImage, le32_eq]
  simp [Spec.leBytes, u8, ofNat_mod256]

theorem layoutFc_eq (o : KFc) : layoutFc o = Spec.fcImage o := by
  simp [layoutFc, Spec.fcImage, Spec.leBytes, u8, ofNat_mod256]

theorem layoutLl_eq (o : KLl) : layoutLl o = Spec.llImage o := by
  simp [layoutLl, Spec.llImage, Spec.leBytes, u8, ofNat_mod256]

theorem rd32_le32 (n : Nat) (h : n < 2^32) : rd32 (le32 n) 0 = n := by
  simp [rd32, le32, byteAt, u8, UInt8.toNat_ofNat']
  omega

theorem parse_layout_opts (o : KOpts) (h : o.wf) : parseOpts (layoutOpts o) = o := by
  obtain ⟨h1, h2, h3, h4, h5, h6⟩ := h
  cases o
  simp [parseOpts, layoutOpts, rd32, le32, byteAt, u8, UInt8.toNat_ofNat'] at *
  omega

theorem parse_layout_fc (o : KFc) (h : o.wf) : parseFc (layoutFc o) = o := by
  obtain ⟨h1, h2, h3⟩ := h
  cases o
  simp [parseFc, layoutFc, byteAt, u8, UInt8.toNat_ofNat'] at *
  omega

theorem parse_layout_ll (o : KLl) (h : o.wf) : parseLl (layoutLl o) = o := by
  obtain ⟨h1, h2, h3⟩ := h
  cases o
  simp [parseLl, layoutLl, byteAt, u8, UInt8.toNat_ofNat'] at *
  omega

end Isotp.Sock

namespace Isotp.Sock
open Isotp

/-! ### argument checks -/

/-- the model's guard `!v.isNone && !argOk v hi` is the negation of the reference `fieldOk` -/
theorem chk_eq (v : PyVal) (hi : Nat) : (!v.isNone && !argOk v (hi : Int)) = !Spec.fieldOk v hi := by
  cases v <;> simp [PyVal.isNone, argOk, PyVal.isInt, PyVal.intVal, Spec.fieldOk, Spec.natOf]
  case bool b => cases b <;> simp <;> omega
  case int i =>
    by_cases h : 0 ≤ i
    · simp [h]; congr
    · simp [h]

theorem pick_eq (v : PyVal) (hi old : Nat) (h : Spec.fieldOk v hi = true) :
    Spec.pick v old = if v.isNone then old else v.intVal.toNat := by
  cases v <;> simp_all [PyVal.isNone, PyVal.intVal, Spec.fieldOk, Spec.natOf, Spec.pick]
  case bool b => cases b <;> simp
  case int i =>
    by_cases h0 : 0 ≤ i
    · simp [h0]
    · simp [h0] at h

theorem pick_le (v : PyVal) (hi old : Nat) (h : Spec.fieldOk v hi = true) (ho : old ≤ hi) :
    Spec.pick v old ≤ hi := by
  cases v <;> simp_all [Spec.fieldOk, Spec.natOf, Spec.pick]
  case int i =>
    by_cases h0 : 0 ≤ i
    · simp_all
    · simp [h0] at h

theorem implied_eq (v : PyVal) (f : Nat) : Spec.implied v f = if v.isNone then 0 else f := by
  cases v <;> rfl

end Isotp.Sock

namespace Isotp.Sock
open Isotp

theorem mergeOpts_wf (k : KOpts) (a : OptsArgs) (hk : k.wf) (ha : Spec.argsOk a = true) :
    (Spec.mergeOpts k a).wf := by
  obtain ⟨h1, h2, h3, h4, h5, h6⟩ := hk
  simp only [Spec.argsOk, Bool.and_eq_true] at ha
  obtain ⟨⟨⟨⟨⟨⟨a1, a2⟩, a3⟩, a4⟩, a5⟩, a6⟩, a7⟩ := ha
  have imp : ∀ v f, f < 2^32 → Spec.implied v f < 2^32 := by
    intro v f hf; rw [implied_eq]; split <;> omega
  refine ⟨?_, ?_, ?_, ?_, ?_, ?_⟩
  · simp only [Spec.mergeOpts]
    have := pick_le _ _ k.flags a1 (by omega)
    repeat' (first | apply Nat.or_lt_two_pow | apply imp)
    all_goals (first | omega | decide)
  · have := pick_le _ _ k.frameTxtime a2 (by omega); simp only [Spec.mergeOpts]; omega
  · have := pick_le _ _ k.extAddress a3 (by omega); simp only [Spec.mergeOpts]; omega
  · have := pick_le _ _ k.txpad a4 (by omega); simp only [Spec.mergeOpts]; omega
  · have := pick_le _ _ k.rxpad a5 (by omega); simp only [Spec.mergeOpts]; omega
  · have := pick_le _ _ k.rxExtAddress a6 (by omega); simp only [Spec.mergeOpts]; omega

end Isotp.Sock

namespace Isotp.Sock
open Isotp

theorem chk32 (v : PyVal) : (!v.isNone && !argOk v 0xFFFFFFFF) = !Spec.fieldOk v 0xFFFFFFFF :=
  chk_eq v 0xFFFFFFFF
theorem chk8 (v : PyVal) : (!v.isNone && !argOk v 0xFF) = !Spec.fieldOk v 0xFF :=
  chk_eq v 0xFF

theorem writeOpts_reject (s : Sock) (a : OptsArgs) (ha : Spec.argsOk a = false) :
    writeOpts s a = .error .ValueError := by
  unfold writeOpts
  simp only [chk32, chk8]
  cases h1 : Spec.fieldOk a.optflag 0xFFFFFFFF <;> simp
  cases h2 : Spec.fieldOk a.frameTxtime 0xFFFFFFFF <;> simp
  cases h3 : Spec.fieldOk a.extAddress 0xFF <;> simp
  cases h4 : Spec.fieldOk a.txpad 0xFF <;> simp
  cases h5 : Spec.fieldOk a.rxpad 0xFF <;> simp
  cases h6 : Spec.fieldOk a.rxExtAddress 0xFF <;> simp
  cases h7 : Spec.fieldOk a.txStmin 0xFFFFFFFF <;> simp
  simp [Spec.argsOk, h1, h2, h3, h4, h5, h6, h7] at ha

end Isotp.Sock

namespace Isotp.Sock
open Isotp

theorem orFlag_EXTEND (x : Nat) : orFlag x fEXTEND_ADDR = x ||| Spec.EXTEND_ADDR := orFlag_two_pow x 1
theorem orFlag_TXPAD (x : Nat) : orFlag x fTX_PADDING = x ||| Spec.TX_PADDING := orFlag_two_pow x 2
theorem orFlag_RXPAD (x : Nat) : orFlag x fRX_PADDING = x ||| Spec.RX_PADDING := orFlag_two_pow x 3
theorem orFlag_TXSTMIN (x : Nat) : orFlag x fFORCE_TXSTMIN = x ||| Spec.FORCE_TXSTMIN := orFlag_two_pow x 7
theorem orFlag_RXEXT (x : Nat) : orFlag x fRX_EXT_ADDR = x ||| Spec.RX_EXT_ADDR := orFlag_two_pow x 9

theorem mergeOpts_none (k : KOpts) (a : OptsArgs) (h : a.txStmin = .none) :
    ({ flags := Spec.pick a.optflag k.flags ||| Spec.implied a.extAddress Spec.EXTEND_ADDR
                  ||| Spec.implied a.txpad Spec.TX_PADDING ||| Spec.implied a.rxpad Spec.RX_PADDING
                  ||| Spec.implied a.rxExtAddress Spec.RX_EXT_ADDR,
       frameTxtime := Spec.pick a.frameTxtime k.frameTxtime,
       extAddress := Spec.pick a.extAddress k.extAddress,
       txpad := Spec.pick a.txpad k.txpad, rxpad := Spec.pick a.rxpad k.rxpad,
       rxExtAddress := Spec.pick a.rxExtAddress k.rxExtAddress } : KOpts) = Spec.mergeOpts k a := by
  simp [Spec.mergeOpts, h, Spec.implied]

theorem mergeOpts_given (k : KOpts) (a : OptsArgs) (h : a.txStmin.isNone = false) :
    ({ flags := Spec.pick a.optflag k.flags ||| Spec.implied a.extAddress Spec.EXTEND_ADDR
                  ||| Spec.implied a.txpad Spec.TX_PADDING ||| Spec.implied a.rxpad Spec.RX_PADDING
                  ||| Spec.implied a.rxExtAddress Spec.RX_EXT_ADDR ||| Spec.FORCE_TXSTMIN,
       frameTxtime := Spec.pick a.frameTxtime k.frameTxtime,
       extAddress := Spec.pick a.extAddress k.extAddress,
       txpad := Spec.pick a.txpad k.txpad, rxpad := Spec.pick a.rxpad k.rxpad,
       rxExtAddress := Spec.pick a.rxExtAddress k.rxExtAddress } : KOpts) = Spec.mergeOpts k a := by
  simp [Spec.mergeOpts, implied_eq, h]

theorem writeOpts_accept (s : Sock) (a : OptsArgs) (hwf : s.k.opts.wf) (ha : Spec.argsOk a = true) :
    writeOpts s a = .ok (Spec.afterOpts s a, Spec.mergeOpts s.k.opts a) := by
  have hm := mergeOpts_wf _ _ hwf ha
  have hpl := parse_layout_opts _ hm
  simp only [Spec.argsOk, Bool.and_eq_true] at ha
  obtain ⟨⟨⟨⟨⟨⟨a1, a2⟩, a3⟩, a4⟩, a5⟩, a6⟩, a7⟩ := ha
  unfold writeOpts
  rw [parse_layout_opts _ hwf]
  simp -zeta only [chk32, chk8, a1, a2, a3, a4, a5, a6, a7]
  extract_lets o0 o1 o2 o3 o4 o5 o6
  have e1 : o1 = { o0 with flags := Spec.pick a.optflag o0.flags } := by
    simp only [o1]; rw [pick_eq _ _ _ a1]; split <;> rfl
  clear_value o1; subst e1
  have e2 : o2 = { o0 with flags := Spec.pick a.optflag o0.flags,
                           frameTxtime := Spec.pick a.frameTxtime o0.frameTxtime } := by
    simp only [o2]; rw [pick_eq _ _ _ a2]; split <;> rfl
  clear_value o2; subst e2
  have e3 : o3 = { o0 with flags := Spec.pick a.optflag o0.flags ||| Spec.implied a.extAddress Spec.EXTEND_ADDR,
                           frameTxtime := Spec.pick a.frameTxtime o0.frameTxtime,
                           extAddress := Spec.pick a.extAddress o0.extAddress } := by
    simp only [o3]; rw [pick_eq _ _ _ a3, implied_eq, orFlag_EXTEND]; split <;> simp
  clear_value o3; subst e3
  have e4 : o4 = { o0 with flags := Spec.pick a.optflag o0.flags ||| Spec.implied a.extAddress Spec.EXTEND_ADDR
                                      ||| Spec.implied a.txpad Spec.TX_PADDING,
                           frameTxtime := Spec.pick a.frameTxtime o0.frameTxtime,
                           extAddress := Spec.pick a.extAddress o0.extAddress,
                           txpad := Spec.pick a.txpad o0.txpad } := by
    simp only [o4]; rw [pick_eq _ _ _ a4, implied_eq _ Spec.TX_PADDING, orFlag_TXPAD]; split <;> simp
  clear_value o4; subst e4
  have e5 : o5 = { o0 with flags := Spec.pick a.optflag o0.flags ||| Spec.implied a.extAddress Spec.EXTEND_ADDR
                                      ||| Spec.implied a.txpad Spec.TX_PADDING
                                      ||| Spec.implied a.rxpad Spec.RX_PADDING,
                           frameTxtime := Spec.pick a.frameTxtime o0.frameTxtime,
                           extAddress := Spec.pick a.extAddress o0.extAddress,
                           txpad := Spec.pick a.txpad o0.txpad,
                           rxpad := Spec.pick a.rxpad o0.rxpad } := by
    simp only [o5]; rw [pick_eq _ _ _ a5, implied_eq _ Spec.RX_PADDING, orFlag_RXPAD]; split <;> simp
  clear_value o5; subst e5
  have e6 : o6 = { o0 with flags := Spec.pick a.optflag o0.flags ||| Spec.implied a.extAddress Spec.EXTEND_ADDR
                                      ||| Spec.implied a.txpad Spec.TX_PADDING
                                      ||| Spec.implied a.rxpad Spec.RX_PADDING
                                      ||| Spec.implied a.rxExtAddress Spec.RX_EXT_ADDR,
                           frameTxtime := Spec.pick a.frameTxtime o0.frameTxtime,
                           extAddress := Spec.pick a.extAddress o0.extAddress,
                           txpad := Spec.pick a.txpad o0.txpad,
                           rxpad := Spec.pick a.rxpad o0.rxpad,
                           rxExtAddress := Spec.pick a.rxExtAddress o0.rxExtAddress } := by
    simp only [o6]; rw [pick_eq _ _ _ a6, implied_eq _ Spec.RX_EXT_ADDR, orFlag_RXEXT]; split <;> simp
  clear_value o6; subst e6
  simp only [o0, orFlag_TXSTMIN]
  clear o0
  have hpl' := hpl
  rw [layoutOpts_eq] at hpl'
  by_cases h7 : a.txStmin.isNone = true
  · have hn : a.txStmin = .none := by cases h : a.txStmin <;> simp_all [PyVal.isNone]
    simp only [h7, if_true, mergeOpts_none _ _ hn]
    simp [Sock.sso, Kernel.setsockopt, hpl', Spec.afterOpts, Spec.optsCalls, hn, Spec.pick,
      layoutOpts_eq, Spec.SOL_CAN_ISOTP, solCanIsotp, optOPTS, Spec.CAN_ISOTP_OPTS]
  · have h7' : a.txStmin.isNone = false := by simpa using h7
    have hne : a.txStmin ≠ .none := by intro h; rw [h] at h7; exact h7 rfl
    have hp : ∀ old, Spec.pick a.txStmin old = a.txStmin.intVal.toNat := by
      intro old; rw [pick_eq _ _ _ a7]; simp [h7']
    have hle : a.txStmin.intVal.toNat < 2^32 := by
      have := pick_le _ _ 0 a7 (by omega); rw [hp] at this; omega
    simp only [h7', mergeOpts_given _ _ h7']
    simp [Sock.sso, Kernel.setsockopt, hpl', Spec.afterOpts, Spec.optsCalls, hne, hp,
      layoutOpts_eq, Spec.SOL_CAN_ISOTP, solCanIsotp, optOPTS, Spec.CAN_ISOTP_OPTS,
      optTX_STMIN, optRECV_FC, optLL_OPTS, Spec.CAN_ISOTP_TX_STMIN, Spec.stminImage, le32_eq]
    all_goals (rw [← le32_eq]; exact rd32_le32 _ hle)

end Isotp.Sock

namespace Isotp.Sock
open Isotp

/-! ### writeFc / writeLl -/

theorem mergeFc_wf (k : KFc) (x y z : PyVal) (hk : k.wf) (ha : Spec.args3Ok x y z = true) :
    (Spec.mergeFc k x y z).wf := by
  obtain ⟨h1, h2, h3⟩ := hk
  simp only [Spec.args3Ok, Bool.and_eq_true] at ha
  obtain ⟨⟨a1, a2⟩, a3⟩ := ha
  have := pick_le _ _ k.bs a1 (by omega)
  have := pick_le _ _ k.stmin a2 (by omega)
  have := pick_le _ _ k.wftmax a3 (by omega)
  simp only [KFc.wf, Spec.mergeFc]; omega

theorem mergeLl_wf (k : KLl) (x y z : PyVal) (hk : k.wf) (ha : Spec.args3Ok x y z = true) :
    (Spec.mergeLl k x y z).wf := by
  obtain ⟨h1, h2, h3⟩ := hk
  simp only [Spec.args3Ok, Bool.and_eq_true] at ha
  obtain ⟨⟨a1, a2⟩, a3⟩ := ha
  have := pick_le _ _ k.mtu a1 (by omega)
  have := pick_le _ _ k.txDl a2 (by omega)
  have := pick_le _ _ k.txFlags a3 (by omega)
  simp only [KLl.wf, Spec.mergeLl]; omega

theorem writeFc_reject (s : Sock) (x y z : PyVal) (ha : Spec.args3Ok x y z = false) :
    writeFc s x y z = .error .ValueError := by
  unfold writeFc
  simp only [chk8]
  cases h1 : Spec.fieldOk x 0xFF <;> simp
  cases h2 : Spec.fieldOk y 0xFF <;> simp
  cases h3 : Spec.fieldOk z 0xFF <;> simp
  simp [Spec.args3Ok, h1, h2, h3] at ha

theorem writeLl_reject (s : Sock) (x y z : PyVal) (ha : Spec.args3Ok x y z = false) :
    writeLl s x y z = .error .ValueError := by
  unfold writeLl
  simp only [chk8]
  cases h1 : Spec.fieldOk x 0xFF <;> simp
  cases h2 : Spec.fieldOk y 0xFF <;> simp
  cases h3 : Spec.fieldOk z 0xFF <;> simp
  simp [Spec.args3Ok, h1, h2, h3] at ha

theorem writeFc_accept (s : Sock) (x y z : PyVal) (hwf : s.k.fc.wf) (ha : Spec.args3Ok x y z = true) :
    writeFc s x y z = .ok (Spec.afterFc s x y z, Spec.mergeFc s.k.fc x y z) := by
  have hm := mergeFc_wf _ _ _ _ hwf ha
  have hpl := parse_layout_fc _ hm
  rw [layoutFc_eq] at hpl
  simp only [Spec.args3Ok, Bool.and_eq_true] at ha
  obtain ⟨⟨a1, a2⟩, a3⟩ := ha
  unfold writeFc
  rw [parse_layout_fc _ hwf]
  simp -zeta only [chk8, a1, a2, a3]
  extract_lets o0 o1 o2 o3
  have e1 : o1 = { o0 with bs := Spec.pick x o0.bs } := by
    simp only [o1]; rw [pick_eq _ _ _ a1]; split <;> rfl
  clear_value o1; subst e1
  have e2 : o2 = { o0 with bs := Spec.pick x o0.bs, stmin := Spec.pick y o0.stmin } := by
    simp only [o2]; rw [pick_eq _ _ _ a2]; split <;> rfl
  clear_value o2; subst e2
  have e3 : o3 = Spec.mergeFc o0 x y z := by
    simp only [o3, Spec.mergeFc]; rw [pick_eq _ _ _ a3]; split <;> rfl
  clear_value o3; subst e3
  simp [o0, Sock.sso, Kernel.setsockopt, hpl, Spec.afterFc, layoutFc_eq, Spec.SOL_CAN_ISOTP, solCanIsotp,
    optOPTS, optRECV_FC, Spec.CAN_ISOTP_RECV_FC]

theorem writeLl_accept (s : Sock) (x y z : PyVal) (hwf : s.k.ll.wf) (ha : Spec.args3Ok x y z = true) :
    writeLl s x y z = .ok (Spec.afterLl s x y z, Spec.mergeLl s.k.ll x y z) := by
  have hm := mergeLl_wf _ _ _ _ hwf ha
  have hpl := parse_layout_ll _ hm
  rw [layoutLl_eq] at hpl
  simp only [Spec.args3Ok, Bool.and_eq_true] at ha
  obtain ⟨⟨a1, a2⟩, a3⟩ := ha
  unfold writeLl
  rw [parse_layout_ll _ hwf]
  simp -zeta only [chk8, a1, a2, a3]
  extract_lets o0 o1 o2 o3
  have e1 : o1 = { o0 with mtu := Spec.pick x o0.mtu } := by
    simp only [o1]; rw [pick_eq _ _ _ a1]; split <;> rfl
  clear_value o1; subst e1
  have e2 : o2 = { o0 with mtu := Spec.pick x o0.mtu, txDl := Spec.pick y o0.txDl } := by
    simp only [o2]; rw [pick_eq _ _ _ a2]; split <;> rfl
  clear_value o2; subst e2
  have e3 : o3 = Spec.mergeLl o0 x y z := by
    simp only [o3, Spec.mergeLl]; rw [pick_eq _ _ _ a3]; split <;> rfl
  clear_value o3; subst e3
  simp [o0, Sock.sso, Kernel.setsockopt, hpl, Spec.afterLl, layoutLl_eq, Spec.SOL_CAN_ISOTP, solCanIsotp,
    optOPTS, optRECV_FC, optLL_OPTS, Spec.CAN_ISOTP_LL_OPTS]

end Isotp.Sock

namespace Isotp.Sock
open Isotp

/-! ### in-range invariant and refinement of call histories -/

theorem init_wf : ({} : Kernel).wf := by decide

theorem afterOpts_wf (s : Sock) (a : OptsArgs) (hk : s.k.wf) (ha : Spec.argsOk a = true) :
    (Spec.afterOpts s a).k.wf := by
  obtain ⟨h1, h2, h3, h4⟩ := hk
  refine ⟨mergeOpts_wf _ _ h1 ha, h2, h3, ?_⟩
  simp only [Spec.argsOk, Bool.and_eq_true] at ha
  have := pick_le _ _ s.k.txStmin ha.2 (by omega)
  simp only [Spec.afterOpts]; omega

theorem afterFc_wf (s : Sock) (x y z : PyVal) (hk : s.k.wf) (ha : Spec.args3Ok x y z = true) :
    (Spec.afterFc s x y z).k.wf := by
  obtain ⟨h1, h2, h3, h4⟩ := hk
  exact ⟨h1, mergeFc_wf _ _ _ _ h2 ha, h3, h4⟩

theorem afterLl_wf (s : Sock) (x y z : PyVal) (hk : s.k.wf) (ha : Spec.args3Ok x y z = true) :
    (Spec.afterLl s x y z).k.wf := by
  obtain ⟨h1, h2, h3, h4⟩ := hk
  exact ⟨h1, h2, mergeLl_wf _ _ _ _ h3 ha, h4⟩

theorem runCall_refines (s : Sock) (c : Spec.SetCall) (hb : s.bound = false) (hk : s.k.wf) :
    Spec.storeOf (Spec.runCall s c).k = (Spec.storeOf s.k).apply c ∧
      (Spec.runCall s c).k.wf ∧ (Spec.runCall s c).bound = false := by
  cases c with
  | opts a =>
    cases ha : Spec.argsOk a
    · simp [Spec.runCall, setOpts, hb, writeOpts_reject s a ha, Spec.Store.apply, ha, hk]
    · simp [Spec.runCall, setOpts, hb, writeOpts_accept s a hk.1 ha, Spec.Store.apply, ha,
        afterOpts_wf s a hk ha]
      simp [Spec.afterOpts, Spec.storeOf, hb]
  | fc x y z =>
    cases ha : Spec.args3Ok x y z
    · simp [Spec.runCall, setFcOpts, hb, writeFc_reject s x y z ha, Spec.Store.apply, ha, hk]
    · simp [Spec.runCall, setFcOpts, hb, writeFc_accept s x y z hk.2.1 ha, Spec.Store.apply, ha,
        afterFc_wf s x y z hk ha]
      simp [Spec.afterFc, Spec.storeOf, hb]
  | ll x y z =>
    cases ha : Spec.args3Ok x y z
    · simp [Spec.runCall, setLlOpts, hb, writeLl_reject s x y z ha, Spec.Store.apply, ha, hk]
    · simp [Spec.runCall, setLlOpts, hb, writeLl_accept s x y z hk.2.2.1 ha, Spec.Store.apply, ha,
        afterLl_wf s x y z hk ha]
      simp [Spec.afterLl, Spec.storeOf, hb]

theorem runCalls_refines (cs : List Spec.SetCall) (s : Sock) (hb : s.bound = false) (hk : s.k.wf) :
    Spec.storeOf (Spec.runCalls s cs).k = cs.foldl Spec.Store.apply (Spec.storeOf s.k) ∧
      (Spec.runCalls s cs).k.wf ∧ (Spec.runCalls s cs).bound = false := by
  induction cs generalizing s with
  | nil => exact ⟨rfl, hk, hb⟩
  | cons c cs ih =>
    obtain ⟨h1, h2, h3⟩ := runCall_refines s c hb hk
    have := ih (Spec.runCall s c) h3 h2
    simp only [Spec.runCalls, List.foldl_cons] at this ⊢
    rw [← h1]; exact this

end Isotp.Sock

namespace Isotp.Sock
open Isotp

/-! ### flags are sticky -/

theorem mergeOpts_sticky (k : KOpts) (a : OptsArgs) (h : a.optflag = .none) (j : Nat)
    (hb : k.flags.testBit j = true) : (Spec.mergeOpts k a).flags.testBit j = true := by
  simp [Spec.mergeOpts, h, Spec.pick, Nat.testBit_or, hb]

/-! ### bind -/

theorem txExtByte_noPrefix (h : Half) (hp : h.mode.hasPrefix = false) : h.txExtByte = none := by
  unfold Half.txExtByte; cases hm : h.mode <;> simp_all [Mode.hasPrefix]

theorem rxExtByte_noPrefix (h : Half) (hp : h.mode.hasPrefix = false) : h.rxExtByte = none := by
  unfold Half.rxExtByte; cases hm : h.mode <;> simp_all [Mode.hasPrefix]

theorem pick_int (n old : Nat) : Spec.pick (.int n) old = n := by
  simp [Spec.pick, Spec.natOf]

theorem pick_optPy (o : Option Nat) (old : Nat) : Spec.pick (optPy o) old = o.getD old := by
  cases o <;> simp [optPy, Spec.pick, Spec.natOf]

theorem implied_optPy (o : Option Nat) (f : Nat) : Spec.implied (optPy o) f = if o.isSome then f else 0 := by
  cases o <;> simp [optPy, Spec.implied]

theorem fieldOk_int (n hi : Nat) : Spec.fieldOk (.int n) hi = decide (n ≤ hi) := by
  simp [Spec.fieldOk, Spec.natOf]

theorem fieldOk_optPy (o : Option Nat) (hi : Nat) :
    Spec.fieldOk (optPy o) hi = (match o with | some b => decide (b ≤ hi) | none => true) := by
  cases o <;> simp [optPy, Spec.fieldOk, Spec.natOf]

/-- the flag word `bind` passes as `optflag` -/
def bindFlags (k : KOpts) (a : Addr) : Nat :=
  let fl := if a.tx.mode.hasPrefix then orFlag k.flags fEXTEND_ADDR else k.flags
  if a.rx.mode.hasPrefix then orFlag fl fRX_EXT_ADDR else fl

theorem bindFlags_eq (k : KOpts) (a : Addr) :
    bindFlags k a = k.flags ||| (if a.tx.mode.hasPrefix then Spec.EXTEND_ADDR else 0)
                            ||| (if a.rx.mode.hasPrefix then Spec.RX_EXT_ADDR else 0) := by
  unfold bindFlags
  cases a.tx.mode.hasPrefix <;> cases a.rx.mode.hasPrefix <;> simp [orFlag_EXTEND, orFlag_RXEXT]

theorem bindFlags_lt (k : KOpts) (a : Addr) (hk : k.wf) : bindFlags k a < 2^32 := by
  rw [bindFlags_eq]
  apply Nat.or_lt_two_pow
  · apply Nat.or_lt_two_pow hk.1
    split <;> decide
  · split <;> decide

def bindArgs (k : KOpts) (a : Addr) : OptsArgs :=
  { optflag := .int (bindFlags k a), extAddress := optPy a.tx.txExtByte, rxExtAddress := optPy a.rx.rxExtByte }

theorem bindArgs_ok (k : KOpts) (a : Addr) (hk : k.wf) (he : Spec.extBytesOk a = true) :
    Spec.argsOk (bindArgs k a) = true := by
  have := bindFlags_lt k a hk
  simp only [Spec.extBytesOk, Bool.and_eq_true] at he
  have fn : ∀ hi, Spec.fieldOk .none hi = true := fun _ => rfl
  simp only [Spec.argsOk, bindArgs, fieldOk_int, fieldOk_optPy, fn, Bool.and_eq_true, Bool.and_true]
  refine ⟨⟨?_, ?_⟩, ?_⟩
  · simp; omega
  · cases h : a.tx.txExtByte <;> simp_all <;> omega
  · cases h : a.rx.rxExtByte <;> simp_all <;> omega

theorem or_absorb3 (x e r p q : Nat) (hp : p = 0 ∨ p = e) (hq : q = 0 ∨ q = r) :
    x ||| e ||| r ||| p ||| q = x ||| e ||| r := by
  apply Nat.eq_of_testBit_eq; intro j
  rcases hp with hp | hp <;> rcases hq with hq | hq <;> rw [hp, hq] <;>
    simp only [Nat.testBit_or, Nat.zero_testBit] <;>
    cases x.testBit j <;> cases e.testBit j <;> cases r.testBit j <;> rfl

theorem mergeOpts_bindArgs (k : KOpts) (a : Addr) :
    Spec.mergeOpts k (bindArgs k a) = Spec.bindOpts k a := by
  have in0 : ∀ f, Spec.implied .none f = 0 := fun _ => rfl
  have pn : ∀ old, Spec.pick .none old = old := fun _ => rfl
  simp only [Spec.mergeOpts, bindArgs, pick_int, implied_optPy, in0, pn, Nat.or_zero, bindFlags_eq,
      Spec.bindOpts, pick_optPy]
  congr 1
  cases hT : a.tx.mode.hasPrefix <;> cases hR : a.rx.mode.hasPrefix
  · simp [txExtByte_noPrefix _ hT, rxExtByte_noPrefix _ hR]
  · simp only [txExtByte_noPrefix _ hT]
    have := or_absorb3 k.flags 0 Spec.RX_EXT_ADDR 0 (if a.rx.rxExtByte.isSome then Spec.RX_EXT_ADDR else 0)
      (Or.inl rfl) (by split <;> simp)
    simpa using this
  · simp only [rxExtByte_noPrefix _ hR]
    have := or_absorb3 k.flags Spec.EXTEND_ADDR 0 (if a.tx.txExtByte.isSome then Spec.EXTEND_ADDR else 0) 0
      (by split <;> simp) (Or.inl rfl)
    simpa using this
  · have := or_absorb3 k.flags Spec.EXTEND_ADDR Spec.RX_EXT_ADDR
      (if a.tx.txExtByte.isSome then Spec.EXTEND_ADDR else 0)
      (if a.rx.rxExtByte.isSome then Spec.RX_EXT_ADDR else 0) (by split <;> simp) (by split <;> simp)
    simpa using this

end Isotp.Sock

namespace Isotp.Sock
open Isotp

theorem canId_eq (b : Bool) (id : Nat) :
    Spec.canId b id = if b then id % 536870912 + effFlag else id % 2048 := by
  unfold Spec.canId
  have h29 : id &&& Spec.CAN_EFF_MASK = id % 536870912 := Nat.and_two_pow_sub_one_eq_mod id 29
  have h11 : id &&& Spec.CAN_SFF_MASK = id % 2048 := Nat.and_two_pow_sub_one_eq_mod id 11
  rw [h29, h11]
  cases b
  · simp
  · have hlt : id % 536870912 < 2^31 := by omega
    have := Nat.two_pow_add_eq_or_of_lt hlt 1
    simp only [if_true, effFlag, Spec.CAN_EFF_FLAG]
    rw [Nat.or_comm, Nat.add_comm]
    simpa using this.symm

theorem bindArgs_model (k : KOpts) (a : Addr) :
    ({ optflag := .int (if a.rx.mode.hasPrefix then
         orFlag (if a.tx.mode.hasPrefix then orFlag k.flags fEXTEND_ADDR else k.flags) fRX_EXT_ADDR
         else (if a.tx.mode.hasPrefix then orFlag k.flags fEXTEND_ADDR else k.flags) : Nat),
       extAddress := optPy a.tx.txExtByte, rxExtAddress := optPy a.rx.rxExtByte } : OptsArgs)
      = bindArgs k a := rfl

theorem bind_eq (s : Sock) (a : Addr) (asym : Bool) (hk : s.k.opts.wf) (he : Spec.extBytesOk a = true) :
    bind s a asym =
      if asym && (a.rx.mode.hasPrefix != a.tx.mode.hasPrefix) then .error .ValueError
      else if (a.tx.mode.hasPrefix || a.rx.mode.hasPrefix) && s.bound then .error .RuntimeError
      else .ok (Spec.afterBind s a) := by
  unfold bind
  split
  · rfl
  · rw [parse_layout_opts _ hk]
    have hargs := bindArgs_model s.k.opts a
    simp only [hargs, ← canId_eq]
    by_cases hp : (a.tx.mode.hasPrefix || a.rx.mode.hasPrefix) = true
    · simp only [hp, if_true, Bool.true_and]
      cases hb : s.bound
      · simp only [setOpts, hb, writeOpts_accept s _ hk (bindArgs_ok _ a hk he), Bool.false_eq_true,
          if_false, mergeOpts_bindArgs]
        have hn : (bindArgs s.k.opts a).txStmin = .none := rfl
        simp [Spec.afterBind, hp, Spec.afterOpts, mergeOpts_bindArgs, Spec.bindIds, Spec.optsCalls, hn,
          Spec.pick]
      · simp [setOpts, hb]
    · simp [hp, Spec.afterBind, Spec.bindIds]

end Isotp.Sock

namespace Isotp.Sock
open Isotp

/-! ### kernel view of a bound socket -/

theorem bindOpts_noPrefix (k : KOpts) (a : Addr) (hT : a.tx.mode.hasPrefix = false)
    (hR : a.rx.mode.hasPrefix = false) : Spec.bindOpts k a = k := by
  simp [Spec.bindOpts, hT, hR, txExtByte_noPrefix _ hT, rxExtByte_noPrefix _ hR]

theorem afterBind_k (s : Sock) (a : Addr) :
    (Spec.afterBind s a).k = { s.k with opts := Spec.bindOpts s.k.opts a, bound := some (Spec.bindIds a) } := by
  unfold Spec.afterBind
  split
  · rfl
  · rename_i h
    simp only [Bool.or_eq_true, not_or, Bool.not_eq_true] at h
    simp [bindOpts_noPrefix _ _ h.1 h.2]

theorem txId_lt (h : Half) (hw : Spec.txWf h = true) :
    h.txId .physical < (if h.mode.is29 then 2^29 else 2^11) := by
  unfold Spec.txWf at hw
  unfold Half.txId
  cases hm : h.mode <;> simp [hm, Mode.is29, Spec.optLt] at hw ⊢
  all_goals
    (try (cases hta : h.ta <;> cases hsa : h.sa <;> simp_all <;> omega))
  all_goals (cases ht : h.txid <;> simp_all)

theorem rxId_lt (h : Half) (hw : Spec.rxWf h = true) :
    h.rxId .physical < (if h.mode.is29 then 2^29 else 2^11) := by
  unfold Spec.rxWf at hw
  unfold Half.rxId
  cases hm : h.mode <;> simp [hm, Mode.is29, Spec.optLt] at hw ⊢
  all_goals
    (try (cases hta : h.ta <;> cases hsa : h.sa <;> simp_all <;> omega))
  all_goals (cases ht : h.rxid <;> simp_all)

theorem isEff_canId (b : Bool) (id : Nat) (h : id < (if b then 2^29 else 2^11)) :
    Spec.isEff (Spec.canId b id) = b := by
  have e : Spec.CAN_EFF_FLAG = 2^31 := rfl
  rw [Spec.isEff, e, flagSet_two_pow, canId_eq]
  cases b
  · simp at h ⊢
    apply Nat.testBit_lt_two_pow; omega
  · simp only [if_true] at h ⊢
    have : effFlag = 2^31 := rfl
    rw [Nat.mod_eq_of_lt (by omega), this, Nat.add_comm, Nat.testBit_two_pow_add_eq,
      Nat.testBit_lt_two_pow (by omega)]
    rfl

theorem idBits_canId (b : Bool) (id : Nat) (h : id < (if b then 2^29 else 2^11)) :
    Spec.idBits (Spec.canId b id) = id := by
  unfold Spec.idBits
  rw [isEff_canId b id h, canId_eq]
  have h29 : ∀ x, x &&& Spec.CAN_EFF_MASK = x % 536870912 := fun x => Nat.and_two_pow_sub_one_eq_mod x 29
  have h11 : ∀ x, x &&& Spec.CAN_SFF_MASK = x % 2048 := fun x => Nat.and_two_pow_sub_one_eq_mod x 11
  rw [h29, h11]
  cases b
  · simp at h ⊢; omega
  · simp [effFlag] at h ⊢; omega

end Isotp.Sock

namespace Isotp.Sock
open Isotp

theorem bindOpts_testBit (k : KOpts) (a : Addr) (j : Nat) :
    (Spec.bindOpts k a).flags.testBit j =
      (k.flags.testBit j || (a.tx.mode.hasPrefix && j == 1) || (a.rx.mode.hasPrefix && j == 9)) := by
  have e1 : Spec.EXTEND_ADDR = 2^1 := rfl
  have e9 : Spec.RX_EXT_ADDR = 2^9 := rfl
  have t1 : (2^1).testBit j = (j == 1) := by
    rw [Nat.testBit_two_pow]; by_cases h : j = 1 <;> simp [h, Ne.symm]
  have t9 : (2^9).testBit j = (j == 9) := by
    rw [Nat.testBit_two_pow]; by_cases h : j = 9 <;> simp [h, Ne.symm]
  simp only [Spec.bindOpts, Nat.testBit_or, e1, e9]
  cases a.tx.mode.hasPrefix <;> cases a.rx.mode.hasPrefix <;>
    simp only [if_true, Bool.false_eq_true, if_false, t1, t9, Nat.zero_testBit, Bool.or_false, Bool.false_and,
      Bool.true_and]

theorem bindOpts_EXTEND (k : KOpts) (a : Addr) :
    Spec.flagSet (Spec.bindOpts k a).flags Spec.EXTEND_ADDR =
      (a.tx.mode.hasPrefix || Spec.flagSet k.flags Spec.EXTEND_ADDR) := by
  have e1 : Spec.EXTEND_ADDR = 2^1 := rfl
  rw [e1, flagSet_two_pow, flagSet_two_pow, bindOpts_testBit]
  cases a.tx.mode.hasPrefix <;> cases a.rx.mode.hasPrefix <;> simp

theorem bindOpts_RXEXT (k : KOpts) (a : Addr) :
    Spec.flagSet (Spec.bindOpts k a).flags Spec.RX_EXT_ADDR =
      (a.rx.mode.hasPrefix || Spec.flagSet k.flags Spec.RX_EXT_ADDR) := by
  have e9 : Spec.RX_EXT_ADDR = 2^9 := rfl
  rw [e9, flagSet_two_pow, flagSet_two_pow, bindOpts_testBit]
  cases a.tx.mode.hasPrefix <;> cases a.rx.mode.hasPrefix <;> simp

theorem bindOpts_wf (k : KOpts) (a : Addr) (hk : k.wf) (he : Spec.extBytesOk a = true) :
    (Spec.bindOpts k a).wf := by
  rw [← mergeOpts_bindArgs]
  exact mergeOpts_wf _ _ hk (bindArgs_ok k a hk he)

/-- the emitted triple -/
theorem kernelEmits_afterBind (s : Sock) (a : Addr) (htx : Spec.txWf a.tx = true)
    (hc : a.tx.mode.hasPrefix = false → Spec.flagSet s.k.opts.flags Spec.EXTEND_ADDR = false) :
    Spec.kernelEmits (Spec.afterBind s a).k =
      some (a.tx.txId .physical, a.tx.mode.is29, a.tx.txPrefix) := by
  have hlt := txId_lt _ htx
  rw [afterBind_k]
  simp only [Spec.kernelEmits, Spec.bindIds, isEff_canId _ _ hlt, idBits_canId _ _ hlt, bindOpts_EXTEND]
  congr 3
  unfold Spec.txWf at htx
  unfold Half.txPrefix
  cases hp : a.tx.mode.hasPrefix
  · simp [hc hp]
    cases hm : a.tx.mode <;> simp_all [Mode.hasPrefix]
  · simp only [Bool.true_or, if_true]
    cases hm : a.tx.mode <;> simp_all [Mode.hasPrefix, Half.txExtByte, Spec.bindOpts, Spec.optLt, u8]
    all_goals (cases hta : a.tx.ta <;> cases hae : a.tx.ae <;> simp_all)

end Isotp.Sock

namespace Isotp.Sock
open Isotp

theorem byteAt_cons (b : UInt8) (d : Bytes) : byteAt (b :: d) 0 = b.toNat := rfl

theorem fixed_decomp (P sa ta id : Nat) (hP : P % 65536 = 0) (hP2 : P < 536870912) (hs : sa < 256)
    (ht : ta < 256) (h : id = P + sa * 256 + ta) :
    mask2816 id = P ∧ id / 256 % 256 = sa ∧ id % 256 = ta := by
  unfold mask2816; omega

theorem kernelAccepts_afterBind (s : Sock) (a : Addr) (m : CanMsg) (hrx : Spec.rxWf a.rx = true)
    (hc : a.rx.mode.hasPrefix = false → Spec.flagSet s.k.opts.flags Spec.RX_EXT_ADDR = false) :
    Spec.kernelAccepts (Spec.afterBind s a).k m =
      (a.rx.isForMe m && m.id == a.rx.rxId .physical) := by
  have hlt := rxId_lt _ hrx
  rw [afterBind_k]
  simp only [Spec.kernelAccepts, Spec.bindIds, isEff_canId _ _ hlt, idBits_canId _ _ hlt, bindOpts_RXEXT]
  unfold Spec.rxWf at hrx
  unfold Half.isForMe
  cases hp : a.rx.mode.hasPrefix
  · simp only [hc hp, Bool.or_false, Bool.false_eq_true, if_false, Bool.and_true]
    cases hm : a.rx.mode <;> simp_all [Mode.hasPrefix, Mode.is29, Half.rxId, Spec.optLt]
    · cases hr : a.rx.rxid <;> simp_all
    · cases hr : a.rx.rxid <;> simp_all
    · cases hta : a.rx.ta <;> cases hsa : a.rx.sa <;> simp_all
      cases m.ext <;> simp
      rename_i t sv
      by_cases hid : m.id = a.rx.physId + sv * 256 + t
      · obtain ⟨h1, h2, h3⟩ := fixed_decomp _ _ _ _ hrx.1.2 hrx.2 hrx.1.1.2 hrx.1.1.1 hid
        simp [hid]
        simp [← hid, h1, h2, h3]
      · simp [hid]
  · simp only [Bool.true_or, if_true]
    cases hm : a.rx.mode <;> simp_all [Mode.hasPrefix, Mode.is29, Half.rxId, Spec.optLt, Half.rxExtByte, Spec.bindOpts]
    · cases hr : a.rx.rxid <;> cases hsa : a.rx.sa <;> simp_all
      cases hd : m.data <;> cases m.ext <;> simp [byteAt_cons]
      rename_i v e b tl; by_cases hid : m.id = v <;> simp [hid, eq_comm]
    · cases hr : a.rx.rxid <;> cases hsa : a.rx.sa <;> simp_all
      cases hd : m.data <;> cases m.ext <;> simp [byteAt_cons]
      rename_i v e b tl; by_cases hid : m.id = v <;> simp [hid, eq_comm]
    · cases hr : a.rx.rxid <;> cases hsa : a.rx.ae <;> simp_all
      cases hd : m.data <;> cases m.ext <;> simp [byteAt_cons]
      rename_i v e b tl; by_cases hid : m.id = v <;> simp [hid, eq_comm]
    · cases hta : a.rx.ta <;> cases hsa : a.rx.sa <;> cases hae : a.rx.ae <;> simp_all
      cases hd : m.data <;> cases m.ext <;> simp [byteAt_cons]
      rename_i t sv e b tl
      by_cases hid : m.id = a.rx.physId + sv * 256 + t
      · obtain ⟨h1, h2, h3⟩ := fixed_decomp _ _ _ _ hrx.1.1.2 hrx.1.2 hrx.1.1.1.2 hrx.1.1.1.1 hid
        simp [hid]
        rw [hid] at h1 h2 h3
        intro _; exact ⟨⟨Or.inl h1, h2⟩, h3⟩
      · have hb := beq_false_of_ne hid
        simp [hb]

end Isotp.Sock

namespace Isotp.Sock
open Isotp

theorem kernelAcceptsLinux_eq (k : Kernel) (m : CanMsg)
    (h : Spec.flagSet k.opts.flags Spec.EXTEND_ADDR = Spec.flagSet k.opts.flags Spec.RX_EXT_ADDR) :
    Spec.kernelAcceptsLinux k m = Spec.kernelAccepts k m := by
  unfold Spec.kernelAcceptsLinux Spec.kernelAccepts
  cases k.bound with
  | none => rfl
  | some p =>
    rw [h]
    cases Spec.flagSet k.opts.flags Spec.RX_EXT_ADDR <;> simp

/-- outside the fixed modes `is_for_me` already pins the identifier -/
theorem isForMe_id (h : Half) (m : CanMsg)
    (hm : h.mode ≠ .nf29 ∧ h.mode ≠ .m29) (hf : h.isForMe m = true) : m.id = h.rxId .physical := by
  unfold Half.isForMe at hf
  unfold Half.rxId
  cases hmode : h.mode <;> simp_all <;>
    (cases hr : h.rxid <;> simp_all)

/-- in the fixed modes, the physical identifier is the one whose bits 28..16 are `physical_id` -/
theorem isForMe_fixed_id (h : Half) (m : CanMsg) (hw : Spec.rxWf h = true)
    (hm : h.mode = .nf29 ∨ h.mode = .m29) (hlt : m.id < 2^29) (hf : h.isForMe m = true)
    (hp : mask2816 m.id = h.physId) : m.id = h.rxId .physical := by
  unfold Spec.rxWf at hw
  unfold Half.isForMe at hf
  unfold Half.rxId
  unfold mask2816 at hp
  rcases hm with hm | hm <;> simp_all [Spec.optLt] <;>
    (cases hta : h.ta <;> cases hsa : h.sa <;> simp_all <;> omega)

theorem rxId_fixed_mask (h : Half) (hw : Spec.rxWf h = true) (hm : h.mode = .nf29 ∨ h.mode = .m29) :
    mask2816 (h.rxId .physical) = h.physId := by
  unfold Spec.rxWf at hw
  unfold Half.rxId mask2816
  rcases hm with hm | hm <;> simp_all [Spec.optLt] <;>
    (cases hta : h.ta <;> cases hsa : h.sa <;> simp_all <;> omega)

end Isotp.Sock

namespace Isotp.Sock
open Isotp

theorem bindArgs_bad (k : KOpts) (a : Addr) (he : Spec.extBytesOk a = false) :
    Spec.argsOk (bindArgs k a) = false := by
  have fn : ∀ hi, Spec.fieldOk .none hi = true := fun _ => rfl
  simp only [Spec.argsOk, bindArgs, fieldOk_optPy, fn, Bool.and_true]
  unfold Spec.extBytesOk at he
  cases h1 : a.tx.txExtByte <;> cases h2 : a.rx.rxExtByte <;> simp_all <;> omega

theorem extBytes_none_of_noPrefix (a : Addr) (h : (a.tx.mode.hasPrefix || a.rx.mode.hasPrefix) = false) :
    Spec.extBytesOk a = true := by
  simp only [Bool.or_eq_false_iff] at h
  simp [Spec.extBytesOk, txExtByte_noPrefix _ h.1, rxExtByte_noPrefix _ h.2]

/-- complete description of `bind` on an in-range kernel state -/
theorem bind_total (s : Sock) (a : Addr) (asym : Bool) (hk : s.k.opts.wf) :
    bind s a asym =
      if asym && (a.rx.mode.hasPrefix != a.tx.mode.hasPrefix) then .error .ValueError
      else if (a.tx.mode.hasPrefix || a.rx.mode.hasPrefix) && s.bound then .error .RuntimeError
      else if !Spec.extBytesOk a then .error .ValueError
      else .ok (Spec.afterBind s a) := by
  cases he : Spec.extBytesOk a
  · have hp : (a.tx.mode.hasPrefix || a.rx.mode.hasPrefix) = true := by
      cases h : (a.tx.mode.hasPrefix || a.rx.mode.hasPrefix)
      · rw [extBytes_none_of_noPrefix a h] at he; cases he
      · rfl
    unfold bind
    split
    · rfl
    · rw [parse_layout_opts _ hk]
      have hargs := bindArgs_model s.k.opts a
      simp only [hargs, hp, Bool.true_and]
      cases hb : s.bound
      · simp [setOpts, hb, writeOpts_reject s _ (bindArgs_bad _ a he)]
      · simp [setOpts, hb]
  · simp only [bind_eq s a asym hk he, Bool.not_true, Bool.false_eq_true, if_false]

/-- the recorded bind call, with no assumption on the state or the address -/
theorem bind_call (s s' : Sock) (a : Addr) (asym : Bool) (h : bind s a asym = .ok s') :
    (∃ rest, s'.calls = .bind (Spec.bindIds a).1 (Spec.bindIds a).2 :: rest) ∧
      s'.k.bound = some (Spec.bindIds a) ∧ s'.bound = true := by
  unfold bind at h
  simp only [← canId_eq] at h
  split at h
  · cases h
  · split at h
    · cases h
    · injection h with h
      subst h
      exact ⟨⟨_, rfl⟩, rfl, rfl⟩

end Isotp.Sock
