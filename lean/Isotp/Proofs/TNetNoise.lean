import Isotp.Proofs.TNetThreads
/-
  C13, network level — foreign frames on the bus ("… regardless of … unrelated, error or remote frames on the bus").

  With foreign frames the threaded pair is no longer a schedule of `Isotp.Net` (the inbox of a logic layer holds frames
  the network of Props/C01net.lean never carries, and the rx loop of `process()` may hand over to the tx loop after a
  foreign frame). The delivery theorem is therefore proved directly on `TNet`, for EVERY thread schedule, from the same
  per-layer invariants as the network theorem (`LayerInv`, `Layer2` of Proofs/NetSafety.lean / NetSend2.lean — they hold
  for any input, the address filter is part of `process()`); only the conservation law is new:

      (frames emitted by peer b) filtered by the address filter of the other peer
        = (frames read by the other peer ++ its unread input ++ its relay queue ++ its bus) filtered the same way

  — a foreign frame is one that the filter of the peer that reads it rejects, so it drops out on both sides.

  * `NInv`: the invariant; `ninv_step`, `ninv_run`: it holds after every admissible schedule.
  * `safety_noise_core` / `errors_noise_core`: delivered payloads are a prefix of the payloads sent by the peer; only
    `UnexpectedFlowControlError` can be reported (no timeout error at either layer, valid STmin).
-/
set_option linter.unusedSimpArgs false

namespace Isotp.TNetP
open Isotp Isotp.State Isotp.NetP TNet

/-- the address filter of peer `b` -/
def accF (S : Setting) (b : Bool) (m : CanMsg) : Bool := (S.a b).rx.isForMe m

/-- everything peer `b` has read or will read, in order: frames read by its rx loop, unread input, relay queue, bus -/
def incoming (d : TNet) (tr : List TEv) (b : Bool) : List CanMsg :=
  seen (d.get b).core (TNet.logOf b tr).reverse ++ d.inFlight b

def NInv (S : Setting) (d : TNet) (tr : List TEv) : Prop :=
  (∀ b, Live (d.get b)) ∧
  (∀ b, (d.get b).core.log = [] ∧
    LayerInv (S.c b) (S.a b) (S.c (!b)).maxFrameSize (d.get b).core (TNet.logOf b tr).reverse (TNet.sentOf b tr)
      (TNet.recvdOf b tr) ∧
    (Net.txOf (TNet.logOf b tr)).filter (accF S (!b)) = (incoming d tr (!b)).filter (accF S (!b))) ∧
  (StminOk S → (∀ b, noT (TNet.logOf b tr) = true) → ∀ b,
    Layer2 (S.c b) (S.a b) (S.c (!b)).maxFrameSize (d.get b).core (TNet.logOf b tr).reverse (TNet.sentOf b tr))

/-- a thread of peer `b` runs an operation of the logic layer and leaves it in TL-state `t'`, observed as `ev` -/
theorem ninv_core_op (S : Setting) {d : TNet} {tr : List TEv} (hinv : NInv S d tr) (b : Bool) (t' : TL) (ev : TEv)
    (hlive : Live t') (hfl : somes t'.relayQ ++ t'.bus = d.inFlight b)
    (he1 : ev.evsOf b = t'.core.log.reverse) (he2 : ev.evsOf (!b) = [])
    (hs2 : TNet.sentOf (!b) [ev] = []) (hr2 : TNet.recvdOf (!b) [ev] = [])
    (hF : LayerInv (S.c b) (S.a b) (S.c (!b)).maxFrameSize (coreIn d b) (TNet.logOf b tr).reverse (TNet.sentOf b tr)
        (TNet.recvdOf b tr) →
      LayerInv (S.c b) (S.a b) (S.c (!b)).maxFrameSize t'.core (TNet.logOf b tr).reverse
        (TNet.sentOf b tr ++ TNet.sentOf b [ev]) (TNet.recvdOf b tr ++ TNet.recvdOf b [ev]) ∧
      seen t'.core (TNet.logOf b tr).reverse = seen (coreIn d b) (TNet.logOf b tr).reverse)
    (hG : SafeOk (coreIn d b) → (∀ m ∈ seen (coreIn d b) (TNet.logOf b tr).reverse, InGood (S.c b) (S.a b) m) →
      (noT ((coreIn d b).log ++ (TNet.logOf b tr).reverse) = true →
        Layer2 (S.c b) (S.a b) (S.c (!b)).maxFrameSize (coreIn d b) (TNet.logOf b tr).reverse (TNet.sentOf b tr)) →
      noT (t'.core.log ++ (TNet.logOf b tr).reverse) = true →
      Layer2 (S.c b) (S.a b) (S.c (!b)).maxFrameSize t'.core (TNet.logOf b tr).reverse
        (TNet.sentOf b tr ++ TNet.sentOf b [ev])) :
    NInv S (d.leave b t').1 (tr ++ [ev]) := by
  obtain ⟨hlv, hall, hcond⟩ := hinv
  obtain ⟨hlog, hL, hcons⟩ := hall b
  obtain ⟨hlog2, hL2, hcons2⟩ := hall (!b)
  rw [Bool.not_not] at hL2 hcons2
  have henter : LayerInv (S.c b) (S.a b) (S.c (!b)).maxFrameSize (coreIn d b) (TNet.logOf b tr).reverse
      (TNet.sentOf b tr) (TNet.recvdOf b tr) :=
    hL.relabel d.now [] (TNet.logOf b tr).reverse (d.get b).core.exc hL.safe.2 (by rw [hlog])
  have hseen0 : seen (coreIn d b) (TNet.logOf b tr).reverse = seen (d.get b).core (TNet.logOf b tr).reverse :=
    seen_relabel (d.get b).core (TNet.logOf b tr).reverse d.now [] (TNet.logOf b tr).reverse (d.get b).core.exc
      (by rw [hlog])
  have henter2 : StminOk S → (∀ b, noT (TNet.logOf b tr) = true) →
      Layer2 (S.c b) (S.a b) (S.c (!b)).maxFrameSize (coreIn d b) (TNet.logOf b tr).reverse (TNet.sentOf b tr) :=
    fun hst hn => (hcond hst hn b).relabel d.now [] (TNet.logOf b tr).reverse (d.get b).core.exc (by rw [hlog])
  have hgood : StminOk S → (∀ b, noT (TNet.logOf b tr) = true) →
      ∀ m ∈ seen (coreIn d b) (TNet.logOf b tr).reverse, InGood (S.c b) (S.a b) m := by
    intro hst hn m hm
    rw [hseen0] at hm
    by_cases hacc : accF S b m = true
    · have hmem : m ∈ (Net.txOf (TNet.logOf (!b) tr)).filter (accF S b) := by
        rw [hcons2]
        exact List.mem_filter.mpr ⟨List.mem_append_left _ hm, hacc⟩
      have hmem' := (List.mem_filter.mp hmem).1
      have hfr := (hcond hst hn (!b)).send2.frames m (by rw [hlog2, List.nil_append, List.reverse_reverse]; exact hmem')
      rw [Bool.not_not] at hfr
      exact outGood_inGood S hst b m hfr
    · intro h; exact absurd h hacc
  obtain ⟨hF1, hF2⟩ := hF henter
  have hG' := hG henter.safe
  have hlogb : (TNet.logOf b (tr ++ [ev])).reverse = t'.core.log ++ (TNet.logOf b tr).reverse := by
    rw [logOf_snoc, he1, List.reverse_append, List.reverse_reverse]
  have hlognb : TNet.logOf (!b) (tr ++ [ev]) = TNet.logOf (!b) tr := by
    rw [logOf_snoc, he2, List.append_nil]
  have hseen1 : seen ({ t'.core with log := [] } : State) (t'.core.log ++ (TNet.logOf b tr).reverse) =
      seen t'.core (TNet.logOf b tr).reverse := seen_relabel t'.core _ t'.core.now [] _ t'.core.exc rfl
  have hsafe' : t'.core.exc = none := hF1.safe.2
  have hin_other : (d.leave b t').1.inFlight (!b) = d.inFlight (!b) ++ Net.txOf t'.core.log.reverse := by
    rw [inFlight_eq, leave_get_other, inFlight_eq, List.append_assoc]
  have hin_same : (d.leave b t').1.inFlight b = d.inFlight b := by
    rw [inFlight_eq, leave_get_same]; exact hfl
  refine ⟨?_, ?_, ?_⟩
  · intro b'
    by_cases hb : b' = b
    · subst hb; rw [leave_get_same]; exact ⟨hlive.main, hlive.relay, hlive.noStop⟩
    · rw [eq_not_of_ne hb, leave_get_other]; exact ⟨(hlv _).main, (hlv _).relay, (hlv _).noStop⟩
  · intro b'
    by_cases hb : b' = b
    · subst hb
      rw [leave_get_same, hlogb, sentOf_snoc, recvdOf_snoc]
      refine ⟨rfl, ?_, ?_⟩
      · exact hF1.relabel t'.core.now [] _ t'.core.exc hsafe' rfl
      · rw [logOf_snoc, he1, txOf_append, List.filter_append, hcons]
        show _ = List.filter _ (seen ((d.leave b' t').1.get (!b')).core (TNet.logOf (!b') (tr ++ [ev])).reverse ++
          (d.leave b' t').1.inFlight (!b'))
        rw [hin_other, hlognb, leave_get_other, ← List.append_assoc, List.filter_append]
        rfl
    · have hb' := eq_not_of_ne hb
      subst hb'
      rw [leave_get_other, hlognb, sentOf_snoc, recvdOf_snoc, hs2, hr2, List.append_nil, List.append_nil, Bool.not_not]
      refine ⟨hlog2, ?_, ?_⟩
      · exact hL2
      · rw [hcons2]
        show _ = List.filter _ (seen ((d.leave b t').1.get b).core (TNet.logOf b (tr ++ [ev])).reverse ++
          (d.leave b t').1.inFlight b)
        rw [hin_same, hlogb, leave_get_same]
        show _ = List.filter _ (seen ({ t'.core with log := [] } : State) _ ++ _)
        rw [hseen1, hF2, hseen0]
        rfl
  · intro hst hnT
    have hnTold : ∀ b'', noT (TNet.logOf b'' tr) = true := by
      intro b''
      by_cases hb : b'' = b
      · subst hb
        have := hnT b''
        rw [logOf_snoc, noT_append] at this
        exact (Bool.and_eq_true _ _ ▸ this).1
      · have hb' := eq_not_of_ne hb
        subst hb'
        have := hnT (!b)
        rwa [hlognb] at this
    have hnAfter : noT (t'.core.log ++ (TNet.logOf b tr).reverse) = true := by
      have := hnT b
      rw [← noT_reverse, hlogb] at this
      exact this
    intro b'
    by_cases hb : b' = b
    · subst hb
      rw [leave_get_same, hlogb, sentOf_snoc]
      have h2 := hG' (hgood hst hnTold) (fun _ => henter2 hst hnTold) hnAfter
      exact h2.relabel t'.core.now [] _ t'.core.exc rfl
    · have hb' := eq_not_of_ne hb
      subst hb'
      rw [leave_get_other, hlognb, sentOf_snoc, hs2, List.append_nil]
      exact hcond hst hnTold (!b)

theorem logOf_silent (b : Bool) (tr : List TEv) : TNet.logOf b (tr ++ [.silent]) = TNet.logOf b tr := by
  rw [logOf_snoc]; simp [TEv.evsOf]
theorem sentOf_silent (b : Bool) (tr : List TEv) : TNet.sentOf b (tr ++ [.silent]) = TNet.sentOf b tr := by
  rw [sentOf_snoc]; simp [TNet.sentOf]
theorem recvdOf_silent (b : Bool) (tr : List TEv) : TNet.recvdOf b (tr ++ [.silent]) = TNet.recvdOf b tr := by
  rw [recvdOf_snoc]; simp [TNet.recvdOf]

/-- a silent observation changes nothing -/
theorem ninv_silent (S : Setting) {d : TNet} {tr : List TEv} (hinv : NInv S d tr) : NInv S d (tr ++ [.silent]) := by
  obtain ⟨hlv, hall, hcond⟩ := hinv
  refine ⟨hlv, fun b => ?_, ?_⟩
  · unfold incoming
    simp only [logOf_silent, sentOf_silent, recvdOf_silent]
    exact hall b
  · simp only [logOf_silent, sentOf_silent]
    exact hcond

/-- a step on the queues of peer `b` that keeps its logic layer and, up to frames its filter rejects, what is in
    flight towards it (relay iteration, foreign frame) -/
theorem ninv_set (S : Setting) {d : TNet} {tr : List TEv} (hinv : NInv S d tr) (b : Bool) (t2 : TL)
    (hcore : t2.core = (d.get b).core) (hlive : Live t2)
    (hfl : (somes t2.relayQ ++ t2.bus).filter (accF S b) = (d.inFlight b).filter (accF S b)) :
    NInv S (d.set b t2) tr := by
  obtain ⟨hlv, hall, hcond⟩ := hinv
  have hc : ∀ b', ((d.set b t2).get b').core = (d.get b').core := by
    intro b'
    by_cases hb : b' = b
    · subst hb; rw [get_set_same, hcore]
    · rw [eq_not_of_ne hb, get_set_other]
  refine ⟨fun b' => ?_, fun b' => ?_, fun hst hn b' => ?_⟩
  · by_cases hb : b' = b
    · subst hb; rw [get_set_same]; exact hlive
    · rw [eq_not_of_ne hb, get_set_other]; exact hlv _
  · rw [hc]
    obtain ⟨h1, h2, h3⟩ := hall b'
    refine ⟨h1, h2, ?_⟩
    rw [h3]
    unfold incoming
    rw [hc, List.filter_append, List.filter_append]
    congr 1
    by_cases hb : b' = b
    · subst hb; rw [inFlight_eq (d.set b' t2), get_set_other, ← inFlight_eq]
    · have hb' := eq_not_of_ne hb
      subst hb'
      rw [Bool.not_not, inFlight_eq (d.set b t2), get_set_same]
      exact hfl.symm
  · rw [hc]; exact hcond hst hn b'

/-- the first half of a worker iteration (frames move from the relay queue to the unread input of the logic layer) -/
theorem ninv_take (S : Setting) {d : TNet} {tr : List TEv} (hinv : NInv S d tr) (b : Bool) : NInv S (takeStep d b) tr := by
  obtain ⟨hlv, hall, hcond⟩ := hinv
  have hcb : ((takeStep d b).get b).core = pushAll (d.get b).core (TL.takeUntilNone (d.get b).relayQ).1 := by
    rw [pushAll_fields, takeStep, get_set_same]
  have hco : ((takeStep d b).get (!b)) = d.get (!b) := by rw [takeStep, get_set_other]
  refine ⟨fun b' => ?_, fun b' => ?_, fun hst hn b' => ?_⟩
  · by_cases hb : b' = b
    · subst hb; rw [takeStep, get_set_same]; exact ⟨(hlv _).main, (hlv _).relay, (hlv _).noStop⟩
    · rw [eq_not_of_ne hb, hco]; exact hlv _
  · by_cases hb : b' = b
    · subst hb
      obtain ⟨h1, h2, h3⟩ := hall b'
      obtain ⟨hp1, hp2, -⟩ := h2.push (TL.takeUntilNone (d.get b').relayQ).1
      rw [hcb]
      refine ⟨hp2.trans h1, hp1, ?_⟩
      rw [h3]
      unfold incoming
      rw [hco, inFlight_eq (takeStep d b'), hco, ← inFlight_eq]
    · have hb' := eq_not_of_ne hb
      subst hb'
      obtain ⟨h1, h2, h3⟩ := hall (!b)
      rw [hco]
      refine ⟨h1, h2, ?_⟩
      rw [h3, Bool.not_not]
      unfold incoming
      obtain ⟨-, -, hp3⟩ := (hall b).2.1.push (TL.takeUntilNone (d.get b).relayQ).1
      rw [hcb, hp3, inFlight_eq, inFlight_eq, takeUntilNone_somes (d.get b).relayQ]
      simp only [takeStep, get_set_same, List.append_assoc]
  · by_cases hb : b' = b
    · subst hb
      rw [hcb, pushAll_fields]
      exact (hcond hst hn b').push _
    · rw [eq_not_of_ne hb, hco]; exact hcond hst hn _

/-- admissible foreign frame: rejected by the address filter of the peer that reads it -/
def noiseOkS (S : Setting) : TStep → Prop
  | .noise b m => accF S b m = false
  | _ => True

theorem t_sentOf_worked (b b' : Bool) (k : Nat) (evs : List Ev) : TNet.sentOf b [TEv.worked b' k evs] = [] := rfl
theorem t_recvdOf_worked (b b' : Bool) (k : Nat) (evs : List Ev) : TNet.recvdOf b [TEv.worked b' k evs] = [] := rfl
theorem t_recvdOf_sent (b b' : Bool) (a : SendArgs) (r : Option PyExc) (evs : List Ev) :
    TNet.recvdOf b [TEv.sent b' a r evs] = [] := rfl
theorem t_sentOf_recvd (b b' : Bool) (r : Option Bytes) (evs : List Ev) : TNet.sentOf b [TEv.recvd b' r evs] = [] := rfl

/-- **One step** (foreign frames included) keeps the invariant. -/
theorem ninv_step (S : Setting) {d : TNet} {tr : List TEv} (hinv : NInv S d tr) (s : TStep) (hok : stepOkS S s)
    (hno : noiseOkS S s) : NInv S (d.step s).1 (tr ++ [(d.step s).2]) := by
  have hlv := hinv.1
  cases s with
  | userSend b a =>
    obtain ⟨hsz, h1, h2, h3⟩ := hok
    have ht : ((d.enter b).send a).1 = { d.get b with
        core := ((coreIn d b).send a).1,
        relayQ := if ((coreIn d b).send a).2 = some .ValueError then (d.get b).relayQ else (d.get b).relayQ ++ [none] } := by
      rw [tl_send_eq]; rfl
    have hr : ((d.enter b).send a).2 = ((coreIn d b).send a).2 := by rw [tl_send_eq]; rfl
    show NInv S (d.leave b ((d.enter b).send a).1).1
      (tr ++ [.sent b a ((d.enter b).send a).2 (d.leave b ((d.enter b).send a).1).2])
    rw [leave_evs, hr]
    refine ninv_core_op S hinv b _ _ ?_ ?_ ?_ ?_ ?_ ?_ ?_ ?_
    · rw [ht]; exact ⟨(hlv b).main, (hlv b).relay, (hlv b).noStop⟩
    · rw [ht, inFlight_eq]; show somes (if _ then _ else _) ++ _ = _; split <;> simp
    · simp [TEv.evsOf]
    · simp [TEv.evsOf]
    · rw [t_sentOf_sent]; simp
    · rfl
    · intro hl
      rw [ht]
      show LayerInv _ _ _ ((coreIn d b).send a).1 _ _ _ ∧ seen ((coreIn d b).send a).1 _ = _
      obtain ⟨h3', h4, h5⟩ := hl.sendOp a hsz h1 h2 (h3 b rfl)
      refine ⟨?_, by simp only [seen, h4, h5]⟩
      rw [t_sentOf_sent, t_recvdOf_sent, List.append_nil]
      cases hq : queued ((coreIn d b).send a).2
      · simpa [hq] using h3'
      · simpa [hq] using h3'
    · intro _ _ h0 hn
      rw [ht] at hn ⊢
      show Layer2 _ _ _ ((coreIn d b).send a).1 _ _
      have hlg : ((coreIn d b).send a).1.log = (coreIn d b).log := by
        rcases C12.send_cases (coreIn d b) a with ⟨-, hst⟩ | ⟨-, -, hst⟩ <;> rw [hst]
      have hn' : noT ((coreIn d b).log ++ (TNet.logOf b tr).reverse) = true := by rw [← hlg]; exact hn
      have h4 := (h0 hn').sendOp a hsz h1 h2 (h3 b rfl)
      rw [t_sentOf_sent]
      cases hq : queued ((coreIn d b).send a).2
      · simpa [hq] using h4
      · simpa [hq] using h4
  | userRecv b =>
    have ht : (d.enter b).recv.1 = { d.get b with core := (coreIn d b).recv.1 } := rfl
    have hr : (d.enter b).recv.2 = (coreIn d b).recv.2 := rfl
    show NInv S (d.leave b (d.enter b).recv.1).1 (tr ++ [.recvd b (d.enter b).recv.2 (d.leave b (d.enter b).recv.1).2])
    rw [leave_evs, hr]
    refine ninv_core_op S hinv b _ _ ?_ ?_ ?_ ?_ ?_ ?_ ?_ ?_
    · rw [ht]; exact ⟨(hlv b).main, (hlv b).relay, (hlv b).noStop⟩
    · rw [ht, inFlight_eq]
    · simp [TEv.evsOf]
    · simp [TEv.evsOf]
    · rfl
    · rw [t_recvdOf_recvd]; simp
    · intro hl
      rw [ht]
      show LayerInv _ _ _ (coreIn d b).recv.1 _ _ _ ∧ seen (coreIn d b).recv.1 _ = _
      obtain ⟨h3', h4, h5⟩ := hl.recvOp
      refine ⟨?_, by simp only [seen, h4, h5]⟩
      rw [t_sentOf_recvd, t_recvdOf_recvd, List.append_nil]
      simpa using h3'
    · intro _ _ h0 hn
      rw [ht] at hn ⊢
      show Layer2 _ _ _ (coreIn d b).recv.1 _ _
      have hlg : (coreIn d b).recv.1.log = (coreIn d b).log := by unfold State.recv; split <;> rfl
      have hn' : noT ((coreIn d b).log ++ (TNet.logOf b tr).reverse) = true := by rw [← hlg]; exact hn
      rw [t_sentOf_recvd, List.append_nil]
      exact (h0 hn').recvOp
  | relay b =>
    show NInv S (d.set b (d.get b).relayStep) (tr ++ [.silent])
    apply ninv_silent
    cases hb : (d.get b).bus with
    | nil =>
      rw [relayStep_nil _ (hlv b) hb]
      exact ninv_set S hinv b _ rfl (hlv b) rfl
    | cons m rest =>
      rw [relayStep_cons _ (hlv b) m rest hb]
      refine ninv_set S hinv b _ rfl ⟨(hlv b).main, (hlv b).relay, (hlv b).noStop⟩ ?_
      rw [inFlight_eq, hb]
      simp
  | noise b m =>
    show NInv S (d.set b { d.get b with bus := (d.get b).bus ++ [m] }) (tr ++ [.silent])
    apply ninv_silent
    refine ninv_set S hinv b _ rfl ⟨(hlv b).main, (hlv b).relay, (hlv b).noStop⟩ ?_
    have hm : accF S b m = false := hno
    rw [inFlight_eq, ← List.append_assoc, List.filter_append]
    simp [hm]
  | tick dt =>
    show NInv S { d with now := d.now + dt } (tr ++ [.silent])
    apply ninv_silent
    obtain ⟨h1, h2, h3⟩ := hinv
    refine ⟨fun b => by rw [get_now]; exact h1 b, fun b => ?_, fun hst hn b => by rw [get_now]; exact h3 hst hn b⟩
    unfold incoming
    rw [get_now, inFlight_eq, get_now, get_now, ← inFlight_eq]
    exact h2 b
  | worker b =>
    have hinv1 := ninv_take S hinv b
    show NInv S (d.leave b (d.enter b).workerStep).1 (tr ++ [.worked b (d.movedBy b) (d.leave b (d.enter b).workerStep).2])
    rw [worker_eq d b (hlv b), leave_evs]
    have hlv1 := hinv1.1
    refine ninv_core_op S hinv1 b _ _ ⟨(hlv1 b).main, (hlv1 b).relay, (hlv1 b).noStop⟩ (by rw [inFlight_eq]; rfl) ?_ ?_
      rfl rfl ?_ ?_
    · simp [TEv.evsOf]
    · simp [TEv.evsOf]
    · intro hl
      rw [t_sentOf_worked, t_recvdOf_worked, List.append_nil, List.append_nil]
      exact ⟨hl.process true true, seen_process _ _ true true⟩
    · intro hsafe hg h0 hn
      rw [t_sentOf_worked, List.append_nil]
      exact Layer2.process true true hsafe hg h0 hn

theorem ninv_runFrom (S : Setting) (ss : List TStep) : ∀ (d : TNet) (tr : List TEv), NInv S d tr →
    (∀ s ∈ ss, stepOkS S s ∧ noiseOkS S s) → NInv S (TNet.runFrom d tr ss).1 (TNet.runFrom d tr ss).2 := by
  induction ss with
  | nil => intro d tr h _; exact h
  | cons s ss ih =>
    intro d tr h hok
    rw [runFrom_cons]
    exact ih _ _ (ninv_step S h s (hok s List.mem_cons_self).1 (hok s List.mem_cons_self).2)
      (fun x hx => hok x (List.mem_cons_of_mem _ hx))

theorem ninv_init (S : Setting) : NInv S (tnet0 S) [] := by
  refine ⟨fun b => by cases b <;> exact ⟨rfl, rfl, rfl⟩, fun b => ⟨by cases b <;> rfl, ?_, by cases b <;> rfl⟩,
    fun _ _ b => ?_⟩
  · have : ((tnet0 S).get b).core = State.init (S.c b) (S.a b) := by cases b <;> rfl
    rw [this]
    exact layerInv_init _ _ _ (S.valid b)
  · have : ((tnet0 S).get b).core = State.init (S.c b) (S.a b) := by cases b <;> rfl
    rw [this]
    exact layer2_init _ _ _

/-- **The invariant holds after every admissible thread schedule, foreign frames included.** -/
theorem ninv_run (S : Setting) (sched : List TStep) (hok : ∀ s ∈ sched, stepOkS S s ∧ noiseOkS S s) :
    NInv S (TNet.run (tnet0 S) sched).1 (TNet.run (tnet0 S) sched).2 :=
  ninv_runFrom S sched _ _ (ninv_init S) hok

/-- with no timeout at either layer: the data frames peer `b` has fed to `_process_rx` are a prefix of the data frames
    the other peer has emitted (foreign frames never get that far) -/
theorem fed_prefix (S : Setting) (hst : StminOk S) {d : TNet} {tr : List TEv} (hinv : NInv S d tr) (b : Bool)
    (hnT : ∀ b, noT (TNet.logOf b tr) = true) :
    fed (S.a b) (TNet.logOf b tr) <+: dataOut (S.a (!b)).tx.txPrefix.length (TNet.logOf (!b) tr) := by
  obtain ⟨-, hall, hcond⟩ := hinv
  obtain ⟨hlogj, -, -⟩ := hall b
  obtain ⟨hlogi, -, hcons⟩ := hall (!b)
  rw [Bool.not_not] at hcons
  have h2 := hcond hst hnT
  have hfr := (h2 (!b)).send2.frames
  rw [hlogi, List.nil_append, List.reverse_reverse] at hfr
  have hall_acc : ∀ m ∈ Net.txOf (TNet.logOf (!b) tr), accF S b m = true :=
    fun m hm => frameOk_accepted S b m (hfr m hm).1
  have hP : (rxOf (TNet.logOf b tr)).filter (accF S b) <+: Net.txOf (TNet.logOf (!b) tr) := by
    rw [← List.filter_eq_self.mpr hall_acc, hcons]
    unfold incoming seen
    rw [hlogj, List.nil_append, List.reverse_reverse, List.append_assoc, List.filter_append]
    exact List.prefix_append _ _
  unfold fed dataOut
  have e : (rxOf (TNet.logOf b tr)).filter (fun m => (S.a b).rx.isForMe m && !isFc (S.a b).rx.rxPrefixSize m) =
      ((rxOf (TNet.logOf b tr)).filter (accF S b)).filter (fun m => !isFc (S.a (!b)).tx.txPrefix.length m) := by
    rw [List.filter_filter, prefixSize_eq S b]
    apply List.filter_congr
    intro m _
    simp only [accF, Bool.and_comm]
  rw [e]
  exact (hP.filter _).map _

/-- **Safety core with foreign frames.** In a state satisfying the invariant, if neither logic layer has reported a
    timeout error, what `recv()` returned at peer `b` followed by its rx queue is a prefix of the payloads accepted by
    `send()` at the other peer. -/
theorem safety_noise_core (S : Setting) (hst : StminOk S) {d : TNet} {tr : List TEv} (hinv : NInv S d tr) (b : Bool)
    (hnT : ∀ b, noT (TNet.logOf b tr) = true)
    (hsend : Compose.Sendable (State.init (S.c b) (S.a b)) (TNet.sentOf (!b) tr)) :
    (TNet.recvdOf b tr ++ (d.get b).core.rxQueue) <+: TNet.sentOf (!b) tr := by
  have hfed := fed_prefix S hst hinv b hnT
  obtain ⟨-, hall, hcond⟩ := hinv
  obtain ⟨hlogj, hLj, -⟩ := hall b
  obtain ⟨hlogi, -, -⟩ := hall (!b)
  have h2 := hcond hst hnT
  have hR := (h2 b).feeds
  rw [hlogj, List.nil_append, List.reverse_reverse] at hR
  have hpr := (h2 (!b)).send2.prog.prefix
  rw [hlogi, List.nil_append, List.reverse_reverse] at hpr
  have hpre := hfed.trans hpr
  rw [List.prefix_iff_eq_take] at hpre
  rw [hpre] at hR
  have hlink : Compose.Link (S.c (!b)) (S.a (!b)) (State.init (S.c b) (S.a b)) :=
    ⟨S.valid (!b), S.wf (!b), by
      have hm := S.mirror (!b)
      rw [Bool.not_not] at hm
      exact hm⟩
  have hdel := Compose.messages_prefix _ _ (TNet.sentOf (!b) tr) _ _ _ (hlink.admissible _ hsend) hR
  have hgot := hLj.got
  unfold GotInv at hgot
  rw [hgot, hdel]
  exact completeIn_prefix _ _ _

/-- **Only `UnexpectedFlowControlError` is left, foreign frames included.** -/
theorem errors_noise_core (S : Setting) (hst : StminOk S) {d : TNet} {tr : List TEv} (hinv : NInv S d tr) (b : Bool)
    (hnT : ∀ b, noT (TNet.logOf b tr) = true)
    (hsend : Compose.Sendable (State.init (S.c b) (S.a b)) (TNet.sentOf (!b) tr)) :
    ∀ t x, Ev.err t x ∈ TNet.logOf b tr → x = .UnexpectedFlowControl := by
  have hfed := fed_prefix S hst hinv b hnT
  obtain ⟨-, hall, hcond⟩ := hinv
  obtain ⟨hlogj, hLj, -⟩ := hall b
  obtain ⟨hlogi, -, -⟩ := hall (!b)
  have h2 := hcond hst hnT
  have hR := (h2 b).feeds
  have herr := (h2 b).send2.errs
  rw [hlogj, List.nil_append] at herr
  rw [hlogj, List.nil_append, List.reverse_reverse] at hR
  have hpr := (h2 (!b)).send2.prog.prefix
  rw [hlogi, List.nil_append, List.reverse_reverse] at hpr
  have hpre := hfed.trans hpr
  rw [List.prefix_iff_eq_take] at hpre
  rw [hpre] at hR
  have hlink : Compose.Link (S.c (!b)) (S.a (!b)) (State.init (S.c b) (S.a b)) :=
    ⟨S.valid (!b), S.wf (!b), by
      have hm := S.mirror (!b)
      rw [Bool.not_not] at hm
      exact hm⟩
  have htrace := messages_prefix_trace _ _ (TNet.sentOf (!b) tr) _ _ _ (hlink.admissible _ hsend) rfl hR
  intro t x hx
  rcases herr t x (List.mem_reverse.mpr hx) with hrx | hu
  · exfalso
    have hmem : Rx.RxEv.err x ∈ Rx.rxTrace (relog (d.get b).core (TNet.logOf b tr).reverse) := by
      simp only [Rx.rxTrace, relog, hlogj, List.nil_append, List.reverse_reverse, List.mem_filterMap]
      exact ⟨_, hx, by simp [Rx.rxEv, hrx]⟩
    rw [htrace] at hmem
    simp [Rx.rxTrace, State.init] at hmem
  · exact hu

/-- every accepted payload is the payload of a `userSend` step of the schedule -/
theorem mem_programOf (c : Cfg) (ad : Addr) (b : Bool) (sched : List TStep) (p : Bytes)
    (h : p ∈ programOf c ad b sched) : ∃ a, TStep.userSend b a ∈ sched ∧ a.src = p := by
  simp only [programOf, List.mem_filterMap] at h
  obtain ⟨s, hs, hp⟩ := h
  cases s with
  | userSend b' a =>
    simp only [] at hp
    split at hp
    · rename_i hc
      simp only [Option.some.injEq] at hp
      exact ⟨a, by rw [← hc.1]; exact hs, hp⟩
    · cases hp
  | _ => cases hp

end Isotp.TNetP
