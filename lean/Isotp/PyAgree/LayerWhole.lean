import Isotp.PyAgree.LayerProcess
import Isotp.PyAgree.LayerRx
import Isotp.PyAgree.LayerTxWhole
import Isotp.PyAgree.AddressFns
import Isotp.Proofs.Safe
import Isotp.Proofs.NetTxLog
import Isotp.Proofs.Termination
/-!
  CAPSTONE of the source-agreement leaves: `TransportLayerLogic.process()` (isotp/protocol.py), interpreted in the second (fuelled)
  semantics, WITH ITS CALLEES INTERPRETED FROM THEIR OWN SOURCES, computes the model's `State.process`.

  `process_agrees` (LayerProcess.lean) is relative to abstract callees (`ProcessCallees M R msgPV`).  Here the record `wholeM s0` is built:
  * `"rx_result:=self._process_rx"`  RUNS `Src.TransportLayerLogic_p_process_rx` (first semantics `runFn`, LayerRx's `rxMeths`) and binds
                                     `rx_result.*` from the returned pair                                             (`processRxP`)
  * `"self._check_timeouts_rx"`      RUNS `Src.TransportLayerLogic_p_check_timeouts_rx` (`runFn`, `rxMethsOf`)          (`checkP`)
  * `"tx_result:=self._process_tx"`  RUNS `Src.TransportLayerLogic_p_process_tx` (second semantics `run2`, LayerTxWhole's `txM2`, fuel
                                     `|tx_queue| + 40`) and binds `tx_result.msg` / `.immediate_rx_required`          (`processTxP`)
  * `"self.address.is_for_me"`       RUNS the predicate `Address.__init__` installed (`selectedPredicate`, AddressFns)  (`isForMeP`)
  * primitives of the environment: `rxfn` (the bus = `State.inbox`), `txfn` (the event `.tx`), `rate_limiter.update` (float arithmetic,
    outside the subset: the model's `Limiter.update` on the value `#rl`), `tx_queue.empty()` (`qEmptyP` on `#tx_queue`), the logger (off),
    `ProcessStats`.
  and `wholeM_callees : ProcessCallees (wholeM s0) (RW s0) msgPV` is proved, each field from the corresponding leaf theorem.

  MAIN THEOREMS
  * `process_whole_agrees` : `RW s0 env s`, the three parameters bound, `s.process doRx doTx = (s', st', false)`  ⟹  for every
        `n ≥ processPyFuel s doRx doTx`: `run2 n (wholeM s0) env Src.TransportLayerLogic_process = .ok (.ret (encodeStats st') env')` with
        `RW s0 env' s'`.  (`s'.exc = none` is NOT a hypothesis: it follows from `RW`.)
  * `process_whole_total`  : the same without the hypothesis on the run (`process_fuel_sufficient`: the model never runs out of fuel).
  * `process_whole_init`   : from the canonical environment `env0 s0 ..` of ANY well-formed state (`env0_shows`), with a concrete run.

  THE REPRESENTATION RELATION  `RW s0 env s`  ("`env` shows `s`"):
  * `ops`   `s = runOps s0 ops` for the list `ops` of callee calls recorded under the history key `#ops` (the encoding of LayerProcess's
            `ProcInst`, injective): the environment DETERMINES the model state, which is how the state-indexed primitive records of the
            leaves (`rxMeths s m`, `txM2 s`: clock, configuration, address, limiter, the frame's bytes) are chosen: the interpreted callee
            is run with the record of the state the environment shows;
  * `inv`   `Inv s` = `Safe s` (Proofs/Safe.lean: `cfg.valid`, `txSeq < 16`, `consumed ≤ size` of the active request, the facts that make
            `_process_tx` exception-free) ∧ `exc = none` ∧ `RxJust s` (contains `RxBufOk`) ∧ every QUEUED request has `consumed ≤ size` and a
            non-instrumented generator (`badGen_pull_lost`, LayerTxWhole).  Preserved by `processRx`, `checkTimeoutsRx`, `processTx`, the
            events, the bus and the limiter update (`Inv.processRx` ... `Inv.stepInv`); holds for `State.init` of a valid configuration
            (`Inv.init`) after any `send`s of non-instrumented requests (`Inv.send`) and any frames pushed on the bus (`Inv.bus`);
  * `txo` / `rxo` / `sh`   the attributes, in three groups: written only by `_process_tx` (+ `#tx_queue`, its parameters and constants),
            only by the receive side, by both.  Together: `RW.rep2 : Rep2 env s` (what LayerTxWhole needs), `RW.rxRep : Rx.Rep s (rxView env)`
            and `rxc : Rx.Consts env` (what LayerRx needs), `RW.reads : Reads env s` (what LayerProcess needs).

  ADAPTERS (what had to be reconciled between the leaves; all are functions of the ENVIRONMENT, except the one oracle below)
  * a call runs in its own frame and only the attributes (and history keys) the callee owns are copied back (`copyKeys`, `rxBack`,
    `txBack`): the callee's locals do not leak into the caller's frame - which also gives the frame conditions (`Kept`) for free;
  * messages: LayerProcess passes them BY VALUE (`msgPV = Tx.msgPV`, decoded by `msgOf`); LayerRx wants `msg ↦ .meth "msg"`, the bytes in
    the primitive record (`rxMeths s m`) and the attributes of `pdu = PDU(msg, ...)` bound up front (`rxIn`, as LayerRx's `rxEnvIn`);
  * the mailbox `last_flow_control_frame`: a VALUE for LayerTx (`Tx.optFcPV`), an OBJECT for LayerRx (`fc` / after a Flow Control `pdu`, with
    attributes): `rxView` (value -> object `fc`), `mbBack` (object -> value); `RW` keeps the value;
  * the two histories: `#errors` (LayerRx: classes handed to `_trigger_error`) and `#log` (LayerTx: (time, code) of the errors, completions,
    pulls) are two views of the model's log: after the receive side the new `#errors` are appended to `#log` at the clock (`trErrs`,
    `hist_after_rx`, needs `rxAt_processRx`: these errors are logged AT THE TIME OF THE CALL); after `_process_tx` `#errors` is read off
    `#log` (`errsOfHist`, `errsOfHist_histOf`);
  * `Rx.process_rx_run` only lists the attributes bound at the end; LayerTx also needs `pending_flowcontrol_status` UNBOUND while the model
    has `none`: `process_rx_run2` re-runs LayerRx's case analysis (same branch lemmas) keeping `Rx.Rep` of the final state;
  * the attributes of object-valued locals LayerTxWhole takes as hypotheses (`hL`, `hsd`, `hod`): `flow_control_frame.*` and
    `self.tx_standby_msg.data` are computed from the values the environment holds (`txIn`); `output_msg.data` - the data of the message
    the pass is GOING to build - is an ORACLE: `txIn` takes it from the model (`s.processTx.2.1`).  This is the one place where an
    adapter asks the model for a value the source then reads (`len(output_msg.data)` for the rate limiter); it is forced by the frozen
    flat-environment interpreter (an assignment `x = obj` cannot bind `x.attr`) and by the statement of `process_tx_agrees`.

  NOT covered / left abstract: `rxfn`, `txfn` (user functions), `rate_limiter.update` (floats), the logger; `_process_tx` raising
  (`process_tx_raises` is vacuous: in a well-formed state the model never sets `exc`, `Safe.processTx`).
-/
set_option linter.unusedSimpArgs false
set_option linter.unusedVariables false

namespace Isotp.PyAgree
open Isotp Isotp.Py
namespace Whole

/-! ## A. the two histories (`#errors` of LayerRx, `#log` of LayerTx) are two views of the model's log -/

/-- events `_process_rx` / `_check_timeouts_rx` log: deliveries, and errors AT THE TIME OF THE CALL -/
def rxAt (now : Nat) : Ev → Bool
  | .err t _ => t == now
  | .deliver _ => true
  | _ => false

theorem rxAt_processRx (s : State) (m : CanMsg) : LogExt (rxAt s.now) s.log (s.processRx m).1.log := by
  rw [State.processRx_eq]
  split
  · grind [State.stopReceiving, State.error, State.emit, rxAt]
  · split
    · exact .refl _
    · unfold State.rxSf
      grind [State.deliver, State.stopReceiving, State.error, State.emit, rxAt]
    · unfold State.rxFf State.startReception
      grind [State.stopReceiving, State.error, State.emit, State.requestFc, State.startRxCfTimer, rxAt]
    · unfold State.rxCf
      grind [State.deliver, State.stopReceiving, State.error, State.emit, State.requestFc, State.startRxCfTimer, rxAt]

theorem rxAt_checkTimeoutsRx (s : State) : LogExt (rxAt s.now) s.log s.checkTimeoutsRx.log := by
  unfold State.checkTimeoutsRx
  grind [State.stopReceiving, State.error, State.emit, rxAt]

/-- the error class of a `_trigger_error` code of the transmit side's history (`Tx.errCode`) -/
def errOfCode : Int → Err
  | 0 => .BadGenerator | 1 => .FlowControlTimeout | 2 => .ConsecutiveFrameTimeout | 3 => .InvalidCanData
  | 4 => .UnexpectedFlowControl | 5 => .UnexpectedConsecutiveFrame | 6 => .InterruptedWithSingleFrame
  | 7 => .InterruptedWithFirstFrame | 8 => .WrongSequenceNumber | 9 => .UnsupportedWaitFrame
  | 10 => .MaximumWaitFrameReached | 11 => .FrameTooLong | 12 => .ChangingInvalidRXDL | 13 => .MissingEscapeSequence
  | 14 => .InvalidCanFdFirstFrameRXDL | _ => .Overflow

theorem errOfCode_errCode (e : Err) : errOfCode (Tx.errCode e : Nat) = e := by cases e <;> rfl

/-- the `_trigger_error` code of an `isotp.errors` instance of the receive side's history (`errSc`) -/
def codeOfSc (x : Sc) : Nat :=
  if x = errSc .BadGenerator then 0 else if x = errSc .FlowControlTimeout then 1 else if x = errSc .ConsecutiveFrameTimeout then 2
  else if x = errSc .InvalidCanData then 3 else if x = errSc .UnexpectedFlowControl then 4
  else if x = errSc .UnexpectedConsecutiveFrame then 5 else if x = errSc .InterruptedWithSingleFrame then 6
  else if x = errSc .InterruptedWithFirstFrame then 7 else if x = errSc .WrongSequenceNumber then 8
  else if x = errSc .UnsupportedWaitFrame then 9 else if x = errSc .MaximumWaitFrameReached then 10
  else if x = errSc .FrameTooLong then 11 else if x = errSc .ChangingInvalidRXDL then 12
  else if x = errSc .MissingEscapeSequence then 13 else if x = errSc .InvalidCanFdFirstFrameRXDL then 14 else 15

theorem codeOfSc_errSc (e : Err) : codeOfSc (errSc e) = Tx.errCode e := by cases e <;> decide

/-- the `#errors` history (LayerRx) read off the `#log` history (LayerTx): the error events, in order -/
def errsOfHist : List Sc → List Sc
  | .py (.int 0) :: _ :: .py (.int c) :: rest => errSc (errOfCode c) :: errsOfHist rest
  | _ :: _ :: _ :: rest => errsOfHist rest
  | _ => []

theorem errsOfHist_hist (l : List Ev) : ∀ Y, errsOfHist (Tx.histOf l ++ Y) = errsOf l ++ errsOfHist Y := by
  induction l with
  | nil => intro Y; rfl
  | cons e l ih =>
    intro Y
    show errsOfHist ((Tx.histOf l ++ Tx.encEv e) ++ Y) = _
    rw [List.append_assoc, ih]
    cases e with
    | err t x =>
      show errsOf l ++ (errSc (errOfCode (Tx.errCode x : Nat)) :: errsOfHist Y) = (errsOf l ++ [errSc x]) ++ errsOfHist Y
      rw [errOfCode_errCode]; simp
    | done i b => show errsOf l ++ errsOfHist Y = errsOf l ++ errsOfHist Y; rfl
    | pull i n => show errsOf l ++ errsOfHist Y = errsOf l ++ errsOfHist Y; rfl
    | tx t m => rfl
    | deliver p => rfl
    | rx t m => rfl
    | rxNone t => rfl

theorem errsOfHist_histOf (l : List Ev) : errsOfHist (Tx.histOf l) = errsOf l := by
  have := errsOfHist_hist l []
  simpa [errsOfHist] using this

/-- the entries the receive side's new errors add to the `#log` history -/
def trErrs (now : Nat) (xs : List Sc) : List Sc :=
  xs.flatMap (fun x => [.py (.int 0), .py (.int now), .py (.int (codeOfSc x))])

theorem rxAt_hist {now : Nat} {l l' : List Ev} (h : LogExt (rxAt now) l l') :
    ∃ X, errsOf l' = errsOf l ++ X ∧ Tx.histOf l' = Tx.histOf l ++ trErrs now X := by
  induction h with
  | refl => exact ⟨[], by simp, by simp [trErrs]⟩
  | cons e l l' he _ ih =>
    obtain ⟨X, h1, h2⟩ := ih
    cases e with
    | err t x =>
      have ht : t = now := by simpa [rxAt] using he
      subst ht
      refine ⟨X ++ [errSc x], ?_, ?_⟩
      · show errsOf l' ++ [errSc x] = _
        rw [h1, List.append_assoc]
      · show Tx.histOf l' ++ Tx.encEv (.err t x) = _
        rw [h2, List.append_assoc]
        simp [trErrs, codeOfSc_errSc, Tx.encEv]
    | deliver p => exact ⟨X, h1, by show Tx.histOf l' ++ [] = _; rw [List.append_nil, h2]⟩
    | tx t m => simp [rxAt] at he
    | done i b => simp [rxAt] at he
    | pull i n => simp [rxAt] at he
    | rx t m => simp [rxAt] at he
    | rxNone t => simp [rxAt] at he

/-- the `#log` history after a step of the receive side, from the two `#errors` histories -/
theorem hist_after_rx {now : Nat} {l l' : List Ev} (h : LogExt (rxAt now) l l') :
    Tx.histOf l' = Tx.histOf l ++ trErrs now ((errsOf l').drop (errsOf l).length) := by
  obtain ⟨X, h1, h2⟩ := rxAt_hist h
  rw [h2, h1, List.drop_left]

theorem delivered_after_tx {l l' : List Ev} (h : LogExt Ev.txInternal l l') : deliveredOf l' = deliveredOf l := by
  induction h with
  | refl => rfl
  | cons e l l' he _ ih =>
    cases e <;> first | (simp [Ev.txInternal] at he; done) | exact ih


/-! ## B. plumbing: copying the attributes a callee owns back into the caller's environment

  A call is modelled as in Python: the callee runs in its own frame (the caller's environment plus the parameter bindings and the
  attribute views the leaf theorems ask for), and ONLY the attributes of the object (and the history keys) it owns are copied back:
  the callee's locals do not leak into the caller's frame. -/

def copyKeys (ks : List String) (src dst : Env) : Env := fun k => if k ∈ ks then src k else dst k

theorem copy_in {ks : List String} {src dst : Env} {k : String} (h : k ∈ ks) : copyKeys ks src dst k = src k := if_pos h
theorem copy_out {ks : List String} {src dst : Env} {k : String} (h : k ∉ ks) : copyKeys ks src dst k = dst k := if_neg h

theorem set_ne {env : Env} {k k' : String} {v : PV} (h : k' ≠ k) : (env.set k v) k' = env k' := by
  rw [set_apply, if_neg h]
theorem set_eq {env : Env} {k : String} {v : PV} : (env.set k v) k = some v := by
  rw [set_apply, if_pos rfl]

theorem ne_of_mem {ks : List String} {k k' : String} (h : k' ∈ ks) (hk : k ∉ ks) : k' ≠ k := by
  rintro rfl; exact hk h

/-! ### the mailbox `last_flow_control_frame`: a VALUE for LayerTx (`Tx.optFcPV`), an OBJECT for LayerRx (`mbVal "fc"`, `fc.*`) -/

/-- value -> object -/
def mbObj : Option PV → PV
  | some (.list [_, _, _]) => .meth "fc"
  | _ => pnone
def mbFld (i : Nat) : Option PV → PV
  | some (.list [a, b, c]) => .sc (match i with | 0 => a | 1 => b | _ => c)
  | _ => pnone

theorem mbObj_opt (o : Option FcFrame) : mbObj (some (Tx.optFcPV o)) = mbVal "fc" o := by cases o <;> rfl
theorem mbFld0 (f : FcFrame) : mbFld 0 (some (Tx.optFcPV (some f))) = pint f.status := rfl
theorem mbFld1 (f : FcFrame) : mbFld 1 (some (Tx.optFcPV (some f))) = pint f.bs := rfl
theorem mbFld2 (f : FcFrame) : mbFld 2 (some (Tx.optFcPV (some f))) = pint f.stmin := rfl

/-- the environment LayerRx's `Rx.Rep` is stated for: the mailbox as the object `fc` -/
def rxView (env : Env) : Env :=
  (((env.set "self.last_flow_control_frame" (mbObj (env "self.last_flow_control_frame"))).set
    "fc.flow_status" (mbFld 0 (env "self.last_flow_control_frame"))).set
    "fc.blocksize" (mbFld 1 (env "self.last_flow_control_frame"))).set
    "fc.stmin" (mbFld 2 (env "self.last_flow_control_frame"))

def viewKeys : List String := ["self.last_flow_control_frame", "fc.flow_status", "fc.blocksize", "fc.stmin"]

theorem rxView_other (env : Env) {k : String} (hk : k ∉ viewKeys) : rxView env k = env k := by
  simp only [viewKeys, List.mem_cons, List.not_mem_nil, or_false, not_or] at hk
  unfold rxView
  rw [set_ne hk.2.2.2, set_ne hk.2.2.1, set_ne hk.2.1, set_ne hk.1]

/-- object -> value -/
def mkFc : Option PV → Option PV → Option PV → PV
  | some (.sc a), some (.sc b), some (.sc c) => .list [a, b, c]
  | _, _, _ => pnone
def mbBack (e : Env) : PV :=
  match e "self.last_flow_control_frame" with
  | some (.meth o) =>
    if o = "pdu" then mkFc (e "pdu.flow_status") (e "pdu.blocksize") (e "pdu.stmin")
    else mkFc (e "fc.flow_status") (e "fc.blocksize") (e "fc.stmin")
  | _ => pnone

theorem mbBack_rep {s : State} {e : Env} (h : Rx.Rep s e) : mbBack e = Tx.optFcPV s.lastFc := by
  unfold mbBack
  rw [h.mb]
  cases hf : s.lastFc with
  | none => rfl
  | some f =>
    simp only [mbVal]
    rw [if_neg (by decide), h.fcS f hf, h.fcB f hf, h.fcM f hf]
    rfl

/-! ## C. the representation relation, in three groups of attributes -/

/-- the attributes only `_process_tx` writes (with the parameters and class constants it reads): the fields of `Tx.Rep` on those keys -/
structure TxOwn (env : Env) (s : State) : Prop where
  txState : env "self.tx_state" = some (Tx.txStPV s.txState)
  txFrameLen : env "self.tx_frame_length" = some (pint s.txFrameLen)
  txSeq : env "self.tx_seqnum" = some (pint s.txSeq)
  txBlockCnt : env "self.tx_block_counter" = some (pint s.txBlockCnt)
  remoteBs : env "self.remote_blocksize" = some (optPV s.remoteBs)
  wftCnt : env "self.wft_counter" = some (pint s.wftCnt)
  listen : env "self.params.listen_mode" = some (pbool s.cfg.listen)
  wftmax : env "self.params.wftmax" = some (pint s.cfg.wftmax)
  ovr : env "self.params.override_receiver_stmin" = some (Tx.nsPV s.cfg.overrideStminNs)
  txDl : env "self.params.tx_data_length" = some (pint s.cfg.txDl)
  txMinLen : env "self.params.tx_data_min_length" = some (optPV s.cfg.txMinLen)
  standby : env "self.tx_standby_msg" = some (Tx.optMsgPV s.standby)
  active : env "self.active_send_request" = some (Tx.objPV "req" s.active.isSome)
  fcStart : env "self.timer_rx_fc.start_time" = some (optPV s.timerFc.start)
  fcTo : env "self.timer_rx_fc.timeout" = some (pint s.timerFc.timeout)
  stStart : env "self.timer_tx_stmin.start_time" = some (optPV s.timerStmin.start)
  stTo : env "self.timer_tx_stmin.timeout" = some (pint s.timerStmin.timeout)
  rl : env "#rl" = some (Tx.rlPV s.rl)
  req : ∀ r, s.active = some r → Tx.ReqRep env r
  consts : Tx.ConstRep env
  queue : env "#tx_queue" = some (.list (txqScs s.txQueue))

/-- the attributes only the receive side writes (with the parameters it reads) -/
structure RxOwn (env : Env) (s : State) : Prop where
  rxState : env "self.rx_state" = some (rxStPV s.rxState)
  rxFrameLen : env "self.rx_frame_length" = some (pint s.rxFrameLen)
  lastSeq : env "self.last_seqnum" = some (pint s.lastSeq)
  rxBlockCnt : env "self.rx_block_counter" = some (pint s.rxBlockCnt)
  actualRxdl : env "self.actual_rxdl" = some (optPV s.actualRxdl)
  rxBuf : env "self.rx_buffer" = some (.bytes s.rxBuf)
  blocksize : env "self.params.blocksize" = some (pint s.cfg.blocksize)
  maxFrameSize : env "self.params.max_frame_size" = some (pint s.cfg.maxFrameSize)
  cfTimeout : env "self.params.rx_consecutive_frame_timeout" = some (pint (s.cfg.tCf / 1000000))
  delivered : env "#delivered" = some (.list (encodePayloads (deliveredOf s.log)))
  rxQueue : env "#rx_queue" = some (.list (encodePayloads s.rxQueue))

/-- the attributes both sides write: the pending Flow Control request, the CF timer, the mailbox (as a value), the two histories -/
structure Shared (env : Env) (s : State) : Prop where
  pendingFc : env "self.pending_flow_control_tx" = some (pbool s.pendingFc)
  pfs : env "self.pending_flowcontrol_status" = s.pendingFcStatus.map (fun (n : Nat) => pint (n : Int))
  cfStart : env "self.timer_rx_cf.start_time" = some (optPV s.timerCf.start)
  cfTo : env "self.timer_rx_cf.timeout" = some (pint s.timerCf.timeout)
  lastFc : env "self.last_flow_control_frame" = some (Tx.optFcPV s.lastFc)
  log : env "#log" = some (.list (Tx.histOf s.log))
  errors : env "#errors" = some (.list (errsOf s.log))

def txOwnKeys : List String :=
  ["self.tx_state", "self.tx_frame_length", "self.tx_seqnum", "self.tx_block_counter", "self.remote_blocksize", "self.wft_counter",
   "self.params.listen_mode", "self.params.wftmax", "self.params.override_receiver_stmin", "self.params.tx_data_length",
   "self.params.tx_data_min_length", "self.tx_standby_msg", "self.active_send_request", "self.timer_rx_fc.start_time",
   "self.timer_rx_fc.timeout", "self.timer_tx_stmin.start_time", "self.timer_tx_stmin.timeout", "#rl",
   "self.active_send_request.target_address_type", "self.active_send_request.generator._size",
   "self.active_send_request.generator._consumed", "self.active_send_request.generator._depleted", "#gen.src", "#req.id", "#req.instr",
   "PDU.FlowStatus.ContinueToSend", "PDU.FlowStatus.Wait", "PDU.FlowStatus.Overflow", "self.TxState.IDLE", "self.TxState.WAIT_FC",
   "self.TxState.TRANSMIT_CF", "self.TxState.TRANSMIT_SF_STANDBY", "self.TxState.TRANSMIT_FF_STANDBY", "#tx_queue"]

def rxOwnKeys : List String :=
  ["self.rx_state", "self.rx_frame_length", "self.last_seqnum", "self.rx_block_counter", "self.actual_rxdl", "self.rx_buffer",
   "self.params.blocksize", "self.params.max_frame_size", "self.params.rx_consecutive_frame_timeout", "#delivered", "#rx_queue"]

def sharedKeys : List String :=
  ["self.pending_flow_control_tx", "self.pending_flowcontrol_status", "self.timer_rx_cf.start_time", "self.timer_rx_cf.timeout",
   "self.last_flow_control_frame", "#log", "#errors"]

def rxConstKeys : List String :=
  ["PDU.Type.SINGLE_FRAME", "PDU.Type.FIRST_FRAME", "PDU.Type.CONSECUTIVE_FRAME", "PDU.Type.FLOW_CONTROL", "self.RxState.IDLE",
   "self.RxState.WAIT_CF", "PDU.FlowStatus.ContinueToSend", "PDU.FlowStatus.Overflow"]

/-- the fields of the state the transmit-only attributes show -/
structure SameTx (s s' : State) : Prop where
  cfg : s'.cfg = s.cfg
  txState : s'.txState = s.txState
  txQueue : s'.txQueue = s.txQueue
  active : s'.active = s.active
  standby : s'.standby = s.standby
  txFrameLen : s'.txFrameLen = s.txFrameLen
  txSeq : s'.txSeq = s.txSeq
  txBlockCnt : s'.txBlockCnt = s.txBlockCnt
  remoteBs : s'.remoteBs = s.remoteBs
  wftCnt : s'.wftCnt = s.wftCnt
  timerFc : s'.timerFc = s.timerFc
  timerStmin : s'.timerStmin = s.timerStmin
  rl : s'.rl = s.rl

/-- the fields of the state the receive-only attributes show -/
structure SameRx (s s' : State) : Prop where
  cfg : s'.cfg = s.cfg
  rxState : s'.rxState = s.rxState
  rxBuf : s'.rxBuf = s.rxBuf
  rxFrameLen : s'.rxFrameLen = s.rxFrameLen
  lastSeq : s'.lastSeq = s.lastSeq
  rxBlockCnt : s'.rxBlockCnt = s.rxBlockCnt
  actualRxdl : s'.actualRxdl = s.actualRxdl
  rxQueue : s'.rxQueue = s.rxQueue
  delivered : deliveredOf s'.log = deliveredOf s.log

/-- the fields of the state the shared attributes show -/
structure SameSh (s s' : State) : Prop where
  pendingFc : s'.pendingFc = s.pendingFc
  pfs : s'.pendingFcStatus = s.pendingFcStatus
  timerCf : s'.timerCf = s.timerCf
  lastFc : s'.lastFc = s.lastFc
  hist : Tx.histOf s'.log = Tx.histOf s.log
  errs : errsOf s'.log = errsOf s.log

theorem SameTx.of_rxFrame {s s' : State} (h : RxFrame s s') : SameTx s s' :=
  ⟨h.cfg, h.txState, h.txQueue, h.active, h.standby, h.txFrameLen, h.txSeq, h.txBlockCnt, h.remoteBs, h.wftCnt, h.timerFc,
    h.timerStmin, h.rl⟩

theorem SameRx.of_txFrame {s s' : State} (h : TxFrame s s') : SameRx s s' :=
  ⟨h.cfg, h.rxState, h.rxBuf, h.rxFrameLen, h.lastSeq, h.rxBlockCnt, h.actualRxdl, h.rxQueue, delivered_after_tx h.log⟩

theorem TxOwn.transfer {env env' : Env} {s s' : State} (h : TxOwn env s) (hk : ∀ k ∈ txOwnKeys, env' k = env k)
    (hs : SameTx s s') : TxOwn env' s' := by
  obtain ⟨c1, c2, c3, c4, c5, c6, c7, c8, c9, c10, c11, c12, c13⟩ := hs
  have hq := h.req
  have hc := h.consts
  cases h
  constructor
  case req =>
    intro r hr
    rw [c4] at hr
    have := hq r hr
    cases this
    constructor <;> (rw [hk _ (by decide)]; assumption)
  case consts =>
    cases hc
    constructor <;> (rw [hk _ (by decide)]; assumption)
  all_goals (rw [hk _ (by decide)]; simp only [c1, c2, c3, c4, c5, c6, c7, c8, c9, c10, c11, c12, c13]; assumption)

theorem RxOwn.transfer {env env' : Env} {s s' : State} (h : RxOwn env s) (hk : ∀ k ∈ rxOwnKeys, env' k = env k)
    (hs : SameRx s s') : RxOwn env' s' := by
  obtain ⟨c1, c2, c3, c4, c5, c6, c7, c8, c9⟩ := hs
  cases h
  constructor
  all_goals (rw [hk _ (by decide)]; simp only [c1, c2, c3, c4, c5, c6, c7, c8, c9]; assumption)

theorem Shared.transfer {env env' : Env} {s s' : State} (h : Shared env s) (hk : ∀ k ∈ sharedKeys, env' k = env k)
    (hs : SameSh s s') : Shared env' s' := by
  obtain ⟨c1, c2, c3, c4, c5, c6⟩ := hs
  cases h
  constructor
  all_goals (rw [hk _ (by decide)]; simp only [c1, c2, c3, c4, c5, c6]; assumption)

theorem Consts.transfer {env env' : Env} (h : Rx.Consts env) (hk : ∀ k ∈ rxConstKeys, env' k = env k) : Rx.Consts env' := by
  cases h
  constructor
  all_goals (rw [hk _ (by decide)]; assumption)

/-! ### from the three groups to the representations of the leaves, and back -/

theorem txRep_of {env : Env} {s : State} (ht : TxOwn env s) (hs : Shared env s) : Tx.Rep env s :=
  ⟨ht.txState, ht.txFrameLen, ht.txSeq, ht.txBlockCnt, ht.remoteBs, ht.wftCnt, hs.pendingFc, ht.listen, ht.wftmax, ht.ovr, ht.txDl,
    ht.txMinLen, ht.standby, ht.active, hs.lastFc, ht.fcStart, ht.fcTo, ht.stStart, ht.stTo, hs.cfStart, hs.cfTo, hs.log, ht.rl, hs.pfs,
    ht.req, ht.consts⟩

theorem rep2_of {env : Env} {s : State} (ht : TxOwn env s) (hs : Shared env s) : Rep2 env s := ⟨txRep_of ht hs, ht.queue⟩

/-- the two spellings of `pending_flowcontrol_status` (absent / an integer) in LayerRx and LayerTx -/
theorem pfs_eq (o : Option Nat) :
    Option.map (fun (n : Int) => pint n) (do let a ← o; pure (a : Int)) = Option.map (fun (n : Nat) => pint (n : Int)) o := by
  cases o <;> rfl

theorem rxRep_of {env : Env} {s : State} (hr : RxOwn env s) (hs : Shared env s) : Rx.Rep s (rxView env) := by
  have hmb : rxView env "self.last_flow_control_frame" = some (mbVal "fc" s.lastFc) := by
    unfold rxView
    rw [set_ne (by decide), set_ne (by decide), set_ne (by decide), set_eq, hs.lastFc, mbObj_opt]
  constructor
  case mb => exact hmb
  case fcS =>
    intro f hf
    unfold rxView
    rw [set_ne (by decide), set_ne (by decide), set_eq, hs.lastFc, hf, mbFld0]
  case fcB =>
    intro f hf
    unfold rxView
    rw [set_ne (by decide), set_eq, hs.lastFc, hf, mbFld1]
  case fcM =>
    intro f hf
    unfold rxView
    rw [set_eq, hs.lastFc, hf, mbFld2]
  all_goals rw [rxView_other env (by decide)]
  · exact hr.rxState
  · exact hr.rxFrameLen
  · exact hr.lastSeq
  · exact hr.rxBlockCnt
  · exact hr.actualRxdl
  · exact hr.rxBuf
  · exact hs.pendingFc
  · exact hs.pfs.trans (pfs_eq _).symm
  · exact hs.cfStart
  · exact hs.cfTo
  · exact hr.blocksize
  · exact hr.maxFrameSize
  · exact hr.cfTimeout
  · exact hs.errors
  · exact hr.delivered
  · exact hr.rxQueue

/-- the attributes `_process_tx` owns, read off the environment its run ends in -/
def txCopy : List String :=
  ["self.tx_state", "self.tx_frame_length", "self.tx_seqnum", "self.tx_block_counter", "self.remote_blocksize", "self.wft_counter",
   "self.tx_standby_msg", "self.active_send_request", "self.timer_rx_fc.start_time",
   "self.timer_rx_fc.timeout", "self.timer_tx_stmin.start_time", "self.timer_tx_stmin.timeout", "#rl",
   "self.active_send_request.target_address_type", "self.active_send_request.generator._size",
   "self.active_send_request.generator._consumed", "self.active_send_request.generator._depleted", "#gen.src", "#req.id", "#req.instr",
   "#tx_queue",
   "self.pending_flow_control_tx", "self.pending_flowcontrol_status", "self.timer_rx_cf.start_time", "self.timer_rx_cf.timeout",
   "self.last_flow_control_frame", "#log"]

/-- the attributes the receive side owns, read off the environment a run of `_process_rx` / `_check_timeouts_rx` ends in (the mailbox
    and the `#log` history are translated: `rxBack`) -/
def rxCopy : List String :=
  ["self.rx_state", "self.rx_frame_length", "self.last_seqnum", "self.rx_block_counter", "self.actual_rxdl", "self.rx_buffer",
   "#delivered", "#rx_queue",
   "self.pending_flow_control_tx", "self.pending_flowcontrol_status", "self.timer_rx_cf.start_time", "self.timer_rx_cf.timeout",
   "#errors"]

/-- after `_process_tx`: the transmit-only group, from `Rep2` of the callee's final environment -/
theorem TxOwn.of_rep2 {env env' e' : Env} {s s' : State} (h : TxOwn env s) (hR : Rep2 e' s') (hcfg : s'.cfg = s.cfg)
    (hc : ∀ k ∈ txCopy, env' k = e' k) (hk : ∀ k ∈ txOwnKeys, k ∉ txCopy → env' k = env k) : TxOwn env' s' := by
  obtain ⟨hR, hq⟩ := hR
  have hreq := hR.req
  have hc0 := h.consts
  constructor
  case req =>
    intro r hr
    have := hreq r hr
    cases this
    constructor <;> (rw [hc _ (by decide)]; assumption)
  case consts =>
    cases hc0
    constructor <;> (rw [hk _ (by decide) (by decide)]; assumption)
  case queue => rw [hc _ (by decide)]; exact hq
  case listen => rw [hk _ (by decide) (by decide), hcfg]; exact h.listen
  case wftmax => rw [hk _ (by decide) (by decide), hcfg]; exact h.wftmax
  case ovr => rw [hk _ (by decide) (by decide), hcfg]; exact h.ovr
  case txDl => rw [hk _ (by decide) (by decide), hcfg]; exact h.txDl
  case txMinLen => rw [hk _ (by decide) (by decide), hcfg]; exact h.txMinLen
  all_goals rw [hc _ (by decide)]
  · exact hR.txState
  · exact hR.txFrameLen
  · exact hR.txSeq
  · exact hR.txBlockCnt
  · exact hR.remoteBs
  · exact hR.wftCnt
  · exact hR.standby
  · exact hR.active
  · exact hR.fcStart
  · exact hR.fcTo
  · exact hR.stStart
  · exact hR.stTo
  · exact hR.rl

/-- after `_process_tx`: the shared group (the `#errors` history is read off the `#log` history) -/
theorem Shared.of_rep2 {env' e' : Env} {s' : State} (hR : Rep2 e' s')
    (hc : ∀ k ∈ txCopy, env' k = e' k) (he : env' "#errors" = some (.list (errsOfHist (scListOf (e' "#log"))))) : Shared env' s' := by
  obtain ⟨hR, -⟩ := hR
  constructor
  case errors => rw [he, hR.log]; simp only [Rx.scListOf_some, errsOfHist_histOf]
  all_goals rw [hc _ (by decide)]
  · exact hR.pendingFc
  · exact hR.pfs
  · exact hR.cfStart
  · exact hR.cfTo
  · exact hR.lastFc
  · exact hR.log

/-- after a step of the receive side: the receive-only group, from `Rx.Rep` of (an environment that agrees on the copied keys with)
    the callee's final environment -/
theorem RxOwn.of_rep {env env' e' e'' : Env} {s s' : State} (h : RxOwn env s) (hR : Rx.Rep s' e'') (hcfg : s'.cfg = s.cfg)
    (hag : ∀ k ∈ rxCopy, e' k = e'' k)
    (hc : ∀ k ∈ rxCopy, env' k = e' k) (hk : ∀ k ∈ rxOwnKeys, k ∉ rxCopy → env' k = env k) : RxOwn env' s' := by
  constructor
  case blocksize => rw [hk _ (by decide) (by decide), hcfg]; exact h.blocksize
  case maxFrameSize => rw [hk _ (by decide) (by decide), hcfg]; exact h.maxFrameSize
  case cfTimeout => rw [hk _ (by decide) (by decide), hcfg]; exact h.cfTimeout
  all_goals rw [hc _ (by decide), hag _ (by decide)]
  · exact hR.rxState
  · exact hR.rxFrameLen
  · exact hR.lastSeq
  · exact hR.rxBlockCnt
  · exact hR.actualRxdl
  · exact hR.rxBuf
  · exact hR.delivered
  · exact hR.rxQueue

/-- after a step of the receive side: the shared group (the mailbox object back to a value; the new errors appended to `#log`) -/
theorem Shared.of_rep {env env' e' e'' : Env} {s s' : State} (h : Shared env s) (hR : Rx.Rep s' e'')
    (hag : ∀ k ∈ rxCopy, e' k = e'' k) (hmb : mbBack e' = Tx.optFcPV s'.lastFc) (hlog : LogExt (rxAt s.now) s.log s'.log)
    (hc : ∀ k ∈ rxCopy, env' k = e' k) (hm : env' "self.last_flow_control_frame" = some (mbBack e'))
    (hl : env' "#log" = some (.list (scListOf (env "#log") ++
      trErrs s.now ((scListOf (e' "#errors")).drop (scListOf (env "#errors")).length)))) : Shared env' s' := by
  constructor
  case lastFc => rw [hm, hmb]
  case log =>
    rw [hl, hag _ (by decide), hR.errors, h.log, h.errors]
    simp only [Rx.scListOf_some, hist_after_rx hlog]
  all_goals rw [hc _ (by decide), hag _ (by decide)]
  · exact hR.pendingFc
  · exact hR.pfs.trans (pfs_eq _)
  · exact hR.tStart
  · exact hR.tTimeout
  · exact hR.errors

/-! ## D. the invariants the leaf theorems assume, and their preservation -/

/-- well-formedness of a state: what `process_rx_agrees` (`RxBufOk`) and `process_tx_agrees` (`exc = none`, `txSeq < 16`,
    `8 ≤ txDl ≤ 64`, `consumed ≤ size` for the active and the queued requests, queued generators not instrumented) assume.
    `Safe` (Proofs/Safe.lean) contains `cfg.valid`, `txSeq < 16`, the active request's bound, and makes `_process_tx` exception-free;
    `RxJust` contains `RxBufOk`. -/
structure Inv (s : State) : Prop where
  safe : Safe s
  exc : s.exc = none
  rx : RxJust s
  q : ∀ r ∈ s.txQueue, r.consumed ≤ r.size ∧ r.instr = false

theorem Inv.rxBufOk {s : State} (h : Inv s) : RxBufOk s := fun hw => (h.rx hw).1
theorem Inv.txDl {s : State} (h : Inv s) : 8 ≤ s.cfg.txDl ∧ s.cfg.txDl ≤ 64 := Safe.txDl_ge h.safe.cfg_valid

/-- the initial state of a valid configuration is well-formed -/
theorem Inv.init (c : Cfg) (a : Addr) (hc : c.valid = true) : Inv (State.init c a) :=
  ⟨Safe.init c a hc, rfl, RxJust.init c a, by intro r hr; simp [State.init] at hr⟩

/-- ... and stays so after `send` of a request whose generator is not instrumented -/
theorem Inv.send {s : State} (h : Inv s) (a : State.SendArgs) (hi : a.instr = false) : Inv (s.send a).1 := by
  refine ⟨h.safe.send a, (Safe.send_exc s a).trans h.exc, ?_, ?_⟩
  · have e : (s.send a).1.rxState = s.rxState ∧ (s.send a).1.rxBuf = s.rxBuf ∧ (s.send a).1.rxFrameLen = s.rxFrameLen ∧
        (s.send a).1.cfg = s.cfg := by
      unfold State.send; simp only []; (repeat' split) <;> exact ⟨rfl, rfl, rfl, rfl⟩
    exact h.rx.of_eq e.1 e.2.1 e.2.2.1 e.2.2.2
  · have e : (s.send a).1.txQueue = s.txQueue ∨
        ∃ r : Req, r.consumed = 0 ∧ r.instr = a.instr ∧ (s.send a).1.txQueue = s.txQueue ++ [r] := by
      unfold State.send; simp only []
      (repeat' split) <;> first | exact .inl rfl | exact .inr ⟨_, rfl, rfl, rfl⟩
    intro r hr
    rcases e with e | ⟨r0, h1, h2, e⟩
    · exact h.q r (by rw [← e]; exact hr)
    · rw [e, List.mem_append, List.mem_singleton] at hr
      rcases hr with hr | rfl
      · exact h.q r hr
      · exact ⟨by rw [h1]; exact Nat.zero_le _, h2.trans hi⟩

theorem Inv.processRx {s : State} (h : Inv s) (m : CanMsg) : Inv (s.processRx m).1 :=
  ⟨h.safe.processRx m, (RxFrame.processRx s m).exc.trans h.exc, h.rx.processRx m, by
    rw [(RxFrame.processRx s m).txQueue]; exact h.q⟩

theorem Inv.checkTimeoutsRx {s : State} (h : Inv s) : Inv s.checkTimeoutsRx :=
  ⟨h.safe.checkTimeoutsRx, (RxFrame.checkTimeoutsRx s).exc.trans h.exc, h.rx.checkTimeoutsRx, by
    rw [(RxFrame.checkTimeoutsRx s).txQueue]; exact h.q⟩

theorem Inv.processTx {s : State} (h : Inv s) : Inv s.processTx.1 :=
  ⟨h.safe.processTx.1, h.safe.processTx.2.trans h.exc, h.rx.of_txFrame (TxFrame.processTx s), by
    intro r hr
    exact h.q r ((NetP.TxStep.processTx s).queue.subset hr)⟩

theorem Inv.emit {s : State} (h : Inv s) (e : Ev) : Inv (s.emit e) :=
  ⟨h.safe.emit e, h.exc, h.rx.of_eq rfl rfl rfl rfl, h.q⟩

/-- the bus (`rxfn`: inbox, clock) and the limiter update -/
theorem Inv.bus {s : State} (h : Inv s) (i : List (Nat × CanMsg)) (n : Nat) : Inv { s with inbox := i, now := n } :=
  ⟨h.safe.congr rfl rfl rfl rfl rfl rfl rfl rfl, h.exc, h.rx.of_eq rfl rfl rfl rfl, h.q⟩
theorem Inv.rl {s : State} (h : Inv s) (l : Limiter) : Inv { s with rl := l } :=
  ⟨h.safe.congr rfl rfl rfl rfl rfl rfl rfl rfl, h.exc, h.rx.of_eq rfl rfl rfl rfl, h.q⟩

/-- the invariant is kept by every step of `process()` (the generic loop principle of Proofs/Safe.lean) -/
theorem Inv.stepInv : StepInv Inv :=
  StepInv.of_simple (fun s m h => h.processRx m) (fun s h => h.checkTimeoutsRx) (fun s h => h.processTx) (fun s e h => h.emit e)
    (fun s i n h => h.bus i n) (fun s l h => h.rl l)

theorem Inv.process {s : State} (h : Inv s) (doRx doTx : Bool) : Inv (s.process doRx doTx).1 := Inv.stepInv.process s doRx doTx h

/-! ## E. the representation relation `RW`, the message values, the `Meths` `wholeM` -/


/-- **"`env` shows `s`"**: `s` is the state `s0` after the callee calls recorded under the history key `#ops` (so the environment DETERMINES
    the state: `stateOf`); `s` is well-formed (`Inv`); the environment binds every attribute the three leaves read, with the values
    LayerTx's `Rep2` (`TxOwn` + `Shared`), LayerRx's `Rx.Rep` (`RxOwn` + `Shared`, through the mailbox view `rxView`) and `Rx.Consts`
    ask for, and `logging.DEBUG`. -/
structure RW (s0 : State) (env : Env) (s : State) : Prop where
  ops : ∃ ops, env "#ops" = some (.list (ProcInst.encOps ops)) ∧ s = ProcInst.runOps s0 ops
  inv : Inv s
  debug : env "logging.DEBUG" = some (pint 10)
  txo : TxOwn env s
  rxo : RxOwn env s
  sh : Shared env s
  rxc : Rx.Consts env

theorem RW.rep2 {s0 : State} {env : Env} {s : State} (h : RW s0 env s) : Rep2 env s := rep2_of h.txo h.sh
theorem RW.rxRep {s0 : State} {env : Env} {s : State} (h : RW s0 env s) : Rx.Rep s (rxView env) := rxRep_of h.rxo h.sh

theorem pRxStPV_eq (r : RxSt) : pRxStPV r = rxStPV r := by cases r <;> rfl
theorem pTxStPV_eq (t : TxSt) : pTxStPV t = Tx.txStPV t := by cases t <;> rfl

theorem RW.reads {s0 : State} {env : Env} {s : State} (h : RW s0 env s) : Reads env s :=
  ⟨by rw [pRxStPV_eq]; exact h.rxo.rxState, by rw [pTxStPV_eq]; exact h.txo.txState, h.rxc.idle, h.txo.consts.idle,
    h.txo.consts.transmitCf, h.txo.consts.sfStandby, h.txo.consts.ffStandby, h.debug⟩

/-- a `CanMessage` object as a value: LayerTx's encoding (the list of its fields) -/
abbrev msgPV : CanMsg → PV := Tx.msgPV

theorem msgPV_inj (m m' : CanMsg) (h : msgPV m = msgPV m') : m = m' := by
  simp only [msgPV, Tx.msgPV, Tx.msgScs, PV.list.injEq, List.cons_append, List.nil_append, List.cons.injEq, Sc.py.injEq,
    PyVal.int.injEq, PyVal.bool.injEq, Int.natCast_inj] at h
  obtain ⟨h1, h2, h3, h4, h5, h6⟩ := h
  have hdata : m.data = m'.data := by
    refine (List.map_inj_right ?_).mp h6
    intro a b hab
    simp only [Sc.py.injEq, PyVal.int.injEq, Int.natCast_inj] at hab
    exact UInt8.toNat_inj.mp hab
  cases m; cases m'; simp_all

open Classical in
/-- the message a value encodes -/
noncomputable def msgOf (v : PV) : Option CanMsg := if h : ∃ m, msgPV m = v then some (Classical.choose h) else none

theorem msgOf_msgPV (m : CanMsg) : msgOf (msgPV m) = some m := by
  have h : ∃ m', msgPV m' = msgPV m := ⟨m, rfl⟩
  simp only [msgOf, h, dite_true, Option.some.injEq]
  exact msgPV_inj _ _ (Classical.choose_spec h)

/-! ### the callee frames -/

/-- the frame `_process_rx(self, msg)` starts in: the caller's environment through the mailbox view, the parameter `msg` (an object), and
    the attributes of the object `PDU(msg, start_of_data)` will return (`pduView`: the flat environment cannot bind `pdu.*` at the
    assignment `pdu = PDU(...)`; `Rx.process_rx_run` asks for them up front, as `rxEnvIn` provides them) -/
def rxIn (s : State) (m : CanMsg) (env : Env) : Env := fun k =>
  match k with
  | "msg" => some (.meth "msg")
  | _ => pduView (rxDecoded s m) (rxView env) k

/-- the caller's environment after a step of the receive side that ended in `e'`: the receive side's attributes copied back, the mailbox
    object turned back into a value, the new `#errors` appended to the `#log` history (at the clock `now`), the call recorded -/
def rxBack (now : Nat) (ops' : List ProcInst.Op) (env e' : Env) : Env :=
  (((copyKeys rxCopy e' env).set "self.last_flow_control_frame" (mbBack e')).set "#log"
    (.list (scListOf (env "#log") ++ trErrs now ((scListOf (e' "#errors")).drop (scListOf (env "#errors")).length)))).set
    "#ops" (.list (ProcInst.encOps ops'))

/-- bytes of a list of scalars (`Tx.msgScs` encodes the data bytes as integers) -/
def scsToBytes (xs : List Sc) : Bytes := xs.map (fun x => match x with | .py (.int i) => UInt8.ofNat i.toNat | _ => 0)

theorem scsToBytes_map (d : Bytes) : scsToBytes (d.map (fun b => Sc.py (.int b.toNat))) = d := by
  induction d with
  | nil => rfl
  | cons b d ih =>
    simp only [scsToBytes, List.map_cons, List.cons.injEq] at ih ⊢
    exact ⟨by simp, ih⟩

/-- `msg.data` of a message value -/
def dataOfMsg : Option PV → PV
  | some (.list (_ :: _ :: _ :: _ :: _ :: d)) => .bytes (scsToBytes d)
  | _ => pnone

theorem dataOfMsg_msgPV (m : CanMsg) : dataOfMsg (some (Tx.optMsgPV (some m))) = .bytes m.data := by
  show PV.bytes (scsToBytes (m.data.map (fun b => Sc.py (.int b.toNat)))) = _
  rw [scsToBytes_map]

/-- `flow_control_frame.stmin_sec` of a mailbox value: the decoded STmin in seconds (the float conversion is outside the subset, DESIGN 3.1) -/
def stminSecOf : Option PV → PV
  | some (.list [_, _, .py (.int c)]) => Tx.nsPV (some (stminNs c.toNat))
  | _ => pnone

theorem stminSecOf_fc (f : FcFrame) : stminSecOf (some (Tx.optFcPV (some f))) = Tx.nsPV (some (stminNs f.stmin)) := by
  show Tx.nsPV (some (stminNs (f.stmin : Int).toNat)) = _
  rw [Int.toNat_natCast]

/-- the frame `_process_tx(self)` starts in: the caller's environment, plus the attributes of the objects its locals / attributes will
    hold (`process_tx_agrees` asks for them: `hL`, `hsd`, `hod`): those of `flow_control_frame` and `self.tx_standby_msg` are read off
    the values the environment holds; `output_msg.data` is the data of the message the pass is going to emit - an ORACLE taken from the
    model (`s.processTx.2.1`), the only place where an adapter consults a model function for a value -/
def txIn (s : State) (env : Env) : Env :=
  let e := (((env.set "flow_control_frame.flow_status" (mbFld 0 (env "self.last_flow_control_frame"))).set
    "flow_control_frame.blocksize" (mbFld 1 (env "self.last_flow_control_frame"))).set
    "flow_control_frame.stmin_sec" (stminSecOf (env "self.last_flow_control_frame"))).set
    "self.tx_standby_msg.data" (dataOfMsg (env "self.tx_standby_msg"))
  match s.processTx.2.1 with
  | some m => e.set "output_msg.data" (.bytes m.data)
  | none => e

/-- the caller's environment after `_process_tx` ended in `e'` -/
def txBack (ops' : List ProcInst.Op) (env e' : Env) : Env :=
  ((copyKeys txCopy e' env).set "#errors" (.list (errsOfHist (scListOf (e' "#log"))))).set "#ops" (.list (ProcInst.encOps ops'))

/-- a Python exception by the name of its class (`Out.raised`) -/
def excOfName (cls : String) : PErr :=
  if cls = "AttributeError" then .exc .AttributeError else if cls = "ValueError" then .exc .ValueError
  else if cls = "AssertionError" then .exc .AssertionError else if cls = "TypeError" then .exc .TypeError
  else if cls = "IndexError" then .exc .IndexError else .unsupported ("raise " ++ cls)

/-! ### the entries -/

/-- `self.address.is_for_me(msg)`: the predicate `Address.__init__` installed for the addressing mode, RUN FROM ITS SOURCE on the
    `Address` object of the state and the message -/
noncomputable def isForMeP (s0 : State) (v : PV) (env : Env) : Except PErr PV :=
  match msgOf v, ProcInst.opsOf env with
  | some m, some ops => retOf (msgEnv m (halfEnv (ProcInst.runOps s0 ops).addr.rx)) (selectedPredicate (ProcInst.runOps s0 ops).addr.rx.mode)
  | _, _ => .error (.unsupported "is_for_me: no message / the environment shows no state")

/-- `msg = self.rxfn(rx_timeout)`: the user's function = the bus of the model -/
noncomputable def rxfnP (s0 : State) (env : Env) : Except PErr Env :=
  match ProcInst.opsOf env with
  | some ops =>
    .ok ((env.set "#ops" (.list (ProcInst.encOps (ops ++ [.rxfn])))).set "msg"
      (match (ProcInst.runOps s0 ops).inbox with | [] => pnone | (_, m) :: _ => msgPV m))
  | none => .error (.unsupported "the environment shows no state")

/-- `self.txfn(msg)`: the user's function = the event `.tx` of the model's log -/
noncomputable def txfnP (s0 : State) (v : PV) (env : Env) : Except PErr Env :=
  match msgOf v, ProcInst.opsOf env with
  | some m, some ops => .ok (env.set "#ops" (.list (ProcInst.encOps (ops ++ [.txfn m]))))
  | _, _ => .error (.unsupported "txfn: no message / the environment shows no state")

/-- `self.rate_limiter.update()`: float arithmetic, outside the subset = the model's `Limiter.update` on the limiter value -/
noncomputable def rlP (s0 : State) (env : Env) : Except PErr Env :=
  match ProcInst.opsOf env with
  | some ops =>
    .ok ((env.set "#rl" (Tx.rlPV ((ProcInst.runOps s0 ops).rl.update (ProcInst.runOps s0 ops).cfg.rlWindowNs (ProcInst.runOps s0 ops).now))).set
      "#ops" (.list (ProcInst.encOps (ops ++ [.rlUpdate]))))
  | none => .error (.unsupported "the environment shows no state")

/-- `self._check_timeouts_rx()`: RUNS `Src.TransportLayerLogic_p_check_timeouts_rx` (first semantics, LayerRx's primitives) -/
noncomputable def checkP (s0 : State) (env : Env) : Except PErr Env :=
  match ProcInst.opsOf env with
  | some ops =>
    (match runFn (rxMethsOf (ProcInst.runOps s0 ops).now (ProcInst.runOps s0 ops).cfg.tCf (ProcInst.runOps s0 ops).addr.rx.rxPrefixSize []) (rxView env)
        Src.TransportLayerLogic_p_check_timeouts_rx with
     | .ok (_, e') => .ok (rxBack (ProcInst.runOps s0 ops).now (ops ++ [.check]) env e')
     | .error er => .error er)
  | none => .error (.unsupported "the environment shows no state")

/-- `rx_result = self._process_rx(msg)`: RUNS `Src.TransportLayerLogic_p_process_rx` (first semantics, LayerRx's primitives `rxMeths`
    for the state the environment shows and the message) and binds `rx_result.*` from the returned pair -/
noncomputable def processRxP (s0 : State) (v : PV) (env : Env) : Except PErr Env :=
  match msgOf v, ProcInst.opsOf env with
  | some m, some ops =>
    (match runFn (rxMeths (ProcInst.runOps s0 ops) m) (rxIn (ProcInst.runOps s0 ops) m env) Src.TransportLayerLogic_p_process_rx with
     | .ok (.list [.py (.bool a), .py (.bool b)], e') =>
       .ok (((rxBack (ProcInst.runOps s0 ops).now (ops ++ [.processRx m]) env e').set "rx_result.immediate_tx_required" (pbool a)).set
         "rx_result.frame_received" (pbool b))
     | .ok _ => .error (.unsupported "ProcessRxReport")
     | .error er => .error er)
  | _, _ => .error (.unsupported "_process_rx: no message / the environment shows no state")

/-- `tx_result = self._process_tx()`: RUNS `Src.TransportLayerLogic_p_process_tx` (second semantics, LayerTxWhole's primitives `txM2`
    for the state the environment shows, fuel `|tx_queue| + 40`) and binds `tx_result.msg` / `tx_result.immediate_rx_required` from the
    returned report; an exception raised by the run is raised -/
noncomputable def processTxP (s0 : State) (env : Env) : Except PErr Env :=
  match ProcInst.opsOf env with
  | some ops =>
    (match run2 ((ProcInst.runOps s0 ops).txQueue.length + processTxFuel) (txM2 (ProcInst.runOps s0 ops)) (txIn (ProcInst.runOps s0 ops) env) WHOLE with
     | .ok (.ret (.list (.py (.bool imm) :: rest)) e') =>
       .ok (((txBack (ops ++ [.processTx]) env e').set "tx_result.msg" (match rest with | [] => pnone | _ => .list rest)).set
         "tx_result.immediate_rx_required" (pbool imm))
     | .ok (.raised cls _) => .error (excOfName cls)
     | .ok _ => .error (.unsupported "ProcessTxReport")
     | .error .outOfFuel => .error (.unsupported "out of fuel")
     | .error (.unsupported w) => .error (.unsupported w))
  | none => .error (.unsupported "the environment shows no state")

/-- **the callees of `process()`**: `_process_rx`, `_check_timeouts_rx`, `_process_tx` and `address.is_for_me` interpreted from their
    own sources; `rxfn`, `txfn`, `rate_limiter.update`, `tx_queue.empty`, the logger (off) and `ProcessStats` are primitives. -/
noncomputable def wholeM (s0 : State) : Meths where
  fn := fun name args env =>
    match name, args with
    | "self.tx_queue.empty", [] => qEmptyP env
    | "self.logger.isEnabledFor", [_] => .ok (pbool false)
    | "self.address.is_for_me", [v] => isForMeP s0 v env
    | "self.ProcessStats#received#received_processed#sent#frame_received", [.sc a, .sc b, .sc c, .sc d] => .ok (.list [a, b, c, d])
    | n, _ => .error (.unsupported ("call " ++ n))
  proc := fun name args env =>
    match name, args with
    | "msg:=self.rxfn", [_] => rxfnP s0 env
    | "self._check_timeouts_rx", [] => checkP s0 env
    | "rx_result:=self._process_rx", [v] => processRxP s0 v env
    | "self.rate_limiter.update", [] => rlP s0 env
    | "tx_result:=self._process_tx", [] => processTxP s0 env
    | "self.txfn", [v] => txfnP s0 v env
    | n, _ => .error (.unsupported ("call " ++ n))

theorem wholeM_lookups (s0 : State) (env : Env) (v : PV) (a b c d : Sc) :
    (wholeM s0).fn "self.tx_queue.empty" [] env = qEmptyP env ∧
    (wholeM s0).fn "self.logger.isEnabledFor" [v] env = .ok (pbool false) ∧
    (wholeM s0).fn "self.address.is_for_me" [v] env = isForMeP s0 v env ∧
    (wholeM s0).fn "self.ProcessStats#received#received_processed#sent#frame_received" [.sc a, .sc b, .sc c, .sc d] env =
      .ok (.list [a, b, c, d]) ∧
    (wholeM s0).proc "msg:=self.rxfn" [v] env = rxfnP s0 env ∧
    (wholeM s0).proc "self._check_timeouts_rx" [] env = checkP s0 env ∧
    (wholeM s0).proc "rx_result:=self._process_rx" [v] env = processRxP s0 v env ∧
    (wholeM s0).proc "self.rate_limiter.update" [] env = rlP s0 env ∧
    (wholeM s0).proc "tx_result:=self._process_tx" [] env = processTxP s0 env ∧
    (wholeM s0).proc "self.txfn" [v] env = txfnP s0 v env :=
  ⟨rfl, rfl, rfl, rfl, rfl, rfl, rfl, rfl, rfl, rfl⟩

/-! ## F. `_process_rx` from any environment, with the FULL representation of the final state

  `Rx.process_rx_run` (LayerRx.lean) concludes with the list of the attributes that are bound in the final environment; the transmit side
  also needs to know that `self.pending_flowcontrol_status` is NOT bound while the model has `none` (`Tx.Rep.pfs`).  The statement below
  keeps `Rx.Rep` of the final state (which `LayerRx`'s proof has at hand in every branch); its proof is the proof of `Rx.process_rx_run`
  with the last step of every branch changed (same case analysis, same branch lemmas `Rx.sm_*`, `Rx.finish`, `Rx.head_run`). -/

section rxrun
open Rx
variable {s : State} {env : Env} (m : CanMsg)
local notation "Mm" => rxMethsOf (State.now s) (Cfg.tCf (State.cfg s)) (Half.rxPrefixSize (Addr.rx (State.addr s))) (CanMsg.data m)

/-- what is shown of a run of `_process_rx` that ends in `e'`: `e'` agrees on the receive side's attributes with an environment `e''`
    that represents the model's new state (they differ by the NAME of the object in the mailbox after a Flow Control: `pdu`, not `fc`),
    and the mailbox of `e'`, read as a value, is the model's -/
def Goal2 (s : State) (m : CanMsg) (env : Env) : Prop :=
  ∃ e' e'', execBlock (rxMethsOf s.now s.cfg.tCf s.addr.rx.rxPrefixSize m.data) env body
      = .ok (.returned (.list [.py (.bool (s.processRx m).2.1), .py (.bool (s.processRx m).2.2)]) e') ∧
    Rep (s.processRx m).1 e'' ∧ (∀ k ∈ rxCopy, e' k = e'' k) ∧ mbBack e' = Tx.optFcPV (s.processRx m).1.lastFc

theorem goal2_of_rep {s1 : State} {itx fr : Bool} (hpr : s.processRx m = (s1, itx, fr))
    (h : ∃ env', execBlock Mm env body = .ok (.returned (.list [.py (.bool itx), .py (.bool fr)]) env') ∧ Rep s1 env') :
    Goal2 s m env := by
  obtain ⟨env', h1, h2⟩ := h
  unfold Goal2
  rw [hpr]
  exact ⟨env', env', h1, h2, fun _ _ => rfl, mbBack_rep h2⟩

theorem goal2_fc {d : Decoded} (hR : Rep s env) (hP : PduCtx d env) (st bs stm : Nat) (hd : d.pdu = .fc st bs stm)
    (hpr : s.processRx m = ({ s with lastFc := some ⟨st, bs, stm⟩ }, true, false))
    (hrun : execBlock Mm env body =
      .ok (.returned (.list [.py (.bool true), .py (.bool false)]) ((e1 env).set "self.last_flow_control_frame" (.meth "pdu")))) :
    Goal2 s m env := by
  unfold Goal2
  rw [hpr]
  refine ⟨_, (((((e1 env).set "self.last_flow_control_frame" (.meth "pdu")).set "self.last_flow_control_frame" (.meth "fc")).set
    "fc.flow_status" (pint st)).set "fc.blocksize" (pint bs)).set "fc.stmin" (pint stm), hrun, ?_, ?_, ?_⟩
  · constructor
    case fcS => intro f hf; cases hf; simp only [set_apply, String.reduceEq, ↓reduceIte]
    case fcB => intro f hf; cases hf; simp only [set_apply, String.reduceEq, ↓reduceIte]
    case fcM => intro f hf; cases hf; simp only [set_apply, String.reduceEq, ↓reduceIte]
    all_goals simp only [e1, set_apply, String.reduceEq, ↓reduceIte]
    · exact hR.rxState
    · exact hR.rxFrameLen
    · exact hR.lastSeq
    · exact hR.rxBlockCnt
    · exact hR.actualRxdl
    · exact hR.rxBuf
    · exact hR.pendingFc
    · exact hR.pfs
    · exact hR.tStart
    · exact hR.tTimeout
    · exact hR.blocksize
    · exact hR.maxFrameSize
    · exact hR.cfTimeout
    · exact hR.errors
    · exact hR.delivered
    · exact hR.rxQueue
    · rfl
  · intro k hk
    have h1 : k ≠ "fc.stmin" := ne_of_mem hk (by decide)
    have h2 : k ≠ "fc.blocksize" := ne_of_mem hk (by decide)
    have h3 : k ≠ "fc.flow_status" := ne_of_mem hk (by decide)
    have h4 : k ≠ "self.last_flow_control_frame" := ne_of_mem hk (by decide)
    simp only [set_apply, h1, h2, h3, h4, if_false]
  · unfold mbBack
    rw [set_eq]
    simp only [if_true]
    rw [set_ne (by decide), set_ne (by decide), set_ne (by decide), e1, set_ne (by decide), set_ne (by decide), set_ne (by decide),
      hP.fs, hP.bs, hP.stmin, hd]
    rfl

/-- **`_process_rx` from any environment that represents `s`** (the statement of `Rx.process_rx_run`, with `Goal2`) -/
theorem process_rx_run2 (hR : Rep s env) (hC : Consts env) (hmsg : env "msg" = some (.meth "msg"))
    (hP : ∀ d, rxDecoded s m = some d → PduCtx d env) (hinv : sliceOk s m) : Goal2 s m env := by
  cases hdec : rxDecoded s m with
  | none =>
    have hdec' : decode m.data s.addr.rx.rxPrefixSize = none := hdec
    have hpr : s.processRx m = ((s.error .InvalidCanData).stopReceiving, false, false) := by
      simp only [State.processRx, hdec']
    have hobj : mailboxObj s m = "fc" := by simp only [mailboxObj, hdec]
    obtain ⟨env', h0, hR'⟩ := st0_reject m hR hmsg hdec
    exact goal2_of_rep m hpr ⟨env', by rw [body_shape, block_ret _ _ _ _ _ _ h0], hR'⟩
  | some d =>
    have hP' := hP d hdec
    obtain ⟨p, canDl, rxDl⟩ := d
    have hdec' : decode m.data s.addr.rx.rxPrefixSize = some ⟨p, canDl, rxDl⟩ := hdec
    have h0 : execStmt Mm env st0 = .ok (.next (e1 env)) := st0_accept m hmsg _ hdec
    cases p with
    | fc st bs stm =>
      have hpr : s.processRx m = ({ s with lastFc := some ⟨st, bs, stm⟩ }, true, false) := by
        simp only [State.processRx, hdec']
      have hobj : mailboxObj s m = "pdu" := by simp only [mailboxObj, hdec, isFc, if_true]
      have h1 := st1_fc (env := e1 env) (d := ⟨.fc st bs stm, canDl, rxDl⟩) Mm (fn_lookups _ _ _ _).2.2.2.2.2.2.2.1
        (consts_e1 hC) (pduCtx_e1 hP') (by unfold e1; loc_tac) st bs stm rfl
      exact goal2_fc m hR hP' st bs stm rfl hpr (by rw [body_shape, block_next _ _ _ _ _ h0, block_ret _ _ _ _ _ _ h1])
    | sf len dat esc =>
      have hobj : mailboxObj s m = "fc" := by simp only [mailboxObj, hdec, isFc]; rfl
      have h3 := st3_sf s.now s.cfg.tCf s.addr.rx.rxPrefixSize m.data (consts_e2 hC) (pduCtx_e2 hP') len dat esc rfl
      by_cases hesc : (decide (canDl > 8) && !esc) = true
      · have hpr : s.processRx m = (s.error .MissingEscapeSequence, false, false) := by
          simp only [State.processRx, hdec', hesc, if_true]
        rw [if_pos hesc] at h3
        have hR2 : Rep s (e2 env) :=
          (hR.setLocal "pdu" (.meth "pdu") (by decide)).setLocal "frame_complete" (pbool false) (by decide)
        refine goal2_of_rep m hpr ⟨_, ?_, hR2.trig .MissingEscapeSequence⟩
        rw [body_shape, block_next _ _ _ _ _ h0,
          block_next _ _ _ _ _ (st1_other _ (consts_e1 hC) (pduCtx_e1 hP') (by simp [typeCode]))]
        have h2 : execStmt Mm (e1 env) st2 = .ok (.next (e2 env)) := rfl
        rw [block_next _ _ _ _ _ h2, block_ret _ _ _ _ _ _ h3]
        rfl
      · rw [if_neg hesc] at h3
        have pre := head_run m hC hP' hmsg hdec (by simp [typeCode]) h3
        have hl := headEnv_lookups env
        cases hst : s.rxState with
        | idle =>
          have hpr : s.processRx m = ((idleSt s).deliver dat, false || ((idleSt s).deliver dat).pendingFc, true) := by
            simp only [State.processRx, hdec', hesc, hst, idleSt]
            rfl
          exact goal2_of_rep m hpr (finish m (sm_sf_idle _ _ (rep_head hR) (consts_head hC) (pduCtx_head hP') len dat esc rfl
            hst hl.2.2) pre)
        | waitCf =>
          have hpr : s.processRx m = (((s.deliver dat).stopReceiving).error .InterruptedWithSingleFrame,
              false || (((s.deliver dat).stopReceiving).error .InterruptedWithSingleFrame).pendingFc, true) := by
            simp only [State.processRx, hdec', hesc, hst]
            rfl
          exact goal2_of_rep m hpr (finish m (sm_sf_wait _ _ (rep_head hR) (consts_head hC) (pduCtx_head hP') len dat esc rfl
            hst hl.2.2) pre)
    | ff len dat esc =>
      have hobj : mailboxObj s m = "fc" := by simp only [mailboxObj, hdec, isFc]; rfl
      have h3 := st3_other Mm (consts_e2 hC) (pduCtx_e2 hP') (by simp [typeCode])
      have pre := head_run m hC hP' hmsg hdec (by simp [typeCode]) h3
      have hl := headEnv_lookups env
      cases hst : s.rxState with
      | idle =>
        have hpr : s.processRx m = (((idleSt s).startReception len dat rxDl).1,
            ((idleSt s).startReception len dat rxDl).2 || ((idleSt s).startReception len dat rxDl).1.pendingFc, false) := by
          simp only [State.processRx, hdec', hst, idleSt]
        exact goal2_of_rep m hpr (finish m (sm_ff_idle _ _ (rep_head hR) (consts_head hC) (pduCtx_head hP') hl.1 len dat esc
          rfl hst hl.2.1 hl.2.2) pre)
      | waitCf =>
        have hpr : s.processRx m = ((s.startReception len dat rxDl).1.error .InterruptedWithFirstFrame,
            (s.startReception len dat rxDl).2 ||
              ((s.startReception len dat rxDl).1.error .InterruptedWithFirstFrame).pendingFc, false) := by
          simp only [State.processRx, hdec', hst]
        exact goal2_of_rep m hpr (finish m (sm_ff_wait _ _ (rep_head hR) (consts_head hC) (pduCtx_head hP') hl.1 len dat esc
          rfl hst hl.2.1 hl.2.2) pre)
    | cf sn dat =>
      have hobj : mailboxObj s m = "fc" := by simp only [mailboxObj, hdec, isFc]; rfl
      have h3 := st3_other Mm (consts_e2 hC) (pduCtx_e2 hP') (by simp [typeCode])
      have pre := head_run m hC hP' hmsg hdec (by simp [typeCode]) h3
      have hl := headEnv_lookups env
      have hR0 := rep_head (env := env) hR
      have hC0 := consts_head (env := env) hC
      have hP0 := pduCtx_head (env := env) hP'
      cases hst : s.rxState with
      | idle =>
        have hpr : s.processRx m = ((idleSt s).error .UnexpectedConsecutiveFrame,
            false || ((idleSt s).error .UnexpectedConsecutiveFrame).pendingFc, false) := by
          simp only [State.processRx, hdec', hst, idleSt]
          rfl
        exact goal2_of_rep m hpr (finish m (sm_cf_idle _ _ hR0 hC0 hP0 sn dat rfl hst hl.2.1 hl.2.2) pre)
      | waitCf =>
        have hpr := processRx_cf_wait s m sn dat canDl rxDl hdec' hst
        by_cases hsn : sn = (s.lastSeq + 1) % 16
        · rw [if_pos hsn] at hpr
          have hinv' := hinv sn dat canDl rxDl hdec hst hsn
          by_cases hchg : (some rxDl != s.actualRxdl && decide (rxDl < btrOf s)) = true
          · rw [if_pos hchg] at hpr
            obtain ⟨E', h5, hR'⟩ := sm_cf_wait_changing _ _ hR0 hC0 hP0 sn dat rfl hst hsn hinv' hchg
            exact goal2_of_rep m hpr ⟨E', by rw [pre, block_ret _ _ _ _ _ _ h5], hR'⟩
          · rw [if_neg hchg] at hpr
            by_cases hcompl : s.rxFrameLen ≤ (s.rxBuf ++ dat.take (btrOf s)).length
            · rw [if_pos hcompl] at hpr
              exact goal2_of_rep m hpr (finish m (sm_cf_wait_complete _ _ hR0 hC0 hP0 sn dat rfl hst hsn hinv' hchg hcompl
                hl.2.2) pre)
            · rw [if_neg hcompl] at hpr
              have hm := sm_cf_wait_more s.addr.rx.rxPrefixSize m.data hR0 hC0 hP0 sn dat rfl hst hsn hinv' hchg hcompl hl.2.1 hl.2.2
              by_cases hblk : (decide (s.cfg.blocksize > 0) && decide ((s.rxBlockCnt + 1) % s.cfg.blocksize = 0)) = true
              · rw [if_pos hblk] at hpr hm
                exact goal2_of_rep m hpr (finish m hm pre)
              · rw [if_neg hblk] at hpr hm
                exact goal2_of_rep m hpr (finish m hm pre)
        · rw [if_neg hsn] at hpr
          exact goal2_of_rep m hpr (finish m (sm_cf_wait_bad _ _ hR0 hC0 hP0 sn dat rfl hst hsn hl.2.1 hl.2.2) pre)



end rxrun

/-! ## G. the callees, one by one -/

/-- every key `RW` reads, the history key `#ops` excepted -/
def rwKeys : List String := "logging.DEBUG" :: (txOwnKeys ++ rxOwnKeys ++ sharedKeys ++ rxConstKeys)

theorem mem_rw_tx {k : String} (h : k ∈ txOwnKeys) : k ∈ rwKeys := by simp [rwKeys, h]
theorem mem_rw_rx {k : String} (h : k ∈ rxOwnKeys) : k ∈ rwKeys := by simp [rwKeys, h]
theorem mem_rw_sh {k : String} (h : k ∈ sharedKeys) : k ∈ rwKeys := by simp [rwKeys, h]
theorem mem_rw_c {k : String} (h : k ∈ rxConstKeys) : k ∈ rwKeys := by simp [rwKeys, h]

theorem SameTx.refl (s : State) : SameTx s s := ⟨rfl, rfl, rfl, rfl, rfl, rfl, rfl, rfl, rfl, rfl, rfl, rfl, rfl⟩
theorem SameRx.refl (s : State) : SameRx s s := ⟨rfl, rfl, rfl, rfl, rfl, rfl, rfl, rfl, rfl⟩
theorem SameSh.refl (s : State) : SameSh s s := ⟨rfl, rfl, rfl, rfl, rfl, rfl⟩

/-- the environment after a callee `o`: the three groups, the constants and the invariant re-established -/
theorem RW.after {s0 : State} {env env' : Env} {s : State} {ops : List ProcInst.Op} {o : ProcInst.Op} (h : RW s0 env s)
    (hs : s = ProcInst.runOps s0 ops) (hops' : env' "#ops" = some (.list (ProcInst.encOps (ops ++ [o]))))
    (hinv : Inv (ProcInst.applyOp s o)) (hd : env' "logging.DEBUG" = env "logging.DEBUG")
    (htx : TxOwn env' (ProcInst.applyOp s o)) (hrx : RxOwn env' (ProcInst.applyOp s o)) (hsh : Shared env' (ProcInst.applyOp s o))
    (hc : ∀ k ∈ rxConstKeys, env' k = env k) : RW s0 env' (ProcInst.applyOp s o) :=
  ⟨⟨ops ++ [o], hops', by rw [ProcInst.runOps_snoc, hs]⟩, hinv, hd.trans h.debug, htx, hrx, hsh, Consts.transfer h.rxc hc⟩

/-- a change of the environment outside the keys `RW` reads -/
theorem RW.congr {s0 : State} {env env' : Env} {s : State} (h : RW s0 env s) (ho : env' "#ops" = env "#ops")
    (hk : ∀ k ∈ rwKeys, env' k = env k) : RW s0 env' s := by
  obtain ⟨ops, h1, h2⟩ := h.ops
  exact ⟨⟨ops, ho.trans h1, h2⟩, h.inv, (hk _ (by decide)).trans h.debug, h.txo.transfer (fun k hk' => hk k (mem_rw_tx hk')) (SameTx.refl s),
    h.rxo.transfer (fun k hk' => hk k (mem_rw_rx hk')) (SameRx.refl s), h.sh.transfer (fun k hk' => hk k (mem_rw_sh hk')) (SameSh.refl s),
    Consts.transfer h.rxc (fun k hk' => hk k (mem_rw_c hk'))⟩

theorem procWrites_disj : ∀ k ∈ procWrites, k ∉ "#ops" :: rwKeys := by decide

theorem RW.set {s0 : State} {env : Env} {s : State} (h : RW s0 env s) {k : String} (hk : k ∉ "#ops" :: rwKeys) (v : PV) :
    RW s0 (env.set k v) s :=
  h.congr (set_ne (fun e => hk (by rw [← e]; exact List.mem_cons_self ..)))
    (fun k' hk' => set_ne (ne_of_mem (List.mem_cons_of_mem _ hk') hk))

theorem kept_of {ex : List String} {env env' : Env} (h : ∀ k ∈ procLocals, k ∉ ex → env' k = env k) : Kept ex env env' :=
  fun k hk hx => h k hk hx

theorem TxOwn.setRl {env : Env} {s : State} (h : TxOwn env s) (l : Limiter) :
    TxOwn (env.set "#rl" (Tx.rlPV l)) { s with rl := l } := by
  have hq := h.req
  have hc := h.consts
  cases h
  constructor
  case rl => exact set_eq
  case req => intro r hr; have := hq r hr; cases this; constructor <;> (rw [set_ne (by decide)]; assumption)
  case consts => cases hc; constructor <;> (rw [set_ne (by decide)]; assumption)
  all_goals (rw [set_ne (by decide)]; assumption)

section prims
variable {s0 : State} {env : Env} {s : State}

/-- `msg = self.rxfn(rx_timeout)`: the state after the call is `s1` (given as what `applyOp` computes) -/
theorem rxfn_step (h : RW s0 env s) (v : PV) (s1 : State) (mv : PV) (hap : ProcInst.applyOp s .rxfn = s1)
    (hmv : (match s.inbox with | [] => pnone | (_, m) :: _ => msgPV m) = mv) (hI : Inv s1)
    (hT : SameTx s s1) (hR : SameRx s s1) (hS : SameSh s s1) :
    ∃ env', (wholeM s0).proc "msg:=self.rxfn" [v] env = .ok env' ∧ RW s0 env' s1 ∧ env' "msg" = some mv ∧ Kept ["msg"] env env' := by
  obtain ⟨ops, h1, h2⟩ := h.ops
  refine ⟨(env.set "#ops" (.list (ProcInst.encOps (ops ++ [.rxfn])))).set "msg"
      (match (ProcInst.runOps s0 ops).inbox with | [] => pnone | (_, m) :: _ => msgPV m), ?_, ?_, ?_, ?_⟩
  · rw [(wholeM_lookups s0 env v default default default default).2.2.2.2.1]
    simp only [rxfnP, ProcInst.opsOf_eq env ops h1]
    try rfl
  · have hk : ∀ k ∈ rwKeys, ((env.set "#ops" (.list (ProcInst.encOps (ops ++ [.rxfn])))).set "msg"
        (match (ProcInst.runOps s0 ops).inbox with | [] => pnone | (_, m) :: _ => msgPV m)) k = env k := by
      intro k hk
      rw [set_ne (ne_of_mem hk (by decide)), set_ne (ne_of_mem hk (by decide))]
    subst hap
    exact h.after h2 (by rw [set_ne (by decide), set_eq]) hI (hk _ (by decide)) (h.txo.transfer (fun k hk' => hk k (mem_rw_tx hk')) hT)
      (h.rxo.transfer (fun k hk' => hk k (mem_rw_rx hk')) hR) (h.sh.transfer (fun k hk' => hk k (mem_rw_sh hk')) hS)
      (fun k hk' => hk k (mem_rw_c hk'))
  · rw [set_eq, ← h2, hmv]
  · intro k hk hx
    have : k ≠ "msg" := fun e => hx (by simp [e])
    rw [set_ne this, set_ne (ne_of_mem hk (by decide))]

/-- `self.txfn(msg)` -/
theorem txfn_step (h : RW s0 env s) (m : CanMsg) :
    ∃ env', (wholeM s0).proc "self.txfn" [msgPV m] env = .ok env' ∧ RW s0 env' (s.emit (.tx s.now m)) ∧ Kept [] env env' := by
  obtain ⟨ops, h1, h2⟩ := h.ops
  refine ⟨env.set "#ops" (.list (ProcInst.encOps (ops ++ [.txfn m]))), ?_, ?_, ?_⟩
  · rw [(wholeM_lookups s0 env (msgPV m) default default default default).2.2.2.2.2.2.2.2.2]
    simp only [txfnP, msgOf_msgPV, ProcInst.opsOf_eq env ops h1]
  · have hk : ∀ k ∈ rwKeys, (env.set "#ops" (.list (ProcInst.encOps (ops ++ [.txfn m])))) k = env k := by
      intro k hk
      rw [set_ne (ne_of_mem hk (by decide))]
    exact h.after (o := .txfn m) h2 set_eq (h.inv.emit _) (hk _ (by decide))
      (h.txo.transfer (fun k hk' => hk k (mem_rw_tx hk')) ⟨rfl, rfl, rfl, rfl, rfl, rfl, rfl, rfl, rfl, rfl, rfl, rfl, rfl⟩)
      (h.rxo.transfer (fun k hk' => hk k (mem_rw_rx hk')) ⟨rfl, rfl, rfl, rfl, rfl, rfl, rfl, rfl, rfl⟩)
      (h.sh.transfer (fun k hk' => hk k (mem_rw_sh hk')) ⟨rfl, rfl, rfl, rfl, by show Tx.histOf s.log ++ [] = _; rw [List.append_nil], rfl⟩)
      (fun k hk' => hk k (mem_rw_c hk'))
  · intro k hk _
    rw [set_ne (ne_of_mem hk (by decide))]

/-- `self.rate_limiter.update()` -/
theorem rl_step (h : RW s0 env s) :
    ∃ env', (wholeM s0).proc "self.rate_limiter.update" [] env = .ok env' ∧
      RW s0 env' { s with rl := s.rl.update s.cfg.rlWindowNs s.now } ∧ Kept [] env env' := by
  obtain ⟨ops, h1, h2⟩ := h.ops
  refine ⟨(env.set "#rl" (Tx.rlPV (s.rl.update s.cfg.rlWindowNs s.now))).set "#ops" (.list (ProcInst.encOps (ops ++ [.rlUpdate]))),
    ?_, ?_, ?_⟩
  · rw [(wholeM_lookups s0 env pnone default default default default).2.2.2.2.2.2.2.1]
    simp only [rlP, ProcInst.opsOf_eq env ops h1, h2]
  · have hk : ∀ k ∈ rwKeys, k ≠ "#rl" → ((env.set "#rl" (Tx.rlPV (s.rl.update s.cfg.rlWindowNs s.now))).set "#ops"
        (.list (ProcInst.encOps (ops ++ [.rlUpdate])))) k = env k := by
      intro k hk hne
      rw [set_ne (ne_of_mem hk (by decide)), set_ne hne]
    have hk2 : ∀ k ∈ rwKeys, ((env.set "#rl" (Tx.rlPV (s.rl.update s.cfg.rlWindowNs s.now))).set "#ops"
        (.list (ProcInst.encOps (ops ++ [.rlUpdate])))) k = (env.set "#rl" (Tx.rlPV (s.rl.update s.cfg.rlWindowNs s.now))) k := by
      intro k hk
      rw [set_ne (ne_of_mem hk (by decide))]
    exact h.after (o := .rlUpdate) h2 set_eq (h.inv.rl _) (hk _ (by decide) (by decide))
      ((h.txo.setRl _).transfer (fun k hk' => hk2 k (mem_rw_tx hk')) (SameTx.refl _))
      (h.rxo.transfer (fun k hk' => hk k (mem_rw_rx hk') (ne_of_mem hk' (by decide))) ⟨rfl, rfl, rfl, rfl, rfl, rfl, rfl, rfl, rfl⟩)
      (h.sh.transfer (fun k hk' => hk k (mem_rw_sh hk') (ne_of_mem hk' (by decide))) ⟨rfl, rfl, rfl, rfl, rfl, rfl⟩)
      (fun k hk' => hk k (mem_rw_c hk') (ne_of_mem hk' (by decide)))
  · intro k hk _
    rw [set_ne (ne_of_mem hk (by decide)), set_ne (ne_of_mem hk (by decide))]

/-- `self.address.is_for_me(msg)` -/
theorem is_for_me_step (h : RW s0 env s) (m : CanMsg) :
    (wholeM s0).fn "self.address.is_for_me" [msgPV m] env = .ok (pbool (s.addr.rx.isForMe m)) := by
  obtain ⟨ops, h1, h2⟩ := h.ops
  rw [(wholeM_lookups s0 env (msgPV m) default default default default).2.2.1]
  simp only [isForMeP, msgOf_msgPV, ProcInst.opsOf_eq env ops h1, ← h2]
  exact isForMe_agrees s.addr.rx m

end prims


/-! ### the receive side -/

section rxback
variable (now : Nat) (ops' : List ProcInst.Op) (env e' : Env)

theorem rxBack_copy {k : String} (hk : k ∈ rxCopy) : rxBack now ops' env e' k = e' k := by
  unfold rxBack
  rw [set_ne (ne_of_mem hk (by decide)), set_ne (ne_of_mem hk (by decide)), set_ne (ne_of_mem hk (by decide)), copy_in hk]

theorem rxBack_other {k : String} (hk : k ∉ rxCopy) (h1 : k ≠ "self.last_flow_control_frame") (h2 : k ≠ "#log") (h3 : k ≠ "#ops") :
    rxBack now ops' env e' k = env k := by
  unfold rxBack
  rw [set_ne h3, set_ne h2, set_ne h1, copy_out hk]

theorem rxBack_mb : rxBack now ops' env e' "self.last_flow_control_frame" = some (mbBack e') := by
  unfold rxBack
  rw [set_ne (by decide), set_ne (by decide), set_eq]

theorem rxBack_log : rxBack now ops' env e' "#log" = some (.list (scListOf (env "#log") ++
    trErrs now ((scListOf (e' "#errors")).drop (scListOf (env "#errors")).length))) := by
  unfold rxBack
  rw [set_ne (by decide), set_eq]

theorem rxBack_ops : rxBack now ops' env e' "#ops" = some (.list (ProcInst.encOps ops')) := by
  unfold rxBack
  rw [set_eq]
end rxback

def rxBackKeys : List String := "self.last_flow_control_frame" :: "#log" :: "#ops" :: rxCopy

theorem rxBack_keep (now : Nat) (ops' : List ProcInst.Op) (env e' : Env) {k : String} (hk : k ∉ rxBackKeys) :
    rxBack now ops' env e' k = env k := by
  simp only [rxBackKeys, List.mem_cons, not_or] at hk
  exact rxBack_other now ops' env e' hk.2.2.2 hk.1 hk.2.1 hk.2.2.1

/-- the caller's environment after a step of the receive side that took `s` to `s'` and ended in `e'` -/
theorem RW.afterRx {s0 : State} {env e' e'' : Env} {s : State} {ops : List ProcInst.Op} {o : ProcInst.Op} (h : RW s0 env s)
    (hs : s = ProcInst.runOps s0 ops) (hF : RxFrame s (ProcInst.applyOp s o)) (hI : Inv (ProcInst.applyOp s o))
    (hlog : LogExt (rxAt s.now) s.log (ProcInst.applyOp s o).log)
    (hR : Rx.Rep (ProcInst.applyOp s o) e'') (hag : ∀ k ∈ rxCopy, e' k = e'' k)
    (hmb : mbBack e' = Tx.optFcPV (ProcInst.applyOp s o).lastFc) :
    RW s0 (rxBack s.now (ops ++ [o]) env e') (ProcInst.applyOp s o) := by
  refine h.after hs (rxBack_ops ..) hI (rxBack_keep _ _ _ _ (by decide)) ?_ ?_ ?_ ?_
  · exact h.txo.transfer (fun k hk => rxBack_keep _ _ _ _ (fun hm => by revert k; decide)) (SameTx.of_rxFrame hF)
  · exact h.rxo.of_rep hR hF.cfg hag (fun k hk => rxBack_copy _ _ _ _ hk) (fun k hk hn => rxBack_keep _ _ _ _ (by revert k; decide))
  · exact h.sh.of_rep hR hag hmb hlog (fun k hk => rxBack_copy _ _ _ _ hk) (rxBack_mb ..) (rxBack_log ..)
  · exact fun k hk => rxBack_keep _ _ _ _ (by revert k; decide)

section rxsteps
variable {s0 : State} {env : Env} {s : State}

theorem kept_rxBack (now : Nat) (ops' : List ProcInst.Op) (env e' : Env) : ∀ k ∈ procLocals, rxBack now ops' env e' k = env k :=
  fun k hk => rxBack_keep _ _ _ _ (by revert k; decide)

/-- `self._check_timeouts_rx()`, run from its source -/
theorem check_step (h : RW s0 env s) :
    ∃ env', (wholeM s0).proc "self._check_timeouts_rx" [] env = .ok env' ∧ RW s0 env' s.checkTimeoutsRx ∧ Kept [] env env' := by
  obtain ⟨ops, h1, h2⟩ := h.ops
  obtain ⟨e', hrun, hR⟩ := check_timeouts_rx_run s.cfg.tCf s.addr.rx.rxPrefixSize [] h.rxRep
  refine ⟨rxBack s.now (ops ++ [.check]) env e', ?_, ?_, fun k hk _ => kept_rxBack _ _ _ _ k hk⟩
  · rw [(wholeM_lookups s0 env pnone default default default default).2.2.2.2.2.1]
    simp only [checkP, ProcInst.opsOf_eq env ops h1, ← h2, hrun]
  · exact h.afterRx (o := .check) h2 (RxFrame.checkTimeoutsRx s) h.inv.checkTimeoutsRx (rxAt_checkTimeoutsRx s) hR (fun _ _ => rfl)
      (mbBack_rep hR)

/-! #### the frame of `_process_rx` -/

theorem rxIn_rep (m : CanMsg) (h : Rx.Rep s (rxView env)) : Rx.Rep s (rxIn s m env) :=
  ⟨h.rxState, h.rxFrameLen, h.lastSeq, h.rxBlockCnt, h.actualRxdl, h.rxBuf, h.pendingFc, h.pfs, h.tStart, h.tTimeout, h.blocksize,
    h.maxFrameSize, h.cfTimeout, h.errors, h.delivered, h.rxQueue, h.mb, h.fcS, h.fcB, h.fcM⟩

theorem rxIn_consts (m : CanMsg) (h : Rx.Consts env) : Rx.Consts (rxIn s m env) :=
  ⟨h.t0, h.t1, h.t2, h.t3, h.idle, h.waitCf, h.cts, h.ovf⟩

theorem rxIn_pdu (m : CanMsg) (d : Decoded) (hd : rxDecoded s m = some d) : Rx.PduCtx d (rxIn s m env) := by
  have e : ∀ k, rxIn s m env k = (match k with | "msg" => some (.meth "msg") | _ => pduView (some d) (rxView env) k) := by
    intro k; unfold rxIn; rw [hd]; try rfl
  constructor <;> (rw [e]; rfl)

/-- `rx_result = self._process_rx(msg)`, run from its source -/
theorem process_rx_step (h : RW s0 env s) (m : CanMsg) :
    ∃ env', (wholeM s0).proc "rx_result:=self._process_rx" [msgPV m] env = .ok env' ∧ RW s0 env' (s.processRx m).1 ∧
      env' "rx_result.immediate_tx_required" = some (pbool (s.processRx m).2.1) ∧
      env' "rx_result.frame_received" = some (pbool (s.processRx m).2.2) ∧ Kept [] env env' := by
  obtain ⟨ops, h1, h2⟩ := h.ops
  obtain ⟨e', e'', hrun, hR, hag, hmb⟩ := process_rx_run2 m (rxIn_rep m h.rxRep) (rxIn_consts m h.rxc) rfl (rxIn_pdu m)
    (sliceOk_of_inv h.inv.rxBufOk m)
  have hrun' : runFn (rxMeths s m) (rxIn s m env) Src.TransportLayerLogic_p_process_rx =
      .ok (.list [.py (.bool (s.processRx m).2.1), .py (.bool (s.processRx m).2.2)], e') := by
    have : execBlock (rxMeths s m) (rxIn s m env) Src.TransportLayerLogic_p_process_rx = _ := hrun
    simp only [runFn, this]
  refine ⟨((rxBack s.now (ops ++ [.processRx m]) env e').set "rx_result.immediate_tx_required" (pbool (s.processRx m).2.1)).set
    "rx_result.frame_received" (pbool (s.processRx m).2.2), ?_, ?_, ?_, ?_, ?_⟩
  · rw [(wholeM_lookups s0 env (msgPV m) default default default default).2.2.2.2.2.2.1]
    simp only [processRxP, msgOf_msgPV, ProcInst.opsOf_eq env ops h1, ← h2, hrun']
  · have hRW := h.afterRx (o := .processRx m) h2 (RxFrame.processRx s m) (h.inv.processRx m) (rxAt_processRx s m) hR hag hmb
    exact (hRW.set (by decide) _).set (by decide) _
  · rw [set_ne (by decide), set_eq]
  · rw [set_eq]
  · intro k hk _
    rw [set_ne (ne_of_mem hk (by decide)), set_ne (ne_of_mem hk (by decide))]
    exact kept_rxBack _ _ _ _ k hk

end rxsteps


/-! ### the transmit side -/

section txback
variable (ops' : List ProcInst.Op) (env e' : Env)

theorem txBack_copy {k : String} (hk : k ∈ txCopy) : txBack ops' env e' k = e' k := by
  unfold txBack
  rw [set_ne (ne_of_mem hk (by decide)), set_ne (ne_of_mem hk (by decide)), copy_in hk]

theorem txBack_errors : txBack ops' env e' "#errors" = some (.list (errsOfHist (scListOf (e' "#log")))) := by
  unfold txBack
  rw [set_ne (by decide), set_eq]

theorem txBack_ops : txBack ops' env e' "#ops" = some (.list (ProcInst.encOps ops')) := by
  unfold txBack
  rw [set_eq]

def txBackKeys : List String := "#errors" :: "#ops" :: txCopy

theorem txBack_keep {k : String} (hk : k ∉ txBackKeys) : txBack ops' env e' k = env k := by
  simp only [txBackKeys, List.mem_cons, not_or] at hk
  unfold txBack
  rw [set_ne hk.2.1, set_ne hk.1, copy_out hk.2.2]
end txback

/-- the caller's environment after `_process_tx` took `s` to `s.processTx.1` and ended in `e'` -/
theorem RW.afterTx {s0 : State} {env e' : Env} {s : State} {ops : List ProcInst.Op} (h : RW s0 env s)
    (hs : s = ProcInst.runOps s0 ops) (hR : Rep2 e' s.processTx.1) :
    RW s0 (txBack (ops ++ [.processTx]) env e') s.processTx.1 := by
  have hF := TxFrame.processTx s
  refine h.after (o := .processTx) hs (txBack_ops ..) h.inv.processTx (txBack_keep _ _ _ (by decide)) ?_ ?_ ?_ ?_
  · exact h.txo.of_rep2 hR hF.cfg (fun k hk => txBack_copy _ _ _ hk) (fun k hk hn => txBack_keep _ _ _ (by revert k; decide))
  · exact h.rxo.transfer (fun k hk => txBack_keep _ _ _ (by revert k; decide)) (SameRx.of_txFrame hF)
  · exact Shared.of_rep2 hR (fun k hk => txBack_copy _ _ _ hk) (txBack_errors ..)
  · exact fun k hk => txBack_keep _ _ _ (by revert k; decide)

section txsteps
variable {s0 : State} {env : Env} {s : State}

/-- the four attribute views of the frame `_process_tx` starts in -/
def txBase (env : Env) : Env :=
  (((env.set "flow_control_frame.flow_status" (mbFld 0 (env "self.last_flow_control_frame"))).set
    "flow_control_frame.blocksize" (mbFld 1 (env "self.last_flow_control_frame"))).set
    "flow_control_frame.stmin_sec" (stminSecOf (env "self.last_flow_control_frame"))).set
    "self.tx_standby_msg.data" (dataOfMsg (env "self.tx_standby_msg"))

theorem txIn_eq (s : State) (env : Env) :
    txIn s env = match s.processTx.2.1 with
      | some m => (txBase env).set "output_msg.data" (.bytes m.data)
      | none => txBase env := rfl

theorem txIn_other (s : State) (env : Env) {k : String} (hk : k ≠ "output_msg.data") : txIn s env k = txBase env k := by
  rw [txIn_eq]
  split
  · rw [set_ne hk]
  · rfl

theorem txBase_rep2 (h : Rep2 env s) : Rep2 (txBase env) s :=
  (((h.setOther (by decide) (by decide) _).setOther (by decide) (by decide) _).setOther (by decide) (by decide) _).setOther
    (by decide) (by decide) _

theorem txIn_rep2 (h : Rep2 env s) : Rep2 (txIn s env) s := by
  rw [txIn_eq]
  split
  · exact (txBase_rep2 h).setOther (by decide) (by decide) _
  · exact txBase_rep2 h

theorem txIn_fcLoc (h : Shared env s) (f : FcFrame) (hf : s.lastFc = some f) : Tx.FcLoc (txIn s env) f := by
  constructor
  · rw [txIn_other s env (by decide), txBase, set_ne (by decide), set_ne (by decide), set_ne (by decide), set_eq, h.lastFc, hf, mbFld0]
  · rw [txIn_other s env (by decide), txBase, set_ne (by decide), set_ne (by decide), set_eq, h.lastFc, hf, mbFld1]
  · rw [txIn_other s env (by decide), txBase, set_ne (by decide), set_eq, h.lastFc, hf, stminSecOf_fc]

theorem txIn_standby (h : TxOwn env s) (m : CanMsg) (hm : s.standby = some m) :
    txIn s env "self.tx_standby_msg.data" = some (.bytes m.data) := by
  rw [txIn_other s env (by decide), txBase, set_eq, h.standby, hm, dataOfMsg_msgPV]

theorem txIn_out (m : CanMsg) (hm : s.processTx.2.1 = some m) : txIn s env "output_msg.data" = some (.bytes m.data) := by
  rw [txIn_eq, hm]
  exact set_eq

/-- `tx_result = self._process_tx()`, run from its source -/
theorem process_tx_step (h : RW s0 env s) :
    ∃ env', (wholeM s0).proc "tx_result:=self._process_tx" [] env = .ok env' ∧ RW s0 env' s.processTx.1 ∧
      env' "tx_result.msg" = some (optMsgPV msgPV s.processTx.2.1) ∧
      env' "tx_result.immediate_rx_required" = some (pbool s.processTx.2.2) ∧ Kept ["tx_result.immediate_rx_required"] env env' := by
  obtain ⟨ops, h1, h2⟩ := h.ops
  have hexc : s.processTx.1.exc = none := h.inv.processTx.exc
  have hrun := process_tx_agrees s (txIn s env) (s.txQueue.length + processTxFuel) (txIn_rep2 h.rep2) h.inv.exc (txIn_fcLoc h.sh)
    (txIn_standby h.txo) (fun m hm => txIn_out m hm) h.inv.safe.seq h.inv.txDl h.inv.safe.active_wf h.inv.q (Nat.le_refl _)
  rw [hexc] at hrun
  obtain ⟨e', hrun, hR⟩ := hrun
  refine ⟨((txBack (ops ++ [.processTx]) env e').set "tx_result.msg" (optMsgPV msgPV s.processTx.2.1)).set
    "tx_result.immediate_rx_required" (pbool s.processTx.2.2), ?_, ?_, ?_, ?_, ?_⟩
  · rw [(wholeM_lookups s0 env pnone default default default default).2.2.2.2.2.2.2.2.1]
    simp only [processTxP, ProcInst.opsOf_eq env ops h1, ← h2, hrun, Tx.reportPV]
    generalize s.processTx.2.1 = out
    cases out <;> rfl
  · exact ((h.afterTx h2 hR).set (by decide) _).set (by decide) _
  · rw [set_ne (by decide), set_eq]
  · rw [set_eq]
  · intro k hk hx
    have : k ≠ "tx_result.immediate_rx_required" := fun e => hx (by simp [e])
    rw [set_ne this, set_ne (ne_of_mem hk (by decide))]
    exact txBack_keep _ _ _ (by revert k; decide)

/-- `_process_tx` cannot raise in a well-formed state (`Safe.processTx`) -/
theorem process_tx_no_raise (h : RW s0 env s) (e : PyExc) (he : s.processTx.1.exc = some e) : False := by
  rw [h.inv.processTx.exc] at he
  cases he

end txsteps


/-! ## H. the capstone -/

/-- **the callees of `process()`, interpreted from their own sources, satisfy the contract of LayerProcess.lean**: `wholeM s0` is an
    instance of `ProcessCallees` for the representation relation `RW s0`. -/
theorem wholeM_callees (s0 : State) : ProcessCallees (wholeM s0) (RW s0) msgPV where
  msg_ne := by intro m h; cases h
  reads := fun env s h => h.reads
  R_set := fun env s k v hk h => h.set (procWrites_disj k hk) v
  tx_queue_empty := by
    intro env s h
    rw [(wholeM_lookups s0 env pnone default default default default).1]
    exact qEmptyP_rep h.rep2
  log_off := fun env v => (wholeM_lookups s0 env v default default default default).2.1
  is_for_me := fun env s m h => is_for_me_step h m
  stats := fun env a b c d => (wholeM_lookups s0 env pnone _ _ _ _).2.2.2.1
  rxfn_some := by
    intro env s v dt m rest h hin
    refine rxfn_step h v _ _ (by simp only [ProcInst.applyOp, hin]) (by simp only [hin]) ((h.inv.bus _ _).emit _)
      ⟨rfl, rfl, rfl, rfl, rfl, rfl, rfl, rfl, rfl, rfl, rfl, rfl, rfl⟩ ⟨rfl, rfl, rfl, rfl, rfl, rfl, rfl, rfl, rfl⟩
      ⟨rfl, rfl, rfl, rfl, by show Tx.histOf s.log ++ [] = _; rw [List.append_nil], rfl⟩
  rxfn_none := by
    intro env s v h hin
    refine rxfn_step h v _ _ (by simp only [ProcInst.applyOp, hin]) (by simp only [hin]) ((h.inv.bus _ _).emit _)
      ⟨rfl, rfl, rfl, rfl, rfl, rfl, rfl, rfl, rfl, rfl, rfl, rfl, rfl⟩ ⟨rfl, rfl, rfl, rfl, rfl, rfl, rfl, rfl, rfl⟩
      ⟨rfl, rfl, rfl, rfl, by show Tx.histOf s.log ++ [] = _; rw [List.append_nil], rfl⟩
  check_timeouts_rx := fun env s h => check_step h
  process_rx := fun env s m h => process_rx_step h m
  rl_update := fun env s h => rl_step h
  process_tx := fun env s h _ => process_tx_step h
  process_tx_raises := fun env s e h _ he => (process_tx_no_raise h e he).elim
  txfn := fun env s m h => txfn_step h m

/-- **CAPSTONE: `process()` with `_process_rx`, `_check_timeouts_rx`, `_process_tx` and `address.is_for_me` interpreted from their own
    sources computes the model's `State.process`.**  For every environment `env` that shows a well-formed state `s` (`RW s0 env s`) and
    binds the three parameters: if the model's run does not run out of fuel, then for every interpreter fuel `n ≥ processPyFuel s doRx doTx`
    the interpreted source of `process` returns `ProcessStats` of the model's four counters, in an environment that shows the model's
    final state (which is again well-formed).  (`s'.exc = none` is not a hypothesis: it follows from `RW`.) -/
theorem process_whole_agrees (s0 : State) (env : Env) (s : State) (doRx doTx : Bool) (tmo : PV) (s' : State) (st' : Stats)
    (hR : RW s0 env s) (hrx : env "do_rx" = some (pbool doRx)) (htx : env "do_tx" = some (pbool doTx)) (htmo : env "rx_timeout" = some tmo)
    (h : s.process doRx doTx = (s', st', false)) :
    ∃ env', (∀ n, processPyFuel s doRx doTx ≤ n →
        run2 n (wholeM s0) env Src.TransportLayerLogic_process = .ok (.ret (encodeStats st') env')) ∧ RW s0 env' s' := by
  have hexc : s'.exc = none := by
    have := (hR.inv.process doRx doTx).exc
    rw [h] at this
    exact this
  exact process_agrees (wholeM_callees s0) env s doRx doTx tmo s' st' hR hrx htx htmo h hexc

/-- in a well-formed state `process()` does not raise: the model's run never sets `exc` -/
theorem process_whole_exc (s0 : State) (env : Env) (s : State) (doRx doTx : Bool) (hR : RW s0 env s) :
    (s.process doRx doTx).1.exc = none := (hR.inv.process doRx doTx).exc

/-- ... and the model's run never runs out of fuel (`process_fuel_sufficient`, Proofs/Termination.lean): the statement without any
    hypothesis on the run -/
theorem process_whole_total (s0 : State) (env : Env) (s : State) (doRx doTx : Bool) (tmo : PV)
    (hR : RW s0 env s) (hrx : env "do_rx" = some (pbool doRx)) (htx : env "do_tx" = some (pbool doTx)) (htmo : env "rx_timeout" = some tmo) :
    ∃ env', (∀ n, processPyFuel s doRx doTx ≤ n →
        run2 n (wholeM s0) env Src.TransportLayerLogic_process = .ok (.ret (encodeStats (s.process doRx doTx).2.1) env')) ∧
      RW s0 env' (s.process doRx doTx).1 :=
  process_whole_agrees s0 env s doRx doTx tmo _ _ hR hrx htx htmo
    (by rw [← process_fuel_sufficient s doRx doTx hR.inv.safe.cfg_valid])

/-! ## I. the hypotheses are satisfiable: an environment that shows any well-formed state -/

/-- the object `self` in state `s0` (every attribute the three leaves read, the mailbox as a value, the histories, no callee called yet),
    the class constants AS DUMPED FROM THE SOURCE (`constEnv`), `logging.DEBUG`, and the three parameters of `process` -/
def env0 (s0 : State) (doRx doTx : Bool) (tmo : PV) : Env := fun k =>
  match k with
  | "#ops" => some (.list [])
  | "logging.DEBUG" => some (pint 10)
  | "do_rx" => some (pbool doRx)
  | "do_tx" => some (pbool doTx)
  | "rx_timeout" => some tmo
  | "self.tx_state" => some (Tx.txStPV s0.txState)
  | "self.tx_frame_length" => some (pint s0.txFrameLen)
  | "self.tx_seqnum" => some (pint s0.txSeq)
  | "self.tx_block_counter" => some (pint s0.txBlockCnt)
  | "self.remote_blocksize" => some (optPV s0.remoteBs)
  | "self.wft_counter" => some (pint s0.wftCnt)
  | "self.params.listen_mode" => some (pbool s0.cfg.listen)
  | "self.params.wftmax" => some (pint s0.cfg.wftmax)
  | "self.params.override_receiver_stmin" => some (Tx.nsPV s0.cfg.overrideStminNs)
  | "self.params.tx_data_length" => some (pint s0.cfg.txDl)
  | "self.params.tx_data_min_length" => some (optPV s0.cfg.txMinLen)
  | "self.tx_standby_msg" => some (Tx.optMsgPV s0.standby)
  | "self.active_send_request" => some (Tx.objPV "req" s0.active.isSome)
  | "self.timer_rx_fc.start_time" => some (optPV s0.timerFc.start)
  | "self.timer_rx_fc.timeout" => some (pint s0.timerFc.timeout)
  | "self.timer_tx_stmin.start_time" => some (optPV s0.timerStmin.start)
  | "self.timer_tx_stmin.timeout" => some (pint s0.timerStmin.timeout)
  | "#rl" => some (Tx.rlPV s0.rl)
  | "self.active_send_request.target_address_type" => s0.active.map (fun r => tatPV r.tat)
  | "self.active_send_request.generator._size" => s0.active.map (fun r => pint r.size)
  | "self.active_send_request.generator._consumed" => s0.active.map (fun r => pint r.consumed)
  | "self.active_send_request.generator._depleted" => s0.active.map (fun r => pbool r.depletedFlag)
  | "#gen.src" => s0.active.map (fun r => .bytes r.src)
  | "#req.id" => s0.active.map (fun r => pint r.id)
  | "#req.instr" => s0.active.map (fun r => pbool r.instr)
  | "#tx_queue" => some (.list (txqScs s0.txQueue))
  | "self.rx_state" => some (rxStPV s0.rxState)
  | "self.rx_frame_length" => some (pint s0.rxFrameLen)
  | "self.last_seqnum" => some (pint s0.lastSeq)
  | "self.rx_block_counter" => some (pint s0.rxBlockCnt)
  | "self.actual_rxdl" => some (optPV s0.actualRxdl)
  | "self.rx_buffer" => some (.bytes s0.rxBuf)
  | "self.params.blocksize" => some (pint s0.cfg.blocksize)
  | "self.params.max_frame_size" => some (pint s0.cfg.maxFrameSize)
  | "self.params.rx_consecutive_frame_timeout" => some (pint (s0.cfg.tCf / 1000000))
  | "#delivered" => some (.list (encodePayloads (deliveredOf s0.log)))
  | "#rx_queue" => some (.list (encodePayloads s0.rxQueue))
  | "self.pending_flow_control_tx" => some (pbool s0.pendingFc)
  | "self.pending_flowcontrol_status" => s0.pendingFcStatus.map (fun (n : Nat) => pint (n : Int))
  | "self.timer_rx_cf.start_time" => some (optPV s0.timerCf.start)
  | "self.timer_rx_cf.timeout" => some (pint s0.timerCf.timeout)
  | "self.last_flow_control_frame" => some (Tx.optFcPV s0.lastFc)
  | "#log" => some (.list (Tx.histOf s0.log))
  | "#errors" => some (.list (errsOf s0.log))
  | _ => constEnv k

/-- **`env0` shows `s0`**, for every well-formed `s0` -/
theorem env0_shows (s0 : State) (doRx doTx : Bool) (tmo : PV) (hI : Inv s0) : RW s0 (env0 s0 doRx doTx tmo) s0 where
  ops := ⟨[], rfl, rfl⟩
  inv := hI
  debug := rfl
  txo := by
    constructor
    case req =>
      intro r hr
      constructor <;> (show Option.map _ s0.active = _; rw [hr]; rfl)
    case consts => exact ⟨rfl, rfl, rfl, rfl, rfl, rfl, rfl, rfl⟩
    all_goals rfl
  rxo := ⟨rfl, rfl, rfl, rfl, rfl, rfl, rfl, rfl, rfl, rfl, rfl⟩
  sh := ⟨rfl, rfl, rfl, rfl, rfl, rfl, rfl⟩
  rxc := ⟨rfl, rfl, rfl, rfl, rfl, rfl, rfl, rfl⟩

/-- the capstone from the canonical environment: EVERY well-formed state - in particular `State.init` of a valid configuration after any
    sequence of `send`s of non-instrumented requests and any frames pushed on the bus (`Inv.init`, `Inv.send`, `Inv.bus`) -/
theorem process_whole_init (s0 : State) (doRx doTx : Bool) (tmo : PV) (hI : Inv s0) :
    ∃ env', (∀ n, processPyFuel s0 doRx doTx ≤ n →
        run2 n (wholeM s0) (env0 s0 doRx doTx tmo) Src.TransportLayerLogic_process =
          .ok (.ret (encodeStats (s0.process doRx doTx).2.1) env')) ∧
      RW s0 env' (s0.process doRx doTx).1 :=
  process_whole_total s0 _ s0 doRx doTx tmo (env0_shows s0 doRx doTx tmo hI) rfl rfl rfl

/-! ### a concrete run -/

def exHalf : Half :=
  { mode := .n11, txid := some 0x123, rxid := some 0x456, ta := none, sa := none, ae := none,
    physId := 0x123, funcId := 0x123, rxOnly := false, txOnly := false }

/-- `State.init` of the default configuration, a 10-byte payload sent, two frames on the bus: a Single Frame for us (after 5 ns), a frame
    for somebody else (after 3 ns) -/
def exS : State :=
  ((((State.init {} { tx := exHalf, rx := exHalf }).send { id := 1, size := 10, src := [1, 2, 3, 4, 5, 6, 7, 8, 9, 10] }).1.pushFrame 5
    { id := 0x456, ext := false, data := [0x02, 0xAA, 0xBB] }).pushFrame 3 { id := 0x999, ext := false, data := [0x01, 0x01] })

theorem exS_inv : Inv exS :=
  (((Inv.init {} _ (by decide)).send _ rfl).bus _ _).bus _ _

/-- the interpreted `process()` - receive and transmit state machines run from their sources - returns
    `ProcessStats(received=2, received_processed=1, sent=1, frame_received=1)`, as the model does -/
example : ∃ env', (∀ n, processPyFuel exS true true ≤ n →
      run2 n (wholeM exS) (env0 exS true true (pint 0)) Src.TransportLayerLogic_process =
        .ok (.ret (encodeStats { received := 2, processed := 1, sent := 1, frames := 1 }) env')) ∧
    RW exS env' (exS.process true true).1 := by
  have h2 : (exS.process true true).2.1 = { received := 2, processed := 1, sent := 1, frames := 1 } := by decide
  have := process_whole_init exS true true (pint 0) exS_inv
  rw [h2] at this
  exact this


end Whole

/- the main names, also available as `Isotp.PyAgree.<name>` -/
export Whole (RW wholeM wholeM_callees process_whole_agrees process_whole_total process_whole_init)

end Isotp.PyAgree

#print axioms Isotp.PyAgree.Whole.process_whole_agrees
#print axioms Isotp.PyAgree.Whole.process_whole_total
#print axioms Isotp.PyAgree.Whole.process_whole_init
#print axioms Isotp.PyAgree.Whole.wholeM_callees
#print axioms Isotp.PyAgree.Whole.env0_shows
#print axioms Isotp.PyAgree.Whole.process_rx_run2
#print axioms Isotp.PyAgree.Whole.check_step
#print axioms Isotp.PyAgree.Whole.process_rx_step
#print axioms Isotp.PyAgree.Whole.process_tx_step
#print axioms Isotp.PyAgree.Whole.is_for_me_step
#print axioms Isotp.PyAgree.Whole.Inv.init
#print axioms Isotp.PyAgree.Whole.Inv.send
#print axioms Isotp.PyAgree.Whole.Inv.processRx
#print axioms Isotp.PyAgree.Whole.Inv.checkTimeoutsRx
#print axioms Isotp.PyAgree.Whole.Inv.processTx
#print axioms Isotp.PyAgree.Whole.Inv.bus
#print axioms Isotp.PyAgree.Whole.Inv.rl
#print axioms Isotp.PyAgree.Whole.Inv.stepInv
#print axioms Isotp.PyAgree.Whole.errsOfHist_histOf
#print axioms Isotp.PyAgree.Whole.hist_after_rx
#print axioms Isotp.PyAgree.Whole.rxAt_processRx
