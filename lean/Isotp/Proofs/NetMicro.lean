import Isotp.Process
/-
  Network-level safety (C01 / C10), part 1: `process()` is a sequence of micro-steps.

  `Micro s s'`: one iteration of the inner rx loop on a frame (`rxOne`: read the inbox head, log it, timeout
  check, address filter, `_process_rx`), the final `rxfn() = None` iteration (`rxEnd`), the rate-limiter
  update between the two loops, one iteration of the inner tx loop (`_process_tx` followed by `txfn`).
  `process_ind`: every predicate preserved by the micro-steps is preserved by `process(do_rx, do_tx)`.

  `relog s L`: the state `s` with the older history `L` put back under its log (the network clears the log of
  a layer before every operation); `_process_rx` and `_check_timeouts_rx` do not read the log.
-/
namespace Isotp.NetP
open Isotp Isotp.State

/-! ### micro-steps -/

/-- `rxfn()` returned `m` after blocking `dt`: the inbox loses its head, the clock advances, the frame is logged -/
def arrive (s : State) (dt : Nat) (m : CanMsg) (rest : List (Nat × CanMsg)) : State :=
  ({ s with inbox := rest, now := s.now + dt } : State).emit (.rx (s.now + dt) m)

/-- one iteration of the inner rx loop on a frame -/
def rxOne (s : State) (dt : Nat) (m : CanMsg) (rest : List (Nat × CanMsg)) : State :=
  if (arrive s dt m rest).checkTimeoutsRx.addr.rx.isForMe m then ((arrive s dt m rest).checkTimeoutsRx.processRx m).1
  else (arrive s dt m rest).checkTimeoutsRx

/-- the last iteration of the inner rx loop: `rxfn()` returned `None` -/
def rxEnd (s : State) : State := (({ s with inbox := [] } : State).emit (.rxNone s.now)).checkTimeoutsRx

/-- `rate_limiter.update()` between the two inner loops -/
def rlStage (s : State) : State := { s with rl := s.rl.update s.cfg.rlWindowNs s.now }

/-- the message returned by `_process_tx`, if any, is handed to `txfn` -/
def afterTxfn (r : State × Option CanMsg × Bool) : State :=
  match r.2.1 with
  | some m => r.1.emit (.tx r.1.now m)
  | none => r.1

inductive Micro : State → State → Prop
  | frame (s : State) (dt : Nat) (m : CanMsg) (rest : List (Nat × CanMsg)) :
      s.inbox = (dt, m) :: rest → Micro s (rxOne s dt m rest)
  | rxEnd (s : State) : s.inbox = [] → Micro s (rxEnd s)
  | rl (s : State) : Micro s (rlStage s)
  | tx (s : State) : s.processTx.1.exc = none → Micro s (afterTxfn s.processTx)
  | txExc (s : State) : s.processTx.1.exc.isSome = true → Micro s s.processTx.1

theorem checkTimeoutsRx_inbox (s : State) : s.checkTimeoutsRx.inbox = s.inbox := by
  unfold checkTimeoutsRx; split <;> rfl

theorem processRx_inbox (s : State) (m : CanMsg) : (s.processRx m).1.inbox = s.inbox := by
  unfold processRx startReception
  grind [deliver, stopReceiving, State.error, emit, requestFc, startRxCfTimer]

theorem rxOne_inbox (s : State) (dt : Nat) (m : CanMsg) (rest : List (Nat × CanMsg)) :
    (rxOne s dt m rest).inbox = rest := by
  unfold rxOne
  split
  · rw [processRx_inbox, checkTimeoutsRx_inbox]; rfl
  · rw [checkTimeoutsRx_inbox]; rfl

section ind
variable (I : State → Prop) (hstep : ∀ s s', I s → Micro s s' → I s')
include hstep

theorem rxLoop_ind (doTx : Bool) : ∀ (l : List (Nat × CanMsg)) (s : State) (st : Stats), s.inbox = l → I s →
    I (rxLoop doTx s st l).1 := by
  intro l
  induction l with
  | nil =>
    intro s st hl hi
    exact hstep _ _ hi (Micro.rxEnd s hl)
  | cons x rest ih =>
    intro s st hl hi
    obtain ⟨dt, m⟩ := x
    have h1 := hstep _ _ hi (Micro.frame s dt m rest hl)
    have hin := rxOne_inbox s dt m rest
    unfold rxOne arrive at h1 hin
    unfold rxLoop
    simp only []
    split
    · rename_i hfm
      rw [if_pos hfm] at h1 hin
      split
      · exact h1
      · split
        · exact h1
        · exact ih _ _ hin h1
    · rename_i hfm
      rw [if_neg hfm] at h1 hin
      split
      · exact h1
      · exact ih _ _ hin h1

theorem txLoop_ind : ∀ (f : Nat) (s : State) (n : Nat), I s → I (txLoop f s n).1 := by
  intro f
  induction f with
  | zero => intro s n hi; exact hi
  | succ f ih =>
    intro s n hi
    unfold txLoop
    by_cases hx : s.processTx.1.exc.isSome = true
    · have := hstep _ _ hi (Micro.txExc s hx)
      generalize s.processTx = r at hx this ⊢
      obtain ⟨s1, out, imm⟩ := r
      simp only [] at hx this ⊢
      simp only [hx, if_true]
      exact this
    · have hx' : s.processTx.1.exc = none := by
        cases h : s.processTx.1.exc with
        | none => rfl
        | some e => simp [h] at hx
      have := hstep _ _ hi (Micro.tx s hx')
      unfold afterTxfn at this
      generalize s.processTx = r at hx this ⊢
      obtain ⟨s1, out, imm⟩ := r
      simp only [] at hx this ⊢
      simp only [hx, Bool.false_eq_true, if_false]
      cases out with
      | none =>
        simp only [] at this ⊢
        cases imm <;> simp <;> exact this
      | some m =>
        simp only [] at this ⊢
        cases imm
        · simp only [Bool.false_eq_true, if_false, Option.isSome_some, if_true]
          exact ih _ _ this
        · simp only [if_true]
          exact this

theorem processLoop_ind (doRx doTx : Bool) : ∀ (f : Nat) (s : State) (st : Stats), I s →
    I (processLoop f doRx doTx s st).1 := by
  intro f
  induction f with
  | zero => intro s st hi; exact hi
  | succ f ih =>
    intro s st hi
    unfold processLoop
    simp only []
    -- rx stage
    have hA : I (if (doRx && !(doTx && !s.txQueue.isEmpty && decide (s.rxState = .idle) && decide (s.txState = .idle))) = true
        then s.rxLoop doTx st s.inbox else (s, st, false)).1 := by
      split
      · exact rxLoop_ind I hstep doTx _ _ _ rfl hi
      · exact hi
    generalize (if (doRx && !(doTx && !s.txQueue.isEmpty && decide (s.rxState = .idle) && decide (s.txState = .idle))) = true
        then s.rxLoop doTx st s.inbox else (s, st, false)) = A at hA ⊢
    obtain ⟨sa, sta, rxRun⟩ := A
    simp only [] at hA ⊢
    have hR := hstep _ _ hA (Micro.rl sa)
    unfold rlStage at hR
    cases doTx with
    | false =>
      simp only [Bool.false_eq_true, if_false, Bool.false_and, Bool.or_false, Bool.false_or]
      split
      · exact hR
      · split
        · exact ih _ _ hR
        · exact hR
    | true =>
      simp only [if_true]
      have hB := txLoop_ind I hstep ({ sa with rl := sa.rl.update sa.cfg.rlWindowNs sa.now } : State).txFuel _ sta.sent hR
      generalize txLoop ({ sa with rl := sa.rl.update sa.cfg.rlWindowNs sa.now } : State).txFuel _ sta.sent = B at hB ⊢
      obtain ⟨sb, nb, run, oof⟩ := B
      simp only [] at hB ⊢
      split
      · exact hB
      · split
        · exact hB
        · split
          · exact ih _ _ hB
          · exact hB

/-- every predicate preserved by the micro-steps is preserved by `process(do_rx, do_tx)` -/
theorem process_ind (doRx doTx : Bool) (s : State) (hi : I s) : I (s.process doRx doTx).1 :=
  processLoop_ind I hstep doRx doTx _ _ _ hi

end ind

/-! ### putting the older history back under the log -/

/-- `s` with the older history `L` (newest first) under its log -/
def relog (s : State) (L : List Ev) : State := { s with log := s.log ++ L }

@[simp] theorem relog_log (s : State) (L : List Ev) : (relog s L).log = s.log ++ L := rfl
@[simp] theorem relog_nil (s : State) : relog s [] = s := by simp [relog]

theorem relog_checkTimeoutsRx (s : State) (L : List Ev) :
    (relog s L).checkTimeoutsRx = relog s.checkTimeoutsRx L := by
  unfold checkTimeoutsRx relog
  simp only []
  split <;> rfl

theorem relog_processRx (s : State) (m : CanMsg) (L : List Ev) :
    (relog s L).processRx m = (relog (s.processRx m).1 L, (s.processRx m).2) := by
  unfold processRx startReception relog
  simp only []
  repeat' split
  all_goals (try rfl)
  all_goals (exfalso; simp_all [startRxCfTimer])
  all_goals omega

end Isotp.NetP
