import Isotp.Proofs.Limiter
import Isotp.Proofs.Fc
/-
  Helper lemmas for the PASS-level statements of C15 ("the rate limiter never stalls a
  transfer"): what one whole `process(do_rx, do_tx)` call does to the limiter window, in
  particular the transmit-only pass `process false true` of the threaded layer.

  Part A: `Fresh` — every accounted slot lies inside the window that ends "now"; `update`
          establishes it (sorted slots), `inform` at the same instant keeps it.
  Part B: `ParkInv` — a parked frame sits in a standby state and fits `tx_data_length`;
          one `processTx` pass as seen by these invariants (`StepSpec`), without `StandbyOk`.
  Part C: `txLoop` and `processLoop`: the window is slid by EVERY iteration (`IterSpec.fresh`,
          `processLoop_pass`), and a frame still parked at the end of a transmitting pass means the
          limiter is `Blocked` (`LoopPass.blocked`); `ParkInv` / `Fc.TxWf` over sessions.
  Part D: a transmitting pass releases a parked frame once the window is free (`process_release`).
-/
namespace Isotp.C15pass
open Isotp State Isotp.C15

/-! ## Part A — freshness of the slot list -/

/-- every accounted slot starts inside the window of length `w` that ends at `now` -/
def Fresh (w now : Nat) (l : Limiter) : Prop := ∀ e ∈ l.slots, now - e.1 ≤ w

theorem expire_fresh (w now : Nat) (sl : List (Nat × Nat)) (bt : Nat)
    (hs : sl.Pairwise (fun a b => a.1 ≤ b.1)) :
    ∀ e ∈ (Limiter.expire w now sl bt).1, now - e.1 ≤ w := by
  fun_induction Limiter.expire w now sl bt with
  | case1 bt => simp
  | case2 t b rest bt hx ih => exact ih (List.Pairwise.of_cons hs)
  | case3 t b rest bt hx =>
    intro e he
    rcases List.mem_cons.mp he with rfl | he
    · simpa using hx
    · have := List.rel_of_pairwise_cons hs he
      simp at this hx
      omega

/-- `update` at time `now` leaves only slots inside the window ending at `now`
    (the slot list is sorted: `LimInv`) -/
theorem fresh_update (l : Limiter) (w now : Nat) (h : LimInv l) : Fresh w now (l.update w now) := by
  unfold Fresh Limiter.update Limiter.reset
  split
  · simp
  · exact expire_fresh w now l.slots l.bitTotal h.sorted

theorem addToLast_mem (now bits : Nat) (sl : List (Nat × Nat)) :
    ∀ e ∈ Limiter.addToLast now bits sl, e.1 = now ∨ ∃ e0 ∈ sl, e0.1 = e.1 := by
  fun_induction Limiter.addToLast now bits sl with
  | case1 => simp
  | case2 t b h => simp
  | case3 t b h => simp
  | case4 x rest h1 ih =>
    intro e he
    rcases List.mem_cons.mp he with rfl | he
    · exact Or.inr ⟨e, List.mem_cons_self, rfl⟩
    · rcases ih e he with h | ⟨e0, h0, h1⟩
      · exact Or.inl h
      · exact Or.inr ⟨e0, List.mem_cons_of_mem _ h0, h1⟩

/-- accounting a frame handed over at `now` keeps the slot list inside the window ending at `now` -/
theorem fresh_inform (l : Limiter) (w now n : Nat) (h : Fresh w now l) : Fresh w now (l.inform now n) := by
  unfold Limiter.inform
  split
  · intro e he
    rcases addToLast_mem now (n * 8) l.slots e he with h1 | ⟨e0, h0, h1⟩
    · omega
    · have := h e0 h0; omega
  · exact h

theorem fresh_suffix {w now : Nat} {l l' : Limiter} (hs : l'.slots <:+ l.slots) (h : Fresh w now l) :
    Fresh w now l' :=
  fun e he => h e (hs.subset he)

theorem fresh_mono {w now now' : Nat} {l : Limiter} (h : Fresh w now l) (hle : now' ≤ now) :
    Fresh w now' l := fun e he => by have := h e he; omega

/-! ## Part B — the parked frame -/

/-- a parked frame sits in one of the two standby states and fits the configured
    `tx_data_length` (so it is allowed again as soon as the window is free) -/
def ParkInv (s : State) : Prop :=
  ∀ msg, s.standby = some msg →
    (s.txState = .sfStandby ∨ s.txState = .ffStandby) ∧ msg.data.length ≤ s.cfg.txDl

theorem parkInv_of_none (s : State) (h : s.standby = none) : ParkInv s := by
  intro m hm; rw [h] at hm; cases hm

theorem parkInv_congr {s s' : State} (h1 : s'.standby = s.standby) (h2 : s'.txState = s.txState)
    (h3 : s'.cfg = s.cfg) (h : ParkInv s) : ParkInv s' := by
  intro m hm; rw [h2, h3]; exact h m (h1 ▸ hm)

theorem parkInv_stopSending (s : State) (b : Bool) : ParkInv (s.stopSending b) :=
  parkInv_of_none _ (by simp)

theorem parkInv_ite {c : Prop} [Decidable c] {a b : State} (ha : ParkInv a) (hb : ParkInv b) :
    ParkInv (if c then a else b) := by
  split <;> assumption

theorem parkInv_init (c : Cfg) (a : Addr) : ParkInv (State.init c a) :=
  parkInv_of_none _ rfl

theorem ParkInv.none_of_noStandby {s : State} (h : ParkInv s) (hn : NoStandbySt s) : s.standby = none := by
  cases hs : s.standby with
  | none => rfl
  | some m =>
    have := (h m hs).1
    unfold NoStandbySt at hn
    rcases this with h | h <;> simp [h] at hn

theorem parkInv_handleFc (s : State) (f : FcFrame) (h : ParkInv s) : ParkInv (s.handleFc f) := by
  unfold ParkInv at *
  unfold handleFc
  grind [stopSending, State.error, emit, startRxFcTimer]

theorem parkInv_txPend (s : State) (h : ParkInv s) : ParkInv (txPend s).1 := by
  unfold ParkInv at *
  unfold txPend
  grind [raise, startRxCfTimer]

theorem parkInv_txFcIn (s : State) (h : ParkInv s) : ParkInv (txFcIn s).1 := by
  unfold txFcIn
  simp only []
  split
  · split
    · exact parkInv_congr rfl rfl rfl (parkInv_stopSending _ _)
    · exact parkInv_handleFc _ _ (parkInv_congr (s := s) rfl rfl rfl h)
  · exact parkInv_congr (s := s) rfl rfl rfl h

theorem parkInv_txGuard (s : State) (h : ParkInv s) : ParkInv (txGuard s) := by
  unfold txGuard
  split
  · exact parkInv_stopSending _ _
  · exact h

theorem parkInv_txDone (s : State) (h : ParkInv s) : ParkInv (txDone s) := by
  unfold txDone
  exact parkInv_ite (parkInv_stopSending _ _) h

/-- the exception exits of the pending-Flow-Control part raise -/
theorem txPend_raises (s : State) (h : (txPend s).2 = some none) : (txPend s).1.exc.isSome = true := by
  unfold txPend at *
  grind [raise, startRxCfTimer]

/-- the Overflow exit of the received-Flow-Control part drops the parked frame -/
theorem txFcIn_stop (s : State) (h : (txFcIn s).2 = true) : (txFcIn s).1.standby = none := by
  unfold txFcIn at *
  grind [stopSending, State.error, emit]

/-- `startTx` from a non-standby state with nothing parked: a frame is parked only when the
    limiter does not allow a full frame; it then fits `tx_data_length` and nothing is output -/
theorem startTx_park (s : State) (r : Req) (a : Nat) (hv : s.cfg.valid = true)
    (h0 : s.standby = none) :
    ParkInv (s.startTx r a).1 ∧
    ∀ msg, (s.startTx r a).1.standby = some msg → (s.startTx r a).2 = none ∧ a < s.cfg.txDl := by
  have hb := buildTx_spec s r
  have hl := buildTx_le s r hv
  rw [startTx_eq]
  rcases hbt : buildTx s r with s' | ⟨s1, len, msg⟩ | ⟨s1, len, msg⟩ <;> rw [hbt] at hb hl <;>
    simp only [dispatch, BuiltOk, BuiltLe] at hb hl ⊢
  · have : s'.standby = none := by rcases hb.2.1 with h | h <;> simp [h, h0]
    exact ⟨parkInv_of_none _ this, by simp [this]⟩
  · obtain ⟨hs, h1, _⟩ := hb
    split
    · refine ⟨?_, ?_⟩
      · intro m hm; simp at hm; subst hm
        exact ⟨Or.inl rfl, by show msg.data.length ≤ s1.cfg.txDl; rw [hs.cfg]; exact hl.2⟩
      · intro m _; exact ⟨rfl, by omega⟩
    · exact ⟨parkInv_stopSending _ _, by simp⟩
  · obtain ⟨hs, h1, _⟩ := hb
    split
    · have : (({ s1 with txState := .waitFc } : State).startRxFcTimer).standby = none := by
        simp [startRxFcTimer, h1, h0]
      exact ⟨parkInv_of_none _ this, by simp [this]⟩
    · refine ⟨?_, ?_⟩
      · intro m hm; simp at hm; subst hm
        exact ⟨Or.inr rfl, by show msg.data.length ≤ s1.cfg.txDl; rw [hs.cfg]; exact hl.2⟩
      · intro m _; exact ⟨rfl, by omega⟩

theorem readTxQueue_park (s : State) (a : Nat) (q : List Req) (hv : s.cfg.valid = true)
    (h0 : s.standby = none) :
    ParkInv (s.readTxQueue a q).1 ∧
    ∀ msg, (s.readTxQueue a q).1.standby = some msg → (s.readTxQueue a q).2 = none ∧ a < s.cfg.txDl := by
  fun_induction readTxQueue s a q with
  | case1 s => exact ⟨parkInv_of_none _ h0, by simp [h0]⟩
  | case2 s r rest s' hd ih => exact ih hv h0
  | case3 s r rest s' hd => exact startTx_park s' r a hv h0

/-- what the state-machine part of `processTx` does to a parked frame -/
structure FsmPark (a : Nat) (q : State) (x : State × Option CanMsg × Bool) : Prop where
  same : Same q x.1
  park : ParkInv x.1
  held : ∀ msg, x.1.standby = some msg → x.2.1 = none ∧ a < q.cfg.txDl

theorem txFsm_standby_park (a : Nat) (q : State) (hp : ParkInv q) :
    FsmPark a q
      (match q.standby with
      | some msg =>
        if msg.data.length ≤ a then
          let s := { q with standby := none }
          if s.txState = .ffStandby then
            (({ s.startRxFcTimer with txState := .waitFc }), some msg, false)
          else (s.stopSending true, some msg, false)
        else (q, none, false)
      | none => (q, none, false)) := by
  rcases hmsg : q.standby with _ | msg
  · exact ⟨same_refl q, hp, by simp [hmsg]⟩
  · have hfit := (hp msg hmsg).2
    by_cases hle : msg.data.length ≤ a
    · by_cases hff : q.txState = .ffStandby
      · simp only [hle, hff, if_true]
        exact ⟨⟨rfl, rfl, rfl, rfl, rfl⟩, parkInv_of_none _ rfl, by simp [startRxFcTimer]⟩
      · simp only [hle, hff, if_true, if_false]
        exact ⟨same_trans (b := { q with standby := none }) ⟨rfl, rfl, rfl, rfl, rfl⟩ (same_stopSending _ _),
          parkInv_stopSending _ _, by simp⟩
    · simp only [hle, if_false]
      refine ⟨same_refl q, hp, ?_⟩
      intro m hm
      rw [hmsg] at hm; injection hm with hm; subst hm
      exact ⟨rfl, by omega⟩

theorem txFsm_park (a : Nat) (q : State) (hv : q.cfg.valid = true) (hp : ParkInv q) :
    FsmPark a q (txFsm a q) := by
  unfold txFsm
  split
  · rename_i hst
    have h0 : q.standby = none := hp.none_of_noStandby (by simp [NoStandbySt, hst])
    obtain ⟨i1, i2⟩ := readTxQueue_park q a q.txQueue hv h0
    exact ⟨(readTxQueue_spec q a q.txQueue).1, i1, i2⟩
  · rename_i hst
    exact txFsm_standby_park a q hp
  · rename_i hst
    exact txFsm_standby_park a q hp
  · rename_i hst
    have h0 : q.standby = none := hp.none_of_noStandby (by simp [NoStandbySt, hst])
    exact ⟨same_refl q, hp, by simp [h0]⟩
  · rename_i hst
    have h0 : q.standby = none := hp.none_of_noStandby (by simp [NoStandbySt, hst])
    obtain ⟨i1, i2, _, _⟩ := transmitCf_spec q a
    have : (q.transmitCf a).1.standby = none := by rcases i2 with h | h <;> simp [h, h0]
    exact ⟨i1, parkInv_of_none _ this, by simp [this]⟩

theorem txFsm_standby_same (a : Nat) (q : State) :
    Same q
      ((match q.standby with
      | some msg =>
        if msg.data.length ≤ a then
          let s := { q with standby := none }
          if s.txState = .ffStandby then
            (({ s.startRxFcTimer with txState := .waitFc }), some msg, false)
          else (s.stopSending true, some msg, false)
        else (q, none, false)
      | none => (q, none, false)) : State × Option CanMsg × Bool).1 := by
  rcases hmsg : q.standby with _ | msg
  · exact same_refl q
  · by_cases hle : msg.data.length ≤ a
    · by_cases hff : q.txState = .ffStandby
      · simp only [hle, hff, if_true]
        exact ⟨rfl, rfl, rfl, rfl, rfl⟩
      · simp only [hle, hff, if_true, if_false]
        exact same_trans (b := { q with standby := none }) ⟨rfl, rfl, rfl, rfl, rfl⟩ (same_stopSending _ _)
    · simp only [hle, if_false]
      exact same_refl q

/-- the state-machine part never touches limiter, clock, configuration (no invariant needed) -/
theorem txFsm_same (a : Nat) (q : State) : Same q (txFsm a q).1 := by
  unfold txFsm
  split
  · exact (readTxQueue_spec q a q.txQueue).1
  · exact txFsm_standby_same a q
  · exact txFsm_standby_same a q
  · exact same_refl q
  · exact (transmitCf_spec q a).1

/-- the limiter does not allow a full frame of `tx_data_length` bytes -/
def Blocked (s : State) : Prop := s.rl.allowedBytes s.cfg.rlBitMax < s.cfg.txDl

/-- one `processTx` pass as seen by the window / parking invariants (no `StandbyOk` needed) -/
structure StepSpec (p : State) (r : State × Option CanMsg × Bool) : Prop where
  now : r.1.now = p.now
  cfg : r.1.cfg = p.cfg
  rl : r.1.rl = p.rl ∨ ∃ n, r.1.rl = p.rl.inform p.now n
  txlog : txEvents r.1.log = txEvents p.log
  park : p.cfg.valid = true → ParkInv p → ParkInv r.1
  /-- a frame is still parked after the pass (and nothing was raised): either the pass was spent
      on a pending Flow Control (`immediate_rx_required`, the loop comes back), or the limiter
      does not allow a full frame -/
  blocked : p.cfg.valid = true → ParkInv p → r.1.exc = none → ∀ msg, r.1.standby = some msg →
    r.2.2 = true ∨ Blocked r.1

theorem StepSpec.of_keep {p s' : State} (h : Keep p s') (hpk : ParkInv p → ParkInv s')
    (hb : s'.exc.isSome = true ∨ s'.standby = none) : StepSpec p (s', none, false) := by
  refine ⟨h.same.now, h.same.cfg, Or.inl h.same.rl, h.same.txlog, fun _ => hpk, ?_⟩
  intro _ _ hexc m hm
  rcases hb with hb | hb
  · rw [hexc] at hb; simp at hb
  · rw [hb] at hm; cases hm

theorem processTx_step (s : State) : StepSpec s s.processTx := by
  rw [processTx_eq]
  have hk1 := keep_txPend s
  have hp1 := parkInv_txPend s
  have hr1 := txPend_raises s
  rcases hp : txPend s with ⟨s1, _ | _ | msg⟩ <;> rw [hp] at hk1 hp1 hr1 <;> simp only [] at hk1 hp1 hr1 ⊢
  · have hk2 := keep_txFcIn s1
    have hp2 := parkInv_txFcIn s1
    have hs2 := txFcIn_stop s1
    rcases hf : txFcIn s1 with ⟨s2, _ | _⟩ <;> rw [hf] at hk2 hp2 hs2 <;> simp only [] at hk2 hp2 hs2 ⊢
    · have hk3 := keep_trans (keep_trans hk1 hk2) (keep_txGuard s2)
      have hp3 : ParkInv s → ParkInv (txGuard s2) := fun h => parkInv_txGuard _ (hp2 (hp1 h))
      split
      · exact StepSpec.of_keep (keep_trans hk3 (keep_raise _ _))
          (fun h => parkInv_congr (s := txGuard s2) rfl rfl rfl (hp3 h)) (Or.inl rfl)
      · have hk4 := keep_trans hk3 (keep_txDone (txGuard s2))
        have hp4 : ParkInv s → ParkInv (txDone (txGuard s2)) := fun h => parkInv_txDone _ (hp3 h)
        obtain ⟨a1, a2, a3, a4, a5, a7, a6⟩ :=
          txAccount_spec (txFsm (s.rl.allowedBytes s.cfg.rlBitMax) (txDone (txGuard s2)))
        have hsame := same_trans hk4.same (txFsm_same (s.rl.allowedBytes s.cfg.rlBitMax) (txDone (txGuard s2)))
        refine ⟨a1.trans hsame.now, a2.trans hsame.cfg, ?_, (by rw [a7]; exact hsame.txlog), ?_, ?_⟩
        · rcases a6 with ⟨_, h2⟩ | ⟨msg, _, _, h3, _⟩
          · exact Or.inl (h2.trans hsame.rl)
          · exact Or.inr ⟨msg.data.length, by rw [h3, hsame.rl, hsame.now]⟩
        · intro hv hpk
          have hf := txFsm_park (s.rl.allowedBytes s.cfg.rlBitMax) (txDone (txGuard s2))
            (by rw [hk4.same.cfg]; exact hv) (hp4 hpk)
          exact parkInv_congr a4 a5 a2 hf.park
        · intro hv hpk _ m hm
          have hf := txFsm_park (s.rl.allowedBytes s.cfg.rlBitMax) (txDone (txGuard s2))
            (by rw [hk4.same.cfg]; exact hv) (hp4 hpk)
          obtain ⟨ho, hlt⟩ := hf.held m (a4 ▸ hm)
          right
          rcases a6 with ⟨_, h2⟩ | ⟨msg, h1, _⟩
          · unfold Blocked
            rw [h2, hsame.rl, a2, hsame.cfg]
            rw [hk4.same.cfg] at hlt
            exact hlt
          · rw [ho] at h1; cases h1
    · exact StepSpec.of_keep (keep_trans hk1 hk2) (fun h => hp2 (hp1 h)) (Or.inr (hs2 trivial))
  · exact StepSpec.of_keep hk1 hp1 (Or.inl (hr1 trivial))
  · refine ⟨hk1.same.now, hk1.same.cfg, Or.inl hk1.same.rl, hk1.same.txlog, fun _ => hp1, ?_⟩
    intro _ _ _ m _
    exact Or.inl rfl

/-! ## Part C — `txLoop`, `processLoop` -/

/-- `s2` is `s1`, possibly with one more log entry -/
structure Obs (s1 s2 : State) : Prop where
  now : s2.now = s1.now
  cfg : s2.cfg = s1.cfg
  rl : s2.rl = s1.rl
  standby : s2.standby = s1.standby
  txState : s2.txState = s1.txState
  exc : s2.exc = s1.exc

theorem obs_refl (s : State) : Obs s s := ⟨rfl, rfl, rfl, rfl, rfl, rfl⟩
theorem obs_emit (s : State) (e : Ev) : Obs s (s.emit e) := ⟨rfl, rfl, rfl, rfl, rfl, rfl⟩

/-- one inner tx loop (`R`, run_process requested, out of fuel) as seen by the invariants -/
structure TxLoopPass (s R : State) (run oof : Bool) : Prop where
  now : R.now = s.now
  cfg : R.cfg = s.cfg
  lim : LimInv s.rl → LimInv R.rl
  fresh : Fresh s.cfg.rlWindowNs s.now s.rl → Fresh s.cfg.rlWindowNs s.now R.rl
  park : s.cfg.valid = true → ParkInv s → ParkInv R
  blocked : s.cfg.valid = true → ParkInv s → oof = false → R.exc = none →
    ∀ msg, R.standby = some msg → run = true ∨ Blocked R

theorem StepSpec.lim {p : State} {r : State × Option CanMsg × Bool} (h : StepSpec p r)
    (hl : LimInv p.rl) : LimInv r.1.rl := by
  rcases h.rl with e | ⟨n, e⟩ <;> rw [e]
  · exact hl
  · exact limInv_inform _ _ _ hl

theorem StepSpec.fresh {p : State} {r : State × Option CanMsg × Bool} (h : StepSpec p r) {w : Nat}
    (hf : Fresh w p.now p.rl) : Fresh w p.now r.1.rl := by
  rcases h.rl with e | ⟨n, e⟩ <;> rw [e]
  · exact hf
  · exact fresh_inform _ _ _ _ hf

/-- the tx loop stops after this `processTx` pass -/
theorem TxLoopPass.last {s s1 s2 : State} {out : Option CanMsg} {imm run : Bool}
    (h : StepSpec s (s1, out, imm)) (ho : Obs s1 s2)
    (hrun : s1.exc.isSome = true ∨ run = true ∨ imm = false) : TxLoopPass s s2 run false := by
  refine ⟨ho.now.trans h.now, ho.cfg.trans h.cfg, fun hl => ho.rl ▸ h.lim hl, fun hf => ho.rl ▸ h.fresh hf,
    fun hv hp => parkInv_congr ho.standby ho.txState ho.cfg (h.park hv hp), ?_⟩
  intro hv hp _ hexc m hm
  rw [ho.exc] at hexc
  rw [ho.standby] at hm
  rcases hrun with hr | hr | hr
  · rw [hexc] at hr; simp at hr
  · exact Or.inl hr
  · rcases h.blocked hv hp hexc m hm with hb | hb
    · simp only [] at hb; rw [hr] at hb; cases hb
    · right; unfold Blocked at hb ⊢; rw [ho.rl, ho.cfg]; exact hb

/-- the tx loop goes on after this `processTx` pass -/
theorem TxLoopPass.step {s s1 s2 R : State} {out : Option CanMsg} {imm run oof : Bool}
    (h : StepSpec s (s1, out, imm)) (ho : Obs s1 s2) (ih : TxLoopPass s2 R run oof) :
    TxLoopPass s R run oof := by
  have hnow : s2.now = s.now := ho.now.trans h.now
  have hcfg : s2.cfg = s.cfg := ho.cfg.trans h.cfg
  refine ⟨ih.now.trans hnow, ih.cfg.trans hcfg, fun hl => ih.lim (ho.rl ▸ h.lim hl), ?_, ?_, ?_⟩
  · intro hf
    have := ih.fresh (by rw [hnow, hcfg, ho.rl]; exact h.fresh hf)
    rw [hnow, hcfg] at this; exact this
  · intro hv hp
    exact ih.park (by rw [hcfg]; exact hv) (parkInv_congr ho.standby ho.txState ho.cfg (h.park hv hp))
  · intro hv hp
    exact ih.blocked (by rw [hcfg]; exact hv) (parkInv_congr ho.standby ho.txState ho.cfg (h.park hv hp))

theorem txLoop_pass (f : Nat) (s : State) (n : Nat) :
    TxLoopPass s (txLoop f s n).1 (txLoop f s n).2.2.1 (txLoop f s n).2.2.2 := by
  fun_induction txLoop f s n with
  | case1 s n =>
    exact ⟨rfl, rfl, fun h => h, fun h => h, fun _ h => h, by intro _ _ h; cases h⟩
  | case2 f s n s1 out imm hx he =>
    have h := processTx_step s; rw [hx] at h
    exact TxLoopPass.last h (obs_refl s1) (Or.inl he)
  | case3 f s n s1 out he s2 n2 hm hx =>
    have h := processTx_step s; rw [hx] at h
    have ho : Obs s1 s2 := by
      cases out with
      | none => simp at hm; rw [← hm.1]; exact obs_refl _
      | some m => simp at hm; rw [← hm.1]; exact obs_emit _ _
    exact TxLoopPass.last h ho (Or.inr (Or.inl rfl))
  | case4 f s n s1 out imm hx he s2 n2 hm h2 h3 ih =>
    have h := processTx_step s; rw [hx] at h
    have ho : Obs s1 s2 := by
      cases out with
      | none => simp at hm; rw [← hm.1]; exact obs_refl _
      | some m => simp at hm; rw [← hm.1]; exact obs_emit _ _
    exact TxLoopPass.step h ho ih
  | case5 f s n s1 out imm hx he s2 n2 hm h2 h3 =>
    have h := processTx_step s; rw [hx] at h
    have ho : Obs s1 s2 := by
      cases out with
      | none => simp at hm; rw [← hm.1]; exact obs_refl _
      | some m => simp at hm; rw [← hm.1]; exact obs_emit _ _
    exact TxLoopPass.last h ho (Or.inr (Or.inr (by simpa using h2)))

/-- one iteration of `processLoop`: rx loop (optional), `update`, tx loop (optional) -/
structure IterSpec (doTx : Bool) (s s' : State) (run oof : Bool) : Prop where
  cfg : s'.cfg = s.cfg
  lim : LimInv s.rl → LimInv s'.rl
  /-- whatever the flags are, the window has been slid to the iteration's final instant -/
  fresh : LimInv s.rl → Fresh s'.cfg.rlWindowNs s'.now s'.rl
  park : s.cfg.valid = true → ParkInv s → ParkInv s'
  blocked : doTx = true → s.cfg.valid = true → ParkInv s → oof = false → s'.exc = none →
    ∀ msg, s'.standby = some msg → run = true ∨ Blocked s'

theorem iterSpec_of {doTx : Bool} {s s2 s' : State} {run oof : Bool} (h1 : RxKeep s s2)
    (h2 : (doTx = true →
            TxLoopPass { s2 with rl := s2.rl.update s2.cfg.rlWindowNs s2.now } s' run oof) ∧
          (doTx = false → s' = { s2 with rl := s2.rl.update s2.cfg.rlWindowNs s2.now })) :
    IterSpec doTx s s' run oof := by
  have hl1 : LimInv s.rl → LimInv (s2.rl.update s2.cfg.rlWindowNs s2.now) := fun hl =>
    limInv_update _ _ _ (h1.rl ▸ hl)
  have hf1 : LimInv s.rl → Fresh s2.cfg.rlWindowNs s2.now (s2.rl.update s2.cfg.rlWindowNs s2.now) := fun hl =>
    fresh_update _ _ _ (h1.rl ▸ hl)
  have hp1 : ParkInv s → ParkInv { s2 with rl := s2.rl.update s2.cfg.rlWindowNs s2.now } := fun hp =>
    parkInv_congr (s := s) h1.standby h1.txState h1.cfg hp
  cases doTx with
  | false =>
    have e := h2.2 rfl
    subst e
    exact ⟨h1.cfg, hl1, hf1, fun _ => hp1, by intro h; cases h⟩
  | true =>
    have t := h2.1 rfl
    have hcfg : s'.cfg = s2.cfg := t.cfg
    have hnow : s'.now = s2.now := t.now
    refine ⟨hcfg.trans h1.cfg, fun hl => t.lim (hl1 hl), ?_, ?_, ?_⟩
    · intro hl
      rw [hcfg, hnow]
      exact t.fresh (hf1 hl)
    · intro hv hp
      exact t.park (by show s2.cfg.valid = true; rw [h1.cfg]; exact hv) (hp1 hp)
    · intro _ hv hp
      exact t.blocked (by show s2.cfg.valid = true; rw [h1.cfg]; exact hv) (hp1 hp)

/-- a whole `processLoop` (`R`, out of fuel) as seen by the invariants -/
structure LoopPass (doTx : Bool) (s R : State) (oof : Bool) : Prop where
  cfg : R.cfg = s.cfg
  lim : LimInv s.rl → LimInv R.rl
  park : s.cfg.valid = true → ParkInv s → ParkInv R
  blocked : doTx = true → s.cfg.valid = true → ParkInv s → oof = false → R.exc = none →
    ∀ msg, R.standby = some msg → Blocked R

theorem IterSpec.loopPass {doTx : Bool} {s s' : State} {run oof : Bool} (h : IterSpec doTx s s' run oof)
    (oof' : Bool) (hfin : s'.exc.isSome = true ∨ oof' = true ∨ (oof = false ∧ run = false)) :
    LoopPass doTx s s' oof' := by
  refine ⟨h.cfg, h.lim, h.park, ?_⟩
  intro hd hv hp ho hexc m hm
  rcases hfin with hf | hf | ⟨hf1, hf2⟩
  · rw [hexc] at hf; simp at hf
  · rw [ho] at hf; cases hf
  · rcases h.blocked hd hv hp hf1 hexc m hm with hb | hb
    · rw [hf2] at hb; cases hb
    · exact hb

theorem IterSpec.then {doTx : Bool} {s s' R : State} {run oof oof' : Bool} (h : IterSpec doTx s s' run oof)
    (ih : LoopPass doTx s' R oof') : LoopPass doTx s R oof' := by
  refine ⟨ih.cfg.trans h.cfg, fun hl => ih.lim (h.lim hl), fun hv hp => ih.park (by rw [h.cfg]; exact hv) (h.park hv hp),
    ?_⟩
  intro hd hv hp
  exact ih.blocked hd (by rw [h.cfg]; exact hv) (h.park hv hp)

/-- **every** `processLoop` call keeps the bookkeeping invariants; if at least one iteration runs
    (or the slots were fresh to begin with) every slot accounted at the end lies inside the window
    ending at the final instant; and a frame still parked at the end of a transmitting call that
    neither raised nor ran out of fuel means the limiter does not allow a full frame -/
theorem processLoop_pass (f : Nat) (doRx doTx : Bool) (s : State) (st : Stats) :
    LoopPass doTx s (processLoop f doRx doTx s st).1 (processLoop f doRx doTx s st).2.2 ∧
    (LimInv s.rl → (f = 0 → Fresh s.cfg.rlWindowNs s.now s.rl) →
      Fresh (processLoop f doRx doTx s st).1.cfg.rlWindowNs (processLoop f doRx doTx s st).1.now
        (processLoop f doRx doTx s st).1.rl) := by
  have key1 : ∀ (dT c : Bool) (s0 s2 : State) (st st1 : Stats) (rr : Bool),
      (if c = true then rxLoop dT s0 st s0.inbox else (s0, st, false)) = (s2, st1, rr) → RxKeep s0 s2 := by
    intro dT c s0 s2 st st1 rr he
    cases c with
    | true =>
      have := rxKeep_rxLoop dT s0 st s0.inbox
      simp only [if_true] at he
      rw [he] at this; exact this
    | false =>
      simp at he
      rw [← he.1]; exact rxKeep_refl _
  have key2 : ∀ (d : Bool) (s1 s' : State) (st1 st' : Stats) (run oof : Bool),
      (if d = true then
        match txLoop s1.txFuel s1 st1.sent with
        | (s, n, run, oof) => (s, { st1 with sent := n }, run, oof)
       else (s1, st1, false, false)) = (s', st', run, oof) →
      (d = true → TxLoopPass s1 s' run oof) ∧ (d = false → s' = s1) := by
    intro d s1 s' st1 st' run oof he
    cases d with
    | true =>
      have := txLoop_pass s1.txFuel s1 st1.sent
      simp only [if_true] at he
      generalize txLoop s1.txFuel s1 st1.sent = r at this he
      obtain ⟨a, b, c, d⟩ := r
      simp at he
      obtain ⟨rfl, _, rfl, rfl⟩ := he
      exact ⟨fun _ => this, by intro h; cases h⟩
    | false =>
      simp at he
      exact ⟨(by intro h; cases h), fun _ => he.1.symm⟩
  fun_induction processLoop f doRx doTx s st with
  | case1 doRx doTx s st =>
    exact ⟨⟨rfl, fun h => h, fun _ h => h, by intro _ _ _ h; cases h⟩, fun _ h => h rfl⟩
  | case2 f doRx doTx s st sw s2 st1 rr hx1 s1 s' st' run oof hx2 he =>
    have hi := iterSpec_of (key1 _ _ _ _ _ _ _ hx1) (key2 _ _ _ _ _ _ _ hx2)
    exact ⟨hi.loopPass _ (Or.inl he), fun hl _ => hi.fresh hl⟩
  | case3 f doRx doTx s st sw s2 st1 rr hx1 s1 s' st' run he hx2 =>
    have hi := iterSpec_of (key1 _ _ _ _ _ _ _ hx1) (key2 _ _ _ _ _ _ _ hx2)
    exact ⟨hi.loopPass _ (Or.inr (Or.inl rfl)), fun hl _ => hi.fresh hl⟩
  | case4 f doRx doTx s st sw s2 st1 rr hx1 s1 s' st' run oof hx2 he ho hc ih =>
    have hi := iterSpec_of (key1 _ _ _ _ _ _ _ hx1) (key2 _ _ _ _ _ _ _ hx2)
    exact ⟨hi.then ih.1, fun hl _ => ih.2 (hi.lim hl) (fun _ => hi.fresh hl)⟩
  | case5 f doRx doTx s st sw s2 st1 rr hx1 s1 s' st' run oof hx2 he ho hc =>
    have hi := iterSpec_of (key1 _ _ _ _ _ _ _ hx1) (key2 _ _ _ _ _ _ _ hx2)
    have hrun : run = false := by
      cases run with
      | false => rfl
      | true => simp at hc
    have hoof : oof = false := by simpa using ho
    exact ⟨hi.loopPass _ (Or.inr (Or.inr ⟨hoof, hrun⟩)), fun hl _ => hi.fresh hl⟩

theorem processFuel_ne_zero (s : State) : s.processFuel ≠ 0 := by
  unfold processFuel; omega

/-- `process(do_rx, do_tx)` as seen by the invariants -/
theorem process_pass (s : State) (doRx doTx : Bool) :
    LoopPass doTx s (s.process doRx doTx).1 (s.process doRx doTx).2.2 ∧
    (LimInv s.rl → Fresh (s.process doRx doTx).1.cfg.rlWindowNs (s.process doRx doTx).1.now
      (s.process doRx doTx).1.rl) := by
  have h := processLoop_pass s.processFuel doRx doTx s {}
  exact ⟨h.1, fun hl => h.2 hl (fun h0 => absurd h0 (processFuel_ne_zero s))⟩

/-- `ParkInv` holds in every state of a reset-free session of a validly configured layer -/
theorem parkInv_session {c : Cfg} {ad : Addr} {s : State} {F : List (Nat × CanMsg × Bool)}
    (h : Session c ad s F) (hv : c.valid = true) : ParkInv s := by
  induction h with
  | init => exact parkInv_init c ad
  | @send s0 _ a _ ih => have k := rxKeep_send s0 a; exact parkInv_congr k.standby k.txState k.cfg ih
  | @recv s0 _ _ ih => have k := rxKeep_recv s0; exact parkInv_congr k.standby k.txState k.cfg ih
  | @advance s0 _ dt _ ih => have k := rxKeep_advance s0 dt; exact parkInv_congr k.standby k.txState k.cfg ih
  | @push s0 _ dt m _ ih => have k := rxKeep_pushFrame s0 dt m; exact parkInv_congr k.standby k.txState k.cfg ih
  | @process s0 _ doRx doTx hs ih =>
    have hc := (session_loopSpec hs).cfg
    exact (process_pass _ doRx doTx).1.park (by rw [hc]; exact hv) ih

/-! ## Part D — a transmitting pass releases the parked frame once the window is free -/

/-- (time, frame) is handed to `txfn` ⇔ the `Ev.tx` event is in the log -/
theorem mem_txEvents (l : List Ev) (t : Nat) (m : CanMsg) : (t, m) ∈ txEvents l ↔ Ev.tx t m ∈ l := by
  induction l with
  | nil => simp [txEvents]
  | cons e l ih => cases e <;> simp [txEvents, ih]

/-- the frames handed to `txfn` so far extend `K` (newest first) -/
def TxLogExt (K : List (Nat × CanMsg)) (s : State) : Prop := ∃ later, txEvents s.log = later ++ K

theorem txLogExt_loopStable (K : List (Nat × CanMsg)) : Fc.LoopStable (TxLogExt K) where
  clock := fun _ _ _ h => h
  emit := by
    rintro s e ⟨later, h⟩
    cases e
    case tx t m => exact ⟨(t, m) :: later, by simp [emit, txEvents, h]⟩
    all_goals exact ⟨later, by simpa [emit, txEvents] using h⟩
  chk := fun s ⟨later, h⟩ => ⟨later, by rw [(rxKeep_checkTimeoutsRx s).txlog]; exact h⟩
  rx := fun s m ⟨later, h⟩ => ⟨later, by rw [(rxKeep_processRx s m).txlog]; exact h⟩
  tx := fun s ⟨later, h⟩ => ⟨later, by rw [(processTx_step s).txlog]; exact h⟩
  rl := fun _ _ h => h

/-- everything the releasing `processTx` pass looks at before it reaches the standby branch -/
structure Ready (s : State) (msg : CanMsg) : Prop where
  st : s.txState = .sfStandby ∨ s.txState = .ffStandby
  sb : s.standby = some msg
  fits : msg.data.length ≤ s.cfg.txDl
  pf : s.pendingFc = false
  fc : s.lastFc = none
  to : s.timerFc.timedOut s.now = false
  act : s.active.isSome = true
  exc : s.exc = none

/-- the releasing pass: the parked frame is output, nothing is raised, the loop goes on -/
theorem release_step (s : State) (msg : CanMsg)
    (hst : s.txState = .sfStandby ∨ s.txState = .ffStandby) (hsb : s.standby = some msg)
    (hfit : msg.data.length ≤ s.rl.allowedBytes s.cfg.rlBitMax)
    (hpf : s.pendingFc = false) (hfc : s.lastFc = none) (hto : s.timerFc.timedOut s.now = false)
    (hact : s.active.isSome = true) (hexc : s.exc = none) :
    s.processTx.2.1 = some msg ∧ s.processTx.2.2 = false ∧ s.processTx.1.exc = none ∧
    s.processTx.1.standby = none := by
  have e0 : ({ s with lastFc := none } : State) = s := by
    cases s; simp_all
  have e1 : txPend s = (s, none) := by simp [txPend, hpf]
  have e2 : txFcIn s = (s, false) := by simp [txFcIn, hfc, e0]
  have e3 : txGuard s = s := by simp [txGuard, hto]
  have e4 : txDone s = s := by simp [txDone, hsb]
  have hact' : s.active.isNone = false := by
    cases h : s.active <;> simp_all
  rw [processTx_eq, e1]
  simp only [e2, e3, e4, hact', Bool.and_false, Bool.false_eq_true, if_false]
  rcases hst with h | h
  · simp [txFsm, txAccount, h, hsb, hfit, hexc]
  · simp [txFsm, txAccount, h, hsb, hfit, hexc, startRxFcTimer]

/-- once every slot is older than the window, `update` makes room for a full frame (limiter
    enabled or not) -/
theorem full_frame_allowed (l : Limiter) (c : Cfg) (now : Nat) (hinv : LimInv l) (hv : c.valid = true)
    (h : ∀ e ∈ l.slots, now - e.1 > c.rlWindowNs) :
    c.txDl ≤ (l.update c.rlWindowNs now).allowedBytes c.rlBitMax := by
  cases hen : l.enabled with
  | true => exact allowed_after_expiry l c now hen hinv hv h
  | false =>
    rw [allowedBytes_disabled _ _ (by simp [hen])]
    have := (valid_txDl c hv).2.1
    omega

/-- the tx loop of a pass that starts with a releasable parked frame: the first thing handed to
    `txfn` is that frame, at the current instant -/
theorem txLoop_release (f : Nat) (s : State) (n : Nat) (msg : CanMsg) (hf : 0 < f) (hr : Ready s msg)
    (hall : s.cfg.txDl ≤ s.rl.allowedBytes s.cfg.rlBitMax) :
    TxLogExt ((s.now, msg) :: txEvents s.log) (txLoop f s n).1 := by
  cases f with
  | zero => omega
  | succ f =>
    obtain ⟨h1, h2, h3, _⟩ := release_step s msg hr.st hr.sb (Nat.le_trans hr.fits hall) hr.pf hr.fc hr.to
      hr.act hr.exc
    have hs := processTx_step s
    rcases hpt : s.processTx with ⟨s', out, imm⟩
    rw [hpt] at h1 h2 h3 hs
    simp only [] at h1 h2 h3
    subst h1 h2
    have hexc : s'.exc.isSome = false := by rw [h3]; rfl
    simp only [txLoop, hpt, hexc, Bool.false_eq_true, if_false, Option.isSome_some, if_true]
    apply Fc.txLoop_stable (txLogExt_loopStable _)
    refine ⟨[], ?_⟩
    have e1 : s'.now = s.now := hs.now
    have e2 : txEvents s'.log = txEvents s.log := hs.txlog
    simp [emit, txEvents, e1, e2]

/-- what the rx phase of the pass leaves of the hypotheses -/
structure RxReady (s s2 : State) (msg : CanMsg) : Prop where
  ready : Ready s2 msg
  now : s2.now = s.now
  cfg : s2.cfg = s.cfg
  rl : s2.rl = s.rl
  txlog : txEvents s2.log = txEvents s.log

/-- an rx loop that finds the bus empty (`rxfn` returns `None`) does not disturb the release -/
theorem rxReady_nil (s : State) (st : Stats) (msg : CanMsg) (hr : Ready s msg) :
    RxReady s (rxLoop true s st []).1 msg := by
  have hk := rxKeep_checkTimeoutsRx (({ s with inbox := [] } : State).emit (.rxNone s.now))
  show RxReady s ((({ s with inbox := [] } : State).emit (.rxNone s.now)).checkTimeoutsRx) msg
  refine ⟨?_, ?_, hk.cfg, hk.rl, hk.txlog⟩
  · unfold checkTimeoutsRx
    split
    · exact ⟨hr.st, hr.sb, hr.fits, rfl, rfl, hr.to, hr.act, hr.exc⟩
    · exact ⟨hr.st, hr.sb, hr.fits, hr.pf, hr.fc, hr.to, hr.act, hr.exc⟩
  · unfold checkTimeoutsRx
    split <;> rfl

/-- `update` + tx loop of the releasing iteration -/
theorem iter_release (s s2 : State) (n : Nat) (msg : CanMsg) (h2 : RxReady s s2 msg)
    (hv : s.cfg.valid = true) (hinv : LimInv s.rl)
    (hexp : ∀ e ∈ s.rl.slots, s.now - e.1 > s.cfg.rlWindowNs) :
    TxLogExt ((s.now, msg) :: txEvents s.log)
      (txLoop ({ s2 with rl := s2.rl.update s2.cfg.rlWindowNs s2.now } : State).txFuel
        { s2 with rl := s2.rl.update s2.cfg.rlWindowNs s2.now } n).1 := by
  have hr := h2.ready
  have hall : s2.cfg.txDl ≤ (s2.rl.update s2.cfg.rlWindowNs s2.now).allowedBytes s2.cfg.rlBitMax := by
    rw [h2.rl, h2.cfg, h2.now]
    exact full_frame_allowed s.rl s.cfg s.now hinv hv hexp
  have hr1 : Ready ({ s2 with rl := s2.rl.update s2.cfg.rlWindowNs s2.now } : State) msg :=
    ⟨hr.st, hr.sb, hr.fits, hr.pf, hr.fc, hr.to, hr.act, hr.exc⟩
  have hfuel : 0 < ({ s2 with rl := s2.rl.update s2.cfg.rlWindowNs s2.now } : State).txFuel := by
    unfold txFuel; omega
  obtain ⟨later, hl⟩ := txLoop_release _ _ n msg hfuel hr1 hall
  refine ⟨later, ?_⟩
  rw [hl]
  show later ++ (s2.now, msg) :: txEvents s2.log = _
  rw [h2.now, h2.txlog]

/-- a transmitting `processLoop` whose rx part (if any) finds the bus empty, started with a
    releasable parked frame and a free window: the first frame handed to `txfn` is the parked one -/
theorem processLoop_release (f : Nat) (doRx : Bool) (s : State) (st : Stats) (msg : CanMsg)
    (hrx : doRx = true → s.inbox = []) (hr : Ready s msg) (hv : s.cfg.valid = true)
    (hinv : LimInv s.rl) (hexp : ∀ e ∈ s.rl.slots, s.now - e.1 > s.cfg.rlWindowNs) :
    TxLogExt ((s.now, msg) :: txEvents s.log) (processLoop (f + 1) doRx true s st).1 := by
  rw [processLoop_succ]
  have hsw : (true && !s.txQueue.isEmpty && decide (s.rxState = .idle) && decide (s.txState = .idle)) = false := by
    rcases hr.st with h | h <;> simp [h]
  simp only [hsw, Bool.not_false, Bool.and_true, Bool.false_or, if_true]
  have h1 : RxReady s (if doRx = true then s.rxLoop true st s.inbox else (s, st, false)).1 msg := by
    cases doRx with
    | true => rw [hrx rfl]; exact rxReady_nil s st msg hr
    | false => exact ⟨hr, rfl, rfl, rfl, rfl⟩
  generalize (if doRx = true then s.rxLoop true st s.inbox else (s, st, false)) = r1 at h1 ⊢
  obtain ⟨s2, st1, rr⟩ := r1
  simp only [] at h1 ⊢
  have base := iter_release s s2 st1.sent msg h1 hv hinv hexp
  split
  · exact base
  · split
    · exact base
    · split
      · exact Fc.processLoop_stable (txLogExt_loopStable _) _ _ _ _ _ base
      · exact base

/-- `Ready` from the transmit-side invariants of reachable states (`Fc.TxWf`, `ParkInv`): what is
    left as a genuine hypothesis is that no Flow Control (to send or received) is pending -/
theorem ready_of_inv (s : State) (msg : CanMsg) (hw : Fc.TxWf s) (hp : ParkInv s)
    (hsb : s.standby = some msg) (hpf : s.pendingFc = false) (hfc : s.lastFc = none) (hexc : s.exc = none) :
    Ready s msg := by
  obtain ⟨hst, hfit⟩ := hp msg hsb
  obtain ⟨_, w2, _, _, w5, _⟩ := hw
  have hne : s.txState ≠ .waitFc ∧ s.txState ≠ .idle := by rcases hst with h | h <;> simp [h]
  refine ⟨hst, hsb, hfit, hpf, hfc, ?_, w5 hne.2, hexc⟩
  simp [Timer.timedOut, w2 hne.1]

/-- a limiter that does not allow a full frame is enabled and has accounted more than
    `M − 8·tx_data_length` bits -/
theorem blocked_bits (l : Limiter) (c : Cfg) (hv : c.valid = true)
    (h : l.allowedBytes c.rlBitMax < c.txDl) :
    l.enabled = true ∧ c.rlBitMax < l.bitTotal + 8 * c.txDl := by
  have hv' := valid_txDl c hv
  cases hen : l.enabled with
  | false =>
    rw [allowedBytes_disabled l _ hen] at h
    omega
  | true =>
    rw [allowedBytes_enabled l _ hen] at h
    exact ⟨rfl, by omega⟩

/-- … hence at least one slot is accounted -/
theorem blocked_slot (l : Limiter) (c : Cfg) (hv : c.valid = true) (hinv : LimInv l)
    (h : l.allowedBytes c.rlBitMax < c.txDl) : l.slots ≠ [] := by
  have hb := (blocked_bits l c hv h).2
  have hv' := valid_txDl c hv
  intro he
  have := hinv.total
  rw [he] at this
  simp at this
  omega

/-- `process(do_rx, True)` with a releasable parked frame and a free window (the rx part, if any,
    finds the bus empty): the frames handed to `txfn` by this call begin with the parked frame -/
theorem process_release (doRx : Bool) (s : State) (msg : CanMsg)
    (hrx : doRx = true → s.inbox = []) (hr : Ready s msg) (hv : s.cfg.valid = true)
    (hinv : LimInv s.rl) (hexp : ∀ e ∈ s.rl.slots, s.now - e.1 > s.cfg.rlWindowNs) :
    TxLogExt ((s.now, msg) :: txEvents s.log) (s.process doRx true).1 :=
  processLoop_release (2 * (s.inbox.length + s.txQueue.length) + 7) doRx s {} msg hrx hr hv hinv hexp

theorem TxLogExt.mem {K : List (Nat × CanMsg)} {s : State} (h : TxLogExt K s) {t : Nat} {m : CanMsg}
    (hm : (t, m) ∈ K) : Ev.tx t m ∈ s.log := by
  obtain ⟨later, hl⟩ := h
  rw [← mem_txEvents, hl]
  exact List.mem_append_right _ hm

/-- `Fc.TxWf` holds in every state of a reset-free session -/
theorem txWf_session {c : Cfg} {ad : Addr} {s : State} {F : List (Nat × CanMsg × Bool)}
    (h : Session c ad s F) : Fc.TxWf s := by
  induction h with
  | init => exact Fc.TxWf_init c ad
  | @send s0 _ a _ ih => exact Fc.TxWf_send s0 a ih
  | @recv s0 _ _ ih => unfold recv; split <;> exact ih
  | @advance s0 _ dt _ ih => exact Fc.TxWf_advance s0 dt ih
  | @push s0 _ dt m _ ih => exact ih
  | @process s0 _ doRx doTx _ ih => exact Fc.process_stable Fc.TxWf_loopStable s0 doRx doTx ih

end Isotp.C15pass
