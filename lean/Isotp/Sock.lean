import Isotp.Address
/-
  Model of isotp/tpsock: the three option structs (read-modify-write through
  getsockopt/setsockopt on a kernel option store with the Linux uapi layouts), the wrapper
  state (`bound`, `closed`) and `bind`.
-/
namespace Isotp.Sock
open Isotp

/-! ### flags and option numbers (tied to the source by `Agree.SockConsts`) -/
def fLISTEN_MODE : Nat := 0x001
def fEXTEND_ADDR : Nat := 0x002
def fTX_PADDING : Nat := 0x004
def fRX_PADDING : Nat := 0x008
def fFORCE_TXSTMIN : Nat := 0x080
def fRX_EXT_ADDR : Nat := 0x200
def optOPTS : Nat := 1
def optRECV_FC : Nat := 2
def optTX_STMIN : Nat := 3
def optLL_OPTS : Nat := 5
def solCanIsotp : Nat := 106
def effFlag : Nat := 0x80000000
def effMask : Nat := 0x1FFFFFFF
def sffMask : Nat := 0x7FF

/-- `a | f` for a single-bit flag `f = 2^k` -/
def orFlag (a f : Nat) : Nat := if a / f % 2 = 1 then a else a + f
def hasFlag (a f : Nat) : Bool := a / f % 2 = 1

/-! ### kernel side: option store with the uapi layouts -/

structure KOpts where
  flags : Nat := 0
  frameTxtime : Nat := 0
  extAddress : Nat := 0
  txpad : Nat := 0xCC
  rxpad : Nat := 0xCC
  rxExtAddress : Nat := 0
  deriving DecidableEq, Repr, Inhabited

structure KFc where
  bs : Nat := 0
  stmin : Nat := 0
  wftmax : Nat := 0
  deriving DecidableEq, Repr, Inhabited

structure KLl where
  mtu : Nat := 16
  txDl : Nat := 8
  txFlags : Nat := 0
  deriving DecidableEq, Repr, Inhabited

structure Kernel where
  opts : KOpts := {}
  fc : KFc := {}
  ll : KLl := {}
  txStmin : Nat := 0
  bound : Option (Nat × Nat) := none      -- (rx can_id, tx can_id) incl. EFF flag
  deriving DecidableEq, Repr, Inhabited

def le32 (n : Nat) : Bytes := [u8 (n % 256), u8 (n / 256 % 256), u8 (n / 65536 % 256), u8 (n / 16777216 % 256)]
def rd32 (d : Bytes) (i : Nat) : Nat := byteAt d i + byteAt d (i + 1) * 256 + byteAt d (i + 2) * 65536 + byteAt d (i + 3) * 16777216

/-- `struct can_isotp_options` (little-endian host, "=LLBBBB") -/
def layoutOpts (o : KOpts) : Bytes :=
  le32 o.flags ++ le32 o.frameTxtime ++ [u8 o.extAddress, u8 o.txpad, u8 o.rxpad, u8 o.rxExtAddress]
/-- `struct can_isotp_fc_options` ("=BBB": bs, stmin, wftmax) -/
def layoutFc (o : KFc) : Bytes := [u8 o.bs, u8 o.stmin, u8 o.wftmax]
/-- `struct can_isotp_ll_options` ("=BBB": mtu, tx_dl, tx_flags) -/
def layoutLl (o : KLl) : Bytes := [u8 o.mtu, u8 o.txDl, u8 o.txFlags]

def parseOpts (d : Bytes) : KOpts :=
  { flags := rd32 d 0, frameTxtime := rd32 d 4, extAddress := byteAt d 8, txpad := byteAt d 9,
    rxpad := byteAt d 10, rxExtAddress := byteAt d 11 }
def parseFc (d : Bytes) : KFc := { bs := byteAt d 0, stmin := byteAt d 1, wftmax := byteAt d 2 }
def parseLl (d : Bytes) : KLl := { mtu := byteAt d 0, txDl := byteAt d 1, txFlags := byteAt d 2 }

/-- the kernel's `setsockopt(SOL_CAN_ISOTP, opt, bytes)` -/
def Kernel.setsockopt (k : Kernel) (opt : Nat) (d : Bytes) : Kernel :=
  if opt = optOPTS then { k with opts := parseOpts d }
  else if opt = optRECV_FC then { k with fc := parseFc d }
  else if opt = optLL_OPTS then { k with ll := parseLl d }
  else if opt = optTX_STMIN then { k with txStmin := rd32 d 0 }
  else k

/-! ### wrapper -/

/-- one `setsockopt` / `bind` call as seen by the (fake) kernel socket -/
inductive Call where
  | setopt (level opt : Nat) (data : Bytes)
  | bind (rxid txid : Nat)
  | close
  deriving DecidableEq, Repr, Inhabited

structure Sock where
  k : Kernel := {}
  bound : Bool := false
  closed : Bool := false
  calls : List Call := []         -- newest first
  deriving Repr, Inhabited

def Sock.sso (s : Sock) (opt : Nat) (d : Bytes) : Sock :=
  { s with k := s.k.setsockopt opt d, calls := .setopt solCanIsotp opt d :: s.calls }

/-- argument check `isinstance(v, int) and 0 <= v <= hi` -/
def argOk (v : PyVal) (hi : Int) : Bool := v.isInt && 0 ≤ v.intVal && v.intVal ≤ hi

structure OptsArgs where
  optflag : PyVal := .none
  frameTxtime : PyVal := .none
  extAddress : PyVal := .none
  txpad : PyVal := .none
  rxpad : PyVal := .none
  rxExtAddress : PyVal := .none
  txStmin : PyVal := .none
  deriving Repr, Inhabited

/-- `GeneralOpts.write` (after the D6 repair: FORCE_TXSTMIN is kept when tx_stmin is None) -/
def writeOpts (s : Sock) (a : OptsArgs) : Except PyExc (Sock × KOpts) :=
  let o := parseOpts (layoutOpts s.k.opts)      -- getsockopt + unpack
  if !a.optflag.isNone && !argOk a.optflag 0xFFFFFFFF then .error .ValueError else
  let o := if a.optflag.isNone then o else { o with flags := a.optflag.intVal.toNat }
  if !a.frameTxtime.isNone && !argOk a.frameTxtime 0xFFFFFFFF then .error .ValueError else
  let o := if a.frameTxtime.isNone then o else { o with frameTxtime := a.frameTxtime.intVal.toNat }
  if !a.extAddress.isNone && !argOk a.extAddress 0xFF then .error .ValueError else
  let o := if a.extAddress.isNone then o else { o with extAddress := a.extAddress.intVal.toNat, flags := orFlag o.flags fEXTEND_ADDR }
  if !a.txpad.isNone && !argOk a.txpad 0xFF then .error .ValueError else
  let o := if a.txpad.isNone then o else { o with txpad := a.txpad.intVal.toNat, flags := orFlag o.flags fTX_PADDING }
  if !a.rxpad.isNone && !argOk a.rxpad 0xFF then .error .ValueError else
  let o := if a.rxpad.isNone then o else { o with rxpad := a.rxpad.intVal.toNat, flags := orFlag o.flags fRX_PADDING }
  if !a.rxExtAddress.isNone && !argOk a.rxExtAddress 0xFF then .error .ValueError else
  let o := if a.rxExtAddress.isNone then o else { o with rxExtAddress := a.rxExtAddress.intVal.toNat, flags := orFlag o.flags fRX_EXT_ADDR }
  if !a.txStmin.isNone && !argOk a.txStmin 0xFFFFFFFF then .error .ValueError else
  let (s, o) := if a.txStmin.isNone then (s, o)
    else (s.sso optTX_STMIN (le32 a.txStmin.intVal.toNat), { o with flags := orFlag o.flags fFORCE_TXSTMIN })
  .ok (s.sso optOPTS (layoutOpts o), o)

/-- `FlowControlOpts.write` -/
def writeFc (s : Sock) (bs stmin wftmax : PyVal) : Except PyExc (Sock × KFc) :=
  let o := parseFc (layoutFc s.k.fc)
  if !bs.isNone && !argOk bs 0xFF then .error .ValueError else
  let o := if bs.isNone then o else { o with bs := bs.intVal.toNat }
  if !stmin.isNone && !argOk stmin 0xFF then .error .ValueError else
  let o := if stmin.isNone then o else { o with stmin := stmin.intVal.toNat }
  if !wftmax.isNone && !argOk wftmax 0xFF then .error .ValueError else
  let o := if wftmax.isNone then o else { o with wftmax := wftmax.intVal.toNat }
  .ok (s.sso optRECV_FC (layoutFc o), o)

/-- `LinkLayerOpts.write` -/
def writeLl (s : Sock) (mtu txDl txFlags : PyVal) : Except PyExc (Sock × KLl) :=
  let o := parseLl (layoutLl s.k.ll)
  if !mtu.isNone && !argOk mtu 0xFF then .error .ValueError else
  let o := if mtu.isNone then o else { o with mtu := mtu.intVal.toNat }
  if !txDl.isNone && !argOk txDl 0xFF then .error .ValueError else
  let o := if txDl.isNone then o else { o with txDl := txDl.intVal.toNat }
  if !txFlags.isNone && !argOk txFlags 0xFF then .error .ValueError else
  let o := if txFlags.isNone then o else { o with txFlags := txFlags.intVal.toNat }
  .ok (s.sso optLL_OPTS (layoutLl o), o)

/-- `socket.set_opts` etc.: refused once bound -/
def setOpts (s : Sock) (a : OptsArgs) : Except PyExc (Sock × KOpts) :=
  if s.bound then .error .RuntimeError else writeOpts s a
def setFcOpts (s : Sock) (bs stmin wftmax : PyVal) : Except PyExc (Sock × KFc) :=
  if s.bound then .error .RuntimeError else writeFc s bs stmin wftmax
def setLlOpts (s : Sock) (mtu txDl txFlags : PyVal) : Except PyExc (Sock × KLl) :=
  if s.bound then .error .RuntimeError else writeLl s mtu txDl txFlags

def optPy (o : Option Nat) : PyVal := match o with | some n => .int n | none => .none

/-- `socket.bind(interface, address)` for an address object -/
def bind (s : Sock) (a : Addr) (asym : Bool) : Except PyExc Sock :=
  if asym && (a.rx.mode.hasPrefix != a.tx.mode.hasPrefix) then .error .ValueError else
  let rxid := a.rx.rxId .physical
  let txid := a.tx.txId .physical
  let rxid := if a.rx.mode.is29 then rxid % 536870912 + effFlag else rxid % 2048
  let txid := if a.tx.mode.is29 then txid % 536870912 + effFlag else txid % 2048
  let r : Except PyExc Sock :=
    if a.tx.mode.hasPrefix || a.rx.mode.hasPrefix then
      let o := parseOpts (layoutOpts s.k.opts)
      let fl := if a.tx.mode.hasPrefix then orFlag o.flags fEXTEND_ADDR else o.flags
      let fl := if a.rx.mode.hasPrefix then orFlag fl fRX_EXT_ADDR else fl
      match setOpts s { optflag := .int fl, extAddress := optPy a.tx.txExtByte, rxExtAddress := optPy a.rx.rxExtByte } with
      | .error e => .error e
      | .ok (s, _) => .ok s
    else .ok s
  match r with
  | .error e => .error e
  | .ok s => .ok { s with bound := true, k := { s.k with bound := some (rxid, txid) }, calls := .bind rxid txid :: s.calls }

def close (s : Sock) : Sock := { s with bound := false, closed := true, calls := .close :: s.calls }

/-- `send` / `recv` guards: `RuntimeError` unless bound -/
def ioGuard (s : Sock) : Option PyExc := if s.bound then none else some .RuntimeError

end Isotp.Sock
