import Isotp.Spec.Segment
/-
  Helper lemmas for C02 (part A): the model's padding / DLC helpers (`padLen`, `padByte`, `pad`,
  `dlcOf`, `makeTxMsg`) agree with the reference padding rule `Spec.padTarget` / `Spec.padFrame`
  and with the CAN DLC table, under `Cfg.valid`.
-/
namespace Isotp.Proofs
open Isotp Isotp.Spec

theorem leastLegal_small : ∀ n : Fin 65, leastLegal n.val = (nearestFd n.val).getD 0 := by decide

theorem nearestFd_eq (n : Nat) (h : n ≤ 64) : nearestFd n = some (leastLegal n) := by
  have := leastLegal_small ⟨n, by omega⟩
  simp only at this
  rw [this]
  unfold nearestFd
  grind

/-- closed form of `Spec.leastLegal` -/
theorem leastLegal_eq (n : Nat) : leastLegal n =
    if n ≤ 8 then n else if n ≤ 12 then 12 else if n ≤ 16 then 16 else if n ≤ 20 then 20
    else if n ≤ 24 then 24 else if n ≤ 32 then 32 else if n ≤ 48 then 48 else if n ≤ 64 then 64 else n := by
  by_cases h : n ≤ 64
  · have h1 := nearestFd_eq n h
    unfold nearestFd at h1
    grind
  · have hk : ∀ k, k ≤ 64 → decide (n ≤ k) = false := by intro k hk; simp; omega
    have h0 : decide (n = 0) = false := by simp; omega
    simp [leastLegal, legalLens, List.find?, hk, h0]
    grind

/-- omega-friendly characterisation of `Spec.leastLegal` -/
theorem leastLegal_spec (x : Nat) :
    (x ≤ 8 → leastLegal x = x) ∧ (8 < x ∧ x ≤ 12 → leastLegal x = 12) ∧ (12 < x ∧ x ≤ 16 → leastLegal x = 16) ∧
    (16 < x ∧ x ≤ 20 → leastLegal x = 20) ∧ (20 < x ∧ x ≤ 24 → leastLegal x = 24) ∧
    (24 < x ∧ x ≤ 32 → leastLegal x = 32) ∧ (32 < x ∧ x ≤ 48 → leastLegal x = 48) ∧
    (48 < x ∧ x ≤ 64 → leastLegal x = 64) ∧ (64 < x → leastLegal x = x) := by
  rw [leastLegal_eq]; grind

/-- a `Spec.TxCfg` mirrors the padding-related fields of a model `Cfg` -/
structure Mirrors (tc : TxCfg) (c : Cfg) : Prop where
  txDl : tc.txDl = c.txDl
  minLen : tc.minLen = c.txMinLen
  padding : tc.padding = c.txPadding

theorem mirrors_of (c : Cfg) (a : Addr) : Mirrors (TxCfg.of c a) c := ⟨rfl, rfl, rfl⟩

theorem leastLegal_ge (x : Nat) : x ≤ leastLegal x := by
  have := leastLegal_spec x; omega

theorem leastLegal_fix (m : Nat)
    (hm : 1 ≤ m ∧ m ≤ 8 ∨ ((((((m = 8 ∨ m = 12) ∨ m = 16) ∨ m = 20) ∨ m = 24) ∨ m = 32) ∨ m = 48) ∨ m = 64) :
    leastLegal m = m := by
  have := leastLegal_spec m; omega

theorem leastLegal_le_fix (n m : Nat) (hnm : n ≤ m) (hm : leastLegal m = m) : leastLegal n ≤ m := by
  have h1 := leastLegal_spec m
  have h2 := leastLegal_spec n
  omega

theorem padLen_eq (c : Cfg) (tc : TxCfg) (hm : Mirrors tc c) (hv : c.valid = true) (n : Nat) (hn : n ≤ c.txDl) :
    padLen c n = some (padTarget tc n) := by
  obtain ⟨h1, h2, h3⟩ := hm
  unfold padTarget floorLen
  rw [h1, h2, h3]
  simp only [Cfg.valid, validTxDl, validMinLen, Bool.and_eq_true, Bool.or_eq_true, decide_eq_true_eq] at hv
  obtain ⟨⟨⟨⟨⟨hdl, -⟩, -⟩, hpad⟩, hmin⟩, -⟩ := hv
  unfold padLen
  have hn64 : n ≤ 64 := by omega
  rw [nearestFd_eq n hn64]
  have kn := leastLegal_ge n
  cases hml : c.txMinLen with
  | none =>
    cases hp : c.txPadding with
    | none =>
      simp only [Option.isSome, Bool.false_eq_true, and_false, if_false, Nat.max_eq_left (Nat.zero_le n)]
      split
      · rw [(leastLegal_spec n).1 (by omega)]
      · split
        · congr 1; omega
        · omega
    | some b =>
      simp only [Option.isSome, and_true]
      split
      · rw [Nat.max_eq_right (by omega : n ≤ 8)]; rfl
      · have h9 : c.txDl > 8 := by omega
        rw [Nat.max_eq_left (Nat.zero_le n), if_pos h9]; congr 1; omega
  | some m =>
    rw [hml] at hmin
    simp only [Bool.and_eq_true, Bool.or_eq_true, decide_eq_true_eq] at hmin
    simp only []
    have hfix := leastLegal_fix m hmin.1
    split
    · rw [(leastLegal_spec (max n m)).1 (by omega)]
    · have h9 : c.txDl > 8 := by omega
      rw [if_pos h9]; congr 1
      by_cases hnm : n ≤ m
      · have := leastLegal_le_fix n m hnm hfix
        rw [Nat.max_eq_right hnm, hfix]; omega
      · rw [Nat.max_eq_left (by omega : m ≤ n)]; omega

/-- validity of a reference transmit configuration: what `Params.validate` and the address
    classes guarantee -/
structure ValidTx (tc : TxCfg) : Prop where
  txDl : Spec.validTxDl tc.txDl
  minLen : ∀ m, tc.minLen = some m → ((1 ≤ m ∧ m ≤ 8) ∨ Spec.validTxDl m) ∧ m ≤ tc.txDl
  pre : tc.pre.length ≤ 1

theorem validTxDl_iff (n : Nat) :
    Spec.validTxDl n ↔ (n = 8 ∨ n = 12 ∨ n = 16 ∨ n = 20 ∨ n = 24 ∨ n = 32 ∨ n = 48 ∨ n = 64) := by
  simp [Spec.validTxDl]

theorem valid_of_mirrors (c : Cfg) (tc : TxCfg) (hm : Mirrors tc c) (hv : c.valid = true)
    (hp : tc.pre.length ≤ 1) : ValidTx tc := by
  obtain ⟨h1, h2, h3⟩ := hm
  simp only [Cfg.valid, Isotp.validTxDl, validMinLen, Bool.and_eq_true, Bool.or_eq_true, decide_eq_true_eq] at hv
  obtain ⟨⟨⟨⟨⟨hdl, -⟩, -⟩, hpad⟩, hmin⟩, -⟩ := hv
  refine ⟨by rw [validTxDl_iff, h1]; omega, ?_, hp⟩
  intro m hm
  rw [h2] at hm
  rw [hm] at hmin
  simp only [Bool.and_eq_true, Bool.or_eq_true, decide_eq_true_eq] at hmin
  rw [validTxDl_iff, h1]
  omega

theorem txPrefix_length_le (h : Half) : h.txPrefix.length ≤ 1 := by
  unfold Half.txPrefix; cases h.mode <;> simp

theorem valid_of (c : Cfg) (a : Addr) (hv : c.valid = true) : ValidTx (TxCfg.of c a) :=
  valid_of_mirrors c _ (mirrors_of c a) hv (txPrefix_length_le a.tx)

theorem floorLen_le (tc : TxCfg) (hv : ValidTx tc) : floorLen tc ≤ tc.txDl := by
  unfold floorLen
  have h1 := (validTxDl_iff _).mp hv.txDl
  cases hml : tc.minLen with
  | none => simp only []; split <;> omega
  | some m => exact (hv.minLen m hml).2

theorem txDl_fix (tc : TxCfg) (hv : ValidTx tc) : leastLegal tc.txDl = tc.txDl ∧ 8 ≤ tc.txDl ∧ tc.txDl ≤ 64 := by
  have h1 := (validTxDl_iff _).mp hv.txDl
  have := leastLegal_spec tc.txDl
  omega

theorem padTarget_ge (tc : TxCfg) (n : Nat) : n ≤ padTarget tc n := by
  unfold padTarget
  have := leastLegal_ge (max n (floorLen tc))
  omega

theorem padTarget_le (tc : TxCfg) (hv : ValidTx tc) (n : Nat) (hn : n ≤ tc.txDl) :
    padTarget tc n ≤ tc.txDl := by
  unfold padTarget
  have := floorLen_le tc hv
  exact leastLegal_le_fix _ _ (by omega) (txDl_fix tc hv).1

theorem leastLegal_legal_small : ∀ x : Fin 65, legal (leastLegal x.val) := by decide

theorem padTarget_legal (tc : TxCfg) (hv : ValidTx tc) (n : Nat) (hn : n ≤ tc.txDl) :
    legal (padTarget tc n) := by
  unfold padTarget
  have := floorLen_le tc hv
  have := txDl_fix tc hv
  exact leastLegal_legal_small ⟨max n (floorLen tc), by omega⟩

/-- the CAN / CAN FD DLC code of a legal data length (ISO 11898-1 table):
    0..8 ↦ itself, 12 ↦ 9, 16 ↦ 10, 20 ↦ 11, 24 ↦ 12, 32 ↦ 13, 48 ↦ 14, 64 ↦ 15 -/
def canDlc (n : Nat) : Nat :=
  if n ≤ 8 then n else if n = 12 then 9 else if n = 16 then 10 else if n = 20 then 11
  else if n = 24 then 12 else if n = 32 then 13 else if n = 48 then 14 else 15

theorem dlcOf_small : ∀ (x : Fin 65), legal x.val → 2 ≤ x.val →
    (∀ c : Cfg, x.val ≤ c.txDl → dlcOf c x.val = some (canDlc x.val)) := by
  intro x hl h2 c hx
  have hx64 := x.isLt
  unfold dlcOf
  rw [nearestFd_eq _ (by omega)]
  have := leastLegal_spec x.val
  simp only [legal, legalLens, List.mem_cons, List.not_mem_nil, or_false] at hl
  unfold canDlc
  rcases hl with h|h|h|h|h|h|h|h|h|h|h|h|h|h|h|h <;> (rw [h] at this hx ⊢; simp [this] ; try omega)

theorem dlcOf_eq (c : Cfg) (L : Nat) (hl : legal L) (h2 : 2 ≤ L) (hL : L ≤ c.txDl) (hv : c.valid = true) :
    dlcOf c L = some (canDlc L) := by
  have := txDl_fix _ (valid_of c default hv)
  simp only [TxCfg.of] at this
  exact dlcOf_small ⟨L, by omega⟩ hl h2 c hL

theorem u8_mod (n : Nat) : u8 (n % 256) = UInt8.ofNat n := by
  unfold u8
  apply UInt8.toNat_inj.mp
  simp

theorem padByte_eq (c : Cfg) (tc : TxCfg) (hm : Mirrors tc c) : Isotp.padByte c = Spec.padByte tc := by
  unfold Isotp.padByte Spec.padByte
  rw [hm.padding, u8_mod]

theorem pad_eq (c : Cfg) (tc : TxCfg) (hm : Mirrors tc c) (hv : c.valid = true) (d : Bytes) (hd : d.length ≤ c.txDl) :
    pad c d = some (padFrame tc d) := by
  unfold pad padFrame
  rw [padLen_eq c tc hm hv _ hd, padByte_eq c tc hm]

theorem length_padFrame (tc : TxCfg) (d : Bytes) : (padFrame tc d).length = padTarget tc d.length := by
  have := padTarget_ge tc d.length
  simp [padFrame]; omega

/-- the CAN message the layer must build for a frame data field `d` sent with arbitration id `arbId` -/
def frameMsg (c : Cfg) (a : Addr) (arbId : Nat) (d : Bytes) : CanMsg :=
  { id := arbId, ext := a.tx.mode.is29, data := d, dlc := canDlc d.length, fd := c.canFd, brs := c.brs }

/-- `_make_tx_msg` never fails on a frame of 2..tx_data_length bytes and produces the padded frame
    with the DLC of the table and the configured flags. -/
theorem makeTxMsg_eq (c : Cfg) (a : Addr) (hv : c.valid = true) (arbId : Nat) (d : Bytes)
    (h2 : 2 ≤ d.length) (hd : d.length ≤ c.txDl) :
    makeTxMsg c a arbId d = some (frameMsg c a arbId (padFrame (TxCfg.of c a) d)) := by
  have hm := mirrors_of c a
  have hvt := valid_of c a hv
  have hd' : d.length ≤ (TxCfg.of c a).txDl := hd
  unfold makeTxMsg
  rw [pad_eq c _ hm hv d hd]
  simp only []
  have hlen := length_padFrame (TxCfg.of c a) d
  have hge := padTarget_ge (TxCfg.of c a) d.length
  rw [dlcOf_eq c _ (by rw [hlen]; exact padTarget_legal _ hvt _ hd') (by omega)
    (by rw [hlen]; exact padTarget_le _ hvt _ hd') hv]
  rfl

end Isotp.Proofs
