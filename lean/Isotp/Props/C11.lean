import Isotp.Proofs.Compose
/-
  C11 — "If one CAN frame anywhere in a multi-message exchange is lost or duplicated, every payload that is
  delivered is still byte-identical to a payload that was sent and in sending order (never truncated, merged or
  corrupted), and at most the one message whose frame was hit is missing (a duplicated Single Frame may be
  delivered twice)."

  Receiver side. Helper lemmas: Isotp/Proofs/Compose.lean (built on Proofs/Rx.lean, Proofs/Segment.lean, C09).

  Setting as in C01 (`Compose.Link ca aa sb`): the sender has the validated configuration `ca` and the address
  `aa`; the receiving layer `sb` has the mirrored receive address; the payloads `ps` are `Sendable` (non-empty,
  < 2^32 bytes, ≤ the receiver's max_frame_size). `enc = Spec.segment (Spec.TxCfg.of ca aa)`,
  `F = Compose.stream enc ps` = the data fields of all the frames in sending order;
  `Compose.dropAt k F` / `Compose.dupAt k F` = `F` with frame `k` lost / doubled (copy next to the original).
  The frames are handed to `_process_rx` through `Feeds` (Proofs/Rx.lean): arbitrary reception-neutral steps
  (transmit passes, `send`, `recv`, clock, un-expired timeout checks) before, between and after them — in
  particular no N_Cr timeout in between; the plain fold through the address filter (`Compose.linkFeed`) is the
  special case used for the rx-queue statements.
  `delivered s` = payloads put into the rx queue so far, `rxTrace s` = deliveries and reception errors, both
  read from the event log.

  What is NOT covered: the sender side of the same fault (a lost Flow Control / the sender's timeouts), and a
  fault followed by an N_Cr timeout (the timeout only makes the receiver idle earlier: `C06.consecutive_frame_timeout`,
  `C06.recovery`).
-/
namespace Isotp.C11
open Isotp Isotp.State Isotp.Rx Isotp.Compose

/-! ## the two sequence-number facts (wrap-around after 16 Consecutive Frames included) -/

/-- A duplicated Consecutive Frame carries the sequence number just accepted (`lastSeq`), i.e. expected − 1;
    it is never the expected one `(lastSeq + 1) mod 16`. -/
theorem sn_duplicate (lastSeq : Nat) : lastSeq % 16 ≠ (lastSeq % 16 + 1) % 16 := by omega

/-- After a lost Consecutive Frame the next one carries expected + 1, never the expected sequence number. -/
theorem sn_after_loss (lastSeq : Nat) : (lastSeq + 1 + 1) % 16 ≠ (lastSeq + 1) % 16 := by omega

/-- the same, by the 0-based index `j` of the Consecutive Frame (which carries SN `(j + 1) mod 16`): for every
    `j`, also beyond the wrap-around -/
theorem sn_index (j : Nat) : (j + 1) % 16 ≠ (j + 1 + 1) % 16 ∧ (j + 1 + 1) % 16 ≠ (j + 1) % 16 :=
  ⟨sn_dup_ne j, sn_drop_ne j⟩

/-! ## (b) the case analysis, one lemma per kind of fault

  A message is either one Single Frame `[d]` that decodes to `sf |p| p`, or `segFrames g p pad n`: First Frame,
  `n` full Consecutive Frames, last Consecutive Frame (`segment_shapes` below: the sender's frames always have
  one of these two shapes). `IdleAt c0 a0 T s`: receiver idle with configuration `c0`, address `a0`, reception
  trace `T`. `InSession g c0 a0 T p i s`: reception of `p` in progress, `i` Consecutive Frames consumed. -/

/-- the frames `Spec.segment tc p` of the sender have one of the two shapes the case lemmas are about -/
theorem segment_shapes (ca : Cfg) (aa : Addr) (sb : State) (h : Link ca aa sb) (p : Bytes) (hs : Sendable sb [p]) :
    (∃ d esc cdl rdl, Spec.segment (Spec.TxCfg.of ca aa) p = [d] ∧
        decode d aa.tx.txPrefix.length = some ⟨.sf p.length p esc, cdl, rdl⟩ ∧ (cdl ≤ 8 ∨ esc = true)) ∨
    (∃ g n pad, g.pre = aa.tx.txPrefix ∧ Geom g sb.cfg sb.addr p n ∧
        Spec.segment (Spec.TxCfg.of ca aa) p = segFrames g p pad n) := by
  have ha := h.admissible [p] hs
  exact wellFormed_cases _ p _ sb.cfg sb.addr (ha.hwf p (by simp)) ha.hpre (ha.hmax p (by simp))

section cases
variable {g : Spec.TxCfg} {c0 : Cfg} {a0 : Addr} {p : Bytes} {n : Nat} {T : List RxEv} {s s' : State}

/-- no fault (reference): the message is delivered, no error, receiver idle -/
theorem complete_message (hg : Geom g c0 a0 p n) (pad : Bytes) (h : IdleAt c0 a0 T s)
    (hf : Feeds s (segFrames g p pad n) s') :
    rxTrace s' = T ++ [.deliver p] ∧ s'.rxState = .idle :=
  ⟨(seg_complete hg pad h hf).trace, (seg_complete hg pad h hf).idle⟩

/-- First Frame lost: its `n + 1` Consecutive Frames are all rejected (`UnexpectedConsecutiveFrame` while idle),
    nothing is delivered, the receiver is idle when the next message starts. -/
theorem drop_first_frame (hg : Geom g c0 a0 p n) (pad : Bytes) (h : IdleAt c0 a0 T s)
    (hf : Feeds s (dropAt 0 (segFrames g p pad n)) s') :
    rxTrace s' = T ++ List.replicate (n + 1) (.err .UnexpectedConsecutiveFrame) ∧ s'.rxState = .idle ∧
      delivered s' = delivered s := by
  have h2 := seg_drop_ff hg pad h hf
  refine ⟨h2.trace, h2.idle, ?_⟩
  rw [h2.delivered, h.delivered]; simp [List.filterMap_append, payload_replicate_err]

/-- A Consecutive Frame other than the last one (index `j < n`) lost: the next one has the wrong sequence number
    (`WrongSequenceNumber`, reception aborted), the remaining ones are rejected while idle; nothing is delivered;
    idle at the end. -/
theorem drop_middle_frame (hg : Geom g c0 a0 p n) (pad : Bytes) (j : Nat) (hj : j < n) (h : IdleAt c0 a0 T s)
    (hf : Feeds s (dropAt (j + 1) (segFrames g p pad n)) s') :
    rxTrace s' = T ++ [.err .WrongSequenceNumber] ++ List.replicate (n - j - 1) (.err .UnexpectedConsecutiveFrame) ∧
      s'.rxState = .idle ∧ delivered s' = delivered s := by
  have h2 := seg_drop_mid hg pad j hj h hf
  refine ⟨h2.trace, h2.idle, ?_⟩
  rw [h2.delivered, h.delivered]
  simp [List.filterMap_append, List.filterMap_cons, payload_replicate_err, payload_err]

/-- The last Consecutive Frame lost: nothing delivered, nothing logged, the session is left open … -/
theorem drop_last_frame (hg : Geom g c0 a0 p n) (pad : Bytes) (h : IdleAt c0 a0 T s)
    (hf : Feeds s (dropAt (n + 1) (segFrames g p pad n)) s') :
    InSession g c0 a0 T p n s' ∧ rxTrace s' = T ∧ delivered s' = delivered s := by
  have h2 := seg_drop_last hg pad h hf
  exact ⟨h2, h2.trace, by rw [sess_delivered h2, h.delivered]⟩

/-- … and the next message, if segmented, is still received intact: `InterruptedWithFirstFrame`, the new session
    wins. -/
theorem next_segmented_after_open_session {g' : Spec.TxCfg} {q : Bytes} {i : Nat} (hg : Geom g c0 a0 p n) (pad : Bytes)
    (h : InSession g' c0 a0 T q i s) (hf : Feeds s (segFrames g p pad n) s') :
    rxTrace s' = T ++ [.err .InterruptedWithFirstFrame] ++ [.deliver p] ∧ s'.rxState = .idle :=
  ⟨(open_then_segmented hg pad h hf).trace, (open_then_segmented hg pad h hf).idle⟩

/-- … if it is a Single Frame: delivered, then `InterruptedWithSingleFrame`. -/
theorem next_single_after_open_session {g' : Spec.TxCfg} {q : Bytes} {i : Nat} (pre d : Bytes) (esc : Bool)
    (cdl rdl : Nat) (hpre : pre.length = a0.rx.rxPrefixSize)
    (hd : decode d pre.length = some ⟨.sf p.length p esc, cdl, rdl⟩) (h8 : cdl ≤ 8 ∨ esc = true)
    (h : InSession g' c0 a0 T q i s) (hf : Feeds s [d] s') :
    rxTrace s' = T ++ [.deliver p] ++ [.err .InterruptedWithSingleFrame] ∧ s'.rxState = .idle :=
  ⟨(open_then_sf pre p d esc cdl rdl hpre hd h8 h hf).trace, (open_then_sf pre p d esc cdl rdl hpre hd h8 h hf).idle⟩

/-- A Single Frame lost: the message is simply missing. -/
theorem drop_single_frame (d : Bytes) (h : IdleAt c0 a0 T s) (hf : Feeds s (dropAt 0 [d]) s') :
    rxTrace s' = T ∧ s'.rxState = .idle :=
  ⟨(sf_drop d h hf).trace, (sf_drop d h hf).idle⟩

/-- First Frame duplicated: the session is restarted with the same data (`InterruptedWithFirstFrame`), the message
    is delivered once. -/
theorem dup_first_frame (hg : Geom g c0 a0 p n) (pad : Bytes) (h : IdleAt c0 a0 T s)
    (hf : Feeds s (dupAt 0 (segFrames g p pad n)) s') :
    rxTrace s' = T ++ [.err .InterruptedWithFirstFrame] ++ [.deliver p] ∧ s'.rxState = .idle :=
  ⟨(seg_dup_ff hg pad h hf).trace, (seg_dup_ff hg pad h hf).idle⟩

/-- A Consecutive Frame other than the last one (index `j < n`) duplicated: the copy has the wrong sequence number
    (`WrongSequenceNumber`, reception aborted), the remaining frames are rejected; the message is lost (nothing
    of it is delivered). -/
theorem dup_middle_frame (hg : Geom g c0 a0 p n) (pad : Bytes) (j : Nat) (hj : j < n) (h : IdleAt c0 a0 T s)
    (hf : Feeds s (dupAt (j + 1) (segFrames g p pad n)) s') :
    rxTrace s' = T ++ [.err .WrongSequenceNumber] ++ List.replicate (n - j) (.err .UnexpectedConsecutiveFrame) ∧
      s'.rxState = .idle ∧ delivered s' = delivered s := by
  have h2 := seg_dup_mid hg pad j hj h hf
  refine ⟨h2.trace, h2.idle, ?_⟩
  rw [h2.delivered, h.delivered]
  simp [List.filterMap_append, List.filterMap_cons, payload_replicate_err, payload_err]

/-- The last Consecutive Frame duplicated: the message is delivered once, then the copy is rejected
    (`UnexpectedConsecutiveFrame`). -/
theorem dup_last_frame (hg : Geom g c0 a0 p n) (pad : Bytes) (h : IdleAt c0 a0 T s)
    (hf : Feeds s (dupAt (n + 1) (segFrames g p pad n)) s') :
    rxTrace s' = T ++ [.deliver p] ++ [.err .UnexpectedConsecutiveFrame] ∧ s'.rxState = .idle :=
  ⟨(seg_dup_last hg pad h hf).trace, (seg_dup_last hg pad h hf).idle⟩

/-- A Single Frame duplicated: delivered twice (no error). -/
theorem dup_single_frame (pre d : Bytes) (esc : Bool) (cdl rdl : Nat) (hpre : pre.length = a0.rx.rxPrefixSize)
    (hd : decode d pre.length = some ⟨.sf p.length p esc, cdl, rdl⟩) (h8 : cdl ≤ 8 ∨ esc = true)
    (h : IdleAt c0 a0 T s) (hf : Feeds s (dupAt 0 [d]) s') :
    rxTrace s' = T ++ [.deliver p] ++ [.deliver p] ∧ s'.rxState = .idle :=
  ⟨(sf_dup pre p d esc cdl rdl hpre hd h8 h hf).trace, (sf_dup pre p d esc cdl rdl hpre hd h8 h hf).idle⟩

end cases

/-- Summary per message, for ANY well-formed encoding `fr` of `p` (any conforming sender): with one frame lost
    nothing of `p` is delivered; with frame `k` duplicated exactly `dupOutcome |fr| k p` is delivered — `p` twice
    for a Single Frame, once when the First Frame or the last Consecutive Frame is the duplicated one, nothing
    for another Consecutive Frame — and the receiver is idle afterwards. -/
theorem message_hit (pre p : Bytes) (fr : List Bytes) (c0 : Cfg) (a0 : Addr) (hw : Spec.WellFormed pre p fr)
    (hpre : pre.length = a0.rx.rxPrefixSize) (hmax : p.length ≤ c0.maxFrameSize) (k : Nat) (hk : k < fr.length)
    (T : List RxEv) (s s' : State) (h : IdleAt c0 a0 T s) :
    (Feeds s (dropAt k fr) s' → delivered s' = delivered s) ∧
    (Feeds s (dupAt k fr) s' → delivered s' = delivered s ++ dupOutcome fr.length k p ∧ s'.rxState = .idle) :=
  ⟨msg_drop pre p fr c0 a0 hw hpre hmax k hk h, msg_dup pre p fr c0 a0 hw hpre hmax k hk h⟩

/-! ## (c) everything after the hit message is received normally -/

/-- From ANY receiver state — in particular the one left by the hit message, open session included — the
    following messages `B` are all delivered, intact, once each and in order, and the receiver ends idle. (First
    Frames and Single Frames are handled in every state: `Rx.ff_starts_session`, `Rx.sf_delivers`.) -/
theorem c11_rest_normal (ca : Cfg) (aa : Addr) (sb sb' : State) (h : Link ca aa sb) (B : List Bytes)
    (hs : Sendable sb B) (hf : Feeds sb (stream (Spec.segment (Spec.TxCfg.of ca aa)) B) sb') :
    delivered sb' = delivered sb ++ B ∧ (B ≠ [] → sb'.rxState = .idle) := by
  obtain ⟨h1, h2, _⟩ := messages_any _ _ B sb sb' (h.admissible B hs) hf
  exact ⟨h1, h2⟩

/-- … and nothing of them early: after the first `k` of these frames exactly the completely received ones. -/
theorem c11_rest_normal_prefix (ca : Cfg) (aa : Addr) (sb sb'' : State) (h : Link ca aa sb) (B : List Bytes)
    (hs : Sendable sb B) (k : Nat) (hf : Feeds sb ((stream (Spec.segment (Spec.TxCfg.of ca aa)) B).take k) sb'') :
    delivered sb'' = delivered sb ++ completeIn (Spec.segment (Spec.TxCfg.of ca aa)) B k :=
  messages_prefix _ _ B k sb sb'' (h.admissible B hs) hf

/-! ## (a) the whole exchange -/

/-- One frame lost. The frame number `k` lies in exactly one message `p` (`ps = A ++ p :: B`); everything that is
    delivered is `A` then `B`: all the other payloads, byte-identical, in sending order, exactly once; `p` is
    missing. -/
theorem c11_frame_lost (ca : Cfg) (aa : Addr) (sb sb' : State) (h : Link ca aa sb) (ps : List Bytes)
    (hs : Sendable sb ps) (hidle : sb.rxState = .idle) (k : Nat)
    (hk : k < (stream (Spec.segment (Spec.TxCfg.of ca aa)) ps).length)
    (hf : Feeds sb (dropAt k (stream (Spec.segment (Spec.TxCfg.of ca aa)) ps)) sb') :
    ∃ A p B k', ps = A ++ p :: B ∧ k' < (Spec.segment (Spec.TxCfg.of ca aa) p).length ∧
      k = (stream (Spec.segment (Spec.TxCfg.of ca aa)) A).length + k' ∧
      delivered sb' = delivered sb ++ (A ++ B) :=
  stream_dropAt _ _ ps k hk sb sb' (h.admissible ps hs) hidle hf

/-- One frame duplicated. With `ps = A ++ p :: B` and `k'` the position of the frame inside `p`: delivered are
    `A`, then `dupOutcome … k' p` (= `[p, p]` if `p` is a Single Frame message, `[p]` if the First Frame or the last
    Consecutive Frame was duplicated, `[]` otherwise), then `B`. -/
theorem c11_frame_duplicated (ca : Cfg) (aa : Addr) (sb sb' : State) (h : Link ca aa sb) (ps : List Bytes)
    (hs : Sendable sb ps) (hidle : sb.rxState = .idle) (k : Nat)
    (hk : k < (stream (Spec.segment (Spec.TxCfg.of ca aa)) ps).length)
    (hf : Feeds sb (dupAt k (stream (Spec.segment (Spec.TxCfg.of ca aa)) ps)) sb') :
    ∃ A p B k', ps = A ++ p :: B ∧ k' < (Spec.segment (Spec.TxCfg.of ca aa) p).length ∧
      k = (stream (Spec.segment (Spec.TxCfg.of ca aa)) A).length + k' ∧
      delivered sb' = delivered sb ++
        (A ++ dupOutcome (Spec.segment (Spec.TxCfg.of ca aa) p).length k' p ++ B) :=
  stream_dupAt _ _ ps k hk sb sb' (h.admissible ps hs) hidle hf

/-- C11, receiver side. `F'` is the frame stream of `ps` with ONE frame lost or duplicated. Then what the receiver
    delivers (`L`, after what it had delivered before) is obtained from `ps = A ++ p :: B` by deleting the one hit
    message `p` (`L = A ++ B`), or is `ps` itself, or — only for a duplication hitting a Single Frame message — has
    `p` twice in a row. In particular every delivered payload is one of `ps`, byte-identical, never truncated,
    merged or corrupted, and the order is the sending order. -/
theorem c11_never_corrupt (ca : Cfg) (aa : Addr) (sb sb' : State) (h : Link ca aa sb) (ps : List Bytes)
    (hs : Sendable sb ps) (hidle : sb.rxState = .idle) (k : Nat)
    (hk : k < (stream (Spec.segment (Spec.TxCfg.of ca aa)) ps).length) (F' : List Bytes)
    (hF : F' = dropAt k (stream (Spec.segment (Spec.TxCfg.of ca aa)) ps) ∨
          F' = dupAt k (stream (Spec.segment (Spec.TxCfg.of ca aa)) ps))
    (hf : Feeds sb F' sb') :
    ∃ A p B L, ps = A ++ p :: B ∧ delivered sb' = delivered sb ++ L ∧
      (L = A ++ B ∨ L = ps ∨
        (L = A ++ [p, p] ++ B ∧ F' = dupAt k (stream (Spec.segment (Spec.TxCfg.of ca aa)) ps) ∧
          (Spec.segment (Spec.TxCfg.of ca aa) p).length = 1)) ∧
      (∀ q ∈ L, q ∈ ps) := by
  rcases hF with hF | hF
  · subst hF
    obtain ⟨A, p, B, k', he, _, _, hd⟩ := c11_frame_lost ca aa sb sb' h ps hs hidle k hk hf
    exact ⟨A, p, B, A ++ B, he, hd, Or.inl rfl, (drop_outcome A B ps p he).1⟩
  · subst hF
    obtain ⟨A, p, B, k', he, _, _, hd⟩ := c11_frame_duplicated ca aa sb sb' h ps hs hidle k hk hf
    obtain ⟨hL, hmem⟩ := dup_outcome A B ps p (Spec.segment (Spec.TxCfg.of ca aa) p).length k' he
    refine ⟨A, p, B, _, he, hd, ?_, hmem⟩
    rcases hL with h0 | h1 | ⟨h2, hl⟩
    · exact Or.inl h0
    · exact Or.inr (Or.inl h1)
    · exact Or.inr (Or.inr ⟨h2, rfl, hl⟩)

/-- with a lost frame the deliveries are a subsequence of what was sent -/
theorem lost_is_sublist (A B : List Bytes) (p : Bytes) : (A ++ B).Sublist (A ++ p :: B) :=
  (drop_outcome A B _ p rfl).2

/-! ### through the address filter, in terms of the rx queue -/

/-- The same for CAN messages on the bus (`ms`: any messages of the sender — any dlc/fd/brs — whose data fields are
    the frame stream of `ps`) going through the receiver's address filter with nothing in between: the rx queue,
    i.e. what `recv()` will return, grows by exactly `L`. -/
theorem c11_never_corrupt_wire (ca : Cfg) (aa : Addr) (sb : State) (h : Link ca aa sb) (ps : List Bytes)
    (hs : Sendable sb ps) (hidle : sb.rxState = .idle) (ms : List CanMsg) (hfrom : FromSender aa ms)
    (hdata : ms.map (·.data) = stream (Spec.segment (Spec.TxCfg.of ca aa)) ps) (k : Nat) (hk : k < ms.length)
    (ms' : List CanMsg) (hF : ms' = dropAt k ms ∨ ms' = dupAt k ms) :
    ∃ A p B L, ps = A ++ p :: B ∧ (linkFeed sb ms').rxQueue = sb.rxQueue ++ L ∧
      (L = A ++ B ∨ L = ps ∨
        (L = A ++ [p, p] ++ B ∧ ms' = dupAt k ms ∧ (Spec.segment (Spec.TxCfg.of ca aa) p).length = 1)) ∧
      (∀ q ∈ L, q ∈ ps) := by
  have hk' : k < (stream (Spec.segment (Spec.TxCfg.of ca aa)) ps).length := by
    rw [← hdata, List.length_map]; exact hk
  have hin : ∀ l : List CanMsg, (∀ m ∈ l, m ∈ ms) → linkFeed sb l = feed sb l := fun l hl =>
    linkFeed_stream ca aa sb h ps l (fun m hm => hfrom m (hl m hm)) (by
      intro m hm
      have : m.data ∈ ms.map (·.data) := List.mem_map_of_mem (hl m hm)
      rwa [hdata] at this)
  rcases hF with hF | hF
  · subst hF
    have hf := feeds_feed (dropAt k ms) sb
    rw [map_dropAt, hdata] at hf
    obtain ⟨A, p, B, k', he, _, _, hd⟩ := c11_frame_lost ca aa sb _ h ps hs hidle k hk' hf
    refine ⟨A, p, B, A ++ B, he, ?_, Or.inl rfl, (drop_outcome A B ps p he).1⟩
    rw [hin _ (mem_dropAt k ms)]
    exact feed_queue_of_delivered sb _ _ hd
  · subst hF
    have hf := feeds_feed (dupAt k ms) sb
    rw [map_dupAt, hdata] at hf
    obtain ⟨A, p, B, k', he, _, _, hd⟩ := c11_frame_duplicated ca aa sb _ h ps hs hidle k hk' hf
    obtain ⟨hL, hmem⟩ := dup_outcome A B ps p (Spec.segment (Spec.TxCfg.of ca aa) p).length k' he
    refine ⟨A, p, B, _, he, ?_, ?_, hmem⟩
    · rw [hin _ (mem_dupAt k ms)]
      exact feed_queue_of_delivered sb _ _ hd
    · rcases hL with h0 | h1 | ⟨h2, hl⟩
      · exact Or.inl h0
      · exact Or.inr (Or.inl h1)
      · exact Or.inr (Or.inr ⟨h2, rfl, hl⟩)

/-! ## Non-vacuity: concrete exchanges -/

def exTx : Half :=
  { mode := .n11, txid := some 0x123, rxid := some 0x456, ta := none, sa := none, ae := none,
    physId := 0, funcId := 0, rxOnly := false, txOnly := false }
def exA : Addr := { tx := exTx, rx := exTx }
def exCa : Cfg := {}
/-- receiver: default configuration (TX_DL 8, blocksize 8, max_frame_size 4095), mirrored address -/
def sB : State := State.init {} { tx := Spec.mirror exTx, rx := Spec.mirror exTx }
/-- two messages: 20 bytes (frames 0,1,2: First Frame, two Consecutive Frames) and 3 bytes (frame 3: Single Frame) -/
def exP1 : Bytes := (List.range 20).map UInt8.ofNat
def exP2 : Bytes := [0xAA, 0xBB, 0xCC]
def exF : List CanMsg := ([exP1, exP2].map (wire exCa exA)).flatten

example : Link exCa exA sB := ⟨by decide, by decide, rfl⟩
example : Sendable sB [exP1, exP2] := by unfold Sendable; decide
example : sB.rxState = .idle := by decide
example : FromSender exA exF := wire_fromSender exCa exA _
example : exF.map (·.data) =
    [[0x10, 20, 0, 1, 2, 3, 4, 5], [0x21, 6, 7, 8, 9, 10, 11, 12], [0x22, 13, 14, 15, 16, 17, 18, 19],
     [3, 0xAA, 0xBB, 0xCC]] := by decide
-- no fault
example : (linkFeed sB exF).rxQueue = [exP1, exP2] := by decide
-- frame 0 (First Frame) lost: both Consecutive Frames rejected, second message received
example : (linkFeed sB (dropAt 0 exF)).rxQueue = [exP2] ∧
    (linkFeed sB (dropAt 0 exF)).log =
      [.deliver exP2, .err 0 .UnexpectedConsecutiveFrame, .err 0 .UnexpectedConsecutiveFrame] := by decide
-- frame 1 (middle Consecutive Frame) lost: WrongSequenceNumber, second message received
example : (linkFeed sB (dropAt 1 exF)).rxQueue = [exP2] ∧
    (linkFeed sB (dropAt 1 exF)).log = [.deliver exP2, .err 0 .WrongSequenceNumber] := by decide
-- frame 2 (last Consecutive Frame) lost: session left open, the Single Frame interrupts it and is delivered
example : (linkFeed sB (dropAt 2 exF)).rxQueue = [exP2] ∧
    (linkFeed sB (dropAt 2 exF)).log = [.err 0 .InterruptedWithSingleFrame, .deliver exP2] := by decide
-- frame 3 (Single Frame) lost: simply missing
example : (linkFeed sB (dropAt 3 exF)).rxQueue = [exP1] ∧ (linkFeed sB (dropAt 3 exF)).log = [.deliver exP1] := by
  decide
-- duplications
example : (linkFeed sB (dupAt 0 exF)).rxQueue = [exP1, exP2] ∧
    (linkFeed sB (dupAt 0 exF)).log = [.deliver exP2, .deliver exP1, .err 0 .InterruptedWithFirstFrame] := by decide
example : (linkFeed sB (dupAt 1 exF)).rxQueue = [exP2] ∧
    (linkFeed sB (dupAt 1 exF)).log =
      [.deliver exP2, .err 0 .UnexpectedConsecutiveFrame, .err 0 .WrongSequenceNumber] := by decide
example : (linkFeed sB (dupAt 2 exF)).rxQueue = [exP1, exP2] ∧
    (linkFeed sB (dupAt 2 exF)).log = [.deliver exP2, .err 0 .UnexpectedConsecutiveFrame, .deliver exP1] := by decide
example : (linkFeed sB (dupAt 3 exF)).rxQueue = [exP1, exP2, exP2] := by decide
example : dupOutcome 3 1 exP1 = [] ∧ dupOutcome 3 0 exP1 = [exP1] ∧ dupOutcome 3 2 exP1 = [exP1] ∧
    dupOutcome 1 0 exP2 = [exP2, exP2] := by decide

/-- the shape of the first message: `segFrames` with `n = 1` full Consecutive Frame before the last one -/
example : Spec.segment (Spec.TxCfg.of exCa exA) exP1 = segFrames (Spec.streamCfg 8 []) exP1 [] 1 := by decide
example : Geom (Spec.streamCfg 8 []) sB.cfg sB.addr exP1 1 :=
  ⟨by decide, by decide, by decide, by decide, by decide⟩
example : IdleAt sB.cfg sB.addr [] sB := ⟨by decide, rfl, rfl, by decide⟩
/-- hypotheses of `message_hit` / `c11_never_corrupt` on this exchange, and a faulty run as a `Feeds` -/
example : Spec.WellFormed exA.tx.txPrefix exP1 (Spec.segment (Spec.TxCfg.of exCa exA) exP1) :=
  (Link.admissible (sb := sB) ⟨by decide, by decide, rfl⟩ [exP1] (by unfold Sendable; decide)).hwf exP1 (by simp)
example : 1 < (stream (Spec.segment (Spec.TxCfg.of exCa exA)) [exP1, exP2]).length := by decide
example : Feeds sB (dropAt 1 (stream (Spec.segment (Spec.TxCfg.of exCa exA)) [exP1, exP2])) (feed sB (dropAt 1 exF)) := by
  have := feeds_feed (dropAt 1 exF) sB
  rwa [map_dropAt, exF, wire_data] at this
example : delivered (feed sB (dropAt 1 exF)) = [exP2] ∧ delivered (feed sB (dupAt 3 exF)) = [exP1, exP2, exP2] := by
  decide

/-- wrap-around: 125 bytes = First Frame + 17 Consecutive Frames (SN 1..15, 0, 1); the Consecutive Frame with
    SN 0 (frame 16) lost or duplicated, followed by a second message -/
def exLong : Bytes := (List.range 125).map UInt8.ofNat
def exG : List CanMsg := ([exLong, exP2].map (wire exCa exA)).flatten
example : exG.length = 19 ∧ (exG[16]?).map (·.data) = some [0x20, 111, 112, 113, 114, 115, 116, 117] := by
  decide +kernel
example : (linkFeed sB exG).rxQueue = [exLong, exP2] := by decide +kernel
example : (linkFeed sB (dropAt 16 exG)).rxQueue = [exP2] := by decide +kernel
example : (linkFeed sB (dupAt 16 exG)).rxQueue = [exP2] := by decide +kernel
example : (linkFeed sB (dupAt 17 exG)).rxQueue = [exLong, exP2] := by decide +kernel

end Isotp.C11

#print axioms Isotp.C11.sn_duplicate
#print axioms Isotp.C11.sn_after_loss
#print axioms Isotp.C11.sn_index
#print axioms Isotp.C11.segment_shapes
#print axioms Isotp.C11.complete_message
#print axioms Isotp.C11.drop_first_frame
#print axioms Isotp.C11.drop_middle_frame
#print axioms Isotp.C11.drop_last_frame
#print axioms Isotp.C11.next_segmented_after_open_session
#print axioms Isotp.C11.next_single_after_open_session
#print axioms Isotp.C11.drop_single_frame
#print axioms Isotp.C11.dup_first_frame
#print axioms Isotp.C11.dup_middle_frame
#print axioms Isotp.C11.dup_last_frame
#print axioms Isotp.C11.dup_single_frame
#print axioms Isotp.C11.message_hit
#print axioms Isotp.C11.c11_rest_normal
#print axioms Isotp.C11.c11_rest_normal_prefix
#print axioms Isotp.C11.c11_frame_lost
#print axioms Isotp.C11.c11_frame_duplicated
#print axioms Isotp.C11.c11_never_corrupt
#print axioms Isotp.C11.c11_never_corrupt_wire
