import Isotp.Basic
/-
  Model of `PDU.__init__` (isotp/protocol.py): total decoder of one CAN data field.
  `none` = the constructor raises (any exception: the caller catches `Exception`).
-/
namespace Isotp

inductive Pdu where
  | sf (len : Nat) (data : Bytes) (esc : Bool)
  | ff (len : Nat) (data : Bytes) (esc : Bool)
  | cf (sn : Nat) (data : Bytes)
  | fc (status : Nat) (bs : Nat) (stmin : Nat)
  deriving DecidableEq, Repr, Inhabited

structure Decoded where
  pdu   : Pdu
  canDl : Nat
  rxDl  : Nat
  deriving DecidableEq, Repr, Inhabited

def validStmin (b : Nat) : Bool := b ≤ 0x7F || (0xF1 ≤ b && b ≤ 0xF9)

/-- nanoseconds of `int(stmin_sec * 1e9)` for a valid STmin byte
    (tied to the code on all 256 bytes by `Agree.Stmin`). -/
def stminNs (b : Nat) : Nat := if b ≤ 0x7F then b * 1000000 else (b - 0xF0) * 100000

def decodeBody (d : Bytes) : Option Pdu :=
  let n := d.length
  if n = 0 then none else
  let b0 := byteAt d 0
  let hnb := b0 / 16
  if hnb = 0 then
    let lp := b0 % 16
    if lp ≠ 0 then
      if lp > n - 1 then none else some (.sf lp ((d.drop 1).take lp) false)
    else
      if n < 2 then none else
      let l := byteAt d 1
      if l = 0 then none else
      if l > n - 2 then none else some (.sf l ((d.drop 2).take l) true)
  else if hnb = 1 then
    if n < 2 then none else
    let lp := (b0 % 16) * 256 + byteAt d 1
    if lp ≠ 0 then some (.ff lp ((d.drop 2).take (min lp (n - 2))) false)
    else
      if n < 6 then none else
      let l := byteAt d 2 * 16777216 + byteAt d 3 * 65536 + byteAt d 4 * 256 + byteAt d 5
      some (.ff l ((d.drop 6).take (min l (n - 6))) true)
  else if hnb = 2 then some (.cf (b0 % 16) (d.drop 1))
  else if hnb = 3 then
    if n < 3 then none else
    let fs := b0 % 16
    if fs ≥ 3 then none else
    let st := byteAt d 2
    if validStmin st then some (.fc fs (byteAt d 1) st) else none
  else none

def decode (data : Bytes) (start : Nat) : Option Decoded :=
  if data.length < start then none else
  match decodeBody (data.drop start) with
  | none => none
  | some p => some { pdu := p, canDl := data.length, rxDl := max 8 data.length }

end Isotp
