import Isotp.PyAgree.EvalLemmas
import Isotp.PyAgree.MiscLemmas
import Isotp.PyAgree.MiscTimer
import Isotp.PyAgree.MiscFc
import Isotp.Process
/-!
  Source agreement for the small transmit-side helpers and accessors of `TransportLayerLogic`, for `RateLimiter` and for
  `FiniteByteGenerator` (`isotp/protocol.py`, `isotp/tools.py`), FOR ALL STATES.
-/
namespace Isotp.PyAgree
open Isotp Isotp.Py

/-! ## 0. Infrastructure -/

/-- `env` has every binding of `bs` -/
def Has (env : Env) (bs : List (String × PV)) : Prop := ∀ kv ∈ bs, env kv.1 = some kv.2

namespace TxH

theorem set_get (env : Env) (k : String) (v : PV) (k' : String) :
    (env.set k v) k' = if k' = k then some v else env k' := rfl

/-- the names the interpreter treats as builtins; every other call goes to `Meths` -/
def builtinNames : List String :=
  ["len", "int", "bool", "min", "max", "bytes", "isinstance_int", "isinstance_bool", "isinstance_float", "isinstance_int_float"]

theorem evalBuiltin_none (fn : String) (args : List PV) (h : fn ∉ builtinNames) : evalBuiltin fn args = none := by
  simp only [builtinNames, List.mem_cons, List.not_mem_nil, or_false, not_or] at h
  unfold evalBuiltin; split <;> simp_all

theorem cons_next {M : Meths} {env env' : Env} {s : PStmt} {rest : PBlock}
    (h : execStmt M env s = .ok (.next env')) : execBlock M env (.cons s rest) = execBlock M env' rest := by
  simp only [execBlock, h, ok_bind]

theorem cons_ret {M : Meths} {env env' : Env} {s : PStmt} {rest : PBlock} {v : PV}
    (h : execStmt M env s = .ok (.returned v env')) : execBlock M env (.cons s rest) = .ok (.returned v env') := by
  simp only [execBlock, h, ok_bind]

theorem cons_err {M : Meths} {env : Env} {s : PStmt} {rest : PBlock} {e : PErr}
    (h : execStmt M env s = .error e) : execBlock M env (.cons s rest) = .error e := by
  simp only [execBlock, h, error_bind]

theorem assign_int (M : Meths) (env : Env) (t : String) (i : Int) :
    execStmt M env (.assign t (.int i)) = .ok (.next (env.set t (pint i))) := by
  simp [execStmt, eval]

theorem assign_none (M : Meths) (env : Env) (t : String) :
    execStmt M env (.assign t .none) = .ok (.next (env.set t pnone)) := by
  simp [execStmt, eval]

theorem assign_tt (M : Meths) (env : Env) (t : String) :
    execStmt M env (.assign t .tt) = .ok (.next (env.set t (pbool true))) := by
  simp [execStmt, eval]

theorem assign_ff (M : Meths) (env : Env) (t : String) :
    execStmt M env (.assign t .ff) = .ok (.next (env.set t (pbool false))) := by
  simp [execStmt, eval]

theorem assign_var (M : Meths) (env : Env) (t src : String) (v : PV) (h : env src = some v) :
    execStmt M env (.assign t (.var src)) = .ok (.next (env.set t v)) := by
  simp [execStmt, eval, h]

/-- a call statement without arguments -/
theorem proc0 (M : Meths) (env env' : Env) (fn : String) (hb : fn ∉ builtinNames) (hp : M.proc fn [] env = .ok env') :
    execStmt M env (.expr (.call fn .nil)) = .ok (.next env') := by
  simp [execStmt, evalArgs, evalBuiltin_none fn _ hb, hp]

/-- a call statement with one argument -/
theorem proc1 (M : Meths) (env env' : Env) (fn : String) (a : PExpr) (v : PV) (hb : fn ∉ builtinNames)
    (ha : eval M env a = .ok v) (hp : M.proc fn [v] env = .ok env') :
    execStmt M env (.expr (.call fn (.cons a .nil))) = .ok (.next env') := by
  simp [execStmt, evalArgs, ha, evalBuiltin_none fn _ hb, hp]

theorem eval_var (M : Meths) (env : Env) (p : String) (v : PV) (h : env p = some v) : eval M env (.var p) = .ok v := by
  simp [eval, h]

/-- a call expression without arguments -/
theorem fn0 (M : Meths) (env : Env) (fn : String) (r : Except PErr PV) (hb : fn ∉ builtinNames) (hf : M.fn fn [] env = r) :
    eval M env (.call fn .nil) = r := by
  simp [eval, evalArgs, evalBuiltin_none fn _ hb, hf]

theorem runFn_next {M : Meths} {env env' : Env} {b : PBlock} (h : execBlock M env b = .ok (.next env')) :
    runFn M env b = .ok (pnone, env') := by simp [runFn, h]
theorem runFn_ret {M : Meths} {env env' : Env} {b : PBlock} {v : PV} (h : execBlock M env b = .ok (.returned v env')) :
    runFn M env b = .ok (v, env') := by simp [runFn, h]
theorem runFn_err {M : Meths} {env : Env} {b : PBlock} {e : PErr} (h : execBlock M env b = .error e) :
    runFn M env b = .error e := by simp [runFn, h]

end TxH
open TxH

/-! ## 1. The transmit side of a `TransportLayerLogic` object, as the interpreter sees it -/

def txStName : TxSt → String
  | .idle => "IDLE" | .waitFc => "WAIT_FC" | .transmitCf => "TRANSMIT_CF"
  | .sfStandby => "TRANSMIT_SF_STANDBY" | .ffStandby => "TRANSMIT_FF_STANDBY"

def txStPV (t : TxSt) : PV := .sc (.enum "TxState" (txStName t))

/-- an object-valued attribute that is `None` or an (opaque) object -/
def objPV (name : String) (present : Bool) : PV := if present then .meth name else pnone

/-- the outcomes `SendRequest.complete(success)` recorded so far, oldest first, each as the two scalars `id, success`
    (the model's `.done id ok` events; the log of the model is newest first) -/
def doneHist : List Ev → List Sc
  | [] => []
  | .done id ok :: rest => doneHist rest ++ [.py (.int id), .py (.bool ok)]
  | _ :: rest => doneHist rest

/-- the attributes the transmit-side helpers read / write.  The two `Timer` sub-objects appear through their attributes
    (`self.timer_rx_fc.start_time` is the `self.start_time` of MiscTimer's `timerEnv s.timerFc`); `#done` is the history of
    completed requests (not a Python attribute: what the harness observes of `SendRequest.complete`). -/
def txAttrs (s : State) : List (String × PV) :=
  [("self.tx_state", txStPV s.txState),
   ("self.tx_frame_length", pint s.txFrameLen),
   ("self.tx_seqnum", pint s.txSeq),
   ("self.tx_block_counter", pint s.txBlockCnt),
   ("self.remote_blocksize", optPV s.remoteBs),
   ("self.wft_counter", pint s.wftCnt),
   ("self.tx_standby_msg", objPV "standby" s.standby.isSome),
   ("self.active_send_request", objPV "req" s.active.isSome),
   ("self.timer_rx_fc.start_time", optPV s.timerFc.start),
   ("self.timer_rx_fc.timeout", pint s.timerFc.timeout),
   ("self.timer_tx_stmin.start_time", optPV s.timerStmin.start),
   ("self.timer_tx_stmin.timeout", pint s.timerStmin.timeout),
   ("#done", .list (doneHist s.log))]

def txKeys : List String :=
  ["self.tx_state", "self.tx_frame_length", "self.tx_seqnum", "self.tx_block_counter", "self.remote_blocksize",
   "self.wft_counter", "self.tx_standby_msg", "self.active_send_request", "self.timer_rx_fc.start_time",
   "self.timer_rx_fc.timeout", "self.timer_tx_stmin.start_time", "self.timer_tx_stmin.timeout", "#done"]

theorem txAttrs_keys (s : State) : (txAttrs s).map (·.1) = txKeys := rfl

theorem has_txAttrs {env : Env} {s : State} (h : Has env (txAttrs s)) :
    env "self.tx_state" = some (txStPV s.txState) ∧
    env "self.tx_frame_length" = some (pint s.txFrameLen) ∧
    env "self.tx_seqnum" = some (pint s.txSeq) ∧
    env "self.tx_block_counter" = some (pint s.txBlockCnt) ∧
    env "self.remote_blocksize" = some (optPV s.remoteBs) ∧
    env "self.wft_counter" = some (pint s.wftCnt) ∧
    env "self.tx_standby_msg" = some (objPV "standby" s.standby.isSome) ∧
    env "self.active_send_request" = some (objPV "req" s.active.isSome) ∧
    env "self.timer_rx_fc.start_time" = some (optPV s.timerFc.start) ∧
    env "self.timer_rx_fc.timeout" = some (pint s.timerFc.timeout) ∧
    env "self.timer_tx_stmin.start_time" = some (optPV s.timerStmin.start) ∧
    env "self.timer_tx_stmin.timeout" = some (pint s.timerStmin.timeout) ∧
    env "#done" = some (.list (doneHist s.log)) := by
  simpa [Has, txAttrs] using h

/-- The primitives the transmit-side helpers call, in state `s`:
    * `self.active_send_request.complete(success)` appends `(id, success)` of the ACTIVE request to the history `#done`
      (calling it on `None` would be an `AttributeError`);
    * `self.timer_rx_fc.stop()` / `self.timer_tx_stmin.stop()` are `Timer.stop` on the sub-object: `start_time = None`
      (`timer_stop_agrees`, and `txMeths_timer_stop_is_source` below);
    * `float(x)` of an `int` is numerically `x` (the interpreter's arithmetic is on integers / rationals: `float(x) / 1000` is then
      the exact rational `x/1000`); `Timer(timeout=<float>)` is an opaque object; `self.timer_rx_fc.start()` on that fresh object:
      see `p_start_rx_fc_timer_agrees`;
    * `self.rx_queue.empty()` / `self.tx_queue.empty()` answer what the model's queues answer. -/
def txMeths (s : State) : Meths where
  fn := fun name args _ =>
    match name, args with
    | "float", [.sc (.py (.int i))] => .ok (pint i)
    | "Timer#timeout", [.sc (.py (.float _ _))] => .ok (.meth "Timer")
    | "self.rx_queue.empty", [] => .ok (pbool s.rxQueue.isEmpty)
    | "self.tx_queue.empty", [] => .ok (pbool s.txQueue.isEmpty)
    | n, _ => .error (.unsupported ("call " ++ n))
  proc := fun name args env =>
    match name, args with
    | "self.active_send_request.complete", [.sc (.py (.bool ok))] =>
      (match s.active, env "#done" with
       | some r, some (.list h) => .ok (env.set "#done" (.list (h ++ [.py (.int r.id), .py (.bool ok)])))
       | _, _ => .error (.exc .AttributeError))
    | "self.timer_rx_fc.stop", [] => .ok (env.set "self.timer_rx_fc.start_time" pnone)
    | "self.timer_tx_stmin.stop", [] => .ok (env.set "self.timer_tx_stmin.start_time" pnone)
    | "self.timer_rx_fc.start", [] =>
      (match env "self.timer_rx_fc" with
       | some (.meth "Timer") =>
         .ok ((env.set "self.timer_rx_fc.timeout" (pint s.cfg.tFc)).set "self.timer_rx_fc.start_time" (pint s.now))
       | _ => .error (.exc .AttributeError))
    | n, _ => .error (.unsupported ("call " ++ n))

theorem txMeths_complete (s : State) (r : Req) (ha : s.active = some r) (ok : Bool) (env : Env) (h : List Sc)
    (hd : env "#done" = some (.list h)) :
    (txMeths s).proc "self.active_send_request.complete" [pbool ok] env =
      .ok (env.set "#done" (.list (h ++ [.py (.int r.id), .py (.bool ok)]))) := by
  show (match s.active, env "#done" with
       | some r, some (PV.list h) => Except.ok (env.set "#done" (PV.list (h ++ [Sc.py (.int r.id), Sc.py (.bool ok)])))
       | _, _ => (Except.error (PErr.exc .AttributeError) : Except PErr Env)) = _
  rw [ha, hd]

theorem txMeths_fc_stop (s : State) (env : Env) :
    (txMeths s).proc "self.timer_rx_fc.stop" [] env = .ok (env.set "self.timer_rx_fc.start_time" pnone) := rfl
theorem txMeths_stmin_stop (s : State) (env : Env) :
    (txMeths s).proc "self.timer_tx_stmin.stop" [] env = .ok (env.set "self.timer_tx_stmin.start_time" pnone) := rfl

/-- the value `self.timer_rx_fc.stop()` leaves in `start_time` is the one the interpreted `Timer.stop` leaves in the `self.start_time`
    of the timer object -/
theorem txMeths_timer_stop_is_source (s : State) (env : Env) (M : Meths) :
    ((txMeths s).proc "self.timer_rx_fc.stop" [] env).map (· "self.timer_rx_fc.start_time") =
      (envM M (timerEnv s.timerFc) Src.Timer_stop).map (· "self.start_time") ∧
    ((txMeths s).proc "self.timer_tx_stmin.stop" [] env).map (· "self.timer_tx_stmin.start_time") =
      (envM M (timerEnv s.timerStmin) Src.Timer_stop).map (· "self.start_time") := by
  rw [timer_stop_start_time, timer_stop_start_time]
  exact ⟨rfl, rfl⟩

end Isotp.PyAgree
