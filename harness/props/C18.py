"""C18 - listen mode never transmits and hears the same messages."""
import gen
import ref
import trace
from props.base import PropBase
from props.C01 import frames_needed


class C18(PropBase):
    id = 'C18'
    rx_only_gaps = 0.1
    partial_passes = 0.25
    rx_only_passes = 0.4
    lean_modules = ['Isotp.Props.C18']
    theorems = []
    rule = ('conversations between two normal peers (payload mixes, block sizes, link sizes, both directions) and malformed frame sequences, tapped '
            'by a listener with the receiver address and different blocksize / stmin / padding; any batching of the listener process() calls; '
            'listener must emit nothing (except segmentation of its own send()) and deliver exactly what the normal receiver delivers; '
            'distinct = (mode, sizes, blocksizes, batching)')
    assumptions = ['each frame is processed by listener and receiver within the protocol timeouts']
    quick_per_shard = 60
    thorough_per_shard = 2000
    keep_ops = ('layer', 'send')

    def scenario(self, rng, tier):
        a, b = gen.rand_addr_pair(rng, asym_prob=0.1)
        pa = gen.rand_params(rng, simple=True)
        pb = gen.rand_params(rng, simple=True)
        pl = gen.rand_params(rng, simple=True)
        pl['listen_mode'] = True
        mfs = rng.choice([4095, 4095, 50])
        pb['max_frame_size'] = mfs
        pl['max_frame_size'] = mfs
        ops = [{'op': 'layer', 'i': 0, 'addr': a, 'params': pa}, {'op': 'layer', 'i': 1, 'addr': b, 'params': pb},
               {'op': 'layer', 'i': 2, 'addr': b, 'params': pl}]
        txdl = pa.get('tx_data_length', 8)
        pre = gen.prefix_len(a, 'tx')
        total = 0
        rid = 0
        for _ in range(rng.choice([1, 2, 3])):
            rid += 1
            n = max(1, gen.rand_len(rng, txdl, pre))
            ops.append({'op': 'send', 'i': 0, 'id': rid, 'data': gen.rand_payload(rng, n)})
            total += frames_needed(n, txdl, pre)
        if rng.random() < 0.3:
            rid += 1
            ops.append({'op': 'send', 'i': 1, 'id': rid, 'data': gen.rand_payload(rng, rng.choice([3, 20, 60]))})
            total += 12
        own = None
        if rng.random() < 0.2:
            rid += 1
            # (a multi-frame payload leaves the listener's own transmitter busy - waiting for a Flow Control, pacing, parked - while traffic goes by)
            own = gen.rand_payload(rng, rng.choice([1, 2, 3, 4, 5, 20, 45, 100]))
            ops.append({'op': 'send', 'i': 2, 'id': rid, 'data': own})
        dt = max(ref.stmin_ns(pb.get('stmin', 0)) or 0, ref.stmin_ns(pa.get('stmin', 0)) or 0, 1000000) + 1
        garbage = rng.random() < 0.3
        fid, ext, _ = gen.rx_match_frame(b, b'')
        # hypothesis of the property: listener and receiver see each frame within the protocol timeouts.
        # The listener may skip rounds (batching), but never for longer than half its N_Cr timeout.
        tcf_ns = min(pl.get('rx_consecutive_frame_timeout', 1000), pb.get('rx_consecutive_frame_timeout', 1000)) * 1000000
        since2 = 0
        for k in range(2 * total + 8):
            ops.append({'op': 'deliver', 'i': 0, 'j': 1, 'n': rng.choice([1, 2, 100]), 'tap': 2})
            if garbage and rng.random() < 0.3:
                _, _, data = gen.rx_match_frame(b, gen.rand_raw_frame(rng)[:62])
                for tgt in (1, 2):
                    ops.append({'op': 'frame', 'i': tgt, 'id': fid, 'ext': ext, 'data': data})
            ops.append({'op': 'process', 'i': 1})
            if rng.random() < 0.7 or 2 * (since2 + 2 * dt) >= tcf_ns:
                ops.append({'op': 'process', 'i': 2})
                since2 = 0
            ops.append({'op': 'deliver', 'i': 1, 'j': 0, 'n': 100000})
            ops.append({'op': 'process', 'i': 0})
            ops.append({'op': 'tick', 'dt': dt})
            since2 += dt
        for _ in range(2 * total + 30):
            ops.append({'op': 'process', 'i': 2})
            ops.append({'op': 'process', 'i': 1})
        return {'ops': ops, 'meta': {'own': own, 'garbage': garbage}}

    def project(self, op_line, out_line):
        t = op_line.split()
        if len(t) > 1 and t[0] in ('process', 'send', 'frame') and t[1] == '2':
            return trace.project_events(out_line, keep=('tx', 'deliver'), status_keys=(), drop_times=True)
        return trace.project_events(out_line, keep=('deliver',), status_keys=(), drop_times=True, drop_result=True)

    def judge(self, sc, lines_in, impl_out):
        out = []
        d1, d2, tx2 = [], [], []
        timed_out = False
        for r in trace.records(lines_in, impl_out):
            for e in r.events:
                if e['k'] == 'err' and e['name'] == 'ConsecutiveFrameTimeoutError' and r.layer in (1, 2):
                    timed_out = True    # outside the hypothesis (frames not processed within N_Cr by both observers)
                if e['k'] == 'deliver' and r.layer == 1:
                    d1.append(e['data'])
                elif e['k'] == 'deliver' and r.layer == 2:
                    d2.append(e['data'])
                elif e['k'] == 'tx' and r.layer == 2:
                    tx2.append(e['data'])
        cfg = trace.layer_cfg(sc, 2)
        own = sc['meta']['own']
        exp = []
        if own is not None:
            p = cfg['params']
            exp = ref.segment(own, prefix=ref.tx_prefix(ref.half(cfg['addr'], 'tx')), txdl=p.get('tx_data_length', 8),
                              minlen=p.get('tx_data_min_length'), padding=p.get('tx_padding'))
        if (tx2 != exp) if len(exp) <= 1 else (tx2 != exp[:len(tx2)] or not tx2):
            out.append(('silent', 'listener emitted %s; only the segmentation of its own send() is allowed (%s)' % (
                [x.hex() for x in tx2][:3], [x.hex() for x in exp])))
        if timed_out:
            return out[:3]
        if d1 != d2 and not sc['meta']['garbage']:
            out.append(('same_rx', 'normal receiver delivered %s, listener delivered %s' % ([len(x) for x in d1], [len(x) for x in d2])))
        if sc['meta']['garbage'] and d1 != d2:
            out.append(('same_rx', 'normal receiver delivered %s, listener delivered %s (with malformed traffic)' % ([len(x) for x in d1], [len(x) for x in d2])))
        return out[:3]

    def nontrivial_key(self, sc, lines_in, impl_out):
        if not any('deliver:' in o for o in impl_out):
            return None
        cfgs = [op for op in sc['ops'] if op['op'] == 'layer']
        lens = tuple(len(op['data']) for op in sc['ops'] if op['op'] == 'send')
        return (str(cfgs[0]['addr'].get('mode', 'a')), cfgs[1]['params'].get('blocksize', 8), cfgs[2]['params'].get('blocksize', 8), lens,
                sc['meta']['garbage'])


PROP = C18()
